/- C07 — translation-time constant evaluation equals run-time evaluation.

   `Gen.ConstEval.eval2` / `evalDouble` are the translation of parse.c `eval2`/`eval3`/`eval_truth`/`eval_double`/`eval_double2`
   (clang-typed, regenerated on every run; `fp : FpEnv` is the host's floating arithmetic, Model/HostFp.lean);
   `elabE` is the tree the parser and `add_type` build for an expression; `Spec.Const.eval` is the C11 value
   (`none` where C11 gives none); `img v` is the `int64_t` holding the value `v`.
   Values are stated for the wrapping host (`HostMode.wrapping`: signed overflow of the *host* arithmetic wraps, as in
   the shipped x86-64 binary); `Findings/C07.lean` shows what the strict host reading gives.
   Only property theorems here; lemmas are in Lemmas/ConstEvalLemmas.lean. -/
import ChibiVerif.Lemmas.ConstEvalLemmas
set_option linter.unusedSimpArgs false

namespace ChibiVerif.Props.C07
open ChibiVerif.Host ChibiVerif.Gen.ConstEval ChibiVerif.Spec.Const ChibiVerif.ConstElab ChibiVerif.ConstEvalLemmas

/-- **Folding equals the C11 value.**  For every integer constant expression `e` (every operator, cast to every integer type
    and `_Bool`, literal of every type, any depth, every operand value) that has a C11 value `v`: the value lies in the range
    of the C11 type of `e`, and the folder returns exactly the `int64_t` image of `v` — the value the same expression has
    at run time under C11 typing.  Holds for every host floating arithmetic `fp` (an integer constant expression never
    consults it) and with or without a relocation label. -/
theorem C07_fold (fp : FpEnv) (e : CExpr) (v : Int) (h : Spec.Const.eval e = some v) :
    (typeOf e).inRange v = true ∧ ∀ label, eval2 .wrapping fp (elabE e) label = .ok (BitVec.ofInt 64 v) :=
  fold_main fp e v h

/-- non-vacuity: `~0u >> 1` (unsigned, 2147483647) and `(-1 + 0)` through a cast to `long` -/
example : Spec.Const.eval (.bin .shr (.un .bitnot (.lit .u32 0)) (.lit .i32 1)) = some 2147483647 := by decide
example : Spec.Const.eval (.cast .i64 (.bin .add (.un .neg (.lit .i32 1)) (.lit .i32 0))) = some (-1) := by decide

/-- **Division and remainder by zero are diagnosed.**  Whenever both operands have values and the (converted) divisor is
    zero, folding `a / b` or `a % b` ends in the diagnostic — not in a host trap. -/
theorem C07_undefined_diag (fp : FpEnv) (a b : CExpr) (x y : Int) (op : BinOp) (hop : op = .div ∨ op = .mod)
    (ha : Spec.Const.eval a = some x) (hb : Spec.Const.eval b = some y)
    (hz : (ITy.common (typeOf a) (typeOf b)).convert y = 0) :
    Spec.Const.eval (.bin op a b) = none ∧
    ∀ label, eval2 .wrapping fp (elabE (.bin op a b)) label = .error (.diag "division by zero in a constant expression") := by
  have fa := fold_main fp a x ha
  have fb := fold_main fp b y hb
  have hl := cast_ok fp (ITy.common (typeOf a) (typeOf b)) fa
  have hr := cast_ok fp (ITy.common (typeOf a) (typeOf b)) fb
  rw [hz] at hr
  rcases hop with h | h <;> subst h
  · refine ⟨by simp [Spec.Const.eval, ha, hb, BinOp.isShift, binop, hz], fun label => ?_⟩
    simp only [elabE, mkArith, bin, elab_ty, gct_descr]
    rw [eval2_DIV _ _ _ _ _ _ _ _ _ _ _ (descr_not_flonum _)]
    simp only [hl, hr, bind, Except.bind, divmod]; rfl
  · refine ⟨by simp [Spec.Const.eval, ha, hb, BinOp.isShift, binop, hz], fun label => ?_⟩
    simp only [elabE, mkArith, bin, elab_ty, gct_descr]
    rw [eval2_MOD _ _ _ _ _ _ _ _ _ _ _ (descr_not_flonum _)]
    simp only [hl, hr, bind, Except.bind, divmod]; rfl

example : (ITy.common (typeOf (.lit .i32 1)) (typeOf (.bin .sub (.lit .u8 2) (.lit .i64 2)))).convert 0 = 0 := by decide

/-- **The folder never traps.**  On *every* expression tree — operands defined in C11 or not, `INT64_MIN / -1`,
    `x % -1`, any shift count — folding ends in a value, in a diagnostic, or (only for a shift count outside 0..63, which C11
    leaves undefined and x86 masks) in the host's undefined shift; never in SIGFPE, a NULL dereference or an unmodelled arm. -/
theorem C07_no_trap (fp : FpEnv) (e : CExpr) (label : Bool) (f : Fail)
    (h : eval2 .wrapping fp (elabE e) label = .error f) :
    (∃ msg, f = .diag msg) ∨ f = .hostUB "shift count out of range" := by
  have := no_trap fp e label f h
  cases f with
  | diag m => exact Or.inl ⟨m, rfl⟩
  | hostUB w => right; simp only [Benign] at this; rw [this]
  | crash w => exact absurd this (by simp [Benign])
  | unmodelled w => exact absurd this (by simp [Benign])

/-- **`INT_MIN / -1` and `x % -1` fold without a trap**: a signed division whose (converted) divisor is not zero always
    yields a value — the truncated quotient wrapped to the type, so `LONG_MIN / -1` gives `LONG_MIN` — and the remainder is
    the C remainder. -/
theorem C07_division_total (fp : FpEnv) (a b : CExpr) (x y : Int)
    (ha : Spec.Const.eval a = some x) (hb : Spec.Const.eval b = some y)
    (hz : (ITy.common (typeOf a) (typeOf b)).convert y ≠ 0) (label : Bool) :
    eval2 .wrapping fp (elabE (.bin .div a b)) label
      = .ok (BitVec.ofInt 64 ((ITy.common (typeOf a) (typeOf b)).convert
          (((ITy.common (typeOf a) (typeOf b)).convert x).tdiv ((ITy.common (typeOf a) (typeOf b)).convert y)))) ∧
    eval2 .wrapping fp (elabE (.bin .mod a b)) label
      = .ok (BitVec.ofInt 64 (((ITy.common (typeOf a) (typeOf b)).convert x).tmod ((ITy.common (typeOf a) (typeOf b)).convert y))) := by
  have fa := fold_main fp a x ha
  have fb := fold_main fp b y hb
  have hw : Wide (ITy.common (typeOf a) (typeOf b)) := common_wide _ _
  simp only [elabE, mkArith, bin, elab_ty, gct_descr]
  generalize ITy.common (typeOf a) (typeOf b) = t at hz hw ⊢
  have hl := cast_ok fp t fa
  have hr := cast_ok fp t fb
  have hx := convert_inRange t x
  have hy := convert_inRange t y
  constructor
  · rw [eval2_DIV _ _ _ _ _ _ _ _ _ _ _ (descr_not_flonum _)]
    simp only [hl, hr, bind, Except.bind, pure, Except.pure, divmod_div t _ _ hw hx hy hz, wrap_convert t hw.ne_bool]
  · rw [eval2_MOD _ _ _ _ _ _ _ _ _ _ _ (descr_not_flonum _)]
    simp only [hl, hr, bind, Except.bind, pure, Except.pure, divmod_mod t _ _ hw hx hy hz, wrap_convert t hw.ne_bool,
      convert_id t _ (tmod_inRange t _ _ hw hx hy)]

/-- `LONG_MIN / -1` folds to `LONG_MIN` (kernel-evaluated instance) -/
example : eval2 .wrapping noFp (elabE (.bin .div (.bin .sub (.un .neg (.lit .i64 9223372036854775807)) (.lit .i32 1))
    (.un .neg (.lit .i32 1)))) false = .ok (BitVec.ofInt 64 (-9223372036854775808)) := by decide

/-- **Constness (accepted).**  Every integer constant expression in the sense of C11 6.6p6 — any tree of the operators
    `+ - * / % & | ^ << >> == != < <= > >= ! ~ - + && || ?:` and casts that has a value, where operands that C11 says are
    not evaluated need not have one — is accepted by `is_const_expr`, so an array whose bound it is is an array, not a VLA. -/
theorem C07_constness (fp : FpEnv) (e : CExpr) (v : Int) (h : Spec.Const.eval e = some v) :
    isConstExpr .wrapping fp (elabE e) = .ok true :=
  isConst_elab fp e v h

/-- non-vacuity: `7 % 4` (the array bound the pinned tree turned into a VLA), and `1 || (1/0 ? 1 : 2)` whose right operand
    has no value -/
example : Spec.Const.eval (.bin .mod (.lit .i32 7) (.lit .i32 4)) = some 3 := by decide
example : Spec.Const.eval (.lor (.lit .i32 1) (.cond (.bin .div (.lit .i32 1) (.lit .i32 0)) (.lit .i32 1) (.lit .i32 2))) = some 1 := by
  decide

/-- **Constness (sound)**: on *any* node tree of arithmetic type (not only elaborated ones: `ArithTyped` says that every node
    has integer or floating type and that a node of floating type is one of `+ - * /`, unary `-`, `?:`, `,`, cast, constant —
    what `add_type` guarantees), if `is_const_expr` accepts it then folding it — as an integer through `eval2` or as a
    floating value through `eval_double` — never answers "not a compile-time constant": the predicate that decides
    array-vs-VLA never lets the folder reach an arm it cannot fold.  (`FpZeroExact`: the host's `long double` made from an
    integer compares equal to 0 exactly when the integer is 0, so that `eval_truth` and `eval_double(cond) ? :` select the
    same operand.) -/
theorem C07_constness_sound (fp : FpEnv) (hfp : FpZeroExact fp) (n : CNode) (hn : ArithTyped n = true)
    (h : isConstExpr .wrapping fp n = .ok true) (label : Bool) :
    eval2 .wrapping fp n label ≠ .error (.diag "not a compile-time constant") ∧
    evalDouble .wrapping fp n ≠ .error (.diag "not a compile-time constant") :=
  ⟨(const_clean fp hfp n hn h).1 label, (const_clean fp hfp n hn h).2⟩

example : FpZeroExact noFp := noFp_zeroExact
example : ArithTyped (elabE (.bin .mod (.lit .i32 7) (.lit .i32 4))) = true ∧
    isConstExpr .wrapping noFp (elabE (.bin .mod (.lit .i32 7) (.lit .i32 4))) = .ok true := by decide

/-- **Order of evaluation.**  In every binary arm of the generated `eval3` (and of `eval_double2`) the LEFT operand is
    evaluated first: if it fails, its failure — its diagnostic — is the node's, whatever the right operand is (it is not even
    looked at); the right operand's failure is reported only when the left operand has a value (`LeftFirst L R N`).  So of two
    non-constant operands the left one is diagnosed, independently of the compiler that compiled parse.c (the translator
    refuses a source in which both operands are evaluated inside one expression).  `+` and `-` hand the relocation label to
    the left operand only (`leftLabel`); a comparison evaluates floating operands with `eval_double`. -/
theorem C07_fold_order (fp : FpEnv) (ty : CTy) (nv : BitVec 64) (fv : BitVec 80) (l r c t e : CNode) (label : Bool) :
    (isFlonum ty = false → ∀ k ∈ arithKinds,
        LeftFirst (eval2 .wrapping fp l (leftLabel k label)) (eval2 .wrapping fp r false)
          (eval2 .wrapping fp (.mk k ty nv fv l r c t e) label)) ∧
    (isFlonum ty = false → ∀ k ∈ cmpKinds, ∀ tl, CNode.tyOf l = .ok tl →
        (isFlonum tl = false → LeftFirst (eval2 .wrapping fp l false) (eval2 .wrapping fp r false)
            (eval2 .wrapping fp (.mk k ty nv fv l r c t e) label)) ∧
        (isFlonum tl = true → LeftFirst (evalDouble .wrapping fp l) (evalDouble .wrapping fp r)
            (eval2 .wrapping fp (.mk k ty nv fv l r c t e) label))) ∧
    (isInteger ty = false → ∀ k ∈ farithKinds,
        LeftFirst (evalDouble .wrapping fp l) (evalDouble .wrapping fp r) (evalDouble .wrapping fp (.mk k ty nv fv l r c t e))) :=
  ⟨fun hf k hk => order_arith fp ty nv fv l r c t e label hf k hk,
   fun hf k hk tl htl => order_cmp fp ty nv fv l r c t e label hf k hk tl htl,
   fun hi k hk => order_farith fp ty nv fv l r c t e hi k hk⟩

/-- non-vacuity: `(1/0) + x` is answered with the division diagnostic, `x + (1/0)` with "not a compile-time constant"
    (`x` a variable: `ND_VAR`), for `+`, `<` and `*` -/
example :
    let x : CNode := .mk .ND_VAR tyInt 0 0 .null .null .null .null .null
    let z : CNode := elabE (.bin .div (.lit .i32 1) (.lit .i32 0))
    (∀ k ∈ [NodeKind.ND_ADD, .ND_MUL, .ND_LT],
      eval2 .wrapping noFp (.mk k tyInt 0 0 z x .null .null .null) false = .error (.diag "division by zero in a constant expression") ∧
      eval2 .wrapping noFp (.mk k tyInt 0 0 x z .null .null .null) false = .error (.diag "not a compile-time constant")) := by decide

/-- **Consumers.**  Each place that stores a folded constant keeps the C11 conversion of the value to the consumer's type:
    enumerator (`int val`), array bound (`array_of(int len)`), bit-field width, array designator bounds, initializer-element
    counter (all `int`: exact for every value an `int` holds), case labels (`long begin/end`: exact for every `long`),
    `_Alignas(n)` / `aligned(n)` (the `int64_t` is validated first: the answer is the diagnostic or the `int` holding exactly
    `n`, which then lies in 0 .. 2^28; every power of two up to 2^28 is accepted), and static initializers
    (`write_gvar_data`: the object receives the C11 conversion of the value to the object's type, `_Bool` by comparison with
    zero, every other integer type modulo 2^N; `storeGvarScalar` is the whole scalar path including `eval2(init->expr, &label)`
    and the test for a floating initializer of an unsigned 8-byte object; floating initializers and floating objects are
    in Props/C07Float.lean). -/
theorem C07_consumers :
    (∀ v : Int, ITy.inRange .i32 v = true →
        (store_enum_specifier_val (BitVec.ofInt 64 v)).toInt = v ∧
        (store_array_dimensions_array_of_len (BitVec.ofInt 64 v)).toInt = v ∧
        (store_struct_members_mem_bit_width (BitVec.ofInt 64 v)).toInt = v ∧
        (store_array_designator_begin (BitVec.ofInt 64 v)).toInt = v ∧
        (store_array_designator_end (BitVec.ofInt 64 v)).toInt = v ∧
        (store_count_array_init_elements_i (BitVec.ofInt 64 v)).toInt = v) ∧
    (∀ v : Int, ITy.inRange .i64 v = true →
        (store_stmt_begin (BitVec.ofInt 64 v)).toInt = v ∧ (store_stmt_end (BitVec.ofInt 64 v)).toInt = v) ∧
    (∀ v : BitVec 64, AlignStored v (store_declspec_align .wrapping v) ∧ AlignStored v (store_attribute_list_ty_align .wrapping v)) ∧
    (∀ k ∈ List.range 29,
        store_declspec_align .wrapping (BitVec.ofNat 64 (2 ^ k)) = .ok (BitVec.ofNat 32 (2 ^ k)) ∧
        store_attribute_list_ty_align .wrapping (BitVec.ofNat 64 (2 ^ k)) = .ok (BitVec.ofNat 32 (2 ^ k))) ∧
    (∀ (fp : FpEnv) (t : ITy) (e : CExpr) (v : Int), Spec.Const.eval e = some v →
        storeGvar .wrapping fp (descr t) (elabE e) (BitVec.ofInt 64 v) = .ok (objBits t (t.convert v)) ∧
        storeGvarScalar .wrapping fp (descr t) (elabE e) = .ok (objBits t (t.convert v))) := by
  refine ⟨fun v h => ?_, fun v h => ⟨store_long v h, store_long v h⟩, fun v => ⟨store_declspec_exact v, store_attribute_exact v⟩,
    store_align_pow2, fun fp t e v h => ⟨store_gvar fp t e v (fold_main fp e v h), store_gvar_scalar fp t e v (fold_main fp e v h)⟩⟩
  have := store_int v h
  exact ⟨this, this, this, this, this, this⟩

/-- `static _Bool b = 256;` stores 1, `static unsigned char c = 300;` stores 44, `_Alignas(3)` is diagnosed (kernel-evaluated) -/
example : storeGvar .wrapping noFp (descr .bool) (elabE (.lit .i32 256)) (BitVec.ofInt 64 256) = .ok 1#64 := by decide
example : storeGvar .wrapping noFp (descr .u8) (elabE (.lit .i32 300)) (BitVec.ofInt 64 300) = .ok 44#64 := by decide
example : store_declspec_align .wrapping 3#64 = .error (.diag "alignment must be a power of two no larger than 2^28") := by decide

end ChibiVerif.Props.C07
