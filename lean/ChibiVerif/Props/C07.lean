/- C07: translation-time constant evaluation equals run-time evaluation (theorems; in progress) -/
import ChibiVerif.Model.ConstElab

namespace ChibiVerif.Props.C07
open ChibiVerif.Host ChibiVerif.Gen.ConstEval ChibiVerif.Spec.Const ChibiVerif.ConstElab

/-- placeholder while the proofs are being built -/
theorem C07_smoke : eval2 .wrapping noFp (elabE (.bin .add (.un .neg (.lit .i32 1)) (.lit .i32 0))) false = .ok (BitVec.ofInt 64 (-1)) := by
  decide

end ChibiVerif.Props.C07
