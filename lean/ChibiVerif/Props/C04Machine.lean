/-
C04 — every lvalue designates exactly its object's bytes and bits: the machine-level half.

The theorems of Props/C04.lean about bit-fields talk about `bfLoadT` / `bfAssignT`, hand-written meanings of the two
instruction sequences.  Here the *regenerated* instruction lists themselves (`Gen.C04.loadIntLine`, `storeIntLines`,
`boolCastLines`, `bfExtractLines`, `bfAssignLines`, put together by `BitField.loadSeq` / `assignSeq` exactly as they are
compared with `chibicc -S`) are executed by `X86.run` — the executable x86-64 semantics of Model/X86.lean that C01
validates against the host CPU — on an arbitrary register file and an arbitrary byte-addressed memory (addresses are
`BitVec 64`, wrapping like the hardware).  The hand-written meanings become lemmas (`C04_bf_load_x86`,
`C04_bf_assign_x86`), and the round-trip / neighbour theorems are restated about machine states.

Property theorems only (helper lemmas: Lemmas/C04X86.lean, Lemmas/C04X86Mem.lean).
-/
import ChibiVerif.Props.C04
import ChibiVerif.Lemmas.C04X86Mem
import ChibiVerif.Lemmas.C04X86Copy
import ChibiVerif.Lemmas.C04X86Stmt

namespace ChibiVerif.Props.C04
open ChibiVerif.Gen.C04 ChibiVerif.BitField ChibiVerif.Spec.C04 ChibiVerif.X86 ChibiVerif.C04X86

/-! ## scalar loads and stores of every integer type (codegen.c `load`, `store`) -/

/-- **C04 (load, every integer type, every address).**  With an address `p` in %rax — any address, aligned or not — the
    line `load(ty)` prints leaves in %rax the `size` bytes at `p` (little endian), sign-extended (`char`, `short`, `_Bool`)
    or zero-extended (`unsigned char`, `unsigned short`) to 32 bits with the upper half cleared, sign-extended to 64 bits
    (`int` and — by `movsxd` — `unsigned`), or as they are (`long`, `unsigned long`); memory and every other register are
    unchanged. -/
theorem C04_load_x86 (t : BfType) (s : State) :
    ∃ s', X86.run (insOf [loadIntLine t.implSize t.implUnsigned]) s = some s' ∧
      s'.get .rax = loadUnit t.usize t.implUnsigned (unitAt s (s.get .rax) t.usize) ∧ s'.mem = s.mem ∧
      (∀ x, x ≠ .rax → s'.get x = s.get x) ∧
      (∀ i, i < 64 → (i < 32 ∨ t.usize = .b4) →
        (s'.get .rax).getLsbD i =
          if i < t.usize.bits then (unitAt s (s.get .rax) t.usize).getLsbD i
          else (!(t.implUnsigned && decide (t.usize.bits < 32)) && (unitAt s (s.get .rax) t.usize).getLsbD (t.usize.bits - 1))) ∧
      (t.usize.bits < 32 → ∀ i, 32 ≤ i → (s'.get .rax).getLsbD i = false) := by
  obtain ⟨s', h1, h2, h3, h4⟩ := load_run t s
  refine ⟨s', h1, h2, h3, h4, ?_, ?_⟩
  · intro i hi hi2
    rw [h2]
    exact loadUnit_bits t.usize t.implUnsigned _ i hi2 hi
  · intro hu i hi
    rw [h2]
    exact loadUnit_high t.usize t.implUnsigned _ hu i hi

/-- non-vacuity: `signed char` 0x80 at an odd address loads as 0xffffff80 (upper half clear), `unsigned short` 0x8001 as 0x8001 -/
example : (loadUnit .b1 (BfType.char).implUnsigned 0x80#8) = 0xffffff80#64 ∧ (loadUnit .b2 (BfType.ushort).implUnsigned 0x8001#16) = 0x8001#64 := by
  decide

/-- **C04 (store, every integer type, every address).**  With the address `p` on top of the stack, `store(ty)` writes the
    low `8·size` bits of %rax to the `size` bytes at `p` and to no other byte (any `x` that is none of `p, …, p+size-1`
    keeps its content), pops the address, and leaves %rax — the value of the assignment expression — unchanged. -/
theorem C04_store_x86 (t : BfType) (s : State) :
    ∃ s', X86.run (insOf (storeIntLines t.implSize)) s = some s' ∧
      unitAt s' (s.read64 (s.get .rsp)) t.usize = storeUnit t.usize (s.get .rax) ∧
      (∀ x : BitVec 64, (∀ k : Nat, k < t.usize.bytes → x ≠ s.read64 (s.get .rsp) + BitVec.ofNat 64 k) → s'.mem x = s.mem x) ∧
      s'.get .rsp = s.get .rsp + 8 ∧ s'.get .rax = s.get .rax ∧
      (∀ x, x ≠ .rdi → x ≠ .rsp → s'.get x = s.get x) := by
  obtain ⟨s', h1, h2, h3, _, h5⟩ := store_run t s
  refine ⟨s', h1, unitAt_memSet s s' _ _ _ h2, ?_, h3, h5 .rax (by decide) (by decide), h5⟩
  intro x hx
  rw [h2]
  exact memSet_outside _ _ _ _ x hx

/-- **C04 (a stored scalar is read back unchanged).**  Store through an lvalue of integer type `t`, then — in any later
    state with the same memory and the object's address in %rax — load: %rax holds the stored low bits, extended as
    `load` extends type `t`. -/
theorem C04_scalar_roundtrip_x86 (t : BfType) (s s1 s2 : State)
    (h1 : X86.run (insOf (storeIntLines t.implSize)) s = some s1)
    (hm : s2.mem = s1.mem) (ha : s2.get .rax = s.read64 (s.get .rsp)) :
    ∃ s3, X86.run (insOf [loadIntLine t.implSize t.implUnsigned]) s2 = some s3 ∧
      s3.get .rax = loadUnit t.usize t.implUnsigned (storeUnit t.usize (s.get .rax)) := by
  obtain ⟨s1', e1, e2, _⟩ := C04_store_x86 t s
  rw [h1] at e1
  cases e1
  obtain ⟨s3, l1, l2, _⟩ := load_run t s2
  refine ⟨s3, l1, ?_⟩
  rw [l2, ha, unitAt_mem s1 s2 hm, e2]

/-- non-vacuity of the hypotheses: the store runs from every state -/
example (t : BfType) (s : State) : ∃ s1, X86.run (insOf (storeIntLines t.implSize)) s = some s1 :=
  let ⟨s1, h, _⟩ := C04_store_x86 t s; ⟨s1, h⟩

/-- **C04 (`_Bool` normalisation on store).**  An assignment to a `_Bool` lvalue evaluates `cast(from, _Bool)` and then
    `store(_Bool)`.  With the address on top of the stack and the integer right-hand side in %rax (`small`: its type has at
    most 4 bytes, so only %eax is significant): the byte at `p` becomes 1 if the value is non-zero and 0 otherwise — never
    any other bit pattern — no other byte changes, and %rax holds that same 0 or 1. -/
theorem C04_store_bool (small : Bool) (s : State) :
    ∃ s', X86.run (insOf (boolCastLines small ++ storeIntLines (BfType.bool).implSize)) s = some s' ∧
      s'.mem (s.read64 (s.get .rsp)) =
        (if (if small then (s.get .rax).setWidth 32 = 0#32 else s.get .rax = 0#64) then 0#8 else 1#8) ∧
      (∀ x : BitVec 64, x ≠ s.read64 (s.get .rsp) → s'.mem x = s.mem x) ∧
      s'.get .rax = (if (if small then (s.get .rax).setWidth 32 = 0#32 else s.get .rax = 0#64) then 0#64 else 1#64) ∧
      s'.get .rsp = s.get .rsp + 8 := by
  obtain ⟨s1, c1, c2, c3, c4⟩ := bool_cast_run small s
  obtain ⟨s2, d1, d2, d3, d4, d5, d6⟩ := C04_store_x86 .bool s1
  rw [insOf_append, run_append, c1]
  simp only
  have hp : s1.read64 (s1.get .rsp) = s.read64 (s.get .rsp) := by
    rw [read64_mem s s1 c3, c4 .rsp (by decide)]
  rw [hp] at d2 d3
  refine ⟨s2, d1, ?_, ?_, ?_, ?_⟩
  · have : s2.mem (s.read64 (s.get .rsp)) = unitAt s2 (s.read64 (s.get .rsp)) .b1 := rfl
    rw [this]
    have e : (BfType.bool).usize = .b1 := rfl
    rw [e] at d2
    rw [d2, c2]
    unfold storeUnit
    split <;> split <;> rfl
  · intro x hx
    rw [d3 x, c3]
    intro k hk
    have : k = 0 := by
      have : (BfType.bool).usize.bytes = 1 := rfl
      omega
    subst this
    simpa using hx
  · rw [d5, c2]
  · rw [d4, c4 .rsp (by decide)]

/-- non-vacuity / sharpness: `*p = 256` with an `int` right-hand side stores 1 (not the truncated 0); `*p = 0x100000000L`
    with a `long` one stores 1, while the same bits as an `int` (`small`) are 0 -/
example : ((0x100#64).setWidth 32 = 0#32) = False ∧ ((0x100000000#64) = 0#64) = False ∧ ((0x100000000#64).setWidth 32 = 0#32) = True := by
  decide

/-! ## bit-fields on the machine -/

/-- **C04 (bit-field load = the emitted instructions).**  `X86.run` of the lines printed for reading a bit-field
    (`load(mem->ty); shl; shr|sar`), started with the unit's address in %rax, leaves in %rax exactly what the meaning
    `bfLoadT` says about the unit's bytes; memory and all other registers are unchanged. -/
theorem C04_bf_load_x86 (t : BfType) (w o : Nat) (hw : 1 ≤ w) (hwo : o + w ≤ t.usize.bits) (s : State) :
    ∃ s', X86.run (insOf (loadSeq t w o)) s = some s' ∧
      s'.get .rax = bfLoadT t w o (unitAt s (s.get .rax) t.usize) ∧ s'.mem = s.mem ∧
      ∀ x, x ≠ .rax → s'.get x = s.get x :=
  bf_load_run t w o hw hwo s

/-- **C04 (bit-field assignment = the emitted instructions).**  `X86.run` of the bit-field arm of ND_ASSIGN (13
    instructions, mask and shift counts computed from width and offset as codegen.c computes them), started with the unit's
    address `p` on top of the stack and the right-hand side in %rax: the unit at `p` becomes `(bfAssignT …).unit`, %rax
    becomes `(bfAssignT …).rax`, the address is popped, and only %rax, %rdi, %r9, %rsp change. -/
theorem C04_bf_assign_x86 (t : BfType) (w o : Nat) (hw : 1 ≤ w) (hwo : o + w ≤ t.usize.bits) (s : State) :
    ∃ s', X86.run (insOf (assignSeq t w o)) s = some s' ∧
      s'.get .rax = (bfAssignT t w o (unitAt s (s.read64 (s.get .rsp)) t.usize) (s.get .rax)).rax ∧
      unitAt s' (s.read64 (s.get .rsp)) t.usize = (bfAssignT t w o (unitAt s (s.read64 (s.get .rsp)) t.usize) (s.get .rax)).unit ∧
      (∀ x : BitVec 64, (∀ k : Nat, k < t.usize.bytes → x ≠ s.read64 (s.get .rsp) + BitVec.ofNat 64 k) → s'.mem x = s.mem x) ∧
      s'.get .rsp = s.get .rsp + 8 ∧
      ∀ x, x ≠ .rax → x ≠ .rdi → x ≠ .r9 → x ≠ .rsp → s'.get x = s.get x := by
  obtain ⟨s', h1, h2, h3, h4, h5⟩ := bf_assign_run t w o hw hwo s
  refine ⟨s', h1, h2, unitAt_memSet s s' _ _ _ h3, ?_, h4, h5⟩
  intro x hx
  rw [h3]
  exact memSet_outside _ _ _ _ x hx

/-- non-vacuity: the sequences are non-empty lists of decodable instructions (`int f:3` at bit 5) -/
example : (insOf (assignSeq .int 3 5)).length = 13 ∧ (insOf (loadSeq .int 3 5)).length = 3 ∧
    (X86.decodeAll (insOf (assignSeq .int 3 5))).isSome = true := by decide

/-- **C04 (bit-field round trip on the machine).**  Run the emitted assignment; in any later state with the same memory
    and the unit's address in %rax run the emitted load: %rax holds `fieldValue t w v` — the low `w` bits of the assigned
    value, sign- or zero-extended as C11 6.7.2.1p10 / 6.3.1.3 require — and that is also the value the assignment
    expression left in %rax. -/
theorem C04_bf_roundtrip_x86 (t : BfType) (w o : Nat) (hw : 1 ≤ w) (hwo : o + w ≤ t.usize.bits) (s s1 s2 : State)
    (h1 : X86.run (insOf (assignSeq t w o)) s = some s1)
    (hm : s2.mem = s1.mem) (ha : s2.get .rax = s.read64 (s.get .rsp)) :
    s1.get .rax = fieldValue t w (s.get .rax) ∧
    ∃ s3, X86.run (insOf (loadSeq t w o)) s2 = some s3 ∧ s3.get .rax = fieldValue t w (s.get .rax) := by
  obtain ⟨s1', e1, e2, e3, _⟩ := C04_bf_assign_x86 t w o hw hwo s
  rw [h1] at e1
  cases e1
  refine ⟨?_, ?_⟩
  · rw [e2]
    exact C04_bf_assign_value_spec t w o hw hwo _ _
  · obtain ⟨s3, l1, l2, _⟩ := C04_bf_load_x86 t w o hw hwo s2
    refine ⟨s3, l1, ?_⟩
    rw [l2, ha, unitAt_mem s1 s2 hm, e3]
    exact C04_bf_roundtrip t w o hw hwo _ _

example (t : BfType) (w o : Nat) (hw : 1 ≤ w) (hwo : o + w ≤ t.usize.bits) (s : State) :
    ∃ s1, X86.run (insOf (assignSeq t w o)) s = some s1 :=
  let ⟨s1, h, _⟩ := C04_bf_assign_x86 t w o hw hwo s; ⟨s1, h⟩

/-- **C04 (bit-field neighbours on the machine).**  After the emitted assignment every bit of memory — bit `b` of the
    byte at any address `x` — keeps its value unless it is one of the `w` bits of the field: `x` is byte `k` of the unit and
    `o ≤ 8k + b < o + w`.  (Other bits of the unit, other bytes of the struct, everything else.) -/
theorem C04_bf_neighbours_x86 (t : BfType) (w o : Nat) (hw : 1 ≤ w) (hwo : o + w ≤ t.usize.bits) (s s1 : State)
    (h1 : X86.run (insOf (assignSeq t w o)) s = some s1) (x : BitVec 64) (b : Nat) (hb : b < 8)
    (hout : ∀ k : Nat, k < t.usize.bytes → x = s.read64 (s.get .rsp) + BitVec.ofNat 64 k → 8 * k + b < o ∨ o + w ≤ 8 * k + b) :
    (s1.mem x).getLsbD b = (s.mem x).getLsbD b := by
  obtain ⟨s1', e1, _, e3, e4, _⟩ := C04_bf_assign_x86 t w o hw hwo s
  rw [h1] at e1
  cases e1
  by_cases hx : ∃ k : Nat, k < t.usize.bytes ∧ x = s.read64 (s.get .rsp) + BitVec.ofNat 64 k
  · obtain ⟨k, hk, rfl⟩ := hx
    have hi : 8 * k + b < t.usize.bits := by
      show 8 * k + b < 8 * t.usize.bytes
      omega
    rw [← unitAt_bit s1 _ t.usize k b hk hb, e3, C04_bf_neighbours t w o hw hwo _ _ _ hi (hout k hk rfl),
      unitAt_bit s _ t.usize k b hk hb]
  · rw [e4 x]
    intro k hk heq
    exact hx ⟨k, hk, heq⟩

/-- **C04 (a whole assignment statement to a bit-field of a local object).**  The code of `local.member = c` as
    `gen_expr` emits it for ND_ASSIGN — `gen_addr(lhs)` = `lea d(%rbp), %rax; add $k, %rax` (local at `d(%rbp)`, member at
    byte offset `k`), `push %rax`, the right-hand side `mov $c, %rax`, then the bit-field arm — run from any state in which
    the storage unit does not overlap the 8-byte push slot below %rsp: the unit at `p = rbp + d + k` becomes
    `(bfAssignT …).unit` (only the `w` bits of the field change: `C04_bf_neighbours`), %rax holds the value of the
    assignment, %rsp and %rbp are restored, and no byte of memory changes except the unit and the (dead) push slot. -/
theorem C04_bf_assign_local_x86 (d k c : Int) (t : BfType) (w o : Nat) (hw : 1 ≤ w) (hwo : o + w ≤ t.usize.bits) (s : State)
    (p : BitVec 64) (hp : p = s.get .rbp + BitVec.ofInt 64 d + BitVec.ofInt 64 k)
    (hsep : ∀ i j : Nat, i < t.usize.bytes → j < 8 → p + BitVec.ofNat 64 i ≠ s.get .rsp - 8 + BitVec.ofNat 64 j) :
    ∃ s', X86.run (insOf (assignLocalSeq d k c t w o)) s = some s' ∧
      unitAt s' p t.usize = (bfAssignT t w o (unitAt s p t.usize) (BitVec.ofInt 64 c)).unit ∧
      s'.get .rax = fieldValue t w (BitVec.ofInt 64 c) ∧
      s'.get .rsp = s.get .rsp ∧ s'.get .rbp = s.get .rbp ∧
      ∀ x : BitVec 64, (∀ i : Nat, i < t.usize.bytes → x ≠ p + BitVec.ofNat 64 i) →
        (∀ j : Nat, j < 8 → x ≠ s.get .rsp - 8 + BitVec.ofNat 64 j) → s'.mem x = s.mem x := by
  obtain ⟨s', h1, h2, h3, h4, h5, h6⟩ := bf_assign_local_run d k c t w o hw hwo s p hp hsep
  rw [assignLocalSeq_ins]
  refine ⟨s', h1, h2, ?_, h4, h5, h6⟩
  rw [h3]
  exact C04_bf_assign_value_spec t w o hw hwo _ _

/-- non-vacuity: `struct { char lead[5]; int f:3 at bit 5 } s` at -16(%rbp): 17 decodable instructions; with %rbp = 0x8000
    and %rsp = 0x7fe0 the unit (0x7ff8..0x7ffb) is clear of the push slot (0x7fd8..0x7fdf) -/
example : (insOf (assignLocalSeq (-16) 8 9 .int 3 5)).length = 17 ∧
    (X86.decodeAll (insOf (assignLocalSeq (-16) 8 9 .int 3 5))).isSome = true := by
  decide

/-! ## whole-aggregate assignment on the machine -/

/-- **C04 (struct / union assignment = the emitted byte loop).**  `X86.run` of what `store` prints for an aggregate of
    `size` bytes (`pop %rdi` and `size` pairs `mov i(%rax), %r8b; mov %r8b, i(%rdi)`), with the destination address `dst` on
    top of the stack and the source address `src` in %rax — `*p = *q`, `a[i] = s`, `s.m = f()` alike: if both objects lie in
    the address space without wrapping and are disjoint, identical (`x = x`), or the destination starts below the source,
    then byte `k` of the destination receives byte `k` of the source for every `k < size`, every byte of memory outside
    `[dst, dst + size)` is unchanged, %rax still holds `src` (the value of the assignment expression) and the address is
    popped. -/
theorem C04_copy_x86 (size : Nat) (s : State)
    (hd : (s.read64 (s.get .rsp)).toNat + size ≤ 2 ^ 64) (hs : (s.get .rax).toNat + size ≤ 2 ^ 64)
    (h : (s.read64 (s.get .rsp)).toNat ≤ (s.get .rax).toNat ∨ (s.get .rax).toNat + size ≤ (s.read64 (s.get .rsp)).toNat) :
    ∃ s', X86.run (insOf (storeStructLines size)) s = some s' ∧
      (∀ k : Nat, k < size → s'.mem (s.read64 (s.get .rsp) + BitVec.ofNat 64 k) = s.mem (s.get .rax + BitVec.ofNat 64 k)) ∧
      (∀ x : BitVec 64, (x.toNat < (s.read64 (s.get .rsp)).toNat ∨ (s.read64 (s.get .rsp)).toNat + size ≤ x.toNat) → s'.mem x = s.mem x) ∧
      s'.get .rax = s.get .rax ∧ s'.get .rsp = s.get .rsp + 8 := by
  obtain ⟨s', r, m, o, g1, g2⟩ := storeStruct_run size (by omega) s (no_clobber _ _ size hd hs h)
  refine ⟨s', r, m, ?_, g1, g2⟩
  intro x hx
  apply o
  intro k hk heq
  have := congrArg BitVec.toNat heq
  rw [toNat_add_ofNat _ _ (by omega)] at this
  omega

/-- **C04 (struct argument by value = the emitted `push_struct`).**  `sub $align_to(size, 8), %rsp` and the byte loop:
    %rsp drops by the rounded size (so the next argument stays 8-aligned), the `size` bytes of the argument object (address
    in %rax) are copied to the new top of stack, byte `k` to byte `k`; nothing outside `[rsp', rsp' + size)` is written —
    in particular not the padding bytes up to `rsp' + align_to(size, 8)`, nor the temporaries above — and %rax is unchanged.
    Hypothesis as for `C04_copy_x86` (the pushed copy starts below every object of the running frame, so `dst ≤ src` is the
    normal case). -/
theorem C04_push_struct_x86 (size : Nat) (s : State) (dst : BitVec 64)
    (hdst : dst = s.get .rsp - BitVec.ofInt 64 (Gen.Declspec.alignTo (size : Int) 8))
    (hd : dst.toNat + size ≤ 2 ^ 64) (hs : (s.get .rax).toNat + size ≤ 2 ^ 64)
    (h : dst.toNat ≤ (s.get .rax).toNat ∨ (s.get .rax).toNat + size ≤ dst.toNat) :
    ∃ s', X86.run (insOf (pushStructLines size)) s = some s' ∧ s'.get .rsp = dst ∧
      (∀ k : Nat, k < size → s'.mem (dst + BitVec.ofNat 64 k) = s.mem (s.get .rax + BitVec.ofNat 64 k)) ∧
      (∀ x : BitVec 64, (x.toNat < dst.toNat ∨ dst.toNat + size ≤ x.toNat) → s'.mem x = s.mem x) ∧
      s'.get .rax = s.get .rax := by
  subst hdst
  obtain ⟨s', r, g, m, o, a⟩ := pushStruct_run size (by omega) s (no_clobber _ _ size hd hs h)
  refine ⟨s', r, g, ?_, ?_, a⟩
  · intro k hk; rw [← g]; exact m k hk
  · intro x hx
    apply o
    intro k hk heq
    have := congrArg BitVec.toNat heq
    rw [g, toNat_add_ofNat _ _ (by omega)] at this
    omega

/-- non-vacuity: a 5-byte struct at 0x9000 pushed with %rsp = 0x8000: the copy goes to 0x7ff8 (8 bytes reserved) -/
example : (0x8000#64 - BitVec.ofInt 64 (Gen.Declspec.alignTo (5 : Int) 8)) = 0x7ff8#64 ∧ (0x7ff8 + 5 ≤ 2 ^ 64 ∧ 0x7ff8 ≤ 0x9000) ∧
    (insOf (pushStructLines 5)).length = 11 := by decide

/-- **C04 (struct return by value = the emitted `copy_struct_mem`).**  The destination is the address the caller passed
    as hidden first argument, stored at `off(%rbp)`; the `size` bytes of the returned object (address in %rax) are copied
    there, nothing else is written, %rax returns the destination address, %rsp and %rbp are unchanged. -/
theorem C04_copy_struct_mem_x86 (off : Int) (size : Nat) (s : State) (dst : BitVec 64)
    (hdst : dst = s.read64 (s.get .rbp + BitVec.ofInt 64 off))
    (hd : dst.toNat + size ≤ 2 ^ 64) (hs : (s.get .rax).toNat + size ≤ 2 ^ 64)
    (h : dst.toNat ≤ (s.get .rax).toNat ∨ (s.get .rax).toNat + size ≤ dst.toNat) :
    ∃ s', X86.run (insOf (copyStructMemLines off size)) s = some s' ∧
      (∀ k : Nat, k < size → s'.mem (dst + BitVec.ofNat 64 k) = s.mem (s.get .rax + BitVec.ofNat 64 k)) ∧
      (∀ x : BitVec 64, (x.toNat < dst.toNat ∨ dst.toNat + size ≤ x.toNat) → s'.mem x = s.mem x) ∧
      s'.get .rax = dst ∧ s'.get .rsp = s.get .rsp ∧ s'.get .rbp = s.get .rbp := by
  subst hdst
  obtain ⟨s', r, m, o, a, b, c⟩ := copyStructMem_run off size (by omega) s (no_clobber _ _ size hd hs h)
  refine ⟨s', r, m, ?_, a, b, c⟩
  intro x hx
  apply o
  intro k hk heq
  have := congrArg BitVec.toNat heq
  rw [toNat_add_ofNat _ _ (by omega)] at this
  omega

example : (insOf (copyStructMemLines (-8) 3)).length = 8 ∧ (X86.decodeAll (insOf (copyStructMemLines (-8) 3))).isSome = true := by decide

/-- non-vacuity: the loop for a 3-byte struct is 7 decodable instructions; source at 0x2000, destination at 0x1000 -/
example : (insOf (storeStructLines 3)).length = 7 ∧ (X86.decodeAll (insOf (storeStructLines 3))).isSome = true ∧
    (0x1000 + 3 ≤ 2 ^ 64 ∧ 0x2000 + 3 ≤ 2 ^ 64 ∧ (0x1000 ≤ 0x2000 ∨ 0x2000 + 3 ≤ 0x1000)) := by decide

/-- the condition cannot be dropped: with the destination one byte *above* the source (overlapping), the ascending loop
    reads a byte it has just written — the model shows it (a 2-byte copy from 0x1000 to 0x1001 smears byte 0) -/
example :
    (match X86.run (insOf (storeStructLines 2))
        { regs := fun r => if r = .rax then 0x1000#64 else if r = .rsp then 0x8000#64 else 0#64,
          mem := fun a => if a = 0x8000#64 then 0x01#8 else if a = 0x8001#64 then 0x10#8 else if a = 0x1000#64 then 0xaa#8
                          else if a = 0x1001#64 then 0xbb#8 else 0#8 } with
      | some s' => some (s'.mem 0x1001#64, s'.mem 0x1002#64)
      | none => none) = some (0xaa#8, 0xaa#8) := by decide

end ChibiVerif.Props.C04
