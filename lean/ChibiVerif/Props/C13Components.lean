/-
C13 — no-crash / no-hang statements for the component models owned by the sibling properties.

Each model function mirrors C code whose abort sites (NULL dereference, `unreachable()`, `assert`, division, exhausted loop
bound) are explicit outcomes; the theorems below say those outcomes are never produced.  They are corollaries of the owners'
theorems (imported read-only, never restated with weaker hypotheses); what is NOT covered by any model is listed in
checklib/C13.py (`TRUSTED_BASE`) and sampled by the campaign.

  component                           model                         fuel?                          source theorem
  name tables (hashmap.c)             Model/HashMap                 probe loops: capacity          C17_never_aborts
  constant folder (parse.c eval2…)    Gen/ConstEvalGen + ConstElab  structural                     C07_no_trap
  scanning loop (tokenize.c)          Model/Lex (code points)       length + 1, proved sufficient  C19_lex_fuel_suffices
  macro expansion (preprocess.c)      Model/PP                      `bound defs ts` (object-like)  C09_terminates_partial
  driver process (main.c)             Model/DriverProc              small-step, proved to end      C14_terminates
  #include machine (preprocess.c)     Model/IncludeDepth            budget-free total function     C10_include_terminates_main
                                                                                                     (= item "include_total": C13_include_no_hang)
  collected later (same rule: corollaries, never weaker hypotheses; every Gen module below is in C13's GEN_MODULES):
  #if token line -> tree (parse.c     Model/IfParse +               length + 1, proved sufficient  C10_ifparse_total
    conditional() .. primary())         Gen/C10IfParseGen                                            -> C13_ifparse_nocrash, C13_ifline_nocrash
  parse_args (main.c)                 Model/C14Args + Gen/C14ArgsGen structural over argv           C14_args_total -> C13_args_nocrash
  join_adjacent_string_literals,      Gen/StrJoinGen (translated)   structural over the run        C11_join_bytes -> C13_join_in_bounds
    second pass (preprocess.c)
  canonicalize_newline, remove_       Gen/LitReadersGen (translated, length + 1, proved sufficient  C11_translated_phases -> C13_phases_in_bounds
    backslash_newline, convert_         array threaded through
    universal_chars (tokenize.c)        every store)
  rehash (hashmap.c)                  Model/HashMap                 probe loops: capacity          C17_rehash_spec -> C13_rehash_nocrash
  NOT collected: C03_function_correct_partial (about the generated code's run, not a no-crash fact about the compiler).
-/
import ChibiVerif.Props.C17
import ChibiVerif.Props.C07
import ChibiVerif.Props.C19
import ChibiVerif.Props.C09
import ChibiVerif.Props.C14
import ChibiVerif.Props.C10
import ChibiVerif.Props.C10IfParse
import ChibiVerif.Props.C14Args
import ChibiVerif.Props.C11
import ChibiVerif.Props.C11Join
import ChibiVerif.Lemmas.C13Collect

namespace ChibiVerif.Props.C13

/-- **Name tables never reach an abort site** (`unreachable()` after the probe loops, the rehash `assert`s), for every hash
    function and every history of put / delete / get from the zero-initialised map. -/
theorem C13_hashmap_nocrash {α β : Type} [DecidableEq α] (h : α → Nat) (ops : List (ChibiVerif.HashMap.Op α β)) :
    ∀ c : ChibiVerif.HashMap.Crash, ChibiVerif.HashMap.run h ChibiVerif.HashMap.HM.empty ops ≠ .error c := by
  intro c e
  obtain ⟨r, hr⟩ := ChibiVerif.Props.C17.C17_never_aborts h ops
  rw [hr] at e; cases e

/-- **The constant folder never crashes**: on every expression tree the translated `eval2` ends in a value, in a located
    diagnostic, or in the host's undefined shift (count outside 0..63: reported by the campaign as `sanitizer@eval…`);
    never in a NULL dereference, SIGFPE or an unmodelled arm. -/
theorem C13_consteval_nocrash (fp : ChibiVerif.Gen.ConstEval.FpEnv) (e : ChibiVerif.Spec.Const.CExpr) (label : Bool)
    (f : ChibiVerif.Host.Fail)
    (h : ChibiVerif.Gen.ConstEval.eval2 .wrapping fp (ChibiVerif.ConstElab.elabE e) label = .error f) :
    (∀ w, f ≠ .crash w) ∧ (∀ w, f ≠ .unmodelled w) := by
  rcases ChibiVerif.Props.C07.C07_no_trap fp e label f h with ⟨m, hm⟩ | hm
  · subst hm; exact ⟨fun w hw => (by cases hw), fun w hw => (by cases hw)⟩
  · subst hm; exact ⟨fun w hw => (by cases hw), fun w hw => (by cases hw)⟩

/-- **The scanning loop of C19's model never exhausts its bound** (the same fact as `C13_lex_no_hang`, on the
    code-point model used for the -E text). -/
theorem C13_lex19_no_hang (s : List Nat) : ChibiVerif.Lex.lex s ≠ .error .fuel :=
  ChibiVerif.Props.C19.C19_lex_fuel_suffices s

/-- **Macro expansion terminates** within a bound computed from the table and the input, for object-like tables
    (function-like tables: `C09_terminates_Statement` is open, see C09). -/
theorem C13_expand_no_hang (lx : String → ChibiVerif.PP.LexOne) (st : ChibiVerif.PP.St) (ts : List ChibiVerif.PP.Tok) (fuel : Nat)
    (hobj : ChibiVerif.PP.ObjOnly st.defs) (hnh : ChibiVerif.PP.NoHash ts)
    (hfuel : ChibiVerif.Props.C09.bound st.defs ts ≤ fuel) :
    ChibiVerif.PP.preprocess2 lx fuel st ts ≠ .error .fuel :=
  ChibiVerif.Props.C09.C09_terminates_partial lx st ts fuel hobj hnh hfuel

/-- **The driver always exits** with a status; the model-internal error state is unreachable. -/
theorem C13_driver_terminates {P : Type} [DecidableEq P] (env : ChibiVerif.DriverProc.Env P) (cmd : ChibiVerif.DriverProc.Cmd P)
    (fs : ChibiVerif.DriverProc.FS P) :
    ∃ code, (ChibiVerif.DriverProc.runCmd env cmd fs).1.phase = .done code :=
  ChibiVerif.Props.C14.C14_terminates env cmd fs

/-- **`#include` processing always ends** (since fix b453bf4, nesting limit 200): a whole `chibicc -E <options> main` run over
    any file system, any macro expander for `#include MACRO` operands and any option list needs only a finite step budget, and
    its outcome is output or a diagnostic — "#include nested too deeply" included — never the exhausted budget.  (Before the
    fix a file including itself exhausted every budget: Findings/C13Sites.lean, Findings/C10.lean.) -/
theorem C13_include_no_hang (xp : ChibiVerif.IncludeDepth.Xp ChibiVerif.PPExpr.Body)
    (hxp : ∀ d f ts, xp d f ts ≠ .error .outOfFuel) (fs : ChibiVerif.IncludeDepth.XFS ChibiVerif.PPExpr.Expr ChibiVerif.PPExpr.Body)
    (sysDirs : List String) (builtin : ChibiVerif.CondIncl.Defs ChibiVerif.PPExpr.Body)
    (os : List (ChibiVerif.IncludeSearch.Opt ChibiVerif.PPExpr.Body)) (main : String) (g : Bool) :
    (∃ N, ∀ fuel, N ≤ fuel →
      ChibiVerif.IncludeDepth.includeRunFuel ChibiVerif.PPExpr.evC xp fs sysDirs builtin os main g
          ChibiVerif.Gen.C10Incl.includeDepthLimit fuel
        = ChibiVerif.IncludeDepth.includeRun ChibiVerif.PPExpr.evC xp fs sysDirs builtin os main g
          ChibiVerif.Gen.C10Incl.includeDepthLimit) ∧
    ChibiVerif.IncludeDepth.includeRun ChibiVerif.PPExpr.evC xp fs sysDirs builtin os main g
        ChibiVerif.Gen.C10Incl.includeDepthLimit ≠ .error (.diag .outOfFuel) :=
  let h := ChibiVerif.Props.C10.C10_include_terminates_main xp hxp fs sysDirs builtin os main g
  ⟨h.2.1, h.2.2.1⟩

/-- non-vacuity of the hypothesis: an expander that never fails -/
example : ∀ (d : ChibiVerif.CondIncl.Defs ChibiVerif.PPExpr.Body) (f : String) (ts : List ChibiVerif.IncludeOperand.OTok),
    (fun _ _ ts => Except.ok ts : ChibiVerif.IncludeDepth.Xp ChibiVerif.PPExpr.Body) d f ts ≠ .error .outOfFuel := by
  intro d f ts h; cases h

-- ------------------------------------------------------------------ collected from the siblings' later results

section IfParse
open ChibiVerif.IfParse ChibiVerif.PPExpr ChibiVerif.CondIncl

/-- **The `#if` parser never crashes or hangs**: for every token list `ifParse` (const_expr of parse.c with the "extra token"
    test of eval_const_expr, run on `length + 1` unfoldings) never ends "out of fuel", and every failure is one of the located
    diagnostics of the C code ("expected an expression", "expected ')'", "expected ':'", "extra token", the division by zero
    found first) or the marker of a token outside the modelled fragment, at a token index inside the line or at its end. -/
theorem C13_ifparse_nocrash (ts : List PTok) :
    ifParse ts ≠ .error .fuel ∧
    (∀ e, ifParse ts = .error e → ∃ i, i ≤ ts.length ∧
        (e = .expectedExpr i ∨ e = .expected ")" i ∨ e = .expected ":" i ∨ e = .extraToken i ∨ e = .divZeroFirst i ∨
         e = .unmodelled i)) := by
  have key : ∀ e, ifParse ts = .error e → ∃ i, i ≤ ts.length ∧
        (e = .expectedExpr i ∨ e = .expected ")" i ∨ e = .expected ":" i ∨ e = .extraToken i ∨ e = .divZeroFirst i ∨
         e = .unmodelled i) := by
    intro e he
    have h := (ChibiVerif.Props.C10.C10_ifparse_total ts).2
    rw [he] at h
    exact h
  refine ⟨fun he => ?_, key⟩
  obtain ⟨i, _, h⟩ := key _ he
  rcases h with h | h | h | h | h | h <;> cases h

/-- the outcomes the theorem speaks about occur: a tree, and a diagnostic at the end of the line -/
example : ifParse [.num 1 false, .punct "+", .num 2 false] = .ok (.bin .add (.num 1 false) (.num 2 false)) ∧
    ifParse [.num 1 false, .punct "+"] = .error (.expectedExpr 2) ∧
    ifParse [.punct "(", .num 1 false] = .error (.expected ")" 2) := by decide

/-- **A whole `#if` / `#elif` line never exhausts the parser's bound**: `defined` handling, ANY macro expander, identifiers → 0,
    ANY token conversion, then the parse — for every line the outcome of eval_const_expr's model up to the tree is a tree or a
    diagnostic (the expander's own diagnostics included as `.expand`), never the model-internal "out of fuel". -/
theorem C13_ifline_nocrash (isDef : String → Bool) (xp : List Tok → Except Diag (List Tok))
    (cv : Tok → Option PTok) (line : List Tok) :
    ifTree isDef xp cv line ≠ .error .fuel := by
  unfold ifTree
  split
  · intro h; cases h
  · split
    · intro h; cases h
    · unfold afterExpand
      split
      · intro h; cases h
      · split
        · next e he =>
          intro h
          obtain ⟨j, hj⟩ := ChibiVerif.Lemmas.C13Collect.convAll_error cv _ 0 e he
          injection h with h
          rw [hj] at h; cases h
        · exact (C13_ifparse_nocrash _).1

end IfParse

section Args
open ChibiVerif.C14Args ChibiVerif.C14Compose

/-- **`parse_args` never dereferences NULL**: for every list of argument words (options missing their argument at the end
    included) the outcome of main.c's argument parser, over the tables regenerated from main.c, is return / `usage()` /
    `exit(0)` / `error()` — never a read through the NULL that terminates argv, and a returned state holds no NULL where a
    string is expected. -/
theorem C13_args_nocrash (args : List String) :
    (∀ site, parseArgs args ≠ .nullDeref site) ∧ (∀ st, parseArgs args = .ok st → st.noNull) :=
  ChibiVerif.Props.C14.C14_args_total args

/-- the words that crashed before f14f730 / 3aee6b1 are answered by `usage(1)` -/
example : parseArgs ["x.c", "-D"] = .usage 1 ∧ parseArgs ["x.c", "-MQ"] = .usage 1 ∧
    (match parseArgs ["-c", "x.c", "-o", "x.o"] with | .ok st => st.str "opt_o" | _ => none) = some "x.o" := by decide

end Args

section Join
open ChibiVerif.Gen.Literals ChibiVerif.Gen.StrJoin ChibiVerif.StrJoin ChibiVerif.Literals

/-- **No `memcpy` of `join_adjacent_string_literals` leaves its allocation** (second pass as translated from preprocess.c:
    `calloc(base->size, len)`, then `memcpy(buf + i, t->str, t->ty->size)` per token): for every run of string-literal tokens of
    one element size whose `str` holds their units and a terminator, the pass returns — no outcome `store_outside` (a copy outside
    the destination or a read past the source), `unreachable` or any other failure — and the buffer it returns has exactly
    the size of the array type it is given. -/
theorem C13_join_in_bounds (sz : Nat) (a : Tok) (as : List Tok) (h : StrTok) (hs : List StrTok)
    (hr : AllPairs Rep (a :: as) (h :: hs)) (hsz : ∀ x ∈ h :: hs, x.elem.size = sz) :
    (∀ e, joinPass2 a as ≠ .error e) ∧ ∃ r, joinPass2 a as = .ok r ∧ (r.str.length : Int) = r.tySize := by
  obtain ⟨r, hok, _, _, _, _, hlen⟩ := ChibiVerif.Props.C11.C11_join_bytes sz a as h hs hr hsz
  refine ⟨fun e he => ?_, r, hok, hlen⟩
  rw [hok] at he; cases he

/-- non-vacuity: `u"a€"` `u"b"` satisfy the hypotheses (the pair of C11_join_bytes' example) -/
example : AllPairs Rep [readerTok [] .ty_ushort [0x61, 0x20AC], readerTok [] .ty_ushort [0x62]]
      [⟨.ty_ushort, [0x61, 0x20AC], 0, []⟩, ⟨.ty_ushort, [0x62], 0, []⟩] ∧
    (∀ x ∈ ([⟨.ty_ushort, [0x61, 0x20AC], 0, []⟩, ⟨.ty_ushort, [0x62], 0, []⟩] : List StrTok), x.elem.size = 2) :=
  ⟨.cons ⟨rfl, rfl, rfl, rfl⟩ (.cons ⟨rfl, rfl, rfl, rfl⟩ .nil), by decide⟩

end Join

section Phases
open ChibiVerif.Text ChibiVerif.Literals

/-- **No store of the three in-place phase loops leaves the text** (`canonicalize_newline`, `remove_backslash_newline`,
    `convert_universal_chars` as translated from tokenize.c with the array threaded through every store; `none` = a store
    outside the text or a terminator written behind it): for every NUL-free text (ending in a newline for
    `convert_universal_chars`, as `read_file` guarantees) each loop returns, and so do the three in the order `tokenize_file`
    calls them on any file content. -/
theorem C13_phases_in_bounds :
    (∀ t : List Byte, (0#8 : Byte) ∉ t → ChibiVerif.Gen.LitReaders.canonicalizeNewline t ≠ none) ∧
    (∀ t : List Byte, (0#8 : Byte) ∉ t → ChibiVerif.Gen.LitReaders.removeBackslashNewline t ≠ none) ∧
    (∀ t : List Byte, (0#8 : Byte) ∉ t → (t = [] ∨ t.getLast? = some LF) →
      ChibiVerif.Gen.LitReaders.convertUniversalChars t ≠ none) ∧
    (∀ s : List Byte, (0#8 : Byte) ∉ s →
      (ChibiVerif.Gen.LitReaders.canonicalizeNewline (skipBOM (ensureFinalNewline s)) >>=
        ChibiVerif.Gen.LitReaders.removeBackslashNewline >>=
        ChibiVerif.Gen.LitReaders.convertUniversalChars) ≠ none) := by
  obtain ⟨h1, h2, h3, h4⟩ := ChibiVerif.Props.C11.C11_translated_phases
  refine ⟨fun t ht e => ?_, fun t ht e => ?_, fun t ht hl e => ?_, fun s hs e => ?_⟩
  · rw [h1 t ht] at e; cases e
  · rw [h2 t ht] at e; cases e
  · rw [h3 t ht hl] at e; cases e
  · rw [h4 s hs] at e; cases e

/-- non-vacuity: a NUL-free text with CR LF, a splice and a UCN; the stores really are bounds-checked: the same loop on a
    text that has lost its last byte's room (`storeAt` past the end) is `none` -/
example : (0#8 : Byte) ∉ ([0x5C#8, 0x75#8, 0x30#8, 0x30#8, 0x65#8, 0x39#8, 13#8, 10#8, 0x78#8, 0x5C#8, 10#8, 0x79#8, 10#8] : List Byte) ∧
    ([0x5C#8, 0x75#8, 0x30#8, 0x30#8, 0x65#8, 0x39#8, 13#8, 10#8, 0x78#8, 0x5C#8, 10#8, 0x79#8, 10#8] : List Byte).getLast? = some LF ∧
    ChibiVerif.Gen.LitReaders.storeAt [1#8, 2#8] 2 3#8 = none := by decide

end Phases

section Rehash
open ChibiVerif.HashMap

/-- **`rehash` reaches neither of its `assert`s nor `unreachable()`** for every hash function and every table satisfying the
    representation invariant `WF` (the tables every history of put / delete produces: `C17_never_aborts`) — clusters wrapping
    around the end of the bucket array included. -/
theorem C13_rehash_nocrash {α β : Type} [DecidableEq α] (h : α → Nat) (m : HM α β) (w : WF h m) :
    ∀ c : Crash, HM.rehash h m ≠ .error c := by
  intro c e
  obtain ⟨m2, hm2, _⟩ := ChibiVerif.Props.C17.C17_rehash_spec h m w
  rw [hm2] at e; cases e

/-- non-vacuity: the wrapped-cluster table of C17_rehash_spec's example satisfies `WF` -/
example : WF (fun k : Nat => k)
    (⟨[.full 15 3, .tomb, .tomb, .tomb, .tomb, .tomb, .tomb, .tomb, .tomb, .tomb,
       .empty, .empty, .empty, .empty, .tomb, .full 30 2], 12⟩ : HM Nat Nat) := by
  decide

end Rehash

end ChibiVerif.Props.C13
