/-
C13 — no-crash / no-hang statements for the component models owned by the sibling properties.

Each model function mirrors C code whose abort sites (NULL dereference, `unreachable()`, `assert`, division, exhausted loop
bound) are explicit outcomes; the theorems below say those outcomes are never produced.  They are corollaries of the owners'
theorems (imported read-only, never restated with weaker hypotheses); what is NOT covered by any model is listed in
checklib/C13.py (`TRUSTED_BASE`) and sampled by the campaign.

  component                           model                         fuel?                          source theorem
  name tables (hashmap.c)             Model/HashMap                 probe loops: capacity          C17_never_aborts
  constant folder (parse.c eval2…)    Gen/ConstEvalGen + ConstElab  structural                     C07_no_trap
  scanning loop (tokenize.c)          Model/Lex (code points)       length + 1, proved sufficient  C19_lex_fuel_suffices
  macro expansion (preprocess.c)      Model/PP                      `bound defs ts` (object-like)  C09_terminates_partial
  driver process (main.c)             Model/DriverProc              small-step, proved to end      C14_terminates
  #include machine (preprocess.c)     Model/IncludeDepth            budget-free total function     C10_include_terminates_main
-/
import ChibiVerif.Props.C17
import ChibiVerif.Props.C07
import ChibiVerif.Props.C19
import ChibiVerif.Props.C09
import ChibiVerif.Props.C14
import ChibiVerif.Props.C10

namespace ChibiVerif.Props.C13

/-- **Name tables never reach an abort site** (`unreachable()` after the probe loops, the rehash `assert`s), for every hash
    function and every history of put / delete / get from the zero-initialised map. -/
theorem C13_hashmap_nocrash {α β : Type} [DecidableEq α] (h : α → Nat) (ops : List (ChibiVerif.HashMap.Op α β)) :
    ∀ c : ChibiVerif.HashMap.Crash, ChibiVerif.HashMap.run h ChibiVerif.HashMap.HM.empty ops ≠ .error c := by
  intro c e
  obtain ⟨r, hr⟩ := ChibiVerif.Props.C17.C17_never_aborts h ops
  rw [hr] at e; cases e

/-- **The constant folder never crashes**: on every expression tree the translated `eval2` ends in a value, in a located
    diagnostic, or in the host's undefined shift (count outside 0..63: reported by the campaign as `sanitizer@eval…`);
    never in a NULL dereference, SIGFPE or an unmodelled arm. -/
theorem C13_consteval_nocrash (fp : ChibiVerif.Gen.ConstEval.FpEnv) (e : ChibiVerif.Spec.Const.CExpr) (label : Bool)
    (f : ChibiVerif.Host.Fail)
    (h : ChibiVerif.Gen.ConstEval.eval2 .wrapping fp (ChibiVerif.ConstElab.elabE e) label = .error f) :
    (∀ w, f ≠ .crash w) ∧ (∀ w, f ≠ .unmodelled w) := by
  rcases ChibiVerif.Props.C07.C07_no_trap fp e label f h with ⟨m, hm⟩ | hm
  · subst hm; exact ⟨fun w hw => (by cases hw), fun w hw => (by cases hw)⟩
  · subst hm; exact ⟨fun w hw => (by cases hw), fun w hw => (by cases hw)⟩

/-- **The scanning loop of C19's model never exhausts its bound** (the same fact as `C13_lex_no_hang`, on the
    code-point model used for the -E text). -/
theorem C13_lex19_no_hang (s : List Nat) : ChibiVerif.Lex.lex s ≠ .error .fuel :=
  ChibiVerif.Props.C19.C19_lex_fuel_suffices s

/-- **Macro expansion terminates** within a bound computed from the table and the input, for object-like tables
    (function-like tables: `C09_terminates_Statement` is open, see C09). -/
theorem C13_expand_no_hang (lx : String → ChibiVerif.PP.LexOne) (st : ChibiVerif.PP.St) (ts : List ChibiVerif.PP.Tok) (fuel : Nat)
    (hobj : ChibiVerif.PP.ObjOnly st.defs) (hnh : ChibiVerif.PP.NoHash ts)
    (hfuel : ChibiVerif.Props.C09.bound st.defs ts ≤ fuel) :
    ChibiVerif.PP.preprocess2 lx fuel st ts ≠ .error .fuel :=
  ChibiVerif.Props.C09.C09_terminates_partial lx st ts fuel hobj hnh hfuel

/-- **The driver always exits** with a status; the model-internal error state is unreachable. -/
theorem C13_driver_terminates {P : Type} [DecidableEq P] (env : ChibiVerif.DriverProc.Env P) (cmd : ChibiVerif.DriverProc.Cmd P)
    (fs : ChibiVerif.DriverProc.FS P) :
    ∃ code, (ChibiVerif.DriverProc.runCmd env cmd fs).1.phase = .done code :=
  ChibiVerif.Props.C14.C14_terminates env cmd fs

/-- **`#include` processing always ends** (since fix b453bf4, nesting limit 200): a whole `chibicc -E <options> main` run over
    any file system, any macro expander for `#include MACRO` operands and any option list needs only a finite step budget, and
    its outcome is output or a diagnostic — "#include nested too deeply" included — never the exhausted budget.  (Before the
    fix a file including itself exhausted every budget: Findings/C13Sites.lean, Findings/C10.lean.) -/
theorem C13_include_no_hang (xp : ChibiVerif.IncludeDepth.Xp ChibiVerif.PPExpr.Body)
    (hxp : ∀ d f ts, xp d f ts ≠ .error .outOfFuel) (fs : ChibiVerif.IncludeDepth.XFS ChibiVerif.PPExpr.Expr ChibiVerif.PPExpr.Body)
    (sysDirs : List String) (builtin : ChibiVerif.CondIncl.Defs ChibiVerif.PPExpr.Body)
    (os : List (ChibiVerif.IncludeSearch.Opt ChibiVerif.PPExpr.Body)) (main : String) (g : Bool) :
    (∃ N, ∀ fuel, N ≤ fuel →
      ChibiVerif.IncludeDepth.includeRunFuel ChibiVerif.PPExpr.evC xp fs sysDirs builtin os main g
          ChibiVerif.Gen.C10Incl.includeDepthLimit fuel
        = ChibiVerif.IncludeDepth.includeRun ChibiVerif.PPExpr.evC xp fs sysDirs builtin os main g
          ChibiVerif.Gen.C10Incl.includeDepthLimit) ∧
    ChibiVerif.IncludeDepth.includeRun ChibiVerif.PPExpr.evC xp fs sysDirs builtin os main g
        ChibiVerif.Gen.C10Incl.includeDepthLimit ≠ .error (.diag .outOfFuel) :=
  let h := ChibiVerif.Props.C10.C10_include_terminates_main xp hxp fs sysDirs builtin os main g
  ⟨h.2.1, h.2.2.1⟩

/-- non-vacuity of the hypothesis: an expander that never fails -/
example : ∀ (d : ChibiVerif.CondIncl.Defs ChibiVerif.PPExpr.Body) (f : String) (ts : List ChibiVerif.IncludeOperand.OTok),
    (fun _ _ ts => Except.ok ts : ChibiVerif.IncludeDepth.Xp ChibiVerif.PPExpr.Body) d f ts ≠ .error .outOfFuel := by
  intro d f ts h; cases h

end ChibiVerif.Props.C13
