/-
C14 — the driver from argv: argument parser, composition with the driver loop, dependency output, shared resources.

Property theorems only (helpers: Lemmas/C14ArgsLemmas.lean, Lemmas/C14ComposeLemmas.lean, Lemmas/C14DepsLemmas.lean).
The tables these theorems speak about — `takeArgList`, `ladder`, `optXTable`, `fileTypeLadder`, `cc1Plan`, `fileSites`,
`ldTemplate` — are Gen/C14ArgsGen.lean, regenerated from main.c by tools/extract/c14args.py on every run; the
`decide`s below are whole-table checks that the kernel re-evaluates whenever main.c changes.
-/
import ChibiVerif.Model.C14Compose
import ChibiVerif.Lemmas.C14ArgsLemmas
import ChibiVerif.Lemmas.C14ComposeLemmas
import ChibiVerif.Lemmas.C14DepsLemmas
import ChibiVerif.Props.C14

namespace ChibiVerif.Props.C14
open ChibiVerif.C14Args ChibiVerif.C14Compose ChibiVerif.DriverProc
open ChibiVerif.Gen.C14Args

/-! ### (1) the argument parser -/

/-- **C14 (parse_args reads no NULL).**  For EVERY list of argument words — including options that miss their argument
    at the end of the list — `parse_args` ends in one of: return, `usage()`, `exit(0)`, `error()`; never in a
    dereference of the NULL that terminates argv, and when it returns no StringArray (`include_paths`, `ld_extra_args`,
    `input_paths`, …) holds a NULL.  Reason: every arm of the ladder that evaluates `argv[++i]` is entered only by an
    exact option that `take_arg` lists, and every option `take_arg` lists selects such an arm (`tables_inSync`, a
    `decide` over the regenerated ladder), so the pass that checks for missing arguments and the option loop walk argv
    in step.  Dropping `-D`, `-U`, `-MQ`, `-L` … from `take_arg`'s list, or the separate-form arm of `-I` from the
    ladder, makes the `decide` fail. -/
theorem C14_args_total (args : List String) :
    (∀ site, parseArgs args ≠ .nullDeref site) ∧ (∀ st, parseArgs args = .ok st → st.noNull) := by
  unfold parseArgs parseWith
  by_cases hg : guardPass takeArgList args = true
  · rw [if_pos hg]
    have hgood := optRun_good tables_inSync optXTable args st0 hg st0_noNull
    cases hr : optRun ladder optXTable args st0 with
    | ok s =>
      rw [hr] at hgood
      simp only
      unfold C14Args.finish
      constructor
      · intro site; split <;> intro h <;> cases h
      · intro st h
        split at h
        · cases h
        · injection h with h
          subst h
          split
          · intro e he x hx; exact hgood e he x hx
          · exact hgood
    | error o =>
      rw [hr] at hgood
      simp only
      constructor
      · intro site h; subst h; cases hgood
      · intro st h
        have := optRun_error_not_ok ladder optXTable args st0 o hr
        rw [h] at this
        cases this
  · rw [if_neg hg]
    exact ⟨fun site h => (by cases h), fun st h => (by cases h)⟩

/-- non-vacuity: the words f14f730 / 3aee6b1 are about — missing arguments are `usage(1)`, complete ones parse -/
example : parseArgs ["x.c", "-D"] = .usage 1 ∧ parseArgs ["x.c", "-I"] = .usage 1 ∧
    parseArgs ["x.c", "-L"] = .usage 1 ∧ parseArgs ["x.c", "-MQ"] = .usage 1 := by decide
example : (match parseArgs ["-c", "-I", "inc", "x.c", "-DA=1", "-o", "x.o"] with
           | .ok st => (st.arr "include_paths", st.arr "define", st.str "opt_o", st.arr "input_paths")
           | _ => ([], [], none, [])) = ([some "inc"], [some "A=1"], some "x.o", [some "x.c"]) := by decide

/-- **C14 (no option is shadowed).**  Every exact option of the ladder selects the arm that lists it, and every prefix
    test is reachable by a word with that prefix: no earlier test hides a later arm, so the order of the `if`s decides
    between a joined and a separate argument (`-o` before `-o…`, `-Wl,` before `-W…`) and nothing else. -/
theorem C14_args_no_shadow : exactLive ladder = true := by decide

/-- **C14 (the cc1 child sees the driver's options).**  `run_cc1` re-executes the driver with its own argv followed by
    `-cc1 -cc1-input <input> [-cc1-output <output>]`.  If `parse_args` returned for the driver's words, then for the
    child's words it returns the SAME option variables, plus `opt_cc1`, `base_file = input`, `output_file = output` —
    whatever the input and output names are (they are never taken for options: `-cc1-input`/`-cc1-output` are in
    `take_arg`'s list, and the driver's last option cannot swallow `-cc1`, since pass 1 accepted the driver's words). -/
theorem C14_cc1_reparse (args : List String) (st : St) (input : String) (output : Option String)
    (h : parseArgs args = .ok st) :
    parseArgs (args ++ cc1Tail input output) = .ok (childSt st input output) := by
  obtain ⟨hg, s, hr, hf⟩ := parseArgs_ok h
  unfold parseArgs parseWith
  rw [guardPass_append (cc1Tail input output) args hg, guardPass_cc1Tail, if_pos rfl,
    optRun_append tables_inSync optXTable (cc1Tail input output) args st0 hg, hr]
  simp only [bindRun, optRun_cc1Tail]
  exact finish_childSt input output hf

example : parseArgs ["-S", "-MD", "a.c", "-o", "a.s"] ≠ .usage 1 ∧
    (match parseArgs (["-S", "-MD", "a.c", "-o", "a.s"] ++ cc1Tail "a.c" (some "a.s")) with
     | .ok st => (st.flag "opt_cc1", st.str "base_file", st.str "output_file", st.flag "opt_MD")
     | _ => (false, none, none, false)) = (true, some "a.c", some "a.s", true) := by decide

/-! ### composition with the driver loop: the theorems of Props/C14.lean, for argv -/

/-- **C14 (the run for an argv is the driver-loop run of the parsed command).**  When `parse_args` returns, what the
    process does is `runCmd` on `toCmd st`; so `C14_status`, `C14_no_temps`, `C14_no_partial_output`,
    `C14_success_outputs`, `C14_concurrent` hold with `cmd := toCmd st` for every argv that parses. -/
theorem C14_argv_compose (env : Env String) (args : List String) (fs : FS String) (st : St)
    (h : parseArgs args = .ok st) : runArgv env args fs = runCmd env (toCmd st) fs := by
  simp [runArgv, h]

/-- **C14 (determinism from argv).**  Whatever number of steps is taken, a terminal configuration reachable from the
    configuration in which the process starts for the words `args` is the one `runArgv` computes. -/
theorem C14_args_deterministic (env : Env String) (args : List String) (fs : FS String) (x : DState String × FS String)
    (h : Reaches env (initArgv args, fs) x) : x = runArgv env args fs := by
  unfold runArgv
  cases hp : parseArgs args with
  | ok st =>
    simp only
    have : initArgv args = init (toCmd st) := by simp [initArgv, hp]
    rw [this] at h
    exact C14_deterministic env (toCmd st) fs x h
  | _ =>
    simp only
    refine Reaches.unique env h ⟨0, rfl, ?_⟩
    simp only [initArgv, hp]
    first
      | rfl
      | (split <;> rfl)
      | (rename_i d; cases d <;> rfl)

/-- **C14 (the driver always exits, from argv).**  Every invocation ends with an exit status: either `parse_args`
    ends it (`usage`, `--help`, `-hashmap-test`, `error`), or the driver loop does (`C14_terminates`); the crash state
    is unreachable (`C14_args_total`). -/
theorem C14_argv_terminates (env : Env String) (args : List String) (fs : FS String) :
    ∃ code, (runArgv env args fs).1.phase = .done code := by
  unfold runArgv
  cases hp : parseArgs args with
  | ok st => exact C14_terminates env (toCmd st) fs
  | usage n =>
    cases n with
    | zero => exact ⟨0, by simp [initArgv, hp, earlyExit]⟩
    | succ m => exact ⟨m + 1, by simp [initArgv, hp, earlyExit]⟩
  | exit0 => exact ⟨0, by simp [initArgv, hp, earlyExit]⟩
  | diag d => cases d <;> exact ⟨1, by simp [initArgv, hp, earlyExit]⟩
  | nullDeref site => exact absurd hp ((C14_args_total args).1 site)

/-- **C14 (exit status, from argv).**  The exit status is non-zero exactly when something failed: `usage(1)` for a
    missing option argument, an `error()` of `parse_args` (unknown argument, unknown `-x` language, no input files), or
    a failed step of the driver loop (`C14_status`); `--help` and `-hashmap-test` exit with 0. -/
theorem C14_argv_status (env : Env String) (args : List String) (fs : FS String) (code : Nat)
    (h : (runArgv env args fs).1.phase = .done code) :
    (code ≠ 0 ∧ ∃ e ∈ (runArgv env args fs).1.log, Event.bad e = true) ∨
    (code = 0 ∧ ∀ e ∈ (runArgv env args fs).1.log, Event.bad e = false) := by
  unfold runArgv at h ⊢
  cases hp : parseArgs args with
  | ok st =>
    rw [hp] at h
    rcases C14_status env (toCmd st) fs code h with ⟨h1, h2⟩ | ⟨h1, h2⟩
    · left; exact ⟨by rw [h1]; decide, h2⟩
    · right; exact ⟨h1, h2⟩
  | usage n =>
    rw [hp] at h
    cases n with
    | zero =>
      right
      simp only [initArgv, hp, earlyExit] at h ⊢
      injection h with h
      exact ⟨h.symm, by simp [Event.bad]⟩
    | succ m =>
      left
      simp only [initArgv, hp, earlyExit] at h ⊢
      injection h with h
      exact ⟨by rw [← h]; exact Nat.succ_ne_zero m, .error .usage, by simp, rfl⟩
  | exit0 =>
    rw [hp] at h
    right
    simp only [initArgv, hp, earlyExit] at h ⊢
    injection h with h
    exact ⟨h.symm, by simp [Event.bad]⟩
  | diag d =>
    rw [hp] at h
    left
    cases d with
    | unknownArg w =>
      simp only [initArgv, hp, earlyExit] at h ⊢
      injection h with h
      exact ⟨by rw [← h]; decide, .error .unknownArg, by simp, rfl⟩
    | unknownX w =>
      simp only [initArgv, hp, earlyExit] at h ⊢
      injection h with h
      exact ⟨by rw [← h]; decide, .error .unknownX, by simp, rfl⟩
    | noInput =>
      simp only [initArgv, hp, earlyExit] at h ⊢
      injection h with h
      exact ⟨by rw [← h]; decide, .error .noInput, by simp, rfl⟩
  | nullDeref site => exact absurd hp ((C14_args_total args).1 site)

/-- **C14 (no temporary survives, from argv).** -/
theorem C14_argv_no_temps (env : Env String) (args : List String) (fs : FS String) :
    ∀ t ∈ created (runArgv env args fs).1.log, (runArgv env args fs).2.get t = none := by
  unfold runArgv
  cases hp : parseArgs args with
  | ok st => exact C14_no_temps env (toCmd st) fs
  | usage n => cases n <;> (intro t ht; simp [initArgv, hp, earlyExit, created] at ht)
  | exit0 => intro t ht; simp [initArgv, hp, earlyExit, created] at ht
  | diag d => cases d <;> (intro t ht; simp [initArgv, hp, earlyExit, created] at ht)
  | nullDeref site => exact absurd hp ((C14_args_total args).1 site)

/-- non-vacuity: `chibicc -c a.c b.c -o x.o` is rejected, `chibicc a.c -Wl,-z,now -lm` links, `chibicc a.c -x` prints
    the usage message — each decided from the words alone -/
private def envOK : Env String :=
  { mode := .link, sched := fun _ _ => .ok, fresh := fun k => if k = 0 then some "/tmp/t0" else if k = 1 then some "/tmp/t1" else none }
example : (runArgv envOK ["-c", "a.c", "b.c", "-o", "x.o"] []).1.log = [.error .multiO, .exit 1] := by decide
example : (runArgv envOK ["a.c", "-x"] []).1.log = [.error .usage, .exit 1] := by decide
example : (runArgv envOK ["a.c", "-Wl,-z,now", "-lm"] [("a.c", ⟨.orig, [1]⟩)]).2.get "a.out" = some ⟨.exe, [1]⟩ ∧
    (runArgv envOK ["a.c", "-Wl,-z,now", "-lm"] [("a.c", ⟨.orig, [1]⟩)]).1.phase = .done 0 := by decide

/-! ### (2) dependency output -/

/-- **C14 (cc1 writes the dependency list last, and only when everything else succeeded).**  For every combination of
    `-M`, `-MD`, `-E` (the only flags `cc1Plan` tests), in what cc1 does after `preprocess()`: no step that can raise a
    front-end error (`parse`, `codegen`) comes after a write; the dependency file is written exactly when `-M` or `-MD`
    is given, and its write is the last thing cc1 does — after the preprocessed text (`-E`) or the assembly has been
    written and closed.  (Before b04aa01 the write came right after `preprocess()`: this `decide` fails on that text.) -/
theorem C14_deps_written_last :
    (stepsFlags cc1Plan).all (fun v => v = "opt_M" || v = "opt_MD" || v = "opt_E") = true ∧
    flagAssignments.all (fun a => traceOK (a.1 || a.2.1) (cc1Trace (flagFn a))) = true := by decide

example : cc1Trace (flagFn (false, true, false)) = [.collectDeps, .parse, .codegen, .writeOutput, .writeDeps] := by decide

variable {P : Type} [DecidableEq P]

/-- **C14 (dependency output).**  Let every cc1 child write its dependency list to `denv.depOf input` when it ends
    with status 0 (`C14_deps_written_last`), and let no dependency path be a path of the driver's own footprint
    (requested output, temporary, input: `hdep`).  Then, for every command, fault schedule and initial file system:
    * the driver's state — exit status, event log, temporaries — is that of the run without dependency output;
    * every path of the driver's footprint has exactly the content it has in that run: no dependency text ever lands in
      an object file, an assembly file, the executable, a temporary or an input, and all theorems of Props/C14.lean
      apply unchanged;
    * a path that is neither written by the driver nor a dependency path keeps its content;
    * a dependency path `d` holds the list of the LAST front end that succeeded and whose dependency path is `d`
      (made from its input as it was before the run, if the driver does not write that input); if no such front end
      succeeded — in particular if the front end of the only unit with this dependency path FAILED — `d` is untouched:
      absent stays absent, an old file keeps its content. -/
theorem C14_deps_output (denv : DepEnv P) (env : Env P) (cmd : Cmd P) (fs : FS P)
    (hdep : ∀ d, IsDep denv d → ¬ Touches env cmd d) :
    (runCmdD denv env cmd fs).1 = (runCmd env cmd fs).1 ∧
    (∀ p, Touches env cmd p → (runCmdD denv env cmd fs).2.get p = (runCmd env cmd fs).2.get p) ∧
    (∀ p, ¬ Writes env cmd p → ¬ IsDep denv p → (runCmdD denv env cmd fs).2.get p = fs.get p) ∧
    (∀ d, IsDep denv d →
      match lastWriter (depWrites denv (runCmd env cmd fs).1.log) d with
      | some i => ∃ org, (runCmdD denv env cmd fs).2.get d = some ⟨.deps, org⟩ ∧
                    (¬ Writes env cmd i → org = fs.origins i)
      | none => (runCmdD denv env cmd fs).2.get d = fs.get d) := by
  have h := iterD_rel denv env (Writes env cmd) (Touches env cmd) fs hdep (fuel (init cmd)) _ _
    (DRel_init denv env cmd fs)
  exact ⟨h.st, h.agree, h.frame, h.deps⟩

/-- **C14 (a failing unit leaves no dependency file).**  Under the same hypothesis: if no front end with dependency
    path `d` ended with status 0, `d` has the content it had before the run. -/
theorem C14_deps_untouched_on_failure (denv : DepEnv P) (env : Env P) (cmd : Cmd P) (fs : FS P)
    (hdep : ∀ d, IsDep denv d → ¬ Touches env cmd d) (d : P) (hd : IsDep denv d)
    (hfail : ∀ r ∈ cc1Runs (runCmd env cmd fs).1.log, denv.depOf r.1 = some d → r.2.wait ≠ 0) :
    (runCmdD denv env cmd fs).2.get d = fs.get d := by
  have h := (C14_deps_output denv env cmd fs hdep).2.2.2 d hd
  have hn : lastWriter (depWrites denv (runCmd env cmd fs).1.log) d = none := by
    unfold lastWriter
    rw [Option.map_eq_none_iff, List.find?_eq_none]
    intro e he
    simp only [List.mem_reverse, depWrites, List.mem_filterMap] at he
    obtain ⟨r, hr, hre⟩ := he
    by_cases hw : r.2.wait = 0
    · simp only [hw, if_true, Option.map_eq_some_iff] at hre
      obtain ⟨d', hd', rfl⟩ := hre
      simp only [decide_eq_true_eq]
      intro hdd
      exact hfail r hr (hdd ▸ hd') hw
    · simp [hw] at hre
  rw [hn] at h
  exact h

/-- non-vacuity: `-c -MD a.c b.c` (dependency files 13 = a.d, 23 = b.d, both existing before with sentinel contents),
    front end of `b.c` killed: `a.d` is rewritten, `b.d` keeps its sentinel, `a.o` complete, `b.o` untouched -/
private def dCmd : Cmd Nat := { mode := .c, out := none, aout := 99, inputs := [⟨1, .C, 11, 12⟩, ⟨2, .C, 21, 22⟩] }
private def dEnv : Env Nat :=
  { mode := .c, sched := fun p k => if p = .cc1 ∧ k = 1 then ⟨.signal 10, .untouched⟩ else .ok, fresh := fun k => some (100 + k) }
private def dDen : DepEnv Nat := { depOf := fun i => if i = 1 then some 13 else if i = 2 then some 23 else none }
private def dFs : FS Nat := [(1, ⟨.orig, [1]⟩), (2, ⟨.orig, [2]⟩), (13, ⟨.orig, [7]⟩), (23, ⟨.orig, [8]⟩)]

example : (runCmdD dDen dEnv dCmd dFs).2.get 13 = some ⟨.deps, [1]⟩ ∧ (runCmdD dDen dEnv dCmd dFs).2.get 23 = some ⟨.orig, [8]⟩ ∧
    (runCmdD dDen dEnv dCmd dFs).2.get 12 = some ⟨.obj, [1]⟩ ∧ (runCmdD dDen dEnv dCmd dFs).2.get 22 = none ∧
    (runCmdD dDen dEnv dCmd dFs).1.phase = .done 1 := by decide

example : ∀ d, IsDep dDen d → ¬ Touches dEnv dCmd d := by
  intro d ⟨i, hi⟩ ht
  have hd : d = 13 ∨ d = 23 := by
    simp only [dDen] at hi
    split at hi
    · left; injection hi with hi; exact hi.symm
    · split at hi
      · right; injection hi with hi; exact hi.symm
      · cases hi
  rcases ht with (h | ⟨k, h⟩) | h
  · have : d = 12 ∨ d = 22 := by simpa [requested, dCmd, isUnit, effKind, unitOutput] using h
    omega
  · simp only [dEnv] at h; injection h with h; omega
  · have : d = 1 ∨ d = 2 := by simpa [dCmd] using h
    omega

/-- **C14 (where the dependency list goes is never an output of the driver, by construction).**  For the option
    variables of any argv: under `-M` the driver requests no output at all; without `-M`, if the user names neither `-o`
    nor `-MF`, the dependency path of every input — the input's basename with `.d` — differs from every requested
    output (`<stem>.s`, `<stem>.o`, `a.out`).  (With `-o f -MD` the path is `f` with its extension replaced by `.d`, with
    `-MF g` it is `g`: names the user chose.) -/
theorem C14_deps_never_output (st : St)
    (h : st.flag "opt_M" = true ∨ (st.str "opt_MF" = none ∧ st.str "opt_o" = none)) :
    ∀ s d, depPath st s = some d → d ∉ requested (toCmd st) := by
  intro s d hd hreq
  rcases h with hM | ⟨hMF, ho⟩
  · simp [requested, toCmd, hM] at hreq
  · by_cases hM : st.flag "opt_M" = true
    · simp [requested, toCmd, hM] at hreq
    · unfold depPath at hd
      rw [hMF, ho] at hd
      simp only [hM, Bool.false_or, Option.getD_none] at hd
      by_cases hMD : st.flag "opt_MD" = true
      · simp only [hMD, if_true, fileOrStdout] at hd
        split at hd
        · cases hd
        · injection hd with hd
          subst hd
          unfold requested at hreq
          have hdO : (toCmd st).depsOnly = false := by simpa [toCmd] using hM
          rw [if_neg (by simp [hdO])] at hreq
          by_cases hl : (toCmd st).mode = .link
          · rw [if_pos hl] at hreq
            have hout : (toCmd st).out = none := by simp [toCmd, ho]
            have haout : (toCmd st).aout = "a.out" := rfl
            rw [hout, haout] at hreq
            simp only [Option.getD_none, List.mem_singleton] at hreq
            exact replaceExtn_ne_lit "a.out" 'd' 't' ['.'] ['a', '.', 'o', 'u'] rfl rfl (by decide) hreq
          · rw [if_neg hl] at hreq
            obtain ⟨u, hu, hue⟩ := List.mem_map.mp hreq
            have hu' : u ∈ (toCmd st).inputs := (List.mem_filter.mp hu).1
            simp only [toCmd] at hu'
            obtain ⟨w, _, hw⟩ := List.mem_map.mp hu'
            subst hw
            have hout : (toCmd st).out = none := by simp [toCmd, ho]
            simp only [unitOutput, hout, mkInput] at hue
            split at hue
            · exact replaceExtn_ne_of_last 's' 'd' ['.'] ['.'] rfl rfl (by decide) hue
            · exact replaceExtn_ne_of_last 'o' 'd' ['.'] ['.'] rfl rfl (by decide) hue
      · simp [hMD] at hd

example : (match parseArgs ["-c", "-MD", "dir/a.c"] with
           | .ok st => (depPath st "dir/a.c", requested (toCmd st))
           | _ => (none, [])) = (some "a.d", ["a.o"]) := by decide

/-! ### (4) what two concurrent drivers share -/

/-- **C14 (file-system call sites).**  Over EVERY call in the compiler's sources that creates, opens for writing,
    removes, or hands to a child the name of a file (regenerated list `fileSites`: the libc calls of all .c files and
    main.c's wrappers `open_file`, `write_file`, `assemble`, `run_cc1`, `run_linker`, `create_tmpfile`):
    * there is exactly one place where a file name is invented: `mkstemp` on a `/tmp/…XXXXXX` template in
      `create_tmpfile`, and the SAME path is recorded in `tmpfiles` there;
    * the only `unlink` is the one in `cleanup`, on entries of `tmpfiles`;
    * every other path written is a word of the command line (`-o`, `-MF`, the child's `-cc1-output`), such a word or an
      input name with its extension replaced (`.s`, `.o`, `.d`), the literal `a.out`, standard output, or a temporary;
      files opened for reading are inputs, temporaries, or source/header files.
    So no fixed scratch name exists, and two drivers can meet only on names their users chose and in `mkstemp`'s
    name space. -/
theorem C14_shared_resources :
    fileSites.all (siteOK fileSites) = true ∧
    (sitesOfKind .create fileSites).length = 1 ∧ (sitesOfKind .record fileSites).length = 1 ∧
    (sitesOfKind .remove fileSites).length = 1 := by decide

/-- **C14 (the mkstemp assumption is the only one).**  The footprint-disjointness `C14_concurrent` assumes is EQUIVALENT
    to: `MkstempUnique` (the operating system's promise: a name `mkstemp` returns to one process is returned to no other
    and is not a name on anybody's command line) together with `OutputsDisjoint` (the users' part: the two commands do
    not name the same output).  Nothing else is shared. -/
theorem C14_concurrent_hypotheses (envA envB : Env P) (cmdA cmdB : Cmd P) :
    ((∀ p, Writes envA cmdA p → ¬ Touches envB cmdB p) ∧ (∀ p, Writes envB cmdB p → ¬ Touches envA cmdA p)) ↔
    (MkstempUnique envA envB cmdA cmdB ∧ OutputsDisjoint cmdA cmdB) :=
  footprints_iff envA envB cmdA cmdB

/-- **C14 (concurrent invocations, with the assumption as an object).** -/
theorem C14_concurrent_mkstemp (envA envB : Env P) (cmdA cmdB : Cmd P) (fs : FS P) (il : List Bool)
    (hM : MkstempUnique envA envB cmdA cmdB) (hO : OutputsDisjoint cmdA cmdB)
    (hta : (irun envA envB il (init cmdA, init cmdB, fs)).1.phase.terminal = true)
    (htb : (irun envA envB il (init cmdA, init cmdB, fs)).2.1.phase.terminal = true) :
    (irun envA envB il (init cmdA, init cmdB, fs)).1 = (runCmd envA cmdA fs).1 ∧
    (irun envA envB il (init cmdA, init cmdB, fs)).2.1 = (runCmd envB cmdB fs).1 ∧
    (∀ p, Touches envA cmdA p →
      (irun envA envB il (init cmdA, init cmdB, fs)).2.2.get p = (runCmd envA cmdA fs).2.get p) ∧
    (∀ p, Touches envB cmdB p →
      (irun envA envB il (init cmdA, init cmdB, fs)).2.2.get p = (runCmd envB cmdB fs).2.get p) ∧
    (∀ p, ¬ Writes envA cmdA p → ¬ Writes envB cmdB p →
      (irun envA envB il (init cmdA, init cmdB, fs)).2.2.get p = fs.get p) := by
  obtain ⟨hAB, hBA⟩ := (footprints_iff envA envB cmdA cmdB).mpr ⟨hM, hO⟩
  exact C14_concurrent envA envB cmdA cmdB fs il hAB hBA hta htb

/-- non-vacuity of the two objects: `-c a.c` (temporaries 100…103) next to `b.c -o 50` (temporaries 200…203) -/
private def cA' : Cmd Nat := { mode := .c, out := none, aout := 99, inputs := [⟨1, .C, 11, 12⟩] }
private def cB' : Cmd Nat := { mode := .link, out := some 50, aout := 99, inputs := [⟨2, .C, 21, 22⟩] }
private def eA' : Env Nat := { mode := .c, sched := fun _ _ => .ok, fresh := fun k => if k < 4 then some (100 + k) else none }
private def eB' : Env Nat := { mode := .link, sched := fun _ _ => .ok, fresh := fun k => if k < 4 then some (200 + k) else none }

example : MkstempUnique eA' eB' cA' cB' where
  disjoint := by
    intro j k p ha hb
    simp only [eA'] at ha; simp only [eB'] at hb
    split at ha <;> split at hb <;> simp at ha hb <;> omega
  freshA := by
    intro k p ha
    simp only [eA'] at ha
    split at ha <;> simp at ha
    simp [requested, cB']; omega
  freshB := by
    intro k p hb
    simp only [eB'] at hb
    split at hb <;> simp at hb
    simp [requested, cA', isUnit, effKind, unitOutput]; omega

example : OutputsDisjoint cA' cB' where
  ab := by simp [requested, cA', cB', isUnit, effKind, unitOutput]
  ba := by simp [requested, cA', cB', isUnit, effKind, unitOutput]

end ChibiVerif.Props.C14
