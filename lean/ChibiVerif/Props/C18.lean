/-
C18 — source positions survive preprocessing.

Property theorems only (helper lemmas: Lemmas/LineNoLemmas.lean; model: Model/LineNo.lean; spec: Spec/LineSpec.lean).
Every theorem is for ALL byte sequences / offsets / event lists; bytes are `Nat`s.

What is proved, and what is not:
* the three text phases keep the newline bookkeeping they promise (`C18_newlines_preserved`);
* the EXACT relation between the line chibicc computes and the physical line, for every token of every file
  (`C18_line_formula`: computed + backslash-newlines before the token on its logical line = physical);
  hence equality outside the region `spliceBefore` (`C18_line_partial`, `C18_reported_partial`);
* the full statement `C18_line_Statement` is FALSE (known finding `C18-line-after-splice`, Findings/C18.lean);
* after a `#line`-family directive the reported line is `N + (line(tok) − line(directive))`, one more than C11 6.10.4p3
  (`C18_line_directive_characterised`; the full `C18_line_directive_Statement` is FALSE — known finding
  `C18-line-directive-off-by-one`); the file name part is right for all inputs (`C18_file_directive`);
* `convert_universal_chars`, the last pass before `tokenize`, moves no byte to another line (`C18_ucn_lines_kept`), so
  everything above holds for the text `tokenize` really numbers (`C18_line_final_partial`);
* diagnostics, `.loc` and `.file` carry exactly these numbers (`C18_add_line_numbers`, `C18_diag_loc`, `C18_loc_records`),
  `__LINE__`/`__FILE__` use the outermost invocation token and synthesised tokens keep their template's line
  (`C18_macro_origin`).
-/
import ChibiVerif.Model.LineNo
import ChibiVerif.Spec.LineSpec
import ChibiVerif.Lemmas.LineNoLemmas
import ChibiVerif.Lemmas.LineNoUCN

namespace ChibiVerif.Props.C18
open ChibiVerif.LineNo
open ChibiVerif.Spec.Line (countTerm physLine pendingSplices spliceBefore presumedLine)

/-- **C18 (the three phases keep the newline bookkeeping).**
    1. `remove_backslash_newline` preserves the total number of '\n';
    2. for every position that starts a logical line (start of text, or just after a '\n' not preceded by a backslash),
       the output splits at the image of that position, the part before it has the same number of '\n' as the input
       prefix, and the part after it is the function applied to the rest (the counter is 0 there);
    3. `canonicalize_newline` turns each CR LF / CR / LF into exactly one '\n' (their number is the spec's count of
       line terminators), leaves no CR, and leaves all other bytes unchanged and in order;
    4. skipping the BOM changes neither count; `read_file`'s final newline changes nothing before any byte of the file. -/
theorem C18_newlines_preserved :
    (∀ p : List Nat, countLF (removeBackslashNewline p) = countLF p) ∧
    (∀ pre rest : List Nat, startsLogicalLine pre = true →
        ∃ pre', removeBackslashNewline (pre ++ rest) = pre' ++ removeBackslashNewline rest ∧
                countLF pre' = countLF pre) ∧
    (∀ l : List Nat, countLF (canonicalizeNewline l) = countTerm 0 l ∧ CR ∉ canonicalizeNewline l ∧
        (canonicalizeNewline l).filter (fun b => b != LF) = l.filter (fun b => b != CR && b != LF)) ∧
    (∀ p : List Nat, countLF (skipBOM p) = countLF p ∧ countTerm 0 (skipBOM p) = countTerm 0 p) ∧
    (∀ (p : List Nat) (off : Nat), off ≤ p.length → (ensureFinalNewline p).take off = p.take off) := by
  refine ⟨fun p => by simpa [removeBackslashNewline] using countLF_splice p 0, ?_, ?_, ?_, ?_⟩
  · intro pre rest h
    obtain ⟨h0, hcut⟩ := scanN_logical_start pre h
    refine ⟨spliceEmit pre 0, ?_, ?_⟩
    · unfold removeBackslashNewline; rw [splice_append _ _ _ (hcut rest), h0]
    · have := countLF_spliceEmit pre 0; omega
  · intro l
    exact ⟨countLF_canon 0 l (by simp), canon_no_CR l, canon_others l⟩
  · intro p
    exact ⟨countLF_skipBOM p, countTerm_skipBOM p⟩
  · exact ensureFinalNewline_take

/-- non-vacuity of part 2: after `a\⏎b⏎` (one splice, then a real newline) position 5 starts a logical line; the
    input has 2 newlines before it and so has the output (`ab⏎⏎`), although the first input newline was removed -/
example : startsLogicalLine [97, 92, 10, 98, 10] = true ∧
    removeBackslashNewline ([97, 92, 10, 98, 10] ++ [99, 10]) = [97, 98, 10, 10] ++ removeBackslashNewline [99, 10] := by
  decide

/-- **C18 (exact line formula, every token of every file).**  For every byte sequence and every offset at which a
    token can start, the line number chibicc's tokenizer computes (number of '\n' before the image of the offset in the
    text after BOM skip, `canonicalize_newline` and `remove_backslash_newline`, plus 1) plus the number of
    backslash-newlines between the start of the token's logical line and the token equals the physical line
    (1 + number of LF / CR / CR LF terminators before the offset in the original bytes). -/
theorem C18_line_formula (bytes : List Nat) (off : Nat) (h : tokenStart bytes off = true) :
    lineNoAt bytes off + pendingSplices bytes off = physLine bytes off :=
  lineNoAt_formula bytes off h

/-- … and `posMap` is the right image: the byte found there is the byte of the file -/
theorem C18_posMap_faithful (bytes : List Nat) (off c : Nat) (h : tokenStart bytes off = true)
    (hc : bytes[off]? = some c) (hB : c ≠ BSL) :
    (sourceText bytes)[posMap bytes off]? = some c :=
  posMap_faithful bytes off c h hc hB

/-- non-vacuity: `/* c␍⏎ c */ x \␍⏎ y␍z⏎` — `x` (offset 12) is on physical line 2 with no splice before it,
    `y` (offset 18) on physical line 3 with one splice before it (computed 2), `z` (offset 20) on line 4. -/
example :
    let f := [47, 42, 32, 99, 13, 10, 32, 99, 32, 42, 47, 32, 120, 32, 92, 13, 10, 32, 121, 13, 122, 10]
    tokenStart f 12 = true ∧ lineNoAt f 12 = 2 ∧ pendingSplices f 12 = 0 ∧ physLine f 12 = 2 ∧
    tokenStart f 18 = true ∧ lineNoAt f 18 = 2 ∧ pendingSplices f 18 = 1 ∧ physLine f 18 = 3 ∧
    tokenStart f 20 = true ∧ lineNoAt f 20 = 4 ∧ pendingSplices f 20 = 0 ∧ physLine f 20 = 4 ∧
    (sourceText f)[posMap f 18]? = some 121 := by
  decide

/-- **C18 (no overrun in `convert_universal_chars`).**  The text handed to that pass always ends in '\n', for every file
    (empty, ending in a backslash, in CR, in a BOM …), so its arm `*q++ = *p++; *q++ = *p++;` never copies the terminator
    and runs past it (the model's `[] => [(a, s)]` arm of `convertUCNAux` is never taken). -/
theorem C18_text_ends_newline (bytes : List Nat) : (sourceText bytes).getLast? = some LF :=
  sourceText_last bytes

/-- **C18 (`convert_universal_chars` keeps lines).**  Every byte of the text `tokenize` numbers has the line number that the
    byte it came from had before the pass (the pass rewrites `\uXXXX` / `\UXXXXXXXX` into UTF-8 but leaves a name for U+000A
    alone, so every '\n' it writes is a copy of one it read — for all texts). -/
theorem C18_ucn_lines_kept (bytes : List Nat) (k : Nat) (e : Nat × Nat)
    (hk : (convertUCN (sourceText bytes))[k]? = some e) :
    lineNoOf (tokenizerText bytes) k = lineNoOf (sourceText bytes) e.2 := by
  unfold lineNoOf tokenizerText
  rw [convertUCN_lines _ k e hk]

/-- non-vacuity, and the pass does shorten the text: `"\u00e9"⏎⏎x` — `x` is at offset 10 of the file and of the text before the
    pass, at offset 6 after it, on line 3 in both -/
example :
    let f := [34, 92, 117, 48, 48, 101, 57, 34, 10, 10, 120]
    posMap f 10 = 10 ∧ finalPos f 10 = 6 ∧
    (convertUCN (sourceText f))[6]? = some (120, 10) ∧ lineNoFinal f 10 = 3 ∧ lineNoAt f 10 = 3 := by
  decide

/-- the full statement: every token's computed line is its physical line.  FALSE — Findings/C18.lean. -/
def C18_line_Statement : Prop :=
  ∀ (bytes : List Nat) (off : Nat), tokenStart bytes off = true → lineNoAt bytes off = physLine bytes off

/-- **C18 (line numbers, outside the known region).**  For every byte sequence (any number of blank lines, comments
    spanning lines, backslash-newlines elsewhere — inside tokens, strings, comments, at end of file —, LF / CR / CR LF
    in any mix, optional BOM, missing final newline) and every token start with no backslash-newline before it on its
    own logical line, the computed line number is the physical line. -/
theorem C18_line_partial (bytes : List Nat) (off : Nat) (h : tokenStart bytes off = true)
    (hs : spliceBefore bytes off = false) :
    lineNoAt bytes off = physLine bytes off := by
  have := lineNoAt_formula bytes off h
  have h0 : pendingSplices bytes off = 0 := by simpa [spliceBefore] using hs
  omega

/-- **C18 (line numbers as `add_line_numbers` computes them, outside the known region).**  The same for the text after
    `convert_universal_chars`, which is the one `tokenize` numbers: if the byte at file offset `off` survives into that text
    (`finalPos` finds it: it is not one of the bytes `\uXXXX` that were replaced). -/
theorem C18_line_final_partial (bytes : List Nat) (off : Nat) (h : tokenStart bytes off = true)
    (hs : spliceBefore bytes off = false)
    (hf : finalPos bytes off < (convertUCN (sourceText bytes)).length) :
    lineNoFinal bytes off = physLine bytes off := by
  unfold lineNoFinal
  generalize hidx : finalPos bytes off = idx at hf
  have hk : (convertUCN (sourceText bytes))[idx]? = some ((convertUCN (sourceText bytes))[idx]) :=
    List.getElem?_eq_getElem hf
  rw [C18_ucn_lines_kept bytes _ _ hk]
  have he : ((convertUCN (sourceText bytes))[idx]).2 = posMap bytes off := by
    subst hidx
    have := List.findIdx_getElem (w := hf)
    simp only [beq_iff_eq] at this
    exact this
  rw [he]
  exact C18_line_partial bytes off h hs

/-- non-vacuity: `/* \u000a */⏎x` — the comment spells a universal character name for a newline; `x` (offset 13) is found at
    offset 13 of the tokenizer's text and is on line 2 -/
example :
    let f := [47, 42, 32, 92, 117, 48, 48, 48, 97, 32, 42, 47, 10, 120, 10]
    tokenStart f 13 = true ∧ spliceBefore f 13 = false ∧ finalPos f 13 = 13 ∧
    finalPos f 13 < (convertUCN (sourceText f)).length ∧ lineNoFinal f 13 = 2 := by
  decide

/-- non-vacuity: BOM, a blank line, a CR-only and a CR LF line end, a comment spanning two lines, a splice inside the
    comment and one at the end of an earlier logical line: `﻿⏎a\⏎b␍/* \⏎ */␍⏎x` — `x` at offset 19 is on line 6 -/
example :
    let f := [239, 187, 191, 10, 97, 92, 10, 98, 13, 47, 42, 32, 92, 10, 32, 42, 47, 13, 10, 120]
    tokenStart f 19 = true ∧ spliceBefore f 19 = false ∧ lineNoAt f 19 = 6 := by
  decide

/-- **C18 (what is reported, outside both known regions).**  In a file that has met no `#line`-family directive
    (any events before, none of them a directive), for a token / `__LINE__` invocation / `__FILE__` invocation whose
    (outermost) token starts at file offset `off` with no splice before it on its logical line: the token's final
    `line_no` is its physical line and its `filename` the file's name; `__LINE__` is the physical line; `__FILE__` is
    the file's name. -/
theorem C18_reported_partial (bytes : List Nat) (name : String) (fileNo : Nat) (evs : List Ev) (off : Nat)
    (hnd : ∀ e ∈ evs, e.isDir = false) (h : tokenStart bytes off = true) (hs : spliceBefore bytes off = false) :
    (runFile (sourceText bytes) (newFile name fileNo) (evs ++ [.tok (posMap bytes off)])).getLast?
        = some (.tok (physLine bytes off) name) ∧
    (runFile (sourceText bytes) (newFile name fileNo) (evs ++ [.lineMac (posMap bytes off)])).getLast?
        = some (.line (physLine bytes off)) ∧
    (runFile (sourceText bytes) (newFile name fileNo) (evs ++ [.fileMac (posMap bytes off)])).getLast?
        = some (.file name) := by
  have hl : lineNoOf (sourceText bytes) (posMap bytes off) = physLine bytes off := C18_line_partial bytes off h hs
  simp only [runFile_append, stateAfter_noDir _ _ _ hnd]
  simp [runFile, newFile, passThroughF, finalize, hl]

/-- non-vacuity: `a\⏎b⏎c⏎`, events `a`, `__LINE__` at `b`… then `c` (offset 5, physical line 3) -/
example : (runFile (sourceText [97, 92, 10, 98, 10, 99, 10]) (newFile "t.c" 1)
    ([.tok 0, .lineMac 1] ++ [.tok (posMap [97, 92, 10, 98, 10, 99, 10] 5)])).getLast? = some (.tok 3 "t.c") := by
  decide

/-- the full statement for `#line`: a token after `#line N ["name"]` (no further directive in between) is reported
    on presumed line `N + (physLine tok − physLine directive − 1)` (C11 6.10.4p3) under the directive's file name.
    FALSE — Findings/C18.lean. -/
def C18_line_directive_Statement : Prop :=
  ∀ (bytes : List Nat) (f : File) (pre post : List Ev) (d : Nat) (n : Int) (name : Option String) (off : Nat),
    (∀ e ∈ post, e.isDir = false) → tokenStart bytes off = true → tokenStart bytes d = true →
    spliceBefore bytes off = false → spliceBefore bytes d = false →
    (runFile (sourceText bytes) f (pre ++ .lineDir (posMap bytes d) n name :: post ++ [.tok (posMap bytes off)])).getLast?
      = some (.tok (presumedLine n (physLine bytes off) (physLine bytes d))
                   (name.getD (stateAfter (sourceText bytes) f pre).displayName))

/-- **C18 (`#line` arithmetic, exact).**  After a directive `#line N`, `#line N "name"` or `# N "name"` whose `#` is at
    offset `d`, with no further directive before the token at `off`: the token's final line and `__LINE__` are
    `N + (computed line of the token − computed line of the directive)`; outside the splice region that is
    `N + (physLine tok − physLine directive)` = the C11 presumed line **plus one**.  Whatever happened before the
    directive (`pre`, earlier directives included) has no influence. -/
theorem C18_line_directive_characterised (bytes : List Nat) (f : File) (pre post : List Ev) (d : Nat) (n : Int)
    (name : Option String) (off : Nat) (hnd : ∀ e ∈ post, e.isDir = false) :
    let text := sourceText bytes
    let disp := name.getD (stateAfter text f pre).displayName
    ((runFile text f (pre ++ .lineDir (posMap bytes d) n name :: post ++ [.tok (posMap bytes off)])).getLast?
        = some (.tok (n + ((lineNoAt bytes off : Int) - (lineNoAt bytes d : Int))) disp) ∧
     (runFile text f (pre ++ .lineDir (posMap bytes d) n name :: post ++ [.lineMac (posMap bytes off)])).getLast?
        = some (.line (n + ((lineNoAt bytes off : Int) - (lineNoAt bytes d : Int))))) ∧
    (tokenStart bytes off = true → tokenStart bytes d = true →
      spliceBefore bytes off = false → spliceBefore bytes d = false →
      n + ((lineNoAt bytes off : Int) - (lineNoAt bytes d : Int))
        = presumedLine n (physLine bytes off) (physLine bytes d) + 1) := by
  intro text disp
  refine ⟨⟨?_, ?_⟩, ?_⟩
  · have e : pre ++ Ev.lineDir (posMap bytes d) n name :: post ++ [Ev.tok (posMap bytes off)]
        = pre ++ ([Ev.lineDir (posMap bytes d) n name] ++ (post ++ [Ev.tok (posMap bytes off)])) := by simp
    rw [e, runFile_append, runFile_append, runFile_append]
    simp only [stateAfter_noDir _ _ _ hnd, stateAfter, runFile, List.nil_append]
    simp [readLineMarker, passThroughF, finalize, lineNoAt, text, disp]
    omega
  · have e : pre ++ Ev.lineDir (posMap bytes d) n name :: post ++ [Ev.lineMac (posMap bytes off)]
        = pre ++ ([Ev.lineDir (posMap bytes d) n name] ++ (post ++ [Ev.lineMac (posMap bytes off)])) := by simp
    rw [e, runFile_append, runFile_append, runFile_append]
    simp only [stateAfter_noDir _ _ _ hnd, stateAfter, runFile, List.nil_append]
    simp [readLineMarker, lineNoAt, text]
    omega
  · intro h1 h2 h3 h4
    rw [C18_line_partial bytes off h1 h3, C18_line_partial bytes d h2 h4]
    unfold presumedLine; omega

/-- non-vacuity: `#line 100⏎x⏎`: `x` (offset 10) is reported on line 101 = presumed line 100, plus one -/
example : (runFile (sourceText [35, 108, 105, 110, 101, 32, 49, 48, 48, 10, 120, 10]) (newFile "t.c" 1)
      ([] ++ .lineDir (posMap [35, 108, 105, 110, 101, 32, 49, 48, 48, 10, 120, 10] 0) 100 none :: []
        ++ [.tok (posMap [35, 108, 105, 110, 101, 32, 49, 48, 48, 10, 120, 10] 10)])).getLast?
    = some (.tok 101 "t.c") ∧ presumedLine 100 2 1 = 100 := by
  decide

/-- **C18 (`__FILE__` and the token's `filename` after a directive, all inputs).**  After `#line N "name"` / `# N "name"`
    they are `name`; after `#line N` they are whatever they were before the directive. -/
theorem C18_file_directive (text : List Nat) (f : File) (pre post : List Ev) (d : Nat) (n : Int)
    (name : Option String) (off : Nat) (hnd : ∀ e ∈ post, e.isDir = false) :
    (runFile text f (pre ++ .lineDir d n name :: post ++ [.fileMac off])).getLast?
      = some (.file (name.getD (stateAfter text f pre).displayName)) := by
  have e : pre ++ Ev.lineDir d n name :: post ++ [Ev.fileMac off]
      = pre ++ ([Ev.lineDir d n name] ++ (post ++ [Ev.fileMac off])) := by simp
  rw [e, runFile_append, runFile_append, runFile_append]
  simp only [stateAfter_noDir _ _ _ hnd, stateAfter, runFile, List.nil_append]
  simp [readLineMarker]

example : (runFile [] (newFile "t.c" 1) ([.tok 0] ++ .lineDir 0 7 (some "foo.c") :: [.tok 0] ++ [.fileMac 0])).getLast?
    = some (.file "foo.c") := by decide

/-- **C18 (`add_line_numbers`).**  For a token list in text order that ends with the EOF token at the terminator
    (how `tokenize` builds it), the loop never dereferences an exhausted list and gives every token
    `1 + number of '\n' before its loc`. -/
theorem C18_add_line_numbers (text : List Nat) (locs : List Nat) (hne : locs ≠ [])
    (hpw : locs.Pairwise (· < ·)) (hlast : locs.getLast? = some text.length) :
    addLineNumbers text locs = .ok (locs.map (lineNoOf text)) :=
  addLineNumbers_ok text locs hne hpw hlast

example : addLineNumbers [97, 10, 10, 98, 32, 99, 10] [0, 3, 5, 7] = .ok [1, 3, 3, 4] := rfl

/-- **C18 (diagnostic location).**  `error_at` recounts the newlines from the start of the buffer up to `loc`: that is
    the very number `add_line_numbers` stored in the token; `error_tok`/`warn_tok` print the token's final `line_no`
    after the name of the token's file; and the source line `verror_at` shows under that prefix begins at the start of
    the line with that number (it starts at the buffer start or right after a '\n', and no '\n' lies between it and `loc`). -/
theorem C18_diag_loc :
    (∀ (text : List Nat) (loc : Nat), errorAtLine text loc = lineNoOf text loc) ∧
    (∀ (fs : Files) (t : TokInfo),
        diagPrefix fs (finalize (passThrough fs t))
          = ((getFile fs t.file).name, t.lineNo + (getFile fs t.file).lineDelta)) ∧
    (∀ (text : List Nat) (loc : Nat),
        lineNoOf text (shownStart text loc) = lineNoOf text loc ∧ shownStart text loc ≤ loc ∧
        (shownStart text loc = 0 ∨ text[shownStart text loc - 1]? = some LF)) :=
  ⟨errorAtLine_eq, fun _ _ => rfl,
   fun text loc => ⟨shownStart_line text loc, shownStart_le text loc, shownStart_bol text loc⟩⟩

/-- **C18 (`.loc` and `.file`).**  `.loc` carries the file number of the token's file and the token's final `line_no`
    (the same pair of facts a diagnostic for that token prints); a token synthesised by `##`, `#` or a builtin macro
    keeps the file number (and name) of its template's file; and the `.file` table lists the files in the order they were
    entered with numbers 1, 2, 3, … — in particular no two entries share a number. -/
theorem C18_loc_records :
    (∀ (fs : Files) (t : TokInfo),
        locRecord fs (finalize (passThrough fs t))
          = ((getFile fs t.file).fileNo, t.lineNo + (getFile fs t.file).lineDelta) ∧
        (locRecord fs (finalize (passThrough fs t))).2 = (diagPrefix fs (finalize (passThrough fs t))).2) ∧
    (∀ (fs : Files) (i : Nat),
        (getFile fs (.synth i)).fileNo = (getFile fs (.input i)).fileNo ∧
        (getFile fs (.synth i)).name = (getFile fs (.input i)).name) ∧
    (∀ paths : List String,
        (fileTable (enterAll [] paths)).map (·.1) = List.range' 1 paths.length ∧
        (fileTable (enterAll [] paths)).map (·.2) = paths ∧
        ((fileTable (enterAll [] paths)).map (·.1)).Nodup) := by
  refine ⟨fun _ _ => ⟨rfl, rfl⟩, fun fs i => ⟨rfl, rfl⟩, fun paths => ?_⟩
  have := enterAll_spec paths []
  have h1 : (fileTable (enterAll [] paths)).map (·.1) = List.range' 1 paths.length := by
    simpa [fileTable, List.map_map, Function.comp_def] using this.1
  refine ⟨h1, ?_, ?_⟩
  · simpa [fileTable, List.map_map, Function.comp_def] using this.2
  · rw [h1]; exact List.nodup_range'

example : fileTable (enterAll [] ["a.h", "t.c", "b.h", "a.h"]) = [(1, "a.h"), (2, "t.c"), (3, "b.h"), (4, "a.h")] := by
  decide

/-- **C18 (macro expansion).**  A token copied out of a macro body gets the invoking token as `origin`; `__LINE__` and
    `__FILE__` walk the chain to its end, so through any nesting of expansions they are computed from the OUTERMOST
    invocation token (`line_no` of that token + the current `line_delta` of its file; `display_name` of its file).
    A token synthesised by `##`, `#` or a builtin macro takes the `line_no` of its template token. -/
theorem C18_macro_origin (fs : Files) (body : TokInfo) (m : Tok) (t : TokInfo) :
    lineMacro fs (expandBodyTok body m) = lineMacro fs m ∧
    fileMacro fs (expandBodyTok body m) = fileMacro fs m ∧
    lineMacro fs (.plain t) = t.lineNo + (getFile fs t.file).lineDelta ∧
    fileMacro fs (.plain t) = (getFile fs t.file).displayName ∧
    (synthTok t).lineNo = t.lineNo :=
  ⟨rfl, rfl, rfl, rfl, rfl⟩

/-- `include_file` splices token lists; no line number changes (each file was numbered from its own text) -/
theorem C18_include_keeps_numbers (included rest : List TokInfo) :
    (includeFile included rest).map (·.lineNo) = included.map (·.lineNo) ++ rest.map (·.lineNo) := by
  simp [includeFile]

end ChibiVerif.Props.C18
