/-
C18 — source positions survive preprocessing.

Property theorems only (helper lemmas: Lemmas/LineNoLemmas.lean, LineNoUCN.lean, LineNoMarkers.lean — the `#line` marker list —,
LineNoSched.lean — all processing orders —, LineNoPP.lean — origins in the expansion model; model: Model/LineNo.lean, for
`C18_macro_origin_pp` Model/PP.lean; spec: Spec/LineSpec.lean).
Every theorem is for ALL byte sequences / offsets / event lists; bytes are `Nat`s.

What is proved, and what is not:
* the three text phases keep the newline bookkeeping they promise (`C18_newlines_preserved`);
* the EXACT relation between the line chibicc computes and the physical line, for every token of every file
  (`C18_line_formula`: computed + backslash-newlines before the token on its logical line = physical);
  hence equality outside the region `spliceBefore` (`C18_line_partial`, `C18_reported_partial`);
* the full statement `C18_line_Statement` is FALSE (known finding `C18-line-after-splice`, Findings/C18.lean);
* a `#line`-family directive applies to the lines BELOW it and to nothing else, whenever a token is processed: the reported
  line of a token below it is `N + (line(tok) − line(directive))`, one more than C11 6.10.4p3
  (`C18_line_directive_characterised`; the full `C18_line_directive_Statement` is FALSE — known finding
  `C18-line-directive-off-by-one`); a token at or above the directive is not touched by it, even when it is processed after
  it — the body of a macro defined above the directive and expanded below it — (`C18_line_directive_not_retroactive`);
  the line and the file name reported are a function of the token's position and of the directives of the file as a
  collection (`C18_line_directive_order_independent`, against the positional `Spec.Line.inForce`), in EVERY order in which
  `preprocess2` can meet the tokens of a file — directives at their turn, any other token at its turn or any time later,
  any number of times, out of a macro body (`C18_line_directive_all_schedules`); the reported line is ≥ 1
  for every event order whenever the operands are ≥ 1 (`C18_line_directive_positional`; the code before the repair
  reported line −8, Findings/C18.lean); the file name part is right for all inputs (`C18_file_directive`);
* `convert_universal_chars`, the last pass before `tokenize`, moves no byte to another line (`C18_ucn_lines_kept`), so
  everything above holds for the text `tokenize` really numbers (`C18_line_final_partial`);
* diagnostics, `.loc` and `.file` carry exactly these numbers (`C18_add_line_numbers`, `C18_diag_loc`, `C18_loc_records`),
  `__LINE__`/`__FILE__` use the outermost invocation token and synthesised tokens keep their template's line
  (`C18_macro_origin`); the same fact on the macro-expansion model of C09 (Model/PP.lean, `expand_macro` with argument
  collection, substitution, hide sets): every token of an expansion carries the invoking token's origin line and `__LINE__`
  expands to it (`C18_macro_origin_pp`).
-/
import ChibiVerif.Model.LineNo
import ChibiVerif.Spec.LineSpec
import ChibiVerif.Lemmas.LineNoLemmas
import ChibiVerif.Lemmas.LineNoUCN
import ChibiVerif.Lemmas.LineNoMarkers
import ChibiVerif.Lemmas.LineNoPP
import ChibiVerif.Lemmas.LineNoSched

namespace ChibiVerif.Props.C18
open ChibiVerif.LineNo
open ChibiVerif.Spec.Line (countTerm physLine pendingSplices spliceBefore presumedLine Dir inForce presumedLineAt presumedFileAt)

/-- **C18 (the three phases keep the newline bookkeeping).**
    1. `remove_backslash_newline` preserves the total number of '\n';
    2. for every position that starts a logical line (start of text, or just after a '\n' not preceded by a backslash),
       the output splits at the image of that position, the part before it has the same number of '\n' as the input
       prefix, and the part after it is the function applied to the rest (the counter is 0 there);
    3. `canonicalize_newline` turns each CR LF / CR / LF into exactly one '\n' (their number is the spec's count of
       line terminators), leaves no CR, and leaves all other bytes unchanged and in order;
    4. skipping the BOM changes neither count; `read_file`'s final newline changes nothing before any byte of the file. -/
theorem C18_newlines_preserved :
    (∀ p : List Nat, countLF (removeBackslashNewline p) = countLF p) ∧
    (∀ pre rest : List Nat, startsLogicalLine pre = true →
        ∃ pre', removeBackslashNewline (pre ++ rest) = pre' ++ removeBackslashNewline rest ∧
                countLF pre' = countLF pre) ∧
    (∀ l : List Nat, countLF (canonicalizeNewline l) = countTerm 0 l ∧ CR ∉ canonicalizeNewline l ∧
        (canonicalizeNewline l).filter (fun b => b != LF) = l.filter (fun b => b != CR && b != LF)) ∧
    (∀ p : List Nat, countLF (skipBOM p) = countLF p ∧ countTerm 0 (skipBOM p) = countTerm 0 p) ∧
    (∀ (p : List Nat) (off : Nat), off ≤ p.length → (ensureFinalNewline p).take off = p.take off) := by
  refine ⟨fun p => by simpa [removeBackslashNewline] using countLF_splice p 0, ?_, ?_, ?_, ?_⟩
  · intro pre rest h
    obtain ⟨h0, hcut⟩ := scanN_logical_start pre h
    refine ⟨spliceEmit pre 0, ?_, ?_⟩
    · unfold removeBackslashNewline; rw [splice_append _ _ _ (hcut rest), h0]
    · have := countLF_spliceEmit pre 0; omega
  · intro l
    exact ⟨countLF_canon 0 l (by simp), canon_no_CR l, canon_others l⟩
  · intro p
    exact ⟨countLF_skipBOM p, countTerm_skipBOM p⟩
  · exact ensureFinalNewline_take

/-- non-vacuity of part 2: after `a\⏎b⏎` (one splice, then a real newline) position 5 starts a logical line; the
    input has 2 newlines before it and so has the output (`ab⏎⏎`), although the first input newline was removed -/
example : startsLogicalLine [97, 92, 10, 98, 10] = true ∧
    removeBackslashNewline ([97, 92, 10, 98, 10] ++ [99, 10]) = [97, 98, 10, 10] ++ removeBackslashNewline [99, 10] := by
  decide

/-- **C18 (exact line formula, every token of every file).**  For every byte sequence and every offset at which a
    token can start, the line number chibicc's tokenizer computes (number of '\n' before the image of the offset in the
    text after BOM skip, `canonicalize_newline` and `remove_backslash_newline`, plus 1) plus the number of
    backslash-newlines between the start of the token's logical line and the token equals the physical line
    (1 + number of LF / CR / CR LF terminators before the offset in the original bytes). -/
theorem C18_line_formula (bytes : List Nat) (off : Nat) (h : tokenStart bytes off = true) :
    lineNoAt bytes off + pendingSplices bytes off = physLine bytes off :=
  lineNoAt_formula bytes off h

/-- … and `posMap` is the right image: the byte found there is the byte of the file -/
theorem C18_posMap_faithful (bytes : List Nat) (off c : Nat) (h : tokenStart bytes off = true)
    (hc : bytes[off]? = some c) (hB : c ≠ BSL) :
    (sourceText bytes)[posMap bytes off]? = some c :=
  posMap_faithful bytes off c h hc hB

/-- non-vacuity: `/* c␍⏎ c */ x \␍⏎ y␍z⏎` — `x` (offset 12) is on physical line 2 with no splice before it,
    `y` (offset 18) on physical line 3 with one splice before it (computed 2), `z` (offset 20) on line 4. -/
example :
    let f := [47, 42, 32, 99, 13, 10, 32, 99, 32, 42, 47, 32, 120, 32, 92, 13, 10, 32, 121, 13, 122, 10]
    tokenStart f 12 = true ∧ lineNoAt f 12 = 2 ∧ pendingSplices f 12 = 0 ∧ physLine f 12 = 2 ∧
    tokenStart f 18 = true ∧ lineNoAt f 18 = 2 ∧ pendingSplices f 18 = 1 ∧ physLine f 18 = 3 ∧
    tokenStart f 20 = true ∧ lineNoAt f 20 = 4 ∧ pendingSplices f 20 = 0 ∧ physLine f 20 = 4 ∧
    (sourceText f)[posMap f 18]? = some 121 := by
  decide

/-- **C18 (no overrun in `convert_universal_chars`).**  The text handed to that pass always ends in '\n', for every file
    (empty, ending in a backslash, in CR, in a BOM …), so its arm `*q++ = *p++; *q++ = *p++;` never copies the terminator
    and runs past it (the model's `[] => [(a, s)]` arm of `convertUCNAux` is never taken). -/
theorem C18_text_ends_newline (bytes : List Nat) : (sourceText bytes).getLast? = some LF :=
  sourceText_last bytes

/-- **C18 (`convert_universal_chars` keeps lines).**  Every byte of the text `tokenize` numbers has the line number that the
    byte it came from had before the pass (the pass rewrites `\uXXXX` / `\UXXXXXXXX` into UTF-8 but leaves a name for U+000A
    alone, so every '\n' it writes is a copy of one it read — for all texts). -/
theorem C18_ucn_lines_kept (bytes : List Nat) (k : Nat) (e : Nat × Nat)
    (hk : (convertUCN (sourceText bytes))[k]? = some e) :
    lineNoOf (tokenizerText bytes) k = lineNoOf (sourceText bytes) e.2 := by
  unfold lineNoOf tokenizerText
  rw [convertUCN_lines _ k e hk]

/-- non-vacuity, and the pass does shorten the text: `"\u00e9"⏎⏎x` — `x` is at offset 10 of the file and of the text before the
    pass, at offset 6 after it, on line 3 in both -/
example :
    let f := [34, 92, 117, 48, 48, 101, 57, 34, 10, 10, 120]
    posMap f 10 = 10 ∧ finalPos f 10 = 6 ∧
    (convertUCN (sourceText f))[6]? = some (120, 10) ∧ lineNoFinal f 10 = 3 ∧ lineNoAt f 10 = 3 := by
  decide

/-- the full statement: every token's computed line is its physical line.  FALSE — Findings/C18.lean. -/
def C18_line_Statement : Prop :=
  ∀ (bytes : List Nat) (off : Nat), tokenStart bytes off = true → lineNoAt bytes off = physLine bytes off

/-- **C18 (line numbers, outside the known region).**  For every byte sequence (any number of blank lines, comments
    spanning lines, backslash-newlines elsewhere — inside tokens, strings, comments, at end of file —, LF / CR / CR LF
    in any mix, optional BOM, missing final newline) and every token start with no backslash-newline before it on its
    own logical line, the computed line number is the physical line. -/
theorem C18_line_partial (bytes : List Nat) (off : Nat) (h : tokenStart bytes off = true)
    (hs : spliceBefore bytes off = false) :
    lineNoAt bytes off = physLine bytes off := by
  have := lineNoAt_formula bytes off h
  have h0 : pendingSplices bytes off = 0 := by simpa [spliceBefore] using hs
  omega

/-- **C18 (line numbers as `add_line_numbers` computes them, outside the known region).**  The same for the text after
    `convert_universal_chars`, which is the one `tokenize` numbers: if the byte at file offset `off` survives into that text
    (`finalPos` finds it: it is not one of the bytes `\uXXXX` that were replaced). -/
theorem C18_line_final_partial (bytes : List Nat) (off : Nat) (h : tokenStart bytes off = true)
    (hs : spliceBefore bytes off = false)
    (hf : finalPos bytes off < (convertUCN (sourceText bytes)).length) :
    lineNoFinal bytes off = physLine bytes off := by
  unfold lineNoFinal
  generalize hidx : finalPos bytes off = idx at hf
  have hk : (convertUCN (sourceText bytes))[idx]? = some ((convertUCN (sourceText bytes))[idx]) :=
    List.getElem?_eq_getElem hf
  rw [C18_ucn_lines_kept bytes _ _ hk]
  have he : ((convertUCN (sourceText bytes))[idx]).2 = posMap bytes off := by
    subst hidx
    have := List.findIdx_getElem (w := hf)
    simp only [beq_iff_eq] at this
    exact this
  rw [he]
  exact C18_line_partial bytes off h hs

/-- non-vacuity: `/* \u000a */⏎x` — the comment spells a universal character name for a newline; `x` (offset 13) is found at
    offset 13 of the tokenizer's text and is on line 2 -/
example :
    let f := [47, 42, 32, 92, 117, 48, 48, 48, 97, 32, 42, 47, 10, 120, 10]
    tokenStart f 13 = true ∧ spliceBefore f 13 = false ∧ finalPos f 13 = 13 ∧
    finalPos f 13 < (convertUCN (sourceText f)).length ∧ lineNoFinal f 13 = 2 := by
  decide

/-- non-vacuity: BOM, a blank line, a CR-only and a CR LF line end, a comment spanning two lines, a splice inside the
    comment and one at the end of an earlier logical line: `﻿⏎a\⏎b␍/* \⏎ */␍⏎x` — `x` at offset 19 is on line 6 -/
example :
    let f := [239, 187, 191, 10, 97, 92, 10, 98, 13, 47, 42, 32, 92, 10, 32, 42, 47, 13, 10, 120]
    tokenStart f 19 = true ∧ spliceBefore f 19 = false ∧ lineNoAt f 19 = 6 := by
  decide

/-- **C18 (what is reported, outside both known regions).**  In a file none of whose `#line`-family directives processed so far
    lies above the token (any events before; directives further down the file — e.g. read before a macro whose body holds the
    token is expanded — are allowed), for a token / `__LINE__` invocation / `__FILE__` invocation whose (outermost) token
    starts at file offset `off` with no splice before it on its logical line: the token's final `line_no` is its physical line
    and its `filename` the file's name; `__LINE__` is the physical line; `__FILE__` is the file's name. -/
theorem C18_reported_partial (bytes : List Nat) (name : String) (fileNo : Nat) (evs : List Ev) (off : Nat)
    (hnd : ∀ d ∈ dirsOf (sourceText bytes) evs, lineNoAt bytes off ≤ d.line)
    (h : tokenStart bytes off = true) (hs : spliceBefore bytes off = false) :
    (runFile (sourceText bytes) (newFile name fileNo) (evs ++ [.tok (posMap bytes off)])).getLast?
        = some (.tok (physLine bytes off) name) ∧
    (runFile (sourceText bytes) (newFile name fileNo) (evs ++ [.lineMac (posMap bytes off)])).getLast?
        = some (.line (physLine bytes off)) ∧
    (runFile (sourceText bytes) (newFile name fileNo) (evs ++ [.fileMac (posMap bytes off)])).getLast?
        = some (.file name) := by
  have hl : lineNoOf (sourceText bytes) (posMap bytes off) = physLine bytes off := C18_line_partial bytes off h hs
  have hd := deltaAt_stateAfter_below (sourceText bytes) (newFile name fileNo) evs _ hnd
  have hn := nameAt_stateAfter_below (sourceText bytes) (newFile name fileNo) evs _ hnd
  unfold lineNoAt at hd hn
  rw [runFile_last_tok, runFile_last_lineMac, runFile_last_fileMac, hd, hn, hl]
  simp [deltaAt, nameAt, newFile, lineMarkerAt]

/-- non-vacuity: `a\⏎b⏎c⏎`, events `a`, `__LINE__` at `b`… then `c` (offset 5, physical line 3) -/
example : (runFile (sourceText [97, 92, 10, 98, 10, 99, 10]) (newFile "t.c" 1)
    ([.tok 0, .lineMac 1] ++ [.tok (posMap [97, 92, 10, 98, 10, 99, 10] 5)])).getLast? = some (.tok 3 "t.c") := by
  decide

/-- non-vacuity with a directive processed BEFORE the token that lies BELOW it: `m⏎#line 9⏎u⏎` — the token `m` (offset 0,
    line 1: a macro body) is passed on after `#line 9` (line 2) was read, and is still reported on line 1 -/
example :
    let b := [109, 10, 35, 108, 105, 110, 101, 32, 57, 10, 117, 10]
    (∀ d ∈ dirsOf (sourceText b) [.lineDir (posMap b 2) 9 none, .tok (posMap b 10)], lineNoAt b 0 ≤ d.line) ∧
    runFile (sourceText b) (newFile "t.c" 1) ([.lineDir (posMap b 2) 9 none, .tok (posMap b 10)] ++ [.tok (posMap b 0)])
      = [.tok 10 "t.c", .tok 1 "t.c"] := by
  decide

/-- the full statement for `#line`: a token below `#line N ["name"]` (no further directive above the token) is reported
    on presumed line `N + (physLine tok − physLine directive − 1)` (C11 6.10.4p3) under the directive's file name.
    FALSE — Findings/C18.lean. -/
def C18_line_directive_Statement : Prop :=
  ∀ (bytes : List Nat) (f : File) (pre post : List Ev) (d : Nat) (n : Int) (name : Option String) (off : Nat),
    (∀ x ∈ dirsOf (sourceText bytes) post, lineNoAt bytes off ≤ x.line) → lineNoAt bytes d < lineNoAt bytes off →
    tokenStart bytes off = true → tokenStart bytes d = true →
    spliceBefore bytes off = false → spliceBefore bytes d = false →
    (runFile (sourceText bytes) f (pre ++ .lineDir (posMap bytes d) n name :: post ++ [.tok (posMap bytes off)])).getLast?
      = some (.tok (presumedLine n (physLine bytes off) (physLine bytes d))
                   (name.getD (stateAfter (sourceText bytes) f pre).displayName))

/-- **C18 (`#line` arithmetic, exact).**  A directive `#line N`, `#line N "name"` or `# N "name"` whose `#` is at offset `d`,
    and a token at `off` BELOW it (`habove`), processed at any later time, such that no directive processed in between lies
    above the token (`hpost`: directives further down the file may have been read already): the token's final line and
    `__LINE__` are `N + (computed line of the token − computed line of the directive)`; outside the splice region that is
    `N + (physLine tok − physLine directive)` = the C11 presumed line **plus one**, and "below" is below physically.
    Whatever happened before the directive (`pre`, earlier directives included) has no influence. -/
theorem C18_line_directive_characterised (bytes : List Nat) (f : File) (pre post : List Ev) (d : Nat) (n : Int)
    (name : Option String) (off : Nat)
    (hpost : ∀ x ∈ dirsOf (sourceText bytes) post, lineNoAt bytes off ≤ x.line)
    (habove : lineNoAt bytes d < lineNoAt bytes off) :
    let text := sourceText bytes
    let disp := name.getD (stateAfter text f pre).displayName
    ((runFile text f (pre ++ .lineDir (posMap bytes d) n name :: post ++ [.tok (posMap bytes off)])).getLast?
        = some (.tok (n + ((lineNoAt bytes off : Int) - (lineNoAt bytes d : Int))) disp) ∧
     (runFile text f (pre ++ .lineDir (posMap bytes d) n name :: post ++ [.lineMac (posMap bytes off)])).getLast?
        = some (.line (n + ((lineNoAt bytes off : Int) - (lineNoAt bytes d : Int))))) ∧
    (tokenStart bytes off = true → tokenStart bytes d = true →
      spliceBefore bytes off = false → spliceBefore bytes d = false →
      n + ((lineNoAt bytes off : Int) - (lineNoAt bytes d : Int))
        = presumedLine n (physLine bytes off) (physLine bytes d) + 1 ∧
      physLine bytes d < physLine bytes off) := by
  intro text disp
  have e1 : ∀ e : Ev, pre ++ Ev.lineDir (posMap bytes d) n name :: post ++ [e]
      = (pre ++ Ev.lineDir (posMap bytes d) n name :: post) ++ [e] := by intro e; simp
  have hD := deltaAt_stateAfter_below text (readLineMarker (stateAfter text f pre) (lineNoOf text (posMap bytes d)) n name)
    post _ hpost
  have hN := nameAt_stateAfter_below text (readLineMarker (stateAfter text f pre) (lineNoOf text (posMap bytes d)) n name)
    post _ hpost
  refine ⟨⟨?_, ?_⟩, ?_⟩
  · rw [e1, runFile_last_tok, stateAfter_dir]
    unfold lineNoAt at hD hN habove
    rw [hD, hN, deltaAt_read_above _ _ _ _ _ habove, nameAt_read_above _ _ _ _ _ habove]
    simp only [lineNoAt, text, disp, Option.some.injEq, Out.tok.injEq, and_true]
    omega
  · rw [e1, runFile_last_lineMac, stateAfter_dir]
    unfold lineNoAt at hD habove
    rw [hD, deltaAt_read_above _ _ _ _ _ habove]
    simp only [lineNoAt, text, Option.some.injEq, Out.line.injEq]
    omega
  · intro h1 h2 h3 h4
    rw [C18_line_partial bytes off h1 h3, C18_line_partial bytes d h2 h4] at habove ⊢
    unfold presumedLine
    exact ⟨by omega, habove⟩

/-- non-vacuity: `#line 100⏎x⏎`: `x` (offset 10) is reported on line 101 = presumed line 100, plus one -/
example : (runFile (sourceText [35, 108, 105, 110, 101, 32, 49, 48, 48, 10, 120, 10]) (newFile "t.c" 1)
      ([] ++ .lineDir (posMap [35, 108, 105, 110, 101, 32, 49, 48, 48, 10, 120, 10] 0) 100 none :: []
        ++ [.tok (posMap [35, 108, 105, 110, 101, 32, 49, 48, 48, 10, 120, 10] 10)])).getLast?
    = some (.tok 101 "t.c") ∧ presumedLine 100 2 1 = 100 ∧
    lineNoAt [35, 108, 105, 110, 101, 32, 49, 48, 48, 10, 120, 10] 0 < lineNoAt [35, 108, 105, 110, 101, 32, 49, 48, 48, 10, 120, 10] 10 := by
  decide

/-- **C18 (`#line` is not retroactive).**  A directive has no influence on a token that lies AT OR ABOVE it in the file
    (`hnot`), whenever that token is processed — in particular a token of a macro body defined above the directive and
    expanded below it (`post` then holds whatever was processed in between; its directives lie below the token too): the
    token's final line and file name, `__LINE__` and `__FILE__` are what they are without the directive.
    (The code before the repair applied the delta of the directive read last to every token passed on afterwards:
    Findings/C18.lean, `C18_fixed_line_directive_retroactive`.) -/
theorem C18_line_directive_not_retroactive (text : List Nat) (f : File) (pre post : List Ev) (d : Nat) (n : Int)
    (name : Option String) (off : Nat)
    (hpost : ∀ x ∈ dirsOf text post, lineNoOf text off ≤ x.line)
    (hnot : lineNoOf text off ≤ lineNoOf text d) :
    (runFile text f (pre ++ .lineDir d n name :: post ++ [.tok off])).getLast?
      = (runFile text f (pre ++ post ++ [.tok off])).getLast? ∧
    (runFile text f (pre ++ .lineDir d n name :: post ++ [.lineMac off])).getLast?
      = (runFile text f (pre ++ post ++ [.lineMac off])).getLast? ∧
    (runFile text f (pre ++ .lineDir d n name :: post ++ [.fileMac off])).getLast?
      = (runFile text f (pre ++ post ++ [.fileMac off])).getLast? := by
  have e1 : ∀ e : Ev, pre ++ Ev.lineDir d n name :: post ++ [e] = (pre ++ Ev.lineDir d n name :: post) ++ [e] := by
    intro e; simp
  have hD := deltaAt_stateAfter_below text (readLineMarker (stateAfter text f pre) (lineNoOf text d) n name) post _ hpost
  have hN := nameAt_stateAfter_below text (readLineMarker (stateAfter text f pre) (lineNoOf text d) n name) post _ hpost
  have hD' := deltaAt_stateAfter_below text (stateAfter text f pre) post _ hpost
  have hN' := nameAt_stateAfter_below text (stateAfter text f pre) post _ hpost
  rw [deltaAt_read_below _ _ _ _ _ hnot] at hD
  rw [nameAt_read_below _ _ _ _ _ hnot] at hN
  refine ⟨?_, ?_, ?_⟩
  · rw [e1, runFile_last_tok, runFile_last_tok, stateAfter_dir, stateAfter_append, hD, hN, hD', hN']
  · rw [e1, runFile_last_lineMac, runFile_last_lineMac, stateAfter_dir, stateAfter_append, hD, hD']
  · rw [e1, runFile_last_fileMac, runFile_last_fileMac, stateAfter_dir, stateAfter_append, hN, hN']

/-- non-vacuity — the input of the repaired defect: `#define RET return 0;` on line 1, `#line 1` on line 10,
    `int main(void) { RET }` on line 11.  The body token `return` (offset 12, line 1) is passed on after the directive
    (offset 30) and the token `int` (offset 38, line 11 → reported 2) were processed; it is reported on line 1. -/
example :
    let t := [35, 100, 101, 102, 105, 110, 101, 32, 82, 69, 84, 32, 114, 101, 116, 117, 114, 110, 32, 48, 59, 10,
              10, 10, 10, 10, 10, 10, 10, 10, 35, 108, 105, 110, 101, 32, 49, 10,
              105, 110, 116, 32, 109, 97, 105, 110, 40, 118, 111, 105, 100, 41, 32, 123, 32, 82, 69, 84, 32, 125, 10]
    lineNoOf t 12 ≤ lineNoOf t 30 ∧ (∀ x ∈ dirsOf t [.tok 38], lineNoOf t 12 ≤ x.line) ∧
    runFile t (newFile "t.c" 1) ([] ++ .lineDir 30 1 none :: [.tok 38] ++ [.tok 12]) = [.tok 2 "t.c", .tok 1 "t.c"] := by
  decide

/-- **C18 (`#line`: position decides, not processing order).**  `pre` is whatever `preprocess2` met in the file so far, `later`
    any directives of the file it has not met yet.  If the directives, taken together, are in ascending order of line (a file is
    read from top to bottom) and those not yet met lie at or below the token's line (a token is never passed on before the
    directives above it were read — a macro is expanded below its definition), then what is reported for the token, `__LINE__`
    and `__FILE__` is a function of the token's line and of ALL the directives of the file as a collection
    (`Spec.Line.inForce`: the directive furthest down among those strictly above the line; for the name, among those that
    carry a name): the same answer whether the token is passed on right away or after any number of later directives.
    The line is the C11 presumed line, plus one wherever a directive is in force (the known off-by-one); the name is the
    C11 presumed file name. -/
theorem C18_line_directive_order_independent (text : List Nat) (name : String) (fileNo : Nat) (pre : List Ev)
    (later : List Dir) (off : Nat)
    (hasc : (dirsOf text pre ++ later).Pairwise (fun a c => a.line < c.line))
    (hlater : ∀ d ∈ later, lineNoOf text off ≤ d.line) :
    let dirs := dirsOf text pre ++ later
    let l := lineNoOf text off
    let line : Int := presumedLineAt dirs l + (if (inForce dirs l).isSome then 1 else 0)
    (runFile text (newFile name fileNo) (pre ++ [.tok off])).getLast? = some (.tok line (presumedFileAt name dirs l)) ∧
    (runFile text (newFile name fileNo) (pre ++ [.lineMac off])).getLast? = some (.line line) ∧
    (runFile text (newFile name fileNo) (pre ++ [.fileMac off])).getLast? = some (.file (presumedFileAt name dirs l)) := by
  intro dirs l line
  have hm := markerAt_positional name fileNo (dirsOf text pre) later l hasc hlater
  have hline : (l : Int) + deltaSpec dirs l = line := reportedLineAt_eq dirs l
  rw [runFile_last_tok, runFile_last_lineMac, runFile_last_fileMac, stateAfter_eq_pushDirs, hm.1, hm.2, hline]
  exact ⟨rfl, rfl, rfl⟩

/-- non-vacuity: three directives on lines 2, 5 and 8 (the middle one without a name) of a 9-line text; the probe on line 6 is
    processed when only the first two were read (`later` = the third), the probe on line 1 after all three were read
    (`later` = []).  Line 6: directive on line 5 in force, `50 + (6 − 5)`, name inherited from line 2.  Line 1: none. -/
example :
    let t := [10, 10, 10, 10, 10, 10, 10, 10, 10]
    let pre := [Ev.lineDir 1 20 (some "a.c"), Ev.lineDir 4 50 none]
    (dirsOf t pre ++ [(⟨8, 70, some "b.c"⟩ : Dir)]).Pairwise (fun a c => a.line < c.line) ∧
    (runFile t (newFile "t.c" 1) (pre ++ [.tok 5])).getLast? = some (.tok 51 "a.c") ∧
    presumedLineAt (dirsOf t pre ++ [⟨8, 70, some "b.c"⟩]) 6 = 50 ∧
    presumedFileAt "t.c" (dirsOf t pre ++ [⟨8, 70, some "b.c"⟩]) 6 = "a.c" ∧
    (runFile t (newFile "t.c" 1) (pre ++ [Ev.lineDir 7 70 (some "b.c")] ++ [.tok 0])).getLast? = some (.tok 1 "t.c") := by
  decide

/-- **C18 (`#line`, all processing orders).**  `items` are the things of one file in file order (`FileOrder`: lines do not
    decrease and a directive has its lines to itself).  `preprocess2` obeys a directive at its turn; any other token it passes on
    at its turn, or keeps in a macro body and passes on later — any number of times, at any later moment, also after the end of
    the file (`Sched`).  In EVERY such order and for every token, `__LINE__` and `__FILE__` met, what is reported is the value of
    the positional specification over ALL directives of the file: the directive furthest down among those strictly above the
    token's line decides the line (C11 presumed line, plus the known one), the one furthest down among those that carry a name
    decides the file name.  No hypothesis about the order is left: ascending directives and "directives above a token are read
    before it" are consequences of how the file is walked. -/
theorem C18_line_directive_all_schedules (text : List Nat) (name : String) (fileNo : Nat) (items evs : List Ev)
    (hord : FileOrder text items) (hs : Sched items [] evs)
    (pre : List Ev) (e : Ev) (post : List Ev) (hsplit : evs = pre ++ e :: post) (he : e.isDir = false) :
    (runFile text (newFile name fileNo) (pre ++ [e])).getLast? = some (specOut text name (dirsOf text items) e) := by
  have := sched_positional text name fileNo items [] evs hs [] [] rfl (by intro b hb; simp at hb) (by simpa using hord)
    pre e post hsplit he
  simpa using this

/-- non-vacuity: a 4-line text; items: a token on line 1 (kept in a macro body), `#line 9 "g.c"` on line 2, a token on line 3,
    `#line 40` on line 4.  One schedule: the directive, the token of line 3, the second directive, and only then the body token
    of line 1.  The token of line 3 is reported on line 10 of "g.c" (9 + (3 − 2)), the body token on line 1 of "t.c". -/
example :
    let t := [10, 10, 10, 10]
    let items := [Ev.tok 0, .lineDir 1 9 (some "g.c"), .tok 2, .lineDir 3 40 none]
    let evs := [Ev.lineDir 1 9 (some "g.c"), .tok 2, .lineDir 3 40 none, .tok 0]
    FileOrder t items ∧ Sched items [] evs ∧
    specOut t "t.c" (dirsOf t items) (.tok 2) = .tok 10 "g.c" ∧ specOut t "t.c" (dirsOf t items) (.tok 0) = .tok 1 "t.c" ∧
    runFile t (newFile "t.c" 1) evs = [.tok 10 "g.c", .tok 1 "t.c"] := by
  refine ⟨by decide, ?_, by decide, by decide, by decide⟩
  exact Sched.store _ _ _ _ rfl (Sched.now _ _ _ _ (Sched.now _ _ _ _ (Sched.now _ _ _ _
    (Sched.expand _ _ _ _ (by simp) (Sched.done _)))))

/-- **C18 (`#line`: the reported line is a line number, for every processing order).**  For every text, every file, every
    list of events in ANY order — any number of directives, tokens passed on before or after directives that lie above or
    below them (macro bodies defined above a directive and expanded below it included) — if every directive operand is ≥ 1
    then every token's final `line_no` (the number in `.loc` and in diagnostics) and every value of `__LINE__` is ≥ 1.
    (The code before the repair produced `.loc 1 -8`, which the assembler rejects: Findings/C18.lean.)
    Also for a single token of any file table: with markers whose operands were ≥ 1, `.loc` and the diagnostic prefix carry
    a line ≥ 1. -/
theorem C18_line_directive_positional (text : List Nat) (name : String) (fileNo : Nat) (evs : List Ev)
    (hops : ∀ off n nm, Ev.lineDir off n nm ∈ evs → 1 ≤ n) :
    (∀ l nm, Out.tok l nm ∈ runFile text (newFile name fileNo) evs → 1 ≤ l) ∧
    (∀ v, Out.line v ∈ runFile text (newFile name fileNo) evs → 1 ≤ v) ∧
    (∀ (fs : Files) (t : TokInfo), MarkersPositive (getFile fs t.file) → 1 ≤ t.lineNo →
        1 ≤ (locRecord fs (finalize (passThrough fs t))).2 ∧ 1 ≤ (diagPrefix fs (finalize (passThrough fs t))).2) := by
  have hops' : ∀ e ∈ evs, e.operandOK = true := by
    intro e he
    cases e with
    | lineDir off n nm => simpa [Ev.operandOK] using hops off n nm he
    | _ => rfl
  have key := runFile_positive text (newFile name fileNo) evs (markersPositive_new name fileNo) hops'
  refine ⟨fun l nm h => key _ h l rfl, fun v h => key _ h v rfl, fun fs t hm hl => ?_⟩
  have := deltaAt_positive (getFile fs t.file) hm t.lineNo hl
  exact ⟨this, this⟩

/-- non-vacuity: the events of the repaired defect (directive on line 10 with operand 1, then a token on line 11, then the
    macro-body token of line 1): reported lines 2 and 1 -/
example :
    let t := List.replicate 12 10
    (∀ off n nm, Ev.lineDir off n nm ∈ [Ev.lineDir 9 1 none, .tok 10, .tok 0, .lineMac 10] → 1 ≤ n) ∧
    runFile t (newFile "t.c" 1) [.lineDir 9 1 none, .tok 10, .tok 0, .lineMac 10] = [.tok 2 "t.c", .tok 1 "t.c", .line 2] := by
  refine ⟨?_, by decide⟩
  intro off n nm h
  simp at h
  omega

/-- **C18 (`__FILE__` and the token's `filename` below a directive, all inputs).**  Below `#line N "name"` / `# N "name"`
    (`habove`; nothing processed in between lies above the token, `hpost`) they are `name`; below `#line N` they are whatever
    the display name was when the directive was read. -/
theorem C18_file_directive (text : List Nat) (f : File) (pre post : List Ev) (d : Nat) (n : Int)
    (name : Option String) (off : Nat)
    (hpost : ∀ x ∈ dirsOf text post, lineNoOf text off ≤ x.line) (habove : lineNoOf text d < lineNoOf text off) :
    (runFile text f (pre ++ .lineDir d n name :: post ++ [.fileMac off])).getLast?
      = some (.file (name.getD (stateAfter text f pre).displayName)) ∧
    ∃ l, (runFile text f (pre ++ .lineDir d n name :: post ++ [.tok off])).getLast?
      = some (.tok l (name.getD (stateAfter text f pre).displayName)) := by
  have e1 : ∀ e : Ev, pre ++ Ev.lineDir d n name :: post ++ [e] = (pre ++ Ev.lineDir d n name :: post) ++ [e] := by
    intro e; simp
  have hN := nameAt_stateAfter_below text (readLineMarker (stateAfter text f pre) (lineNoOf text d) n name) post _ hpost
  rw [nameAt_read_above _ _ _ _ _ habove] at hN
  refine ⟨?_, ?_⟩
  · rw [e1, runFile_last_fileMac, stateAfter_dir, hN]
  · rw [e1, runFile_last_tok, stateAfter_dir, hN]
    exact ⟨_, rfl⟩

example : (runFile [10, 10, 10] (newFile "t.c" 1) ([.tok 0] ++ .lineDir 1 7 (some "foo.c") :: [.tok 2] ++ [.fileMac 2])).getLast?
    = some (.file "foo.c") ∧ lineNoOf [10, 10, 10] 1 < lineNoOf [10, 10, 10] 2 := by decide

/-- **C18 (`add_line_numbers`).**  For a token list in text order that ends with the EOF token at the terminator
    (how `tokenize` builds it), the loop never dereferences an exhausted list and gives every token
    `1 + number of '\n' before its loc`. -/
theorem C18_add_line_numbers (text : List Nat) (locs : List Nat) (hne : locs ≠ [])
    (hpw : locs.Pairwise (· < ·)) (hlast : locs.getLast? = some text.length) :
    addLineNumbers text locs = .ok (locs.map (lineNoOf text)) :=
  addLineNumbers_ok text locs hne hpw hlast

example : addLineNumbers [97, 10, 10, 98, 32, 99, 10] [0, 3, 5, 7] = .ok [1, 3, 3, 4] := rfl

/-- **C18 (diagnostic location).**  `error_at` recounts the newlines from the start of the buffer up to `loc`: that is
    the very number `add_line_numbers` stored in the token; `error_tok`/`warn_tok` print the token's final `line_no`
    after the name of the token's file; and the source line `verror_at` shows under that prefix begins at the start of
    the line with that number (it starts at the buffer start or right after a '\n', and no '\n' lies between it and `loc`). -/
theorem C18_diag_loc :
    (∀ (text : List Nat) (loc : Nat), errorAtLine text loc = lineNoOf text loc) ∧
    (∀ (fs : Files) (t : TokInfo),
        diagPrefix fs (finalize (passThrough fs t))
          = ((getFile fs t.file).name, t.lineNo + deltaAt (getFile fs t.file) t.lineNo)) ∧
    (∀ (text : List Nat) (loc : Nat),
        lineNoOf text (shownStart text loc) = lineNoOf text loc ∧ shownStart text loc ≤ loc ∧
        (shownStart text loc = 0 ∨ text[shownStart text loc - 1]? = some LF)) :=
  ⟨errorAtLine_eq, fun _ _ => rfl,
   fun text loc => ⟨shownStart_line text loc, shownStart_le text loc, shownStart_bol text loc⟩⟩

/-- **C18 (`.loc` and `.file`).**  `.loc` carries the file number of the token's file and the token's final `line_no`
    (the same pair of facts a diagnostic for that token prints); a token synthesised by `##`, `#` or a builtin macro
    keeps the file number (and name) of its template's file; and the `.file` table lists the files in the order they were
    entered with numbers 1, 2, 3, … — in particular no two entries share a number. -/
theorem C18_loc_records :
    (∀ (fs : Files) (t : TokInfo),
        locRecord fs (finalize (passThrough fs t))
          = ((getFile fs t.file).fileNo, t.lineNo + deltaAt (getFile fs t.file) t.lineNo) ∧
        (locRecord fs (finalize (passThrough fs t))).2 = (diagPrefix fs (finalize (passThrough fs t))).2) ∧
    (∀ (fs : Files) (i : Nat),
        (getFile fs (.synth i)).fileNo = (getFile fs (.input i)).fileNo ∧
        (getFile fs (.synth i)).name = (getFile fs (.input i)).name) ∧
    (∀ paths : List String,
        (fileTable (enterAll [] paths)).map (·.1) = List.range' 1 paths.length ∧
        (fileTable (enterAll [] paths)).map (·.2) = paths ∧
        ((fileTable (enterAll [] paths)).map (·.1)).Nodup) := by
  refine ⟨fun _ _ => ⟨rfl, rfl⟩, fun fs i => ⟨rfl, rfl⟩, fun paths => ?_⟩
  have := enterAll_spec paths []
  have h1 : (fileTable (enterAll [] paths)).map (·.1) = List.range' 1 paths.length := by
    simpa [fileTable, List.map_map, Function.comp_def] using this.1
  refine ⟨h1, ?_, ?_⟩
  · simpa [fileTable, List.map_map, Function.comp_def] using this.2
  · rw [h1]; exact List.nodup_range'

example : fileTable (enterAll [] ["a.h", "t.c", "b.h", "a.h"]) = [(1, "a.h"), (2, "t.c"), (3, "b.h"), (4, "a.h")] := by
  decide

/-- **C18 (macro expansion).**  A token copied out of a macro body gets the invoking token as `origin`; `__LINE__` and
    `__FILE__` walk the chain to its end, so through any nesting of expansions they are computed from the OUTERMOST
    invocation token (`line_no` of that token + the delta of the directive in force at THAT token's line; the display name
    in force there) — exactly what the invocation token itself is given when it is passed on, so `__LINE__` always equals
    the final line of its invocation token.  A token synthesised by `##`, `#` or a builtin macro takes the `line_no` of its
    template token, lives in a fresh `File` without markers and is never shifted. -/
theorem C18_macro_origin (fs : Files) (body : TokInfo) (m : Tok) (t : TokInfo) :
    lineMacro fs (expandBodyTok body m) = lineMacro fs m ∧
    fileMacro fs (expandBodyTok body m) = fileMacro fs m ∧
    lineMacro fs (.plain t) = t.lineNo + deltaAt (getFile fs t.file) t.lineNo ∧
    fileMacro fs (.plain t) = nameAt (getFile fs t.file) t.lineNo ∧
    lineMacro fs (.plain t) = (finalize (passThrough fs t)).lineNo ∧
    fileMacro fs (.plain t) = (finalize (passThrough fs t)).filename ∧
    (synthTok t).lineNo = t.lineNo ∧
    (finalize (passThrough fs (synthTok t))).lineNo = t.lineNo := by
  refine ⟨rfl, rfl, rfl, rfl, rfl, rfl, rfl, ?_⟩
  simp [finalize, passThrough, passThroughF, synthTok, getFile, newFile, deltaAt, lineMarkerAt]

/-- **C18 (macro expansion, on the expansion model).**  In the model of `expand_macro` that C09 ties to `chibicc -E`
    (`PP.expandMacro`: hide sets, argument collection, substitution, pasting, stringizing), whenever a token `tok` is expanded:
    `__LINE__` becomes the number `originLine tok` (the line of the token at the end of `tok`'s origin chain, `tok`'s own line
    if it came from the file), placed on that line; `__FILE__` a string on that line; and for an object-like or function-like
    macro every token of the substituted body gets `origin = originLine tok`, hence reports `originLine tok` again — by
    induction, `__LINE__` at any depth of nested expansion is the line of the outermost invocation token, which is the input
    `Ev.lineMac off` of the position model above. -/
theorem C18_macro_origin_pp (lx : String → PP.LexOne) (pp : PP.PreExpand) (st st' : PP.St) (tok : PP.Tok)
    (rest out : List PP.Tok) (h : PP.expandMacro lx pp st tok rest = .ok (some (out, st'))) :
    (PP.findMacro st.defs tok = some (.builtin .line) →
        out = PP.newNumToken (PP.originLine tok) (PP.originLine tok) :: rest) ∧
    (PP.findMacro st.defs tok = some (.builtin .file) →
        out = PP.newStrToken st.file (PP.originLine tok) :: rest) ∧
    ((∃ mb, PP.findMacro st.defs tok = some (.obj mb)) ∨ (∃ ps va mb, PP.findMacro st.defs tok = some (.fn ps va mb)) →
        ∃ (body rest' : List PP.Tok), (∀ b ∈ body, b.origin = some (PP.originLine tok) ∧ PP.originLine b = PP.originLine tok) ∧
          out.map (·.origin) = (body ++ rest').map (·.origin)) ∧
    (tok.origin = none → PP.originLine tok = tok.line) := by
  obtain ⟨h1, h2, h3⟩ := pp_expandMacro_origin lx pp st st' tok rest out h
  refine ⟨h1, h2, fun hx => ?_, pp_originLine_plain tok⟩
  obtain ⟨body, rest', hb, ho⟩ := h3 hx
  exact ⟨body, rest', fun b hbm => ⟨hb b hbm, pp_originLine_of_origin b tok (hb b hbm)⟩, ho⟩

/-- non-vacuity, end to end on the expansion model: `A` on line 7 with `#define A f(B)`, `#define B __LINE__`, `#define f(x) x x`
    (defined on other lines) expands to `7 7`, both tokens on line 7 -/
example : (PP.expand 50 [("A", .obj [{ kind := .ident, text := "f", line := 1 }, { kind := .punct, text := "(", line := 1 },
                                     { kind := .ident, text := "B", line := 1 }, { kind := .punct, text := ")", line := 1 }]),
                         ("B", .obj [{ kind := .ident, text := "__LINE__", line := 2 }]),
                         ("f", .fn ["x"] none [{ kind := .ident, text := "x", line := 3 }, { kind := .ident, text := "x", line := 3 }]),
                         ("__LINE__", .builtin .line)]
            [{ kind := .ident, text := "A", line := 7, atBol := true }]).map (·.map fun t => (t.text, t.line))
    = .ok [("7", 7), ("7", 7)] := by decide

/-- `include_file` splices token lists; no line number changes (each file was numbered from its own text) -/
theorem C18_include_keeps_numbers (included rest : List TokInfo) :
    (includeFile included rest).map (·.lineNo) = included.map (·.lineNo) ++ rest.map (·.lineNo) := by
  simp [includeFile]

end ChibiVerif.Props.C18
