/-
C11 — the pp-number scan of the shared lexer model (Model/Lex.lean, the tokenizer of C19 / C13 / C18) is the scan translated
from tokenize.c.  Property theorem only (helper lemmas: Lemmas/C11PpNumberLex); kept in its own module because it is the one C11
statement that depends on another property's model.
-/
import ChibiVerif.Lemmas.C11PpNumberLex

namespace ChibiVerif.Props.C11
open ChibiVerif.Literals
open ChibiVerif.Lemmas.PpNum (scanLen)

/-- **C11 (the lexer model's pp-number scan is the translated scan).**  For every text (bytes) and every position: the
    pp-number arm of `tokenize()` as translated from tokenize.c ends exactly where `Lex.ppTake` — the scan of the code-point
    lexer model that C19's theorems are about —, started on the bytes after the first character, stops; and `ppTake` splits the
    text at that point.  So `C11_ppnumber_maximal` (longest prefix of the grammar of 6.4.8) is also a statement about the
    pp-number tokens of Model/Lex on every text whose bytes are its characters, and on UTF-8 text in general because a byte
    ≥ 0x80 ends the scan in both models. -/
theorem C11_ppnumber_lex (p : List Byte) (start : Nat) :
    ChibiVerif.Gen.PpNum.ppNumberEnd p start =
      start + 1 + (ChibiVerif.Lex.ppTake ((p.drop (start + 1)).map BitVec.toNat)).1.length ∧
    (∀ t : List Byte, ChibiVerif.Lex.ppTake (t.map BitVec.toNat) =
      ((t.take (scanLen t)).map BitVec.toNat, (t.drop (scanLen t)).map BitVec.toNat)) :=
  ⟨ChibiVerif.Lemmas.PpNumLex.ppNumberEnd_lex p start, ChibiVerif.Lemmas.PpNumLex.ppTake_eq⟩

end ChibiVerif.Props.C11
