/-
C16 — the atomic primitives operate on ONE width (type.c ND_CAS / ND_EXCH as of /repo c3d94ea, codegen.c ND_CAS /
ND_EXCH / load / store).

Property theorems only.  `casCheck` / `exchCheck` (Model/C16Typing.lean) mirror the guards of type.c; `Codegen.casArm`,
`exchArm`, `load`, `store` are the byte-exact code-generation model (Model/Codegen.lean, tied by assembly-text equality
on whole programs); `casArmLines`, `xchgLines`, `aloadLines`, `astoreLines` are the instruction sequences whose
interleaving semantics Props/C16.lean is about.  These theorems close the gap between the two: for EVERY node the type
checker accepts (not only the generated ones) the code generator prints the interleaving model's sequence, at the single
width `|*addr| = |*old|`.

`SizeWf` (a type of a scalar kind has the size type.c gives that kind; sizes read from the regenerated
Gen/DeclspecGen.lean) is an invariant of the real type table: `drv_c16 casnodes` checks it on every type of every dump.
-/
import ChibiVerif.Lemmas.C16TypingLemmas

namespace ChibiVerif.Props.C16
open ChibiVerif.Ast ChibiVerif.Atomics ChibiVerif.Asm ChibiVerif.C16Typing
open ChibiVerif.Codegen (M St casArm exchArm load store)

/-- **C16 (compare-exchange typing).**  `ND_CAS` is accepted exactly when both arguments are pointers, both pointees are
    numeric or pointer objects, the atomic object has at most 8 bytes and the expected-value object has the same size. -/
theorem C16_cas_accepts_iff (types : List Ty) (a o ab ob : Ty)
    (hab : baseOf types a = some ab) (hob : baseOf types o = some ob) :
    casCheck types (some a) (some o) = .ok (ab, ob) ↔
      (a.kind = .ptr ∧ o.kind = .ptr ∧ isAtomicOperand ab = true ∧ isAtomicOperand ob = true ∧
       ab.size ≤ 8 ∧ ob.size = ab.size) := by
  constructor
  · intro h
    obtain ⟨a', o', ha, ho, hak, hok, _, _, hle, hopa, hopo, hsz⟩ := casCheck_ok h
    cases ha; cases ho
    exact ⟨hak, hok, hopa, hopo, hle, hsz⟩
  · rintro ⟨hak, hok, hopa, hopo, hle, hsz⟩
    exact casCheck_accepts hak hok hab hob hle hopa hopo hsz

/-- **C16 (one width).**  Every `ND_CAS` the type checker accepts has `|*old| = |*addr| ≤ 8`, and that size is one of the
    four widths `w`; whatever the three argument expressions print (`la`, `ln`, `lo`), the code generator prints
    `addr; push; new; [movd|movq %xmm0 → %eax|%rax]; push; old` followed by exactly `casArmLines w k`: the load of the
    expected value, the `lock cmpxchg` and the failure write-back all use that ONE width (`C16_cas_operands`). -/
theorem C16_cas_width (env : Codegen.Env) (addr old new : M Unit) (aty oty nty : Option Ty) (ab ob nt : Ty)
    (hchk : casCheck env.types aty oty = .ok (ab, ob))
    (hwa : SizeWf ab = true) (hwo : SizeWf ob = true)
    (hnty : nty = some nt) (hnk : nt.kind = ab.kind)
    (s0 s1 s2 s3 : St) (la ln lo : List Line)
    (ha : addr s0 = .ok ((), s1, la))
    (hn : new { s1 with depth := s1.depth + 1 } = .ok ((), s2, ln))
    (ho : old { s2 with depth := s2.depth + 1 } = .ok ((), s3, lo)) :
    ob.size = ab.size ∧ ab.size ≤ 8 ∧
    ∃ w : Width, ab.size = (w.bytes : Int) ∧ widthOf ab = some w ∧ widthOf ob = some w ∧
      casArm env addr aty old oty new nty s0 =
        .ok ((), { s3 with depth := s3.depth + -1 + -1 },
          la ++ [pushRax] ++ ln ++ flonumToRax w (kindOf ab) ++ [pushRax] ++ lo ++ casArmLines w (kindOf ob)) := by
  obtain ⟨a, o, _, _, _, _, _, _, hle, hopa, _, hsz⟩ := casCheck_ok hchk
  obtain ⟨w, hw, hwo', harm⟩ := casArm_lines env addr old new aty oty nty ab ob nt hchk hwa hwo hnty hnk s0 s1 s2 s3 la ln lo ha hn ho
  obtain ⟨w', hw', hws⟩ := width_of_operand hopa hwa hle
  have : w' = w := by rw [hw] at hw'; cases hw'; rfl
  subst this
  exact ⟨hsz, hle, w', hws, hw, hwo', harm⟩

/-- the instructions of `casArmLines w k`: the three that touch the atomic object or the expected-value object carry the
    same `w` -/
theorem C16_cas_operands (w : Width) (k : Kind) :
    casArmLines w k =
      [ins2 "mov" (.r "%rax") (.r "%r8"),
       casOldLoadLine w k,                                   -- load of the expected value: `w` bits
       Atomics.pop "%rdx", Atomics.pop "%rdi",
       ins2 "lock cmpxchg" (.r (regDx w)) (.m0 "%rdi"),     -- compares / stores `w` bits
       ins1 "sete" (.r "%cl"), ins1 "je" (.s "1f"),
       ins2 "mov" (.r (regAx w)) (.m0 "%r8"),               -- failure write-back: `w` bits
       .label "1", ins2 "movzbl" (.r "%cl") (.r "%eax")] ∧
    (casOldLoadLine w k = (match k with | .flo => ins2 "mov" (.m0 "%rax") (.r (regAx w)) | _ => loadLine w k)) := by
  cases w <;> cases k <;> decide

/-- non-vacuity of `C16_cas_width` / `C16_cas_accepts_iff`: `unsigned short *p; short *q;` is accepted at width 2
    (signedness may differ: only the size matters), `long *p; int *q;` (the case repaired by /repo 4993f7e) is not -/
example :
    let mk (id : Int) (k : TyKind) (sz : Int) (u : Bool) (b : Int) : Ty :=
      { id, kind := k, size := sz, align := sz, isUnsigned := u, isAtomic := false, base := b, arrayLen := 0, returnTy := -1,
        isVariadic := false, isFlexible := false, isPacked := false, vlaSize := -1, params := [], members := [] }
    let types := [mk 0 .ptr 8 true 1, mk 1 .short 2 true (-1), mk 2 .ptr 8 true 3, mk 3 .short 2 false (-1),
                  mk 4 .ptr 8 true 5, mk 5 .long 8 false (-1), mk 6 .ptr 8 true 7, mk 7 .int 4 false (-1)]
    (casCheck types types[0]? types[2]?).toOption.map (fun p => (p.1.size, p.2.size)) = some (2, 2) ∧
    (casCheck types types[4]? types[6]?).toOption = none ∧ types.all SizeWf = true := by decide

/-- **C16 (exchange width).**  Every `ND_EXCH` the type checker accepts operates on a numeric or pointer object of 1, 2, 4
    or 8 bytes, and the code generator prints `lhs; push; rhs` followed by exactly `xchgLines w k`. -/
theorem C16_exch_width (env : Codegen.Env) (lhs rhs : M Unit) (lty : Option Ty) (ab : Ty)
    (hchk : exchCheck env.types lty = .ok ab) (hwa : SizeWf ab = true)
    (s0 s1 s2 : St) (ll lr : List Line)
    (hl : lhs s0 = .ok ((), s1, ll))
    (hr : rhs { s1 with depth := s1.depth + 1 } = .ok ((), s2, lr)) :
    isAtomicOperand ab = true ∧ ab.size ≤ 8 ∧
    ∃ w : Width, widthOf ab = some w ∧
      exchArm env lhs lty rhs s0 =
        .ok ((), { s2 with depth := s2.depth + -1 }, ll ++ [pushRax] ++ lr ++ xchgLines w (kindOf ab)) := by
  obtain ⟨a, _, _, _, hle, hopa⟩ := exchCheck_ok hchk
  exact ⟨hopa, hle, exchArm_lines env lhs rhs lty ab hchk hwa s0 s1 s2 ll lr hl hr⟩

/-- non-vacuity of `C16_exch_width`: `float *p` is accepted (width 4), a pointer to a 4-byte structure is not -/
example :
    let mk (id : Int) (k : TyKind) (sz : Int) (b : Int) : Ty :=
      { id, kind := k, size := sz, align := sz, isUnsigned := false, isAtomic := false, base := b, arrayLen := 0, returnTy := -1,
        isVariadic := false, isFlexible := false, isPacked := false, vlaSize := -1, params := [], members := [] }
    let types := [mk 0 .ptr 8 1, mk 1 .float 4 (-1), mk 2 .ptr 8 3, mk 3 .struct 4 (-1)]
    (exchCheck types types[0]?).toOption.map (·.size) = some 4 ∧ (exchCheck types types[2]?).toOption = none := by decide

/-- **C16 (plain atomic access).**  An object of a type the read-modify-write checker accepts (numeric or pointer, at
    most 8 bytes) is read by exactly ONE instruction (`aloadLines`) and written by `pop %rdi` and exactly ONE store
    instruction of its width (`astoreLines`): the `atomic_load` / `atomic_store` steps of the interleaving model.  For a
    naturally aligned object these are single-copy atomic (Intel SDM vol. 3A 8.1.1; trusted).  `_Atomic` structures,
    unions and `long double` are NOT covered: see Findings `C16_plain_struct_store_not_single`,
    `C16_plain_ldouble_store_ten_bytes`. -/
theorem C16_plain_access_single (b : Ty) (hop : isAtomicOperand b = true) (hwf : SizeWf b = true) (hle : b.size ≤ 8)
    (s : St) :
    ∃ w : Width, widthOf b = some w ∧
      load (some b) s = .ok ((), s, aloadLines w (kindOf b)) ∧ (aloadLines w (kindOf b)).length = 1 ∧
      store (some b) s = .ok ((), { s with depth := s.depth + -1 }, astoreLines w (kindOf b)) ∧
      (astoreLines w (kindOf b)).length = 2 := by
  obtain ⟨w, hw, hl⟩ := load_single hop hwf hle s
  obtain ⟨w', hw', hs⟩ := store_single hop hwf hle s
  have : w' = w := by rw [hw] at hw'; cases hw'; rfl
  subst this
  exact ⟨w', hw, hl, rfl, hs, rfl⟩

end ChibiVerif.Props.C16
