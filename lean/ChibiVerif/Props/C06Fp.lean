/-
C06 — calls obey the System V x86-64 calling convention: argument conversions with a floating type on either side
(continuation of Props/C06.lean; kept in a file of its own because it rests on C02's theorems and on its `FpuSpec`).

Property theorems only.  Model: Model/C06Args.lean over the translated `Gen.Funcall.argStep` (parse.c `funcall()`), the cast
table regenerated from codegen.c; machine: Model/FpMachine.lean; conversions: `C02_select`.
-/
import ChibiVerif.Lemmas.C06ArgFpLemmas
import ChibiVerif.Props.C02

namespace ChibiVerif.Props.C06

/-! ### arguments with a floating side (relative to C02's `FpuSpec`) -/

section ArgsFp
open ChibiVerif.C06Args ChibiVerif.Fp ChibiVerif.Spec.Fpu ChibiVerif.Spec.FpC11 ChibiVerif.Spec.IntSpec
open ChibiVerif.Gen.CommonType

/-- what `push_args2` pushes for a value of arithmetic type `t` held as `gen_expr` leaves it -/
def pushSeqOf : ChibiVerif.Spec.FpC11.ATy → List ChibiVerif.Asm.Ins
  | .int _ => [⟨"push", [.r "%rax"]⟩]
  | .f32 | .f64 => pushfSeq
  | .f80 => pushLdSeq

/-- the pushed slot carries the value `y` of type `t`: integers as under `Represents`, a float in the low 4 bytes of the 8-byte
    slot (the rest is unspecified, as the psABI allows for %xmm), a double in the 8 bytes, a long double in the low 10 of 16 -/
def SlotHolds (t : ChibiVerif.Spec.FpC11.ATy) (s : FState) (y : AVal) : Prop :=
  match t, y with
  | .int t, .int v => ChibiVerif.C01.Represents t (s.x.read64 (s.x.get .rsp)) v
  | .f32, .f32 b => (s.x.read64 (s.x.get .rsp)).setWidth 32 = b
  | .f64, .f64 b => s.x.read64 (s.x.get .rsp) = b
  | .f80, .f80 b => read80 s.x (s.x.get .rsp) = b
  | _, _ => False

/-- **C06 (the argument slot holds the C11 conversion of the argument) — a floating type on either side.**  For every FPU
    meeting the contracts of `FpuSpec`, every parameter and argument type among the twelve arithmetic types with a floating
    side (all 63 pairs, every value for which C11 defines the conversion), every machine state holding the argument value `x`
    where `gen_expr` leaves it: the cast `funcall()` inserts prints C02's cast-table cell, and after `push_args2`'s push
    (`push %rax` / `pushf()` / `sub $16, %rsp; fstpt (%rsp)`) the slot at (%rsp) carries `convert to x` (6.5.2.2p7 with 6.3.1.4,
    6.3.1.5) — the value `movsd (%rsp), %xmmN` moves into the argument register, or the callee reads in place; the x87 control
    word is restored.  `hpc`: the two cells that do x87 arithmetic (unsigned long ↔ long double) need the x87 precision control
    the psABI prescribes at function entry (PC = 11b), as in `C02_select`. -/
theorem C06_arg_convert_fp (F : FpuSpec) (frm to : ChibiVerif.Spec.FpC11.ATy) (variadic : Bool) (s : FState) (x y : AVal)
    (hfp : frm.isFp = true ∨ to.isFp = true) (hh : Holds frm s x) (hc : ChibiVerif.Spec.FpC11.convert F s.cw to x = some y)
    (hpc : usesX87Arith frm to = true → pc s.cw = 3#2) :
    ∃ code s', argSeq variadic (some (descrA to)) (descrA frm) = some code ∧
      Fp.run F (code ++ pushSeqOf to) s = some s' ∧ SlotHolds to s' y ∧ s'.cw = s.cw := by
  obtain ⟨s1, hrun, hhold, hcw, _, _⟩ := ChibiVerif.Props.C02.C02_select F frm to s x y hfp hh hc hpc
  refine ⟨Fp.castSeq frm to, ?_⟩
  have hsel := argSeq_arith frm to variadic
  cases to with
  | int t =>
    cases y with
    | int w =>
      -- the integer machine's `push %rax`
      have hp : Fp.run F [⟨"push", [.r "%rax"]⟩] s1 = some { s1 with x := pushed s1.x } := rfl
      refine ⟨_, hsel, (fp_run_append_some F _ _ s s1 hrun).trans hp, ?_, hcw⟩
      simp only [SlotHolds]
      rw [pushed_slot]; exact hhold
    | f32 b => simp [Holds] at hhold
    | f64 b => simp [Holds] at hhold
    | f80 b => simp [Holds] at hhold
  | f32 =>
    cases y with
    | f32 b =>
      obtain ⟨s', h1, h2, _, _, h5⟩ := pushf_ok F s1
      refine ⟨s', hsel, (fp_run_append_some F _ _ s s1 hrun).trans h1, ?_, h5.trans hcw⟩
      simp only [SlotHolds, h2]; exact hhold
    | int w => simp [Holds] at hhold
    | f64 b => simp [Holds] at hhold
    | f80 b => simp [Holds] at hhold
  | f64 =>
    cases y with
    | f64 b =>
      obtain ⟨s', h1, h2, _, _, h5⟩ := pushf_ok F s1
      refine ⟨s', hsel, (fp_run_append_some F _ _ s s1 hrun).trans h1, ?_, h5.trans hcw⟩
      simp only [SlotHolds, h2]; exact hhold
    | int w => simp [Holds] at hhold
    | f32 b => simp [Holds] at hhold
    | f80 b => simp [Holds] at hhold
  | f80 =>
    cases y with
    | f80 b =>
      obtain ⟨rest, hst⟩ := hhold
      obtain ⟨s', h1, h2, _, _, h5⟩ := pushld_ok F s1 b rest hst
      exact ⟨s', hsel, (fp_run_append_some F _ _ s s1 hrun).trans h1, h2, h5.trans hcw⟩
    | int w => simp [Holds] at hhold
    | f32 b => simp [Holds] at hhold
    | f64 b => simp [Holds] at hhold

/-- non-vacuity: on the toy FPU, `double` parameter, `unsigned int` argument 4000000000 with garbage above bit 31 -/
example : ∃ (F : FpuSpec) (s : FState) (y : AVal),
    Holds (.int .u32) s (.int 4000000000) ∧ ChibiVerif.Spec.FpC11.convert F s.cw .f64 (.int 4000000000) = some y ∧
    (usesX87Arith (.int .u32) .f64 = true → pc s.cw = 3#2) :=
  ⟨Toy.toy, ⟨{ regs := fun _ => 0xdeadbeefee6b2800#64, mem := fun _ => 0 }, 0, 0, [], 0x37f#16⟩, _,
    by simp [Holds, RInt, ITy.inRange, ITy.min, ITy.max, ITy.signed, ITy.bits, X86.State.get], rfl, by decide⟩

/-- **C06 (`_Bool` parameter, floating argument).**  The slot is exactly 0 or 1 for every float / double / long double value,
    NaNs (true) and −0.0 (false) included: 1 iff the value compares unequal to zero (6.3.1.2). -/
theorem C06_arg_bool_normalised_fp (F : FpuSpec) (frm : ChibiVerif.Spec.FpC11.ATy) (variadic : Bool) (s : FState) (x : AVal)
    (hfp : frm.isFp = true) (hh : Holds frm s x) :
    ∃ code s', argSeq variadic (some ty_bool) (descrA frm) = some code ∧
      Fp.run F (code ++ [⟨"push", [.r "%rax"]⟩]) s = some s' ∧
      (s'.x.read64 (s'.x.get .rsp) = 0#64 ∨ s'.x.read64 (s'.x.get .rsp) = 1#64) := by
  have hconv : ∃ y, ChibiVerif.Spec.FpC11.convert F s.cw (.int .bool) x = some y := by
    cases frm <;> cases x <;> simp_all [Holds, ChibiVerif.Spec.FpC11.ATy.isFp, ChibiVerif.Spec.FpC11.convert, ChibiVerif.Spec.FpC11.fpToInt]
  obtain ⟨y, hy⟩ := hconv
  have hpc : usesX87Arith frm (.int .bool) = true → pc s.cw = 3#2 := by
    intro h; cases frm <;> simp [usesX87Arith] at h
  obtain ⟨code, s', h1, h2, h3, _⟩ := C06_arg_convert_fp F frm (.int .bool) variadic s x y (Or.inl hfp) hh hy hpc
  refine ⟨code, s', h1, h2, ?_⟩
  cases y with
  | int w => exact (represents_bool _ w h3).1
  | f32 b => simp [SlotHolds] at h3
  | f64 b => simp [SlotHolds] at h3
  | f80 b => simp [SlotHolds] at h3

example : ∃ (s : FState), Holds .f64 s (.f64 0x7ff8000000000000#64) :=
  ⟨⟨{ regs := fun _ => 0, mem := fun _ => 0 }, 0x7ff8000000000000#64, 0, [], 0x37f#16⟩, rfl⟩

/-- **C06 (default argument promotions, `float`).**  A trailing `float` argument is converted by the `float → double` cell
    (`cvtss2sd`) and pushed as a double; `double` and `long double` trailing arguments get no instruction. -/
theorem C06_arg_default_promotions_fp (F : FpuSpec) (s : FState) (b : BitVec 32) (hh : Holds .f32 s (.f32 b)) :
    (∃ code s', argSeq true none (descrA .f32) = some code ∧ Fp.run F (code ++ pushfSeq) s = some s' ∧
      s'.x.read64 (s'.x.get .rsp) = F.cvtss2sd b) ∧
    argSeq true none (descrA .f64) = some [] ∧ argSeq true none (descrA .f80) = some [] := by
  refine ⟨?_, argSeq_tail_f64, argSeq_tail_f80⟩
  obtain ⟨s1, hrun, hhold, _⟩ := ChibiVerif.Props.C02.C02_select F .f32 .f64 s (.f32 b) (.f64 (F.cvtss2sd b))
    (Or.inl rfl) hh rfl (fun h => absurd h (by decide))
  obtain ⟨s', h1, h2, _⟩ := pushf_ok F s1
  exact ⟨_, s', argSeq_tail_f32, (fp_run_append_some F _ _ s s1 hrun).trans h1, h2.trans hhold⟩

example : ∃ (s : FState), Holds .f32 s (.f32 0x3fc00000#32) :=
  ⟨⟨{ regs := fun _ => 0, mem := fun _ => 0 }, 0xaaaaaaaa3fc00000#64, 0, [], 0x37f#16⟩, rfl⟩

end ArgsFp

end ChibiVerif.Props.C06
