/-
C16 — atomic read-modify-write operations are indivisible.

Property theorems only (helper lemmas: Lemmas/AtomicsLemmas.lean; model: Model/Atomics.lean).
Companion files: Props/C16Width.lean (type.c ND_CAS / ND_EXCH accept only operands of ONE width, and the code generator then
prints exactly the sequences whose interleavings are studied here; plain loads/stores are single instructions),
Props/C16Qual.lean (`_Atomic` propagation: every lvalue that is atomic in C is updated through these sequences).
Every theorem is for every object width (8, 16, 32, 64 bits), every kind of object type (signed,
unsigned, floating: this only selects the register extension), every number of threads, every
program (list of operations per thread, the update functions being arbitrary), every initial
value and every schedule (finite list of thread ids; one entry = one instruction of that thread).
-/
import ChibiVerif.Model.Atomics
import ChibiVerif.Lemmas.AtomicsLemmas

namespace ChibiVerif.Props.C16
open ChibiVerif.Atomics

/-- **C16 (compare-exchange).**  The ND_CAS instruction sequence of one thread, started with the
    expected-value object holding `e` and the third argument's register value `d` (any upper bits),
    while other threads run in between (the object holds the arbitrary values `c1..c4` during the four
    instructions before the locked one, `c` at the locked instruction, `c5..c8` afterwards):
    * the thread arrives at `lock cmpxchg`, and that single instruction stores the low `w` bits of `d`
      iff `c = e`, otherwise leaves the object unchanged;
    * it is the linearization point, logged with the result the operation will report;
    * the remaining instructions do not touch the object; the operation reports `1` and leaves the
      expected-value object alone iff `c = e`, otherwise reports `0` and has stored `c` there;
      `%eax` holds the reported flag. -/
theorem C16_cas_spec (w : Width) (k : Kind) (th : Thread w) (e : Word w) (d : BitVec 64) (rest : List (Oper w))
    (htodo : th.todo = .cas e d :: rest) (hpc : th.pc = .casNew) (hold : th.old = e)
    (c1 c2 c3 c4 c c5 c6 c7 c8 : Word w) :
    let th4 := stepsT k th [c1, c2, c3, c4]
    let out := stepThread k c th4
    let tail := if c = e then [c5, c6, c7] else [c5, c6, c7, c8]
    let th' := stepsT k out.th tail
    let res : Result w := .cas (decide (c = e)) (if c = e then e else c)
    th4.pc = .cmpxchg ∧
    out.cell = (if c = e then readReg w d else c) ∧
    out.ev = some (.commit (.cas e d) res) ∧
    (Oper.cas e d).spec c = some (out.cell, res) ∧
    th'.todo = rest ∧ th'.results = th.results ++ [res] ∧
    th'.rax = (if c = e then 1#64 else 0#64) := by
  by_cases hc : c = e
  · subst hc
    simp [stepsT, stepT, stepThread, htodo, hpc, hold, lockCmpxchg, readReg_loadExt, Oper.spec]
  · simp [stepsT, stepT, stepThread, htodo, hpc, hold, lockCmpxchg, readReg_loadExt, readReg_writeReg,
      Oper.spec, hc]

/-- non-vacuity of `C16_cas_spec`: a failing 8-bit compare-exchange whose registers carry different
    upper bits (`%rdx` = 0x1234, expected value 0xff sign-extended, object 0x80) -/
example :
    let th : Thread .w8 := mkThread [.cas 0xff#8 0x1234#64]
    let th' := stepsT .signed th [0, 0, 0, 0, 0x80#8, 0, 0, 0, 0]
    th'.results = [.cas false 0x80#8] ∧ th'.rax = 0#64 := by decide

example :
    (stepThread (w := .w8) .signed 0xff#8 (stepsT .signed (mkThread [.cas 0xff#8 0x1234#64]) [0, 0, 0, 0])).cell
      = (0x34#8 : BitVec 8) := by decide

/-- **C16 (linearizability).**  In every reachable state
    * the object holds exactly what the committed operations produce when they are applied one after the
      other, in the order of their linearization points (successful `lock cmpxchg`, `xchg`, the single load
      or store), to the initial value - and every logged result is the one the sequential specification
      yields at that point (`replay` checks both);
    * for every thread, its committed operations followed by its uncommitted ones are its program: every
      operation is committed at most once, in program order, nothing is skipped;
    * the results the thread has reported so far (plus the one it is about to report) are the results of its
      linearization points, in order: an operation completes only after it has been committed, and it
      reports what the sequential execution in commit order yields. -/
theorem C16_linearizable (w : Width) (k : Kind) (init : Word w) (progs : List (List (Oper w))) (sched : List Nat) :
    let s := exec sched (initSys w k init progs)
    replay init s.log = some s.cell ∧
    s.threads.length = progs.length ∧
    ∀ t th, s.threads[t]? = some th →
      progs[t]? = some ((commitsOf t s.log).map Prod.fst ++ th.pendingOps) ∧
      (commitsOf t s.log).map Prod.snd = th.results ++ th.pendingRes.toList := by
  have g := Good_exec sched (Good_init k init progs)
  refine ⟨g.lin, g.len, ?_⟩
  intro t th hth
  obtain ⟨_, h2, h3, _⟩ := g.thr t th hth
  exact ⟨h2, h3⟩

/-- **C16 (no lost update).**  When every thread has finished its program, the committed operations
    are all operations of all programs, each exactly once (a permutation of their concatenation), and the
    object holds the result of applying them in commit order. -/
theorem C16_no_lost_update (w : Width) (k : Kind) (init : Word w) (progs : List (List (Oper w))) (sched : List Nat) :
    let s := exec sched (initSys w k init progs)
    s.terminated = true →
      ((commits s.log).map (·.2.1)).Perm progs.flatten ∧
      s.cell = ((commits s.log).map (·.2.1)).foldl applyOp init := by
  intro s hterm
  have g : Good init progs s := Good_exec sched (Good_init k init progs)
  have ht : ∀ th ∈ s.threads, th.todo = [] := by
    intro th hth
    have := List.all_eq_true.mp hterm th hth
    simpa [Thread.done] using this
  exact ⟨commits_perm g ht, replay_foldl _ _ _ g.lin⟩

/-- **C16 (commutative updates).**  If the operations of the programs commute pairwise (as `+=`, `-=`,
    `*=`, `&=`, `|=`, `^=`, `++`, `--` do), the final value of every terminated run is the initial value
    with all operations applied, in any order - here program after program. -/
theorem C16_final_value_commutative (w : Width) (k : Kind) (init : Word w) (progs : List (List (Oper w)))
    (sched : List Nat)
    (hcomm : ∀ o1 ∈ progs.flatten, ∀ o2 ∈ progs.flatten, ∀ c, applyOp (applyOp c o1) o2 = applyOp (applyOp c o2) o1) :
    let s := exec sched (initSys w k init progs)
    s.terminated = true → s.cell = progs.flatten.foldl applyOp init := by
  intro s hterm
  obtain ⟨hperm, hcell⟩ := C16_no_lost_update w k init progs sched hterm
  rw [hcell]
  apply hperm.foldl_eq'
  intro x hx y hy z
  exact hcomm x (hperm.mem_iff.mp hx) y (hperm.mem_iff.mp hy) z

/-- **C16 (no update lost by `op=`, `++`, `--`, `atomic_fetch_*`).**  Any number of threads, each performing
    any list of updates `x op= v` (`(op, v, yields-old?)`, the last flag distinguishing `atomic_fetch_*` from `op=`)
    with operators of one commuting class - `+=`/`-=`/`++`/`--`, or `*=`, or `&=`, or `|=`, or `^=` - on an
    object of any width and signedness, with `(T)(old op val)` computed as chibicc does (promotion to `int`,
    operation, truncation): under every schedule, once all threads have finished the object holds the initial
    value with every single update applied. -/
theorem C16_opassign_no_lost_update (w : Width) (k : Kind) (sg : Bool) (init : Word w)
    (progs : List (List (Op × Word w × Bool))) (cls : Nat)
    (hcls : ∀ p ∈ progs.flatten, p.1.commClass = some cls) (sched : List Nat) :
    let toOper : Op × Word w × Bool → Oper w := fun p => .rmw (Op.fn w sg p.1 p.2.1) p.2.2
    let s := exec sched (initSys w k init (progs.map (·.map toOper)))
    s.terminated = true → s.cell = progs.flatten.foldl (fun c p => p.1.pure c p.2.1) init := by
  intro toOper s hterm
  have hflat : (progs.map (·.map toOper)).flatten = progs.flatten.map toOper := by
    rw [List.map_flatten]
  have hsome : ∀ p ∈ progs.flatten, p.1.commClass.isSome = true := fun p hp => by rw [hcls p hp]; rfl
  have hcomm : ∀ o1 ∈ (progs.map (·.map toOper)).flatten, ∀ o2 ∈ (progs.map (·.map toOper)).flatten, ∀ c,
      applyOp (applyOp c o1) o2 = applyOp (applyOp c o2) o1 := by
    rw [hflat]
    intro o1 h1 o2 h2 c
    obtain ⟨p1, hp1, rfl⟩ := List.mem_map.mp h1
    obtain ⟨p2, hp2, rfl⟩ := List.mem_map.mp h2
    simp only [toOper, applyOp_rmw_fn w sg _ (hsome p1 hp1), applyOp_rmw_fn w sg _ (hsome p2 hp2)]
    exact Op.pure_comm p1.1 p2.1 (hsome p1 hp1) (by rw [hcls p1 hp1, hcls p2 hp2]) c p1.2.1 p2.2.1
  have hfin := C16_final_value_commutative w k init (progs.map (·.map toOper)) sched hcomm hterm
  rw [hfin, hflat, List.foldl_map]
  apply foldl_congr_mem
  intro c p hp
  exact applyOp_rmw_fn w sg _ (hsome p hp) _ _ _

/-- non-vacuity: three threads, `x += 200`, `x -= 77`, `x++` twice, on an `unsigned char` starting at 250 -/
example : ∀ p ∈ ([[(Op.add, 200#8, false)], [(Op.sub, 77#8, false)], [(Op.add, 1#8, true), (Op.add, 1#8, false)]] :
    List (List (Op × Word .w8 × Bool))).flatten, p.1.commClass = some 0 := by decide

/-- **C16 (lock-freedom).**  A `lock cmpxchg` of a retry loop fails only if another thread has committed
    an operation after this thread's latest read of the object (its initial load or its previous failed
    `lock cmpxchg`): the log then ends `… e … ` with `e` a commit of another thread and nothing of this
    thread after it.  Equivalently: if nobody else commits, the next attempt succeeds. -/
theorem C16_lockfree (w : Width) (k : Kind) (init : Word w) (progs : List (List (Oper w))) (sched : List Nat)
    (t : Nat) (th : Thread w) (f : Word w → Option (Word w)) (ro : Bool) (rest : List (Oper w)) :
    let s := exec sched (initSys w k init progs)
    s.threads[t]? = some th → th.todo = .rmw f ro :: rest → th.pc = .cmpxchg →
    (stepThread s.kind s.cell th).th.zf = false →
    ∃ l1 e l2, s.log = l1 ++ e :: l2 ∧ e.kind.isCommit = true ∧ e.tid ≠ t ∧ ∀ e' ∈ l2, e'.tid ≠ t := by
  intro s hth htodo hpc hfail
  have g : Good init progs s := Good_exec sched (Good_init k init progs)
  obtain ⟨_, _, _, hbel⟩ := g.thr t th hth
  apply noCommitSince_false
  cases hn : noCommitSince t s.log with
  | false => rfl
  | true =>
    exfalso
    have hb : th.believes = some (readReg w th.rax) := by simp [Thread.believes, htodo, hpc]
    have hcell := hbel _ hb hn
    simp [stepThread, htodo, hpc, lockCmpxchg, hcell] at hfail

/-- non-vacuity of `C16_lockfree` and of the failure path in general: two threads doing `x += 1` on an 8-bit
    object; thread 0 runs its 7 instructions up to the `lock cmpxchg`, thread 1 completes its locked instruction,
    then thread 0 is at `lock cmpxchg`, its attempt is going to fail (ZF = 0), and the log ends with thread 1's commit -/
example :
    let incr : Oper .w8 := .rmw (fun c => some (c + 1)) false
    let s := exec (List.replicate 7 0 ++ List.replicate 8 1) (initSys .w8 .unsigned 0#8 [[incr], [incr]])
    s.threads.map (·.pc) = [.cmpxchg, .sete] ∧
    (s.threads.map fun th => (stepThread s.kind s.cell th).th.zf) = [false, true] ∧
    s.log.map (fun e => (e.tid, e.kind.isCommit)) = [(0, false), (1, false), (1, true)] := by decide

set_option maxRecDepth 8000 in
/-- non-vacuity of `C16_no_lost_update`: the same run continued to termination (thread 0 fails, writes the observed
    value back, goes round the loop and commits): nothing is lost, `x += 1` yields 2 in thread 0 and 1 in thread 1 -/
example :
    let incr : Oper .w8 := .rmw (fun c => some (c + 1)) false
    let s := exec (List.replicate 7 0 ++ List.replicate 8 1 ++ List.replicate 25 0 ++ List.replicate 9 1)
      (initSys .w8 .unsigned 0#8 [[incr], [incr]])
    s.terminated = true ∧ s.cell = 2#8 ∧ s.threads.map (·.results) = [[.val 2#8], [.val 1#8]] := by decide

/-- **C16 (lock-freedom, bounded).**  From any reachable state in which thread `t` is inside a retry loop whose
    current attempt has not (yet) succeeded: along any continuation during which no operation of any thread
    commits, thread `t` has either trapped (division) or each of its instructions brought it one closer to its
    next successful `lock cmpxchg` - so it executes at most 30 instructions (= one failing round + one
    succeeding round of the loop).  Hence whenever some thread in a retry loop takes more than 30 steps, some
    operation (its own or another thread's) has committed: the system as a whole always makes progress. -/
theorem C16_lockfree_progress (w : Width) (k : Kind) (init : Word w) (progs : List (List (Oper w)))
    (sched0 sched : List Nat) (t : Nat) (f : Word w → Option (Word w)) (ro : Bool) (rest : List (Oper w)) :
    let s := exec sched0 (initSys w k init progs)
    let s' := exec sched s
    Waiting s t f ro rest →
      (ncommits s' = ncommits s → trapped s' t ∨ sched.count t + distanceOf s' t = distanceOf s t) ∧
      (sched.count t > 30 → ncommits s < ncommits s' ∨ trapped s' t) := by
  intro s s' hw
  have g : Good init progs s := Good_exec sched0 (Good_init k init progs)
  have aux := fun h => progress_aux (init := init) (progs := progs) t f ro rest sched g hw h
  refine ⟨aux, ?_⟩
  intro hcount
  have hmono := ncommits_exec sched s
  by_cases hn : ncommits s' = ncommits s
  · rcases aux hn with h | h
    · exact Or.inr h
    · exfalso
      have hd : distanceOf s t ≤ 30 := by
        unfold distanceOf
        cases s.threads[t]? with
        | none => simp
        | some th => exact distance_le th s.cell
      omega
  · left
    have : ncommits s ≤ ncommits s' := hmono
    omega

/-- non-vacuity of `C16_lockfree_progress`: initially every thread of a two-thread `x += 1` program is waiting,
    at distance 8 from its commit -/
example : Waiting (initSys .w8 .unsigned 0#8 [[ChibiVerif.Atomics.Oper.rmw (fun c => some (c + 1)) false],
    [.rmw (fun c => some (c + 1)) false]]) 1 (fun c => some (c + 1)) false [] :=
  ⟨_, rfl, rfl, rfl, by decide⟩

/-- **C16 (exchange).**  ND_EXCH: after the (private) evaluation of the second argument - and, for a floating
    object, its move from `%xmm0` to `%rax` - the single `xchg` instruction, executed while the object holds
    `c`, installs the low `w` bits of the argument register `v` (any upper bits) and is the linearization point
    with result `c`; the operation reports `c` (for 1- and 2-byte objects after the extension instruction, for
    floating objects after the move back), and `reg_ax(w)` holds `c`. -/
theorem C16_exchange (w : Width) (k : Kind) (th : Thread w) (v : BitVec 64) (rest : List (Oper w))
    (htodo : th.todo = .xchg v :: rest) (hpc : th.pc = .xload) (c1 c2 c c3 : Word w) :
    let th1 := stepT k th c1
    let th2 := if k = .flo then stepT k th1 c2 else th1
    let out := stepThread k c th2
    let th' := if xchgHasPost w k then stepT k out.th c3 else out.th
    th2.pc = .xchg ∧
    out.cell = readReg w v ∧
    out.ev = some (.commit (.xchg v) (.val c)) ∧
    (Oper.xchg v).spec c = some (out.cell, .val c) ∧
    th'.todo = rest ∧ th'.results = th.results ++ [.val c] ∧
    readReg w th'.rax = c := by
  cases k <;> cases hn : w.narrow <;>
    simp [stepT, stepThread, htodo, hpc, hn, xchgHasPost, Oper.spec, readReg_writeReg, readReg_loadExt]

/-- non-vacuity of `C16_exchange`: exchanging 5 into a `signed char` object holding -1 (register upper bits differ) -/
example :
    let th : Thread .w8 := mkThread [.xchg 0xabcd05#64]
    let out := stepThread .signed (0xff#8 : Word .w8) (stepT .signed th 0)
    let th' := stepT .signed out.th 0
    (out.cell : BitVec 8) = 0x05#8 ∧ th'.results = [.val 0xff#8] ∧ th'.rax = 0xffffffff#64 := by decide

end ChibiVerif.Props.C16
