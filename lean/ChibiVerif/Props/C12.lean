/-
C12 — determinism half ("apart from __DATE__, __TIME__ and __TIMESTAMP__ output depends only on the
input and options, never on the process, time or address-space layout").

What is proved here is a confinement statement over the *regenerated* import and call-site lists:
the compiler imports no libc function outside the classified table, imports nothing ambient (pid,
environment variables, random numbers, cwd, host), reads the clock and file metadata only inside the
handlers of the three excepted macros (and `file_exists`, whose answer is a function of the input file
system), creates temporary names only in the driver, and never formats a pointer.

Fixpoint half, static part (second group of theorems): stage 1 (gcc-built) and stage 2 (self-compiled) are two
executions of the SAME C program by implementations that resolve unspecified behaviour differently (chibicc
evaluates the right operand / the last argument first).  `Gen/C12AuditGen.lean` (clang-14 typed AST of the nine
sources, regenerated on every run) lists every expression of chibicc's own source whose operands C11 leaves
unsequenced or indeterminately sequenced and of which at least two have side effects (or one writes what another
reads), with the raw effect sets of the operands; every local variable without initializer; every malloc/realloc;
every relational comparison, subtraction or integer conversion of pointers; every call of an order-unstable
library function; clang's own diagnostics of uninitialised use / unsequenced modification.  The theorems decide,
over the whole regenerated lists, that every such site is harmless for a stated reason (`Model/C12Audit.lean`).

What is NOT proved (see DESIGN.md C12): stage 1 ≡ stage 2 ≡ stage 3 behaviour as such (that needs a verified
semantics of all of C and a model of the whole compiler), the soundness of the effect analysis in
tools/extract/c12audit.py (type/field based alias classes; trusted, self-tested on every run against planted
order-dependent expressions), undefined behaviour other than the listed classes (signed overflow, out-of-range
shifts and conversions in the compiler's own arithmetic: exercised by the differential leg only).  Both are
exercised by the correspondence leg of ./check C12 (stage 1/2/3 differential on a corpus whose line coverage of
the compiler is measured, ASLR on/off, different pid/cwd/time).
-/
import ChibiVerif.Gen.EnvReadsGen
import ChibiVerif.Model.EnvDep
import ChibiVerif.Gen.C12AuditGen
import ChibiVerif.Model.C12Audit

namespace ChibiVerif.Props.C12
open ChibiVerif.EnvDep ChibiVerif.Gen.EnvReads

/-- every libc function the compiler imports is one whose dependence class is known -/
theorem C12_imports_classified : ∀ f ∈ libcImports, (classify f).isSome = true := by decide

/-- nothing ambient (pid, environment, random, cwd, host, tty) is imported at all -/
theorem C12_no_ambient_import : ∀ f ∈ libcImports, classify f ≠ some .ambient := by decide

/-- clock, file-metadata and temp-name readers are called only at the admissible sites -/
theorem C12_env_sites_confined :
    ∀ s ∈ watchedCallSites, admissibleSite s.1 s.2.1 s.2.2 = true := by decide

/-- every imported clock / fsmeta / tmpname function has at least one listed call site
    (so the site list is not silently incomplete for the functions that matter) -/
theorem C12_env_imports_have_sites :
    ∀ f ∈ libcImports, (classify f = some .clock ∨ classify f = some .fsmeta ∨ classify f = some .tmpname) →
      ∃ s ∈ watchedCallSites, s.1 = f := by decide

/-- no output format string prints a pointer value -/
theorem C12_no_pointer_format : percentP = [] := by decide

/-- no translation unit is linked into the compiler that the audit does not cover -/
theorem C12_no_unaudited_source : extraSources = [] := by decide

-- non-vacuity: the lists are not empty, and the classifier does reject things
example : libcImports.length > 10 ∧ watchedCallSites.length > 2 := by decide
example : admissibleSite "time" "codegen.c" "count" = false ∧ admissibleSite "getpid" "main.c" "main" = false := by decide

/-! ## fixpoint half: chibicc's own source does not depend on unspecified order or on indeterminate values -/

section Audit
open ChibiVerif.C12Audit ChibiVerif.Gen.C12Audit

/-- bit mask of the locations that are visible outside the process -/
def ioMask : Nat := mask ioLocs

set_option maxRecDepth 100000 in
/-- Every expression of chibicc's source in which two unsequenced (or indeterminately sequenced) operands both have
    side effects, or one writes what the other reads, is harmless: no two operands can both exit with a diagnostic,
    none can exit while another writes to a stream, none writes what another reads or writes, and no side effect
    inside an operand touches the object the enclosing assignment stores to (`.disjoint`, `.disjointUpToInternal`
    when an internal-error exit is disregarded) — or the site is in the reviewed table with its reason. -/
theorem C12_no_unsequenced_effects : ∀ s ∈ sites, (verdict ioMask s).isSome = true := by decide

set_option maxRecDepth 100000 in
/-- the reviewed table is consulted only where it is needed: no entry matches a site that the effect sets already
    settle (so an entry cannot silently widen to sites it was not written for) -/
theorem C12_reviewed_only_where_needed :
    ∀ s ∈ sites, (reviewed s.file s.fn s.text).isSome = true →
      (storeFree s && pairsFree (conflict ioMask false) s.ops) = false := by decide

/-- clang's flow analysis finds no use of an uninitialised variable, no unsequenced modification and no
    suspicious pointer comparison in the nine sources -/
theorem C12_no_clang_uninit_or_unsequenced_warning : clangWarnings = [] := by decide

set_option maxRecDepth 100000 in
/-- every local variable declared without an initializer is either a scalar whose address is never taken (then the
    flow analysis above covers it) or is accounted for: an out-parameter of a named callee, a va_list, a buffer
    filled by a named libc function, explicitly assigned first, or a dummy list head -/
theorem C12_uninit_locals_accounted :
    ∀ v ∈ uninitLocals, (uninitVerdict clangWarnings.isEmpty v).isSome = true := by decide

/-- the only storage obtained without zero fill (malloc / realloc; everything else is calloc) is reviewed -/
theorem C12_raw_allocs_reviewed : ∀ a ∈ rawAllocs, (reviewedAlloc a.1 a.2.1).isSome = true := by decide

set_option maxRecDepth 100000 in
/-- pointers are compared for order / subtracted only inside one character buffer (never across allocations, so
    the results do not depend on the address-space layout) -/
theorem C12_pointer_order_confined :
    ∀ p ∈ pointerOps, (p.2.2.2.1 == "char" && (reviewedPointerOp p.1 p.2.1 p.2.2.2.2).isSome) = true := by decide

/-- no pointer value is converted to an integer outside the hash-map self test (no address reaches the output,
    a hash or a comparison as a number) -/
theorem C12_no_pointer_to_int : ∀ p ∈ pointerToInt, (p.1 == "hashmap.c" && p.2.1 == "hashmap_test") = true := by decide

/-- no qsort / bsearch / directory enumeration: nothing in the compiler depends on an unstable order -/
theorem C12_no_unstable_order_call : sortCalls = [] := by decide

-- non-vacuity: the audit sees the whole compiler, finds sites of every class, and the decision does reject
set_option maxRecDepth 100000 in
example : analysedFunctions > 250 ∧ sites.length > 10 ∧ uninitLocals.length > 30 ∧ pointerOps.length > 5
    ∧ mayExitDiag.length > 100 ∧ freshFunctions.length > 30 := by decide
set_option maxRecDepth 100000 in
example : (sites.filter (fun s => verdict ioMask s == some .disjoint)).length > 5
    ∧ (sites.filter (fun s => match verdict ioMask s with | some (.reviewed _) => true | _ => false)).length ≥ 3 := by decide
-- the defect repaired in /repo 7b517d1, as the audit would list it: both operands of `-` may exit with a diagnostic
example : verdict 0 ⟨"parse.c", "eval3", 1, "binary -", "eval2(node->lhs, &l1) - eval2(node->rhs, &l2)", [],
    [⟨true, false, [], [1], []⟩, ⟨true, false, [], [2], []⟩]⟩ = none := by decide
-- `i = i++`, a write the other operand reads, two writers of one global, output next to a possible exit: all rejected
example : verdict 0 ⟨"x.c", "f", 1, "assign =", "i = i++", [3], [⟨false, false, [], [], []⟩, ⟨false, false, [3], [3], [3]⟩]⟩ = none := by decide
example : verdict 0 ⟨"x.c", "f", 1, "binary +", "bump() + rd()", [], [⟨false, false, [5], [5], []⟩, ⟨false, false, [], [5], []⟩]⟩ = none := by decide
example : verdict 0 ⟨"x.c", "f", 1, "call", "g(bump(), bump())", [], [⟨false, false, [], [], []⟩, ⟨false, false, [5], [5], []⟩, ⟨false, false, [5], [5], []⟩]⟩ = none := by decide
example : verdict (mask [7]) ⟨"x.c", "f", 1, "binary +", "die() + emit()", [], [⟨true, false, [], [], []⟩, ⟨false, false, [7], [], []⟩]⟩ = none := by decide
example : uninitVerdict true ("x.c", "f", "buf", "char[8]", true, true) = none
    ∧ uninitVerdict false ("x.c", "f", "n", "int", false, false) = none := by decide

end Audit

end ChibiVerif.Props.C12
