/-
C12 — determinism half ("apart from __DATE__, __TIME__ and __TIMESTAMP__ output depends only on the
input and options, never on the process, time or address-space layout").

What is proved here is a confinement statement over the *regenerated* import and call-site lists:
the compiler imports no libc function outside the classified table, imports nothing ambient (pid,
environment variables, random numbers, cwd, host), reads the clock and file metadata only inside the
handlers of the three excepted macros (and `file_exists`, whose answer is a function of the input file
system), creates temporary names only in the driver, and never formats a pointer.

What is NOT proved (see DESIGN.md C12): the fixpoint half (stage 1 ≡ stage 2 ≡ stage 3 behaviour) and
the absence of address-dependent control flow inside the compiler; both are exercised by the
correspondence leg of ./check C12 (stage 1/2/3 differential, ASLR on/off, different pid/cwd/time).
-/
import ChibiVerif.Gen.EnvReadsGen
import ChibiVerif.Model.EnvDep

namespace ChibiVerif.Props.C12
open ChibiVerif.EnvDep ChibiVerif.Gen.EnvReads

/-- every libc function the compiler imports is one whose dependence class is known -/
theorem C12_imports_classified : ∀ f ∈ libcImports, (classify f).isSome = true := by decide

/-- nothing ambient (pid, environment, random, cwd, host, tty) is imported at all -/
theorem C12_no_ambient_import : ∀ f ∈ libcImports, classify f ≠ some .ambient := by decide

/-- clock, file-metadata and temp-name readers are called only at the admissible sites -/
theorem C12_env_sites_confined :
    ∀ s ∈ watchedCallSites, admissibleSite s.1 s.2.1 s.2.2 = true := by decide

/-- every imported clock / fsmeta / tmpname function has at least one listed call site
    (so the site list is not silently incomplete for the functions that matter) -/
theorem C12_env_imports_have_sites :
    ∀ f ∈ libcImports, (classify f = some .clock ∨ classify f = some .fsmeta ∨ classify f = some .tmpname) →
      ∃ s ∈ watchedCallSites, s.1 = f := by decide

/-- no output format string prints a pointer value -/
theorem C12_no_pointer_format : percentP = [] := by decide

/-- no translation unit is linked into the compiler that the audit does not cover -/
theorem C12_no_unaudited_source : extraSources = [] := by decide

-- non-vacuity: the lists are not empty, and the classifier does reject things
example : libcImports.length > 10 ∧ watchedCallSites.length > 2 := by decide
example : admissibleSite "time" "codegen.c" "count" = false ∧ admissibleSite "getpid" "main.c" "main" = false := by decide

end ChibiVerif.Props.C12
