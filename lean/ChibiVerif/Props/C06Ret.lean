/-
C06 — calls obey the System V x86-64 calling convention: **return values** (continuation of Props/C06.lean, Props/C06Fp.lean).

Property theorems only (helper lemmas: Lemmas/C06RetLemmas.lean, Lemmas/C06RetFpLemmas.lean).
Model: Model/C06Ret.lean over `Gen.ReturnStmt` — the `return` arm of parse.c `stmt()`, `case ND_RETURN` of codegen.c, the
epilogue of `emit_text` and the `switch (node->ty->kind)` after `call` in `case ND_FUNCALL`, all four **translated from the source
on every run** (tools/extract/retstmt.py) — and over the cast table regenerated from codegen.c.
Specification: Spec/C06RetSpec.lean (C11 6.8.6.4p3), Spec/IntSpec.lean `convert`, Spec/FpC11Spec.lean `convert`.
Reused: `C01_cast` / `Represents` (property C01), `C02_select` / `Holds` relative to `FpuSpec` (property C02).

What a chibicc-compiled callee guarantees is **more** than the psABI asks (value extended to 32 bits, `_Bool` in the whole
register); what a chibicc-compiled caller relies on is **only** what the psABI asks (the low `sizeof` bytes; `_Bool`: the low byte is
0 or 1).  So both directions of interoperation hold for every conforming compiler; bits 32..63 of a narrow return value are
unspecified on both sides (Findings/C06.lean `C06_return_upper_bits_unspecified`).
-/
import ChibiVerif.Spec.C06RetSpec
import ChibiVerif.Lemmas.C06RetLemmas
import ChibiVerif.Lemmas.C06RetFpLemmas
import ChibiVerif.Lemmas.C06RetStructLemmas
import ChibiVerif.Lemmas.C06ArgSpecLemmas
import ChibiVerif.Props.C01
import ChibiVerif.Props.C02

namespace ChibiVerif.Props.C06
open ChibiVerif.C06Ret ChibiVerif.C06Args ChibiVerif.Gen.ReturnStmt ChibiVerif.Gen.CommonType
open ChibiVerif.Spec.IntSpec ChibiVerif.Spec.CallArgs ChibiVerif.Spec.ReturnSpec
open ChibiVerif.C01 (Represents castSeq descr)
open ChibiVerif.CallConv (ATy retLarge retCallee retCaller RetLoc)

/-! ## which conversion, which path -/

/-- **C06 (what `return e;` converts to).**  For every return type and every type of the returned expression (arithmetic types,
    pointers, enumerations, structs / unions), parse.c wraps the expression in exactly one cast to the function's return type when
    that is a scalar type, and in none when it is a structure or union (C11 6.8.6.4p3, 6.5.16.1p1); and `case ND_RETURN` then calls
    no struct-copy routine for a scalar. -/
theorem C06_return_stmt_spec (rt e : STy) :
    retStep (descrS rt) (descrS e) = ((convertedTo rt).map descrS).toList ∧
    ((convertedTo rt).isSome = true → retCopy (tyAfter (descrS e) (retStep (descrS rt) (descrS e))) = .none) := by
  have hk := descrS_agg_kind rt
  cases rt with
  | agg u sz => simp [retStep, hk, convertedTo]
  | arith a =>
    refine ⟨by simp [retStep, hk, convertedTo], fun _ => ?_⟩
    simp only [retStep, hk]
    cases a with
    | int t => cases t <;> rfl
    | f32 => rfl
    | f64 => rfl
    | f80 => rfl
  | ptr => exact ⟨by simp [retStep, hk, convertedTo], fun _ => rfl⟩
  | enum => exact ⟨by simp [retStep, hk, convertedTo], fun _ => rfl⟩

example : retStep ty_bool ty_long = [ty_bool] ∧ convertedTo (.arith (.int .bool)) = some (.arith (.int .bool)) ∧
    retStep ⟨.TY_STRUCT, 12, false, false⟩ ⟨.TY_STRUCT, 12, false, false⟩ = [] := ⟨rfl, rfl, rfl⟩

/-- **C06 (struct / union return: caller and callee choose the same path).**  For every structure or union type: the callee's
    `case ND_RETURN` copies the value into registers (`copy_struct_reg`) exactly when it has at most 16 bytes and through the
    hidden pointer (`copy_struct_mem`) otherwise; the caller passes a hidden pointer (`retLarge`: `push_args`, the pop phase and
    parse.c `function()` all test `size > 16`) exactly in the second case; and the location model of `C06_abi_partial`
    (`retCallee`) is the same split. -/
theorem C06_return_struct_path (u : Bool) (sz al : Nat) (ms : CallConv.Members) :
    let t : ATy := .agg u sz al ms
    retCopy (CTy.descr (.agg t)) = (if sz ≤ 16 then .reg else .mem) ∧
    (retLarge (some t) = true ↔ retCopy (CTy.descr (.agg t)) = .mem) ∧
    (retCallee (some t) = .ok (.memory true) ↔ retCopy (CTy.descr (.agg t)) = .mem) := by
  intro t
  have h1 : retCopy (CTy.descr (.agg t)) = (if sz ≤ 16 then .reg else .mem) := by
    cases u <;> simp [t, CTy.descr, retCopy]
  refine ⟨h1, ?_, ?_⟩
  · rw [h1]; simp only [retLarge, ATy.isAgg, ATy.size, t]
    by_cases h : sz ≤ 16 <;> simp [h] <;> omega
  · rw [h1]; simp only [retCallee, ATy.size, t]
    by_cases h : sz ≤ 16
    · simp only [h, if_true]
      cases CallConv.retPiecesCallee (.agg u sz al ms) <;> simp [Except.map]
    · simp [h]

/-- **C06 (a struct / union of at most 16 bytes travels byte for byte).**  For every structure or union type of at most 16 bytes
    on which cc1 reaches no `assert` of the ladder (`aggSizeOk`: fails only for packed structs, known finding
    C06-packed-unaligned-param), whatever its member tree: the loads of `copy_struct_reg` in the callee (`movss` / `movsd` of 4 or 8
    bytes, byte loads shifted into %rax / %rdx) read **every byte of the returned object exactly once and no byte outside it**, and
    the stores of `copy_ret_buffer` in the caller write every byte of the return buffer exactly once and none outside.  (Before
    /repo 7826748 the callee read bytes 8..15 of a 12-byte all-float struct: Findings/C06.lean.)  The text the model prints — and the
    asm-text tie compares with `chibicc -S` — is by definition the rendering of these operations. -/
theorem C06_struct_return_bytes (u : Bool) (sz al : Nat) (ms : CallConv.Members)
    (hok : CallConv.aggSizeOk (.agg u sz al ms) = true) (h16 : sz ≤ 16) :
    let t : ATy := .agg u sz al ms
    (∀ i, i ∈ (CallConv.copyStructRegOps t).flatMap CallConv.RetOp.bytes ↔ i < sz) ∧
    ((CallConv.copyStructRegOps t).flatMap CallConv.RetOp.bytes).length = sz ∧
    (∀ i, i ∈ (CallConv.copyRetBufferOps t).flatMap CallConv.RetOp.bytes ↔ i < sz) ∧
    ((CallConv.copyRetBufferOps t).flatMap CallConv.RetOp.bytes).length = sz ∧
    CallConv.copyStructRegLines t = (CallConv.copyStructRegOps t).flatMap (CallConv.RetOp.lines 0) ∧
    ∀ off, CallConv.copyRetBufferLines t off = (CallConv.copyRetBufferOps t).flatMap (CallConv.RetOp.lines off) :=
  ⟨CallConv.copyStructReg_bytes u sz al ms hok h16, CallConv.copyStructReg_length u sz al ms hok h16,
   CallConv.copyRetBuffer_bytes u sz al ms hok h16, CallConv.copyRetBuffer_length u sz al ms hok h16, rfl, fun _ => rfl⟩

example : CallConv.aggSizeOk (.agg false 12 4 (.cons 0 .flt (.cons 4 .flt (.cons 8 .flt .nil)))) = true ∧
    CallConv.aggSizeOk (.agg false 11 1 (.cons 0 (.arr (.int 1 false false) 11) .nil)) = true := by decide

/-! ## integer-class values: callee, epilogue, caller -/

/-- **C06 (the caller receives the C11 conversion of the returned expression) — integer types.**  For every return type `to`
    and every type `frm` of the returned expression among the nine integer types, and every machine state whose %rax represents the
    expression's value `v` (the result of `gen_expr(e)`, property C01):
    * the instructions `return e;` adds are those of `cast(frm, to)` (the cast parse.c inserted), and together with the epilogue
      `mov %rbp, %rsp; pop %rbp` they run and leave %rax representing `convert to v` — the C11 conversion "as if by assignment"
      (6.8.6.4p3, 6.3.1.2, 6.3.1.3) — in codegen.c's invariant: narrow types sign- / zero-extended to 32 bits, `_Bool` and 64-bit types
      in the whole register;
    * in the caller — whatever state the call returns in, as long as %rax is as the callee left it — the instruction `case
      ND_FUNCALL` prints for the return type runs, and the value of the call expression is `convert to v`; no other register
      changes. -/
theorem C06_return_convert (frm to : ITy) (s : X86.State) (v : Int) (h : Represents frm (s.get .rax) v) :
    retSeq (descr to) (descr frm) = castSeq frm to ∧
    ∃ s', X86.run (calleeRetSeq (descr to) (descr frm)) s = some s' ∧
      Represents to (s'.get .rax) (convert to v) ∧
      ∀ c : X86.State, c.get .rax = s'.get .rax →
        ∃ c', X86.run (callerRetSeq (descr to)) c = some c' ∧ Represents to (c'.get .rax) (convert to v) ∧
          ∀ r, r ≠ .rax → c'.get r = c.get r := by
  refine ⟨retSeq_int frm to, ?_⟩
  obtain ⟨s1, hrun, hrep⟩ := ChibiVerif.Props.C01.C01_cast frm to s v h
  obtain ⟨s', he, hrax, _, _, _⟩ := epilogue_ok s1
  refine ⟨s', ?_, hrax ▸ hrep, ?_⟩
  · simp only [calleeRetSeq, retSeq_int]
    rw [run_append_some _ _ s s1 hrun]; exact he
  · intro c hc
    have hl : LowHolds to (c.get .rax) (convert to v) := by
      rw [hc, hrax]; exact represents_low to _ _ hrep
    exact caller_norm_ok to c _ hl

example : Represents .i64 (0x0000000000012380#64) 74624 ∧ convert .i8 74624 = -128 ∧ convert .bool 74624 = 1 :=
  ⟨⟨by decide, by decide⟩, by decide, by decide⟩

/-- **C06 (what a chibicc-compiled caller relies on).**  Whatever compiler made the callee: if on return the low `sizeof t` bytes
    of %rax are the object representation of `w` (all the psABI promises for char / short / int; for `_Bool`: the low byte is 0 or
    1), then after the instruction `case ND_FUNCALL` prints for the return type the call expression has the value `w` — the bits
    of %rax above the type's size are never used. -/
theorem C06_return_caller (t : ITy) (c : X86.State) (w : Int) (h : LowHolds t (c.get .rax) w) :
    ∃ c', X86.run (callerRetSeq (descr t)) c = some c' ∧ Represents t (c'.get .rax) w ∧ ∀ r, r ≠ .rax → c'.get r = c.get r :=
  caller_norm_ok t c w h

example : LowHolds .i8 (0xdeadbeef_12345680#64) (-128) ∧ LowHolds .bool (0xffffffff_ffffff01#64) 1 :=
  ⟨⟨by decide, by decide⟩, ⟨by decide, by decide⟩⟩

/-- **C06 (what a chibicc-compiled callee guarantees to any caller).**  On return, for a return type narrower than 64 bits the low
    32 bits of %rax are the returned value sign- or zero-extended (more than the psABI requires; what clang-compiled callers may
    assume of `signext` / `zeroext` results), for `_Bool` the whole register is exactly 0 or 1 (psABI: bit 0 the truth value, bits
    1-7 zero), for 64-bit types the whole register is the value. -/
theorem C06_return_extension (frm to : ITy) (s : X86.State) (v : Int) (h : Represents frm (s.get .rax) v) :
    ∃ s', X86.run (calleeRetSeq (descr to) (descr frm)) s = some s' ∧
      (if to.size = 8 then s'.get .rax = BitVec.ofInt 64 (convert to v)
       else (s'.get .rax).setWidth 32 = BitVec.ofInt 32 (convert to v)) ∧
      (to = .bool → (s'.get .rax = 0#64 ∨ s'.get .rax = 1#64) ∧ (s'.get .rax = 1#64 ↔ v ≠ 0)) := by
  obtain ⟨_, s', h1, h2, _⟩ := C06_return_convert frm to s v h
  refine ⟨s', h1, (represents_image to _ _ h2).1, ?_⟩
  intro ht; subst ht
  have hv : convert .bool v ≠ 0 ↔ v ≠ 0 := by simp only [convert]; split <;> simp_all
  obtain ⟨hb, hi⟩ := represents_bool _ _ h2
  exact ⟨hb, hi.trans hv⟩

example : Represents .u32 (0x7777_7777_8000_0002#64) 2147483650 ∧ convert .i16 2147483650 = 2 :=
  ⟨⟨by decide, by decide⟩, by decide⟩

/-- **C06 (the generated normalisation table is the one the text model prints).**  For every scalar return type the instruction
    of the translated `switch (node->ty->kind)` is the line `callLines` (the asm-text tie of every generated call) puts after
    `add $N, %rsp`. -/
theorem C06_return_norm_model :
    (∀ t ∈ ITy.all, (retNorm (descr t)).map Asm.Ins.render = CallConv.retNormalise (some (atyOfDescr (descr t)))) ∧
    (∀ d ∈ [ty_float, ty_double, ty_ldouble, ty_ptr, ty_enum],
      (retNorm d).map Asm.Ins.render = CallConv.retNormalise (some (atyOfDescr d))) := by
  decide

/-! ## a floating type on either side (relative to C02's `FpuSpec`) -/

section RetFp
open ChibiVerif.Fp ChibiVerif.Spec.Fpu ChibiVerif.Spec.FpC11

/-- **C06 (the caller receives the C11 conversion of the returned expression) — a floating type on either side.**  For every FPU
    meeting the contracts of `FpuSpec`, every return type and expression type among the twelve arithmetic types with a floating side
    (all 63 pairs, every value for which C11 defines the conversion), every machine state holding the expression's value `x` where
    `gen_expr` leaves it: the cast `return e;` inserts prints C02's cast-table cell; after it and the epilogue the value `convert to x`
    (6.8.6.4p3 with 6.3.1.4, 6.3.1.5) is where the psABI returns its class — an integer in %rax (under codegen.c's invariant, so
    `C06_return_caller` applies), a `float` in the low 32 bits of %xmm0, a `double` in %xmm0, a `long double` in %st(0) with the
    x87 stack below it as it was before the expression — and the x87 control word is restored.  The caller adds no instruction for
    a floating return type.  `hpc` as in `C02_select`. -/
theorem C06_return_convert_fp (F : FpuSpec) (frm to : ChibiVerif.Spec.FpC11.ATy) (s : FState) (x y : AVal)
    (hfp : frm.isFp = true ∨ to.isFp = true) (hh : Holds frm s x) (hc : ChibiVerif.Spec.FpC11.convert F s.cw to x = some y)
    (hpc : usesX87Arith frm to = true → pc s.cw = 3#2) :
    retSeq (descrA to) (descrA frm) = Fp.castSeq frm to ∧
    ∃ s', Fp.run F (calleeRetSeq (descrA to) (descrA frm)) s = some s' ∧ Holds to s' y ∧ s'.cw = s.cw ∧
      stBelow to s' = stBelow frm s ∧ (to.isFp = true → callerRetSeq (descrA to) = []) := by
  refine ⟨retSeq_arith frm to, ?_⟩
  obtain ⟨s1, hrun, hhold, hcw, hst, _⟩ := ChibiVerif.Props.C02.C02_select F frm to s x y hfp hh hc hpc
  obtain ⟨s', he, h0, _, h2, h3, h4⟩ := epilogue_fp F s1
  refine ⟨s', ?_, ?_, h3.trans hcw, ?_, ?_⟩
  · simp only [calleeRetSeq, retSeq_arith]
    exact (fp_run_append_some F _ _ s s1 hrun).trans he
  · cases to <;> cases y <;> simp_all [Holds]
  · simp only [stBelow, h2] at hst ⊢; exact hst
  · intro h; cases to <;> first | rfl | simp [ChibiVerif.Spec.FpC11.ATy.isFp] at h

/-- non-vacuity: on the toy FPU, `double` return type, `unsigned int` expression 4000000000 -/
example : ∃ (F : FpuSpec) (s : FState) (y : AVal),
    Holds (.int .u32) s (.int 4000000000) ∧ ChibiVerif.Spec.FpC11.convert F s.cw .f64 (.int 4000000000) = some y ∧
    (usesX87Arith (.int .u32) .f64 = true → pc s.cw = 3#2) :=
  ⟨Toy.toy, ⟨{ regs := fun _ => 0xdeadbeefee6b2800#64, mem := fun _ => 0 }, 0, 0, [], 0x37f#16⟩, _,
    by simp [Holds, RInt, ITy.inRange, ITy.min, ITy.max, ITy.signed, ITy.bits, X86.State.get], rfl, by decide⟩

end RetFp

end ChibiVerif.Props.C06
