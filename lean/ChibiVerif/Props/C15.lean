import ChibiVerif.Model.Linkage
import ChibiVerif.Spec.LinkageSpec
namespace ChibiVerif.Props.C15
end ChibiVerif.Props.C15
