/-
C15 — linkage, storage duration and symbol emission are correct in every configuration.

Property theorems only (helper lemmas: Lemmas/Linkage{Lemmas,Parse,Scan,Tent,Emit,View,Exact,Ok,Uses,ScanTy,Closure,
Data,Decls,Final,ObjSym,FnSym,Sym,Nodup}.lean).

Model: Model/Linkage.lean (parse.c `function`/`global_variable`/`primary`/`mark_live`/`scan_globals`,
codegen.c `emit_data`/`emit_text`), Gen/AddrFormsGen.lean (gen_addr's ND_VAR arm, regenerated from codegen.c).
Spec: Spec/LinkageSpec.lean.

The model is parametrised by `Rules` (which of the four repairs of the known findings the code has; `Rules.asBuilt` is
regenerated from parse.c / codegen.c on every run by tools/extract/linkrules.py).  Every theorem below that mentions the
model is proved FOR EVERY RULE SET (`[Rules]` is a variable), in particular for `Rules.asBuilt`, the code as it is.

An `Obj` list is the C list `globals` (newest first).  `Reach gs r f`: `f` is reached from `r` through the
references `primary` recorded in `fn->refs`, resolved by `find_func` exactly as `mark_live` resolves them.
All theorems are for every declaration sequence / every `Obj` list, i.e. every reference graph, cyclic or not.
-/
import ChibiVerif.Model.Linkage
import ChibiVerif.Spec.LinkageSpec
import ChibiVerif.Lemmas.LinkageLemmas
import ChibiVerif.Lemmas.LinkageParse
import ChibiVerif.Lemmas.LinkageScan
import ChibiVerif.Lemmas.LinkageTent
import ChibiVerif.Lemmas.LinkageEmit
import ChibiVerif.Lemmas.LinkageView
import ChibiVerif.Lemmas.LinkageScanTy
import ChibiVerif.Lemmas.LinkageOk
import ChibiVerif.Lemmas.LinkageSym
import ChibiVerif.Lemmas.LinkageNodup
import ChibiVerif.Lemmas.LinkagePre

namespace ChibiVerif.Props.C15
open ChibiVerif.Linkage
open ChibiVerif.Spec.Linkage
open ChibiVerif.Gen.AddrForms

/-! ### address forms -/

/-- **C15_addr_table (full statement).**  For every context `gen_addr` can be in, the chosen address form is
    valid for that kind of entity in that code model.  It fails in one cell (C15-extern-tls-local-exec,
    Findings/C15.lean), so the proved theorem is `C15_addr_table_partial`. -/
def C15_addr_table_Statement : Prop :=
  ∀ c : VarCtx, ctxConsistent c = true → ∃ f, addrForm c = some f ∧ validForm (refCtxOf c) f = true

/-- **C15_addr_table (partial).**  Whole table, by evaluation: every consistent context outside the region
    `externTlsRegion` (non-PIC reference to a thread-local object the unit does not define).
    What is missing for the full statement: that one cell; see `Findings.C15.C15_finding_extern_tls`. -/
theorem C15_addr_table_partial :
    ∀ c : VarCtx, ctxConsistent c = true → externTlsRegion c = false →
      ∃ f, addrForm c = some f ∧ validForm (refCtxOf c) f = true := by
  intro ⟨a, b, c, d, e, f⟩
  cases a <;> cases b <;> cases c <;> cases d <;> cases e <;> cases f <;> decide

/-- non-vacuity: a context inside the theorem's scope (PIC reference to an undefined thread-local object:
    general dynamic) -/
example : ctxConsistent ⟨false, false, true, true, false, false⟩ = true ∧
    externTlsRegion ⟨false, false, true, true, false, false⟩ = false ∧
    addrForm ⟨false, false, true, true, false, false⟩ = some .tlsGD := by decide

/-- **C15_addr_table for the repaired ladder (full statement, no region).**  With the candidate repair of
    C15-extern-tls-local-exec (`genAddrVarFixed`: in non-PIC code local exec only for a thread-local object the unit
    defines, initial exec `mov x@gottpoff(%rip), %rax; add %fs:0, %rax` otherwise) every consistent context gets an address
    form that is valid for its entity and code model: `C15_addr_table_Statement` with `addrFormFixed` for `addrForm`.
    `externTlsRegion` is defined through the regenerated ladder (the cell must actually choose local exec), so once the repair
    is in /repo the region of `C15_addr_table_partial` is empty without any edit here (`C15_addr_table_region_fixed`). -/
theorem C15_addr_table_fixed :
    ∀ c : VarCtx, ctxConsistent c = true → ∃ f, addrFormFixed c = some f ∧ validForm (refCtxOf c) f = true := by
  intro ⟨a, b, c, d, e, f⟩
  cases a <;> cases b <;> cases c <;> cases d <;> cases e <;> cases f <;> decide

/-- the region of the known finding is read off the ladder: whenever the regenerated ladder agrees with the repaired
    one, no context lies in `externTlsRegion` -/
theorem C15_addr_table_region_fixed (h : ∀ c : VarCtx, addrForm c = addrFormFixed c) :
    ∀ c : VarCtx, externTlsRegion c = false := by
  intro ⟨a, b, c, d, e, f⟩
  simp only [externTlsRegion, h]
  cases a <;> cases b <;> cases c <;> cases d <;> cases e <;> cases f <;> decide

/-- non-vacuity: the repaired ladder differs from the present one exactly in the cell of the finding (non-PIC,
    thread-local, not defined by the unit), where it chooses initial exec -/
example : addrFormFixed ⟨false, false, false, true, false, false⟩ = some .tlsIE ∧
    addrFormFixed ⟨false, false, false, true, false, true⟩ = some .tlsLE ∧
    validForm (refCtxOf ⟨false, false, false, true, false, false⟩) .tlsIE = true := by decide

variable [Rules]

/-- evaluate a closed statement for each of the sixteen rule sets -/
local macro "all_rules" : tactic =>
  `(tactic| (intro r; obtain ⟨a, b, c, d⟩ := r; cases a <;> cases b <;> cases c <;> cases d <;> decide))

/-! ### liveness -/

/-- **C15_live (all graphs).**  For every `Obj` list in which no `is_live` flag is set yet (the state `parse`
    is in when it starts the root loop), the root loop terminates within its recursion bound and sets
    `is_live` on exactly the functions reachable from a root: `mark_live` = reflexive-transitive closure of the
    recorded references.  Cycles and self references are covered (no hypothesis on the graph). -/
theorem C15_live (gs : List Obj) (h0 : NoneLive gs) :
    ∃ gs', markRoots gs = some gs' ∧
      ∀ f, liveFn gs' f = true ↔ ∃ r, r ∈ rootNames gs ∧ Reach gs r f := by
  obtain ⟨gs', hm, _, hl⟩ := markRoots_spec gs h0
  exact ⟨gs', hm, hl⟩

/-- **C15_live (all declaration sequences).**  `parse` never gives up with `markLiveFuel`: whenever the
    declarations are accepted, `parseUnit` returns, and in the returned list (after `scan_globals`)
    `find_func(f)->is_live` holds exactly for the functions reachable from a root of the graph recorded
    while parsing (`st.globals`). -/
theorem C15_live_unit (ds : List Decl) (st : PState) (h : declAll {} ds = .ok st) :
    ∃ gs, parseUnit ds = .ok gs ∧
      ∀ f, liveFn gs f = true ↔ ∃ r, r ∈ rootNames st.globals ∧ Reach st.globals r f := by
  have wf := wf_declAll h
  obtain ⟨gs', hm, he, hl⟩ := markRoots_spec st.globals wf.noneLive
  refine ⟨scanGlobals gs', ?_, fun f => ?_⟩
  · simp [parseUnit, h, hm, bind, Except.bind, pure, Except.pure]
  · have hnt : FnNotTent gs' := he.upd.fnNotTent wf.fnNotTent
    have : liveFn (scanGlobals gs') f = liveFn gs' f := by
      unfold liveFn; rw [findFunc_scanGlobals hnt]
    rw [this]; exact hl f

/-- **C15_recorded.**  What `parse` records, in terms of the declaration sequence alone (any accepted `ds`):
    * `find_func(f)` succeeds iff `ds` declares `f` at file scope;
    * `fn->refs` is the list of function names mentioned in the body (bodies) of `f`, in source order,
      including those in initializers of its static locals (`allBodyRefs`);
    * `is_static` / `is_inline` are `fnFlags ds f`: those of the first declaration (`s || (i && !e)`, `i`) for the code that
      never looks at a redeclaration, the result of the flag automaton over all declarations of `f` for the repaired
      `function()` (`Rules.flagsFollow`; Lemmas/LinkageFlags.lean: it computes the class C11 gives the function);
    * the root loop starts at `f` iff these flags do not make it `static inline`, or a file-scope initializer names it
      after its declaration (`fileRooted`).  A later redeclaration never clears the mark (the repaired defect). -/
theorem C15_recorded (ds : List Decl) (st : PState) (h : declAll {} ds = .ok st) (f : Name) :
    isFn st.globals f = (firstFlags ds f).isSome ∧
    refsOf st.globals f = allBodyRefs ds f ∧
    (f ∈ rootNames st.globals ↔
      ∃ stc inl, fnFlags ds f = some (stc, inl) ∧ (!(stc && inl) || fileRooted ds false f) = true) ∧
    (∀ o, findFunc st.globals f = some o → fnFlags ds f = some (o.isStatic, o.isInline)) :=
  recorded h f

/-- reachability in terms of the declarations -/
inductive ReachD (ds : List Decl) : Name → Name → Prop where
  | refl {a} : (firstFlags ds a).isSome = true → ReachD ds a a
  | step {a b c} : ReachD ds a b → c ∈ allBodyRefs ds b → (firstFlags ds c).isSome = true → ReachD ds a c

/-- **C15_live (declaration level).**  For every accepted declaration sequence, in the list `parse` returns
    `is_live f` holds iff `f` is reachable, through the function names mentioned in bodies, from a function
    that is not `static inline` by its first declaration or that a file-scope initializer names. -/
theorem C15_live_decl (ds : List Decl) (st : PState) (h : declAll {} ds = .ok st) :
    ∃ gs, parseUnit ds = .ok gs ∧
      ∀ f, liveFn gs f = true ↔
        ∃ r stc inl, fnFlags ds r = some (stc, inl) ∧ (!(stc && inl) || fileRooted ds false r) = true ∧
          ReachD ds r f := by
  obtain ⟨gs, hp, hl⟩ := C15_live_unit ds st h
  have conv : ∀ a b, Reach st.globals a b ↔ ReachD ds a b := by
    intro a b
    constructor
    · intro hr
      induction hr with
      | refl hf => exact ReachD.refl (by rw [← (C15_recorded ds st h _).1]; exact hf)
      | step _ hm hf ih =>
        exact ReachD.step ih (by rw [← (C15_recorded ds st h _).2.1]; exact hm)
          (by rw [← (C15_recorded ds st h _).1]; exact hf)
    · intro hr
      induction hr with
      | refl hf => exact Reach.refl (by rw [(C15_recorded ds st h _).1]; exact hf)
      | step _ hm hf ih =>
        exact Reach.step ih (by rw [(C15_recorded ds st h _).2.1]; exact hm)
          (by rw [(C15_recorded ds st h _).1]; exact hf)
  refine ⟨gs, hp, fun f => ?_⟩
  rw [hl]
  constructor
  · rintro ⟨r, hr, hreach⟩
    obtain ⟨stc, inl, hff, hc⟩ := ((C15_recorded ds st h r).2.2.1).mp hr
    exact ⟨r, stc, inl, hff, hc, (conv r f).mp hreach⟩
  · rintro ⟨r, stc, inl, hff, hc, hreach⟩
    exact ⟨r, ((C15_recorded ds st h r).2.2.1).mpr ⟨stc, inl, hff, hc⟩, (conv r f).mpr hreach⟩

/-- non-vacuity: a cyclic static-inline call graph.  `static inline a(){b}`, `static inline b(){a}` (a cycle),
    `static inline dead(){dead, a}` (self reference, never referenced from outside), `int (*p)(void) = a;`
    at file scope.  Names: a=0 b=1 dead=2 p=3. -/
def cyclicUnit : List Decl :=
  [ .func 0 1 true false true none, .func 1 1 true false true none,
    .func 0 1 true false true (some [.ref (.fn 1)]),
    .func 1 1 true false true (some [.ref (.fn 0)]),
    .func 2 4 true false true (some [.ref (.fn 2), .ref (.fn 0)]),
    .obj 3 false false false ⟨8, 8, false, false⟩ (some [.ref (.fn 0)]) ]

example : ∀ r : Rules, holdsOn (@parseUnit r cyclicUnit) (fun gs => liveFn gs 0 && liveFn gs 1 && !liveFn gs 2) = true := by
  all_rules

/-- the hypothesis of C15_live_unit / C15_recorded / C15_live_decl is met by `cyclicUnit`, and the recorded
    graph is the cyclic one -/
example : ∀ r : Rules, holdsOn (@declAll r {} cyclicUnit) (fun st =>
    refsOf st.globals 0 == [1] && refsOf st.globals 1 == [0] && refsOf st.globals 2 == [2, 0] &&
    @rootNames r st.globals == [0]) = true := by
  all_rules

example : ∀ r : Rules, holdsOn (@parseUnit r cyclicUnit) (fun gs =>
    (objectSymbols true gs).map (fun e => (e.sym, e.binding, e.kind)) ==
      [(.named 3, .global, .data), (.named 1, .local, .text), (.named 0, .local, .text)]) = true := by
  all_rules

/-! ### closure of what is emitted -/

/-- **C15_closed.**  In the list `parse` returns, for every declaration sequence:
    1. every function at which the root loop starts (`effRoot`: not `static inline`, or named in a file-scope
       initializer) is live;
    2. everything a live function refers to (a name recorded in its body that `find_func` resolves) is live —
       so every static function referenced by emitted code is emitted when it is defined;
    3. a live function is reachable from a root, i.e. a `static inline` definition that nothing emitted
       refers to is not live;
    4. `emit_text` prints a function iff it is a live definition. -/
theorem C15_closed (ds : List Decl) (gs : List Obj) (h : parseUnit ds = .ok gs) :
    ∃ st, declAll {} ds = .ok st ∧
    (∀ o f, o ∈ gs → o.isFunction = true → o.sym = .named f → effRoot o = true → o.isLive = true) ∧
    (∀ o f o2 g, o ∈ gs → o.isFunction = true → o.sym = .named f → o.isLive = true → g ∈ o.refs →
        o2 ∈ gs → o2.isFunction = true → o2.sym = .named g → o2.isLive = true) ∧
    (∀ o f, o ∈ gs → o.isFunction = true → o.sym = .named f → o.isLive = true →
        ∃ r, r ∈ rootNames st.globals ∧ Reach st.globals r f) ∧
    (∀ o, (emitTextFn o).isSome = (o.isFunction && o.isDefinition && o.isLive)) := by
  obtain ⟨st, gs', hst, hm, rfl⟩ := parseUnit_ok h
  have wf := wf_declAll hst
  obtain ⟨gs'', hm', he, hl⟩ := markRoots_spec st.globals wf.noneLive
  rw [hm] at hm'
  cases hm'
  have hnt : FnNotTent gs' := he.upd.fnNotTent wf.fnNotTent
  have hnd : (fnNamesOf gs').Nodup := by rw [he.upd.fnNamesOf]; exact wf.nodup
  -- a function object of the result is an object of gs' and its flag is `liveFn gs'`
  have key : ∀ o f, o ∈ scanGlobals gs' → o.isFunction = true → o.sym = .named f →
      o ∈ gs' ∧ o.isLive = liveFn gs' f ∧ o.refs = refsOf gs' f := by
    intro o f ho hf hs
    have ho' := (mem_scanGlobals_fn hnt hf).mp ho
    exact ⟨ho', isLive_eq_liveFn hnd ho' hf hs, refs_eq_refsOf hnd ho' hf hs⟩
  have isfn : ∀ o f, o ∈ gs' → o.isFunction = true → o.sym = .named f → isFn st.globals f = true := by
    intro o f ho hf hs
    rw [← he.isFn]
    unfold isFn
    rw [findFunc_of_mem hnd ho hf hs]; rfl
  refine ⟨st, hst, ?_, ?_, ?_, ?_⟩
  · intro o f ho hf hs hr
    obtain ⟨ho', hlive, _⟩ := key o f ho hf hs
    rw [hlive, hl]
    -- the object is a root of the recorded graph
    obtain ⟨o0, ho0, hh⟩ := he.upd.mem ho'
    have hroot : f ∈ rootNames st.globals := by
      rcases hh with rfl | rfl
      · exact mem_rootNames ho0 hf hs hr
      · exact mem_rootNames ho0 hf hs hr
    exact ⟨f, hroot, Reach.refl (isfn o f ho' hf hs)⟩
  · intro o f o2 g ho hf hs hlv hg ho2 hf2 hs2
    obtain ⟨ho', hlive, hrefs⟩ := key o f ho hf hs
    obtain ⟨ho2', hlive2, _⟩ := key o2 g ho2 hf2 hs2
    rw [hlive2, hl]
    rw [hlive, hl] at hlv
    obtain ⟨r, hr, hreach⟩ := hlv
    refine ⟨r, hr, Reach.step hreach ?_ (isfn o2 g ho2' hf2 hs2)⟩
    rw [← he.refs, ← hrefs]; exact hg
  · intro o f ho hf hs hlv
    obtain ⟨_, hlive, _⟩ := key o f ho hf hs
    rw [hlive, hl] at hlv
    exact hlv
  · intro o
    unfold emitTextFn
    cases o.isFunction <;> cases o.isDefinition <;> cases o.isLive <;> rfl

/-- non-vacuity of C15_closed: in `cyclicUnit` the unreferenced `static inline dead` is not printed, the
    cycle `a`/`b` reached from the file-scope initializer is -/
example : ∀ r : Rules, holdsOn (@parseUnit r cyclicUnit) (fun gs => (emitText gs).map (·.sym) == [.named 1, .named 0]) = true := by
  all_rules

/-! ### tentative definitions -/

/-- **C15_tentative.**  For every `Obj` list and every object name `s` with at most one non-tentative
    definition (`NameOK`) whose objects have no owner (file-scope objects; `noOwner`), after `scan_globals`:
    * `emit_data` prints at most one definition of `s`, and exactly one if the list holds any definition of `s`;
    * the printed entry comes from a declaration `a` of `s` in the list (possibly with the type of another
      declaration: the composite type); it is the tentative one exactly when no non-tentative definition exists;
    * it is `.comm` iff `-fcommon`, all definitions were tentative, and the object is not thread-local. -/
theorem C15_tentative (fcommon : Bool) (gs : List Obj) (s : Sym) (ok : NameOK gs s)
    (noOwner : ∀ o, o ∈ gs → o.sym = s → o.owner = none) :
    ((emitData fcommon (scanGlobals gs)).filter (fun e => e.sym == s)).length ≤ 1 ∧
    (gs.any (dataDefOf s) = true →
      ((emitData fcommon (scanGlobals gs)).filter (fun e => e.sym == s)).length = 1) ∧
    (∀ e, e ∈ emitData fcommon (scanGlobals gs) → e.sym = s →
      ∃ a t, a ∈ gs ∧ dataDefOf s a = true ∧ emitDataVar fcommon { a with ty := t } = some e ∧
        (a.isTentative = true ↔ gs.any (realDefOf s) = false) ∧
        (e.kind = .common ↔ (fcommon = true ∧ gs.any (realDefOf s) = false ∧ a.isTls = false))) := by
  have hrel := scanGlobals_tyRel gs
  have ok2 := nameOK_preScan ok
  have hreal2 : (preScan gs).any (realDefOf s) = gs.any (realDefOf s) := (preScan_tyRel gs).any (tyBlind_realDefOf s)
  -- an object of the result, traced back to the list
  have back : ∀ b, b ∈ scanGlobals gs → ∃ a t, a ∈ gs ∧ b = { a with ty := t } ∧ preOne gs a ∈ scanPure (preScan gs) (preScan gs) := by
    intro b hb
    obtain ⟨a2, ha2, t, rfl⟩ := hrel.mem hb
    obtain ⟨a, ha, rfl⟩ := mem_preScan.mp (scanPure_sub _ _ a2 ha2)
    obtain ⟨t2, ht2⟩ := preOne_same gs a
    exact ⟨a, t, ha, by rw [ht2], ha2⟩
  have hown : ∀ o, o ∈ scanGlobals gs → o.sym = s → o.owner = none := by
    intro o ho hs
    obtain ⟨a, t, ha, rfl, _⟩ := back o ho
    exact noOwner a ha hs
  have hcount : ((emitData fcommon (scanGlobals gs)).filter (fun e => e.sym == s)).length =
      ((scanPure (preScan gs) (preScan gs)).filter (dataDefOf s)).length := by
    rw [emitData_count fcommon s _ hown, hrel.filter_length (tyBlind_dataDefOf s)]
  refine ⟨?_, ?_, ?_⟩
  · rw [hcount]; exact scanPure_count_le_one ok2
  · intro hex
    rw [hcount]
    have h1 := scanPure_count_le_one ok2
    have h2 := scanPure_count_pos ok2 (by rw [(preScan_tyRel gs).any (tyBlind_dataDefOf s)]; exact hex)
    omega
  · intro e he hs
    unfold emitData at he
    rw [List.mem_filterMap] at he
    obtain ⟨b, hb, hbe⟩ := he
    obtain ⟨a, t, hag, rfl, hkept⟩ := back b (List.mem_filter.mp hb).1
    obtain ⟨t2, ht2⟩ := preOne_same gs a
    have hsym : a.sym = s := by
      have := emitDataVar_sym hbe
      rw [hs] at this; exact this.symm
    have hsome : (!a.isFunction && a.isDefinition) = true := by
      have := emitDataVar_isSome fcommon { a with ty := t }
      rw [hbe] at this
      exact this.symm
    simp only [Bool.and_eq_true, Bool.not_eq_true'] at hsome
    have htent : a.isTentative = true ↔ gs.any (realDefOf s) = false := by
      have hs2 : (preOne gs a).sym = s := by rw [ht2]; exact hsym
      have hd2 : (preOne gs a).isDefinition = true := by rw [ht2]; exact hsome.2
      have ht2' : (preOne gs a).isTentative = a.isTentative := by rw [ht2]
      have := scanPure_kept_tent hkept hs2 hd2
      rw [ht2', hreal2] at this
      exact this
    refine ⟨a, t, hag, by simp [dataDefOf, hsome.1, hsome.2, hsym], hbe, htent, ?_⟩
    -- the kind of the entry, read off emit_data
    unfold emitDataVar at hbe
    simp only [hsome.1, hsome.2, Bool.not_true, Bool.or_false, Bool.false_eq_true, if_false] at hbe
    cases hfc : fcommon <;> cases hat : a.isTentative <;> cases htl : a.isTls <;>
      simp only [hfc, hat, htl, Bool.not_true, Bool.not_false, Bool.and_true,
        Bool.and_false, Bool.false_eq_true, if_false, if_true] at hbe
    all_goals (first | (split at hbe <;> cases hbe <;> simp_all) | (cases hbe <;> simp_all))

/-- non-vacuity: `int x; int x; static int s; static int s; int y = 3; int y; _Thread_local int t; _Thread_local int t;`
    (x=0 s=1 y=2 t=3): one definition of each; `.comm` for x and s under -fcommon, .data for y, .tbss for t -/
def tentativeUnit : List Decl :=
  [ .obj 0 false false false ⟨4, 4, false, false⟩ none, .obj 0 false false false ⟨4, 4, false, false⟩ none,
    .obj 1 true false false ⟨4, 4, false, false⟩ none, .obj 1 true false false ⟨4, 4, false, false⟩ none,
    .obj 2 false false false ⟨4, 4, false, false⟩ (some []), .obj 2 false false false ⟨4, 4, false, false⟩ none,
    .obj 3 false false true ⟨4, 4, false, false⟩ none, .obj 3 false false true ⟨4, 4, false, false⟩ none ]

example : ∀ r : Rules, holdsOn (@parseUnit r tentativeUnit) (fun gs =>
    (emit true gs).map (fun e => (e.sym, e.binding, e.kind)) ==
      [(.named 3, .global, .tbss), (.named 2, .global, .data), (.named 1, .local, .common), (.named 0, .global, .common)] &&
    (emit false gs).map (fun e => (e.sym, e.kind)) ==
      [(.named 3, .tbss), (.named 2, .data), (.named 1, .bss), (.named 0, .bss)]) = true := by
  all_rules

/-- the hypotheses `NameOK` / `noOwner` hold for each of the four names in the list `parse` builds for `tentativeUnit` -/
example : ∀ r : Rules, holdsOn (@declAll r {} tentativeUnit) (fun st =>
    [0, 1, 2, 3].all (fun n =>
      st.globals.all (fun o => !(o.sym == .named n) || (!o.isFunction && o.owner == none)) &&
      decide ((st.globals.filter (realDefOf (.named n))).length ≤ 1) &&
      st.globals.all (fun o => !o.isTentative || o.isDefinition))) = true := by
  all_rules

/-- **C15_tentative_type.**  The type of the definition that stays.  For every `Obj` list and every name `s`
    without a non-tentative definition: if the types of the tentative definitions of `s` (newest first; for the repaired
    code after the pass that completes arrays from the other declarations: `preScan`) satisfy
    `ChainOK P` - all have the composite type's alignment and array-ness `P`, and either none gives an array
    length and all element sizes are `P.size`, or behind some declaration that gives the length `P.size` only
    declarations follow that give that length or none (for a valid unit: always, Lemmas/LinkageObjSym.lean
    `chain_of_valid`) - then every tentative definition of `s` that `scan_globals` keeps has a known length and
    the size, alignment and array-ness of the composite type (C11 6.2.7p3, 6.9.2p2/p5). -/
theorem C15_tentative_type (P : TyParams) (gs : List Obj) (s : Sym) (hreal : gs.any (realDefOf s) = false)
    (hc : ChainOK P (tysOf s (preScan gs))) :
    ∀ o, o ∈ scanGlobals gs → isTentOf s o = true →
      o.ty.unknownLen = false ∧ o.ty.size = P.size ∧ o.ty.align = P.align ∧ o.ty.isArray = P.isArray := by
  intro o ho hs
  have hreal2 : (preScan gs).any (realDefOf s) = false := by
    rw [(preScan_tyRel gs).any (tyBlind_realDefOf s)]; exact hreal
  obtain ⟨⟨ha, hr, _⟩, hk, hsz⟩ := scanCore_good hreal2 hc o ho hs
  exact ⟨hk, hsz, ha, hr⟩

/-- non-vacuity: `int a[]; int a[5]; int a[];` (a=0, newest first in the list): the hypotheses hold with the
    composite type `int[5]`, and the definition that stays has 20 bytes -/
def tentTypeList : List Obj :=
  [ { sym := .named 0, isTentative := true, isStatic := false, ty := ⟨4, 4, true, true⟩ },
    { sym := .named 0, isTentative := true, isStatic := false, ty := ⟨20, 4, true, false⟩ },
    { sym := .named 0, isTentative := true, isStatic := false, ty := ⟨4, 4, true, true⟩ } ]

example : ∀ r : Rules, tentTypeList.any (realDefOf (.named 0)) = false ∧
    (@scanGlobals r tentTypeList).map (fun o => (o.ty.size, o.ty.unknownLen)) = [(20, false)] := by
  all_rules

example : ChainOK ⟨20, 4, true⟩ (tysOf (.named 0) (@preScan Rules.original tentTypeList)) :=
  chain_initial (by decide) (Or.inl ⟨⟨20, 4, true, false⟩, by decide, rfl⟩)

example : ChainOK ⟨20, 4, true⟩ (tysOf (.named 0) (@preScan Rules.repaired tentTypeList)) :=
  chain_initial (by decide) (Or.inl ⟨⟨20, 4, true, false⟩, by decide, rfl⟩)

/-! ### the symbol table -/

/-- **C15_symbols (full statement).**  For every valid declaration sequence and both `-fcommon` settings the
    ELF symbol table of the model's output has exactly the entries of `Spec.symbols`.
    `Spec.valid` states what makes a declaration sequence a C translation unit as far as linkage goes (C11 6.2.2p7,
    6.7.1p3, 6.2.7p1/p2, 6.2.1p7, 6.9p3, 6.9p5; validated against gcc 12: no unit gcc accepts may be invalid).
    The statement is false for the code with any of the four known findings (Findings/C15.lean has kernel-checked
    witnesses for each rule that is off) and PROVED for the code with the four repairs: `C15_symbols_repaired`. -/
def C15_symbols_Statement : Prop :=
  ∀ (fcommon : Bool) (ds : List Decl), valid ds = true →
    ∃ gs, parseUnit ds = .ok gs ∧
      (∀ e, e ∈ objectSymbols fcommon gs ↔ e ∈ symbols fcommon ds)

/-- the decidable region in which `C15_symbols_Statement` is claimed: a valid unit outside the regions of the known
    findings THE CODE STILL HAS (`Spec.symbolsScope`: each region is guarded by the rule that repairs it).  Two regions are
    narrower than the regions the findings were first recorded with: `flagsFrozenDefRegion` is `flagsFrozenRegion` restricted
    to functions the unit defines; `deadStaticLocalVisibleRegion` is `deadStaticLocalRegion` restricted to initializers that
    name something which nothing emitted refers to and the unit does not define. -/
def InScope (ds : List Decl) : Bool := symbolsScope ds

omit [Rules] in
/-- with all four repairs the scope is every valid unit -/
theorem C15_scope_repaired (ds : List Decl) : @InScope Rules.repaired ds = valid ds := by
  have h1 : @Rules.flagsFollow Rules.repaired = true := rfl
  have h2 : @Rules.ownedData Rules.repaired = true := rfl
  have h3 : @Rules.compositeFromDecls Rules.repaired = true := rfl
  have h4 : @Rules.externInherits Rules.repaired = true := rfl
  simp [InScope, symbolsScope, h1, h2, h3, h4]

/-- for the code without any repair it is the scope the theorem had before the rules were introduced -/
example (ds : List Decl) : @InScope Rules.original ds =
    (valid ds && !flagsFrozenDefRegion ds && !deadStaticLocalVisibleRegion ds && !compositeSizeRegion ds &&
     !externInitAfterStaticRegion ds) := by
  have h1 : @Rules.flagsFollow Rules.original = false := rfl
  have h2 : @Rules.ownedData Rules.original = false := rfl
  have h3 : @Rules.compositeFromDecls Rules.original = false := rfl
  have h4 : @Rules.externInherits Rules.original = false := rfl
  simp [InScope, symbolsScope, h1, h2, h3, h4]

/-- **C15_accepts.**  `parse` accepts every valid unit: none of the
    diagnostics of the modelled code ("redefinition of f", "static declaration follows a non-static declaration",
    "undefined variable" / "implicit declaration of a function") fires, and the root loop terminates. -/
theorem C15_accepts (ds : List Decl) (hv : valid ds = true) : ∃ gs, parseUnit ds = .ok gs := by
  obtain ⟨st, hst⟩ := parse_ok hv
  obtain ⟨gs1, p⟩ := parsed_of_declAll hst
  exact ⟨_, p.parseUnit⟩

/-- **C15_symbols (partial).**  For every rule set, every declaration sequence in `InScope` (valid, outside the regions of
    the known findings that rule set still has) and both `-fcommon` settings:
    `parse` accepts the unit and the ELF symbol table of the output - every defined label with binding, section
    kind, size and alignment, every undefined reference - has exactly the entries of `Spec.symbols` (C11 6.2.2,
    6.9.2, 6.7.4, GCC -fcommon, psABI array alignment, read over all declarations at once).

    The proof is the simulation between the flag-mutating walk of `declAll` and the Spec: after any prefix the
    list is `<new data objects, explicit> ++ <old list with one function object updated>` (Lemmas/LinkageExact);
    function flags, `refs`, `uses` and the data objects are closed forms of the declarations (LinkageView,
    LinkageUses, LinkageData, LinkageFlags); `mark_live` = the Spec's `closeRounds` closure (LinkageClosure, LinkageFnSym);
    the tentative definition that stays has the composite type (LinkageScanTy, LinkageObjSym).

    What is missing for the full statement: the regions of the rules that are off are genuine defects of chibicc (known
    findings); nothing else - with all four rules on this IS the full statement (`C15_symbols_repaired`). -/
theorem C15_symbols_partial : ∀ (fcommon : Bool) (ds : List Decl), InScope ds = true →
    ∃ gs, parseUnit ds = .ok gs ∧ (∀ e, e ∈ objectSymbols fcommon gs ↔ e ∈ symbols fcommon ds) := by
  intro fcommon ds hin
  exact symbols_partial_lemma fcommon hin

omit [Rules] in
/-- **C15_symbols for the repaired code (full statement, no region).**  With the four candidate repairs in the code
    (`Rules.repaired`: extern inherits linkage, flags follow redeclarations, composite array type, data owned by their
    function) the model's symbol table equals `Spec.symbols` for EVERY valid declaration sequence. -/
theorem C15_symbols_repaired : @C15_symbols_Statement Rules.repaired := by
  intro fcommon ds hv
  exact @C15_symbols_partial Rules.repaired fcommon ds (by rw [C15_scope_repaired]; exact hv)

/-- non-vacuity: a unit with redeclarations (`static int s(void); static int s(void){..}`), a static-inline cycle
    reached through a file-scope initializer, a dead static inline, a block-scope `extern` used after its
    declaration, a static local whose initializer names a function and a string literal, tentative definitions of
    an array with and without length, a TLS object, an `extern` object and an undeclared-here function that are
    referenced.  Names: s=0 a=1 b=2 dead=3 main=4 ext=5 | p=6 arr=7 t=8 eo=9 bx=10 -/
def mixedUnit : List Decl :=
  [ .func 0 1 true false false none,
    .func 1 1 true false true none, .func 2 1 true false true none, .func 5 3 false false false none,
    .obj 7 false false false ⟨4, 4, true, true⟩ none, .obj 9 false true false ⟨4, 4, false, false⟩ none,
    .func 1 1 true false true (some [.ref (.fn 2)]),
    .func 2 1 true false true (some [.ref (.fn 1), .ref (.obj 9)]),
    .func 3 4 true false true (some [.ref (.fn 3), .str 3]),
    .obj 6 false false false ⟨8, 8, false, false⟩ (some [.ref (.fn 1), .str 4]),
    .obj 7 false false false ⟨20, 4, true, false⟩ none,
    .obj 8 true false true ⟨4, 4, false, false⟩ none, .obj 8 true false true ⟨4, 4, false, false⟩ none,
    .func 0 1 true false false (some [.staticLocal false ⟨8, 8, false, false⟩ (some [.ref (.fn 5), .str 2])]),
    .func 4 4 false false false (some [.externObj 10 false ⟨4, 4, false, false⟩, .ref (.obj 10), .ref (.fn 0), .ref (.obj 7)]) ]

example : ∀ r : Rules, @InScope r mixedUnit = true := by all_rules

example : ∀ r : Rules, @InScope r cyclicUnit = true ∧ @InScope r tentativeUnit = true := by all_rules

/-- the units of the known findings are valid: inside the scope of `C15_symbols_repaired`, outside `InScope` of the
    code without repairs -/
example : valid [ .func 0 1 false false true (some []), .func 0 1 false true true none ] = true ∧
    valid [ .obj 0 false false false ⟨4, 4, true, true⟩ none, .obj 0 false true false ⟨20, 4, true, false⟩ none ] = true ∧
    valid [ .obj 0 true false false ⟨4, 4, false, false⟩ none, .obj 0 false true false ⟨4, 4, false, false⟩ (some []) ] = true := by
  decide

/-- ... and the table the theorem speaks about is not trivial -/
example : (symbols true mixedUnit).map (fun e => (e.sym, e.binding, e.kind, e.size)) =
    [(.named 0, .local, .text, none), (.named 1, .local, .text, none), (.named 2, .local, .text, none),
     (.named 5, .global, .undef, none), (.named 4, .global, .text, none),
     (.named 7, .global, .common, some 20), (.named 9, .global, .undef, none), (.named 6, .global, .data, some 8),
     (.named 8, .local, .tbss, some 4), (.named 10, .global, .undef, none)] := by decide

/-- **C15_symbols with multiplicities (full statement).**  The symbol table of the output is a permutation of
    `Spec.symbols`: the same entries, each exactly once.  False where `C15_symbols_Statement` is false (it implies it);
    proved for the repaired code: `C15_symbols_exact_repaired`. -/
def C15_symbols_exact_Statement : Prop :=
  ∀ (fcommon : Bool) (ds : List Decl), valid ds = true →
    ∃ gs, parseUnit ds = .ok gs ∧ (objectSymbols fcommon gs).Perm (symbols fcommon ds)

/-- **C15_symbols with multiplicities (partial).**  In the scope of `C15_symbols_partial` the symbol table of the
    output is a *permutation* of `Spec.symbols`: no label is defined twice (the assembler would reject the file) or
    both defined and referenced as undefined, and no entry of the Spec is produced twice.  Beyond
    `C15_symbols_partial` this uses: the labels `.L..k` are handed out once each; at most one declaration of an object
    has an initializer, so `scan_globals` leaves at most one definition per name (`C15_tentative`); function objects
    have distinct names; functions, objects and block-scope externs use different identifiers.
    Missing for the full statement: the same regions as for `C15_symbols_partial`. -/
theorem C15_symbols_exact_partial : ∀ (fcommon : Bool) (ds : List Decl), InScope ds = true →
    ∃ gs, parseUnit ds = .ok gs ∧ (objectSymbols fcommon gs).Perm (symbols fcommon ds) := by
  intro fcommon ds hin
  exact symbols_perm_lemma fcommon hin

omit [Rules] in
/-- **C15_symbols with multiplicities for the repaired code (full statement, no region).** -/
theorem C15_symbols_exact_repaired : @C15_symbols_exact_Statement Rules.repaired := by
  intro fcommon ds hv
  exact @C15_symbols_exact_partial Rules.repaired fcommon ds (by rw [C15_scope_repaired]; exact hv)

/-- non-vacuity: see the examples after `C15_symbols_partial` (same hypotheses); the two tables of `mixedUnit`
    have ten entries each -/
example : (∀ r : Rules, holdsOn (@parseUnit r mixedUnit) (fun gs => (objectSymbols true gs).length == 10) = true) ∧
    (symbols true mixedUnit).length = 10 := ⟨by all_rules, by decide⟩

end ChibiVerif.Props.C15
