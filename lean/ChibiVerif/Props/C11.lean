/-
C11 — literals have the C11 value, type and encoding.

Property theorems only (helper lemmas: Lemmas/LiteralsLemmas, LiteralsReaderLemmas, TextLemmas, C11Splice, C11Locality,
C11SpliceEol, C11Translated, C11Readers, C11Rewrite, C11PpInt, C11PpNumber, C11Phases, C11PpContext).  The left-hand sides are the
functions translated from unicode.c / tokenize.c / type.c on every check run
(Gen/LiteralsGen.lean: codecs, ladders, tables; Gen/LitReadersGen.lean: the reader functions and the in-place phase loops;
Gen/PpNumGen.lean: `convert_pp_int` as a whole with libc `strtoul` as a parameter, the pp-number arm of `tokenize()`, the body of
`tokenize_file` from clang's AST)
and the hand model of the readers (Model/Literals.lean, Model/Text.lean), which `C11_translated_readers`,
`C11_translated_literal_readers`, `C11_translated_phases`, `C11_translated_int`, `C11_translated_ppnumber` and `C11_phase_order`
prove equal to the translated functions;
the right-hand sides are Spec/LiteralsSpec.lean (C11 5.1.1.2, 6.4.4, 6.4.5, Annex D; RFC 3629; RFC 2781).

Identification used throughout: chibicc has no `long long` distinct from `long`
(`Literals.collapse`: llong ↦ ty_long, ullong ↦ ty_ulong; same size, signedness, conversions).
-/
import ChibiVerif.Model.Literals
import ChibiVerif.Model.Text
import ChibiVerif.Lemmas.LiteralsLemmas
import ChibiVerif.Lemmas.TextLemmas
import ChibiVerif.Lemmas.LiteralsReaderLemmas
import ChibiVerif.Lemmas.C11Splice
import ChibiVerif.Lemmas.C11Locality
import ChibiVerif.Lemmas.C11Translated
import ChibiVerif.Lemmas.C11Rewrite
import ChibiVerif.Lemmas.C11Readers
import ChibiVerif.Lemmas.C11SpliceEol
import ChibiVerif.Lemmas.C11PpInt
import ChibiVerif.Lemmas.C11PpNumber
import ChibiVerif.Lemmas.C11Phases
import ChibiVerif.Lemmas.C11PpContext

set_option linter.unusedSimpArgs false

namespace ChibiVerif.Props.C11
open ChibiVerif.Gen.Literals
open ChibiVerif.Spec.Literals
open ChibiVerif.Literals
open ChibiVerif.Lemmas.Literals
open ChibiVerif.Lemmas.Text
open ChibiVerif.Lemmas.Readers
open ChibiVerif.Lemmas.Splice
open ChibiVerif.Lemmas.Locality
open ChibiVerif.Lemmas.Translated
open ChibiVerif.Lemmas.Rewrite
open ChibiVerif.Lemmas.ReadersT
open ChibiVerif.Lemmas.SpliceEol
open ChibiVerif.LitReaders
open ChibiVerif.Text
open ChibiVerif.PpNumber
open ChibiVerif.Spec.PpNumber (PPNumber isLetter)

-- ------------------------------------------------------------------ integer constants (6.4.4.1)

/-- **C11 (integer-constant type).**  For every base chibicc accepts, every suffix class and
    every 64-bit value: whenever the 6.4.4.1p5 list contains a type that represents the value,
    the `>> 31 / >> 32 / >> 63` ladder of `convert_pp_int` selects that first type (modulo
    `collapse`). -/
theorem C11_int_type (base : Nat) (hb : base = 2 ∨ base = 8 ∨ base = 10 ∨ base = 16) (s : Suffix)
    (v : BitVec 64) (t : IntType) (h : litType (base == 10) s v.toNat = some t) :
    intLitType base s.hasL s.hasU v = collapse t :=
  ladder_spec base hb s v t h

/-- non-vacuity: 0x80000000 is `unsigned int`, 2147483648 is `long`, 0x8000000000000000LL is
    `unsigned long long`, 4294967296u is `unsigned long` -/
example : litType (16 == 10) .none (0x80000000#64).toNat = some .uint ∧
    litType (10 == 10) .none (2147483648#64).toNat = some .long ∧
    litType (16 == 10) .ll (0x8000000000000000#64).toNat = some .ullong ∧
    litType (10 == 10) .u (4294967296#64).toNat = some .ulong := by decide

/-- **C11 (the region without a standard type).**  The list of 6.4.4.1p5 contains no type for a
    64-bit value exactly when the constant is decimal, has no `u` and exceeds `LLONG_MAX`
    (6.4.4.1p6: such a constant has no type unless an extended integer type exists). -/
theorem C11_int_type_region (decimal : Bool) (s : Suffix) (v : BitVec 64) :
    litType decimal s v.toNat = none ↔ (decimal = true ∧ s.hasU = false ∧ v.toNat ≥ 2 ^ 63) := by
  have hv := v.isLt
  by_cases h63 : v.toNat < 2 ^ 63
  · have h64 : v.toNat < 2 ^ 64 := hv
    cases decimal <;> cases s <;>
      simp [litType, candidates, IntType.represents, IntType.isSigned, IntType.bits, Suffix.hasU, h63, h64] <;> omega
  · have n63 : v.toNat ≥ 2 ^ 63 := by omega
    have n31 : ¬ v.toNat < 2 ^ 31 := by omega
    have n32 : ¬ v.toNat < 2 ^ 32 := by omega
    cases decimal <;> cases s <;>
      simp [litType, candidates, IntType.represents, IntType.isSigned, IntType.bits, Suffix.hasU, h63, n63, n31, n32, hv]

/-- what chibicc does in that region: the constant silently gets type `long` (its value is
    then negative; gcc gives `__int128` or warns) — excluded from C11_int_type, stated here -/
theorem C11_int_type_excluded (s : Suffix) (v : BitVec 64) (hs : s.hasU = false) (hv : v.toNat ≥ 2 ^ 63) :
    intLitType 10 s.hasL s.hasU v = .ty_long := by
  have e31 := sshr_ne_zero v 31 (by decide)
  have h31 : v.toNat ≥ 2 ^ 31 := by omega
  cases s <;> simp [intLitType, Suffix.hasL, Suffix.hasU, e31, h31] at hs ⊢

example : (2 : Nat) ^ 63 ≤ (9223372036854775808#64).toNat := by decide

/-- **C11 (integer suffixes).**  Every spelling of an integer-suffix (6.4.4.1p1) is recognised by
    the suffix ladder of `convert_pp_int` — the if-ladder as translated from the C source, statement by statement
    (Gen/PpNumGen.lean `convertPpInt_sel2`) —, consumed completely, and yields the `l`/`u` flags of its class. -/
theorem C11_int_suffix :
    ∀ e ∈ suffixSpellings,
      ChibiVerif.Gen.PpNum.convertPpInt_sel2 (e.1.toList.map (fun ch => BitVec.ofNat 8 ch.toNat)) 0 =
        (e.1.length, e.2.hasL, e.2.hasU) := by
  decide +kernel

/-- **C11 (what the integer-constant theorems assume of libc `strtoul`, and that the models satisfy it).**  `convert_pp_int` is
    translated with `strtoul` as a parameter.  The contract `StrtoulSpec` (C11 7.22.1.4 for a subject sequence without white
    space and sign: a non-empty run of digits of the base, 2 ≤ base ≤ 16, followed by a byte that is not a digit of the base and
    not beginning with a `0x` prefix in base 16, gives the value of the run saturated to `ULONG_MAX` and the end pointer after
    it) holds of the Lean model of glibc's `strtoul` that the check runs against the real libc (`strtoulC`, `stl` operation), and
    of the digit loop the hand model of `convert_pp_int` uses (`strtoulH`); the two models agree except on a second `0x` prefix. -/
theorem C11_strtoul_contract :
    StrtoulSpec strtoulC ∧ StrtoulSpec strtoulH ∧
    (∀ (p : List Byte) (i base : Nat),
      ¬ (base = 16 ∧ byteAt p i = 48#8 ∧ (byteAt p (i + 1) = 120#8 ∨ byteAt p (i + 1) = 88#8)) →
      (strtoulDigits p base (p.length + 1) i 0).2 ≠ i → strtoulC p i base = strtoulH p i base) :=
  ⟨ChibiVerif.Lemmas.PpInt.strtoulC_spec, ChibiVerif.Lemmas.PpInt.strtoulH_spec, ChibiVerif.Lemmas.PpInt.strtoulC_eq_strtoulH⟩

/-- non-vacuity of the contract's premises: `1f` followed by `u` in base 16 -/
example : strtoulC [0x31#8, 0x66#8, 0x75#8] 0 16 = (0x1f#64, 2) ∧ strtoulC [48#8, 120#8, 0x31#8] 0 16 = (1#64, 3) := by decide

/-- **C11 (integer-constant value).**  About `convert_pp_int` AS TRANSLATED from tokenize.c (Gen/PpNumGen.lean: prefix ladder,
    the `strtoul` call, suffix ladder, whole-token test, type ladder), for every `strtoul` that satisfies `StrtoulSpec`, and with
    the token standing inside its text as the C function is called (`tok->loc = p + pre.length`; the byte after the token is not
    alphanumeric, which the pp-number scan guarantees): for every spelling `prefix digits suffix` of an integer constant
    (hexadecimal `0x`/`0X`, binary `0b`/`0B`, octal with leading `0`, decimal with a non-zero first digit; any digit sequence; any
    of the 23 suffix spellings) whose value fits 64 bits, the function accepts the whole token, its value is the value of the
    digit sequence in that base and its type is the ladder's type for that base and suffix. -/
theorem C11_int_value (f : List Byte → Nat → Nat → BitVec 64 × Nat) (hf : StrtoulSpec f) (pre post : List Byte)
    (hpost : isAlnum (byteAt post 0) = false) (base : Nat) (front ds : List Byte) (h : IntSpelling base front ds)
    (e : String × Suffix) (he : e ∈ suffixSpellings)
    (hv : digitsValue base (ds.map (fun d => hexDigitValue d.toNat)) < 2 ^ 64) :
    ChibiVerif.Gen.PpNum.convertPpInt f (pre ++ (front ++ ds ++ sfxBytes e.1) ++ post) pre.length
        (front ++ ds ++ sfxBytes e.1).length =
      some (BitVec.ofNat 64 (digitsValue base (ds.map (fun d => hexDigitValue d.toNat))),
            intLitType base e.2.hasL e.2.hasU (BitVec.ofNat 64 (digitsValue base (ds.map (fun d => hexDigitValue d.toNat))))) :=
  ChibiVerif.Lemmas.PpInt.int_value_gen f hf pre post hpost base front ds h e he hv

/-- non-vacuity: `0x7fUL` inside `x = 0x7fUL;`, read by the translated function with the libc model -/
example : StrtoulSpec strtoulC ∧ isAlnum (byteAt [0x3B#8] 0) = false ∧
    IntSpelling 16 [48#8, 120#8] [0x37#8, 0x66#8] ∧ ("UL", Suffix.ul) ∈ suffixSpellings ∧
    digitsValue 16 ([0x37#8, 0x66#8].map (fun d => hexDigitValue d.toNat)) = 0x7f ∧
    ChibiVerif.Gen.PpNum.convertPpInt strtoulC
      ([0x78#8, 0x20#8, 0x3D#8, 0x20#8] ++ ([48#8, 120#8] ++ [0x37#8, 0x66#8] ++ sfxBytes "UL") ++ [0x3B#8]) 4 6 =
      some (0x7f#64, .ty_ulong) :=
  ⟨ChibiVerif.Lemmas.PpInt.strtoulC_spec, by decide, .hex _ _ _ (Or.inl rfl) (by decide), by decide, by decide, by decide⟩

/-- **C11 (integer constants, spelling to value and type).**  Corollary of `C11_int_value` and `C11_int_type`, again about the
    translated `convert_pp_int` in its context: whenever C11 6.4.4.1p5 gives the constant a type, the token gets the value of
    its digits and (the chibicc representation of) that type. -/
theorem C11_int_literal (f : List Byte → Nat → Nat → BitVec 64 × Nat) (hf : StrtoulSpec f) (pre post : List Byte)
    (hpost : isAlnum (byteAt post 0) = false) (base : Nat) (front ds : List Byte) (h : IntSpelling base front ds)
    (e : String × Suffix) (he : e ∈ suffixSpellings)
    (hv : digitsValue base (ds.map (fun d => hexDigitValue d.toNat)) < 2 ^ 64) (t : IntType)
    (ht : litType (base == 10) e.2 (digitsValue base (ds.map (fun d => hexDigitValue d.toNat))) = some t) :
    ChibiVerif.Gen.PpNum.convertPpInt f (pre ++ (front ++ ds ++ sfxBytes e.1) ++ post) pre.length
        (front ++ ds ++ sfxBytes e.1).length =
      some (BitVec.ofNat 64 (digitsValue base (ds.map (fun d => hexDigitValue d.toNat))), collapse t) := by
  have hb : base = 2 ∨ base = 8 ∨ base = 10 ∨ base = 16 := by cases h <;> simp
  have hn : (BitVec.ofNat 64 (digitsValue base (ds.map (fun d => hexDigitValue d.toNat)))).toNat =
      digitsValue base (ds.map (fun d => hexDigitValue d.toNat)) := by
    simp only [BitVec.toNat_ofNat]; exact Nat.mod_eq_of_lt hv
  rw [C11_int_value f hf pre post hpost base front ds h e he hv, C11_int_type base hb e.2 _ t (by rw [hn]; exact ht)]

/-- non-vacuity: `4294967296u` is `unsigned long` -/
example : IntSpelling 10 [] [0x34#8, 0x32#8, 0x39#8, 0x34#8, 0x39#8, 0x36#8, 0x37#8, 0x32#8, 0x39#8, 0x36#8] ∧
    litType (10 == 10) .u 4294967296 = some .ulong :=
  ⟨.dec _ _ (by decide) (by decide), by decide⟩

/-- **C11 (the hand model of `convert_pp_int` is the translated function).**  `detectBase` and `matchSuffix` of
    Model/Literals.lean (interpreters of the ladder *tables*) are, on every text and position, the two if-ladders translated
    statement by statement, and `convertPpInt` on a token given as its own text is the translated `convert_pp_int` with the digit
    loop as `strtoul`.  Hence the statement of `C11_int_value` also holds of the hand model (second part), which is what
    `lexLiteral` — the function the `C11_text_*` theorems are about — calls. -/
theorem C11_translated_int :
    (∀ tok : List Byte, ChibiVerif.Literals.convertPpInt tok = ChibiVerif.Gen.PpNum.convertPpInt strtoulH tok 0 tok.length) ∧
    (∀ p : List Byte, detectBase p = ((ChibiVerif.Gen.PpNum.convertPpInt_sel1 p 0).2, (ChibiVerif.Gen.PpNum.convertPpInt_sel1 p 0).1)) ∧
    (∀ (p : List Byte) (i : Nat),
      ChibiVerif.Gen.PpNum.convertPpInt_sel2 p i = (i + (matchSuffix p i).1, (matchSuffix p i).2)) ∧
    (∀ (base : Nat) (front ds : List Byte), IntSpelling base front ds → ∀ e ∈ suffixSpellings,
      digitsValue base (ds.map (fun d => hexDigitValue d.toNat)) < 2 ^ 64 →
      ChibiVerif.Literals.convertPpInt (front ++ ds ++ sfxBytes e.1) =
        some (BitVec.ofNat 64 (digitsValue base (ds.map (fun d => hexDigitValue d.toNat))),
              intLitType base e.2.hasL e.2.hasU (BitVec.ofNat 64 (digitsValue base (ds.map (fun d => hexDigitValue d.toNat)))))) := by
  refine ⟨ChibiVerif.Lemmas.PpInt.translated_int, ChibiVerif.Lemmas.PpInt.detectBase_eq, ChibiVerif.Lemmas.PpInt.matchSuffix_eq, ?_⟩
  intro base front ds h e he hv
  rw [ChibiVerif.Lemmas.PpInt.translated_int]
  have := C11_int_value strtoulH ChibiVerif.Lemmas.PpInt.strtoulH_spec [] [] (by decide) base front ds h e he hv
  simpa using this

/-- the types the ladder can produce have the size and signedness of the C11 type (LP64) -/
theorem C11_int_type_repr :
    ∀ t ∈ [IntType.int, .uint, .long, .ulong, .llong, .ullong],
      (collapse t).size * 8 = t.bits ∧ (collapse t).isUnsigned = !t.isSigned := by
  decide

-- ------------------------------------------------------------------ floating constants (6.4.4.2p4)

/-- **C11 (floating-constant type).**  No suffix: `double`; `f F`: `float`; `l L`: `long double`;
    and the table of `convert_pp_number` has no other entry. -/
theorem C11_float_type :
    (∀ c ∈ ['f', 'F', 'l', 'L'], (floatSuffixTable.lookup c.toNat).map some = some ((floatSuffixType (some c)).map floatTy)) ∧
    some floatDefaultTy = (floatSuffixType none).map floatTy ∧
    (∀ e ∈ floatSuffixTable, e.1 ∈ ['f', 'F', 'l', 'L'].map Char.toNat) := by
  decide

-- ------------------------------------------------------------------ UTF-8 (RFC 3629)

/-- **C11 (UTF-8 encoder).**  `encode_utf8` writes exactly the RFC 3629 byte sequence, for every
    value below 2^21 (in particular for every code point up to U+10FFFF). -/
theorem C11_utf8_layout (c : BitVec 32) (hc : c.toNat < 0x200000) :
    (encodeUtf8 c).map BitVec.toNat = utf8 c.toNat :=
  encode_toNat c hc

/-- the RFC 3629 sequence has the stated length, a lead byte of the pattern for that length and
    continuation bytes `10xxxxxx` (a statement about the specification; with `C11_utf8_layout` it
    transfers to `encode_utf8`) -/
theorem C11_utf8_patterns (n : Nat) (hn : n < 0x110000) :
    (utf8 n).length = utf8Len n ∧ (∀ b ∈ (utf8 n).head?, isLead (utf8Len n) b = true) ∧
    (∀ b ∈ (utf8 n).tail, isCont b = true) := by
  unfold utf8 utf8Len
  by_cases h1 : n < 0x80
  · simp [h1, isLead]
  · by_cases h2 : n < 0x800
    · simp only [h1, h2, if_true, if_false]
      simp [isLead, isCont]; omega
    · by_cases h3 : n < 0x10000
      · simp only [h1, h2, h3, if_true, if_false]
        simp [isLead, isCont]; omega
      · simp only [h1, h2, h3, if_false]
        simp [isLead, isCont]; omega

/-- **C11 (UTF-8 round trip).**  For every value below 2^21 and every following text,
    `decode_utf8` applied to the bytes written by `encode_utf8` returns that value and advances
    by exactly the number of bytes written. -/
theorem C11_utf8_roundtrip (c : BitVec 32) (hc : c.toNat < 0x200000) (rest : List (BitVec 8)) :
    decodeUtf8 (encodeUtf8 c ++ rest) = .ok (c, (encodeUtf8 c).length) :=
  roundtrip c hc rest

example : (0x10FFFF#32).toNat < 0x200000 := by decide

/-- **C11 (UTF-8 decoder, bit layout).**  A lead byte `110xxxxx`/`1110xxxx`/`11110xxx` followed by
    the right number of continuation bytes `10xxxxxx` decodes to the concatenation of the `x` bits. -/
theorem C11_utf8_decode (b0 b1 b2 b3 : BitVec 8) (rest : List (BitVec 8))
    (h1 : isCont b1.toNat = true) (h2 : isCont b2.toNat = true) (h3 : isCont b3.toNat = true) :
    (isLead 1 b0.toNat = true → decodeUtf8 (b0 :: rest) = .ok (BitVec.ofNat 32 b0.toNat, 1)) ∧
    (isLead 2 b0.toNat = true → decodeUtf8 (b0 :: b1 :: rest) = .ok (BitVec.ofNat 32 (b0.toNat % 32 * 64 + b1.toNat % 64), 2)) ∧
    (isLead 3 b0.toNat = true → decodeUtf8 (b0 :: b1 :: b2 :: rest) =
        .ok (BitVec.ofNat 32 (b0.toNat % 16 * 4096 + b1.toNat % 64 * 64 + b2.toNat % 64), 3)) ∧
    (isLead 4 b0.toNat = true → decodeUtf8 (b0 :: b1 :: b2 :: b3 :: rest) =
        .ok (BitVec.ofNat 32 (b0.toNat % 8 * 262144 + b1.toNat % 64 * 4096 + b2.toNat % 64 * 64 + b3.toNat % 64), 4)) := by
  simp only [isCont, isLead, Bool.and_eq_true, decide_eq_true_eq] at *
  refine ⟨fun h => decode1 _ _ h, fun h => decode2 _ _ _ (by omega) (by omega),
    fun h => decode3 _ _ _ _ (by omega) (by omega) (by omega),
    fun h => decode4 _ _ _ _ _ (by omega) (by omega) (by omega) (by omega)⟩

example : isCont (0xA9#8).toNat = true ∧ isLead 2 (0xC3#8).toNat = true := by decide

/-- **C11 (UTF-8 decoder, rejection).**  A continuation byte in lead position is rejected, and so
    is a multi-byte lead whose next byte is not a continuation byte (this includes a lead byte at
    the end of the text: the next byte is then the terminator). -/
theorem C11_utf8_rejects (b0 : BitVec 8) (rest : List (BitVec 8)) :
    (isCont b0.toNat = true → decodeUtf8 (b0 :: rest) = .error .invalidUtf8) ∧
    (0xC0 ≤ b0.toNat → isCont (byteAt rest 0).toNat = false → decodeUtf8 (b0 :: rest) = .error .invalidUtf8) := by
  constructor
  · intro h
    simp only [isCont, Bool.and_eq_true, decide_eq_true_eq] at h
    unfold decodeUtf8
    have hna : ¬ (b0.toNat < 128) := by omega
    have g1 : ¬ (b0.toNat ≥ 0xF0) := by omega
    have g2 : ¬ (b0.toNat ≥ 0xE0) := by omega
    have g3 : ¬ (b0.toNat ≥ 0xC0) := by omega
    simp only [byteAt_zero, ascii_test, hna, if_false, decodeLead_eq, leadSpec, g1, g2, g3]
  · intro h0 h
    have hc : ¬ ((byteAt rest 0).toNat / 64 = 2) := by
      simp only [isCont, Bool.and_eq_false_iff, decide_eq_false_iff_not] at h; omega
    unfold decodeUtf8
    have hna : ¬ (b0.toNat < 128) := by omega
    simp only [byteAt_zero, ascii_test, hna, if_false, decodeLead_eq, leadSpec]
    by_cases g1 : b0.toNat ≥ 0xF0
    · simp only [g1, if_true, Nat.reduceSub]
      rw [decodeCont_succ]; simp only [byteAt_succ, hc, if_false, Except.map]
    · by_cases g2 : b0.toNat ≥ 0xE0
      · simp only [g1, g2, if_true, if_false, Nat.reduceSub]
        rw [decodeCont_succ]; simp only [byteAt_succ, hc, if_false, Except.map]
      · have g3 : b0.toNat ≥ 0xC0 := h0
        simp only [g1, g2, g3, if_true, if_false, Nat.reduceSub]
        rw [decodeCont_succ]; simp only [byteAt_succ, hc, if_false, Except.map]

example : isCont (0x80#8).toNat = true ∧ isCont (byteAt ([] : List (BitVec 8)) 0).toNat = false := by decide

-- ------------------------------------------------------------------ identifiers (6.4.2.1, Annex D)

/-- **C11 (identifier characters).**  For every code point (every natural number): `is_ident1`
    accepts exactly the characters that may start an identifier (`_ a-z A-Z $`, Annex D.1 minus
    D.2) and `is_ident2` exactly those that may continue one (those, digits, D.2). -/
theorem C11_ident_ranges (c : Nat) : isIdent1 c = identStart c ∧ isIdent2 c = identContinue c :=
  ident_ranges c

-- ------------------------------------------------------------------ UTF-16 (RFC 2781)

/-- **C11 (UTF-16 units).**  For every code point up to U+10FFFF the units stored by
    `read_utf16_string_literal` are those of RFC 2781: one unit equal to the code point below
    U+10000; otherwise a high surrogate in [D800, DBFF] followed by a low surrogate in
    [DC00, DFFF] that recombine to the code point. -/
theorem C11_utf16 (c : BitVec 32) (hc : c.toNat < 0x110000) :
    (utf16Units c).map BitVec.toNat = utf16 c.toNat ∧
    (c.toNat < 0x10000 → utf16 c.toNat = [c.toNat]) ∧
    (0x10000 ≤ c.toNat → ∃ hi lo, utf16 c.toNat = [hi, lo] ∧ isHighSurrogate hi = true ∧ isLowSurrogate lo = true ∧
        utf16Decode [hi, lo] = some c.toNat) := by
  refine ⟨utf16_toNat c hc, ?_, ?_⟩
  · intro h; simp [utf16, h]
  · intro h
    have hn : ¬ c.toNat < 0x10000 := by omega
    refine ⟨0xD800 + (c.toNat - 0x10000) / 0x400, 0xDC00 + (c.toNat - 0x10000) % 0x400, ?_, ?_, ?_, ?_⟩
    · simp [utf16, hn]
    · simp [isHighSurrogate]; omega
    · simp [isLowSurrogate]; omega
    · have a1 : 0xD800 ≤ 0xD800 + (c.toNat - 0x10000) / 0x400 ∧ 0xD800 + (c.toNat - 0x10000) / 0x400 ≤ 0xDBFF := by omega
      have a2 : 0xDC00 ≤ 0xDC00 + (c.toNat - 0x10000) % 0x400 ∧ 0xDC00 + (c.toNat - 0x10000) % 0x400 ≤ 0xDFFF := by omega
      simp only [utf16Decode, isHighSurrogate, isLowSurrogate, a1, a2, decide_true, Bool.and_self, if_true, Option.some.injEq]
      omega

example : (0x1F600#32).toNat < 0x110000 ∧ 0x10000 ≤ (0x1F600#32).toNat := by decide

-- ------------------------------------------------------------------ escape sequences (6.4.4.4)

/-- **C11 (simple escapes).**  Every simple escape of 6.4.4.4 gets its C11 value from
    `read_escaped_char` (table entry or the default arm), and every table entry is a C11 escape
    or the GNU extension `\e` = 27. -/
theorem C11_escape :
    (∀ e ∈ Spec.Literals.simpleEscapes, escapeValue (BitVec.ofNat 8 e.1.toNat) = BitVec.ofNat 32 e.2) ∧
    (∀ e ∈ Gen.Literals.simpleEscapes, e = (101, 27) ∨ (Char.ofNat e.1, e.2) ∈ Spec.Literals.simpleEscapes) := by
  decide

/-- **C11 (octal escapes).**  One to three octal digits are consumed, and the value is that of
    the digit sequence (the byte after them is not an octal digit, or three were read). -/
theorem C11_escape_octal :
    ∀ d0 < 8, ∀ d1 < 9, ∀ d2 < 9,
      readEscapedChar [BitVec.ofNat 8 (48 + d0), BitVec.ofNat 8 (48 + d1), BitVec.ofNat 8 (48 + d2), 0x37#8] =
        .ok (if d1 = 8 then (BitVec.ofNat 32 (octalEscape [d0]), 1)
             else if d2 = 8 then (BitVec.ofNat 32 (octalEscape [d0, d1]), 2)
             else (BitVec.ofNat 32 (octalEscape [d0, d1, d2]), 3)) := by
  decide +kernel

-- ------------------------------------------------------------------ prefixes (6.4.4.4p11, 6.4.5p6)

/-- **C11 (element types).**  The element type chosen by tokenize() for each string prefix has the
    size of `char`/`char16_t`/`char32_t`/`wchar_t`; `u`/`U` are unsigned, plain/`u8`/`L` have the
    signedness of `char`/`wchar_t` (signed on x86-64); character constants: plain `int`,
    `u` `char16_t`, `U` `char32_t`, `L` `wchar_t`. -/
theorem C11_prefix_types :
    stringPrefixes.map (fun e => (e.1, e.2.2.size, e.2.2.isUnsigned)) =
      [([], StrPrefix.none.elemSize, false), ([117, 56], StrPrefix.u8.elemSize, false), ([117], StrPrefix.u.elemSize, true),
       ([76], StrPrefix.L.elemSize, false), ([85], StrPrefix.U.elemSize, true)] ∧
    charPrefixes.map (fun e => (e.1, e.2.1.size, e.2.1.isUnsigned)) =
      [([], 4, false), ([117], 2, true), ([76], 4, false), ([85], 4, true)] := by
  decide

/-- **C11 (hexadecimal escapes).**  `\x` followed by hexadecimal digits and then by a byte that is not a
    hexadecimal digit: every digit is consumed (6.4.4.4p7: "as many hexadecimal digits as follow") and the value is that
    of the digit sequence (in `int`, i.e. modulo 2^32). -/
theorem C11_escape_hex (x : Byte) (xs rest : List Byte) (hx : ∀ y ∈ x :: xs, isXDigit y = true)
    (hend : isXDigit (byteAt rest 0) = false) :
    readEscapedChar (120#8 :: x :: (xs ++ rest)) =
      .ok (BitVec.ofNat 32 (hexEscape ((x :: xs).map (fun d => hexDigitValue d.toNat))), 2 + xs.length) :=
  readEscapedChar_hex x xs rest hx hend

example : (∀ y ∈ [0x34#8, 0x31#8], isXDigit y = true) ∧ isXDigit (byteAt [0x22#8] 0) = false := by decide

-- ------------------------------------------------------------------ character constants (6.4.4.4p10-11)

/-- **C11 (character constants).**  A constant whose body is one source character (any code point up to U+10FFFF other
    than NUL and the backslash, written in UTF-8) yields that code point and ends at the closing quote.  The value stored
    for each prefix (`charPrefixes`, whose post-processing column is pinned by the last conjunct: plain `(char)` cast, `u` `& 0xffff`,
    `L` unchanged, `U` `(uint32_t)` i.e. modulo 2^32) is: the `char` value
    converted to `int` for a one-byte value (6.4.4.4p10: `'\377'` is -1 where `char` is signed), the value itself for a
    `char16_t` value, the `int` itself for `L` (type `int`: `wchar_t`, signed), and for `U` the 32-bit value ZERO-extended
    (type `unsigned int`: `char32_t`; `U'\xFFFFFFFF'` is 4294967295, also in `#if`, not -1). -/
theorem C11_char_const (pre post : List Byte) (c : BitVec 32) (hc : c.toNat < 0x110000) (h0 : c.toNat ≠ 0)
    (h92 : c.toNat ≠ 92) :
    readCharLiteral (pre ++ 39#8 :: (encodeUtf8 c ++ 39#8 :: post)) pre.length = .ok (c, pre.length + 1 + utf8Len c.toNat) ∧
    (∀ n, n < 256 → charPost .castChar (BitVec.ofNat 32 n) = BitVec.ofInt 64 (if n < 128 then (n : Int) else (n : Int) - 256)) ∧
    (∀ v : BitVec 32, v.toNat < 0x10000 → (charPost (.mask 0xFFFF) v).toNat = v.toNat) ∧
    (∀ v : BitVec 32, (charPost .none v).toInt = v.toInt) ∧
    (∀ v : BitVec 32, (charPost (.mask 0xFFFFFFFF) v).toNat = v.toNat) ∧
    charPrefixes.map (fun e => (e.1, e.2.2)) = [([], .castChar), ([117], .mask 0xFFFF), ([76], .none), ([85], .mask 0xFFFFFFFF)] :=
  ⟨readCharLiteral_char pre post c hc h0 h92, charPost_values.1, charPost_values.2.1, charPost_values.2.2, charPost_mask32, by decide⟩

example : (0x1F600#32).toNat < 0x110000 ∧ (0x1F600#32).toNat ≠ 0 ∧ (0x1F600#32).toNat ≠ 92 := by decide

-- ------------------------------------------------------------------ string literals: one source character (6.4.5p6)

/-- **C11 (source characters in string literals).**  For every code point up to U+10FFFF other than the backslash,
    written in the source as its UTF-8 sequence inside the literal (so before the closing quote at `endp`): the
    `"…"`/`u8"…"` reader appends its UTF-8 bytes, the `u"…"` reader its UTF-16 code units, the `U"…"`/`L"…"` reader
    the code point, and each advances by exactly the bytes of the character. -/
theorem C11_string_char (p : List Byte) (endp fuel i : Nat) (acc : List Nat) (c : BitVec 32) (rest : List Byte)
    (hc : c.toNat < 0x110000) (hne : c.toNat ≠ 92) (hi : i + utf8Len c.toNat ≤ endp) (hd : p.drop i = encodeUtf8 c ++ rest) :
    narrowLoop p endp (fuel + utf8Len c.toNat) i acc =
        narrowLoop p endp fuel (i + utf8Len c.toNat) ((encodeChar .none c.toNat).reverse ++ acc) ∧
    utf16Loop p endp (fuel + 1) i acc =
        utf16Loop p endp fuel (i + utf8Len c.toNat) ((encodeChar .u c.toNat).reverse ++ acc) ∧
    utf32Loop p endp (fuel + 1) i acc =
        utf32Loop p endp fuel (i + utf8Len c.toNat) ((encodeChar .U c.toNat).reverse ++ acc) := by
  have hpos : 0 < utf8Len c.toNat := by unfold utf8Len; split <;> (try split) <;> (try split) <;> omega
  exact ⟨narrowLoop_char p endp fuel i acc c rest hc hne hi hd,
    utf16Loop_char p endp fuel i acc c rest hc hne (by omega) hd,
    utf32Loop_char p endp fuel i acc c rest hc hne (by omega) hd⟩

example : (0x20AC#32).toNat < 0x110000 ∧ (0x20AC#32).toNat ≠ 92 ∧
    ([0x22#8, 0xE2#8, 0x82#8, 0xAC#8, 0x22#8] : List Byte).drop 1 = encodeUtf8 0x20AC#32 ++ [0x22#8] := by decide

-- ------------------------------------------------------------------ string literals: the whole literal (6.4.5p6)

/-- **C11 (string literals).**  For every reader (`"…"`/`u8"…"`, `u"…"`, `U"…"`/`L"…"`), every text before the opening
    quote and after the closing quote, and every body made of source characters (any code point up to U+10FFFF other than
    NUL, new-line, `"` and `\`, written in UTF-8) and escape sequences that `read_escaped_char` reads back completely in
    their context (`ItemsOK`; C11_escape, C11_escape_octal, C11_escape_hex give the instances): the token ends at the
    closing quote, its array length is the number of code units plus one, and its code units are, item by item, the
    UTF-8 bytes / UTF-16 units / code point of each character (Spec `encodeChar`) and the escape value truncated to the
    element width. -/
theorem C11_strings (r : StrReader) (ty : Ty) (pre post : List Byte) (its : List SrcItem) (hok : ItemsOK post its) :
    readString r ty (pre ++ 34#8 :: (renderItems its ++ 34#8 :: post)) pre.length =
      .ok ⟨ty, its.flatMap (itemUnits r), pre.length + 1 + (renderItems its).length + 1,
           (pre ++ 34#8 :: (renderItems its ++ 34#8 :: post)).take (pre.length + 1 + (renderItems its).length + 1)⟩ ∧
    (∀ c : BitVec 32, CharOK c →
      itemUnits .narrow (.char c) = encodeChar .none c.toNat ∧ itemUnits .utf16 (.char c) = encodeChar .u c.toNat ∧
      itemUnits .utf32 (.char c) = encodeChar .U c.toNat) := by
  refine ⟨readString_items r ty pre post its hok, fun c hc => ?_⟩
  have h := hc.1
  exact ⟨by simp [itemUnits, encodeChar, encode_toNat c (by omega)], by simp [itemUnits, encodeChar, utf16_toNat c h],
    by simp [itemUnits, encodeChar]⟩

/-- non-vacuity: the body `a\n€` followed by `" x` -/
example : ItemsOK [0x20#8, 0x78#8] [.char 0x61#32, .esc [0x6E#8] 10#32, .char 0x20AC#32] := by
  refine ⟨by unfold CharOK; decide, ⟨0x6E#8, [], rfl, by decide, by decide, by simp⟩, by decide, ?_, trivial⟩
  unfold CharOK; decide

-- ------------------------------------------------------------------ adjacent string literals (6.4.5p5)

/-- the computable `joinPrefix` has the declarative meaning of 6.4.5p5: the sequence has prefix `P` iff every token is
    unprefixed or has prefix `P`, and `P` occurs unless it is "no prefix" -/
theorem C11_join_prefix_spec (ps : List StrPrefix) (P : StrPrefix) :
    joinPrefix ps = some P ↔ ((∀ p ∈ ps, p = .none ∨ p = P) ∧ (P = .none ∨ P ∈ ps)) :=
  joinPrefix_spec ps P

/-- **C11 (adjacent literals, two different prefixes).**  Diagnosed ("unsupported non-standard concatenation"):
    6.4.5p2 makes u8 + wide a constraint violation, two different wide prefixes are implementation-defined. -/
theorem C11_strings_join_diagnosed (t1 t2 : StrTok) (rest : List StrTok) (ps : List StrPrefix)
    (h : AllPairs TokHasPrefix (t1 :: t2 :: rest) ps) (hj : joinPrefix ps = none) :
    joinStrings (t1 :: t2 :: rest) = .error .nonStandardConcat :=
  join_diagnosed t1 t2 rest ps h hj

/-- **C11 (adjacent literals, compatible prefixes).**  The result has the element size of the sequence's prefix; its code
    units are the concatenation of the tokens' code units, where a narrow token next to a wide one is re-read from its
    source text with the wide reader; there is one terminator: `array_len = Σ (array_lenᵢ − 1) + 1`. -/
theorem C11_strings_join (t1 t2 : StrTok) (rest : List StrTok) (ps : List StrPrefix) (P : StrPrefix) (r : StrTok)
    (h : AllPairs TokHasPrefix (t1 :: t2 :: rest) ps) (hj : joinPrefix ps = some P)
    (hr : joinStrings (t1 :: t2 :: rest) = .ok r) :
    r.elem.size = P.elemSize ∧
    ∃ toks, AllPairs (fun t t' => t' = t ∨ (t.elem.size = 1 ∧ ∃ ty, ty.size = P.elemSize ∧ 1 < ty.size ∧ retokenize t ty = .ok t'))
        (t1 :: t2 :: rest) toks ∧
      r.units = (toks.map (·.units)).flatten ∧
      r.units.length + 1 = (toks.map (fun t => (t.units.length + 1) - 1)).sum + 1 :=
  join_result t1 t2 rest ps P r h hj hr

/-- non-vacuity: `"a" u"b"` as the tokenizer reads them; the narrow token is re-read as UTF-16 -/
example : AllPairs TokHasPrefix
      [⟨.ty_char, [97], 3, [0x22#8, 0x61#8, 0x22#8]⟩, ⟨.ty_ushort, [98], 4, [0x75#8, 0x22#8, 0x62#8, 0x22#8]⟩] [.none, .u] ∧
    joinPrefix [.none, .u] = some .u ∧
    joinStrings [⟨.ty_char, [97], 3, [0x22#8, 0x61#8, 0x22#8]⟩, ⟨.ty_ushort, [98], 4, [0x75#8, 0x22#8, 0x62#8, 0x22#8]⟩] =
      .ok ⟨.ty_ushort, [97, 98], 3, [0x22#8, 0x61#8, 0x22#8]⟩ := by
  refine ⟨.cons (by unfold TokHasPrefix; decide) (.cons (by unfold TokHasPrefix; decide) .nil), by decide, by decide⟩

-- ------------------------------------------------------------------ source text: BOM, line ends, splices, UCNs (5.1.1.2)

/-- **C11 (BOM).**  A UTF-8 byte-order mark at the start of the file is skipped and nothing else is. -/
theorem C11_text_bom (t : List Byte) :
    skipBOM (0xEF#8 :: 0xBB#8 :: 0xBF#8 :: t) = t ∧
    (¬ (∃ r, t = 0xEF#8 :: 0xBB#8 :: 0xBF#8 :: r) → skipBOM t = t) := by
  refine ⟨by simp [skipBOM], ?_⟩
  intro h
  match t with
  | [] | [_] | [_, _] => rfl
  | a :: b :: c :: r =>
    simp only [skipBOM]
    split
    · rename_i hc; exact absurd ⟨r, by rw [hc.1, hc.2.1, hc.2.2]⟩ h
    · rfl

/-- **C11 (line ends).**  After `canonicalize_newline` the LF-terminated lines are exactly the source lines when
    CR LF, a lone CR and LF all end a line; no CR remains; a text without CR is unchanged. -/
theorem C11_text_newlines (t : List Byte) :
    splitOn LF (canonicalizeNewline t) = splitLines CR LF t ∧ CR ∉ canonicalizeNewline t ∧
    (CR ∉ t → canonicalizeNewline t = t) :=
  ⟨canon_lines t, canon_no_cr t, canon_id t⟩

/-- **C11 (line splicing).**  After `remove_backslash_newline` the logical lines (first line exactly, later lines up to
    blank lines) are those of the text with every backslash-newline deleted; the number of newlines is unchanged (the
    deleted ones are re-inserted after the end of the logical line); a text without a splice is unchanged. -/
theorem C11_text_splice (t : List Byte) :
    logicalLines (splitOn LF (removeBackslashNewline t)) = logicalLines (splitOn LF (unsplice BSL LF t)) ∧
    (removeBackslashNewline t).count LF = t.count LF ∧
    (unsplice BSL LF t = t → removeBackslashNewline t = t) :=
  ⟨splice_lines t 0, by have := splice_count t 0; simpa [removeBackslashNewline] using this, splice_id t⟩

/-- **C11 (universal character names).**  `\uXXXX` / `\UXXXXXXXX` (after text without a backslash; value neither 0 nor the new-line character, which the code leaves
    alone and C11 6.4.3 disallows anyway) is replaced by the `encode_utf8` bytes of the value of its digits — by `C11_utf8_layout` the RFC 3629 sequence, i.e. exactly the bytes
    of the same character written directly — and the rest of the text is processed as if it stood alone. -/
theorem C11_text_ucn (pre post : List Byte) (d0 d1 d2 d3 d4 d5 d6 d7 : Byte) (hpre : BSL ∉ pre)
    (h0 : isXDigit d0 = true) (h1 : isXDigit d1 = true) (h2 : isXDigit d2 = true) (h3 : isXDigit d3 = true)
    (h4 : isXDigit d4 = true) (h5 : isXDigit d5 = true) (h6 : isXDigit d6 = true) (h7 : isXDigit d7 = true) :
    (digitsValue 16 [hexVal d0, hexVal d1, hexVal d2, hexVal d3] ≠ 0 →
     digitsValue 16 [hexVal d0, hexVal d1, hexVal d2, hexVal d3] ≠ 10 →
      convertUniversalChars (pre ++ BSL :: 117#8 :: d0 :: d1 :: d2 :: d3 :: post) =
        pre ++ encodeUtf8 (BitVec.ofNat 32 (digitsValue 16 [hexVal d0, hexVal d1, hexVal d2, hexVal d3])) ++
          convertUniversalChars post) ∧
    (digitsValue 16 [hexVal d0, hexVal d1, hexVal d2, hexVal d3, hexVal d4, hexVal d5, hexVal d6, hexVal d7] ≠ 0 →
     digitsValue 16 [hexVal d0, hexVal d1, hexVal d2, hexVal d3, hexVal d4, hexVal d5, hexVal d6, hexVal d7] ≠ 10 →
      convertUniversalChars (pre ++ BSL :: 85#8 :: d0 :: d1 :: d2 :: d3 :: d4 :: d5 :: d6 :: d7 :: post) =
        pre ++ encodeUtf8 (BitVec.ofNat 32
            (digitsValue 16 [hexVal d0, hexVal d1, hexVal d2, hexVal d3, hexVal d4, hexVal d5, hexVal d6, hexVal d7])) ++
          convertUniversalChars post) :=
  ⟨cuc_ucn4 pre post d0 d1 d2 d3 hpre h0 h1 h2 h3, cuc_ucn8 pre post d0 d1 d2 d3 d4 d5 d6 d7 hpre h0 h1 h2 h3 h4 h5 h6 h7⟩

/-- non-vacuity: `\u00e9` -/
example : isXDigit 0x30#8 = true ∧ isXDigit 0x65#8 = true ∧ isXDigit 0x39#8 = true ∧
    digitsValue 16 [hexVal 0x30#8, hexVal 0x30#8, hexVal 0x65#8, hexVal 0x39#8] = 0xE9 := by decide

-- ------------------------------------------------------------------ the reader functions as translated from tokenize.c

/-- **C11 (the hand-written reader functions are the translated ones).**  `from_hex`, `read_escaped_char`,
    `read_universal_char` and `string_literal_end` of the hand model (Model/Literals.lean, Model/Text.lean — the functions all
    reader theorems above are about) are equal, on every input, to the functions that tools/extract/literals.py + cursor.py
    translate from the text of tokenize.c on every check run (Gen/LitReadersGen.lean: C typing by cmini.Emitter, control flow
    by symbolic execution; the `error_at` sites are named after their messages).  A change of an operator, constant, bound or
    branch in one of these C functions changes the right-hand sides and breaks this theorem. -/
theorem C11_translated_readers :
    (∀ b : Byte, ChibiVerif.Literals.fromHex b = ChibiVerif.Gen.LitReaders.fromHex b) ∧
    (∀ p : List Byte, readEscapedChar p = (ChibiVerif.Gen.LitReaders.readEscapedChar p).mapError ofReadErr) ∧
    (∀ (p : List Byte) (len : Nat), readUniversalChar p len 0 = ChibiVerif.Gen.LitReaders.readUniversalChar p len) ∧
    (∀ (p : List Byte) (i : Nat), stringLiteralEnd p i = (ChibiVerif.Gen.LitReaders.stringLiteralEnd p i).mapError ofReadErr) :=
  ⟨fun b => (ChibiVerif.Lemmas.Translated.fromHex_eq b).symm, readEscapedChar_eq, readUniversalChar_eq, stringLiteralEnd_eq⟩

/-- **C11 (the literal readers are the translated ones).**  `read_string_literal`, `read_utf16_string_literal`,
    `read_utf32_string_literal` (hand model `readString` with the reader of the dispatch table; `readerT` selects the translated
    function, `mkTok` builds the model's token from the units and the end index it returns) and `read_char_literal` are equal, on
    every text and position, to the functions translated from tokenize.c — including which diagnostic is raised.  With
    `C11_translated_readers` every function that `C11_strings`, `C11_string_char`, `C11_char_const` and the escape theorems
    reason about is the C code as translated; what remains hand-written in the literal arms of tokenize() is the pp-number
    scan, the `convert_pp_int` driver around libc `strtoul`, and the prefix dispatch order (tables translated). -/
theorem C11_translated_literal_readers :
    (∀ (r : StrReader) (ty : Ty) (p : List Byte) (q : Nat),
      readString r ty p q = ((readerT r p q).mapError ofReadErr).map (mkTok ty p)) ∧
    (∀ (p : List Byte) (q : Nat),
      readCharLiteral p q = (ChibiVerif.Gen.LitReaders.readCharLiteral p q).mapError ofReadErr) :=
  ⟨readString_eq, readCharLiteral_eq⟩

/-- **C11 (escape sequences, on the translated `read_escaped_char`).**  The statements of `C11_escape`, `C11_escape_octal` and
    `C11_escape_hex` for the function generated from the C source: every simple escape of 6.4.4.4 followed by any text yields
    its C11 value and consumes one byte; one to three octal digits; `\x` with every following hexadecimal digit. -/
theorem C11_escape_translated :
    (∀ e ∈ Spec.Literals.simpleEscapes, ∀ rest : List Byte,
      ChibiVerif.Gen.LitReaders.readEscapedChar (BitVec.ofNat 8 e.1.toNat :: rest) = .ok (BitVec.ofNat 32 e.2, 1)) ∧
    (∀ d0 < 8, ∀ d1 < 9, ∀ d2 < 9,
      ChibiVerif.Gen.LitReaders.readEscapedChar
          [BitVec.ofNat 8 (48 + d0), BitVec.ofNat 8 (48 + d1), BitVec.ofNat 8 (48 + d2), 0x37#8] =
        .ok (if d1 = 8 then (BitVec.ofNat 32 (octalEscape [d0]), 1)
             else if d2 = 8 then (BitVec.ofNat 32 (octalEscape [d0, d1]), 2)
             else (BitVec.ofNat 32 (octalEscape [d0, d1, d2]), 3))) ∧
    (∀ (x : Byte) (xs rest : List Byte), (∀ y ∈ x :: xs, isXDigit y = true) → isXDigit (byteAt rest 0) = false →
      ChibiVerif.Gen.LitReaders.readEscapedChar (120#8 :: x :: (xs ++ rest)) =
        .ok (BitVec.ofNat 32 (hexEscape ((x :: xs).map (fun d => hexDigitValue d.toNat))), 2 + xs.length)) := by
  refine ⟨?_, by decide +kernel, ?_⟩
  · intro e he rest
    have key : ∀ e ∈ Spec.Literals.simpleEscapes,
        isOctDigit (BitVec.ofNat 8 e.1.toNat) = false ∧ (BitVec.ofNat 8 e.1.toNat : Byte) ≠ 120#8 ∧
        escapeValue (BitVec.ofNat 8 e.1.toNat) = BitVec.ofNat 32 e.2 := by decide
    obtain ⟨h1, h2, h3⟩ := key e he
    apply mapError_ok ofReadErr
    rw [← readEscapedChar_eq]
    simp [readEscapedChar, byteAt_zero, h1, h2, h3]
  · intro x xs rest hx hend
    apply mapError_ok ofReadErr
    rw [← readEscapedChar_eq]
    exact readEscapedChar_hex x xs rest hx hend

example : (∀ y ∈ [0x34#8, 0x31#8], isXDigit y = true) ∧ isXDigit (byteAt [0x22#8] 0) = false := by decide

/-- **C11 (the phase functions are the translated in-place loops).**  `canonicalize_newline`, `remove_backslash_newline` and
    `convert_universal_chars` rewrite the text inside its own array.  Their translation (Gen/LitReadersGen.lean) keeps that: the
    array is threaded through every store, reads see earlier stores, a store that does not land inside the text is `none`.  For
    every text without NUL (and, for `convert_universal_chars`, ending in a newline as `read_file` guarantees) each translated
    loop returns `some` of what the functional hand model of Model/Text.lean computes — so every `C11_text_*` theorem is about
    the code as translated, and no store of the three loops leaves the text (the write index never passes the read index).
    Last conjunct: the three loops in sequence, as `tokenize_file` calls them, give `phase12 s` for every file content. -/
theorem C11_translated_phases :
    (∀ t : List Byte, (0#8 : Byte) ∉ t → ChibiVerif.Gen.LitReaders.canonicalizeNewline t = some (canonicalizeNewline t)) ∧
    (∀ t : List Byte, (0#8 : Byte) ∉ t →
      ChibiVerif.Gen.LitReaders.removeBackslashNewline t = some (removeBackslashNewline t)) ∧
    (∀ t : List Byte, (0#8 : Byte) ∉ t → (t = [] ∨ t.getLast? = some LF) →
      ChibiVerif.Gen.LitReaders.convertUniversalChars t = some (convertUniversalChars t)) ∧
    (∀ s : List Byte, (0#8 : Byte) ∉ s →
      (ChibiVerif.Gen.LitReaders.canonicalizeNewline (skipBOM (ensureFinalNewline s)) >>=
        ChibiVerif.Gen.LitReaders.removeBackslashNewline >>=
        ChibiVerif.Gen.LitReaders.convertUniversalChars) = some (phase12 s)) :=
  ⟨canonicalizeNewline_eq, removeBackslashNewline_eq, convertUniversalChars_eq, translated_pipeline⟩

/-- non-vacuity: `"é"` CR LF `x\` LF `y` -/
example : (0#8 : Byte) ∉ ([0x22#8, 92#8, 0x75#8, 0x30#8, 0x30#8, 0x65#8, 0x39#8, 0x22#8, 13#8, 10#8, 0x78#8, 92#8, 10#8, 0x79#8] : List Byte) ∧
    (ChibiVerif.Gen.LitReaders.canonicalizeNewline (skipBOM (ensureFinalNewline
        [0x22#8, 92#8, 0x75#8, 0x30#8, 0x30#8, 0x65#8, 0x39#8, 0x22#8, 13#8, 10#8, 0x78#8, 92#8, 10#8, 0x79#8])) >>=
      ChibiVerif.Gen.LitReaders.removeBackslashNewline >>= ChibiVerif.Gen.LitReaders.convertUniversalChars) =
      some [0x22#8, 0xC3#8, 0xA9#8, 0x22#8, 10#8, 0x78#8, 0x79#8, 10#8, 10#8] := by decide

-- ------------------------------------------------------------------ source text: composition with the tokenizer

/-- **C11 (what `tokenize()` sees depends only on the unspliced text).**  For every file content `s`: the lines of the text
    handed to `tokenize()` are — the first line exactly, the later ones up to blank lines — the logical lines of the phase-1
    text (final newline, BOM skipped, CR/CRLF canonicalised) *with every backslash-newline deleted* (`unsplice`, the wording of
    5.1.1.2p1(2)), each with its universal character names converted; the blank lines are the bookkeeping of
    `remove_backslash_newline`, which re-inserts every deleted newline after the end of the logical line so that the number of
    newlines (hence every later line number) is unchanged.  In particular two files with the same unspliced phase-1 text give
    `tokenize()` the same logical lines, however many splices either contains. -/
theorem C11_text_lines (s : List Byte) :
    logicalLines (splitOn LF (phase12 s)) =
      (logicalLines (splitOn LF (unsplice BSL LF (phase1 s)))).map convertUniversalChars ∧
    firstLine (phase12 s) = convertUniversalChars (firstLine (unsplice BSL LF (phase1 s))) ∧
    (phase12 s).count LF = (phase1 s).count LF ∧
    (∀ s', unsplice BSL LF (phase1 s') = unsplice BSL LF (phase1 s) →
      logicalLines (splitOn LF (phase12 s')) = logicalLines (splitOn LF (phase12 s))) :=
  ⟨phase12_lines s, firstLine_phase12 s, phase12_count s, fun s' h => by rw [phase12_lines, phase12_lines, h]⟩

/-- **C11 (the literal token is read from the first line).**  If the text `tokenize()` sees starts with a literal that is
    complete on its first line (`LiteralOnFirstLine`: the line does not end in a backslash — `string_literal_end` steps over
    a newline after a backslash — and `read_char_literal`'s `strchr` finds the closing quote before the newline), the token
    is the one read from that line alone: no reader loop looks past the first newline. -/
theorem C11_text_first_line (y w : List Byte) (hy : y = firstLine y ++ LF :: w) (hline : LiteralOnFirstLine y) :
    lexLiteral y = lexLiteral (firstLine y ++ [LF]) := by
  conv => lhs; rw [hy]
  exact lexLiteral_line _ _ hline.1 hline.2

/-- non-vacuity: `"ab" x`, newline, `y` -/
example : ([0x22#8, 0x61#8, 0x62#8, 0x22#8, 0x20#8, 0x78#8, 10#8, 0x79#8] : List Byte) =
      firstLine [0x22#8, 0x61#8, 0x62#8, 0x22#8, 0x20#8, 0x78#8, 10#8, 0x79#8] ++ LF :: [0x79#8] ∧
    LiteralOnFirstLine [0x22#8, 0x61#8, 0x62#8, 0x22#8, 0x20#8, 0x78#8, 10#8, 0x79#8] := by decide

/-- **C11 (line splicing is transparent for literals, any number of splices).**  Two file contents whose phase-1 texts are
    equal after deleting every backslash-newline — e.g. one is the other with backslash-newlines inserted at any number of
    places — give the same literal token at the start of the text, provided the literal is complete on the first line of
    (either) text `tokenize()` sees. -/
theorem C11_text_unspliced (s s' : List Byte) (h : unsplice BSL LF (phase1 s') = unsplice BSL LF (phase1 s))
    (hline : LiteralOnFirstLine (phase12 s)) :
    lexLiteral (phase12 s') = lexLiteral (phase12 s) := by
  have fl : firstLine (phase12 s') = firstLine (phase12 s) := by rw [firstLine_phase12, firstLine_phase12, h]
  obtain ⟨w1, h1⟩ := split_at_lf _ (phase12_has_lf s')
  obtain ⟨w2, h2⟩ := split_at_lf _ (phase12_has_lf s)
  have hline' : LiteralOnFirstLine (phase12 s') := by unfold LiteralOnFirstLine; rw [fl]; exact hline
  rw [C11_text_first_line _ w1 h1 hline', C11_text_first_line _ w2 h2 hline, fl]

/-- non-vacuity: `"a\<LF>b\<LF>c"` and `"abc"` (two splices inside a string literal) -/
example : unsplice BSL LF (phase1 [0x22#8, 0x61#8, 92#8, 10#8, 0x62#8, 92#8, 10#8, 0x63#8, 0x22#8]) =
      unsplice BSL LF (phase1 [0x22#8, 0x61#8, 0x62#8, 0x63#8, 0x22#8]) ∧
    LiteralOnFirstLine (phase12 [0x22#8, 0x61#8, 0x62#8, 0x63#8, 0x22#8]) ∧
    lexLiteral (phase12 [0x22#8, 0x61#8, 0x62#8, 0x63#8, 0x22#8]) =
      .ok (.str ⟨.ty_char, [0x61, 0x62, 0x63], 5, [0x22#8, 0x61#8, 0x62#8, 0x63#8, 0x22#8]⟩) := by decide

/-- **C11 (a backslash-newline anywhere does not change the literal token).**  A backslash-newline inserted at any place of a
    file content `a ++ b` — inside the literal, inside a universal character name (chibicc deletes splices before it converts
    UCNs, so this too is transparent), before it, after it — does not change the literal token `tokenize()` reads at the
    start of the text.  Hypotheses (each is necessary, see Findings/C11.lean for the kernel-checked counterexamples, which
    were confirmed on the real tokenizer):
    * `a` does not end in a backslash (`\\<LF>`: the inserted newline would be spliced with the *earlier* backslash);
    * no CR (a splice between the CR and the LF of a line end separates them: two line ends instead of one);
    * the splice is not inside or in front of a UTF-8 BOM at the start of the file (`tokenize_file` tests for the BOM
      before it removes splices, so such a BOM is not skipped);
    * the literal of the unspliced text is complete on its first line (`LiteralOnFirstLine`): the deleted newline is
      re-inserted after the first newline, which changes the extent of a character constant that `strchr` closes on a
      later line (undefined in C11: 6.4.4.4 has no new-line in a c-char) and un-escapes a newline that follows a backslash
      produced by `\` (a universal character name 6.4.3 disallows). -/
theorem C11_text_transparent (a b : List Byte) (ha : a.getLast? ≠ some BSL) (hca : CR ∉ a) (hcb : CR ∉ b)
    (hbom : 3 ≤ a.length ∨ (a ++ b).take 3 ≠ BOM) (hline : LiteralOnFirstLine (phase12 (a ++ b))) :
    lexLiteral (phase12 (a ++ BSL :: LF :: b)) = lexLiteral (phase12 (a ++ b)) := by
  have fl : firstLine (phase12 (a ++ BSL :: LF :: b)) = firstLine (phase12 (a ++ b)) := by
    rw [firstLine_phase12, firstLine_phase12, firstLine_phase1_splice a b ha hca hcb hbom]
  obtain ⟨w1, h1⟩ := split_at_lf _ (phase12_has_lf (a ++ BSL :: LF :: b))
  obtain ⟨w2, h2⟩ := split_at_lf _ (phase12_has_lf (a ++ b))
  have hline' : LiteralOnFirstLine (phase12 (a ++ BSL :: LF :: b)) := by unfold LiteralOnFirstLine; rw [fl]; exact hline
  rw [C11_text_first_line _ w1 h1 hline', C11_text_first_line _ w2 h2 hline, fl]

/-- non-vacuity: a splice inside the universal character name of `"é"` (a = `"\u00`, b = `e9";`), read as `"é"` -/
example : ([0x22#8, 92#8, 0x75#8, 0x30#8, 0x30#8] : List Byte).getLast? ≠ some BSL ∧
    CR ∉ ([0x22#8, 92#8, 0x75#8, 0x30#8, 0x30#8] : List Byte) ∧ CR ∉ ([0x65#8, 0x39#8, 0x22#8, 0x3B#8] : List Byte) ∧
    3 ≤ ([0x22#8, 92#8, 0x75#8, 0x30#8, 0x30#8] : List Byte).length ∧
    LiteralOnFirstLine (phase12 ([0x22#8, 92#8, 0x75#8, 0x30#8, 0x30#8] ++ [0x65#8, 0x39#8, 0x22#8, 0x3B#8])) ∧
    lexLiteral (phase12 ([0x22#8, 92#8, 0x75#8, 0x30#8, 0x30#8] ++ BSL :: LF :: [0x65#8, 0x39#8, 0x22#8, 0x3B#8])) =
      .ok (.str ⟨.ty_char, [0xC3, 0xA9], 4, [0x22#8, 0xC3#8, 0xA9#8, 0x22#8]⟩) := by decide

/-- **C11 (a backslash-newline anywhere, in files with any line-end convention).**  The same for file contents that contain
    CR and CR LF line ends, and for every spelling of the inserted splice: backslash LF, backslash CR LF, backslash CR (the last one
    not in front of an LF, which would make it a CR LF).  The CR hypothesis of `C11_text_transparent` shrinks to what is necessary:
    the splice is not inserted between the CR and the LF of one line end. -/
theorem C11_text_transparent_eol (a sp b : List Byte)
    (hsp : sp = [BSL, LF] ∨ sp = [BSL, CR, LF] ∨ (sp = [BSL, CR] ∧ b.head? ≠ some LF))
    (ha : a.getLast? ≠ some BSL) (hcr : ¬ (a.getLast? = some CR ∧ b.head? = some LF))
    (hbom : 3 ≤ a.length ∨ (a ++ b).take 3 ≠ BOM) (hline : LiteralOnFirstLine (phase12 (a ++ b))) :
    lexLiteral (phase12 (a ++ sp ++ b)) = lexLiteral (phase12 (a ++ b)) := by
  have fl : firstLine (phase12 (a ++ sp ++ b)) = firstLine (phase12 (a ++ b)) := by
    rw [firstLine_phase12, firstLine_phase12, firstLine_phase1_splice_eol a sp b hsp ha hcr hbom]
  obtain ⟨w1, h1⟩ := split_at_lf _ (phase12_has_lf (a ++ sp ++ b))
  obtain ⟨w2, h2⟩ := split_at_lf _ (phase12_has_lf (a ++ b))
  have hline' : LiteralOnFirstLine (phase12 (a ++ sp ++ b)) := by unfold LiteralOnFirstLine; rw [fl]; exact hline
  rw [C11_text_first_line _ w1 h1 hline', C11_text_first_line _ w2 h2 hline, fl]

/-- non-vacuity: a CR LF file, `"ab` `\` CR LF `cd"; x` CR LF `y` CR LF, read as `"abcd"` -/
example : ([0x22#8, 0x61#8, 0x62#8] : List Byte).getLast? ≠ some BSL ∧
    ¬ (([0x22#8, 0x61#8, 0x62#8] : List Byte).getLast? = some CR ∧
       ([0x63#8, 0x64#8, 0x22#8, 0x3B#8, 0x78#8, 13#8, 10#8, 0x79#8, 13#8, 10#8] : List Byte).head? = some LF) ∧
    LiteralOnFirstLine (phase12 ([0x22#8, 0x61#8, 0x62#8] ++ [0x63#8, 0x64#8, 0x22#8, 0x3B#8, 0x78#8, 13#8, 10#8, 0x79#8, 13#8, 10#8])) ∧
    lexLiteral (phase12 ([0x22#8, 0x61#8, 0x62#8] ++ [BSL, CR, LF] ++
        [0x63#8, 0x64#8, 0x22#8, 0x3B#8, 0x78#8, 13#8, 10#8, 0x79#8, 13#8, 10#8])) =
      .ok (.str ⟨.ty_char, [0x61, 0x62, 0x63, 0x64], 6, [0x22#8, 0x61#8, 0x62#8, 0x63#8, 0x64#8, 0x22#8]⟩) := by decide

-- ------------------------------------------------------------------ pp-numbers (6.4.8)

/-- **C11 (pp-number: the scan is maximal munch for the grammar of 6.4.8).**  About the pp-number arm of `tokenize()` AS TRANSLATED
    (Gen/PpNumGen.lean: the start test `isdigit(*p) || (*p == '.' && isdigit(p[1]))` and the `for (;;)` loop over `e+ e- p+ p-` /
    alnum / `.`), for every text and every position: the arm is taken exactly when some prefix of the text at that position is a
    pp-number of 6.4.8 (`PPNumber`, the grammar production by production), and then the token `[start, ppNumberEnd)` lies inside
    the text, is a pp-number, and no longer prefix is one.
    Latitude (stated by the parameter `isLetter`): identifier-nondigit is restricted to the 52 Latin letters — `_`, `$`, universal
    character names and bytes ≥ 0x80 do not continue a pp-number in chibicc (`1_0` is `1` followed by the identifier `_0`; no valid
    constant contains one of them; Findings/C11.lean `C11_ppnumber_latitude` has the witness that with `_` the scan is not maximal). -/
theorem C11_ppnumber_maximal (p : List Byte) (start : Nat) :
    (ChibiVerif.Gen.PpNum.ppNumberStart p start = true ↔ ∃ e, e ≤ p.length ∧ PPNumber isLetter (slice p start e)) ∧
    (ChibiVerif.Gen.PpNum.ppNumberStart p start = true →
      start < ChibiVerif.Gen.PpNum.ppNumberEnd p start ∧ ChibiVerif.Gen.PpNum.ppNumberEnd p start ≤ p.length ∧
      PPNumber isLetter (slice p start (ChibiVerif.Gen.PpNum.ppNumberEnd p start)) ∧
      ∀ e, e ≤ p.length → PPNumber isLetter (slice p start e) → e ≤ ChibiVerif.Gen.PpNum.ppNumberEnd p start) :=
  ChibiVerif.Lemmas.PpNum.ppnumber_maximal p start

/-- non-vacuity: in `x=1e+5f+2` the arm is taken at index 2 and the token is `1e+5f` -/
example : ChibiVerif.Gen.PpNum.ppNumberStart [0x78#8, 0x3D#8, 0x31#8, 0x65#8, 0x2B#8, 0x35#8, 0x66#8, 0x2B#8, 0x32#8] 2 = true ∧
    ChibiVerif.Gen.PpNum.ppNumberEnd [0x78#8, 0x3D#8, 0x31#8, 0x65#8, 0x2B#8, 0x35#8, 0x66#8, 0x2B#8, 0x32#8] 2 = 7 := by decide

/-- **C11 (the hand model of the pp-number scan and of the literal dispatch is the translated code).**  `ppNumberLen` and the
    start test of `lexLiteral` (Model/Literals.lean) equal the translated scan on every text, so `lexLiteral` — the function the
    `C11_text_*` theorems are about — is, on every text, the dispatch over the translated pp-number arm, the translated
    `convert_pp_int` (with the digit loop as `strtoul`, on the token's own text) and the translated literal readers
    (`C11_translated_literal_readers`).  `C11_translated_lex` removes the copy and the digit loop; `C11_arm_order` ties the order
    of the arms. -/
theorem C11_translated_ppnumber :
    (∀ p : List Byte, ppNumberLen p = ChibiVerif.Gen.PpNum.ppNumberEnd p 0) ∧
    (∀ p : List Byte, (ChibiVerif.Literals.isDigit (byteAt p 0) || (byteAt p 0 = 46#8 && ChibiVerif.Literals.isDigit (byteAt p 1))) =
      ChibiVerif.Gen.PpNum.ppNumberStart p 0) ∧
    (∀ p : List Byte, ChibiVerif.Gen.PpNum.ppNumberStart p 0 = true →
      lexLiteral p =
        match ChibiVerif.Gen.PpNum.convertPpInt strtoulH (p.take (ChibiVerif.Gen.PpNum.ppNumberEnd p 0)) 0
            (p.take (ChibiVerif.Gen.PpNum.ppNumberEnd p 0)).length with
        | some (v, ty) => .ok (.int v ty (ChibiVerif.Gen.PpNum.ppNumberEnd p 0))
        | none => .ok (.flt (ChibiVerif.Gen.PpNum.ppNumberEnd p 0))) := by
  refine ⟨ChibiVerif.Lemmas.PpNum.ppNumberLen_eq, ChibiVerif.Lemmas.PpNum.ppStart_eq, ?_⟩
  intro p hs
  unfold lexLiteral
  rw [ChibiVerif.Lemmas.PpNum.ppStart_eq, hs]
  simp only [if_true, ChibiVerif.Lemmas.PpNum.ppNumberLen_eq, ChibiVerif.Lemmas.PpInt.translated_int]
  generalize ChibiVerif.Gen.PpNum.convertPpInt strtoulH (p.take (ChibiVerif.Gen.PpNum.ppNumberEnd p 0)) 0
    (p.take (ChibiVerif.Gen.PpNum.ppNumberEnd p 0)).length = r
  cases r with
  | none => rfl
  | some x => cases x; rfl

example : ChibiVerif.Gen.PpNum.ppNumberStart [0x31#8, 0x32#8, 0x75#8, 0x3B#8] 0 = true ∧
    lexLiteral [0x31#8, 0x32#8, 0x75#8, 0x3B#8] = .ok (.int 12#64 .ty_uint 3) := by decide

/-- **C11 (`lexLiteral` is the translated code called as `tokenize()` calls it).**  `lexLiteralC` (Model/PpNumber.lean) takes the
    translated pp-number arm and calls the translated `convert_pp_int` on the token INSIDE the text, with the Lean model of
    glibc's `strtoul` — the function the check runs against the real tokenizer (`lit`, `file` operations).  On every text it is
    equal to `lexLiteral`, the function all `C11_text_*` theorems are about (which copies the token and uses the digit loop),
    except on texts that begin with a hexadecimal prefix followed by a second `0x`/`0X` (`SecondPrefix`, decidable; there libc
    skips the second prefix: Findings/C11.lean `C11_strtoul_second_prefix`; no integer constant has that shape).
    Reason: the byte after the token is not alphanumeric (the scan stopped there), and neither ladder of `convert_pp_int` nor
    the digit loop accepts such a byte — it acts like the terminator of the copy. -/
theorem C11_translated_lex (p : List Byte) (hsp : ¬ SecondPrefix p) : lexLiteralC p = lexLiteral p :=
  ChibiVerif.Lemmas.PpContext.lexLiteral_eq p hsp

/-- non-vacuity: `0x7fUL+1` -/
example : ¬ SecondPrefix [48#8, 120#8, 0x37#8, 0x66#8, 85#8, 76#8, 0x2B#8, 0x31#8] ∧
    lexLiteralC [48#8, 120#8, 0x37#8, 0x66#8, 85#8, 76#8, 0x2B#8, 0x31#8] = .ok (.int 0x7f#64 .ty_ulong 6) := by decide

/-- **C11 (order of the literal arms of `tokenize()`).**  The arms of the `while (*p)` loop, extracted in source order from
    tokenize.c (`tokenizeArms`), try the pp-number arm before every string-literal arm, the string-literal arms in the order of
    the translated table `stringPrefixes`, then the character-constant arms in the order of `charPrefixes`, and only then
    identifiers and punctuators — the order in which `lexLiteral` (Model/Literals.lean) dispatches; comments and white space
    come first and are not literals. -/
theorem C11_arm_order :
    ChibiVerif.Gen.PpNum.tokenizeArms =
      ["line_comment", "block_comment", "newline", "space", "pp_number"] ++
      stringPrefixes.map (fun e => "str:" ++ String.ofList (e.1.map Char.ofNat)) ++
      charPrefixes.map (fun e => "chr:" ++ String.ofList (e.1.map Char.ofNat)) ++ ["ident", "punct", "invalid"] := by
  decide +kernel

-- ------------------------------------------------------------------ tokenize_file: BOM test and phase order

/-- **C11 (phase order).**  `tokenize_file` AS TRANSLATED from clang's typed AST of tokenize.c (Gen/PpNumGen.lean
    `tokenizeFileText`: the `memcmp` BOM test with its literal and lengths, then `canonicalize_newline`,
    `remove_backslash_newline`, `convert_universal_chars` in the order of the calls, each the in-place loop of
    Gen/LitReadersGen.lean; nothing else touches the text before `tokenize(new_file(…, p))`), applied to what `read_file`
    returns (`ensureFinalNewline`, hand model of the libc stream calls), is — for every file content without NUL — exactly the
    composition `phase12` that every `C11_text_*` theorem is about; no store of the three loops leaves the text; and the order
    of the calls is the one 5.1.1.2 prescribes (line ends, then splices, then — a chibicc choice — universal character names). -/
theorem C11_phase_order :
    (∀ s : List Byte, (0#8 : Byte) ∉ s → fileText s = some (phase12 s)) ∧
    (∀ b : List Byte, ChibiVerif.Gen.PpNum.tokenizeFileText b =
      (ChibiVerif.Gen.LitReaders.canonicalizeNewline (skipBOM b) >>= ChibiVerif.Gen.LitReaders.removeBackslashNewline >>=
        ChibiVerif.Gen.LitReaders.convertUniversalChars)) ∧
    ChibiVerif.Gen.PpNum.tokenizeFileSteps =
      ["memcmp:3", "canonicalize_newline", "remove_backslash_newline", "convert_universal_chars"] :=
  ⟨ChibiVerif.Lemmas.Phases.phase_order, ChibiVerif.Lemmas.Phases.tokenizeFileText_eq, by decide⟩

/-- non-vacuity: BOM, `"é"` written as a UCN, CR LF, a splice -/
example : (0#8 : Byte) ∉ ([0xEF#8, 0xBB#8, 0xBF#8, 0x22#8, 92#8, 0x75#8, 0x30#8, 0x30#8, 0x65#8, 0x39#8, 0x22#8, 13#8, 10#8, 0x78#8, 92#8, 10#8, 0x79#8] : List Byte) ∧
    fileText [0xEF#8, 0xBB#8, 0xBF#8, 0x22#8, 92#8, 0x75#8, 0x30#8, 0x30#8, 0x65#8, 0x39#8, 0x22#8, 13#8, 10#8, 0x78#8, 92#8, 10#8, 0x79#8] =
      some [0x22#8, 0xC3#8, 0xA9#8, 0x22#8, 10#8, 0x78#8, 0x79#8, 10#8, 10#8] := by decide

end ChibiVerif.Props.C11
