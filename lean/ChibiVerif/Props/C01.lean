/-
C01 — integer expressions have the C11 value and the C11 type.

Property theorems only (definitions and helper lemmas: Lemmas/C01Lemmas, C01OpLemmas, C01ArithLemmas).

Objects:
* `Gen.CommonType.getCommonType`, `opRule`  — regenerated from type.c on every check (translator);
* `Gen.CastTable.castTable`, `getTypeId`     — regenerated from codegen.c on every check (translator);
* `C01Codegen.cast / genBinop / genUnop / typeBinary / typeUnary` — hand model of the integer arms of codegen.c / add_type,
  tied by assembly-text equality with `chibicc -S` on all operator × 9×9 type pairs;
* `X86.run` — instruction semantics, tied to the host CPU;
* `Spec.IntSpec` — C11 6.3.1 / 6.5, tied to gcc.
`Represents t r v` is the representation invariant of codegen.c (Lemmas/C01Lemmas).

Every theorem is for all register contents (2^64 each) / all operand values, not samples.
-/
import ChibiVerif.Lemmas.C01ArithLemmas

namespace ChibiVerif.Props.C01
open ChibiVerif.C01 ChibiVerif.X86 ChibiVerif.Asm ChibiVerif.Spec.IntSpec ChibiVerif.Gen.CommonType ChibiVerif.C01Codegen

/-! ## typing -/

/-- **`get_common_type` is the usual arithmetic conversion (C11 6.3.1.8)** on every pair of the nine integer types:
    the descriptor it returns is exactly the type object of the C11 common type. -/
theorem C01_common_type :
    ∀ t1 ∈ ITy.all, ∀ t2 ∈ ITy.all,
      getCommonType (descr t1) (descr t2) = .ty (descr (usualArith t1 t2)) := by
  decide

/-- … and with enumerated types (compatible with `int`: 4 bytes, signed) on either side the result has the size and
    signedness C11 prescribes (the descriptor may be the enumerated type itself). -/
theorem C01_common_type_enum :
    ∀ d1 ∈ allDescr, ∀ d2 ∈ allDescr,
      (resTy (getCommonType d1 d2)).bind ityOf =
        (ityOf d1).bind fun a => (ityOf d2).bind fun b => some (usualArith a b) := by
  decide

/-- a pointer meeting an integer (comparison with 0, `p + n` after scaling) or a pointer: the result is the pointer type
    (8 bytes, compared unsigned) -/
theorem C01_common_type_ptr :
    ∀ d ∈ allDescr ++ [ty_ptr],
      getCommonType ty_ptr d = .ptrToBaseOf ty_ptr ∧
      (d.hasBase = false → getCommonType d ty_ptr = .ty ty_ptr) := by
  decide

/-- the C11 operator a node kind of `add_type`'s switch stands for (`a > b` is parsed as `b < a`) -/
def specOp : NK → Option BinOp
  | .ND_ADD => some .add | .ND_SUB => some .sub | .ND_MUL => some .mul | .ND_DIV => some .div | .ND_MOD => some .mod
  | .ND_BITAND => some .band | .ND_BITOR => some .bor | .ND_BITXOR => some .bxor
  | .ND_SHL => some .shl | .ND_SHR => some .shr
  | .ND_EQ => some .eq | .ND_NE => some .ne | .ND_LT => some .lt | .ND_LE => some .le
  | _ => none

def specUnOp : NK → Option UnOp
  | .ND_NEG => some .neg | .ND_BITNOT => some .bitnot | .ND_NOT => some .lognot
  | _ => none

def binaryOps : List (NK × BinOp) :=
  [(.ND_ADD, .add), (.ND_SUB, .sub), (.ND_MUL, .mul), (.ND_DIV, .div), (.ND_MOD, .mod), (.ND_BITAND, .band),
   (.ND_BITOR, .bor), (.ND_BITXOR, .bxor), (.ND_SHL, .shl), (.ND_SHR, .shr), (.ND_EQ, .eq), (.ND_NE, .ne),
   (.ND_LT, .lt), (.ND_LE, .le)]

/-- **the `add_type` table gives every binary operator the C11 operand conversions and result type** (6.5.5 – 6.5.12):
    for every operator and every pair of the nine integer types, both operands are converted to the C11 common type
    (shifts: the left operand is promoted, the right operand is left alone) and the node gets the C11 result type. -/
theorem C01_op_type :
    ∀ p ∈ binaryOps, ∀ t1 ∈ ITy.all, ∀ t2 ∈ ITy.all,
      specOp p.1 = some p.2 ∧
      typeBinary p.1 (descr t1) (descr t2) =
        some (descr (binopOperandType p.2 t1 t2),
              (if p.2.isShift then none else some (descr (binopOperandType p.2 t1 t2))),
              descr (binopType p.2 t1 t2)) := by
  decide

/-- unary `-`, `~` promote their operand and have the promoted type; `!` leaves it alone and has type `int` (6.5.3.3) -/
theorem C01_unop_type :
    ∀ p ∈ [(NK.ND_NEG, UnOp.neg), (NK.ND_BITNOT, UnOp.bitnot), (NK.ND_NOT, UnOp.lognot)], ∀ t ∈ ITy.all,
      specUnOp p.1 = some p.2 ∧
      typeUnary p.1 (descr t) =
        some ((if p.2 = .lognot then none else some (descr (promote t))), descr (unopType p.2 t)) := by
  decide

/-! ## conversions -/

/-- **every cell of the generated cast table among the integer types, and the `_Bool` conversion, is the C11 conversion**
    (6.3.1.2, 6.3.1.3): for every source and target type, every machine state whose `%rax` represents `v` in the source
    type, the emitted sequence runs and leaves `%rax` representing `convert to v`. -/
theorem C01_cast (frm to : ITy) (s : State) (v : Int) (h : Represents frm (s.get .rax) v) :
    ∃ s', X86.run (castSeq frm to) s = some s' ∧ Represents to (s'.get .rax) (convert to v) := by
  obtain ⟨k, hk⟩ := castSeq_classified frm to
  rw [classify_sound hk]
  obtain ⟨s', h1, h2⟩ := k.effect s
  exact ⟨s', h1, h2 ▸ cast_arith frm to k hk _ _ h⟩

example : Represents .i8 (0xdeadbeef_ffffff80#64) (-128) := ⟨by decide, by decide⟩

/-! ## binary operators -/

/-! which analysed sequence the model (over the generated tables) selects for each (operator, type): by evaluation -/
theorem sel_ND_ADD_i32 : classifyOp (opSeq .ND_ADD .i32) = some .add32 := by decide +kernel
theorem sel_ND_ADD_u32 : classifyOp (opSeq .ND_ADD .u32) = some .add32 := by decide +kernel
theorem sel_ND_ADD_i64 : classifyOp (opSeq .ND_ADD .i64) = some .add64 := by decide +kernel
theorem sel_ND_ADD_u64 : classifyOp (opSeq .ND_ADD .u64) = some .add64 := by decide +kernel
theorem sel_ND_SUB_i32 : classifyOp (opSeq .ND_SUB .i32) = some .sub32 := by decide +kernel
theorem sel_ND_SUB_u32 : classifyOp (opSeq .ND_SUB .u32) = some .sub32 := by decide +kernel
theorem sel_ND_SUB_i64 : classifyOp (opSeq .ND_SUB .i64) = some .sub64 := by decide +kernel
theorem sel_ND_SUB_u64 : classifyOp (opSeq .ND_SUB .u64) = some .sub64 := by decide +kernel
theorem sel_ND_MUL_i32 : classifyOp (opSeq .ND_MUL .i32) = some .mul32 := by decide +kernel
theorem sel_ND_MUL_u32 : classifyOp (opSeq .ND_MUL .u32) = some .mul32 := by decide +kernel
theorem sel_ND_MUL_i64 : classifyOp (opSeq .ND_MUL .i64) = some .mul64 := by decide +kernel
theorem sel_ND_MUL_u64 : classifyOp (opSeq .ND_MUL .u64) = some .mul64 := by decide +kernel
theorem sel_ND_DIV_i32 : classifyOp (opSeq .ND_DIV .i32) = some .divs32 := by decide +kernel
theorem sel_ND_DIV_u32 : classifyOp (opSeq .ND_DIV .u32) = some .divu32 := by decide +kernel
theorem sel_ND_DIV_i64 : classifyOp (opSeq .ND_DIV .i64) = some .divs64 := by decide +kernel
theorem sel_ND_DIV_u64 : classifyOp (opSeq .ND_DIV .u64) = some .divu64 := by decide +kernel
theorem sel_ND_MOD_i32 : classifyOp (opSeq .ND_MOD .i32) = some .mods32 := by decide +kernel
theorem sel_ND_MOD_u32 : classifyOp (opSeq .ND_MOD .u32) = some .modu32 := by decide +kernel
theorem sel_ND_MOD_i64 : classifyOp (opSeq .ND_MOD .i64) = some .mods64 := by decide +kernel
theorem sel_ND_MOD_u64 : classifyOp (opSeq .ND_MOD .u64) = some .modu64 := by decide +kernel
theorem sel_ND_BITAND_i32 : classifyOp (opSeq .ND_BITAND .i32) = some .and32 := by decide +kernel
theorem sel_ND_BITAND_u32 : classifyOp (opSeq .ND_BITAND .u32) = some .and32 := by decide +kernel
theorem sel_ND_BITAND_i64 : classifyOp (opSeq .ND_BITAND .i64) = some .and64 := by decide +kernel
theorem sel_ND_BITAND_u64 : classifyOp (opSeq .ND_BITAND .u64) = some .and64 := by decide +kernel
theorem sel_ND_BITOR_i32 : classifyOp (opSeq .ND_BITOR .i32) = some .or32 := by decide +kernel
theorem sel_ND_BITOR_u32 : classifyOp (opSeq .ND_BITOR .u32) = some .or32 := by decide +kernel
theorem sel_ND_BITOR_i64 : classifyOp (opSeq .ND_BITOR .i64) = some .or64 := by decide +kernel
theorem sel_ND_BITOR_u64 : classifyOp (opSeq .ND_BITOR .u64) = some .or64 := by decide +kernel
theorem sel_ND_BITXOR_i32 : classifyOp (opSeq .ND_BITXOR .i32) = some .xor32 := by decide +kernel
theorem sel_ND_BITXOR_u32 : classifyOp (opSeq .ND_BITXOR .u32) = some .xor32 := by decide +kernel
theorem sel_ND_BITXOR_i64 : classifyOp (opSeq .ND_BITXOR .i64) = some .xor64 := by decide +kernel
theorem sel_ND_BITXOR_u64 : classifyOp (opSeq .ND_BITXOR .u64) = some .xor64 := by decide +kernel
theorem sel_ND_EQ_i32 : classifyOp (opSeq .ND_EQ .i32) = some .eq32 := by decide +kernel
theorem sel_ND_EQ_u32 : classifyOp (opSeq .ND_EQ .u32) = some .eq32 := by decide +kernel
theorem sel_ND_EQ_i64 : classifyOp (opSeq .ND_EQ .i64) = some .eq64 := by decide +kernel
theorem sel_ND_EQ_u64 : classifyOp (opSeq .ND_EQ .u64) = some .eq64 := by decide +kernel
theorem sel_ND_NE_i32 : classifyOp (opSeq .ND_NE .i32) = some .ne32 := by decide +kernel
theorem sel_ND_NE_u32 : classifyOp (opSeq .ND_NE .u32) = some .ne32 := by decide +kernel
theorem sel_ND_NE_i64 : classifyOp (opSeq .ND_NE .i64) = some .ne64 := by decide +kernel
theorem sel_ND_NE_u64 : classifyOp (opSeq .ND_NE .u64) = some .ne64 := by decide +kernel
theorem sel_ND_LT_i32 : classifyOp (opSeq .ND_LT .i32) = some .lts32 := by decide +kernel
theorem sel_ND_LT_u32 : classifyOp (opSeq .ND_LT .u32) = some .ltu32 := by decide +kernel
theorem sel_ND_LT_i64 : classifyOp (opSeq .ND_LT .i64) = some .lts64 := by decide +kernel
theorem sel_ND_LT_u64 : classifyOp (opSeq .ND_LT .u64) = some .ltu64 := by decide +kernel
theorem sel_ND_LE_i32 : classifyOp (opSeq .ND_LE .i32) = some .les32 := by decide +kernel
theorem sel_ND_LE_u32 : classifyOp (opSeq .ND_LE .u32) = some .leu32 := by decide +kernel
theorem sel_ND_LE_i64 : classifyOp (opSeq .ND_LE .i64) = some .les64 := by decide +kernel
theorem sel_ND_LE_u64 : classifyOp (opSeq .ND_LE .u64) = some .leu64 := by decide +kernel
theorem sel_ND_SHL_i32 : classifyOp (opSeq .ND_SHL .i32) = some .shl32 := by decide +kernel
theorem sel_ND_SHL_u32 : classifyOp (opSeq .ND_SHL .u32) = some .shl32 := by decide +kernel
theorem sel_ND_SHL_i64 : classifyOp (opSeq .ND_SHL .i64) = some .shl64 := by decide +kernel
theorem sel_ND_SHL_u64 : classifyOp (opSeq .ND_SHL .u64) = some .shl64 := by decide +kernel
theorem sel_ND_SHR_i32 : classifyOp (opSeq .ND_SHR .i32) = some .sar32 := by decide +kernel
theorem sel_ND_SHR_u32 : classifyOp (opSeq .ND_SHR .u32) = some .shr32 := by decide +kernel
theorem sel_ND_SHR_i64 : classifyOp (opSeq .ND_SHR .i64) = some .sar64 := by decide +kernel
theorem sel_ND_SHR_u64 : classifyOp (opSeq .ND_SHR .u64) = some .shr64 := by decide +kernel

/-- the sequence the model selects for `(k, t)` is one of the analysed sequences and computes the C11 operation -/
theorem binop_selected (k : NK) (op : BinOp) (hop : specOp k = some op) (hns : op.isShift = false)
    (t : ITy) (ht : t = .i32 ∨ t = .u32 ∨ t = .i64 ∨ t = .u64) :
    ∃ kind, classifyOp (opSeq k t) = some kind ∧ kind.Computes op t := by
  cases k <;> simp [specOp] at hop <;> subst hop <;> simp [BinOp.isShift] at hns
  case ND_ADD =>
    rcases ht with rfl | rfl | rfl | rfl
    · exact ⟨_, sel_ND_ADD_i32, add_i32⟩
    · exact ⟨_, sel_ND_ADD_u32, add_u32'⟩
    · exact ⟨_, sel_ND_ADD_i64, add_i64⟩
    · exact ⟨_, sel_ND_ADD_u64, add_u64'⟩
  case ND_SUB =>
    rcases ht with rfl | rfl | rfl | rfl
    · exact ⟨_, sel_ND_SUB_i32, sub_i32⟩
    · exact ⟨_, sel_ND_SUB_u32, sub_u32'⟩
    · exact ⟨_, sel_ND_SUB_i64, sub_i64⟩
    · exact ⟨_, sel_ND_SUB_u64, sub_u64'⟩
  case ND_MUL =>
    rcases ht with rfl | rfl | rfl | rfl
    · exact ⟨_, sel_ND_MUL_i32, mul_i32⟩
    · exact ⟨_, sel_ND_MUL_u32, mul_u32'⟩
    · exact ⟨_, sel_ND_MUL_i64, mul_i64⟩
    · exact ⟨_, sel_ND_MUL_u64, mul_u64'⟩
  case ND_DIV =>
    rcases ht with rfl | rfl | rfl | rfl
    · exact ⟨_, sel_ND_DIV_i32, div_i32⟩
    · exact ⟨_, sel_ND_DIV_u32, div_u32⟩
    · exact ⟨_, sel_ND_DIV_i64, div_i64⟩
    · exact ⟨_, sel_ND_DIV_u64, div_u64⟩
  case ND_MOD =>
    rcases ht with rfl | rfl | rfl | rfl
    · exact ⟨_, sel_ND_MOD_i32, mod_i32⟩
    · exact ⟨_, sel_ND_MOD_u32, mod_u32⟩
    · exact ⟨_, sel_ND_MOD_i64, mod_i64⟩
    · exact ⟨_, sel_ND_MOD_u64, mod_u64⟩
  case ND_BITAND =>
    rcases ht with rfl | rfl | rfl | rfl
    · exact ⟨_, sel_ND_BITAND_i32, and_i32⟩
    · exact ⟨_, sel_ND_BITAND_u32, and_u32⟩
    · exact ⟨_, sel_ND_BITAND_i64, and_i64⟩
    · exact ⟨_, sel_ND_BITAND_u64, and_u64⟩
  case ND_BITOR =>
    rcases ht with rfl | rfl | rfl | rfl
    · exact ⟨_, sel_ND_BITOR_i32, or_i32⟩
    · exact ⟨_, sel_ND_BITOR_u32, or_u32⟩
    · exact ⟨_, sel_ND_BITOR_i64, or_i64⟩
    · exact ⟨_, sel_ND_BITOR_u64, or_u64⟩
  case ND_BITXOR =>
    rcases ht with rfl | rfl | rfl | rfl
    · exact ⟨_, sel_ND_BITXOR_i32, xor_i32⟩
    · exact ⟨_, sel_ND_BITXOR_u32, xor_u32⟩
    · exact ⟨_, sel_ND_BITXOR_i64, xor_i64⟩
    · exact ⟨_, sel_ND_BITXOR_u64, xor_u64⟩
  case ND_EQ =>
    rcases ht with rfl | rfl | rfl | rfl
    · exact ⟨_, sel_ND_EQ_i32, eq_i32⟩
    · exact ⟨_, sel_ND_EQ_u32, eq_u32⟩
    · exact ⟨_, sel_ND_EQ_i64, eq_i64⟩
    · exact ⟨_, sel_ND_EQ_u64, eq_u64⟩
  case ND_NE =>
    rcases ht with rfl | rfl | rfl | rfl
    · exact ⟨_, sel_ND_NE_i32, ne_i32⟩
    · exact ⟨_, sel_ND_NE_u32, ne_u32⟩
    · exact ⟨_, sel_ND_NE_i64, ne_i64⟩
    · exact ⟨_, sel_ND_NE_u64, ne_u64⟩
  case ND_LT =>
    rcases ht with rfl | rfl | rfl | rfl
    · exact ⟨_, sel_ND_LT_i32, lt_i32⟩
    · exact ⟨_, sel_ND_LT_u32, lt_u32⟩
    · exact ⟨_, sel_ND_LT_i64, lt_i64⟩
    · exact ⟨_, sel_ND_LT_u64, lt_u64⟩
  case ND_LE =>
    rcases ht with rfl | rfl | rfl | rfl
    · exact ⟨_, sel_ND_LE_i32, le_i32⟩
    · exact ⟨_, sel_ND_LE_u32, le_u32⟩
    · exact ⟨_, sel_ND_LE_i64, le_i64⟩
    · exact ⟨_, sel_ND_LE_u64, le_u64⟩

/-- **add / sub / imul / and / or / xor at 32 and 64 bits, `cdq; idiv`, `cqo; idiv`, `mov $0,%edx; div`, and the relations
    `== != < <=` signed and unsigned via `cmp; setcc; movzb`**: for every such operator `k`, every computation type `t`
    (int, unsigned, long, unsigned long), every machine state in which `%rax` / `%rdi` represent the (converted) operands
    `va` / `vb`, if C11 defines `va op vb` in type `t` (no signed overflow, no division by zero, no INT_MIN / -1) then the
    emitted sequence runs without a CPU fault and leaves `%rax` representing the C11 result in the C11 result type. -/
theorem C01_binop (k : NK) (op : BinOp) (hop : specOp k = some op) (hns : op.isShift = false)
    (t : ITy) (ht : t = .i32 ∨ t = .u32 ∨ t = .i64 ∨ t = .u64)
    (s : State) (va vb x : Int)
    (ha : Represents t (s.get .rax) va) (hb : Represents t (s.get .rdi) vb)
    (hx : arith op t va vb = some x) :
    ∃ s', X86.run (opSeq k t) s = some s' ∧ Represents (binopType op t t) (s'.get .rax) x := by
  obtain ⟨kind, hk, hc⟩ := binop_selected k op hop hns t ht
  rw [classifyOp_sound hk]
  obtain ⟨y, hy, hr⟩ := hc _ _ _ _ _ ha hb hx
  have he := kind.effect s
  simp only [hy] at he
  obtain ⟨s', h1, h2⟩ := he
  exact ⟨s', h1, h2 ▸ hr⟩

example : arith .div .i32 (-7) 2 = some (-3) := by decide
example : arith .add .i32 2147483647 1 = none := by decide

/-- `a > b`, `a >= b` are compiled as `b < a`, `b <= a` (parse.c `relational`): same value -/
theorem C01_rel_swapped (t : ITy) (a b : Int) :
    arith .gt t a b = arith .lt t b a ∧ arith .ge t a b = arith .le t b a := by
  simp [arith]

theorem shift_selected (k : NK) (op : BinOp) (hop : specOp k = some op) (hs : op.isShift = true)
    (t : ITy) (ht : t = .i32 ∨ t = .u32 ∨ t = .i64 ∨ t = .u64) :
    ∃ kind, classifyOp (opSeq k t) = some kind ∧ kind.ComputesShift op t := by
  cases k <;> simp [specOp] at hop <;> subst hop <;> simp [BinOp.isShift] at hs
  case ND_SHL =>
    rcases ht with rfl | rfl | rfl | rfl
    · exact ⟨_, sel_ND_SHL_i32, shl_i32⟩
    · exact ⟨_, sel_ND_SHL_u32, shl_u32⟩
    · exact ⟨_, sel_ND_SHL_i64, shl_i64⟩
    · exact ⟨_, sel_ND_SHL_u64, shl_u64⟩
  case ND_SHR =>
    rcases ht with rfl | rfl | rfl | rfl
    · exact ⟨_, sel_ND_SHR_i32, shr_i32⟩
    · exact ⟨_, sel_ND_SHR_u32, shr_u32⟩
    · exact ⟨_, sel_ND_SHR_i64, shr_i64⟩
    · exact ⟨_, sel_ND_SHR_u64, shr_u64⟩

/-- **`<<`, `>>` via `mov %rdi,%rcx; shl/shr/sar %cl`**: left operand of promoted type `t`, right operand of *any* integer
    type `t2` (it is not converted); if C11 defines the shift (count in range, and for signed `<<` a non-negative left
    operand whose product is representable) the sequence leaves the C11 result: logical shift for unsigned `t`,
    arithmetic for signed `t`. -/
theorem C01_shift (k : NK) (op : BinOp) (hop : specOp k = some op) (hs : op.isShift = true)
    (t : ITy) (ht : t = .i32 ∨ t = .u32 ∨ t = .i64 ∨ t = .u64) (t2 : ITy)
    (s : State) (va vb x : Int)
    (ha : Represents t (s.get .rax) va) (hb : Represents t2 (s.get .rdi) vb)
    (hx : arith op t va vb = some x) :
    ∃ s', X86.run (opSeq k t) s = some s' ∧ Represents t (s'.get .rax) x := by
  obtain ⟨kind, hk, hc⟩ := shift_selected k op hop hs t ht
  rw [classifyOp_sound hk]
  obtain ⟨y, hy, hr⟩ := hc t2 _ _ _ _ _ ha hb hx
  have he := kind.effect s
  simp only [hy] at he
  obtain ⟨s', h1, h2⟩ := he
  exact ⟨s', h1, h2 ▸ hr⟩

example : arith .shr .i32 (-101) 1 = some (-51) := by decide
example : arith .shl .i32 (-1) 1 = none := by decide

/-! ## unary operators -/

/-- **`neg %rax`, `not %rax`** on an operand already promoted to `t`: the C11 value of `-a` / `~a` whenever defined. -/
theorem C01_unop (k : NK) (op : UnOp) (hop : specUnOp k = some op) (hne : op ≠ .lognot)
    (t : ITy) (ht : t = .i32 ∨ t = .u32 ∨ t = .i64 ∨ t = .u64)
    (s : State) (v x : Int) (h : Represents t (s.get .rax) v) (hx : unop op t v = some x) :
    ∃ s', X86.run (unSeq k t) s = some s' ∧ Represents t (s'.get .rax) x := by
  cases k <;> simp [specUnOp] at hop <;> subst hop
  · -- ND_NEG
    have hseq : unSeq .ND_NEG t = UnKind.neg.seq := by rcases ht with rfl | rfl | rfl | rfl <;> rfl
    rw [hseq]
    obtain ⟨s', h1, h2⟩ := UnKind.neg.effect s
    exact ⟨s', h1, h2 ▸ neg_computes t ht _ _ _ h hx⟩
  · exact absurd rfl hne
  · -- ND_BITNOT
    have hseq : unSeq .ND_BITNOT t = UnKind.not.seq := by rcases ht with rfl | rfl | rfl | rfl <;> rfl
    rw [hseq]
    obtain ⟨s', h1, h2⟩ := UnKind.not.effect s
    exact ⟨s', h1, h2 ▸ not_computes t ht _ _ _ h hx⟩

/-- **`!a` via `cmp $0; sete; movzx`** on an operand of any of the nine integer types (unpromoted): `int` 1 iff `a == 0`. -/
theorem C01_lognot (t : ITy) (s : State) (v : Int) (h : Represents t (s.get .rax) v) :
    ∃ s', X86.run (unSeq .ND_NOT t) s = some s' ∧ Represents .i32 (s'.get .rax) (b2i (v = 0)) := by
  have hseq : unSeq .ND_NOT t = (if t.size = 8 then UnKind.lognot64 else UnKind.lognot32).seq := by cases t <;> rfl
  rw [hseq]
  obtain ⟨s', h1, h2⟩ := (if t.size = 8 then UnKind.lognot64 else UnKind.lognot32).effect s
  exact ⟨s', h1, h2 ▸ lognot_computes t _ _ h⟩

/-! ## `++` / `--` (parse.c `new_inc_dec`) -/

/-- region of the known finding C01-bool-postfix-incdec -/
def BoolPostfixIncDec (T : ITy) : Prop := T = .bool
instance (T : ITy) : Decidable (BoolPostfixIncDec T) := by unfold BoolPostfixIncDec; exact inferInstance

/-- full statement: chibicc's rewriting of postfix `++`/`--` has the C11 value and side effect whenever C11 defines it.
    False for `_Bool` (Findings/C01.lean). -/
def C01_incdec_Statement : Prop :=
  ∀ (T : ITy) (x addend : Int), T.inRange x → (addend = 1 ∨ addend = -1) →
    ∀ res, specPostfix T x addend = some res → chibiPostfix T x addend = some res

/-- **postfix `++`/`--`**, outside the known-finding region (operand of type `_Bool`) -/
theorem C01_incdec_partial (T : ITy) (hT : ¬ BoolPostfixIncDec T) (x addend : Int) (hx : T.inRange x)
    (ha : addend = 1 ∨ addend = -1) (res : Int × Int) (h : specPostfix T x addend = some res) :
    chibiPostfix T x addend = some res :=
  incdec_value T hT x addend hx ha res h

example : specPostfix .u8 255 1 = some (255, 0) := by decide

end ChibiVerif.Props.C01
