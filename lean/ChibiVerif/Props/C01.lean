/-
C01 — integer expressions have the C11 value and the C11 type.

Property theorems only (definitions and helper lemmas: Model/C01Expr, Model/C01ExprJ, Model/X86Jump, Lemmas/C01Lemmas,
C01OpLemmas, C01ArithLemmas, C01Select, C01MemLemmas, C01Compose, C01Frame, C01Value, C01Effects, C01Machine, C01EffectsValue,
C01Pointer, C01PointerAssign, C01Jump, C01JumpMachine, C01JumpCompile, C01EffectsFull, C01ValueFull, C01LabelText, C01Lvalue, C01LvalueRoot, C01ExprAFacts, C01ValueA, C01AccTable; Model/C01Lvalue, Model/C01ExprA).

Objects:
* `Gen.CommonType.getCommonType`, `opRule`  — regenerated from type.c on every check (translator);
* `Gen.CastTable.castTable`, `getTypeId`     — regenerated from codegen.c on every check (translator);
* `C01Codegen.cast / genBinop / genUnop / typeBinary / typeUnary` — hand model of the integer arms of codegen.c / add_type,
  tied by assembly-text equality with `chibicc -S` on all operator × 9×9 type pairs;
* `C01.compileE` / `compileX` (Model/C01Expr) — `gen_expr` on whole expression trees (pure; with `,` `=` `op=` `++` `--` and
  the hidden temporaries of parse.c `to_assign` / `new_inc_dec`), `scaleCode` / `ptrAddCode` / `ptrDiffCode` — pointer
  arithmetic of `new_add` / `new_sub`; tied by instruction-text equality with `chibicc -S` on generated nests and on every
  pointer form × element size × index type;
* `C01.compileJ` (Model/C01ExprJ) — `gen_expr` on the FULL expression type: `compileX` plus `&&` `||` `?:` with `cmp_zero`,
  `je` / `jne` / `jmp` and the labels `.L.false.N` … numbered from the counter `count()`; tied by the text of instructions,
  label definitions and jump targets (with the label numbers chibicc really hands out) on generated nests;
* `X86.run` — instruction semantics, tied to the host CPU; `X86J.runJ` (Model/X86Jump) — the same with labels and jumps,
  label resolution by position; `jCC` reads the flags like `setCC`; tied to the host CPU;
* `Spec.IntSpec` — C11 6.3.1 / 6.5, tied to gcc.
`Represents t r v` is the representation invariant of codegen.c (Lemmas/C01Lemmas).

Every theorem is for all register contents (2^64 each) / all operand values, not samples.
-/
import ChibiVerif.Lemmas.C01Select
import ChibiVerif.Lemmas.C01Compose
import ChibiVerif.Lemmas.C01Value
import ChibiVerif.Lemmas.C01EffectsValue
import ChibiVerif.Lemmas.C01Pointer
import ChibiVerif.Lemmas.C01PointerAssign
import ChibiVerif.Lemmas.C01ValueFull
import ChibiVerif.Lemmas.C01LabelText
import ChibiVerif.Lemmas.C01LvalueRoot
import ChibiVerif.Lemmas.C01AccTable

namespace ChibiVerif.Props.C01
open ChibiVerif.C01 ChibiVerif.X86 ChibiVerif.Asm ChibiVerif.Spec.IntSpec ChibiVerif.Gen.CommonType ChibiVerif.C01Codegen
open ChibiVerif.X86J

/-! ## typing -/

/-- **`get_common_type` is the usual arithmetic conversion (C11 6.3.1.8)** on every pair of the nine integer types:
    the descriptor it returns is exactly the type object of the C11 common type. -/
theorem C01_common_type :
    ∀ t1 ∈ ITy.all, ∀ t2 ∈ ITy.all,
      getCommonType (descr t1) (descr t2) = .ty (descr (usualArith t1 t2)) := by
  decide

/-- … and with enumerated types (compatible with `int`: 4 bytes, signed) on either side the result has the size and
    signedness C11 prescribes (the descriptor may be the enumerated type itself). -/
theorem C01_common_type_enum :
    ∀ d1 ∈ allDescr, ∀ d2 ∈ allDescr,
      (resTy (getCommonType d1 d2)).bind ityOf =
        (ityOf d1).bind fun a => (ityOf d2).bind fun b => some (usualArith a b) := by
  decide

/-- a pointer meeting an integer (comparison with 0, `p + n` after scaling) or a pointer: the result is the pointer type
    (8 bytes, compared unsigned) -/
theorem C01_common_type_ptr :
    ∀ d ∈ allDescr ++ [ty_ptr],
      getCommonType ty_ptr d = .ptrToBaseOf ty_ptr ∧
      (d.hasBase = false → getCommonType d ty_ptr = .ty ty_ptr) := by
  decide

def binaryOps : List (NK × BinOp) :=
  [(.ND_ADD, .add), (.ND_SUB, .sub), (.ND_MUL, .mul), (.ND_DIV, .div), (.ND_MOD, .mod), (.ND_BITAND, .band),
   (.ND_BITOR, .bor), (.ND_BITXOR, .bxor), (.ND_SHL, .shl), (.ND_SHR, .shr), (.ND_EQ, .eq), (.ND_NE, .ne),
   (.ND_LT, .lt), (.ND_LE, .le)]

/-- **the `add_type` table gives every binary operator the C11 operand conversions and result type** (6.5.5 – 6.5.12):
    for every operator and every pair of the nine integer types, both operands are converted to the C11 common type
    (shifts: the left operand is promoted, the right operand is left alone) and the node gets the C11 result type. -/
theorem C01_op_type :
    ∀ p ∈ binaryOps, ∀ t1 ∈ ITy.all, ∀ t2 ∈ ITy.all,
      specOp p.1 = some p.2 ∧
      typeBinary p.1 (descr t1) (descr t2) =
        some (descr (binopOperandType p.2 t1 t2),
              (if p.2.isShift then none else some (descr (binopOperandType p.2 t1 t2))),
              descr (binopType p.2 t1 t2)) := by
  decide

/-- unary `-`, `~` promote their operand and have the promoted type; `!` leaves it alone and has type `int` (6.5.3.3) -/
theorem C01_unop_type :
    ∀ p ∈ [(NK.ND_NEG, UnOp.neg), (NK.ND_BITNOT, UnOp.bitnot), (NK.ND_NOT, UnOp.lognot)], ∀ t ∈ ITy.all,
      specUnOp p.1 = some p.2 ∧
      typeUnary p.1 (descr t) =
        some ((if p.2 = .lognot then none else some (descr (promote t))), descr (unopType p.2 t)) := by
  decide

/-! ## conversions -/

/-- **every cell of the generated cast table among the integer types, and the `_Bool` conversion, is the C11 conversion**
    (6.3.1.2, 6.3.1.3): for every source and target type, every machine state whose `%rax` represents `v` in the source
    type, the emitted sequence runs and leaves `%rax` representing `convert to v`. -/
theorem C01_cast (frm to : ITy) (s : State) (v : Int) (h : Represents frm (s.get .rax) v) :
    ∃ s', X86.run (castSeq frm to) s = some s' ∧ Represents to (s'.get .rax) (convert to v) := by
  obtain ⟨k, hk⟩ := castSeq_classified frm to
  rw [classify_sound hk]
  obtain ⟨s', h1, h2⟩ := k.effect s
  exact ⟨s', h1, h2 ▸ cast_arith frm to k hk _ _ h⟩

example : Represents .i8 (0xdeadbeef_ffffff80#64) (-128) := ⟨by decide, by decide⟩

/-! ## binary operators -/

/-- **add / sub / imul / and / or / xor at 32 and 64 bits, `cdq; idiv`, `cqo; idiv`, `mov $0,%edx; div`, and the relations
    `== != < <=` signed and unsigned via `cmp; setcc; movzb`**: for every such operator `k`, every computation type `t`
    (int, unsigned, long, unsigned long), every machine state in which `%rax` / `%rdi` represent the (converted) operands
    `va` / `vb`, if C11 defines `va op vb` in type `t` (no signed overflow, no division by zero, no INT_MIN / -1) then the
    emitted sequence runs without a CPU fault and leaves `%rax` representing the C11 result in the C11 result type. -/
theorem C01_binop (k : NK) (op : BinOp) (hop : specOp k = some op) (hns : op.isShift = false)
    (t : ITy) (ht : t = .i32 ∨ t = .u32 ∨ t = .i64 ∨ t = .u64)
    (s : State) (va vb x : Int)
    (ha : Represents t (s.get .rax) va) (hb : Represents t (s.get .rdi) vb)
    (hx : arith op t va vb = some x) :
    ∃ s', X86.run (opSeq k t) s = some s' ∧ Represents (binopType op t t) (s'.get .rax) x := by
  obtain ⟨kind, hk, hc⟩ := binop_selected k op hop hns t ht
  rw [classifyOp_sound hk]
  obtain ⟨y, hy, hr⟩ := hc _ _ _ _ _ ha hb hx
  have he := kind.effect s
  simp only [hy] at he
  obtain ⟨s', h1, h2⟩ := he
  exact ⟨s', h1, h2 ▸ hr⟩

example : arith .div .i32 (-7) 2 = some (-3) := by decide
example : arith .add .i32 2147483647 1 = none := by decide

/-- `a > b`, `a >= b` are compiled as `b < a`, `b <= a` (parse.c `relational`): same value -/
theorem C01_rel_swapped (t : ITy) (a b : Int) :
    arith .gt t a b = arith .lt t b a ∧ arith .ge t a b = arith .le t b a := by
  simp [arith]

/-- **`<<`, `>>` via `mov %rdi,%rcx; shl/shr/sar %cl`**: left operand of promoted type `t`, right operand of *any* integer
    type `t2` (it is not converted); if C11 defines the shift (count in range, and for signed `<<` a non-negative left
    operand whose product is representable) the sequence leaves the C11 result: logical shift for unsigned `t`,
    arithmetic for signed `t`. -/
theorem C01_shift (k : NK) (op : BinOp) (hop : specOp k = some op) (hs : op.isShift = true)
    (t : ITy) (ht : t = .i32 ∨ t = .u32 ∨ t = .i64 ∨ t = .u64) (t2 : ITy)
    (s : State) (va vb x : Int)
    (ha : Represents t (s.get .rax) va) (hb : Represents t2 (s.get .rdi) vb)
    (hx : arith op t va vb = some x) :
    ∃ s', X86.run (opSeq k t) s = some s' ∧ Represents t (s'.get .rax) x := by
  obtain ⟨kind, hk, hc⟩ := shift_selected k op hop hs t ht
  rw [classifyOp_sound hk]
  obtain ⟨y, hy, hr⟩ := hc t2 _ _ _ _ _ ha hb hx
  have he := kind.effect s
  simp only [hy] at he
  obtain ⟨s', h1, h2⟩ := he
  exact ⟨s', h1, h2 ▸ hr⟩

example : arith .shr .i32 (-101) 1 = some (-51) := by decide
example : arith .shl .i32 (-1) 1 = none := by decide

/-! ## unary operators -/

/-- **`neg %rax`, `not %rax`** on an operand already promoted to `t`: the C11 value of `-a` / `~a` whenever defined. -/
theorem C01_unop (k : NK) (op : UnOp) (hop : specUnOp k = some op) (hne : op ≠ .lognot)
    (t : ITy) (ht : t = .i32 ∨ t = .u32 ∨ t = .i64 ∨ t = .u64)
    (s : State) (v x : Int) (h : Represents t (s.get .rax) v) (hx : unop op t v = some x) :
    ∃ s', X86.run (unSeq k t) s = some s' ∧ Represents t (s'.get .rax) x := by
  cases k <;> simp [specUnOp] at hop <;> subst hop
  · -- ND_NEG
    have hseq : unSeq .ND_NEG t = UnKind.neg.seq := by rcases ht with rfl | rfl | rfl | rfl <;> rfl
    rw [hseq]
    obtain ⟨s', h1, h2⟩ := UnKind.neg.effect s
    exact ⟨s', h1, h2 ▸ neg_computes t ht _ _ _ h hx⟩
  · exact absurd rfl hne
  · -- ND_BITNOT
    have hseq : unSeq .ND_BITNOT t = UnKind.not.seq := by rcases ht with rfl | rfl | rfl | rfl <;> rfl
    rw [hseq]
    obtain ⟨s', h1, h2⟩ := UnKind.not.effect s
    exact ⟨s', h1, h2 ▸ not_computes t ht _ _ _ h hx⟩

/-- **unary `-` and `~` on an operand of any of the nine integer types, conversion included**: `add_type` inserts the
    conversion to the promoted type (`C01_unop_type`), the cast table performs it, the operator works on the result —
    together exactly `Spec.unop`: for every operand type, every value, whenever C11 defines `-a` / `~a`. -/
theorem C01_unary_full (k : NK) (op : UnOp) (hop : specUnOp k = some op) (hne : op ≠ .lognot) (t : ITy)
    (s : State) (v x : Int) (h : Represents t (s.get .rax) v) (hx : unop op t v = some x) :
    ∃ s', X86.run (castSeq t (promote t) ++ unSeq k (promote t)) s = some s' ∧
      Represents (unopType op t) (s'.get .rax) x := by
  obtain ⟨s1, h1, r1⟩ := C01_cast t (promote t) s v h
  rw [unop_promote op hne] at hx
  obtain ⟨s2, h2, r2⟩ := C01_unop k op hop hne (promote t) (promote_mem t) s1 _ x r1 hx
  refine ⟨s2, ?_, ?_⟩
  · rw [run_append, h1]; exact h2
  · have : unopType op t = promote t := by cases op <;> simp_all [unopType]
    rw [this]; exact r2

example : unop .bitnot .u8 200 = some (-201) := by decide

/-- **`!a` via `cmp $0; sete; movzx`** on an operand of any of the nine integer types (unpromoted): `int` 1 iff `a == 0`. -/
theorem C01_lognot (t : ITy) (s : State) (v : Int) (h : Represents t (s.get .rax) v) :
    ∃ s', X86.run (unSeq .ND_NOT t) s = some s' ∧ Represents .i32 (s'.get .rax) (b2i (v = 0)) := by
  have hseq : unSeq .ND_NOT t = (if t.size = 8 then UnKind.lognot64 else UnKind.lognot32).seq := by cases t <;> rfl
  rw [hseq]
  obtain ⟨s', h1, h2⟩ := (if t.size = 8 then UnKind.lognot64 else UnKind.lognot32).effect s
  exact ⟨s', h1, h2 ▸ lognot_computes t _ _ h⟩

/-! ## loads and stores -/

/-- **sign- and zero-extending loads** (`movsbl/movzbl/movswl/movzwl (%rax),%eax`, `movsxd (%rax),%rax`, `mov (%rax),%rax`):
    if the object of type `t` at the address in `%rax` holds `v`, the load leaves `%rax` representing `v` in type `t`
    (in particular `unsigned int` objects are loaded with `movsxd`, which the invariant allows) and memory unchanged. -/
theorem C01_load (t : ITy) (s : State) (v : Int) (h : MemHolds t s (s.get .rax) v) :
    ∃ s', X86.run (loadSeq t) s = some s' ∧ Represents t (s'.get .rax) v ∧ s'.mem = s.mem :=
  load_ok t s v h

/-- **truncating stores** (`pop %rdi; mov %al/%ax/%eax/%rax,(%rdi)`): with the object's address on top of the stack and
    `%rax` representing `v` in type `t`, afterwards the object holds `v`, `%rax` is unchanged (the value of the
    assignment expression) and the stack is popped. -/
theorem C01_store (t : ITy) (s : State) (p : BitVec 64) (v : Int) (hp : s.read64 (s.get .rsp) = p)
    (h : Represents t (s.get .rax) v) :
    ∃ s', X86.run (storeSeq t) s = some s' ∧ MemHolds t s' p v ∧ s'.get .rax = s.get .rax ∧
      s'.get .rsp = s.get .rsp + 8 :=
  store_ok t s p v hp h

/-! ## composition -/

/-- **value of every side-effect-free expression, arbitrary nesting** (DESIGN `C01_value`, pure fragment): for every
    expression tree `e` built from literals, variables, casts, unary `+ - ~ !` and the sixteen binary operators, every
    store `σ`, every machine state `m` whose frame holds `σ` (variable `i` at `off i (%rbp)`, frame above `%rsp`) with
    `depthE e` free stack slots: if `compileE` assembles `code` of type `t` and C11 defines the value `v` of `e`
    (`evalE`: no signed overflow, division by zero, out-of-range shift … anywhere in the tree), then `code` runs without a
    CPU fault and leaves `%rax` representing `v` in type `t`, `t` is the C11 type of `e`, `%rsp` and `%rbp` are unchanged,
    the frame still holds the store — and (added to the statement as first written, needed by the induction) every byte
    at or above `%rsp` is unchanged and the store is unchanged.  By induction on `e` through the push/pop discipline of
    `gen_expr` (`bin_glue`), composing `C01_load`, `C01_cast`, `C01_unary_full`, `C01_lognot`, `C01_binop`, `C01_shift`,
    `C01_rel_swapped`, `C01_op_type` with the frame lemmas of Lemmas/C01Frame.lean.  `compileE` is tied to `gen_expr` by
    instruction-text equality with `chibicc -S` on generated expression nests (checklib/C01.py leg b2).
    Not covered here: assignments (`C01_value_effects` below) and `&&`, `||`, `?:` (`C01_value_full` below). -/
theorem C01_value (σ : Env) (off : Nat → Int) (e : E) (t : ITy) (code : List Ins) (v : Int) (σ' : Env) (m : State)
    (hc : compileE σ.tys off e = some (t, code)) (hv : evalE σ e = some (v, σ'))
    (hf : FrameHolds σ off (depthE e) m) :
    ∃ m', X86.run code m = some m' ∧ Represents t (m'.get .rax) v ∧ typeOf σ e = some t ∧
      m'.get .rsp = m.get .rsp ∧ m'.get .rbp = m.get .rbp ∧ FrameHolds σ off (depthE e) m' ∧
      (∀ a : BitVec 64, (m.get .rsp).toNat ≤ a.toNat → m'.mem a = m.mem a) ∧ σ' = σ := by
  obtain ⟨hσ, m', hrun, hrep, hk⟩ := value_pure σ off e t code v σ' m (depthE e) hc hv (Nat.le_refl _) hf
  exact ⟨m', hrun, hrep, compileE_typeOf σ off e t code hc, hk.rsp, hk.rbp, hf.keeps hk, hk.mem, hσ⟩

/-- non-vacuity: `v0 + v1 * 2 > -(long)5 - v0` with `signed char v0 = -3`, `unsigned v1 = 7` in a concrete frame
    (two stack slots needed; common types `unsigned`, `long`, `long`): compiles, has the C11 value 1, the frame holds. -/
example : ∃ code, compileE exEnv.tys exOff exE = some (.i32, code) ∧ evalE exEnv exE = some (1, exEnv) ∧
    depthE exE = 2 ∧ FrameHolds exEnv exOff (depthE exE) exState :=
  ⟨_, rfl, rfl, rfl, exFrame⟩

/-- **value and side effects of every expression built from literals, variables, casts, unary and binary operators, `,`,
    `=`, the ten `op=`, prefix and postfix `++` `--` on variables, arbitrary nesting** (DESIGN `C01_value` with
    `C01_assign`, `C01_opassign`, `C01_incdec`): if `compileX` assembles `code` of type `t` using `K` hidden temporaries
    (the model of `gen_expr` and of the parse.c rewritings `A op= B` → `tmp = &A, *tmp = *tmp op B`, `++A` → `A += 1`,
    `A++` → `(T)((A += 1) - 1)`), C11 defines the value `v` and the store `σ'` after `e` (`evalE`, left operand first), and
    the operands of every binary operator are free of conflicting accesses (`noConflict`: C11 6.5p2, without which the
    behaviour is undefined — chibicc evaluates the *right* operand first), then from every machine state whose frame
    holds `σ` (`FrameX`: variables and temporaries pairwise disjoint at or above `%rsp`, `depthX e` free stack slots) the
    code runs without a CPU fault, leaves `%rax` representing `v` in type `t` = the C11 type of `e`, `%rsp` / `%rbp`
    unchanged, **the frame holding `σ'`** (every assigned variable has received exactly the C11-converted value, every
    other variable is untouched), and no byte at or above `%rsp` outside the assigned variables and the temporaries has
    changed.  The lvalue of `op=` / `++` / `--` is evaluated once (through the hidden pointer).
    `&&`, `||`, `?:` (jumps): `C01_value_full` below.  Not covered: postfix `++` `--` on `_Bool` (two temporaries), lvalues
    other than variables. -/
theorem C01_value_effects (σ : Env) (off toff : Nat → Int) (e : E) (t : ITy) (code : List Ins) (K : Nat) (v : Int)
    (σ' : Env) (m : State)
    (hc : compileX σ.tys off toff 0 e = some (t, code, K)) (hv : evalE σ e = some (v, σ')) (hnc : noConflict e = true)
    (hf : FrameX σ off toff K (depthX e) m) :
    ∃ m', X86.run code m = some m' ∧ Represents t (m'.get .rax) v ∧ typeOf σ e = some t ∧
      m'.get .rsp = m.get .rsp ∧ m'.get .rbp = m.get .rbp ∧ FrameX σ' off toff K (depthX e) m' ∧
      (∀ a : BitVec 64, (m.get .rsp).toNat ≤ a.toNat → ¬ inVar σ.tys off (m.get .rbp) (wr e) a →
        ¬ inTmp toff (m.get .rbp) 0 K a → m'.mem a = m.mem a) := by
  obtain ⟨hty, hE⟩ := value_x off toff K e σ t code v σ' 0 K hc hv hnc (Nat.le_refl _)
  obtain ⟨m', hrun, hrep, hH, hu⟩ := hE m (depthX e) _ hf.2.1 (Nat.le_refl _) hf.1 (Nat.le_refl _) hf.2.2
  refine ⟨m', hrun, hrep, (compileX_facts σ.tys off toff e 0 t code K hc).2.2 σ rfl, hu.rsp, hu.rbp, ?_, hu.mem⟩
  exact ⟨by rw [hu.rsp]; exact hf.1, by rw [hty, hu.rsp, hu.rbp]; exact hf.2.1, hH⟩

/-- non-vacuity: `(v1 += v0, v0++ + v1)` with `signed char v0 = -3`, `unsigned v1 = 7` in a concrete frame (two hidden
    temporaries, four stack slots): compiles, is conflict-free, has the C11 value 1 and leaves `v0 = -2`, `v1 = 4`. -/
example : ∃ code, compileX exEnv.tys exXOff exXToff 0 exXE = some (.u32, code, 2) ∧
    evalE exEnv exXE = some (1, ⟨[.i8, .u32], [-2, 4]⟩) ∧ noConflict exXE = true ∧ depthX exXE = 4 ∧
    FrameX exEnv exXOff exXToff 2 (depthX exXE) exXState :=
  ⟨_, rfl, rfl, rfl, rfl, exXFrame⟩

/-- **the layout hypothesis of `C01_value_effects` holds for every frame whose offsets pass the executable check
    `layoutOK`** (each variable and hidden temporary inside `[-N, 0)` relative to `%rbp`, pairwise disjoint) once the
    prologue has established `%rbp = %rsp + N`.  checklib/C01.py runs `layoutOK` on the offsets chibicc actually assigns
    in every generated function of leg b2. -/
theorem C01_layout (σ : Env) (off toff : Nat → Int) (K : Nat) (N : Int) (n : Nat) (m : State)
    (h : layoutOK σ.tys off toff K N = true) (hbp : ((m.get .rbp).toNat : Int) = (m.get .rsp).toNat + N)
    (hhi : (m.get .rbp).toNat + 8 ≤ 2 ^ 64) (hn : 8 * n ≤ (m.get .rsp).toNat) (hH : Holds off σ m) :
    FrameX σ off toff K n m :=
  ⟨hn, lay_of_layoutOK σ.tys off toff K N h (m.get .rbp) _ hbp hhi, hH⟩

example : layoutOK exEnv.tys exXOff exXToff 2 32 = true := by decide

/-- on side-effect-free expressions the two compilers coincide, so `C01_value_effects` extends `C01_value` -/
theorem C01_value_effects_extends (tys : List ITy) (off toff : Nat → Int) (e : E) (t : ITy) (code : List Ins) (k : Nat)
    (h : compileE tys off e = some (t, code)) : compileX tys off toff k e = some (t, code, k) :=
  compileX_pure tys off toff e t code k h

example : compileE exEnv.tys exOff exE ≠ none := by decide

/-! ## the full expression type: `&&`, `||`, `?:` (code with labels and jumps) -/

/-- **on jump-free code the machine with jumps is `X86.run`**: every theorem above about `X86.run code` is a theorem about
    `runJ` on the program `J code` (fuel = number of lines) -/
theorem C01_jump_free (is : List Ins) (s : State) : runJ is.length (J is) 0 s = X86.run is s :=
  runJ_ins is s

/-- **freshness of the labels `gen_expr` makes up from `count()`**: the code `compileJ` assembles while the counter goes
    from `c0` to `c1` draws exactly `nlbl e` numbers (one per `&&`, `||`, `?:`), every label it defines has its number in
    `[c0, c1)`, and no label is defined twice — so resolving a label by position (`findLbl`: the first definition) finds the
    only definition, wherever the code is placed among code compiled with other counter values. -/
theorem C01_labels_fresh (tys : List ITy) (off toff : Nat → Int) (e : E) (k0 c0 : Nat) (t : ITy) (code : List JI) (k1 c1 : Nat)
    (h : compileJ tys off toff k0 c0 e = some (t, code, k1, c1)) :
    c1 = c0 + nlbl e ∧ (∀ l ∈ defs code, c0 ≤ l.n ∧ l.n < c1) ∧ (defs code).Nodup :=
  have f := compileJ_facts tys off toff e k0 c0 t code k1 c1 h
  ⟨f.c, f.rng, f.nodup⟩

/-- the printed label (`.L.else.7`) determines the structured label: resolution by position of structured labels is
    resolution by position of the text the tie compares -/
theorem C01_label_spelling (l l' : Lbl) (h : l.render = l'.render) : l = l' := Lbl.render_inj h

/-- the full expression of the non-vacuity examples below: `(v0 && (v1 += v0)) ? (v1 || v0++) : 5L` -/
def exJE : E := .cond (.land (.var 0) (.opassign .add 1 (.var 0))) (.lor (.var 1) (.postinc 0)) (.lit .i64 5)

example : ∃ code, compileJ exEnv.tys exXOff exXToff 0 1 exJE = some (.i64, code, 2, 4) := ⟨_, rfl⟩

/-- **value and side effects of EVERY expression of the type `E`: literals, variables, casts, unary and binary operators,
    `,`, `=`, the ten `op=`, prefix and postfix `++` `--` on variables, and `&&`, `||`, `?:`, arbitrary nesting** (DESIGN
    `C01_value` in full).  If `compileJ` assembles `code` of type `t` using `K` hidden temporaries and the label numbers
    `c0 ≤ · < c1`, C11 defines the value `v` and the store `σ'` after `e` (`evalE`: short-circuit evaluation of `&&` `||`,
    exactly one of the second / third operands of `?:` evaluated, result `int` 0 / 1 resp. the arm converted to the common
    type), and the operands of every binary operator are free of conflicting accesses (`noConflict`, C11 6.5p2; the operands of
    `&&` `||` `?:` `,` are sequenced and need no such condition), then from every machine state whose frame holds `σ`
    (`FrameX`, `depthJ e` free stack slots) the program `code`, entered at its first line, **terminates within `code.length`
    steps** (every jump taken is forward; `runJ` with fuel `code.length` returns), without a CPU fault, without a jump on
    undefined flags or to a missing label, and leaves `%rax` representing `v` in type `t` = the C11 type of `e`, `%rsp` / `%rbp`
    unchanged, **the frame holding `σ'`** — in particular the side effects of an operand that C11 does not evaluate have not
    happened — and no byte at or above `%rsp` outside the variables `e` may assign and the temporaries has changed.
    By induction on `e` over `EvJ` (Lemmas/C01JumpMachine.lean), whose combinators reuse every per-node theorem above
    unchanged; `cmp_zero` is `C01_lognot`'s comparison; label resolution by position rests on `C01_labels_fresh`.
    Not covered: postfix `++` `--` on `_Bool` (two temporaries), lvalues other than variables. -/
theorem C01_value_full (σ : Env) (off toff : Nat → Int) (e : E) (t : ITy) (code : List JI) (K c0 c1 : Nat) (v : Int)
    (σ' : Env) (m : State)
    (hc : compileJ σ.tys off toff 0 c0 e = some (t, code, K, c1)) (hv : evalE σ e = some (v, σ')) (hnc : noConflict e = true)
    (hf : FrameX σ off toff K (depthJ e) m) :
    ∃ m', runJ code.length code 0 m = some m' ∧ Represents t (m'.get .rax) v ∧ typeOf σ e = some t ∧
      m'.get .rsp = m.get .rsp ∧ m'.get .rbp = m.get .rbp ∧ FrameX σ' off toff K (depthJ e) m' ∧
      (∀ a : BitVec 64, (m.get .rsp).toNat ≤ a.toNat → ¬ inVar σ.tys off (m.get .rbp) (wr e) a →
        ¬ inTmp toff (m.get .rbp) 0 K a → m'.mem a = m.mem a) := by
  have fc := compileJ_facts σ.tys off toff e 0 c0 t code K c1 hc
  obtain ⟨hty, hE⟩ := value_j (fun _ => True) off toff K e σ t code v σ' 0 K c0 c1 hc hv hnc (Nat.le_refl _)
  obtain ⟨m', hrun, hrep, hH, hu⟩ := hE m (depthJ e) _ trivial hf.2.1 (Nat.le_refl _) hf.1 (Nat.le_refl _) hf.2.2
  refine ⟨m', hrun.runJ fc.nodup, hrep, fc.ty σ rfl, hu.rsp, hu.rbp, ?_, hu.mem⟩
  exact ⟨by rw [hu.rsp]; exact hf.1, by rw [hty, hu.rsp, hu.rbp]; exact hf.2.1, hH⟩

/-- non-vacuity: `(v0 && (v1 += v0)) ? (v1 || v0++) : 5L` with `signed char v0 = -3`, `unsigned v1 = 7` in a concrete frame
    (two hidden temporaries, three stack slots, labels 1 … 3): compiles, is conflict-free, has the C11 value 1 of type `long`,
    leaves `v1 = 4` and — `v0++` not being evaluated — `v0 = -3`. -/
example : ∃ code, compileJ exEnv.tys exXOff exXToff 0 1 exJE = some (.i64, code, 2, 4) ∧
    evalE exEnv exJE = some (1, ⟨[.i8, .u32], [-3, 4]⟩) ∧ noConflict exJE = true ∧ depthJ exJE = 3 ∧
    FrameX exEnv exXOff exXToff 2 (depthJ exJE) exXState :=
  ⟨_, rfl, rfl, rfl, rfl, ⟨by decide, exXFrame.2.1, exXFrame.2.2⟩⟩

/-- **the same wherever the code sits**: inside any program `pre ++ code ++ post` whose labels are defined once (e.g. the
    function body around the expression, compiled with other values of the counter: `C01_labels_fresh`), execution entering
    `code` at its first line reaches the line after its last one in at most `code.length` steps, with the conclusions of
    `C01_value_full`. -/
theorem C01_value_full_embedded (σ : Env) (off toff : Nat → Int) (e : E) (t : ITy) (code : List JI) (K c0 c1 : Nat) (v : Int)
    (σ' : Env) (m : State) (pre post : List JI)
    (hc : compileJ σ.tys off toff 0 c0 e = some (t, code, K, c1)) (hv : evalE σ e = some (v, σ')) (hnc : noConflict e = true)
    (hf : FrameX σ off toff K (depthJ e) m) (hfresh : (defs (pre ++ code ++ post)).Nodup) :
    ∃ m' n, n ≤ code.length ∧ stepsJ (pre ++ code ++ post) n (pre.length, m) = some (pre.length + code.length, m') ∧
      Represents t (m'.get .rax) v ∧ m'.get .rsp = m.get .rsp ∧ m'.get .rbp = m.get .rbp ∧
      FrameX σ' off toff K (depthJ e) m' ∧
      (∀ a : BitVec 64, (m.get .rsp).toNat ≤ a.toNat → ¬ inVar σ.tys off (m.get .rbp) (wr e) a →
        ¬ inTmp toff (m.get .rbp) 0 K a → m'.mem a = m.mem a) := by
  obtain ⟨hty, hE⟩ := value_j (fun _ => True) off toff K e σ t code v σ' 0 K c0 c1 hc hv hnc (Nat.le_refl _)
  obtain ⟨m', hrun, hrep, hH, hu⟩ := hE m (depthJ e) _ trivial hf.2.1 (Nat.le_refl _) hf.1 (Nat.le_refl _) hf.2.2
  obtain ⟨_, n, hn, hs⟩ := hrun _ _ (At_mid pre code post) hfresh
  refine ⟨m', n, by omega, hs, hrep, hu.rsp, hu.rbp, ?_, hu.mem⟩
  exact ⟨by rw [hu.rsp]; exact hf.1, by rw [hty, hu.rsp, hu.rbp]; exact hf.2.1, hH⟩

example : (defs ([JI.lbl ⟨.end_, 0⟩] ++ (landCode 1 .i32 .i32 [] []) ++ [JI.lbl ⟨.else_, 9⟩])).Nodup := by decide

/-- on the expressions `compileX` handles (no `&&` `||` `?:`) `compileJ` assembles the same code, as a jump-free program,
    with the same type and temporaries and without drawing a label number — so `C01_value_full` extends
    `C01_value_effects` (through `C01_jump_free`). -/
theorem C01_value_full_extends (tys : List ITy) (off toff : Nat → Int) (e : E) (k c : Nat) (t : ITy) (code : List Ins) (k1 : Nat)
    (h : compileX tys off toff k e = some (t, code, k1)) : compileJ tys off toff k c e = some (t, J code, k1, c) :=
  (compileJ_of_compileX tys off toff e k c t code k1 h).1

example : compileX exEnv.tys exXOff exXToff 0 exXE ≠ none := by decide

/-! ## pointer arithmetic (parse.c `new_add`, `new_sub`) -/

/-- **the index of pointer arithmetic is scaled by a 64-bit multiplication of the sign/zero-extended index** (C11 6.5.6p8:
    `p + i` points `i` elements on, i.e. `i * sizeof *p` bytes): `new_add` / `new_sub` build `ND_MUL(idx, new_long(size))`;
    for every index type (`_Bool` … `unsigned long`), every index value `vi`, every element size, any side-effect-free index
    code: the sequence `scaleCode` leaves `%rax = vi * size` modulo 2^64 — no 32-bit wrap-around for `int` / `unsigned`
    or narrower indices whose byte offset exceeds 2^31.  Shared by `p + i`, `i + p`, `p - i`, `p[i]`, `p += i`, `p -= i`,
    `++p`, `p++`, `--p`, `p--` (tied to parse.c by the instruction text of all these forms, checklib/C01.py leg b3). -/
theorem C01_ptr_scale (σ : Env) (off : Nat → Int) (ei : E) (ti : ITy) (ci : List Ins) (vi size : Int) (m : State)
    (hci : compileE σ.tys off ei = some (ti, ci)) (hvi : evalE σ ei = some (vi, σ)) (hs : ITy.i64.inRange size)
    (hf : FrameHolds σ off (depthE ei + 1) m) :
    ∃ m', X86.run (scaleCode ti size ci) m = some m' ∧ m'.get .rax = BitVec.ofInt 64 (vi * size) ∧
      m'.get .rsp = m.get .rsp ∧ m'.get .rbp = m.get .rbp ∧ FrameHolds σ off (depthE ei + 1) m' := by
  obtain ⟨m', hrun, hr, hk⟩ := scale_ev ti size ci vi hs hf
    (fun m2 hf2 => (value_pure σ off ei ti ci vi σ m2 (depthE ei) hci hvi (Nat.le_refl _) hf2).2)
  exact ⟨m', hrun, hr, hk.rsp, hk.rbp, hf.keeps hk⟩

/-- **`p + e`, `p - e` (`e + p`, `&p[e]`) have the C11 address `p ± e * sizeof *p`** (modulo 2^64), for every index type
    and value, every element size, any side-effect-free index expression `e`, the pointer held in an 8-byte variable `j`
    of the frame (value `pv`) -/
theorem C01_ptr_add (isSub : Bool) (σ : Env) (off : Nat → Int) (ei : E) (ti : ITy) (ci : List Ins) (vi : Int) (j : Nat)
    (pv size : Int) (m : State) (hci : compileE σ.tys off ei = some (ti, ci)) (hvi : evalE σ ei = some (vi, σ))
    (hj : σ.tys[j]? = some .u64) (hpv : σ.vals[j]? = some pv) (hs : ITy.i64.inRange size)
    (hf : FrameHolds σ off (depthE ei + 2) m) :
    ∃ m', X86.run (ptrAddCode isSub ti size ci (ptrVarCode (off j))) m = some m' ∧
      m'.get .rax = BitVec.ofInt 64 (if isSub then pv - vi * size else pv + vi * size) ∧
      m'.get .rsp = m.get .rsp ∧ m'.get .rbp = m.get .rbp ∧ FrameHolds σ off (depthE ei + 2) m' := by
  obtain ⟨m', hrun, hr, hk⟩ := ptr_add_expr isSub σ off ei ti ci vi j pv size m hci hvi hj hpv hs hf
  exact ⟨m', hrun, hr, hk.rsp, hk.rbp, hf.keeps hk⟩

/-- **`p - q` is the number of elements between the two pointers** (C11 6.5.6p9): `(long)(p - q) / (long)size` by
    `cqo; idiv`; if `p` is `k` elements after `q` (`k * size` a `long`), `%rax` represents `k` in type `long` -/
theorem C01_ptr_diff (σ : Env) (off : Nat → Int) (jp jq : Nat) (pv qv size k : Int) (m : State)
    (hjp : σ.tys[jp]? = some .u64) (hpv : σ.vals[jp]? = some pv) (hjq : σ.tys[jq]? = some .u64)
    (hqv : σ.vals[jq]? = some qv) (hs0 : 0 < size) (hs : ITy.i32.inRange size) (hk : ITy.i64.inRange (k * size))
    (hpq : pv = qv + k * size) (hf : FrameHolds σ off 2 m) :
    ∃ m', X86.run (ptrDiffCode size (ptrVarCode (off jp)) (ptrVarCode (off jq))) m = some m' ∧
      Represents .i64 (m'.get .rax) k ∧ m'.get .rsp = m.get .rsp ∧ m'.get .rbp = m.get .rbp ∧ FrameHolds σ off 2 m' := by
  obtain ⟨m', hrun, hr, hkp⟩ := ptr_diff_ev (n := 0) size (ptrVarCode (off jp)) (ptrVarCode (off jq)) (BitVec.ofInt 64 pv)
    (BitVec.ofInt 64 qv) k hs0 hs hk (by rw [hpq, BitVec.ofInt_add]) hf
    (fun j m2 _ hf2 => ptrVar_ev jp pv hjp hpv j m2 hf2) (fun j m2 _ hf2 => ptrVar_ev jq qv hjq hqv j m2 hf2)
  exact ⟨m', hrun, hr, hkp.rsp, hkp.rbp, hf.keeps hkp⟩

/-- non-vacuity: two `int *` 600 000 000 elements (2 400 000 000 bytes) apart in a concrete frame -/
example : ptrEnv2.tys[0]? = some .u64 ∧ ptrEnv2.vals[0]? = some 0x10008f0d1800 ∧ ptrEnv2.tys[1]? = some .u64 ∧
    ptrEnv2.vals[1]? = some 0x100000000000 ∧ ITy.i32.inRange 4 ∧ ITy.i64.inRange (600000000 * 4) ∧
    (0x10008f0d1800 : Int) = 0x100000000000 + 600000000 * 4 ∧ FrameHolds ptrEnv2 exOff 2 ptrState2 :=
  ⟨rfl, rfl, rfl, rfl, by decide, by decide, by decide, ptrFrame2⟩

/-- non-vacuity: `int *p = (int *)0x100000000000; int i = 600000000; p + i` (byte offset 2 400 000 000 > 2^31): the
    hypotheses are satisfiable (a frame holding the pointer and the index), and the address is `p + 2400000000` -/
example : ∃ (σ : Env) (m : State) (ci : List Ins), compileE σ.tys exOff (.var 1) = some (.i32, ci) ∧
    evalE σ (.var 1) = some (600000000, σ) ∧ σ.tys[0]? = some .u64 ∧ σ.vals[0]? = some 0x100000000000 ∧
    FrameHolds σ exOff (depthE (.var 1) + 2) m ∧
    BitVec.ofInt 64 (0x100000000000 + 600000000 * 4) = 0x10008f0d1800#64 :=
  ⟨ptrEnv, ptrState, _, rfl, rfl, rfl, rfl, ptrFrame, by decide⟩

/-- **`p += e`, `p -= e`** (and `++p`, `--p`: `e` the literal 1) — parse.c `to_assign` over `new_add` / `new_sub`:
    `tmp = &p, *tmp = *tmp ± e * sizeof *p` through the hidden pointer temporary.  For every index type and value, every
    element size, ANY index expression `compileX` handles (side effects included; evaluated once, before `*tmp` is read), the
    pointer held in the 8-byte variable `j` (value `pv` after the index has been evaluated): the code runs, leaves in `%rax` and
    stores into `j` the C11 address `pv ± vi * size` (C11 6.5.16.2 with 6.5.6p8; modulo 2^64), and the frame holds the store
    after the index expression with `j` updated; nothing else at or above `%rsp` changes.  The instruction text of all these
    forms is tied to chibicc by checklib/C01.py leg b3. -/
theorem C01_ptr_opassign (isSub : Bool) (σ : Env) (off toff : Nat → Int) (ei : E) (ti : ITy) (ci : List Ins) (K : Nat) (vi : Int)
    (σ1 : Env) (j : Nat) (pv size : Int) (m : State)
    (hci : compileX σ.tys off toff 0 ei = some (ti, ci, K)) (hvi : evalE σ ei = some (vi, σ1)) (hnc : noConflict ei = true)
    (hj : σ.tys[j]? = some .u64) (hpv : σ1.vals[j]? = some pv) (hs : ITy.i64.inRange size)
    (hf : FrameX σ off toff (K + 1) (depthX ei + 2) m) :
    ∃ m', X86.run (ptrOpAssignCode isSub ti size (off j) (toff K) ci) m = some m' ∧
      m'.get .rax = BitVec.ofInt 64 (ptrStep isSub pv vi size) ∧ m'.get .rsp = m.get .rsp ∧ m'.get .rbp = m.get .rbp ∧
      FrameX (σ1.set j (ptrStep isSub pv vi size % 18446744073709551616)) off toff (K + 1) (depthX ei + 2) m' ∧
      (∀ a : BitVec 64, (m.get .rsp).toNat ≤ a.toNat → ¬ inVar σ.tys off (m.get .rbp) (j :: wr ei) a →
        ¬ inTmp toff (m.get .rbp) 0 (K + 1) a → m'.mem a = m.mem a) := by
  have E := value_x off toff (K + 1) ei σ ti ci vi σ1 0 K hci hvi hnc (by omega)
  obtain ⟨hty, hE⟩ := EvX.ptr_opassign isSub ti size vi pv hs hj E hpv (Nat.zero_le _) (by omega)
  obtain ⟨m', hrun, hrep, hH, hu⟩ := hE m (depthX ei + 2) _ hf.2.1 (Nat.le_refl _) hf.1 (Nat.le_refl _) hf.2.2
  refine ⟨m', hrun, hrep, hu.rsp, hu.rbp, ?_, hu.mem⟩
  exact ⟨by rw [hu.rsp]; exact hf.1, by rw [hty, hu.rsp, hu.rbp]; exact hf.2.1, hH⟩

/-- non-vacuity: `int *p = (int *)0x100000000000; int i = 600000000; p += i` in a concrete frame with one hidden temporary:
    the hypotheses hold, and the new pointer is `p + 2400000000` -/
example : compileX ptrEnv.tys exOff ptrToff 0 (.var 1) = some (.i32, iLea (exOff 1) :: loadSeq .i32, 0) ∧
    evalE ptrEnv (.var 1) = some (600000000, ptrEnv) ∧ ptrEnv.tys[0]? = some .u64 ∧ ptrEnv.vals[0]? = some 0x100000000000 ∧
    FrameX ptrEnv exOff ptrToff (0 + 1) (depthX (.var 1) + 2) ptrState ∧
    ptrStep false 0x100000000000 600000000 4 = 0x10008f0d1800 :=
  ⟨rfl, rfl, rfl, rfl, ⟨by decide, ptrFrameX.2.1, ptrFrameX.2.2⟩, by decide⟩

/-- `++p` / `--p` are `p += 1` / `p -= 1` with the literal `1` as index -/
example (tys : List ITy) (off toff : Nat → Int) : compileX tys off toff 0 (.lit .i32 1) = some (.i32, [iMovImm 1], 0) := rfl

/-- **`p++`, `p--`** — parse.c `new_inc_dec`: `(T*)((p += ±1) + ∓1)`: the value of the expression is the old pointer `pv`, the
    variable receives `pv ± sizeof *p` (C11 6.5.2.4p2, modulo 2^64); one hidden temporary, three stack slots. -/
theorem C01_ptr_postfix (isDec : Bool) (σ : Env) (off toff : Nat → Int) (j : Nat) (pv size : Int) (m : State)
    (hj : σ.tys[j]? = some .u64) (hpv : σ.vals[j]? = some pv) (hs : ITy.i64.inRange size) (hf : FrameX σ off toff 1 3 m) :
    ∃ m', X86.run (ptrPostCode isDec size (off j) (toff 0)) m = some m' ∧ m'.get .rax = BitVec.ofInt 64 pv ∧
      m'.get .rsp = m.get .rsp ∧ m'.get .rbp = m.get .rbp ∧
      FrameX (σ.set j ((if isDec then pv - size else pv + size) % 18446744073709551616)) off toff 1 3 m' ∧
      (∀ a : BitVec 64, (m.get .rsp).toNat ≤ a.toNat → ¬ inVar σ.tys off (m.get .rbp) [j] a →
        ¬ inTmp toff (m.get .rbp) 0 1 a → m'.mem a = m.mem a) := by
  obtain ⟨hty, hE⟩ := EvX.ptr_postfix (off := off) (toff := toff) (K := 1) (k0 := 0) isDec size pv hs hj hpv (by omega)
  obtain ⟨m', hrun, hrep, hH, hu⟩ := hE m 3 _ hf.2.1 (Nat.le_refl _) hf.1 (Nat.le_refl _) hf.2.2
  refine ⟨m', hrun, hrep, hu.rsp, hu.rbp, ?_, hu.mem⟩
  exact ⟨by rw [hu.rsp]; exact hf.1, by rw [hty, hu.rsp, hu.rbp]; exact hf.2.1, hH⟩

example : ptrEnv.tys[0]? = some .u64 ∧ ptrEnv.vals[0]? = some 0x100000000000 ∧ ITy.i64.inRange 4 ∧
    FrameX ptrEnv exOff ptrToff 1 3 ptrState := ⟨rfl, rfl, by decide, ptrFrameX⟩

/-! ## lvalues other than variables: `s.m`, `a[i]`, `*p`, `p->m`, `p[i]` and their nestings

`LVal` (Model/C01Lvalue) are the lvalue forms of `gen_addr`; `lvAddr` is the address C11 gives the lvalue (6.5.2.1, 6.5.2.3,
6.5.3.2, 6.5.6p8: base + member offsets + index × element size; the value of `p` for `*p`), with the store after its index
expression (any expression of the full type `E`) has been evaluated.  "The lvalue designates variable `i`" is: that address
is the address of `i` (`frameAddr bp (off i)`) and `i` has the lvalue's type.  The store may hold absolute addresses (a pointer
variable pointing at a variable of the frame): they refer to the frame at the `%rbp` of the machine state of the theorem.
`C01_lvalue_load` / `_assign` / `_opassign`: the lvalue is the root of the expression, its index expression any expression of type
`E` (side effects, jumps).  `C01_value_lvalues`: lvalues anywhere in an expression of type `E`, with side-effect-free address
computations whose dependencies the expression does not assign.
Tie: instruction / label / jump text of generated functions over struct, array and pointer objects (checklib/C01.py legs b4, b5),
member offsets by the psABI layout rule; three-way run-time oracles on the same forms. -/

/-- **the value of an lvalue** (`gen_addr; load`): if the lvalue designates variable `i` of type `t` holding `v`, the code
    terminates within its length, leaves `%rax` representing `v` in type `t`, and the frame holds the store after the index
    expression. -/
theorem C01_lvalue_load (σ : Env) (off toff : Nat → Int) (lv : LVal) (t : ITy) (code : List JI) (K c0 c1 : Nat) (σ0 : Env)
    (i : Nat) (v : Int) (m : State)
    (hc : compileL σ.tys off toff 0 c0 (.load lv t) = some (t, code, K, c1))
    (haddr : lvAddr (m.get .rbp) off σ lv = some (frameAddr (m.get .rbp) (off i), σ0))
    (hnc : noConflictL lv = true) (hwf : wfL lv = true) (hti : σ.tys[i]? = some t) (hv : σ0.vals[i]? = some v)
    (hf : FrameX σ off toff K (depthL lv) m) :
    ∃ m', runJ code.length code 0 m = some m' ∧ Represents t (m'.get .rax) v ∧ m'.get .rsp = m.get .rsp ∧
      m'.get .rbp = m.get .rbp ∧ FrameX σ0 off toff K (depthL lv) m' ∧
      (∀ a : BitVec 64, (m.get .rsp).toNat ≤ a.toNat → ¬ inVar σ.tys off (m.get .rbp) (wrL lv) a →
        ¬ inTmp toff (m.get .rbp) 0 K a → m'.mem a = m.mem a) := by
  have hnd := (compileL_nodup σ.tys off toff 0 c0 _ t code K c1 hc).1
  simp only [compileL, Option.map_eq_some_iff, Prod.mk.injEq] at hc
  obtain ⟨⟨ca, k, c⟩, hca, _, h2, h3, h4⟩ := hc
  simp only at h2 h3 h4
  subst h2 h3 h4
  have Ea := addr_ev (m.get .rbp) off toff k lv σ ca _ σ0 0 k c0 c hca haddr hnc hwf (Nat.le_refl _)
  obtain ⟨hty, hE⟩ := EvJ.loadL (i := i) (t := t) (v := v) Ea (by rw [Ea.1]; exact hti) hv
  obtain ⟨m', hrun, hrep, hH, hu⟩ := hE m (depthL lv) _ rfl hf.2.1 (Nat.le_refl _) hf.1 (Nat.le_refl _) hf.2.2
  refine ⟨m', hrun.runJ hnd, hrep, hu.rsp, hu.rbp, ?_, hu.mem⟩
  exact ⟨by rw [hu.rsp]; exact hf.1, by rw [hty, hu.rsp, hu.rbp]; exact hf.2.1, hH⟩

/-- non-vacuity: `int x = 7; int *p = &x;` in a concrete frame — `*p` designates `x` -/
example : ∃ code, compileL lvEnv.tys exOff ptrToff 0 1 (.load (.deref 0) .i32) = some (.i32, code, 0, 1) ∧
    lvAddr (lvState.get .rbp) exOff lvEnv (.deref 0) = some (frameAddr (lvState.get .rbp) (exOff 1), lvEnv) ∧
    lvEnv.tys[1]? = some .i32 ∧ lvEnv.vals[1]? = some 7 ∧ FrameX lvEnv exOff ptrToff 0 (depthL (.deref 0)) lvState :=
  ⟨_, rfl, lvAddr_ex, rfl, rfl, lvFrameX 0 _ (by omega) (by decide)⟩

/-- **`lv = e`** (ND_ASSIGN: `gen_addr(lv); push; e; conversion; store`): if the lvalue designates variable `i` of type `t` and
    C11 defines the value `v` of `e` (evaluated after the index expression of the lvalue: chibicc's order; C11 leaves the two
    unsequenced, and under the no-conflict condition the order is immaterial), the code terminates, leaves `%rax`
    representing the converted value — the value of the assignment expression —, and the frame holds the store after `e`
    with `i` set to `(t)v`; nothing else at or above `%rsp` changes. -/
theorem C01_lvalue_assign (σ : Env) (off toff : Nat → Int) (lv : LVal) (t : ITy) (e : E) (code : List JI) (K c0 c1 : Nat)
    (σ0 σ1 : Env) (i : Nat) (v : Int) (m : State)
    (hc : compileL σ.tys off toff 0 c0 (.assign lv t e) = some (t, code, K, c1))
    (haddr : lvAddr (m.get .rbp) off σ lv = some (frameAddr (m.get .rbp) (off i), σ0))
    (hv : evalE σ0 e = some (v, σ1)) (hnc : noConflictL lv = true) (hnce : noConflict e = true) (hwf : wfL lv = true)
    (hti : σ.tys[i]? = some t) (hf : FrameX σ off toff K (max (depthL lv) (depthJ e + 1)) m) :
    ∃ m', runJ code.length code 0 m = some m' ∧ Represents t (m'.get .rax) (convert t v) ∧ m'.get .rsp = m.get .rsp ∧
      m'.get .rbp = m.get .rbp ∧ FrameX (σ1.set i (convert t v)) off toff K (max (depthL lv) (depthJ e + 1)) m' ∧
      (∀ a : BitVec 64, (m.get .rsp).toNat ≤ a.toNat → ¬ inVar σ.tys off (m.get .rbp) (wrL lv ++ (i :: wr e)) a →
        ¬ inTmp toff (m.get .rbp) 0 K a → m'.mem a = m.mem a) := by
  have hnd := (compileL_nodup σ.tys off toff 0 c0 _ t code K c1 hc).1
  simp only [compileL] at hc
  cases hca : addrCode σ.tys off toff 0 c0 lv with
  | none => simp [hca] at hc
  | some pa =>
    obtain ⟨ca, ka, cca⟩ := pa
    simp only [hca, Option.map_eq_some_iff, Prod.mk.injEq] at hc
    obtain ⟨⟨te, ce, ke, cce⟩, hce, _, h2, h3, h4⟩ := hc
    simp only at h2 h3 h4
    subst h2 h3 h4
    have fa := addrCode_facts σ.tys off toff lv 0 c0 ca ka cca hca
    have fe := compileJ_facts σ.tys off toff e ka cca te ce ke cce hce
    have Ea := addr_ev (m.get .rbp) off toff ke lv σ ca _ σ0 0 ka c0 cca hca haddr hnc hwf fe.k
    have Ee := (value_j (AtBp (m.get .rbp)) off toff ke e σ0 te ce v σ1 ka ke cca cce (by rw [Ea.1]; exact hce) hv hnce
      (Nat.le_refl _)).then_same (R2 := fun r => Represents t r (convert t v)) (fun s hs => cast_run te t s v hs)
    obtain ⟨hty, hE⟩ := EvJ.assignL (k0 := 0) (k1 := ke) hti Ea Ee ⟨Nat.le_refl _, fe.k, Nat.zero_le _, Nat.le_refl _⟩ (Nat.le_refl _)
    obtain ⟨m', hrun, hrep, hH, hu⟩ := hE m _ _ rfl hf.2.1 (Nat.le_refl _) hf.1 (Nat.le_refl _) hf.2.2
    refine ⟨m', hrun.runJ hnd, hrep, hu.rsp, hu.rbp, ?_, hu.mem⟩
    exact ⟨by rw [hu.rsp]; exact hf.1, by rw [hty, hu.rsp, hu.rbp]; exact hf.2.1, hH⟩

/-- non-vacuity: `*p = 300` with `p = &x`: `x` becomes 300 -/
example : ∃ code, compileL lvEnv.tys exOff ptrToff 0 1 (.assign (.deref 0) .i32 (.lit .i64 300)) = some (.i32, code, 0, 1) ∧
    lvAddr (lvState.get .rbp) exOff lvEnv (.deref 0) = some (frameAddr (lvState.get .rbp) (exOff 1), lvEnv) ∧
    evalE lvEnv (.lit .i64 300) = some (300, lvEnv) ∧ lvEnv.tys[1]? = some .i32 ∧
    FrameX lvEnv exOff ptrToff 0 (max (depthL (.deref 0)) (depthJ (.lit .i64 300) + 1)) lvState :=
  ⟨_, rfl, lvAddr_ex, rfl, rfl, lvFrameX 0 _ (by omega) (by decide)⟩

/-- **`lv op= e`** (and `++lv`, `--lv`: `e` the literal 1) — parse.c `to_assign`: `tmp = &lv, *tmp = *tmp op e`, for a member
    `P.x`: `tmp = &P, (*tmp).x = (*tmp).x op e`: if the lvalue designates variable `i` of type `t`, C11 defines the value `v` of
    `e` (type `te`) and `x op v` for the value `x` of `i` after `e` has been evaluated (`compound`: operands converted to the common
    type, the result converted back to `t`), the code terminates, leaves `%rax` representing the new value `r`, and the frame
    holds the store after `e` with `i` set to `r`; the lvalue's address is computed once. -/
theorem C01_lvalue_opassign (σ : Env) (off toff : Nat → Int) (op : BinOp) (lv : LVal) (t te : ITy) (e : E) (code : List JI)
    (K c0 c1 : Nat) (σ0 σ1 : Env) (i : Nat) (v x r : Int) (m : State)
    (hc : compileL σ.tys off toff 0 c0 (.opassign op lv t e) = some (t, code, K, c1))
    (haddr : lvAddr (m.get .rbp) off σ lv = some (frameAddr (m.get .rbp) (off i), σ0))
    (hv : evalE σ0 e = some (v, σ1)) (hte : typeOf σ e = some te) (hx : σ1.vals[i]? = some x)
    (hr : compound op t te x v = some r)
    (hnc : noConflictL lv = true) (hnce : noConflict e = true) (hwf : wfL lv = true) (hti : σ.tys[i]? = some t)
    (hf : FrameX σ off toff K (max (depthL lv + 1) (max (depthJ e + 1) 2)) m) :
    ∃ m', runJ code.length code 0 m = some m' ∧ Represents t (m'.get .rax) r ∧ m'.get .rsp = m.get .rsp ∧
      m'.get .rbp = m.get .rbp ∧ FrameX (σ1.set i r) off toff K (max (depthL lv + 1) (max (depthJ e + 1) 2)) m' ∧
      (∀ a : BitVec 64, (m.get .rsp).toNat ≤ a.toNat → ¬ inVar σ.tys off (m.get .rbp) (wrL lv ++ (i :: wr e)) a →
        ¬ inTmp toff (m.get .rbp) 0 K a → m'.mem a = m.mem a) := by
  have hnd := (compileL_nodup σ.tys off toff 0 c0 _ t code K c1 hc).1
  simp only [compileL] at hc
  split at hc
  · rename_i hcomp
    cases hca : addrCode σ.tys off toff 0 c0 (splitMember lv).1 with
    | none => simp [hca] at hc
    | some pa =>
      obtain ⟨cp, ka, cca⟩ := pa
      simp only [hca, Option.map_eq_some_iff, Prod.mk.injEq] at hc
      obtain ⟨⟨te', ce, ke, cce⟩, hce, _, h2, h3, h4⟩ := hc
      simp only at h2 h3 h4
      subst h2 h3 h4
      obtain ⟨ap, dd, hap, hsum, hds⟩ := lvAddr_split _ off σ lv _ σ0 haddr
      obtain ⟨s1, s2, s3, s4⟩ := split_facts lv
      have fa := addrCode_facts σ.tys off toff _ 0 c0 cp ka cca hca
      have fe := compileJ_facts σ.tys off toff e ka cca te' ce ke cce hce
      have hte' : te' = te := by have := fe.ty σ rfl; rw [hte] at this; exact (Option.some.inj this).symm
      subst hte'
      have Ep := addr_ev (m.get .rbp) off toff (ke + 1) _ σ cp ap σ0 0 ka c0 cca hca hap (by rw [s1]; exact hnc)
        (by rw [s2]; exact hwf) (by have := fe.k; omega)
      have Ee := value_j (AtBp (m.get .rbp)) off toff (ke + 1) e σ0 te' ce v σ1 ka ke cca cce (by rw [Ep.1]; exact hce) hv hnce
        (by omega)
      simp only [compound, Option.map_eq_some_iff] at hr
      obtain ⟨y, hy, rfl⟩ := hr
      have hrel : op.isRel = false := by simpa [compoundable] using hcomp
      have hsw : (nodeOf op).2 = false := by cases op <;> simp [BinOp.isRel] at hrel <;> rfl
      have hk : 0 ≤ 0 ∧ ka ≤ ke ∧ 0 ≤ ka ∧ ke ≤ ke := ⟨Nat.le_refl _, fe.k, Nat.zero_le _, Nat.le_refl _⟩
      rw [opAssignCodeL_eq] at hnd ⊢
      by_cases hs : op.isShift = true
      · simp only [hs, if_true] at hnd ⊢
        obtain ⟨hty, hE⟩ := EvJ.opassignL (castB := []) (Rr := fun r => Represents te' r v) (t := binopOperandType op t te')
          (tres := binopType op t te') (y := y) (nk := (nodeOf op).1) (k0 := 0) hti Ep hsum hds Ee
          (fun s h => ⟨s, rfl, h, Same.refl s⟩) hx
          (fun s h1 h2 => shift_step _ op (specOp_nodeOf op hsw) hs t te' x v y hy s h1 h2) hk (Nat.zero_le _) (by omega)
        rw [s3, s4] at hE
        obtain ⟨m', hrun, hrep, hH, hu⟩ := hE m _ _ rfl hf.2.1 (Nat.le_refl _) hf.1 (Nat.le_refl _) hf.2.2
        refine ⟨m', hrun.runJ hnd, hrep, hu.rsp, hu.rbp, ?_, hu.mem⟩
        exact ⟨by rw [hu.rsp]; exact hf.1, by rw [hty, hu.rsp, hu.rbp]; exact hf.2.1, hH⟩
      · have hs' : op.isShift = false := by simpa using hs
        simp only [hs', Bool.false_eq_true, if_false] at hnd ⊢
        obtain ⟨hty, hE⟩ := EvJ.opassignL (castB := castSeq te' (binopOperandType op t te'))
          (Rr := fun r => Represents (binopOperandType op t te') r (convert (binopOperandType op t te') v))
          (t := binopOperandType op t te') (tres := binopType op t te') (y := y) (nk := (nodeOf op).1) (k0 := 0) hti Ep hsum hds Ee
          (fun s h => cast_run te' _ s v h) hx
          (fun s h1 h2 => arith_step _ op (specOp_nodeOf op hsw) hs' t te' x v y hy s h1 h2) hk (Nat.zero_le _) (by omega)
        rw [s3, s4] at hE
        obtain ⟨m', hrun, hrep, hH, hu⟩ := hE m _ _ rfl hf.2.1 (Nat.le_refl _) hf.1 (Nat.le_refl _) hf.2.2
        refine ⟨m', hrun.runJ hnd, hrep, hu.rsp, hu.rbp, ?_, hu.mem⟩
        exact ⟨by rw [hu.rsp]; exact hf.1, by rw [hty, hu.rsp, hu.rbp]; exact hf.2.1, hH⟩
  · simp at hc

/-- non-vacuity: `*p *= 3` with `p = &x`, `x = 7`: `x` becomes 21 (one hidden temporary) -/
example : ∃ code, compileL lvEnv.tys exOff ptrToff 0 1 (.opassign .mul (.deref 0) .i32 (.lit .i32 3)) = some (.i32, code, 1, 1) ∧
    lvAddr (lvState.get .rbp) exOff lvEnv (.deref 0) = some (frameAddr (lvState.get .rbp) (exOff 1), lvEnv) ∧
    evalE lvEnv (.lit .i32 3) = some (3, lvEnv) ∧ typeOf lvEnv (.lit .i32 3) = some .i32 ∧ lvEnv.vals[1]? = some 7 ∧
    compound .mul .i32 .i32 7 3 = some 21 ∧ lvEnv.tys[1]? = some .i32 ∧
    FrameX lvEnv exOff ptrToff 1 (max (depthL (.deref 0) + 1) (max (depthJ (.lit .i32 3) + 1) 2)) lvState :=
  ⟨_, rfl, lvAddr_ex, rfl, rfl, rfl, by decide, rfl, lvFrameX 1 _ (by omega) (by decide)⟩

/-- **value and side effects of every expression of the type `E` whose objects are reached through lvalues other than plain
    variables** — `s.m`, `p->m`, `*p`, `a[c]`, `p[c]`, … *anywhere* in the expression: as operands, assigned, compound-assigned,
    incremented.  The variables of the store are the scalar objects of the program; `lvs[i]` is the lvalue by which the program
    designates object `i` (objects beyond the table are plain variables), `accOfL` the `gen_addr` code of these lvalues
    (side-effect-free: index expressions in the `compileE` fragment) and `compileA` the code `gen_expr` emits with them
    (Model/C01ExprA).  Hypotheses: every object the expression accesses is designated by its lvalue in the initial store
    (`lvAddr` = the address of `i`), the lvalue passes the syntactic check `lvOK`, and the variables on which addresses depend
    (`D`: the pointers dereferenced, the index variables) are not assigned by the expression — so every lvalue designates the
    same object whenever it is evaluated.  Conclusion as in `C01_value_full`: termination within the code length, `%rax`
    represents the C11 value in the C11 type, the frame holds the C11 store.  By the induction of `C01_value_full` over the
    lvalue combinators (`EvJ.loadL`, `EvJ.assignL`, `EvJ.opassignL` incl. the member rewriting of `op=`). -/
theorem C01_value_lvalues (σ : Env) (off toff : Nat → Int) (lvs : List LVal) (D : List Nat) (e : E) (t : ITy) (code : List JI)
    (K c0 c1 : Nat) (v : Int) (σ' : Env) (m : State)
    (hc : compileA σ.tys toff (accOfL σ.tys off lvs) 0 c0 e = some (t, code, K, c1))
    (hv : evalE σ e = some (v, σ')) (hnc : noConflict e = true)
    (hobj : ∀ i, i ∈ objs e → lvOK σ.tys off D (lvOf lvs i) = true ∧
      ∃ σx, lvAddr (m.get .rbp) off σ (lvOf lvs i) = some (frameAddr (m.get .rbp) (off i), σx))
    (hD : ∀ i, i ∈ wr e → i ∉ D)
    (hf : FrameX σ off toff K (depthA (accOfL σ.tys off lvs) e) m) :
    ∃ m', runJ code.length code 0 m = some m' ∧ Represents t (m'.get .rax) v ∧ typeOf σ e = some t ∧
      m'.get .rsp = m.get .rsp ∧ m'.get .rbp = m.get .rbp ∧ FrameX σ' off toff K (depthA (accOfL σ.tys off lvs) e) m' ∧
      (∀ a : BitVec 64, (m.get .rsp).toNat ≤ a.toNat → ¬ inVar σ.tys off (m.get .rbp) (wr e) a →
        ¬ inTmp toff (m.get .rbp) 0 K a → m'.mem a = m.mem a) := by
  have fc := compileA_facts σ.tys toff _ e 0 c0 t code K c1 hc
  have hA : ∀ i, i ∈ objs e → AccOK (m.get .rbp) off toff K (accOfL σ.tys off lvs) D σ i := by
    intro i hi
    obtain ⟨hok, σx, hdes⟩ := hobj i hi
    exact accOK_of_table (m.get .rbp) off toff K D σ lvs i σx hok hdes
  obtain ⟨hty, hE⟩ := value_a (m.get .rbp) off toff K _ D σ e σ t code v σ' 0 K c0 c1 ⟨rfl, rfl, fun _ _ => rfl⟩ hD hA hc hv hnc
    (Nat.le_refl _)
  obtain ⟨m', hrun, hrep, hH, hu⟩ := hE m _ _ rfl hf.2.1 (Nat.le_refl _) hf.1 (Nat.le_refl _) hf.2.2
  refine ⟨m', hrun.runJ fc.nodup, hrep, fc.ty σ rfl, hu.rsp, hu.rbp, ?_, hu.mem⟩
  exact ⟨by rw [hu.rsp]; exact hf.1, by rw [hty, hu.rsp, hu.rbp]; exact hf.2.1, hH⟩

/-- the expression of the non-vacuity example: `*p = *p * 3 + 1` with `p = &x` (object 1 is designated by `*p`) -/
def exLE : E := .assign 1 (.bin .add (.bin .mul (.var 1) (.lit .i32 3)) (.lit .i32 1))

/-- non-vacuity: `int x = 7; int *p = &x; *p = *p * 3 + 1` in a concrete frame: the hypotheses hold, `x` becomes 22 -/
example : ∃ code, compileA lvEnv.tys ptrToff (accOfL lvEnv.tys exOff [.var 0, .deref 0]) 0 1 exLE = some (.i32, code, 0, 1) ∧
    evalE lvEnv exLE = some (22, ⟨[.u64, .i32], [0x1ff0, 22]⟩) ∧ noConflict exLE = true ∧
    (∀ i, i ∈ objs exLE → lvOK lvEnv.tys exOff [0] (lvOf [.var 0, .deref 0] i) = true ∧
      ∃ σx, lvAddr (lvState.get .rbp) exOff lvEnv (lvOf [.var 0, .deref 0] i) = some (frameAddr (lvState.get .rbp) (exOff i), σx)) ∧
    (∀ i, i ∈ wr exLE → i ∉ [0]) ∧
    FrameX lvEnv exOff ptrToff 0 (depthA (accOfL lvEnv.tys exOff [.var 0, .deref 0]) exLE) lvState := by
  refine ⟨_, rfl, rfl, rfl, ?_, ?_, lvFrameX 0 _ (by omega) (by decide)⟩
  · intro i hi
    have : i = 1 := by simpa [objs, exLE] using hi
    subst this
    exact ⟨by decide, lvEnv, lvAddr_ex⟩
  · intro i hi
    have : i = 1 := by simpa [wr, exLE] using hi
    subst this
    decide

/-- with every object a plain variable `compileA` is `compileJ`: `C01_value_lvalues` extends `C01_value_full` -/
theorem C01_value_lvalues_extends (tys : List ITy) (off toff : Nat → Int) (e : E) (k c : Nat) :
    compileA tys toff (Acc.direct off) k c e = compileJ tys off toff k c e :=
  compileA_direct tys off toff e k c

example : compileJ exEnv.tys exXOff exXToff 0 1 exJE ≠ none := by decide

/-- one step on a value already in `%rax` (the fragment proved before `C01_value`; kept, now a special case): a leaf
    followed by any chain of casts and unary operators is `C01_load` / `C01_cast` / `C01_unary_full` / `C01_lognot`
    applied in sequence. -/
theorem C01_value_partial (t t2 : ITy) (s : State) (v : Int) (h : Represents t (s.get .rax) v) :
    (∃ s', X86.run (castSeq t t2) s = some s' ∧ Represents t2 (s'.get .rax) (convert t2 v)) ∧
    (∃ s', X86.run (unSeq .ND_NOT t) s = some s' ∧ Represents .i32 (s'.get .rax) (b2i (v = 0))) ∧
    (∀ x, unop .neg t v = some x → ∃ s', X86.run (castSeq t (promote t) ++ unSeq .ND_NEG (promote t)) s = some s' ∧
        Represents (promote t) (s'.get .rax) x) ∧
    (∀ x, unop .bitnot t v = some x → ∃ s', X86.run (castSeq t (promote t) ++ unSeq .ND_BITNOT (promote t)) s = some s' ∧
        Represents (promote t) (s'.get .rax) x) :=
  ⟨C01_cast t t2 s v h, C01_lognot t s v h,
   fun x hx => C01_unary_full .ND_NEG .neg rfl (by decide) t s v x h hx,
   fun x hx => C01_unary_full .ND_BITNOT .bitnot rfl (by decide) t s v x h hx⟩

/-! ## `++` / `--` (parse.c `new_inc_dec`) -/

/-- region of the known finding C01-bool-postfix-incdec: the operand has type `_Bool` and is a bit-field member or
    `_Atomic` (for these `new_inc_dec` still computes `(T)((x += addend) - addend)`) -/
def BoolPostfixIncDec (T : ITy) (viaObject : Bool) : Prop := T = .bool ∧ viaObject = false
instance (T : ITy) (b : Bool) : Decidable (BoolPostfixIncDec T b) := by unfold BoolPostfixIncDec; exact inferInstance

/-- full statement: chibicc's rewriting of postfix `++`/`--` has the C11 value and side effect whenever C11 defines it.
    False for `_Bool` bit-fields / `_Atomic _Bool` (Findings/C01.lean). -/
def C01_incdec_Statement : Prop :=
  ∀ (T : ITy) (viaObject : Bool) (x addend : Int), T.inRange x → (addend = 1 ∨ addend = -1) →
    ∀ res, specPostfix T x addend = some res → chibiPostfix T viaObject x addend = some res

/-- **postfix `++`/`--`** for every integer type, every value, both routes of `new_inc_dec`, outside the known-finding
    region: the expression has the old value of the operand and the object receives `x ± 1` converted to its type. -/
theorem C01_incdec_partial (T : ITy) (viaObject : Bool) (hT : ¬ BoolPostfixIncDec T viaObject) (x addend : Int)
    (hx : T.inRange x) (ha : addend = 1 ∨ addend = -1) (res : Int × Int) (h : specPostfix T x addend = some res) :
    chibiPostfix T viaObject x addend = some res := by
  unfold chibiPostfix
  by_cases hb : T = .bool
  · have hv : viaObject = true := by
      cases viaObject
      · exact absurd ⟨hb, rfl⟩ hT
      · rfl
    simp only [hb, hv, and_self, if_true]
    rw [hb] at h
    exact h
  · simp only [hb, false_and, if_false]
    exact incdec_value T hb x addend hx ha res h

example : specPostfix .u8 255 1 = some (255, 0) := by decide

end ChibiVerif.Props.C01
