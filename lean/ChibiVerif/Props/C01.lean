import ChibiVerif.Spec.IntSpec
import ChibiVerif.Gen.CommonTypeGen
namespace ChibiVerif.Props.C01
theorem C01_placeholder : True := trivial
end ChibiVerif.Props.C01
