/-
C19 — preprocessed output is a faithful program: the SAME-PROGRAM half, as far as it can be stated on the models.

"The text written by -E re-lexes to exactly the token sequence the compiler proper would have consumed."

Objects (beside those of Props/C19.lean):
  `convertPP numOk`   Model/C19Convert.lean   tokenize.c `convert_pp_tokens`: keyword by spelling (table regenerated from
                                              `is_keyword`: Gen/C19ConvGen.lean), pp-number → number or "invalid numeric constant",
                                              `numOk` = libc's verdict on the spelling (a parameter: all results hold for every one)
  `cc1Tokens`         the token list `parse` receives when cc1 compiles a TEXT: `tokenize`, `preprocess2` from the table of
                      `init_macros` (Model/PP.lean), `convert_pp_tokens` — up to the concatenation of adjacent string literals
  `cc1OfTokens`       the token list `parse` receives from the list the FIRST compilation holds after `preprocess2`
  `lexedAlone t`      `t` has the kind and the spelling `tokenize` gives to its spelling read alone (decidable; true of every
                      token `tokenize` produces: `C19_lexed_tokens_kind`; `preprocess2` never assigns `kind` and every token it
                      makes — paste, stringize, built-ins — comes out of a call of `tokenize`)

Not modelled, so not proved (checklib/C19.py ASSUMPTIONS, exercised by the same-assembly and token-dump legs on every run):
`join_adjacent_string_literals` and `parse` read of a token only its kind, the values `tokenize`/`convert_pp_number` computed from
its spelling, and its position (diagnostics, `.loc`).  What is checked of that: no Token field that a second tokenize/preprocess
may change without changing kind and spelling is mentioned in parse.c, codegen.c, type.c (`C19_proper_ignores_flags`).
-/
import ChibiVerif.Lemmas.C19Convert
import ChibiVerif.Props.C19

namespace ChibiVerif.Props.C19
open ChibiVerif.Lex ChibiVerif.Gen.Lex ChibiVerif.C19Bridge ChibiVerif.C19Convert

/-- **C19 (the conversion reads kind and spelling, nothing else).**  Over the lists regenerated from tokenize.c:
    `convert_pp_tokens`, `is_keyword`, `convert_pp_number` and `convert_pp_int` read, through the token, only `kind`, `loc` and
    `len`; they write only `kind`, `val`, `fval`, `ty`; and the token itself is passed on only among themselves and to
    `error_tok`.  So the list `parse` receives is a function of the (kind, spelling) sequence `preprocess2` returns. -/
theorem C19_convert_reads_kind_and_spelling :
    (Gen.C19Conv.convertReads.all fun f => ["kind", "loc", "len"].contains f) = true ∧
    (Gen.C19Conv.convertWrites.all fun f => ["kind", "val", "fval", "ty"].contains f) = true ∧
    (Gen.C19Conv.convertCallees.all fun f =>
      ["convert_pp_int", "convert_pp_number", "is_keyword", "error_tok"].contains f) = true := by decide

/-- **C19 (the compiler proper does not look at what re-reading may change).**  `at_bol`, `has_space`, `hideset` and
    `line_delta` — the Token fields a second tokenize/preprocess may set differently for the same kind and spelling — are
    mentioned nowhere in parse.c, codegen.c, type.c (list regenerated on every run). -/
theorem C19_proper_ignores_flags : Gen.C19Conv.properFlagMentions = [] := by decide

/-- **C19 (keywords are identifiers).**  Every entry of `is_keyword`'s table, read alone by `tokenize`, is exactly one
    identifier token.  (`is_keyword` does not test `tok->kind`; with this, only TK_IDENT tokens become TK_KEYWORD: the
    spelling of a string, number, character constant or punctuator token is never in the table.) -/
theorem C19_keywords_are_identifiers :
    (Gen.C19Conv.keywords.all fun k => lexedAlone ⟨.ident, k, true, false⟩) = true := by decide

/-- … hence a token that `convert_pp_tokens` turns into a keyword was an identifier token -/
theorem C19_keyword_token_is_ident (t : Tok) (h : lexedAlone t = true) (hk : isKeyword t.text = true) :
    t.kind = .ident := by
  have hall := C19_keywords_are_identifiers
  rw [List.all_eq_true] at hall
  have hm : t.text ∈ Gen.C19Conv.keywords := by
    unfold isKeyword at hk
    exact List.contains_iff_mem.mp hk
  have h1 := (lexedAlone_spec _ (hall _ hm)).2
  have h2 := (lexedAlone_spec t h).2
  simp only at h1
  rw [← h2, h1]

/-- non-vacuity: `long` is such a token; the string `"long"` and the identifier `longer` are not keywords -/
example : lexedAlone ⟨.ident, [108, 111, 110, 103], false, true⟩ = true ∧ isKeyword [108, 111, 110, 103] = true ∧
    isKeyword [34, 108, 111, 110, 103, 34] = false ∧ isKeyword [108, 111, 110, 103, 101, 114] = false := by decide

/-- **C19 (the tokens of `tokenize` satisfy the hypothesis, kinds included).**  Whatever text is scanned, every token that
    comes out has the kind and spelling its spelling gets when scanned alone — the hypothesis of `C19_relex_same_kinds` and
    `C19_same_tokens` holds for every token list the preprocessor can hold. -/
theorem C19_lexed_tokens_kind (s : List Nat) (ts : List Tok) (h : lex s = .ok ts) :
    ∀ t ∈ ts, lexedAlone t = true :=
  lexLoop_tokens_lexedAlone _ s true false ts h

/-- non-vacuity: every token class -/
example : (lex [120, 43, 43, 49, 46, 101, 43, 32, 76, 34, 115, 34, 39, 99, 39, 10]).map (·.map (·.kind)) =
    .ok [.ident, .punct, .ppnum, .str, .chr] := by decide

/-- **C19 (round trip with kinds).**  For every token list whose tokens have the kind and spelling of their spelling read
    alone — ARBITRARY `at_bol` / `has_space` flags — the text `print_tokens` writes is read back by `tokenize` as a list
    with exactly the same kinds and the same spellings, in order.  (`C19_roundtrip` is the spelling half.) -/
theorem C19_relex_same_kinds (ts : List Tok) (h : ∀ t ∈ ts, lexedAlone t = true) :
    ∃ ts', lex (printTokens ts) = .ok ts' ∧ ts'.map (·.kind) = ts.map (·.kind) ∧ ts'.map (·.text) = ts.map (·.text) :=
  ⟨relexed ts, lex_printTokens ts (fun t ht => (lexedAlone_spec t (h t ht)).1),
    relexed_kind_of_lexedAlone ts h, relexed_text ts⟩

/-- non-vacuity: `u8` `"s"` `-` `-` `1` `'c'`, nothing has `has_space`: printed `u8 "s"- -1'c'`; read back as identifier, string,
    two punctuators, pp-number, character constant — not as the string `u8"s"` and `--` -/
example : ∃ ts', lex (printTokens [⟨.ident, [117, 56], true, false⟩, ⟨.str, [34, 115, 34], false, false⟩,
      ⟨.punct, [45], false, false⟩, ⟨.punct, [45], false, false⟩, ⟨.ppnum, [49], false, false⟩, ⟨.chr, [39, 99, 39], false, false⟩])
      = .ok ts' ∧ ts'.map (·.kind) = [.ident, .str, .punct, .punct, .ppnum, .chr] ∧
    ts'.map (·.text) = [[117, 56], [34, 115, 34], [45], [45], [49], [39, 99, 39]] :=
  C19_relex_same_kinds _ (by decide)

/-- **C19 (which printers are faithful).**  Take ANY printer that writes, before each token, a separator chosen from the
    previous token and the token (flags, spellings, anything in them) and a newline at the end.  If every separator consists of
    blanks and newlines, and the separator is EMPTY only where `need_space` says the two spellings may touch, then for every
    list of self-lexing spellings the printed text is read back by `tokenize` as exactly those kinds and spellings.  Whether a
    token gets a newline or a blank, and when, is free (it is cosmetic); the only obligation is the one on the empty
    separator — the branch of `print_tokens` that a change of its newline logic must keep reaching (seeded change C19c dropped it
    for `at_bol` tokens inside an expansion: `unsigned` newline `long` → `unsignedlong`). -/
theorem C19_roundtrip_any_separator_policy (sep : Option Tok → Tok → List Nat)
    (hb : ∀ p t, isBlank (sep p t) = true)
    (hn : ∀ p t, sep (some p) t = [] → needSpace p.text t.text = false)
    (ts : List Tok) (h : ∀ t ∈ ts, selfLexing t.text = true) :
    ∃ ts', lex (printWith sep none ts) = .ok ts' ∧ ts'.map (·.text) = ts.map (·.text) ∧
      ts'.map (·.kind) = ts.map (fun t => kindOf t.text) := by
  refine ⟨_, lex_printWith sep hb hn ts h, ?_, ?_⟩
  · rw [tokensOf_text, itemsWith_text]
  · rw [tokensOf_kind]
    have := congrArg (List.map kindOf) (itemsWith_text sep ts none)
    simpa [List.map_map, Function.comp_def] using this

/-- `print_tokens` is such a printer … -/
theorem C19_print_tokens_is_such_a_printer :
    (∀ ts, printWith sepBefore none ts = printTokens ts) ∧ (∀ p t, isBlank (sepBefore p t) = true) ∧
    (∀ p t, sepBefore (some p) t = [] → needSpace p.text t.text = false) :=
  ⟨fun ts => printWith_sepBefore none ts, sepBefore_blank, sepBefore_nil⟩

/-- … and non-vacuity with another one: a printer that puts EVERY token on a line of its own -/
example : ∃ ts', lex (printWith (fun p _ => if p.isSome then [10] else []) none
      [⟨.ident, [117, 110, 115, 105, 103, 110, 101, 100], true, false⟩, ⟨.ident, [108, 111, 110, 103], true, false⟩,
       ⟨.punct, [45], false, false⟩, ⟨.punct, [45], false, false⟩]) = .ok ts' ∧
    ts'.map (·.text) = [[117, 110, 115, 105, 103, 110, 101, 100], [108, 111, 110, 103], [45], [45]] ∧
    ts'.map (·.kind) = [.ident, .ident, .punct, .punct] := by
  obtain ⟨ts', h1, h2, h3⟩ := C19_roundtrip_any_separator_policy (fun p _ => if p.isSome then [10] else []) (by intro p t; cases p <;> rfl)
    (by intro p t h; simp at h) [⟨.ident, [117, 110, 115, 105, 103, 110, 101, 100], true, false⟩, ⟨.ident, [108, 111, 110, 103], true, false⟩,
       ⟨.punct, [45], false, false⟩, ⟨.punct, [45], false, false⟩] (by decide)
  exact ⟨ts', h1, h2, by rw [h3]; decide⟩

/-- Full statement of the same-program half on the models: whatever list `ts` the first compilation holds after
    `preprocess2`, compiling the `-E` text hands `parse` the token list (kind after `convert_pp_tokens`, spelling) it would
    have received from `ts` directly.  FALSE for chibicc where a name of the initial macro table survives the first pass
    (Findings/C19.lean `C19_finding_same_program_initial_macro_name`: `#undef linux` / `int linux = 1;` — confirmed on the
    binary, known finding C19-second-pass-initial-macro-name); proved on the inert region: `C19_same_tokens`. -/
def C19_same_program_Statement : Prop :=
  ∀ (numOk : List Nat → Bool) (ts : List Tok), (∀ t ∈ ts, lexedAlone t = true) → validText ts = true →
    ∀ (fuel : Nat), ts.length ≤ fuel → ∀ (file : String),
      cc1Tokens numOk fuel file (printTokens ts) = cc1OfTokens numOk ts

/-- **C19 (same tokens for the compiler proper, partial: inert lists).**  Let `ts` be what the first compilation holds after
    `preprocess2` — any flags; kinds and spellings as `tokenize` assigns them; code points that are Unicode scalar values —
    and let it be INERT for the table the second compilation starts from (no `#` at the beginning of a line, no spelling that
    names a macro of `init_macros`; `Inert`/`normFirst` as in `C19_idempotent`).  Then compiling the text `-E` printed —
    `tokenize`, the model of `preprocess2` (Model/PP.lean) from the table of `init_macros`, `convert_pp_tokens`, for every
    display name, every fuel ≥ the number of tokens and EVERY verdict `numOk` of libc on pp-number spellings — hands `parse`
    exactly the list of (kind, spelling) it receives when the source is compiled directly: the same keywords, identifiers,
    punctuators, strings, numbers, in the same order, and the same "invalid numeric constant" diagnostic if there is one.

    What is missing for the full `C19_same_program_Statement`: the inert hypothesis (two known findings; outside it the
    statement is false), and — outside the models — `join_adjacent_string_literals` and `parse` themselves. -/
theorem C19_same_tokens (numOk : List Nat → Bool) (ts : List Tok) (h : ∀ t ∈ ts, lexedAlone t = true)
    (hin : Inert isInitMacro (normFirst ts) = true) (hv : validText ts = true)
    (fuel : Nat) (hfuel : ts.length ≤ fuel) (file : String) :
    cc1Tokens numOk fuel file (printTokens ts) = cc1OfTokens numOk ts := by
  have hs : ∀ t ∈ ts, selfLexing t.text = true := fun t ht => (lexedAlone_spec t (h t ht)).1
  have ht := relexed_text ts
  have hinert : inertInit (relexed ts) = true := by
    unfold Inert at hin
    unfold inertInit
    rw [all_congr_of_maps (fun x b => !(b && x == [35]) && !isInitMacro x) (fun _ => rfl) _ _
      (ht.trans (normFirst_text ts).symm) (relexed_atBol ts)]
    exact hin
  unfold cc1Tokens cc1OfTokens
  rw [passTokens_printTokens ts hs hinert hv fuel hfuel file]
  simp only
  rw [convertPP_congr numOk (relexed ts) ts (relexed_kind_of_lexedAlone ts h) ht]

/-- non-vacuity: `#define E` / `E unsigned` newline `long v = é - -0x1e;` — the first token has `has_space` and no `at_bol`,
    `-` `-` and `0x1e` carry no flag at all.  The second compilation reads keyword, keyword, identifier, `=`, identifier, `-`,
    `-`, number, `;` — computed by the kernel through the whole model pipeline on the printed text. -/
example : cc1Tokens numOkSimple 9 "b.c" (printTokens [⟨.ident, [117, 110, 115, 105, 103, 110, 101, 100], false, true⟩,
      ⟨.ident, [108, 111, 110, 103], true, false⟩, ⟨.ident, [118], false, true⟩, ⟨.punct, [61], false, true⟩,
      ⟨.ident, [233], false, true⟩, ⟨.punct, [45], false, true⟩, ⟨.punct, [45], false, false⟩,
      ⟨.ppnum, [48, 120, 49, 101], false, false⟩, ⟨.punct, [59], false, false⟩]) =
    .ok [⟨.keyword, .ident, [117, 110, 115, 105, 103, 110, 101, 100]⟩, ⟨.keyword, .ident, [108, 111, 110, 103]⟩,
      ⟨.ident, .ident, [118]⟩, ⟨.punct, .punct, [61]⟩, ⟨.ident, .ident, [233]⟩, ⟨.punct, .punct, [45]⟩, ⟨.punct, .punct, [45]⟩,
      ⟨.num, .ppnum, [48, 120, 49, 101]⟩, ⟨.punct, .punct, [59]⟩] := by
  rw [C19_same_tokens numOkSimple _ (by decide) (by decide) (by decide) 9 (by decide) "b.c"]
  decide

/-- … and an invalid number is the same diagnostic on both routes: `1e+` (a pp-number, not a C number for this `numOk`) -/
example : cc1Tokens (fun _ => false) 2 "b.c" (printTokens [⟨.ident, [120], true, false⟩, ⟨.ppnum, [49, 101, 43], false, false⟩]) =
    .error (.conv (.invalidNumber [49, 101, 43])) := by
  rw [C19_same_tokens (fun _ => false) _ (by decide) (by decide) (by decide) 2 (by decide) "b.c"]
  decide

/-- **C19 (same program for any consumer of the token list).**  Whatever the rest of cc1 computes from the converted list
    (`consume`: string concatenation, parse, codegen — any function of the list of (kind, spelling)), it computes the same
    from the `-E` text as from the source, on the inert region. -/
theorem C19_same_program_partial {α : Type} (consume : Except Cc1Err (List CTok) → α)
    (numOk : List Nat → Bool) (ts : List Tok) (h : ∀ t ∈ ts, lexedAlone t = true)
    (hin : Inert isInitMacro (normFirst ts) = true) (hv : validText ts = true)
    (fuel : Nat) (hfuel : ts.length ≤ fuel) (file : String) :
    consume (cc1Tokens numOk fuel file (printTokens ts)) = consume (cc1OfTokens numOk ts) := by
  rw [C19_same_tokens numOk ts h hin hv fuel hfuel file]

/-- non-vacuity: the number of tokens `parse` receives for `int x;` -/
example : (Except.toOption (cc1Tokens numOkSimple 3 "b.c" (printTokens [⟨.ident, [105, 110, 116], true, false⟩,
      ⟨.ident, [120], false, true⟩, ⟨.punct, [59], false, false⟩]))).map List.length = some 3 :=
  (C19_same_program_partial (fun r => (Except.toOption r).map List.length) numOkSimple
    [⟨.ident, [105, 110, 116], true, false⟩, ⟨.ident, [120], false, true⟩, ⟨.punct, [59], false, false⟩]
    (by decide) (by decide) (by decide) 3 (by decide) "b.c").trans (by decide)

end ChibiVerif.Props.C19
