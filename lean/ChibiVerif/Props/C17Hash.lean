/-
C17 — `fnv_hash` and the bucket index as the C code computes them.

The refinement theorem (`C17_refines`) holds for every hash function, so nothing below is
needed for the dictionary law.  What is proved here is what ties the *model's* arithmetic
(`Nat`, no wrap-around, bytes as `UInt8`) to the *code's* (`uint64_t` wrap-around, `char`
signed on x86-64, `int` loop counter and capacity converted to `unsigned long`):

* `Gen.HashSites.fnvStepC`/`probeIndexC` are written by the translator after checking the
  typed AST of clang-14 node by node (every implicit conversion);
* `C17_fnv_typed`: on `char` strings the typed hash is the model's hash of the bytes — bytes
  ≥ 0x80 (UTF-8 identifiers) are zero-extended, not sign-extended;
* `C17_index_agrees`: for every one of the 2^64 hash values the C index expression equals
  the model's `(hash + i) % capacity` — because every reachable capacity is a power of two
  (`C17_capacity_shape`), which is exactly what the claim needs (Findings: false for 12).
-/
import ChibiVerif.Model.C17Clients
import ChibiVerif.Lemmas.C17BoundLemmas
import ChibiVerif.Lemmas.C17HashLemmas

namespace ChibiVerif.Props.C17
open ChibiVerif.HashMap ChibiVerif.C17Clients ChibiVerif.C17Hash
open ChibiVerif.Gen.HashMap (INIT_SIZE fnvHash FNV_PRIME FNV_OFFSET)
open ChibiVerif.Gen.HashSites (fnvStepC fnvHashC probeIndexC)

/-- **C17 (fnv_hash, typed).**  For every `char` string, including negative `char`s (bytes
    ≥ 0x80), the hash computed with clang's conversions is the model's hash of the same
    bytes: `(unsigned char)s[i]` reinterprets, the conversion to `uint64_t` zero-extends. -/
theorem C17_fnv_typed (s : List Int8) : fnvHashC s = fnvHash (s.map Int8.toUInt8) := by
  unfold fnvHashC fnvHash
  rw [List.foldl_map]
  rfl

/-- **C17 (fnv_hash is total and incremental).**  The hash of any byte string extended by
    any byte `c` (0…255) is one multiplication and one xor with `c` as a number below 256. -/
theorem C17_fnv_step (s : List UInt8) (c : UInt8) :
    fnvHash (s ++ [c]) = (fnvHash s * FNV_PRIME) ^^^ c.toUInt64 ∧ c.toUInt64.toNat < 256 := by
  refine ⟨by simp [fnvHash, List.foldl_append], ?_⟩
  rw [UInt8.toNat_toUInt64]
  exact c.toNat_lt

/-- **C17 (signedness matters, and the code has it right).**  For every negative `char` (a byte
    ≥ 0x80) and every accumulator value, the code's round differs from the round a
    sign-extending conversion (`hash ^= s[i]`) would compute.  Together with `C17_fnv_typed`:
    a compiler that mistranslated the cast would hash every UTF-8 identifier differently —
    which by `C17_hash_irrelevant` still could not change any answer of a table. -/
theorem C17_fnv_not_sign_extended (hash : UInt64) (c : Int8) (hc : c < 0) :
    fnvStepC hash c ≠ (hash * FNV_PRIME) ^^^ c.toInt64.toUInt64 := by
  unfold fnvStepC
  intro e
  have e' : hash * FNV_PRIME ^^^ c.toUInt8.toUInt64 = hash * FNV_PRIME ^^^ c.toInt64.toUInt64 := e
  have := congrArg (fun x => (hash * FNV_PRIME) ^^^ x) e'
  simp only [← UInt64.xor_assoc, UInt64.xor_self, UInt64.zero_xor] at this
  exact toUInt8_toUInt64_ne_sext c hc this

/-- non-vacuity: 0xC3 (first byte of `é`) is a negative `char` -/
example : (Int8.ofInt (-61)) < 0 ∧ (Int8.ofInt (-61)).toUInt8 = 0xC3 := by decide

/-- **C17 (bucket index).**  For all 2^64 hash values, every power-of-two capacity below 2^31
    and every loop counter `i < capacity`: the C expression `(hash + i) % map->capacity`
    (sum modulo 2^64, `int`s converted to `unsigned long`) is the model's index
    `(hash + i) % capacity` computed without wrap-around. -/
theorem C17_index_agrees (hash : UInt64) (i cap e : Nat) (he : cap = 2 ^ e) (hcap : cap < 2 ^ 31)
    (hi : i < cap) :
    (probeIndexC hash (Int32.ofNat i) (Int32.ofNat cap)).toNat = (hash.toNat + i) % cap := by
  unfold probeIndexC
  rw [UInt64.toNat_mod, UInt64.toNat_add, int32_nat_roundtrip i (by omega),
    int32_nat_roundtrip cap hcap]
  apply Nat.mod_mod_of_dvd
  rw [he]
  apply Nat.pow_dvd_pow
  have h2 : (2 : Nat) ^ e < 2 ^ 31 := by omega
  have := (Nat.pow_lt_pow_iff_right (by omega : 1 < 2)).1 h2
  omega

/-- non-vacuity, at the wrap-around: hash = 2^64 - 1, i = 3, capacity 16 -/
example : (probeIndexC 0xFFFFFFFFFFFFFFFF (Int32.ofNat 3) (Int32.ofNat 16)).toNat =
    ((0xFFFFFFFFFFFFFFFF : UInt64).toNat + 3) % 16 :=
  C17_index_agrees _ 3 16 4 (by decide) (by decide) (by decide)

/-- **C17 (the model's index is the code's index in every reachable state).**  After any
    history of byte-string keys with the compiler's hash, as long as the table has fewer than
    2^31 buckets: for every key and every loop counter the model's probe index
    `(fnv k + i) % capacity` is the value of the C expression. -/
theorem C17_reachable_index (ops : List (Op Bytes Nat)) :
    ∃ s outs, run fnv HM.empty ops = .ok (s, outs) ∧
      (s.capacity < 2 ^ 31 → ∀ (k : Bytes) (i : Nat), i < s.capacity →
        (probeIndexC (fnvHash k) (Int32.ofNat i) (Int32.ofNat s.capacity)).toNat =
          (fnv k + i) % s.capacity) := by
  obtain ⟨s, outs, hrun, _, hshape, _⟩ := run_cap_bound fnv ops HM.empty AMap.empty
    (Inv_empty fnv) (fun k => by rw [absGet_of_length_zero rfl, AMap.get_empty])
    List.Pairwise.nil (Or.inl rfl)
  refine ⟨s, outs, hrun, ?_⟩
  intro hlt k i hi
  unfold HM.capacity at *
  rcases hshape with h0 | ⟨e, he⟩
  · omega
  · have : s.buckets.length = 2 ^ (e + 4) := by
      rw [he]; show 16 * 2 ^ e = 2 ^ (e + 4); rw [Nat.pow_add]; omega
    exact C17_index_agrees (fnvHash k) i _ (e + 4) this hlt hi

/-- **C17 (the hash function cannot be observed).**  Two runs of the same history with two
    different hash functions (stage 1 and stage 2 of a bootstrap, say) return the same answers
    to every lookup. -/
theorem C17_hash_irrelevant {α β : Type} [DecidableEq α] (h1 h2 : α → Nat) (ops : List (Op α β)) :
    ∃ s1 s2 outs, run h1 HM.empty ops = .ok (s1, outs) ∧ run h2 HM.empty ops = .ok (s2, outs) := by
  obtain ⟨s1, hs1, _, _⟩ := run_refines h1 ops HM.empty AMap.empty (Inv_empty h1)
    (fun k => by rw [absGet_of_length_zero rfl, AMap.get_empty])
  obtain ⟨s2, hs2, _, _⟩ := run_refines h2 ops HM.empty AMap.empty (Inv_empty h2)
    (fun k => by rw [absGet_of_length_zero rfl, AMap.get_empty])
  exact ⟨s1, s2, _, hs1, hs2⟩

end ChibiVerif.Props.C17
