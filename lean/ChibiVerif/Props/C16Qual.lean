/-
C16 — `_Atomic` qualifier propagation (DESIGN C16_qualifier).

Property theorems only.  Model: Model/C16Qual.lean (chibicc's `Type.is_atomic` bookkeeping in declspec / declarator /
typedef / typeof / struct members / parameters / casts / expression typing, and the path `to_assign` / `new_inc_dec`
choose).  Specification: Spec/C16QualSpec.lean (the C type of declared identifiers and lvalue expressions after C11 6.2.5,
6.3.2.1, 6.5.2-6.5.6, 6.7.2.4, 6.7.3, 6.7.6, 6.7.8 and C23 6.7.2.5 for `typeof`).  Lemmas: Lemmas/C16QualLemmas.lean.
The model is run against the real parser on every check run: `drv_c16 qual` prints each generated parse tree as C text,
the hooked chibicc dumps its typed AST, and the declared types (every level, every `is_atomic` flag) and the shape of
the update node must agree (checklib/C16.py, leg `qualifier`).
-/
import ChibiVerif.Lemmas.C16QualLemmas
import ChibiVerif.Lemmas.C16DeclrLemmas

namespace ChibiVerif.Props.C16
open ChibiVerif.C16Qual ChibiVerif.C16QualSpec ChibiVerif.C16QualLemmas

/-- **C16 (qualifier).**  For every sequence of declarations (typedefs, struct/union definitions, objects at file or
    block scope, parameters; specifiers built from primitives, typedef names, tags, `typeof(type)`, `typeof(expr)`,
    `_Atomic(type)`, with or without the `_Atomic` keyword; any declarator, every `*` of it followed by any list of the
    qualifiers `const` `volatile` `restrict` `__restrict` `__restrict__` `_Atomic` - `int *_Atomic p` makes the POINTER
    atomic, C11 6.7.6.1) that the C semantics accepts (`specDecls`)
    and chibicc elaborates (`elabDecls`), and every expression `e` built from identifiers, `*`, `&`, `.`, `->`, `[]`,
    `+ constant`, casts, calls and parentheses: if the C semantics makes `e` an lvalue of atomic type `T` - through any
    chain of typedefs, arrays of atomics, members of structure objects, dereferenced pointers to atomics, atomic
    pointers at any level of a declarator - then every
    one of the ten `op=` operators and `++e`, `--e`, `e++`, `e--` is compiled to the compare-and-swap loop whose
    `lock cmpxchg` has the size of `T` (scalar `T` of at most 8 bytes; 8 for a pointer), or is rejected with a diagnostic (`long double`,
    structures, unions).  It is never a plain load-operate-store. -/
theorem C16_qualifier (ds : List Decl) (senv : SEnv) (menv : Env) (e : Expr) (T : CType)
    (hspec : specDecls {} ds = some senv) (hmodel : elabDecls {} ds = .ok menv)
    (hat : atomicLvalue senv e = some T) (op : UpdOp) :
    elabUpdate menv op e =
      (match T.rmwSize? with
       | some n => .ok (.casLoop n)
       | none => .error .rmwRejected) :=
  elabUpdate_atomic (elabDecls_rel ds RelEnv.empty hspec hmodel) hat op

/-- corollary in the words of the property: whatever path the parser chose for an update of an atomic lvalue, it is
    the compare-and-swap loop -/
theorem C16_qualifier_never_plain (ds : List Decl) (senv : SEnv) (menv : Env) (e : Expr) (T : CType)
    (hspec : specDecls {} ds = some senv) (hmodel : elabDecls {} ds = .ok menv)
    (hat : atomicLvalue senv e = some T) (op : UpdOp) (p : Path) (hp : elabUpdate menv op e = .ok p) :
    p.isCas = true := by
  rw [C16_qualifier ds senv menv e T hspec hmodel hat op] at hp
  cases h : T.rmwSize? with
  | none => simp [h] at hp
  | some n => simp [h] at hp; subst hp; rfl

/-- **C16 (qualifier, acceptance).**  The hypothesis `elabDecls … = .ok menv` of `C16_qualifier` is not a restriction
    for programs without bit-fields: chibicc elaborates every such declaration sequence the C semantics accepts.
    (With bit-fields it may reject more: `typeof` of an atomic *rvalue* keeps `is_atomic` in chibicc, and a bit-field of
    such a type is then diagnosed.) -/
theorem C16_qualifier_accepts (ds : List Decl) (senv : SEnv) (hspec : specDecls {} ds = some senv)
    (hnb : ∀ d ∈ ds, noBitfield d = true) : ∃ menv, elabDecls {} ds = .ok menv :=
  elabDecls_accepts ds RelEnv.empty hspec hnb

/-- the declarations of the non-vacuity example:
    `typedef _Atomic int ai; struct S { char pad; ai m[3]; int bf : 3; }; struct S s; struct S *p;`
    `void f(_Atomic long q[2]) { typeof(s.m[1]) *l; … }` -/
def exDecls : List Decl :=
  [.typedef_ "ai" (.prim .int) true .name,
   .aggDef false "S" [⟨"pad", .prim .char, false, .name, false⟩, ⟨"m", .tdef "ai", false, .arr .name 3, false⟩,
                      ⟨"bf", .prim .int, false, .name, true⟩],
   .var "s" (.agg false "S") false .name,
   .var "p" (.agg false "S") false (.ptr .name []),
   .param "q" (.prim .long) true (.arr .name 2),
   .var "l" (.typeofE (.idx (.mem (.var "s") "m") 1)) false (.ptr .name [])]

/-- non-vacuity of `C16_qualifier`: `p->m[2]`, `*l`, `q[1]`, `(*&s.m[0])` are atomic lvalues (of 4, 4, 8, 4 bytes), and
    chibicc elaborates the declarations -/
example :
    (do let senv ← specDecls {} exDecls
        pure (([.idx (.arrow (.var "p") "m") 2, .deref (.var "l"), .idx (.var "q") 1,
               .par (.deref (.addr (.idx (.mem (.var "s") "m") 0)))] : List Expr).map fun e =>
          (atomicLvalue senv e).bind CType.rmwSize?)) = some [some 4, some 4, some 8, some 4] ∧
    (elabDecls {} exDecls).toOption.isSome = true := by decide

/-- the model does not send everything to the loop: the plain members and a non-atomic `float` take the plain paths,
    and an `_Atomic long double` / an `_Atomic struct` is a diagnostic -/
example :
    (match elabDecls {} (exDecls ++ [Decl.var "f" (.prim .float) false .name, Decl.var "ld" (.prim .ldouble) true .name,
                                     Decl.var "as" (.agg false "S") true .name]) with
     | .ok menv =>
       [elabUpdate menv .add (.mem (.var "s") "pad"), elabUpdate menv .postInc (.arrow (.var "p") "bf"),
        elabUpdate menv .postInc (.var "f"), elabUpdate menv .preInc (.var "f"),
        elabUpdate menv .add (.var "ld"), elabUpdate menv .mul (.var "as"),
        elabUpdate menv .shl (.idx (.mem (.var "s") "m") 1)].map Except.toOption
     | .error _ => []) =
      [some .plainMember, some .plainMember, some .plainIncDec, some .plainDeref, none, none, some (.casLoop 4)] := by decide

/-- the declarations of the atomic-pointer examples:
    `int *_Atomic p; int *_Atomic *q; int *const _Atomic volatile _Atomic a[3]; struct P { char c; int *_Atomic m; } s;`
    `typedef int *restrict _Atomic apt; apt t[2]; void (*_Atomic fp)(void); void f(long *_Atomic r) { … }` -/
def exPtrDecls : List Decl :=
  [.var "p" (.prim .int) false (.ptr .name [.atomic]),
   .var "q" (.prim .int) false (.ptr (.ptr .name []) [.atomic]),
   .var "a" (.prim .int) false (.ptr (.arr .name 3) [.const, .atomic, .volatile, .atomic]),
   .aggDef false "P" [⟨"c", .prim .char, false, .name, false⟩, ⟨"m", .prim .int, false, .ptr .name [.atomic], false⟩],
   .var "s" (.agg false "P") false .name,
   .typedef_ "apt" (.prim .int) false (.ptr .name [.restrict, .atomic]),
   .var "t" (.tdef "apt") false (.arr .name 2),
   .param "r" (.prim .long) false (.ptr .name [.atomic]),
   .var "fp" .void false (.fn (.ptr .name [.atomic]))]

/-- non-vacuity of `C16_qualifier` for atomic POINTERS (the qualifier list after `*`, /repo 1c76c1e): `p`, `*q`, `a[1]`,
    `s.m`, `t[0]`, `r`, `fp` are atomic lvalues of 8 bytes; the pointee `*p`, the plain pointer `q` and `r[1]` are not
    atomic lvalues; and chibicc elaborates the declarations -/
example :
    (do let senv ← specDecls {} exPtrDecls
        pure (([.var "p", .deref (.var "q"), .idx (.var "a") 1, .mem (.var "s") "m", .idx (.var "t") 0, .var "r", .var "fp",
                .deref (.var "p"), .var "q", .idx (.var "r") 1] : List Expr).map fun e =>
          (atomicLvalue senv e).bind CType.rmwSize?)) =
      some [some 8, some 8, some 8, some 8, some 8, some 8, some 8, none, none, none] ∧
    (elabDecls {} exPtrDecls).toOption.isSome = true := by decide

/-- on those declarations the model sends `p++`, `p += 1`, `--*q`, `s.m -= 1` (a member, but atomic), `fp++` to the loop
    of 8 bytes, and the plain pointee `*p += 1`, the plain pointer `q++`, `r[1] <<= 1` to the plain path -/
example :
    (match elabDecls {} exPtrDecls with
     | .ok menv =>
       [elabUpdate menv .postInc (.var "p"), elabUpdate menv .add (.var "p"), elabUpdate menv .preDec (.deref (.var "q")),
        elabUpdate menv .sub (.mem (.var "s") "m"), elabUpdate menv .postInc (.var "fp"),
        elabUpdate menv .add (.deref (.var "p")), elabUpdate menv .postInc (.var "q"),
        elabUpdate menv .shl (.idx (.var "r") 1)].map Except.toOption
     | .error _ => []) =
      [some (.casLoop 8), some (.casLoop 8), some (.casLoop 8), some (.casLoop 8), some (.casLoop 8),
       some .plainDeref, some .plainDeref, some .plainDeref] := by decide

/-- **C16 (qualifier, atomic pointer).**  The instance the repair /repo 1c76c1e is about, for ALL contexts: after any
    declarations `ds`, an object declared `[_Atomic] s * Q… x` whose qualifier list `Q…` (any length, any order, any
    mixture of `const`, `volatile`, the `restrict` spellings) contains `_Atomic`: if the C semantics accepts the
    declarations and chibicc elaborates them, each of the 14 update operators applied to `x` is the compare-and-swap loop
    with an 8-byte `lock cmpxchg` - whatever the pointee type is. -/
theorem C16_qualifier_atomic_pointer (ds : List Decl) (x : String) (s : TSpec) (kw : Bool) (qs : List PQual)
    (hq : PQual.atomic ∈ qs) (senv : SEnv) (menv : Env)
    (hspec : specDecls {} (ds ++ [.var x s kw (.ptr .name qs)]) = some senv)
    (hmodel : elabDecls {} (ds ++ [.var x s kw (.ptr .name qs)]) = .ok menv) (op : UpdOp) :
    elabUpdate menv op (.var x) = .ok (.casLoop 8) := by
  obtain ⟨P, hat⟩ := atomicLvalue_declared_pointer ds x s kw qs hq senv hspec
  simpa [CType.rmwSize?] using C16_qualifier _ senv menv (.var x) (.ptr P true) hspec hmodel hat op

/-- non-vacuity of `C16_qualifier_atomic_pointer`: `struct P { … }; struct P *volatile _Atomic const x;` after the
    declarations above -/
example :
    (specDecls {} (exPtrDecls ++ [.var "x" (.agg false "P") false (.ptr .name [.volatile, .atomic, .const])])).isSome = true ∧
    (elabDecls {} (exPtrDecls ++ [.var "x" (.agg false "P") false (.ptr .name [.volatile, .atomic, .const])])).toOption.isSome = true ∧
    PQual.atomic ∈ [PQual.volatile, .atomic, .const] := by decide

open ChibiVerif.C16Declr in
/-- **C16 (declarator, token level).**  parse.c `declarator` - with its double parse of a parenthesised declarator, its
    right-to-left handling of array suffixes and the qualifier loop of `pointers` (/repo 1c76c1e) - run on the tokens of
    ANY valid declarator (C11 6.7.6 grammar: the identifier, `*` followed by a type-qualifier-list - `const`, `volatile`,
    `restrict`, `__restrict`, `__restrict__`, `_Atomic` in any order and multiplicity -, `[n]`, `(void)`, parentheses,
    nested to any depth; no function returning a function or an array),
    started with a `Type` that refines the C type `T` named by the specifiers and followed by anything that does not
    continue the declarator, consumes exactly the declarator and returns a `Type` that refines the C11 type `T D` of the
    identifier: same derivation, every `_Atomic` of `T` still there, and every pointer whose qualifier list contains
    `_Atomic` marked atomic.  (`F` bounds the recursion depth.  The token lists include `* … _Atomic ( D )`: by the
    letter of C11 6.7.2.4p4 an `_Atomic` immediately followed by `(` begins an `_Atomic(type-name)` specifier, but no
    specifier can stand after `*`, and gcc 12, clang 14 and chibicc all read the qualifier there.) -/
theorem C16_declarator_tokens (d : Declr) (hv : valid d = true) :
    ∃ F, ∀ (t : Ty) (T : CType) (rest : List DTok) (fuel : Nat), refines t T = true → endsDeclr rest = true → F ≤ fuel →
      ∃ t', declaratorT fuel (toks d ++ rest) t = some (t', rest) ∧ refines t' (declType d T) = true := by
  obtain ⟨F, h⟩ := (AB d hv).1
  exact ⟨F, fun t T rest fuel hr he hf => ⟨d.apply t, h t rest fuel he hf, refines_apply d hr⟩⟩

open ChibiVerif.C16Declr in
/-- non-vacuity of `C16_declarator_tokens`: `_Atomic int *(*a[2])(void)` (array of 2 pointers to functions returning pointer
    to atomic int), followed by `;`-like rest: tokens `* ( * a [ 2 ] ) ( void )` -/
example :
    let d : Declr := .ptr (.fn (.ptr (.arr .name 2) [])) []
    valid d = true ∧ toks d = [.star, .lp, .star, .ident, .lb, .num 2, .rb, .rp, .lp, .void_, .rp] ∧
    declaratorT 6 (toks d ++ [.rp]) (.num .int true) =
      some (.arr (.ptr (.fn (.ptr (.num .int true) false) false) false) 2 false, [.rp]) ∧
    declType d (.num .int true) = .arr (.ptr (.fn (.ptr (.num .int true) false)) false) 2 := by decide

open ChibiVerif.C16Declr in
/-- the same with qualifier lists: `_Atomic int *_Atomic const (*volatile _Atomic a[2])(void)` - array of 2 ATOMIC pointers
    to functions returning an ATOMIC pointer to atomic int; and a list without `_Atomic` leaves the pointer plain -/
example :
    let d : Declr := .ptr (.fn (.ptr (.arr .name 2) [.volatile, .atomic])) [.atomic, .const]
    valid d = true ∧
    toks d = [.star, .qual .atomic, .qual .const, .lp, .star, .qual .volatile, .qual .atomic, .ident, .lb, .num 2, .rb, .rp,
              .lp, .void_, .rp] ∧
    declaratorT 6 (toks d ++ [.rp]) (.num .int true) =
      some (.arr (.ptr (.fn (.ptr (.num .int true) true) false) true) 2 false, [.rp]) ∧
    declType d (.num .int true) = .arr (.ptr (.fn (.ptr (.num .int true) true)) true) 2 ∧
    declaratorT 2 (toks (.ptr .name [.restrict3, .const, .restrict2, .volatile, .restrict]) ++ [.rp]) (.num .int false) =
      some (.ptr (.num .int false) false, [.rp]) := by decide

end ChibiVerif.Props.C16
