/-
C13 — the initializer parser terminates on every input (DESIGN.md section 6, C13: the former open statement
`C13_init_no_hang_Statement` of Props/C13Sites.lean).  Property theorems only; the induction is Lemmas/C13InitFuel.lean.

The model (Model/Init.lean, owner C05) spends one unit of its recursion budget per C call or loop iteration of the thirteen
mutually recursive functions `designation` … `initializer2`; "out of budget" (`Fail.fuel`) is the model's outcome for a C
recursion that does not end.  The theorems below show that this outcome does not exist: `needFuel ty toks = 2·|toks| + wt ty`
units are enough for EVERY type description and EVERY token list (no `tyOK`/`toksOK` hypothesis), `wt ty ≤ 4·nodes ty`, the
standard budget `stdFuel` of `parseInit` is larger, and from `needFuel` on the answer does not depend on the budget.
The bound is attained up to a constant: `int x[][][]…[] = 1` with d unknown bounds needs 4·d + 1 units
(initializer2 → array_initializer2 → count_array_init_elements → its loop, per level, none of which consumes a token).
-/
import ChibiVerif.Lemmas.C13InitFuel
import ChibiVerif.Lemmas.C13Init
import ChibiVerif.Lemmas.InitFuelLemmas

namespace ChibiVerif.Props.C13

open ChibiVerif.Init ChibiVerif.C13Init ChibiVerif.C13InitFuel

/-- **The initializer parser never runs out of its recursion budget** (was `C13_init_no_hang_Statement`): for EVERY type
    description and EVERY token list — arrays with a million elements and one token, range designators, deep brace nesting,
    empty structs and unions, arrays of them, unnamed bit-fields, flexible and zero-length arrays, arrays of unknown bound of
    arrays of unknown bound, string literals, token lists that end early — `parseInit` answers with a tree, a diagnostic or an
    abort site, never with `Fail.fuel`: every C call and loop iteration of `designation` … `initializer2` consumes a token,
    descends one level of the type, or steps over one member. -/
theorem C13_init_no_hang (ty : Ty) (toks : List ITok) : parseInit ty toks ≠ .error .fuel :=
  (initializer2_enough ty toks (newInit ty true) (stdFuel ty toks) (needFuel_le_stdFuel ty toks)).ne_fuel

/-- **An explicit bound.**  With at least `needFuel ty toks = 2·|toks| + wt ty` units, started on ANY tree, `initializer2`
    does not run out of budget, and what it leaves unread is a list no longer than its input. -/
theorem C13_init_fuel_bound (ty : Ty) (toks : List ITok) (init : Init) (fuel : Nat) (h : needFuel ty toks ≤ fuel) :
    initializer2 fuel ty toks init ≠ .error .fuel ∧
    (∀ i rest, initializer2 fuel ty toks init = .ok (i, rest) → rest.length ≤ toks.length) := by
  have hn := initializer2_enough ty toks init fuel h
  refine ⟨hn.ne_fuel, ?_⟩
  intro i rest he
  rw [he] at hn
  exact hn

-- non-vacuity: `int x[][] = {{1}}` needs no more than 2·5 + 9 units; with 4 it does run out
example : needFuel (.inc (.inc (.scalar 4 .int))) [.lbrace, .lbrace, .expr (Expr.num 1), .rbrace, .rbrace] = 19 ∧
    (match initializer2 4 (.inc (.inc (.scalar 4 .int))) [.lbrace, .lbrace, .expr (Expr.num 1), .rbrace, .rbrace] .flex with
      | .error .fuel => true
      | _ => false) = true := by
  decide

/-- the weight is linear in the size of the type: four calls per node -/
theorem C13_init_fuel_bound_linear (ty : Ty) (toks : List ITok) :
    needFuel ty toks ≤ 2 * toks.length + 4 * ty.nodes ∧ needFuel ty toks ≤ stdFuel ty toks := by
  refine ⟨?_, needFuel_le_stdFuel ty toks⟩
  have := wt_le ty
  unfold needFuel
  omega

/-- **From `needFuel` on the budget is immaterial**: every larger budget gives the answer of `parseInit` (so the model's
    answer is the answer of the C parser, whose recursion is not bounded by anything but its input). -/
theorem C13_init_answer_stable (ty : Ty) (toks : List ITok) (fuel : Nat) (h : needFuel ty toks ≤ fuel) :
    initializer2 fuel ty toks (newInit ty true) = parseInit ty toks := by
  have h0 := (initializer2_enough ty toks (newInit ty true) (needFuel ty toks) (Nat.le_refl _)).ne_fuel
  have e1 : initializer2 (needFuel ty toks) ty toks (newInit ty true) = initializer2 fuel ty toks (newInit ty true) := by
    rcases initializer2_fuel_mono ty toks (newInit ty true) _ _ h with h1 | h1
    · exact absurd h1 h0
    · exact h1
  have e2 : initializer2 (needFuel ty toks) ty toks (newInit ty true) = parseInit ty toks := by
    rcases initializer2_fuel_mono ty toks (newInit ty true) _ _ (needFuel_le_stdFuel ty toks) with h1 | h1
    · exact absurd h1 h0
    · exact h1
  rw [← e1, e2]

example : needFuel (.array (.scalar 4 .int) 1000000) [.expr (Expr.num 1)] ≤ 10 := by decide

/-- **Corollary for C05: on the inputs the front end produces `parseInit` is total.**  For every type as `struct_members`
    builds it (`tyOK`) and every token list as `tokenize` makes it (`toksOK`) the answer is a tree of the shape of the type
    together with a rest no longer than the input, or a located diagnostic (`error_tok`) — never an abort site
    (`C13_init_nocrash_partial`) and never the exhausted budget. -/
theorem C13_parseInit_total (ty : Ty) (toks : List ITok) (hty : tyOK ty = true) (htoks : toksOK toks = true) :
    (∃ init rest, parseInit ty toks = .ok (init, rest) ∧ shape ty init = true ∧ rest.length ≤ toks.length) ∨
    (∃ msg, parseInit ty toks = .error (.diag msg)) := by
  have hs := (nc_all (stdFuel ty toks)).initializer2 ty toks (newInit ty true) hty (newInit_shape ty true hty) htoks
  have hn := initializer2_enough ty toks (newInit ty true) (stdFuel ty toks) (needFuel_le_stdFuel ty toks)
  unfold parseInit
  generalize initializer2 (stdFuel ty toks) ty toks (newInit ty true) = x at hs hn
  cases x with
  | ok a => exact Or.inl ⟨a.1, a.2, rfl, hs.1, hn⟩
  | error e =>
    cases e with
    | diag m => exact Or.inr ⟨m, rfl⟩
    | crash w => exact absurd hs (by intro h; exact h)
    | fuel => exact absurd hn (by intro h; exact h)

-- non-vacuity: struct { int a; int :3; union { int b; float c; }; char d[]; } with `{ .c = 1, [5] = 2, {3}, 4, "a" }`
example : tyOK (.struct [(⟨some "a", 0, none⟩, .scalar 4 .int), (⟨none, 4, some (0, 3)⟩, .scalar 4 .int),
      (⟨none, 8, none⟩, .union [(⟨some "b", 0, none⟩, .scalar 4 .int), (⟨some "c", 0, none⟩, .scalar 4 .flt)] 4 false),
      (⟨some "d", 12, none⟩, .array (.scalar 1 .int) 0)] 12 true) = true ∧
    toksOK [.lbrace, .dot "c", .eq, .expr (Expr.num 1), .comma, .idx 5, .eq, .expr (Expr.num 2), .comma, .lbrace,
      .expr (Expr.num 3), .rbrace, .comma, .str 0 [97, 0] 1, .rbrace] = true := by decide

end ChibiVerif.Props.C13
