/-
C17 — the clients of hashmap.c: no false hit and no false miss from the way keys are passed.

The name tables of the compiler (macros, the variable and tag table of every scope, the
keyword and type-name sets, the include-path cache, `#pragma once` and include-guard
tables) are all `HashMap`s used through six entry points.  An entry stores the *pointer*
it was given; lookups come as (pointer, length) pairs into a source buffer, stores mostly as
NUL-terminated copies.  Two names must meet in a table exactly when they are the same
spelling — whatever follows the token in its buffer (`out` vs `out_err`), whichever of the
conventions each side uses.

* `C17_match_is_equality`, `C17_client_keys`, `C17_span_ignores_context`,
  `C17_copy_is_spelling_iff_no_nul`: the conventions of `Model/C17Clients.lean`;
* `C17_clients_dictionary`, `C17_client_last_write_wins`: client histories answer like a
  dictionary keyed by spelling (through `C17_refines`, with the compiler's hash);
* `C17_sites_audited`: **every** call of `hashmap_*` in the nine sources (list regenerated on
  every run from the text, cross-checked against clang's typed AST) passes its key by one of
  the audited conventions, into a known table, with an audited non-NULL value — a new call
  site with another convention makes this `decide` fail;
* `C17_key_memory_stable`: nothing is ever freed, only two growable arrays are reallocated,
  the in-place rewriters of a source buffer run before its first token exists;
* `C17_ident_no_nul`: why a copied identifier cannot contain a NUL.

Goto labels are not a client: `resolve_goto_labels` compares `strndup`ed names with `strcmp`
in a linked list (C03_label_binds).

Assumed, not proved: no write through a pointer into an object after its address became a
key (C has no ownership; supported by `C17_key_memory_stable` and by the differential legs).
-/
import ChibiVerif.Lemmas.C17ClientLemmas
import ChibiVerif.Lemmas.HashMapLemmas
import ChibiVerif.Gen.LexGen

namespace ChibiVerif.Props.C17
open ChibiVerif.HashMap ChibiVerif.C17Clients
open ChibiVerif.Gen.HashSites

/-- **C17 (`match`).**  The comparison hashmap.c makes between a stored key and a looked-up
    key — equal `keylen`, then `memcmp` over `keylen` bytes — is equality of the two byte
    strings: a key that is a proper prefix of another (`out`, `out_err`) does not match it. -/
theorem C17_match_is_equality (stored key : Bytes) : matchC stored key = true ↔ stored = key :=
  matchC_iff stored key

/-- **C17 (client keys).**  For any two key sources that satisfy the side conditions of their
    conventions (token inside its buffer; copied token without NUL; string terminated), in
    any combination of conventions: both keys are defined, and hashmap.c's comparison of
    them succeeds iff the two spellings are equal. -/
theorem C17_client_keys (a b : Src) (ha : a.wf = true) (hb : b.wf = true) :
    ∃ ka kb, a.key = .ok ka ∧ b.key = .ok kb ∧ (matchC ka kb = true ↔ a.spelling = b.spelling) :=
  ⟨a.spelling, b.spelling, key_of_wf ha, key_of_wf hb, matchC_iff _ _⟩

/-- non-vacuity: the token `out` inside the buffer `out_err = 1;` looked up as a span, against
    `out_err` stored as a copy and `out` stored as a literal -/
example :
    let buf : Bytes := [111, 117, 116, 95, 101, 114, 114, 32, 61, 32, 49, 59, 0]
    (Src.span buf 3).wf = true ∧ (Src.dup buf 7).wf = true ∧ (Src.cstr [111, 117, 116, 0]).wf = true ∧
    (Src.span buf 3).spelling ≠ (Src.dup buf 7).spelling ∧
    (Src.span buf 3).spelling = (Src.cstr [111, 117, 116, 0]).spelling := by decide

/-- **C17 (a span does not see its context).**  The key of a token is the same whatever
    follows it in the buffer. -/
theorem C17_span_ignores_context (tok r1 r2 : Bytes) :
    (Src.span (tok ++ r1) tok.length).key = (Src.span (tok ++ r2) tok.length).key := by
  simp [Src.key, spanC]

/-- **C17 (a copy is the spelling exactly when the token has no NUL).**  For a token inside
    its buffer, `strndup` + `strlen` yields the part before the first NUL; that is the whole
    token iff the token contains no NUL.  (So "keys that differ only after an embedded NUL"
    would collide — and cannot occur, `C17_ident_no_nul`.) -/
theorem C17_copy_is_spelling_iff_no_nul (obj : Bytes) (len : Nat) (h : len ≤ obj.length) :
    (Src.dup obj len).key = .ok (untilNul (obj.take len)) ∧
    ((Src.dup obj len).key = .ok (obj.take len) ↔ (0 : UInt8) ∉ obj.take len) := by
  refine ⟨key_dup_general h, ?_⟩
  rw [key_dup_general h]
  constructor
  · intro e
    injection e with e
    rw [← e]
    exact zero_not_mem_untilNul _
  · intro hn
    rw [untilNul_of_not_mem hn]

/-- non-vacuity -/
example : (3 : Nat) ≤ ([97, 98, 99, 0] : Bytes).length := by decide

/-- **C17 (why identifiers have no NUL).**  `read_ident` accepts a code point only if
    `is_ident1`/`is_ident2` (tables regenerated from unicode.c) accepts it, and neither accepts
    code point 0; in UTF-8 a zero byte occurs only as the encoding of code point 0
    (C11_utf8_layout).  Literals of the compiler are covered by `C17_sites_audited`. -/
theorem C17_ident_no_nul :
    ChibiVerif.Gen.Lex.isIdent1 0 = false ∧ ChibiVerif.Gen.Lex.isIdent2 0 = false := by decide

/-- **C17 (client histories).**  Any history of stores, deletions and lookups whose keys are
    named through any mix of the three conventions (side conditions satisfied) is executed by
    hashmap.c, with the compiler's hash, without abort, and every lookup is answered like
    the dictionary **keyed by spelling**. -/
theorem C17_clients_dictionary (cops : List COp) (hwf : ∀ c ∈ cops, c.src.wf = true) :
    ∃ ops s, toOps cops = .ok ops ∧
      run fnv HM.empty ops = .ok (s, (arun AMap.empty (cops.map COp.spellOp)).2) := by
  refine ⟨cops.map COp.spellOp, ?_⟩
  obtain ⟨s, hs, _, _⟩ := run_refines fnv (cops.map COp.spellOp) HM.empty AMap.empty (Inv_empty fnv)
    (fun k => by rw [absGet_of_length_zero rfl, AMap.get_empty])
  exact ⟨s, toOps_of_wf hwf, hs⟩

/-- non-vacuity of `C17_clients_dictionary`: `#define out_err`, `#define out` (copies of
    tokens), lookup of the token `out` in `out_err = 1;`, `-U out` (command-line word) -/
example :
    let buf : Bytes := [111, 117, 116, 95, 101, 114, 114, 32, 61, 32, 49, 59, 0]
    ∀ c ∈ [COp.put (.dup buf 7) 1, COp.put (.dup buf 3) 2, COp.get (.span buf 3),
           COp.del (.cstr [111, 117, 116, 0]), COp.get (.span buf 3)], c.src.wf = true := by decide

/-- what the most recent operation on the spelling `sp` left -/
def lastWriteSp (cops : List COp) (sp : Bytes) : Option Nat :=
  cops.foldl (fun acc c => match c with
    | .put s v => if s.spelling = sp then some v else acc
    | .del s => if s.spelling = sp then none else acc
    | .get _ => acc) none

/-- **C17 (client-level wording of the property).**  After any well-formed client history a
    lookup through any convention returns the value of the most recent store whose
    **spelling** equals the lookup's, unless a deletion of that spelling followed — whichever
    conventions the store, the deletion and the lookup used. -/
theorem C17_client_last_write_wins (cops : List COp) (q : Src) (hwf : ∀ c ∈ cops, c.src.wf = true)
    (hq : q.wf = true) :
    ∃ ops s outs, toOps (cops ++ [COp.get q]) = .ok ops ∧ run fnv HM.empty ops = .ok (s, outs) ∧
      outs.getLast? = some (lastWriteSp cops q.spelling) := by
  have hwf' : ∀ c ∈ cops ++ [COp.get q], c.src.wf = true := by
    intro c hc
    rcases List.mem_append.1 hc with h | h
    · exact hwf c h
    · simp at h; subst h; exact hq
  obtain ⟨ops, s, hops, hrun⟩ := C17_clients_dictionary _ hwf'
  refine ⟨ops, s, _, hops, hrun, ?_⟩
  rw [List.map_append, arun_append]
  simp only [List.map_cons, List.map_nil, COp.spellOp, arun, List.getLast?_concat]
  rw [arun_get_eq_foldl]
  congr 1
  unfold lastWriteSp
  rw [List.foldl_map]
  congr 1
  funext acc c
  cases c <;> rfl

/-! ### The macro table in the property's own words -/

/-- the operations of preprocess.c / main.c on `macros`, each with the key convention its call
    site uses (`C17_sites_audited`, `C17_tables_mix_conventions`); `body` identifies a
    replacement list -/
inductive MacroOp where
  | define (buf : Bytes) (len : Nat) (body : Nat)  -- `#define`: add_macro(strndup(tok->loc, tok->len), …)
  | undef (buf : Bytes) (len : Nat)                -- `#undef`: undef_macro(strndup(tok->loc, tok->len))
  | dashD (word : Bytes) (body : Nat)              -- `-Dname`: define_macro(str, "1")
  | dashDeq (word : Bytes) (eq : Nat) (body : Nat) -- `-Dname=body`: define_macro(strndup(str, eq - str), eq + 1)
  | dashU (word : Bytes)                           -- `-Uname`: undef_macro(argv[i] + 2)
  | find (buf : Bytes) (len : Nat)                 -- find_macro(tok): `#ifdef`, `defined`, expansion
  | guard (name : Bytes)                           -- include_file: hashmap_get(&macros, guard_name)

def MacroOp.toCOp : MacroOp → COp
  | .define buf len body => .put (.dup buf len) body
  | .undef buf len => .del (.dup buf len)
  | .dashD word body => .put (.cstr word) body
  | .dashDeq word eq body => .put (.dup word eq) body
  | .dashU word => .del (.cstr word)
  | .find buf len => .get (.span buf len)
  | .guard name => .get (.cstr name)

/-- the macro name an operation is about -/
def MacroOp.name (m : MacroOp) : Bytes := m.toCOp.src.spelling

/-- `some body` if the most recent operation on `name` was a definition (with that body) -/
def definedAs (ms : List MacroOp) (name : Bytes) : Option Nat :=
  lastWriteSp (ms.map MacroOp.toCOp) name

/-- **C17 (macros).**  After any sequence of `#define`, `#undef`, `-D`, `-U` (and lookups) in
    which every directive's name token lies in its buffer without NUL and every command-line
    word is terminated, `find_macro` on a token — and the include-guard test on a stored guard
    name — finds a macro exactly when the most recent operation on that **name** was a
    definition, and then it is that definition's replacement list.  This is the first sentence
    of the property, for the real key conventions of every macro-table call site. -/
theorem C17_macros (ms : List MacroOp) (q : MacroOp)
    (hwf : ∀ m ∈ ms, m.toCOp.src.wf = true) (hq : q.toCOp.src.wf = true) :
    ∃ ops s outs, toOps (ms.map MacroOp.toCOp ++ [COp.get q.toCOp.src]) = .ok ops ∧
      run fnv HM.empty ops = .ok (s, outs) ∧ outs.getLast? = some (definedAs ms q.name) := by
  have h1 : ∀ c ∈ ms.map MacroOp.toCOp, c.src.wf = true := by
    intro c hc
    obtain ⟨m, hm, rfl⟩ := List.mem_map.1 hc
    exact hwf m hm
  exact C17_client_last_write_wins (ms.map MacroOp.toCOp) q.toCOp.src h1 hq

/-- non-vacuity of `C17_macros`: `-Dout=1 -Uout_err`, then `#define out_err`, `#undef out`,
    `#ifdef out` inside `out_err…`: the last operation on `out` was the `#undef` -/
example :
    let src : Bytes := [111, 117, 116, 95, 101, 114, 114, 10, 0]       -- "out_err\n"
    let ms := [MacroOp.dashDeq [111, 117, 116, 61, 49, 0] 3 1, .dashU [111, 117, 116, 95, 101, 114, 114, 0],
               .define src 7 2, .undef src 3]
    (∀ m ∈ ms, m.toCOp.src.wf = true) ∧ (MacroOp.find src 3).toCOp.src.wf = true ∧
      definedAs ms (MacroOp.find src 3).name = none ∧ definedAs ms (MacroOp.find src 7).name = some 2 := by
  decide

/-! ### Every call site -/

/-- **C17 (every call site is audited).**  Each of the calls of `hashmap_get`, `_get2`, `_put`,
    `_put2`, `_delete`, `_delete2` in the nine sources addresses a known table, passes its key
    by a convention audited for that table's domain (token span; `strlen` of a string whose
    every possible origin — followed through parameters, locals and return values by the
    translator — is an audited NUL-terminated object), through the matching entry point, and
    stores an audited non-NULL value. -/
theorem C17_sites_audited : ∀ s ∈ sites, siteOK s = true := by decide

/-- the list is not empty, contains all six tables of preprocess.c/parse.c/tokenize.c, and the
    audit does reject: an unknown table, a key of unknown origin, a length that is not the
    token's, a literal with a NUL -/
example : sites.length ≥ 30 ∧
    siteOK ⟨"parse.c", "f", .get2, "&labels", .span "tok", ""⟩ = false ∧
    siteOK ⟨"parse.c", "f", .get, "&sc->vars", .cstr [.other "buf"], ""⟩ = false ∧
    siteOK ⟨"parse.c", "f", .get2, "&sc->vars", .other2 "tok->loc" "tok->len - 1", ""⟩ = false ∧
    siteOK ⟨"parse.c", "f", .put, "&scope->vars", .cstr [.lit "a\x00b"], "sc"⟩ = false ∧
    siteOK ⟨"parse.c", "f", .put, "&scope->vars", .cstr [.dupTokSpan], "NULL"⟩ = false := by decide

/-- **C17 (the conventions really are mixed).**  In the macro table and in the variable table
    of a scope, stores go through `strlen` of a copied token and lookups through token spans —
    the combination `C17_client_keys` is about. -/
theorem C17_tables_mix_conventions :
    (∃ s ∈ sites, s.table = "&macros" ∧ s.api = .put ∧ keyHasLeaf s.key .dupTokSpan = true) ∧
    (∃ s ∈ sites, s.table = "&macros" ∧ s.api = .get2 ∧ s.key = .span "tok") ∧
    (∃ s ∈ sites, s.table = "&macros" ∧ s.api = .delete) ∧
    (∃ s ∈ sites, s.table = "&scope->vars" ∧ s.api = .put ∧ keyHasLeaf s.key .dupTokSpan = true) ∧
    (∃ s ∈ sites, s.table = "&sc->vars" ∧ s.api = .get2 ∧ s.key = .span "tok") := by
  decide

/-- **C17 (only the macro table deletes).**  `hashmap_delete*` is called on the macro table and
    inside hashmap.c's own test, nowhere else: tombstones exist only in the macro table. -/
theorem C17_only_macros_delete :
    ∀ s ∈ sites, (s.api = .delete ∨ s.api = .delete2) → s.file = "hashmap.c" ∨ s.table = "&macros" := by
  decide

/-- **C17 (key memory is stable).**  The compiler never calls `free`; `realloc` is applied only
    to the two growable pointer arrays (never to an object a key points into); the three
    functions that rewrite a source buffer in place are called only in `tokenize_file`, before
    `tokenize` creates the first token of that buffer. -/
theorem C17_key_memory_stable :
    (∀ r ∈ releaseSites, releaseOK r = true) ∧ (∀ w ∈ bufferWriters, writerOK w = true) ∧
      bufferWriters.length = 3 := by decide

end ChibiVerif.Props.C17
