/-
C14 — driver process discipline under failure and concurrency.

Property theorems only (helper lemmas: Lemmas/DriverProcLemmas.lean, Lemmas/DriverProcOutputs.lean,
Lemmas/DriverProcConcurrent.lean).  Every theorem is for all path types `P`, all commands (any number of
inputs of any kinds), all fault schedules `env.sched` (each child of each kind may end with any exit
code or any signal, a failing as/ld may leave its output untouched, leave junk in it, or remove it), all mkstemp behaviours
`env.fresh` and all initial file systems, unless a hypothesis says otherwise.
-/
import ChibiVerif.Model.DriverProc
import ChibiVerif.Lemmas.DriverProcLemmas
import ChibiVerif.Lemmas.DriverProcConcurrent
import ChibiVerif.Lemmas.DriverProcOutputs

namespace ChibiVerif.Props.C14
open ChibiVerif.DriverProc

variable {P : Type} [DecidableEq P]

/-- **C14 (the driver always exits).**  Every run ends, after at most `fuel` steps, in a configuration
    `done code`; the model-internal error state is unreachable. -/
theorem C14_terminates (env : Env P) (cmd : Cmd P) (fs : FS P) :
    ∃ code, (runCmd env cmd fs).1.phase = .done code := by
  obtain ⟨code, e, efs, h, _, _⟩ := runCmd_spec env cmd fs
  exact ⟨code, by rw [h]; exact (cleanupAll_spec code e.tmpfiles e efs).1⟩

/-- **C14 (determinism).**  Whatever number of steps is taken, a terminal configuration reachable from
    the initial one is the one `runCmd` computes (so the theorems below, stated for `runCmd`, speak
    about every terminal world of the small-step system). -/
theorem C14_deterministic (env : Env P) (cmd : Cmd P) (fs : FS P) (x : DState P × FS P)
    (h : Reaches env (init cmd, fs) x) : x = runCmd env cmd fs := by
  obtain ⟨code, hc⟩ := C14_terminates env cmd fs
  exact Reaches.unique env h ⟨_, rfl, by rw [hc]; rfl⟩

/-- **C14 (exit status).**  The exit status is 1 if some step failed — a child (cc1, as or ld) with a
    non-zero wait status, be it an exit code or a signal; an `error()` of the driver (`-o` with several
    files, unknown extension, no input); a failed `mkstemp` — and 0 otherwise. -/
theorem C14_status (env : Env P) (cmd : Cmd P) (fs : FS P) (code : Nat)
    (h : (runCmd env cmd fs).1.phase = .done code) :
    (code = 1 ∧ ∃ e ∈ (runCmd env cmd fs).1.log, Event.bad e = true) ∨
    (code = 0 ∧ ∀ e ∈ (runCmd env cmd fs).1.log, Event.bad e = false) := by
  obtain ⟨c, e, efs, hr, _, hcase⟩ := runCmd_spec env cmd fs
  obtain ⟨h1, h2, _, _⟩ := cleanupAll_spec c e.tmpfiles e efs
  rw [hr] at h ⊢
  rw [h1] at h
  injection h with h; subst h
  rw [h2]
  rcases hcase with ⟨rfl, _, hb⟩ | ⟨rfl, _, l, b, hl, _, hb⟩
  · right
    refine ⟨rfl, ?_⟩
    intro x hx
    simp only [List.mem_append, List.mem_map, List.mem_singleton] at hx
    rcases hx with (hx | ⟨t, _, rfl⟩) | rfl
    · exact hb x hx
    · rfl
    · rfl
  · left
    exact ⟨rfl, b, by simp [hl], hb⟩

/-- the fault schedule in which the second assembler run is killed by a signal; `-c` with two C files -/
private def exEnv : Env Nat :=
  { mode := .c, sched := fun p k => if p = .as ∧ k = 1 then ⟨.signal 10, .junk⟩ else .ok,
    fresh := fun k => some (100 + k) }
private def exCmd : Cmd Nat :=
  { mode := .c, out := none, aout := 99,
    inputs := [⟨1, .C, 11, 12⟩, ⟨2, .C, 21, 22⟩, ⟨3, .C, 31, 32⟩] }
private def exFs : FS Nat := [(1, ⟨.orig, [1]⟩), (2, ⟨.orig, [2]⟩), (3, ⟨.orig, [3]⟩), (22, ⟨.orig, [7]⟩)]

/-- non-vacuity: a run that fails in the middle (status 1, third unit never started) … -/
example : (runCmd exEnv exCmd exFs).1.phase = .done 1 := by decide
example : (runCmd exEnv exCmd exFs).1.log =
    [.mkstemp 100, .spawn .cc1 [1] (some 100), .wait .cc1 (.exit 0), .spawn .as [100] (some 12), .wait .as (.exit 0),
     .mkstemp 101, .spawn .cc1 [2] (some 101), .wait .cc1 (.exit 0), .spawn .as [101] (some 22), .wait .as (.signal 10),
     .unlink 100, .unlink 101, .exit 1] := by decide
/-- … and one that succeeds (status 0) -/
example : (runCmd { exEnv with sched := fun _ _ => .ok } exCmd exFs).1.phase = .done 0 := by decide

/-- **C14 (no temporary survives).**  In the terminal world of every run — success, any failing step,
    any signal, failed mkstemp — no file the driver created with `mkstemp` exists.  No freshness
    assumption is needed: every created name is recorded in `tmpfiles` and unlinked last. -/
theorem C14_no_temps (env : Env P) (cmd : Cmd P) (fs : FS P) :
    ∀ t ∈ created (runCmd env cmd fs).1.log, (runCmd env cmd fs).2.get t = none := by
  obtain ⟨c, e, efs, hr, hcr, _⟩ := runCmd_spec env cmd fs
  obtain ⟨_, h2, _, h4⟩ := cleanupAll_spec c e.tmpfiles e efs
  rw [hr, h2]
  intro t ht
  rw [h4 t]
  have : t ∈ e.tmpfiles := by
    rw [created_append, created_append] at ht
    simp only [List.mem_append] at ht
    rcases ht with (ht | ht) | ht
    · rw [hcr] at ht; exact ht
    · exfalso
      have : ∀ l : List P, created (l.map Event.unlink) = [] := by
        intro l; induction l with
        | nil => rfl
        | cons a r ih => simp [created_cons, ih]
      rw [this] at ht; cases ht
    · simp [created_cons, created_nil] at ht
  simp [this]

example : created (runCmd exEnv exCmd exFs).1.log = [100, 101] := by decide
example : (runCmd exEnv exCmd exFs).2 = [(22, ⟨.junk, []⟩), (12, ⟨.obj, [1]⟩), (1, ⟨.orig, [1]⟩), (2, ⟨.orig, [2]⟩), (3, ⟨.orig, [3]⟩)] := by
  decide

/-- **C14 (a failing front end leaves no partial output).**  Under the freshness assumptions `Setup`
    (mkstemp hands out pairwise distinct names `ts` that are not named on the command line and did not
    exist; the requested outputs are pairwise distinct and are not inputs), for EVERY fault schedule:
    if the log of the run contains a failing `wait` for cc1 (exit code or signal) and it is the FRONT END that failed
    (`hfront`: not the one late failure cc1 has, the write of the `-MD` dependency file after the output was written —
    that case is `C14_late_dep_failure`), then the inputs split
    as `pre ++ u :: post` where `u` is the translation unit whose front end failed — it is the
    `cCount pre`-th cc1 invocation of the schedule — and in the terminal world
    * the output of every earlier unit (`-S`, `-c`, `-E -o`) is complete: right class, made from its source;
    * every other path — in particular the output path of `u` (`unitOutput`, or the executable when
      linking) and the outputs of the units after `u` — has exactly the content it had before the run
      (absent stays absent);
    * nothing was started after the failing wait: the rest of the log is the atexit cleanup. -/
theorem C14_no_partial_output (env : Env P) (cmd : Cmd P) (fs : FS P) (ts : List P)
    (S : Setup env cmd fs ts) (st : Status)
    (h : Event.wait .cc1 st ∈ (runCmd env cmd fs).1.log) (hbad : st.wait ≠ 0)
    (hfront : ∀ k, (env.sched .cc1 k).leaves ≠ .complete) :
    ∃ (pre : List (Input P)) (u : Input P) (post : List (Input P)),
      cmd.inputs = pre ++ u :: post ∧ effKind cmd.mode u.kind = .C ∧
      st = (env.sched .cc1 (cCount cmd pre)).status ∧
      (∀ v ∈ pre, isUnit cmd v = true →
        (runCmd env cmd fs).2.get (unitOutput cmd v) = some ⟨unitCls cmd, fs.origins v.path⟩) ∧
      (∀ p, (∀ v ∈ pre, isUnit cmd v = true → unitOutput cmd v ≠ p) →
        (runCmd env cmd fs).2.get p = fs.get p) ∧
      (∃ l c, (runCmd env cmd fs).1.log = l ++ [Event.wait .cc1 st] ++ c ∧ ∀ e ∈ c, Event.isCleanup e = true) := by
  obtain ⟨code, e, efs, hr, hcr, hcase⟩ := runCmd_spec env cmd fs
  obtain ⟨_, h2, _, h4⟩ := cleanupAll_spec code e.tmpfiles e efs
  have hbadE : Event.bad (Event.wait Prog.cc1 st : Event P) = true := by simp [Event.bad, hbad]
  rw [hr] at h ⊢
  rw [h2] at h ⊢
  have hin : Event.wait Prog.cc1 st ∈ e.log := by
    simp only [List.mem_append, List.mem_map, List.mem_singleton] at h
    rcases h with (h | ⟨_, _, h⟩) | h
    · exact h
    · cases h
    · cases h
  rcases hcase with ⟨_, _, hnb⟩ | ⟨_, hd, l, b, hl, hlb, hb⟩
  · have := hnb _ hin; rw [hbadE] at this; cases this
  · have hbe : b = Event.wait Prog.cc1 st := by
      rw [hl] at hin
      rcases List.mem_append.mp hin with h | h
      · have := hlb _ h; rw [hbadE] at this; cases this
      · exact (List.mem_singleton.mp h).symm
    subst hbe
    have hlast : e.log.getLast? = some (Event.wait Prog.cc1 st) := by rw [hl]; simp
    -- rejected commands never run cc1
    by_cases hacc : ¬ (cmd.inputs.isEmpty = true ∧ cmd.nExtra = 0) ∧ multiO cmd = false
    · have hcomp : compile cmd = compileLoop cmd 0 cmd.inputs := by
        unfold compile; rw [if_neg hacc.1]; simp [hacc.2]
      have hloop := loop_lemma env cmd fs ts S cmd.inputs [] (init cmd, fs) (by simp) (loopInv_init cmd fs ts)
      simp only [totalTemps] at hloop
      rw [← hcomp, hd] at hloop
      obtain ⟨pre, u, post, y, hsplit, hI, hF⟩ := hloop st hlast
      obtain ⟨hk, hst, hts, hyt, hfr0⟩ := hF st hlast
      have hfr : ∀ p, p ∉ e.tmpfiles → efs.get p = y.2.get p := fun p hp => by
        rw [hfr0 p hp, if_neg (fun h => hfront _ h.1)]
      refine ⟨pre, u, post, hsplit, hk, by rw [hst, hI.ncc1], ?_, ?_, ⟨l, e.tmpfiles.map Event.unlink ++ [Event.exit code], ?_, ?_⟩⟩
      · intro v hv hvu
        have hvin : v ∈ cmd.inputs := by rw [hsplit]; simp [hv]
        have hnt : unitOutput cmd v ∉ e.tmpfiles :=
          fun hm => S.notReq _ (hts _ hm) (unitOutput_requested hvin hvu)
        rw [h4, if_neg hnt, hfr _ hnt]
        exact hI.units v hv hvu
      · intro p hp
        rw [h4]
        by_cases hpt : p ∈ e.tmpfiles
        · rw [if_pos hpt, S.absent p (hts p hpt)]
        · rw [if_neg hpt, hfr p hpt]
          exact hI.frame p (fun hy => hpt (hyt p hy)) hp
      · rw [hl]; simp
      · intro x hx
        simp only [List.mem_append, List.mem_map, List.mem_singleton] at hx
        rcases hx with ⟨_, _, rfl⟩ | rfl <;> rfl
    · exfalso
      have hfail : ∃ why, compile cmd = [Act.fail why] := by
        unfold compile
        by_cases h1 : cmd.inputs.isEmpty = true ∧ cmd.nExtra = 0
        · exact ⟨.noInput, by rw [if_pos h1]⟩
        · have h2 : multiO cmd = true := by
            cases hm : multiO cmd with
            | true => rfl
            | false => exact absurd ⟨h1, hm⟩ hacc
          exact ⟨.multiO, by rw [if_neg h1]; simp [h2]⟩
      obtain ⟨why, hwhy⟩ := hfail
      rw [hwhy] at hd
      simp only [doActs, doAct] at hd
      injection hd with hd
      have : e.log = [Event.error why] := by
        have := congrArg (fun x => x.1.log) hd
        simpa [DState.emit, DState.exitWith, init] using this.symm
      rw [this] at hlast
      simp at hlast

/-- non-vacuity: `-S a.c b.c c.c` with outputs 11, 21, 31 pre-existing (sentinel contents), the front end
    of `b.c` killed by a signal: `a.s` is complete, `b.s` and `c.s` still hold their sentinels -/
private def exS : Cmd Nat :=
  { mode := .S, out := none, aout := 99, inputs := [⟨1, .C, 11, 12⟩, ⟨2, .C, 21, 22⟩, ⟨3, .C, 31, 32⟩] }
private def exSEnv : Env Nat :=
  { mode := .S, sched := fun p k => if p = .cc1 ∧ k = 1 then ⟨.signal 8, .untouched⟩ else .ok, fresh := fun _ => none }
private def exSFs : FS Nat :=
  [(1, ⟨.orig, [1]⟩), (2, ⟨.orig, [2]⟩), (3, ⟨.orig, [3]⟩), (11, ⟨.orig, [7]⟩), (21, ⟨.orig, [8]⟩), (31, ⟨.orig, [9]⟩)]

example : Setup exSEnv exS exSFs [] where
  mode := rfl
  fresh := by intro k t h; simp at h
  enough := by decide
  nodup := by decide
  notInput := by simp
  notReq := by simp
  absent := by simp
  reqNodup := by decide
  reqNotInput := by decide

example : Event.wait .cc1 (.signal 8) ∈ (runCmd exSEnv exS exSFs).1.log ∧ (Status.signal 8).wait ≠ 0 := by decide
example : (runCmd exSEnv exS exSFs).2.get 11 = some ⟨.asm, [1]⟩ ∧ (runCmd exSEnv exS exSFs).2.get 21 = some ⟨.orig, [8]⟩ ∧
    (runCmd exSEnv exS exSFs).2.get 31 = some ⟨.orig, [9]⟩ ∧ (runCmd exSEnv exS exSFs).1.phase = .done 1 := by decide

/-- **C14 (the one late failure of cc1).**  Same setting, but the failing cc1 is one that had already written its whole
    output (`Leaves.complete`: under `-MD` the write of the dependency file, which comes last, failed): the exit status
    is still 1 (`C14_status`) and nothing is started afterwards; the path this child writes directly — the `.s` file
    under `-S`, the `-o` file under `-E`; under `-c` and when linking it is a temporary, which `C14_no_temps` removes —
    holds the COMPLETE translation of its unit, and every other path is as `C14_no_partial_output` says: earlier units
    complete, everything else untouched.  So even this failure leaves no partial file. -/
theorem C14_late_dep_failure (env : Env P) (cmd : Cmd P) (fs : FS P) (ts : List P)
    (S : Setup env cmd fs ts) (st : Status)
    (h : Event.wait .cc1 st ∈ (runCmd env cmd fs).1.log) (hbad : st.wait ≠ 0) :
    ∃ (pre : List (Input P)) (u : Input P) (post : List (Input P)),
      cmd.inputs = pre ++ u :: post ∧ effKind cmd.mode u.kind = .C ∧
      st = (env.sched .cc1 (cCount cmd pre)).status ∧
      ((env.sched .cc1 (cCount cmd pre)).leaves = .complete →
        (∀ p, cc1Out cmd u = some p → (∀ v ∈ pre, isUnit cmd v = true → unitOutput cmd v ≠ p) →
          (runCmd env cmd fs).2.get p = some ⟨unitCls cmd, fs.origins u.path⟩) ∧
        (∀ p, cc1Out cmd u ≠ some p → (∀ v ∈ pre, isUnit cmd v = true → unitOutput cmd v ≠ p) →
          (runCmd env cmd fs).2.get p = fs.get p)) := by
  obtain ⟨code, e, efs, hr, hcr, hcase⟩ := runCmd_spec env cmd fs
  obtain ⟨_, h2, _, h4⟩ := cleanupAll_spec code e.tmpfiles e efs
  have hbadE : Event.bad (Event.wait Prog.cc1 st : Event P) = true := by simp [Event.bad, hbad]
  rw [hr] at h ⊢
  rw [h2] at h
  have hin : Event.wait Prog.cc1 st ∈ e.log := by
    simp only [List.mem_append, List.mem_map, List.mem_singleton] at h
    rcases h with (h | ⟨_, _, h⟩) | h
    · exact h
    · cases h
    · cases h
  rcases hcase with ⟨_, _, hnb⟩ | ⟨_, hd, l, b, hl, hlb, hb⟩
  · have := hnb _ hin; rw [hbadE] at this; cases this
  · have hbe : b = Event.wait Prog.cc1 st := by
      rw [hl] at hin
      rcases List.mem_append.mp hin with h | h
      · have := hlb _ h; rw [hbadE] at this; cases this
      · exact (List.mem_singleton.mp h).symm
    subst hbe
    have hlast : e.log.getLast? = some (Event.wait Prog.cc1 st) := by rw [hl]; simp
    by_cases hacc : ¬ (cmd.inputs.isEmpty = true ∧ cmd.nExtra = 0) ∧ multiO cmd = false
    · have hcomp : compile cmd = compileLoop cmd 0 cmd.inputs := by
        unfold compile; rw [if_neg hacc.1]; simp [hacc.2]
      have hloop := loop_lemma env cmd fs ts S cmd.inputs [] (init cmd, fs) (by simp) (loopInv_init cmd fs ts)
      simp only [totalTemps] at hloop
      rw [← hcomp, hd] at hloop
      obtain ⟨pre, u, post, y, hsplit, hI, hF⟩ := hloop st hlast
      obtain ⟨hk, hst, hts, hyt, hfr0⟩ := hF st hlast
      have hnc : y.1.nCc1 = cCount cmd pre := hI.ncc1
      have huin : u ∈ cmd.inputs := by rw [hsplit]; simp
      have hupath : y.2.origins u.path = fs.origins u.path := by
        apply FS.origins_congr
        apply hI.frame
        · intro hm
          have : u.path ∈ ts := by rw [hI.tmps] at hm; exact List.mem_of_mem_take hm
          exact S.notInput _ this (List.mem_map.mpr ⟨u, huin, rfl⟩)
        · intro v hv hvu e'
          have hvin : v ∈ cmd.inputs := by rw [hsplit]; simp [hv]
          exact S.reqNotInput _ (unitOutput_requested hvin hvu) (e' ▸ List.mem_map.mpr ⟨u, huin, rfl⟩)
      refine ⟨pre, u, post, hsplit, hk, by rw [hst, hnc], ?_⟩
      intro hlv
      rw [← hnc] at hlv
      constructor
      · intro p hcp hne
        -- the path a cc1 child writes directly is a requested output, hence not a temporary
        have hpreq : p ∈ requested cmd := by
          unfold cc1Out at hcp
          split at hcp
          · cases hcp
          · rename_i hdo
            have hdo' : cmd.depsOnly = false := by simpa using hdo
            cases hm : cmd.mode with
            | E =>
              simp only [hm] at hcp
              have hk' := hk
              rw [hm] at hk'
              have hu : isUnit cmd u = true := by simp [isUnit, hdo', hm, hk', hcp]
              have := unitOutput_requested huin hu
              simpa [unitOutput, hcp] using this
            | S =>
              simp only [hm] at hcp
              injection hcp with hcp
              have hk' := hk
              rw [hm] at hk'
              have hu : isUnit cmd u = true := by simp [isUnit, hdo', hm, hk']
              exact hcp ▸ unitOutput_requested huin hu
            | c => simp [hm] at hcp
            | link => simp [hm] at hcp
        have hnt : p ∉ e.tmpfiles := fun hm => S.notReq _ (hts _ hm) hpreq
        rw [h4, if_neg hnt, hfr0 p hnt, if_pos ⟨hlv, hcp⟩, hupath]
      · intro p hcp hne
        rw [h4]
        by_cases hpt : p ∈ e.tmpfiles
        · rw [if_pos hpt, S.absent p (hts p hpt)]
        · rw [if_neg hpt, hfr0 p hpt, if_neg (fun h => hcp h.2)]
          exact hI.frame p (fun hy => hpt (hyt p hy)) hne
    · exfalso
      have hfail : ∃ why, compile cmd = [Act.fail why] := by
        unfold compile
        by_cases h1 : cmd.inputs.isEmpty = true ∧ cmd.nExtra = 0
        · exact ⟨.noInput, by rw [if_pos h1]⟩
        · have h2 : multiO cmd = true := by
            cases hm : multiO cmd with
            | true => rfl
            | false => exact absurd ⟨h1, hm⟩ hacc
          exact ⟨.multiO, by rw [if_neg h1]; simp [h2]⟩
      obtain ⟨why, hwhy⟩ := hfail
      rw [hwhy] at hd
      simp only [doActs, doAct] at hd
      injection hd with hd
      have : e.log = [Event.error why] := by
        have := congrArg (fun x => x.1.log) hd
        simpa [DState.emit, DState.exitWith, init] using this.symm
      rw [this] at hlast
      simp at hlast

/-- non-vacuity: `-S -MD a.c b.c`, the dependency write of `b.c`'s cc1 fails after `b.s` was written: `a.s`, `b.s` complete,
    `c.s`-like sentinel 31 untouched, status 1 -/
private def exLateEnv : Env Nat :=
  { mode := .S, sched := fun p k => if p = .cc1 ∧ k = 1 then ⟨.exit 1, .complete⟩ else .ok, fresh := fun _ => none }

example : Event.wait .cc1 (.exit 1) ∈ (runCmd exLateEnv exS exSFs).1.log ∧
    (runCmd exLateEnv exS exSFs).2.get 11 = some ⟨.asm, [1]⟩ ∧ (runCmd exLateEnv exS exSFs).2.get 21 = some ⟨.asm, [2]⟩ ∧
    (runCmd exLateEnv exS exSFs).2.get 31 = some ⟨.orig, [9]⟩ ∧ (runCmd exLateEnv exS exSFs).1.phase = .done 1 := by decide

/-- **C14 (success: exactly the requested outputs).**  Under `Setup`, for a command the driver accepts and
    a schedule without faults: the driver exits with status 0; every requested per-unit output holds the
    complete translation of its own source; when linking (no `-c`/`-S`/`-E`, no `-M`), the executable is linked from
    all inputs in command-line order; every path that is NOT a requested output — every temporary, every input, `a.out`
    when not linking, `<stem>.o` of a `.s` input when linking — has exactly the content it had before
    (absent stays absent). -/
theorem C14_success_outputs (env : Env P) (cmd : Cmd P) (fs : FS P) (ts : List P)
    (S : Setup env cmd fs ts) (hacc : Accepted cmd)
    (hnf : ∀ prog k, (env.sched prog k).status.wait = 0) :
    (runCmd env cmd fs).1.phase = .done 0 ∧
    (∀ u ∈ cmd.inputs, isUnit cmd u = true →
      (runCmd env cmd fs).2.get (unitOutput cmd u) = some ⟨unitCls cmd, fs.origins u.path⟩) ∧
    (cmd.mode = .link → cmd.depsOnly = false → (runCmd env cmd fs).2.get (cmd.out.getD cmd.aout) =
      some ⟨.exe, cmd.inputs.flatMap (fun u => fs.origins u.path)⟩) ∧
    (∀ p, p ∉ requested cmd → (runCmd env cmd fs).2.get p = fs.get p) := by
  obtain ⟨code, e, efs, hr, hcr, hcase⟩ := runCmd_spec env cmd fs
  obtain ⟨h1, _, _, h4⟩ := cleanupAll_spec code e.tmpfiles e efs
  have hcomp := compile_accepted hacc
  have hlog := doActs_logOK env (compile cmd) (init cmd, fs) (compile cmd) (totalTemps cmd cmd.inputs)
    (fun _ h => h) (by rw [hcomp, compileLoop_mkCount]; simp [init]) (by intro x hx; simp [init] at hx)
  rcases hcase with ⟨hc0, hd, _⟩ | ⟨_, hd, l, b, hl, _, hb⟩
  · subst hc0
    have hloop := loop_lemma env cmd fs ts S cmd.inputs [] (init cmd, fs) (by simp) (loopInv_init cmd fs ts)
    simp only [totalTemps] at hloop
    rw [← hcomp, hd] at hloop
    obtain ⟨y, hI, htf, hfs⟩ := hloop
    simp only at htf hfs
    have hsub : ∀ t ∈ e.tmpfiles, t ∈ ts := fun t ht => by
      rw [htf, hI.tmps] at ht; exact List.mem_of_mem_take ht
    have hexe : cmd.mode = .link → cmd.depsOnly = false → cmd.out.getD cmd.aout ∈ requested cmd := by
      intro hm hd; simp [requested, hm, hd]
    rw [hr]
    refine ⟨h1, ?_, ?_, ?_⟩
    · intro u hu huu
      have hnt : unitOutput cmd u ∉ e.tmpfiles := fun hm => S.notReq _ (hsub _ hm) (unitOutput_requested hu huu)
      rw [h4, if_neg hnt, hfs]
      have : ¬ (cmd.mode = .link ∧ cmd.depsOnly = false ∧ y.1.ldArgs ≠ []) := fun h => isUnit_not_link huu h.1
      rw [if_neg this]
      exact hI.units u hu huu
    · intro hm hd
      have hnt : cmd.out.getD cmd.aout ∉ e.tmpfiles := fun h => S.notReq _ (hsub _ h) (hexe hm hd)
      have hld := hI.ldOrig ⟨hm, hd⟩
      have hne : y.1.ldArgs ≠ [] := by
        intro h0
        rw [h0] at hld
        simp only [List.map_nil] at hld
        exact hacc.1 (List.map_eq_nil_iff.mp hld.symm)
      rw [h4, if_neg hnt, hfs, if_pos ⟨hm, hd, hne⟩, FS.get_set_self]
      rw [List.flatMap_def, hld, ← List.flatMap_def]
    · intro p hp
      rw [h4]
      by_cases hpt : p ∈ e.tmpfiles
      · rw [if_pos hpt, S.absent p (hsub p hpt)]
      · rw [if_neg hpt, hfs]
        have hframe : y.2.get p = fs.get p := by
          apply hI.frame p (by rw [← htf]; exact hpt)
          intro u hu huu e'
          exact hp (by rw [← e']; exact unitOutput_requested hu huu)
        by_cases hl : cmd.mode = .link ∧ cmd.depsOnly = false ∧ y.1.ldArgs ≠ []
        · rw [if_pos hl, FS.get_set_ne _ _ (fun e' => hp (by rw [e']; exact hexe hl.1 hl.2.1))]
          exact hframe
        · rw [if_neg hl]; exact hframe
  · exfalso
    rw [hd] at hlog
    have hbl : b ∈ e.log := by rw [hl]; simp
    have := hlog b hbl
    cases b with
    | wait prog st =>
      obtain ⟨k, hk⟩ := this
      simp [Event.bad, hk, hnf prog k] at hb
    | error why =>
      simp only at this
      rw [hcomp] at this
      obtain ⟨u, hu, hk⟩ := compileLoop_no_fail cmd 0 cmd.inputs why this
      exact hacc.2.2 u hu hk
    | mkstempFailed =>
      obtain ⟨k, _, hk, hf⟩ := this
      have hk' : k < ts.length := Nat.lt_of_lt_of_le hk S.enough
      rw [S.fresh k ts[k] (List.getElem?_eq_getElem hk')] at hf
      cases hf
    | mkstemp p => simp [Event.bad] at hb
    | spawn p i o => simp [Event.bad] at hb
    | unlink p => simp [Event.bad] at hb
    | exit c => simp [Event.bad] at hb

/-- non-vacuity: `chibicc a.c b.s c.o -lm`-like link command (paths 1, 2, 3, 4; `-o 50`) with temporaries
    100, 101, 102; the stale files 50 (the old executable) and 22 (`b.o`) exist before -/
private def exL : Cmd Nat :=
  { mode := .link, out := some 50, aout := 99,
    inputs := [⟨1, .C, 11, 12⟩, ⟨2, .asm, 21, 22⟩, ⟨3, .obj, 31, 32⟩, ⟨4, .lib, 41, 42⟩] }
private def exLEnv : Env Nat := { mode := .link, sched := fun _ _ => .ok, fresh := fun k => [100, 101, 102][k]? }
private def exLFs : FS Nat := [(1, ⟨.orig, [1]⟩), (2, ⟨.orig, [2]⟩), (3, ⟨.orig, [3]⟩), (50, ⟨.orig, [7]⟩), (22, ⟨.orig, [8]⟩)]

example : Setup exLEnv exL exLFs [100, 101, 102] where
  mode := rfl
  fresh := fun _ _ h => h
  enough := by decide
  nodup := by decide
  notInput := by decide
  notReq := by decide
  absent := by decide
  reqNodup := by decide
  reqNotInput := by decide

example : Accepted exL := ⟨by decide, by decide, by decide⟩

example : (runCmd exLEnv exL exLFs).2 =
    [(50, ⟨.exe, [1, 2, 3]⟩), (1, ⟨.orig, [1]⟩), (2, ⟨.orig, [2]⟩), (3, ⟨.orig, [3]⟩), (22, ⟨.orig, [8]⟩)] := by decide

/-- **C14 (concurrent invocations do not interfere).**  Two drivers run on ONE file system, their steps
    (each `mkstemp`, spawn, `wait`, `unlink`, exit) interleaved in ANY order `il`.  If neither writes
    (requested outputs, temporaries handed out by mkstemp) a path the other one reads or writes, then
    whenever both have terminated each one's final state — exit status, complete event log — is the one of
    its solo run from the initial file system, the file system agrees with the solo result on everything
    that driver touches, and nothing else has changed. -/
theorem C14_concurrent (envA envB : Env P) (cmdA cmdB : Cmd P) (fs : FS P) (il : List Bool)
    (hAB : ∀ p, Writes envA cmdA p → ¬ Touches envB cmdB p)
    (hBA : ∀ p, Writes envB cmdB p → ¬ Touches envA cmdA p)
    (hta : (irun envA envB il (init cmdA, init cmdB, fs)).1.phase.terminal = true)
    (htb : (irun envA envB il (init cmdA, init cmdB, fs)).2.1.phase.terminal = true) :
    (irun envA envB il (init cmdA, init cmdB, fs)).1 = (runCmd envA cmdA fs).1 ∧
    (irun envA envB il (init cmdA, init cmdB, fs)).2.1 = (runCmd envB cmdB fs).1 ∧
    (∀ p, Touches envA cmdA p →
      (irun envA envB il (init cmdA, init cmdB, fs)).2.2.get p = (runCmd envA cmdA fs).2.get p) ∧
    (∀ p, Touches envB cmdB p →
      (irun envA envB il (init cmdA, init cmdB, fs)).2.2.get p = (runCmd envB cmdB fs).2.get p) ∧
    (∀ p, ¬ Writes envA cmdA p → ¬ Writes envB cmdB p →
      (irun envA envB il (init cmdA, init cmdB, fs)).2.2.get p = fs.get p) := by
  have hrel := irun_rel envA envB (Writes envA cmdA) (Touches envA cmdA) (Writes envB cmdB) (Touches envB cmdB)
    hAB hBA il (init cmdA, init cmdB, fs) (init cmdA, fs) (init cmdB, fs)
    ⟨rfl, rfl, fun _ _ => rfl, fun _ _ => rfl, init_inside envA cmdA, init_inside envB cmdB⟩
  obtain ⟨h1, h2, h3, h4, _, _⟩ := hrel
  have ea : iter envA (countB true il) (init cmdA, fs) = runCmd envA cmdA fs :=
    C14_deterministic envA cmdA fs _ ⟨_, rfl, by rw [← h1]; exact hta⟩
  have eb : iter envB (countB false il) (init cmdB, fs) = runCmd envB cmdB fs :=
    C14_deterministic envB cmdB fs _ ⟨_, rfl, by rw [← h2]; exact htb⟩
  rw [ea] at h1 h3
  rw [eb] at h2 h4
  exact ⟨h1, h2, h3, h4, fun p ha hb =>
    irun_frame envA envB (Writes envA cmdA) (Touches envA cmdA) (Writes envB cmdB) (Touches envB cmdB) il
      (init cmdA, init cmdB, fs) (init_inside envA cmdA) (init_inside envB cmdB) p ha hb⟩

/-- **C14 (concurrent runs terminate).**  Under the same disjointness, any interleaving that gives each
    driver at least `fuel` steps ends with both terminated (so `C14_concurrent` applies to every fair
    schedule). -/
theorem C14_concurrent_terminates (envA envB : Env P) (cmdA cmdB : Cmd P) (fs : FS P) (il : List Bool)
    (hAB : ∀ p, Writes envA cmdA p → ¬ Touches envB cmdB p)
    (hBA : ∀ p, Writes envB cmdB p → ¬ Touches envA cmdA p)
    (hna : fuel (init cmdA) ≤ countB true il) (hnb : fuel (init cmdB) ≤ countB false il) :
    (irun envA envB il (init cmdA, init cmdB, fs)).1.phase.terminal = true ∧
    (irun envA envB il (init cmdA, init cmdB, fs)).2.1.phase.terminal = true := by
  have hrel := irun_rel envA envB (Writes envA cmdA) (Touches envA cmdA) (Writes envB cmdB) (Touches envB cmdB)
    hAB hBA il (init cmdA, init cmdB, fs) (init cmdA, fs) (init cmdB, fs)
    ⟨rfl, rfl, fun _ _ => rfl, fun _ _ => rfl, init_inside envA cmdA, init_inside envB cmdB⟩
  obtain ⟨h1, h2, _, _, _, _⟩ := hrel
  obtain ⟨ca, hca⟩ := C14_terminates envA cmdA fs
  obtain ⟨cb, hcb⟩ := C14_terminates envB cmdB fs
  have ea : iter envA (countB true il) (init cmdA, fs) = runCmd envA cmdA fs :=
    iter_mono envA _ hna (by show (runCmd envA cmdA fs).1.phase.terminal = true; rw [hca]; rfl)
  have eb : iter envB (countB false il) (init cmdB, fs) = runCmd envB cmdB fs :=
    iter_mono envB _ hnb (by show (runCmd envB cmdB fs).1.phase.terminal = true; rw [hcb]; rfl)
  rw [h1, h2, ea, eb, hca, hcb]
  exact ⟨rfl, rfl⟩

/-- non-vacuity: `-c a.c` (temporaries 100…) next to `b.c` linked to 50 with a failing linker
    (temporaries 200…), steps interleaved `A B B A B A A B …`; the disjointness hypotheses hold, both
    terminate, and the joint run is what the theorem says -/
private def cA : Cmd Nat := { mode := .c, out := none, aout := 99, inputs := [⟨1, .C, 11, 12⟩] }
private def cB : Cmd Nat := { mode := .link, out := some 50, aout := 99, inputs := [⟨2, .C, 21, 22⟩] }
private def eA : Env Nat := { mode := .c, sched := fun _ _ => .ok, fresh := fun k => if k < 4 then some (100 + k) else none }
private def eB : Env Nat :=
  { mode := .link, sched := fun p _ => if p = .ld then ⟨.exit 1, .junk⟩ else .ok,
    fresh := fun k => if k < 4 then some (200 + k) else none }
private def ilEx : List Bool := [true, false, false, true, false, true, true, false] ++ List.replicate 12 true ++ List.replicate 20 false

example : (irun eA eB ilEx (init cA, init cB, exFs)).1.phase = .done 0 ∧
    (irun eA eB ilEx (init cA, init cB, exFs)).2.1.phase = .done 1 ∧
    (irun eA eB ilEx (init cA, init cB, exFs)).2.2.get 12 = some ⟨.obj, [1]⟩ ∧
    (irun eA eB ilEx (init cA, init cB, exFs)).2.2.get 50 = some ⟨.junk, []⟩ := by decide

example : ∀ p, Writes eA cA p → ¬ Touches eB cB p := by
  intro p hw ht
  have hpa : p = 12 ∨ (100 ≤ p ∧ p < 104) := by
    rcases hw with h | ⟨k, h⟩
    · left; simpa [requested, cA, isUnit, effKind, unitOutput] using h
    · right; simp only [eA] at h; split at h <;> simp at h; omega
  have hpb : p = 50 ∨ (200 ≤ p ∧ p < 204) ∨ p = 2 := by
    rcases ht with (h | ⟨k, h⟩) | h
    · left; simpa [requested, cB] using h
    · right; left; simp only [eB] at h; split at h <;> simp at h; omega
    · right; right; simpa [cB] using h
  omega

end ChibiVerif.Props.C14
