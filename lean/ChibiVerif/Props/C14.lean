/-
C14 — driver process discipline under failure and concurrency.

Property theorems only (helper lemmas: Lemmas/DriverProcLemmas.lean, Lemmas/DriverProcOutputs.lean,
Lemmas/DriverProcConcurrent.lean).  Every theorem is for all path types `P`, all commands (any number of
inputs of any kinds), all fault schedules `env.sched` (each child of each kind may end with any exit
code or any signal, a failing as/ld may or may not leave junk in its output), all mkstemp behaviours
`env.fresh` and all initial file systems, unless a hypothesis says otherwise.
-/
import ChibiVerif.Model.DriverProc
import ChibiVerif.Lemmas.DriverProcLemmas

namespace ChibiVerif.Props.C14
open ChibiVerif.DriverProc

variable {P : Type} [DecidableEq P]

/-- **C14 (the driver always exits).**  Every run ends, after at most `fuel` steps, in a configuration
    `done code`; the model-internal error state is unreachable. -/
theorem C14_terminates (env : Env P) (cmd : Cmd P) (fs : FS P) :
    ∃ code, (runCmd env cmd fs).1.phase = .done code := by
  obtain ⟨code, e, efs, h, _, _⟩ := runCmd_spec env cmd fs
  exact ⟨code, by rw [h]; exact (cleanupAll_spec code e.tmpfiles e efs).1⟩

/-- **C14 (determinism).**  Whatever number of steps is taken, a terminal configuration reachable from
    the initial one is the one `runCmd` computes (so the theorems below, stated for `runCmd`, speak
    about every terminal world of the small-step system). -/
theorem C14_deterministic (env : Env P) (cmd : Cmd P) (fs : FS P) (x : DState P × FS P)
    (h : Reaches env (init cmd, fs) x) : x = runCmd env cmd fs := by
  obtain ⟨code, hc⟩ := C14_terminates env cmd fs
  exact Reaches.unique env h ⟨_, rfl, by rw [hc]; rfl⟩

/-- **C14 (exit status).**  The exit status is 1 if some step failed — a child (cc1, as or ld) with a
    non-zero wait status, be it an exit code or a signal; an `error()` of the driver (`-o` with several
    files, unknown extension, no input); a failed `mkstemp` — and 0 otherwise. -/
theorem C14_status (env : Env P) (cmd : Cmd P) (fs : FS P) (code : Nat)
    (h : (runCmd env cmd fs).1.phase = .done code) :
    (code = 1 ∧ ∃ e ∈ (runCmd env cmd fs).1.log, Event.bad e = true) ∨
    (code = 0 ∧ ∀ e ∈ (runCmd env cmd fs).1.log, Event.bad e = false) := by
  obtain ⟨c, e, efs, hr, _, hcase⟩ := runCmd_spec env cmd fs
  obtain ⟨h1, h2, _, _⟩ := cleanupAll_spec c e.tmpfiles e efs
  rw [hr] at h ⊢
  rw [h1] at h
  injection h with h; subst h
  rw [h2]
  rcases hcase with ⟨rfl, _, hb⟩ | ⟨rfl, _, l, b, hl, _, hb⟩
  · right
    refine ⟨rfl, ?_⟩
    intro x hx
    simp only [List.mem_append, List.mem_map, List.mem_singleton] at hx
    rcases hx with (hx | ⟨t, _, rfl⟩) | rfl
    · exact hb x hx
    · rfl
    · rfl
  · left
    exact ⟨rfl, b, by simp [hl], hb⟩

/-- the fault schedule in which the second assembler run is killed by a signal; `-c` with two C files -/
private def exEnv : Env Nat :=
  { mode := .c, sched := fun p k => if p = .as ∧ k = 1 then ⟨.signal 10, true⟩ else .ok,
    fresh := fun k => some (100 + k) }
private def exCmd : Cmd Nat :=
  { mode := .c, out := none, aout := 99,
    inputs := [⟨1, .C, 11, 12⟩, ⟨2, .C, 21, 22⟩, ⟨3, .C, 31, 32⟩] }
private def exFs : FS Nat := [(1, ⟨.orig, [1]⟩), (2, ⟨.orig, [2]⟩), (3, ⟨.orig, [3]⟩), (22, ⟨.orig, [7]⟩)]

/-- non-vacuity: a run that fails in the middle (status 1, third unit never started) … -/
example : (runCmd exEnv exCmd exFs).1.phase = .done 1 := by decide
example : (runCmd exEnv exCmd exFs).1.log =
    [.mkstemp 100, .spawn .cc1 [1] (some 100), .wait .cc1 (.exit 0), .spawn .as [100] (some 12), .wait .as (.exit 0),
     .mkstemp 101, .spawn .cc1 [2] (some 101), .wait .cc1 (.exit 0), .spawn .as [101] (some 22), .wait .as (.signal 10),
     .unlink 100, .unlink 101, .exit 1] := by decide
/-- … and one that succeeds (status 0) -/
example : (runCmd { exEnv with sched := fun _ _ => .ok } exCmd exFs).1.phase = .done 0 := by decide

/-- **C14 (no temporary survives).**  In the terminal world of every run — success, any failing step,
    any signal, failed mkstemp — no file the driver created with `mkstemp` exists.  No freshness
    assumption is needed: every created name is recorded in `tmpfiles` and unlinked last. -/
theorem C14_no_temps (env : Env P) (cmd : Cmd P) (fs : FS P) :
    ∀ t ∈ created (runCmd env cmd fs).1.log, (runCmd env cmd fs).2.get t = none := by
  obtain ⟨c, e, efs, hr, hcr, _⟩ := runCmd_spec env cmd fs
  obtain ⟨_, h2, _, h4⟩ := cleanupAll_spec c e.tmpfiles e efs
  rw [hr, h2]
  intro t ht
  rw [h4 t]
  have : t ∈ e.tmpfiles := by
    rw [created_append, created_append] at ht
    simp only [List.mem_append] at ht
    rcases ht with (ht | ht) | ht
    · rw [hcr] at ht; exact ht
    · exfalso
      have : ∀ l : List P, created (l.map Event.unlink) = [] := by
        intro l; induction l with
        | nil => rfl
        | cons a r ih => simp [created_cons, ih]
      rw [this] at ht; cases ht
    · simp [created_cons, created_nil] at ht
  simp [this]

example : created (runCmd exEnv exCmd exFs).1.log = [100, 101] := by decide
example : (runCmd exEnv exCmd exFs).2 = [(22, ⟨.junk, []⟩), (12, ⟨.obj, [1]⟩), (1, ⟨.orig, [1]⟩), (2, ⟨.orig, [2]⟩), (3, ⟨.orig, [3]⟩)] := by
  decide

end ChibiVerif.Props.C14
