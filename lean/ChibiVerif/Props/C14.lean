/-
C14 — driver process discipline under failure and concurrency.

Property theorems only (helper lemmas: Lemmas/DriverProcLemmas.lean, Lemmas/DriverProcOutputs.lean,
Lemmas/DriverProcConcurrent.lean).  Every theorem is for all path types `P`, all commands (any number of
inputs of any kinds), all fault schedules `env.sched` (each child of each kind may end with any exit
code or any signal, a failing as/ld may or may not leave junk in its output), all mkstemp behaviours
`env.fresh` and all initial file systems, unless a hypothesis says otherwise.
-/
import ChibiVerif.Model.DriverProc
import ChibiVerif.Lemmas.DriverProcLemmas
import ChibiVerif.Lemmas.DriverProcConcurrent

namespace ChibiVerif.Props.C14
open ChibiVerif.DriverProc

variable {P : Type} [DecidableEq P]

/-- **C14 (the driver always exits).**  Every run ends, after at most `fuel` steps, in a configuration
    `done code`; the model-internal error state is unreachable. -/
theorem C14_terminates (env : Env P) (cmd : Cmd P) (fs : FS P) :
    ∃ code, (runCmd env cmd fs).1.phase = .done code := by
  obtain ⟨code, e, efs, h, _, _⟩ := runCmd_spec env cmd fs
  exact ⟨code, by rw [h]; exact (cleanupAll_spec code e.tmpfiles e efs).1⟩

/-- **C14 (determinism).**  Whatever number of steps is taken, a terminal configuration reachable from
    the initial one is the one `runCmd` computes (so the theorems below, stated for `runCmd`, speak
    about every terminal world of the small-step system). -/
theorem C14_deterministic (env : Env P) (cmd : Cmd P) (fs : FS P) (x : DState P × FS P)
    (h : Reaches env (init cmd, fs) x) : x = runCmd env cmd fs := by
  obtain ⟨code, hc⟩ := C14_terminates env cmd fs
  exact Reaches.unique env h ⟨_, rfl, by rw [hc]; rfl⟩

/-- **C14 (exit status).**  The exit status is 1 if some step failed — a child (cc1, as or ld) with a
    non-zero wait status, be it an exit code or a signal; an `error()` of the driver (`-o` with several
    files, unknown extension, no input); a failed `mkstemp` — and 0 otherwise. -/
theorem C14_status (env : Env P) (cmd : Cmd P) (fs : FS P) (code : Nat)
    (h : (runCmd env cmd fs).1.phase = .done code) :
    (code = 1 ∧ ∃ e ∈ (runCmd env cmd fs).1.log, Event.bad e = true) ∨
    (code = 0 ∧ ∀ e ∈ (runCmd env cmd fs).1.log, Event.bad e = false) := by
  obtain ⟨c, e, efs, hr, _, hcase⟩ := runCmd_spec env cmd fs
  obtain ⟨h1, h2, _, _⟩ := cleanupAll_spec c e.tmpfiles e efs
  rw [hr] at h ⊢
  rw [h1] at h
  injection h with h; subst h
  rw [h2]
  rcases hcase with ⟨rfl, _, hb⟩ | ⟨rfl, _, l, b, hl, _, hb⟩
  · right
    refine ⟨rfl, ?_⟩
    intro x hx
    simp only [List.mem_append, List.mem_map, List.mem_singleton] at hx
    rcases hx with (hx | ⟨t, _, rfl⟩) | rfl
    · exact hb x hx
    · rfl
    · rfl
  · left
    exact ⟨rfl, b, by simp [hl], hb⟩

/-- the fault schedule in which the second assembler run is killed by a signal; `-c` with two C files -/
private def exEnv : Env Nat :=
  { mode := .c, sched := fun p k => if p = .as ∧ k = 1 then ⟨.signal 10, true⟩ else .ok,
    fresh := fun k => some (100 + k) }
private def exCmd : Cmd Nat :=
  { mode := .c, out := none, aout := 99,
    inputs := [⟨1, .C, 11, 12⟩, ⟨2, .C, 21, 22⟩, ⟨3, .C, 31, 32⟩] }
private def exFs : FS Nat := [(1, ⟨.orig, [1]⟩), (2, ⟨.orig, [2]⟩), (3, ⟨.orig, [3]⟩), (22, ⟨.orig, [7]⟩)]

/-- non-vacuity: a run that fails in the middle (status 1, third unit never started) … -/
example : (runCmd exEnv exCmd exFs).1.phase = .done 1 := by decide
example : (runCmd exEnv exCmd exFs).1.log =
    [.mkstemp 100, .spawn .cc1 [1] (some 100), .wait .cc1 (.exit 0), .spawn .as [100] (some 12), .wait .as (.exit 0),
     .mkstemp 101, .spawn .cc1 [2] (some 101), .wait .cc1 (.exit 0), .spawn .as [101] (some 22), .wait .as (.signal 10),
     .unlink 100, .unlink 101, .exit 1] := by decide
/-- … and one that succeeds (status 0) -/
example : (runCmd { exEnv with sched := fun _ _ => .ok } exCmd exFs).1.phase = .done 0 := by decide

/-- **C14 (no temporary survives).**  In the terminal world of every run — success, any failing step,
    any signal, failed mkstemp — no file the driver created with `mkstemp` exists.  No freshness
    assumption is needed: every created name is recorded in `tmpfiles` and unlinked last. -/
theorem C14_no_temps (env : Env P) (cmd : Cmd P) (fs : FS P) :
    ∀ t ∈ created (runCmd env cmd fs).1.log, (runCmd env cmd fs).2.get t = none := by
  obtain ⟨c, e, efs, hr, hcr, _⟩ := runCmd_spec env cmd fs
  obtain ⟨_, h2, _, h4⟩ := cleanupAll_spec c e.tmpfiles e efs
  rw [hr, h2]
  intro t ht
  rw [h4 t]
  have : t ∈ e.tmpfiles := by
    rw [created_append, created_append] at ht
    simp only [List.mem_append] at ht
    rcases ht with (ht | ht) | ht
    · rw [hcr] at ht; exact ht
    · exfalso
      have : ∀ l : List P, created (l.map Event.unlink) = [] := by
        intro l; induction l with
        | nil => rfl
        | cons a r ih => simp [created_cons, ih]
      rw [this] at ht; cases ht
    · simp [created_cons, created_nil] at ht
  simp [this]

example : created (runCmd exEnv exCmd exFs).1.log = [100, 101] := by decide
example : (runCmd exEnv exCmd exFs).2 = [(22, ⟨.junk, []⟩), (12, ⟨.obj, [1]⟩), (1, ⟨.orig, [1]⟩), (2, ⟨.orig, [2]⟩), (3, ⟨.orig, [3]⟩)] := by
  decide

/-- **C14 (concurrent invocations do not interfere).**  Two drivers run on ONE file system, their steps
    (each `mkstemp`, spawn, `wait`, `unlink`, exit) interleaved in ANY order `il`.  If neither writes
    (requested outputs, temporaries handed out by mkstemp) a path the other one reads or writes, then
    whenever both have terminated each one's final state — exit status, complete event log — is the one of
    its solo run from the initial file system, the file system agrees with the solo result on everything
    that driver touches, and nothing else has changed. -/
theorem C14_concurrent (envA envB : Env P) (cmdA cmdB : Cmd P) (fs : FS P) (il : List Bool)
    (hAB : ∀ p, Writes envA cmdA p → ¬ Touches envB cmdB p)
    (hBA : ∀ p, Writes envB cmdB p → ¬ Touches envA cmdA p)
    (hta : (irun envA envB il (init cmdA, init cmdB, fs)).1.phase.terminal = true)
    (htb : (irun envA envB il (init cmdA, init cmdB, fs)).2.1.phase.terminal = true) :
    (irun envA envB il (init cmdA, init cmdB, fs)).1 = (runCmd envA cmdA fs).1 ∧
    (irun envA envB il (init cmdA, init cmdB, fs)).2.1 = (runCmd envB cmdB fs).1 ∧
    (∀ p, Touches envA cmdA p →
      (irun envA envB il (init cmdA, init cmdB, fs)).2.2.get p = (runCmd envA cmdA fs).2.get p) ∧
    (∀ p, Touches envB cmdB p →
      (irun envA envB il (init cmdA, init cmdB, fs)).2.2.get p = (runCmd envB cmdB fs).2.get p) ∧
    (∀ p, ¬ Writes envA cmdA p → ¬ Writes envB cmdB p →
      (irun envA envB il (init cmdA, init cmdB, fs)).2.2.get p = fs.get p) := by
  have hrel := irun_rel envA envB (Writes envA cmdA) (Touches envA cmdA) (Writes envB cmdB) (Touches envB cmdB)
    hAB hBA il (init cmdA, init cmdB, fs) (init cmdA, fs) (init cmdB, fs)
    ⟨rfl, rfl, fun _ _ => rfl, fun _ _ => rfl, init_inside envA cmdA, init_inside envB cmdB⟩
  obtain ⟨h1, h2, h3, h4, _, _⟩ := hrel
  have ea : iter envA (countB true il) (init cmdA, fs) = runCmd envA cmdA fs :=
    C14_deterministic envA cmdA fs _ ⟨_, rfl, by rw [← h1]; exact hta⟩
  have eb : iter envB (countB false il) (init cmdB, fs) = runCmd envB cmdB fs :=
    C14_deterministic envB cmdB fs _ ⟨_, rfl, by rw [← h2]; exact htb⟩
  rw [ea] at h1 h3
  rw [eb] at h2 h4
  exact ⟨h1, h2, h3, h4, fun p ha hb =>
    irun_frame envA envB (Writes envA cmdA) (Touches envA cmdA) (Writes envB cmdB) (Touches envB cmdB) il
      (init cmdA, init cmdB, fs) (init_inside envA cmdA) (init_inside envB cmdB) p ha hb⟩

/-- **C14 (concurrent runs terminate).**  Under the same disjointness, any interleaving that gives each
    driver at least `fuel` steps ends with both terminated (so `C14_concurrent` applies to every fair
    schedule). -/
theorem C14_concurrent_terminates (envA envB : Env P) (cmdA cmdB : Cmd P) (fs : FS P) (il : List Bool)
    (hAB : ∀ p, Writes envA cmdA p → ¬ Touches envB cmdB p)
    (hBA : ∀ p, Writes envB cmdB p → ¬ Touches envA cmdA p)
    (hna : fuel (init cmdA) ≤ countB true il) (hnb : fuel (init cmdB) ≤ countB false il) :
    (irun envA envB il (init cmdA, init cmdB, fs)).1.phase.terminal = true ∧
    (irun envA envB il (init cmdA, init cmdB, fs)).2.1.phase.terminal = true := by
  have hrel := irun_rel envA envB (Writes envA cmdA) (Touches envA cmdA) (Writes envB cmdB) (Touches envB cmdB)
    hAB hBA il (init cmdA, init cmdB, fs) (init cmdA, fs) (init cmdB, fs)
    ⟨rfl, rfl, fun _ _ => rfl, fun _ _ => rfl, init_inside envA cmdA, init_inside envB cmdB⟩
  obtain ⟨h1, h2, _, _, _, _⟩ := hrel
  obtain ⟨ca, hca⟩ := C14_terminates envA cmdA fs
  obtain ⟨cb, hcb⟩ := C14_terminates envB cmdB fs
  have ea : iter envA (countB true il) (init cmdA, fs) = runCmd envA cmdA fs :=
    iter_mono envA _ hna (by show (runCmd envA cmdA fs).1.phase.terminal = true; rw [hca]; rfl)
  have eb : iter envB (countB false il) (init cmdB, fs) = runCmd envB cmdB fs :=
    iter_mono envB _ hnb (by show (runCmd envB cmdB fs).1.phase.terminal = true; rw [hcb]; rfl)
  rw [h1, h2, ea, eb, hca, hcb]
  exact ⟨rfl, rfl⟩

/-- non-vacuity: `-c a.c` (temporaries 100…) next to `b.c` linked to 50 with a failing linker
    (temporaries 200…), steps interleaved `A B B A B A A B …`; the disjointness hypotheses hold, both
    terminate, and the joint run is what the theorem says -/
private def cA : Cmd Nat := { mode := .c, out := none, aout := 99, inputs := [⟨1, .C, 11, 12⟩] }
private def cB : Cmd Nat := { mode := .link, out := some 50, aout := 99, inputs := [⟨2, .C, 21, 22⟩] }
private def eA : Env Nat := { mode := .c, sched := fun _ _ => .ok, fresh := fun k => if k < 4 then some (100 + k) else none }
private def eB : Env Nat :=
  { mode := .link, sched := fun p _ => if p = .ld then ⟨.exit 1, true⟩ else .ok,
    fresh := fun k => if k < 4 then some (200 + k) else none }
private def ilEx : List Bool := [true, false, false, true, false, true, true, false] ++ List.replicate 12 true ++ List.replicate 20 false

example : (irun eA eB ilEx (init cA, init cB, exFs)).1.phase = .done 0 ∧
    (irun eA eB ilEx (init cA, init cB, exFs)).2.1.phase = .done 1 ∧
    (irun eA eB ilEx (init cA, init cB, exFs)).2.2.get 12 = some ⟨.obj, [1]⟩ ∧
    (irun eA eB ilEx (init cA, init cB, exFs)).2.2.get 50 = some ⟨.junk, []⟩ := by decide

example : ∀ p, Writes eA cA p → ¬ Touches eB cB p := by
  intro p hw ht
  have hpa : p = 12 ∨ (100 ≤ p ∧ p < 104) := by
    rcases hw with h | ⟨k, h⟩
    · left; simpa [requested, cA, isUnit, effKind, unitOutput] using h
    · right; simp only [eA] at h; split at h <;> simp at h; omega
  have hpb : p = 50 ∨ (200 ≤ p ∧ p < 204) ∨ p = 2 := by
    rcases ht with (h | ⟨k, h⟩) | h
    · left; simpa [requested, cB] using h
    · right; left; simp only [eB] at h; split at h <;> simp at h; omega
    · right; right; simpa [cB] using h
  omega

end ChibiVerif.Props.C14
