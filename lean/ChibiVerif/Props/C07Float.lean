/- C07, floating half — translation-time evaluation of arithmetic constant expressions with floating operands equals run-time
   evaluation.

   `Gen.ConstEval.evalDouble` / `eval2` are the translation of parse.c `eval_double` / `eval_double2` / `eval2` / `eval3` over the
   host's floating arithmetic `HostFp` (Model/HostFp.lean); `HostFp.ofOps O` (Model/HostFpX86.lean) is an x86-64 host with
   FLT_EVAL_METHOD 0 on the FPU `O`; `elabA` is the tree the parser and `add_type` build; `Spec.ConstF.eval O` is the C11
   value when every operation is carried out once, in the format of its type, by the instruction the generated code executes
   (Spec/ConstFSpec.lean; Props/C02.lean relates chibicc's code generator to the same instructions).

   **What is assumed of the host's floating arithmetic** (and nothing else):
   1. `HostFp.ofOps`: the compiler itself was compiled for x86-64 with FLT_EVAL_METHOD 0 — `(float)x op (float)y` is one SSE
      single instruction on the narrowed operands, `(double)…` one SSE double instruction, `long double` arithmetic one x87
      instruction under the control word the compiled program runs under (the default 0x37f), conversions between floating
      types one `cvtss2sd`/`cvtsd2ss`/`fld`/`fst`, `-x` is `fchs`, `(long double)` of a 64-bit integer is exact, comparisons are
      `fcomi` read as C reads them, `(int64_t)x` / `(uint64_t)x` deliver the integral part whenever C11 defines it.
   2. `C07Float.Sound O` (Lemmas/C07FloatLemmas.lean): three contracts of `FpuSpec` (widening is exact, `fild` of a 64-bit
      integer is exact, `fchs` complements the sign bit) and the narrowing contracts `FpuSpec` leaves open: `fst` of an exactly
      loaded 64-bit integer is the integer rounded once (= `cvtsi2ss/sd`), `double → long double → float` is `cvtsd2ss` and
      `float → long double → double` is `cvtss2sd` on data that survive a widening-narrowing round trip, `fchs` between
      widening and narrowing complements the sign bit of the narrow datum, and whatever an instruction delivers survives the
      round trip (on x86: no instruction manufactures a signalling NaN).
   `C07Float.sound_of_fpuSpec`: every `FpuSpec` (the contract structure of C02) whose narrowing stores meet `Narrowing F cw`
   is `Sound`, under any control word.
   Only property theorems here; lemmas are in Lemmas/C07FloatLemmas.lean. -/
import ChibiVerif.Lemmas.C07FloatLemmas
import ChibiVerif.Lemmas.C07FloatToy
import ChibiVerif.Lemmas.C07FloatInt

namespace ChibiVerif.Props.C07
open ChibiVerif.Host ChibiVerif.Gen.ConstEval ChibiVerif.Spec.ConstF ChibiVerif.Spec.Fpu ChibiVerif.ConstElab
open ChibiVerif.ConstEvalLemmas ChibiVerif.C07Float
open ChibiVerif.Spec.Const (ITy)

/-- **Floating folding equals run-time evaluation.**  For every arithmetic constant expression `e` (integer and floating
    constants of every type, `+ - * /`, unary `- + !`, all comparisons, `&& || ?:`, casts between all arithmetic types, the
    integer-only operators on integer operands; any depth, every operand value) that has a C11 value `v` when each operation
    is carried out in the format of its type (FLT_EVAL_METHOD 0):
    * the node chibicc builds has the C11 type of `e`;
    * if `v` is an integer, `eval2` folds the node to the `int64_t` image of `v` (with or without a relocation label); if `v`
      is a floating value, `eval_double` folds the node to exactly that datum, widened to the `long double` the folder computes in;
    * `static T x = e;` stores the C11 conversion of `v` to `T` for every arithmetic type `T` for which that conversion is
      defined: `float`, `double`, `long double` (`*(T *)buf = eval_double(init->expr)`), and every integer type incl. `_Bool` and
      `unsigned long` from a floating initializer ≥ 2^63 (`write_gvar_data`'s scalar path).
    Relative to `Sound O` (see the head of this file). -/
theorem C07_fold_float (O : FpOps) (hO : Sound O) (e : AExpr) (v : AVal) (h : Spec.ConstF.eval O e = some v) :
    CNode.tyOf (elabA e) = .ok (descrA (typeOf e)) ∧
    (match v with
     | .int x => (∃ t, typeOf e = .int t ∧ t.inRange x = true) ∧
                 ∀ label, eval2 .wrapping (HostFp.ofOps O) (elabA e) label = .ok (BitVec.ofInt 64 x)
     | .f32 b => typeOf e = .flt .f32 ∧ evalDouble .wrapping (HostFp.ofOps O) (elabA e) = .ok (O.fld32 b)
     | .f64 b => typeOf e = .flt .f64 ∧ evalDouble .wrapping (HostFp.ofOps O) (elabA e) = .ok (O.fld64 b)
     | .f80 b => typeOf e = .flt .f80 ∧ evalDouble .wrapping (HostFp.ofOps O) (elabA e) = .ok b) ∧
    (∀ b, convert O (.flt .f32) v = some (.f32 b) → storeGvarF32 .wrapping (HostFp.ofOps O) (elabA e) = .ok b) ∧
    (∀ b, convert O (.flt .f64) v = some (.f64 b) → storeGvarF64 .wrapping (HostFp.ofOps O) (elabA e) = .ok b) ∧
    (∀ b, convert O (.flt .f80) v = some (.f80 b) → storeGvarF80 .wrapping (HostFp.ofOps O) (elabA e) = .ok b) ∧
    (∀ (t : ITy) (x : Int), convert O (.int t) v = some (.int x) →
        storeGvarScalar .wrapping (HostFp.ofOps O) (descr t) (elabA e) = .ok (objBits t x)) := by
  have hn := fold_float_main O hO e v h
  refine ⟨hn.1, ?_, fun b hc => store_f32 O hO hn b hc, fun b hc => store_f64 O hO hn b hc, fun b hc => store_f80 O hn b hc,
    fun t x hc => store_int O hO hn t x hc⟩
  cases v with
  | int x => exact ⟨good_int O hn.2.1, hn.2.2⟩
  | f32 b => exact ⟨(good_f32_inv O hn.2.1).1, hn.2.2⟩
  | f64 b => exact ⟨(good_f64_inv O hn.2.1).1, hn.2.2⟩
  | f80 b =>
    refine ⟨?_, hn.2.2⟩
    have hg := hn.2.1
    generalize typeOf e = ty at hg
    rcases ty with t | f
    · exact absurd hg (by simp [Good])
    · cases f <;> first | rfl | exact absurd hg (by simp [Good])

/-- non-vacuity: the contracts are satisfiable (a toy FPU, Lemmas/C07FloatToy.lean), and on it `-(double)3 < 2.0f ? 1.5L : 7`
    has a value -/
example : Sound Toy.ops := Toy.sound
example : (Spec.ConstF.eval Toy.ops (.cond (.bin .lt (.un .neg (.cast (.flt .f64) (.ilit .i32 3))) (.flit .f32 0x4000_8000_0000_0000_0000#80))
    (.flit .f80 0x3fff_c000_0000_0000_0000#80) (.ilit .i32 7))).isSome = true := by decide

/-- **Constness (accepted), arithmetic constant expressions**: every arithmetic constant expression that has a value — floating
    operands included, e.g. the bound of `int a[(int)2.5 + (0.5 < 1.0)]`; operands that C11 says are not evaluated need not have
    one — is accepted by `is_const_expr` (an array, not a VLA).  Relative to `Sound O` (the truth value of a floating condition
    selects the operand that is looked at). -/
theorem C07_constness_float (O : FpOps) (hO : Sound O) (e : AExpr) (v : AVal) (h : Spec.ConstF.eval O e = some v) :
    isConstExpr .wrapping (HostFp.ofOps O) (elabA e) = .ok true :=
  isConst_elabA O hO e v h

/-- non-vacuity: as above; and the hypothesis `FpZeroExact` of `C07_constness_sound` follows from `Sound` -/
example : (Spec.ConstF.eval Toy.ops (.bin .add (.cast (.int .i32) (.flit .f64 0x50000#80))
    (.bin .lt (.flit .f32 0x3_0000_0000_0000#80) (.ilit .i32 1)))).isSome = true := by decide
example : FpZeroExact (HostFp.ofOps Toy.ops) := host_zeroExact Toy.ops Toy.sound

/-- **The floating Spec and elaboration extend the integer ones**: an integer constant expression of `C07_fold`
    (Spec/ConstSpec.lean), read as an arithmetic constant expression, is elaborated to the same tree, has the same type and the
    same value — so `C07_fold_float` restricted to integer expressions is `C07_fold` (for the hosts `HostFp.ofOps O`). -/
theorem C07_float_extends_int (O : FpOps) (c : ChibiVerif.Spec.Const.CExpr) :
    elabA (ofC c) = elabE c ∧ typeOf (ofC c) = .int (ChibiVerif.Spec.Const.typeOf c) ∧
    Spec.ConstF.eval O (ofC c) = (ChibiVerif.Spec.Const.eval c).map .int :=
  ⟨elabA_ofC c, typeOf_ofC c, eval_ofC O c⟩

end ChibiVerif.Props.C07
