/-
C10 — conditional inclusion and #include resolution select exactly the right text.

Property theorems only.  Models: Model/CondIncl.lean (preprocess2's conditional arms, the cond_incl
stack, the two skip functions, detect_include_guard), Model/IncludeSearch.lean (include search,
include_file's shortcuts, main.c's options), Model/PPExpr.lean (#if expressions).
Specification: Spec/CondInclSpec.lean (C11 6.10.1 grammar tree and its evaluation),
Spec/IncludeSearchSpec.lean (documented search order).  Helper lemmas: Lemmas/CondInclLemmas.lean,
Lemmas/IncludeSearchLemmas.lean.
-/
import ChibiVerif.Lemmas.CondInclLemmas

namespace ChibiVerif.Props.C10
open ChibiVerif.CondIncl ChibiVerif.Spec.CondIncl

variable {ε β : Type}

/-- **C10 (groups).**  For every list of lines, every macro table and every evaluator of controlling
    expressions, the machine transcribed from `preprocess2` (directive arms, `cond_incl` stack,
    `skip_cond_incl`, `skip_cond_incl2`, final check of `preprocess`) produces exactly what the
    evaluation of the C11 6.10.1 grammar tree produces: the same text lines in the same order and the
    same final macro table, or the same class of diagnostic (stray #elif / #else / #endif, #elif or
    #else after #else, unterminated conditional, #error, bad controlling expression). -/
theorem C10_groups (ev : ε → Defs β → Except Diag Bool) (ls : List (Line ε β)) (d : Defs β) :
    condMachine ev ls d = groups ev ls d :=
  condMachine_eq_groups ev ls d

end ChibiVerif.Props.C10
