/-
C10 — conditional inclusion and #include resolution select exactly the right text.

Property theorems only.  Models: Model/CondIncl.lean (preprocess2's conditional arms, the cond_incl
stack, the two skip functions, detect_include_guard), Model/IncludeSearch.lean (include search,
include_file's shortcuts, main.c's options), Model/PPExpr.lean (#if expressions).
Specification: Spec/CondInclSpec.lean (C11 6.10.1 grammar tree and its evaluation),
Spec/IncludeSearchSpec.lean (documented search order).  Helper lemmas: Lemmas/CondInclLemmas.lean,
Lemmas/IncludeSearchLemmas.lean, Lemmas/PPExprLemmas.lean.

Every theorem is for all line lists / macro tables / evaluators / configurations / file systems.
Open item (known finding C10-ppif-int-result-shift): `C10_ifexpr_Statement` is false on the model
of the code as it is (Findings/C10.lean); `C10_ifexpr_partial` and `C10_groups_c11_partial` hold
outside the region `intResultOverflows`.
-/
import ChibiVerif.Lemmas.CondInclLemmas
import ChibiVerif.Lemmas.IncludeSearchLemmas
import ChibiVerif.Lemmas.PPExprLemmas

namespace ChibiVerif.Props.C10
open ChibiVerif.CondIncl ChibiVerif.Spec.CondIncl ChibiVerif.IncludeSearch ChibiVerif.Spec.IncludeSearch
open ChibiVerif.PPExpr

variable {ε β : Type}

-- ================================================================== conditional groups

/-- **C10 (groups).**  For every list of lines, every macro table and every evaluator of controlling
    expressions, the machine transcribed from `preprocess2` (directive arms, `cond_incl` stack,
    `skip_cond_incl`, `skip_cond_incl2`, final check of `preprocess`) produces exactly what the
    evaluation of the C11 6.10.1 grammar tree produces: the same text lines in the same order and the
    same final macro table, or the same class of diagnostic (stray #elif / #else / #endif, #elif or
    #else after #else, unterminated conditional, #error, bad controlling expression). -/
theorem C10_groups (ev : ε → Defs β → Except Diag Bool) (ls : List (Line ε β)) (d : Defs β) :
    condMachine ev ls d = groups ev ls d :=
  condMachine_eq_groups ev ls d

/-- **C10 (the grammar tree is the input).**  The tree `Spec.groups` evaluates flattens back to
    exactly the lines it was parsed from (plus the #endif lines supplied for an unterminated input,
    whose number is the nesting depth at the end); a stray line is a #elif/#else/#endif at depth 0. -/
theorem C10_parse_roundtrip (ls : List (Line ε β)) :
    match parse ls with
    | .done is n => is.flatten = ls ++ List.replicate n (.endif false) ∧ sdepth ls 0 = some n
    | .stray is l rest => is.flatten ++ l :: rest = ls ∧ isCloser l = true :=
  parse_spec ls

/-- **C10 (key lemma).**  `skip_cond_incl`, started inside a group – i.e. in front of a balanced
    sequence `body` of text lines, control lines and complete nested if-sections, followed by the
    remaining `#elif/#else/#endif` lines `ps` of the enclosing section – returns exactly at the first
    line of `ps`: the matching directive of *that* nesting level. -/
theorem C10_skip_returns_at_matching (body : Items ε β) (ps : Parts ε β) (rest : List (Line ε β)) :
    skipCondIncl (body.flatten ++ (ps.flatten ++ rest)) = ps.flatten ++ rest := by
  unfold skipCondIncl
  rw [skipFrom_items body 0, skipFrom_zero_parts]

/-- … and `skip_cond_incl2` (one activation, `skipFrom 1`), started behind a nested `#if`, returns
    behind the `#endif` that closes it. -/
theorem C10_skip2_returns_after_endif (body : Items ε β) (ps : Parts ε β) (rest : List (Line ε β)) :
    skipFrom 1 (body.flatten ++ (ps.flatten ++ rest)) = skipFrom 0 rest := by
  rw [skipFrom_items body 1, skipFrom_parts ps 0]

/-- **C10 (the skip functions as written).**  `skipFrom`, the function the machine's skip modes and
    the lemmas above are about, is `skip_cond_incl` as it is written in C – a loop that calls the
    recursive `skip_cond_incl2` for a nested #if-kind line – for any fuel ≥ the number of lines. -/
theorem C10_skip_transcription (f : Nat) (ls : List (Line ε β)) (h : ls.length ≤ f) :
    skipCondIncl ls = skipCondInclC f ls ∧ ∀ d, skipFrom (d+1) ls = skipFrom d (skipCondIncl2C f ls) :=
  ⟨skipCondIncl_eq_C f ls h, fun d => skipFrom_succ_eq f ls d h⟩

example : ([.opens (.ifE true), .plain (.text ["a"]), .endif false, .part (.els false), .plain (.text ["b"])] : List (Line Bool Unit)).length ≤ 5 := by decide

/-- the skip modes of the machine are these two functions -/
theorem C10_skip_modes (ev : ε → Defs β → Except Diag Bool) (ls : List (Line ε β)) (d : Nat) (s : St β) :
    finish (run ev ls (.skip d) s) = finish (run ev (skipFrom d ls) .proc s) :=
  run_skip_eq_skipFrom ev ls d s

/-- **C10 (skipped groups have no effect).**  While skipping (at any depth), a balanced sequence of
    lines – whatever #define, #undef, #error, text or nested conditionals it contains – leaves the
    macro table, the output and the conditional stack exactly as they were. -/
theorem C10_skipped_no_effect (ev : ε → Defs β → Except Diag Bool) (body : Items ε β) (d : Nat) (s : St β) :
    run ev body.flatten (.skip d) s = .ok (s, .skip d) :=
  run_skip_items ev body d s

/-- … hence the lines of a group that is not selected can be replaced by any other balanced
    sequence (here: deleted) without changing the result of the translation unit.  Stated for the
    group of a `#if/#ifdef/#ifndef` whose condition is false. -/
theorem C10_skipped_group_irrelevant (ev : ε → Defs β → Except Diag Bool) (h : IfHead ε) (body body' : Items ε β)
    (ps : Parts ε β) (rest : Items ε β) (o : Obs β) (hfalse : evalHead ev h o.defs = .ok false) :
    (Items.cons (.sec h body ps) rest).eval ev o = (Items.cons (.sec h body' ps) rest).eval ev o := by
  simp only [Items.eval, Item.eval, hfalse]

example : evalHead (fun (b : Bool) (_ : Defs Unit) => .ok b) (.ifE false) ([] : Defs Unit) = .ok false := rfl

/-- **C10 (trailing tokens).**  The tokens `skip_line` drops after `#else`, `#endif`, `#ifdef X`,
    `#ifndef X`, `#undef X` never change anything. -/
theorem C10_trailing (ev : ε → Defs β → Except Diag Bool) (ls : List (Line ε β)) (d : Defs β) :
    condMachine ev (ls.map Line.clearExtra) d = condMachine ev ls d := by
  unfold condMachine; rw [run_clearExtra]

/-- the skip functions and the include-guard detector look at directive *names* taken from the
    code: these are the sets the model's line classification is built on (regenerated from
    preprocess.c on every run; a changed set breaks this theorem). -/
theorem C10_directive_sets :
    ChibiVerif.Gen.C10Incl.skipOpen = ["if", "ifdef", "ifndef"] ∧
    ChibiVerif.Gen.C10Incl.skipStop = ["elif", "else", "endif"] ∧
    ChibiVerif.Gen.C10Incl.skip2Open = ["if", "ifdef", "ifndef"] ∧
    ChibiVerif.Gen.C10Incl.skip2Stop = ["endif"] ∧
    ChibiVerif.Gen.C10Incl.guardOpen = ["if", "ifdef", "ifndef"] ∧
    ChibiVerif.Gen.C10Incl.guardReject = ["elif", "else"] ∧
    ChibiVerif.Gen.C10Incl.guardClose = ["endif"] ∧
    ChibiVerif.Gen.C10Incl.skipNullFirst = true ∧
    ChibiVerif.Gen.C10Incl.dispatchNullFirst = true ∧
    ChibiVerif.Gen.C10Incl.skipLineUntilBol = true := by decide

-- ================================================================== #if expressions

/-- full statement: chibicc's `eval_const_expr` computes the value C11 6.10.1p4 defines
    (intmax_t / uintmax_t arithmetic, `defined`, remaining identifiers 0).  FALSE for the code as it
    is: Findings/C10.lean, `C10_finding_ifexpr`. -/
def C10_ifexpr_Statement : Prop := ∀ (defs : Defs Body) (e : Expr), evC e defs = ev e defs

/-- **C10 (#if arithmetic, partial).**  Outside the region of C10-ppif-int-result-shift – no
    intermediate result that chibicc types `int` (results of `< <= > >= == != ! && ||` and arithmetic
    on them) leaves the 32-bit range when the expression is evaluated by the rules of C11 – chibicc
    computes exactly the C11 value: same truth value, same diagnostics (division by zero in an
    evaluated operand; `&&`, `||`, `?:` do not evaluate the operand not selected).  Expressions
    whose behaviour C11 leaves undefined (`undefinedByC11`: signed overflow, shift count out of range)
    are excluded: nothing is required there (chibicc wraps around). -/
theorem C10_ifexpr_partial (defs : Defs Body) (e : Expr) (h : intResultOverflows defs e = false)
    (hu : undefinedByC11 defs e = false) :
    evC e defs = ev e defs :=
  evC_eq_ev_of_no_overflow defs e h hu

/-- non-vacuity: `-1 < 0u` lies outside the region and is false; `0 && 1/0` is accepted and false -/
example : intResultOverflows [] (.bin .lt (.un .neg (.num 1 false)) (.num 0 true)) = false ∧
    undefinedByC11 [] (.bin .lt (.un .neg (.num 1 false)) (.num 0 true)) = false ∧
    ev (.bin .lt (.un .neg (.num 1 false)) (.num 0 true)) [] = .ok false ∧
    ev (.bin .land (.num 0 false) (.bin .div (.num 1 false) (.num 0 false))) [] = .ok false := by decide

/-- **C10 (`defined`, token level).**  `read_const_expr` replaces `defined X` and `defined ( X )` by
    `1`/`0` according to the macro table *before* macro expansion (so `X` itself is never expanded),
    and leaves every other token alone. -/
theorem C10_defined_forms (isDef : String → Bool) (x : String) (pre post : List Tok)
    (hpre : ∀ t ∈ pre, t ≠ .ident "defined") (hpost : ∀ t ∈ post, t ≠ .ident "defined") :
    readDefined isDef (pre ++ .ident "defined" :: .ident x :: post)
        = .ok (pre ++ .num (if isDef x then "1" else "0") :: post) ∧
    readDefined isDef (pre ++ .ident "defined" :: .punct "(" :: .ident x :: .punct ")" :: post)
        = .ok (pre ++ .num (if isDef x then "1" else "0") :: post) := by
  have hp := readDefined_no_defined isDef post hpost
  constructor
  · induction pre with
    | nil => simp [readDefined, hp]
    | cons t pre ih =>
      have ht : t ≠ .ident "defined" := hpre t (by simp)
      have ih' := ih (fun t' ht' => hpre t' (by simp [ht']))
      simp only [List.cons_append]
      unfold readDefined
      split <;> simp_all
  · induction pre with
    | nil => simp [readDefined, hp]
    | cons t pre ih =>
      have ht : t ≠ .ident "defined" := hpre t (by simp)
      have ih' := ih (fun t' ht' => hpre t' (by simp [ht']))
      simp only [List.cons_append]
      unfold readDefined
      split <;> simp_all

/-- **C10 (remaining identifiers are 0).**  After `eval_const_expr`'s replacement pass no identifier
    is left (keywords are identifiers at this stage), and in the value semantics an identifier that is
    not a macro has the value 0 of type intmax_t. -/
theorem C10_identifiers_zero (ts : List Tok) (defs : Defs Body) (n : String) (hn : defs.lookup n = none) :
    (∀ t ∈ identToZero ts, t.isIdent = false) ∧ evalTop defs (.ident n) = .ok ⟨0, false⟩ := by
  refine ⟨identToZero_no_ident ts, ?_⟩
  simp [evalTop, hasNonExpr, evalN, FUEL, hn]

/-- full statement at the level of translation units: the machine with chibicc's evaluator selects
    the text C11 selects.  FALSE (same finding). -/
def C10_groups_c11_Statement : Prop :=
  ∀ (ls : List (Line Expr Body)) (d : Defs Body), condMachine evC ls d = groups ev ls d

/-- **C10 (groups against C11 arithmetic, partial).**  If no controlling expression of the unit lies
    in the region or has undefined behaviour (under any macro table), the machine with chibicc's evaluator produces exactly what
    the C11 grammar tree with the C11 evaluator produces. -/
theorem C10_groups_c11_partial (ls : List (Line Expr Body)) (d : Defs Body)
    (h : ∀ c ∈ conds ls, ∀ d', intResultOverflows d' c = false ∧ undefinedByC11 d' c = false) :
    condMachine evC ls d = groups ev ls d := by
  rw [condMachine_congr evC ev ls (fun c hc d' => C10_ifexpr_partial d' c (h c hc d').1 (h c hc d').2) d]
  exact C10_groups ev ls d

/-- non-vacuity: a unit whose conditions are comparisons shifted by less than 31 -/
example : ∀ c ∈ conds ([.opens (.ifE (.bin .shl (.bin .lt (.num 1 false) (.num 2 false)) (.num 3 false))),
      .plain (.text ["a"]), .part (.elif (.num 1 true)), .endif false] : List (Line Expr Body)),
    ∀ d', intResultOverflows d' c = false ∧ undefinedByC11 d' c = false := by
  intro c hc d'
  simp only [conds, List.filterMap_cons, Line.cond?, List.filterMap_nil, List.mem_cons, List.not_mem_nil, or_false] at hc
  rcases hc with rfl | rfl <;>
    (rw [intResultOverflows_closed _ _ (by decide), undefinedByC11_closed _ _ (by decide)]; decide)

-- ================================================================== include search

/-- **C10 (search order).**  `include_paths` as main.c assembles it for the cc1 child is: the -I
    directories in command-line order, then the system directories, then the -idirafter directories
    (order of the pushes regenerated from main.c on every run). -/
theorem C10_search_order (c : Config) : includePaths c = c.iDirs ++ c.sysDirs ++ c.idirafter :=
  includePaths_eq_chain c

/-- **C10 (search).**  For every configuration, file system, including file, spelling and cache
    content that earlier searches can have produced: `#include "name"` opens the file the documented
    order names – the directory of the including file first (quoted form only), then -I, system,
    -idirafter – and `#include <name>` the same without the first step; when there is none the name
    itself is handed to `include_file`. -/
theorem C10_search (fsx : String → Bool) (c : Config) (cache : Cache) (cur : String) (dq : Bool) (name : String)
    (hc : CacheOK fsx (includePaths c) cache) :
    (resolveInclude fsx (includePaths c) cache cur dq name).1 = (search fsx c (dirname cur) dq name).getD name :=
  resolveInclude_eq_search fsx c cache cur dq name hc

/-- the hypothesis of `C10_search` holds initially … -/
example (fsx : String → Bool) (c : Config) : CacheOK fsx (includePaths c) [] := CacheOK_nil fsx _

/-- **C10 (the cache never changes an answer).**  A cached lookup returns what an uncached lookup
    returns, and leaves a cache of which this is true again (so the hypothesis `CacheOK` of
    `C10_search` holds throughout a run that starts with the empty cache). -/
theorem C10_cache_transparent (fsx : String → Bool) (paths : List String) (cache : Cache) (name : String)
    (hc : CacheOK fsx paths cache) :
    (searchIncludePaths fsx paths cache name).1 = (searchIncludePaths fsx paths [] name).1 ∧
    CacheOK fsx paths (searchIncludePaths fsx paths cache name).2 :=
  searchIncludePaths_cache fsx paths cache name hc

/-- **C10 (#include_next).**  `#include_next` searches the documented chain after the first
    directory of the chain that contains the current file (the whole chain if there is none) … -/
theorem C10_search_next (fsx : String → Bool) (c : Config) (name cur : String) :
    searchIncludeNext fsx (includePaths c) name cur = searchNext fsx c (dirPrefixIdx (includePaths c) cur) name :=
  searchIncludeNext_eq fsx c name cur

/-- … and that directory is the one in which the current file was found, provided no earlier
    directory of the chain is a path prefix of it (include directories not nested in one another). -/
theorem C10_search_next_found_dir (c : Config) (i : Nat) (hi : i < (includePaths c).length) (n : String)
    (hno : ∀ j (hj : j < i), isDirPrefix ((includePaths c)[j]'(Nat.lt_trans hj hi)) (joinPath (includePaths c)[i] n) = false) :
    dirPrefixIdx (includePaths c) (joinPath (includePaths c)[i] n) = some i :=
  dirPrefixIdx_found _ i hi n hno

/-- non-vacuity: -I A -I B, system S, -idirafter Z; the file A/x.h was found in directory 0, B/x.h
    in directory 1, S/x.h in directory 2 -/
example : dirPrefixIdx (includePaths ⟨["A", "B"], ["S"], ["Z"]⟩) "B/x.h" = some 1 ∧
    searchIncludeNext (fun p => p == "A/x.h" || p == "S/x.h" || p == "Z/x.h") (includePaths ⟨["A", "B"], ["S"], ["Z"]⟩)
      "x.h" "A/x.h" = some "S/x.h" := by decide

-- ================================================================== re-inclusion shortcuts

/-- **C10 (include guards).**  If `detect_include_guard` accepts a file (returns the guard macro
    `g`), then processing the file's lines in any state in which `g` is defined produces no tokens,
    leaves the macro table unchanged and leaves the conditional stack unchanged – whatever follows. -/
theorem C10_shortcuts (ev : ε → Defs β → Except Diag Bool) (file : List (Line ε β)) (g : String)
    (hg : detectGuard file = some g) (s : St β) (hdef : s.obs.defs.isDef g = true) (rest : List (Line ε β)) :
    run ev (file ++ rest) .proc s = run ev rest .proc s := by
  rw [run_append, run_guarded_file ev file g hg s hdef]

/-- non-vacuity: a guarded header with a nested conditional and a null directive -/
example : detectGuard ([.opens (.ifndef "G" false), .plain (.define "G" ()), .plain .other, .opens (.ifE true),
    .plain (.text ["a"]), .part (.els false), .endif true, .plain (.text ["b"]), .endif false] : List (Line Bool Unit))
    = some "G" := by decide

/-- almost-guarded shapes are rejected: text after the closing #endif, an #else of the guard, tokens
    after `#ifndef G`, tokens after the last `#endif` -/
example :
    detectGuard ([.opens (.ifndef "G" false), .plain (.define "G" ()), .endif false, .plain (.text ["y"]),
      .opens (.ifE true), .endif false] : List (Line Bool Unit)) = none ∧
    detectGuard ([.opens (.ifndef "G" false), .plain (.define "G" ()), .part (.els false), .endif false] : List (Line Bool Unit)) = none ∧
    detectGuard ([.opens (.ifndef "G" true), .plain (.define "G" ()), .endif false] : List (Line Bool Unit)) = none ∧
    detectGuard ([.opens (.ifndef "G" false), .plain (.define "G" ()), .endif true] : List (Line Bool Unit)) = none := by decide

/-- **C10 (`#pragma once`).**  `#pragma once` records the file it stands in; a recorded file
    contributes nothing when included again (no tokens, no state change); records are never removed by
    `include_file`. -/
theorem C10_pragma_once (ev : ε → Defs β → Except Diag Bool) (fs : FS ε β) (paths : List String) (b : Bool)
    (file path : String) (s : IState β) :
    stepInc ev fs paths b file .pragmaOnce .proc s = .ok ([], { s with once := file :: s.once }, .proc) ∧
    (s.once.contains path = true → includeFile fs b path s = .ok ([], s)) ∧
    (∀ ls s', includeFile fs b path s = .ok (ls, s') → s'.once = s.once) :=
  ⟨rfl, includeFile_once fs b path s, fun ls s' h => includeFile_once_mono fs b path s s' ls h⟩

/-- **C10 (shortcuts = plain textual inclusion, every include graph).**  For every file system,
    search path, input and state whose `include_guards` table was filled by `detect_include_guard`
    (in particular the empty table a run starts with): whenever the machine *without* the
    include-guard shortcut (every #include splices the file's lines) finishes, the machine *with* the
    shortcut finishes in the same state: same emitted text, same macro table, same conditional stack. -/
theorem C10_shortcuts_graph (ev : ε → Defs β → Except Diag Bool) (fs : FS ε β) (paths : List String)
    (fuel : Nat) (lines : List (String × ILine ε β)) (m : Mode) (s : IState β) (r : IState β × Mode)
    (hok : GuardsOK fs s.guards)
    (h : runInc ev fs paths false fuel lines m s = .ok r) :
    runInc ev fs paths true fuel lines m s = .ok r :=
  runInc_guards_transparent ev fs paths fuel lines m s r hok h

example (fs : FS ε β) : GuardsOK fs [] := GuardsOK_nil fs

-- ================================================================== command line

/-- **C10 (command line).**  `-D` and `-U` are applied to the macro table in command-line order
    while the command line is scanned – exactly as if the corresponding `#define` / `#undef` lines
    stood, in that order, in front of everything else – and the translation unit handed to
    `preprocess` is the `-include` files in command-line order followed by the main file. -/
theorem C10_cmdline (ev : ε → Defs β → Except Diag Bool) (os : List (Opt β)) (d : Defs β) (out : List (List String))
    (st : List Frame) :
    run ev (duLines (ε := ε) os) .proc ⟨⟨d, out⟩, st⟩ = .ok (⟨⟨applyDU d os, out⟩, st⟩, .proc) :=
  run_duLines ev os d out st

/-- the `-include` part: with two `-include` options the stream is file 1, file 2, main file -/
example : cmdStream (FS.ofTable [("a.h", [.c (.plain (.text ["a"]))]), ("b.h", [.c (.plain (.text ["b"]))]),
      ("m.c", [.c (.plain (.text ["m"]))])] : FS Bool Unit) [] ["a.h", "b.h"] [] "m.c"
    = .ok ([("a.h", .c (.plain (.text ["a"]))), ("b.h", .c (.plain (.text ["b"]))), ("m.c", .c (.plain (.text ["m"])))], []) := by
  decide

/-- last write wins in command-line order: `-DX -UX` leaves X undefined, `-UX -DX` defined -/
example : (applyDU ([] : Defs Unit) [.D "X" (), .U "X"]).isDef "X" = false ∧
    (applyDU ([] : Defs Unit) [.U "X", .D "X" ()]).isDef "X" = true := by decide

end ChibiVerif.Props.C10
