/-
C10 — conditional inclusion and #include resolution select exactly the right text.

Property theorems only.  Models: Model/CondIncl.lean (preprocess2's conditional arms, the cond_incl
stack, the two skip functions, detect_include_guard), Model/IncludeSearch.lean (include search, the
tables of include_file, main.c's options), Model/IncludeDepth.lean (include_file with its nesting
limit: the spliced-stream machine `runIncD` and the total function `runAt`/`includeRun`),
Model/PPExpr.lean (#if expressions).
Specification: Spec/CondInclSpec.lean (C11 6.10.1 grammar tree and its evaluation),
Spec/IncludeSearchSpec.lean (documented search order).  Helper lemmas: Lemmas/CondInclLemmas.lean,
Lemmas/IncludeSearchLemmas.lean, Lemmas/IncludeDepthLemmas.lean, Lemmas/IncludeDepthShortcuts.lean,
Lemmas/PPExprLemmas.lean.

Every theorem is for all line lists / macro tables / evaluators / configurations / file systems.
Open item (known finding C10-ppif-int-result-shift): `C10_ifexpr_Statement` is false on the model
of the code as it is (Findings/C10.lean); `C10_ifexpr_partial` and `C10_groups_c11_partial` hold
outside the region `intResultOverflows`.
-/
import ChibiVerif.Lemmas.CondInclLemmas
import ChibiVerif.Lemmas.IncludeSearchLemmas
import ChibiVerif.Lemmas.IncludeDepthShortcuts
import ChibiVerif.Lemmas.IncludeOperandLemmas
import ChibiVerif.Lemmas.PPExprLemmas

namespace ChibiVerif.Props.C10
open ChibiVerif.CondIncl ChibiVerif.Spec.CondIncl ChibiVerif.IncludeSearch ChibiVerif.Spec.IncludeSearch
open ChibiVerif.PPExpr ChibiVerif.IncludeDepth ChibiVerif.IncludeOperand
open ChibiVerif.Gen.C10Incl (includeDepthLimit)

variable {ε β : Type}

-- ================================================================== conditional groups

/-- **C10 (groups).**  For every list of lines, every macro table and every evaluator of controlling
    expressions, the machine transcribed from `preprocess2` (directive arms, `cond_incl` stack,
    `skip_cond_incl`, `skip_cond_incl2`, final check of `preprocess`) produces exactly what the
    evaluation of the C11 6.10.1 grammar tree produces: the same text lines in the same order and the
    same final macro table, or the same class of diagnostic (stray #elif / #else / #endif, #elif or
    #else after #else, unterminated conditional, #error, bad controlling expression). -/
theorem C10_groups (ev : ε → Defs β → Except Diag Bool) (ls : List (Line ε β)) (d : Defs β) :
    condMachine ev ls d = groups ev ls d :=
  condMachine_eq_groups ev ls d

/-- **C10 (the grammar tree is the input).**  The tree `Spec.groups` evaluates flattens back to
    exactly the lines it was parsed from (plus the #endif lines supplied for an unterminated input,
    whose number is the nesting depth at the end); a stray line is a #elif/#else/#endif at depth 0. -/
theorem C10_parse_roundtrip (ls : List (Line ε β)) :
    match parse ls with
    | .done is n => is.flatten = ls ++ List.replicate n (.endif false) ∧ sdepth ls 0 = some n
    | .stray is l rest => is.flatten ++ l :: rest = ls ∧ isCloser l = true :=
  parse_spec ls

/-- **C10 (key lemma).**  `skip_cond_incl`, started inside a group – i.e. in front of a balanced
    sequence `body` of text lines, control lines and complete nested if-sections, followed by the
    remaining `#elif/#else/#endif` lines `ps` of the enclosing section – returns exactly at the first
    line of `ps`: the matching directive of *that* nesting level. -/
theorem C10_skip_returns_at_matching (body : Items ε β) (ps : Parts ε β) (rest : List (Line ε β)) :
    skipCondIncl (body.flatten ++ (ps.flatten ++ rest)) = ps.flatten ++ rest := by
  unfold skipCondIncl
  rw [skipFrom_items body 0, skipFrom_zero_parts]

/-- … and `skip_cond_incl2` (one activation, `skipFrom 1`), started behind a nested `#if`, returns
    behind the `#endif` that closes it. -/
theorem C10_skip2_returns_after_endif (body : Items ε β) (ps : Parts ε β) (rest : List (Line ε β)) :
    skipFrom 1 (body.flatten ++ (ps.flatten ++ rest)) = skipFrom 0 rest := by
  rw [skipFrom_items body 1, skipFrom_parts ps 0]

/-- **C10 (the skip functions as written).**  `skipFrom`, the function the machine's skip modes and
    the lemmas above are about, is `skip_cond_incl` as it is written in C – a loop that calls the
    recursive `skip_cond_incl2` for a nested #if-kind line – for any fuel ≥ the number of lines. -/
theorem C10_skip_transcription (f : Nat) (ls : List (Line ε β)) (h : ls.length ≤ f) :
    skipCondIncl ls = skipCondInclC f ls ∧ ∀ d, skipFrom (d+1) ls = skipFrom d (skipCondIncl2C f ls) :=
  ⟨skipCondIncl_eq_C f ls h, fun d => skipFrom_succ_eq f ls d h⟩

example : ([.opens (.ifE true), .plain (.text ["a"]), .endif false, .part (.els false), .plain (.text ["b"])] : List (Line Bool Unit)).length ≤ 5 := by decide

/-- the skip modes of the machine are these two functions -/
theorem C10_skip_modes (ev : ε → Defs β → Except Diag Bool) (ls : List (Line ε β)) (d : Nat) (s : St β) :
    finish (run ev ls (.skip d) s) = finish (run ev (skipFrom d ls) .proc s) :=
  run_skip_eq_skipFrom ev ls d s

/-- **C10 (skipped groups have no effect).**  While skipping (at any depth), a balanced sequence of
    lines – whatever #define, #undef, #error, text or nested conditionals it contains – leaves the
    macro table, the output and the conditional stack exactly as they were. -/
theorem C10_skipped_no_effect (ev : ε → Defs β → Except Diag Bool) (body : Items ε β) (d : Nat) (s : St β) :
    run ev body.flatten (.skip d) s = .ok (s, .skip d) :=
  run_skip_items ev body d s

/-- … hence the lines of a group that is not selected can be replaced by any other balanced
    sequence (here: deleted) without changing the result of the translation unit.  Stated for the
    group of a `#if/#ifdef/#ifndef` whose condition is false. -/
theorem C10_skipped_group_irrelevant (ev : ε → Defs β → Except Diag Bool) (h : IfHead ε) (body body' : Items ε β)
    (ps : Parts ε β) (rest : Items ε β) (o : Obs β) (hfalse : evalHead ev h o.defs = .ok false) :
    (Items.cons (.sec h body ps) rest).eval ev o = (Items.cons (.sec h body' ps) rest).eval ev o := by
  simp only [Items.eval, Item.eval, hfalse]

example : evalHead (fun (b : Bool) (_ : Defs Unit) => .ok b) (.ifE false) ([] : Defs Unit) = .ok false := rfl

/-- **C10 (trailing tokens).**  The tokens `skip_line` drops after `#else`, `#endif`, `#ifdef X`,
    `#ifndef X`, `#undef X` never change anything. -/
theorem C10_trailing (ev : ε → Defs β → Except Diag Bool) (ls : List (Line ε β)) (d : Defs β) :
    condMachine ev (ls.map Line.clearExtra) d = condMachine ev ls d := by
  unfold condMachine; rw [run_clearExtra]

/-- the skip functions and the include-guard detector look at directive *names* taken from the
    code: these are the sets the model's line classification is built on (regenerated from
    preprocess.c on every run; a changed set breaks this theorem). -/
theorem C10_directive_sets :
    ChibiVerif.Gen.C10Incl.skipOpen = ["if", "ifdef", "ifndef"] ∧
    ChibiVerif.Gen.C10Incl.skipStop = ["elif", "else", "endif"] ∧
    ChibiVerif.Gen.C10Incl.skip2Open = ["if", "ifdef", "ifndef"] ∧
    ChibiVerif.Gen.C10Incl.skip2Stop = ["endif"] ∧
    ChibiVerif.Gen.C10Incl.guardOpen = ["if", "ifdef", "ifndef"] ∧
    ChibiVerif.Gen.C10Incl.guardReject = ["elif", "else"] ∧
    ChibiVerif.Gen.C10Incl.guardClose = ["endif"] ∧
    ChibiVerif.Gen.C10Incl.skipNullFirst = true ∧
    ChibiVerif.Gen.C10Incl.dispatchNullFirst = true ∧
    ChibiVerif.Gen.C10Incl.skipLineUntilBol = true := by decide

-- ================================================================== #if expressions

/-- full statement: wherever C11 6.10.1p4 defines the outcome of a controlling expression (a value, or the
    division-by-zero diagnostic; `undefinedByC11`: signed overflow / shift count out of range – nothing is required
    there), chibicc's `eval_const_expr` computes it (intmax_t / uintmax_t arithmetic, `defined`, remaining
    identifiers 0).  FALSE for the code as it is: Findings/C10.lean, `C10_finding_ifexpr`. -/
def C10_ifexpr_Statement : Prop :=
  ∀ (defs : Defs Body) (e : Expr), undefinedByC11 defs e = false → evC e defs = ev e defs

/-- **C10 (#if arithmetic, partial).**  Outside the region of C10-ppif-int-result-shift – no
    intermediate result that chibicc types `int` (results of `< <= > >= == != ! && ||` and arithmetic
    on them) leaves the 32-bit range when the expression is evaluated by the rules of C11 – chibicc
    computes exactly the C11 value: same truth value, same diagnostics (division by zero in an
    evaluated operand; `&&`, `||`, `?:` do not evaluate the operand not selected).  Expressions
    whose behaviour C11 leaves undefined (`undefinedByC11`: signed overflow, shift count out of range)
    are excluded: nothing is required there (chibicc wraps around). -/
theorem C10_ifexpr_partial (defs : Defs Body) (e : Expr) (h : intResultOverflows defs e = false)
    (hu : undefinedByC11 defs e = false) :
    evC e defs = ev e defs :=
  evC_eq_ev_of_no_overflow defs e h hu

/-- non-vacuity: `-1 < 0u` lies outside the region and is false; `0 && 1/0` is accepted and false -/
example : intResultOverflows [] (.bin .lt (.un .neg (.num 1 false)) (.num 0 true)) = false ∧
    undefinedByC11 [] (.bin .lt (.un .neg (.num 1 false)) (.num 0 true)) = false ∧
    ev (.bin .lt (.un .neg (.num 1 false)) (.num 0 true)) [] = .ok false ∧
    ev (.bin .land (.num 0 false) (.bin .div (.num 1 false) (.num 0 false))) [] = .ok false := by decide

/-- **C10 (`defined`, token level).**  `read_const_expr` replaces `defined X` and `defined ( X )` by
    `1`/`0` according to the macro table *before* macro expansion (so `X` itself is never expanded),
    and leaves every other token alone. -/
theorem C10_defined_forms (isDef : String → Bool) (x : String) (pre post : List Tok)
    (hpre : ∀ t ∈ pre, t ≠ .ident "defined") (hpost : ∀ t ∈ post, t ≠ .ident "defined") :
    readDefined isDef (pre ++ .ident "defined" :: .ident x :: post)
        = .ok (pre ++ .num (if isDef x then "1" else "0") :: post) ∧
    readDefined isDef (pre ++ .ident "defined" :: .punct "(" :: .ident x :: .punct ")" :: post)
        = .ok (pre ++ .num (if isDef x then "1" else "0") :: post) := by
  have hp := readDefined_no_defined isDef post hpost
  constructor
  · induction pre with
    | nil => simp [readDefined, hp]
    | cons t pre ih =>
      have ht : t ≠ .ident "defined" := hpre t (by simp)
      have ih' := ih (fun t' ht' => hpre t' (by simp [ht']))
      simp only [List.cons_append]
      unfold readDefined
      split <;> simp_all
  · induction pre with
    | nil => simp [readDefined, hp]
    | cons t pre ih =>
      have ht : t ≠ .ident "defined" := hpre t (by simp)
      have ih' := ih (fun t' ht' => hpre t' (by simp [ht']))
      simp only [List.cons_append]
      unfold readDefined
      split <;> simp_all

/-- **C10 (remaining identifiers are 0).**  After `eval_const_expr`'s replacement pass no identifier
    is left (keywords are identifiers at this stage), and in the value semantics an identifier that is
    not a macro has the value 0 of type intmax_t. -/
theorem C10_identifiers_zero (ts : List Tok) (defs : Defs Body) (n : String) (hn : defs.lookup n = none) :
    (∀ t ∈ identToZero ts, t.isIdent = false) ∧ evalTop defs (.ident n) = .ok ⟨0, false⟩ := by
  refine ⟨identToZero_no_ident ts, ?_⟩
  simp [evalTop, hasNonExpr, evalN, FUEL, hn]

/-- **C10 (#if arithmetic, static criterion).**  The region of the known finding, bounded by chibicc's own typing,
    without evaluating anything: if the only nodes of the expression (macro bodies included) that chibicc types `int`
    are the results of `< <= > >= == != ! && ||` themselves – i.e. no unary `- + ~`, no arithmetic, bitwise or shift
    operator and no `?:` is applied to operands that are *all* such results – then the expression lies outside the
    region, and chibicc computes the C11 value.  (`(a < b) + 1`, `(a < b) * 0x100000000`, `x == y ? 1 : 2` qualify;
    `(a < b) << n`, `-(a < b)`, `(a < b) + (c < d)` do not, although only the first can actually leave 32 bits.) -/
theorem C10_ifexpr_static_partial (defs : Defs Body) (e : Expr) (h : intArithFree defs FUEL [] e = true)
    (hu : undefinedByC11 defs e = false) :
    intResultOverflows defs e = false ∧ evC e defs = ev e defs :=
  ⟨intArithFree_outside_region defs e h, C10_ifexpr_partial defs e (intArithFree_outside_region defs e h) hu⟩

/-- non-vacuity: `(1 < 2) * 0x100000000 == 0x100000000 && -1 < 0u == 0` satisfies the criterion -/
example : intArithFree [] FUEL [] (.bin .land
      (.bin .eq (.bin .mul (.bin .lt (.num 1 false) (.num 2 false)) (.num (2^32) false)) (.num (2^32) false))
      (.bin .eq (.bin .lt (.un .neg (.num 1 false)) (.num 0 true)) (.num 0 false))) = true ∧
    intArithFree [] FUEL [] (.bin .shl (.bin .lt (.num 1 false) (.num 2 false)) (.num 40 false)) = false := by decide

/-- the evaluator with a tripwire: `outOfFuel` (a diagnostic neither evaluator ever produces) as soon as a condition is
    *evaluated* under a macro table where `P` holds -/
abbrev tripwire (P : Expr → Defs Body → Bool) (evf : Expr → Defs Body → Except Diag Bool) :=
  guardEv P .outOfFuel evf

/-- full statement at the level of translation units: if no condition that is actually evaluated (under the macro
    table of that moment) has behaviour C11 leaves undefined, the machine with chibicc's evaluator selects the text
    C11 selects.  FALSE (same finding). -/
def C10_groups_c11_Statement : Prop :=
  ∀ (ls : List (Line Expr Body)) (d : Defs Body),
    condMachine (tripwire (fun e d' => undefinedByC11 d' e) ev) ls d ≠ .error .outOfFuel →
    condMachine evC ls d = groups ev ls d

/-- **C10 (groups against C11 arithmetic, evaluated conditions only).**  If none of the conditions that are actually
    *evaluated* while the unit is processed – under the macro table of that moment; conditions in skipped groups and
    `#elif`s after a taken group do not count – lies in the region of the known finding or has undefined behaviour,
    the machine with chibicc's evaluator produces exactly what the C11 grammar tree with the C11 evaluator produces. -/
theorem C10_groups_c11_evaluated_partial (ls : List (Line Expr Body)) (d : Defs Body)
    (h : condMachine (tripwire (fun e d' => intResultOverflows d' e || undefinedByC11 d' e) evC) ls d ≠ .error .outOfFuel) :
    condMachine evC ls d = groups ev ls d := by
  rw [condMachine_guard evC ev _ .outOfFuel (fun c d' hP => by
    simp only [Bool.or_eq_false_iff] at hP
    exact C10_ifexpr_partial d' c hP.1 hP.2) ls d h]
  exact C10_groups ev ls d

/-- non-vacuity: the shifted comparison stands in a skipped group and in an `#elif` after the taken group: the unit is
    outside the hypothesis of the weaker theorem below, inside this one's -/
example : condMachine (tripwire (fun e d' => intResultOverflows d' e || undefinedByC11 d' e) evC)
    ([.opens (.ifE (.num 1 false)), .plain (.text ["a"]),
      .part (.elif (.bin .shl (.bin .lt (.num 1 false) (.num 2 false)) (.num 40 false))), .plain (.text ["b"]), .endif false,
      .opens (.ifE (.num 0 false)), .opens (.ifE (.bin .shl (.bin .lt (.num 1 false) (.num 2 false)) (.num 40 false))), .endif false,
      .endif false] : List (Line Expr Body)) [] = .ok ⟨[], [["a"]]⟩ := by decide

/-- **C10 (groups against C11 arithmetic, partial).**  If no controlling expression of the unit lies
    in the region or has undefined behaviour (under any macro table), the machine with chibicc's evaluator produces exactly what
    the C11 grammar tree with the C11 evaluator produces. -/
theorem C10_groups_c11_partial (ls : List (Line Expr Body)) (d : Defs Body)
    (h : ∀ c ∈ conds ls, ∀ d', intResultOverflows d' c = false ∧ undefinedByC11 d' c = false) :
    condMachine evC ls d = groups ev ls d := by
  rw [condMachine_congr evC ev ls (fun c hc d' => C10_ifexpr_partial d' c (h c hc d').1 (h c hc d').2) d]
  exact C10_groups ev ls d

/-- non-vacuity: a unit whose conditions are comparisons shifted by less than 31 -/
example : ∀ c ∈ conds ([.opens (.ifE (.bin .shl (.bin .lt (.num 1 false) (.num 2 false)) (.num 3 false))),
      .plain (.text ["a"]), .part (.elif (.num 1 true)), .endif false] : List (Line Expr Body)),
    ∀ d', intResultOverflows d' c = false ∧ undefinedByC11 d' c = false := by
  intro c hc d'
  simp only [conds, List.filterMap_cons, Line.cond?, List.filterMap_nil, List.mem_cons, List.not_mem_nil, or_false] at hc
  rcases hc with rfl | rfl <;>
    (rw [intResultOverflows_closed _ _ (by decide), undefinedByC11_closed _ _ (by decide)]; decide)

-- ================================================================== include search

/-- **C10 (search order).**  `include_paths` as main.c assembles it for the cc1 child is: the -I
    directories in command-line order, then the system directories, then the -idirafter directories
    (order of the pushes regenerated from main.c on every run). -/
theorem C10_search_order (c : Config) : includePaths c = c.iDirs ++ c.sysDirs ++ c.idirafter :=
  includePaths_eq_chain c

/-- **C10 (search).**  For every configuration, file system, including file, spelling and cache
    content that earlier searches can have produced: `#include "name"` opens the file the documented
    order names – the directory of the including file first (quoted form only), then -I, system,
    -idirafter – and `#include <name>` the same without the first step; when there is none the name
    itself is handed to `include_file`. -/
theorem C10_search (fsx : String → Bool) (c : Config) (cache : Cache) (cur : String) (dq : Bool) (name : String)
    (hc : CacheOK fsx (includePaths c) cache) :
    (resolveInclude fsx (includePaths c) cache cur dq name).1 = (search fsx c (dirname cur) dq name).getD name :=
  resolveInclude_eq_search fsx c cache cur dq name hc

/-- the hypothesis of `C10_search` holds initially … -/
example (fsx : String → Bool) (c : Config) : CacheOK fsx (includePaths c) [] := CacheOK_nil fsx _

/-- **C10 (the cache never changes an answer).**  A cached lookup returns what an uncached lookup
    returns, and leaves a cache of which this is true again (so the hypothesis `CacheOK` of
    `C10_search` holds throughout a run that starts with the empty cache). -/
theorem C10_cache_transparent (fsx : String → Bool) (paths : List String) (cache : Cache) (name : String)
    (hc : CacheOK fsx paths cache) :
    (searchIncludePaths fsx paths cache name).1 = (searchIncludePaths fsx paths [] name).1 ∧
    CacheOK fsx paths (searchIncludePaths fsx paths cache name).2 :=
  searchIncludePaths_cache fsx paths cache name hc

/-- **C10 (#include_next).**  `#include_next` searches the documented chain after the first
    directory of the chain that contains the current file (the whole chain if there is none) … -/
theorem C10_search_next (fsx : String → Bool) (c : Config) (name cur : String) :
    searchIncludeNext fsx (includePaths c) name cur = searchNext fsx c (dirPrefixIdx (includePaths c) cur) name :=
  searchIncludeNext_eq fsx c name cur

/-- … and that directory is the one in which the current file was found, provided no earlier
    directory of the chain is a path prefix of it (include directories not nested in one another). -/
theorem C10_search_next_found_dir (c : Config) (i : Nat) (hi : i < (includePaths c).length) (n : String)
    (hno : ∀ j (hj : j < i), isDirPrefix ((includePaths c)[j]'(Nat.lt_trans hj hi)) (joinPath (includePaths c)[i] n) = false) :
    dirPrefixIdx (includePaths c) (joinPath (includePaths c)[i] n) = some i :=
  dirPrefixIdx_found _ i hi n hno

/-- non-vacuity: -I A -I B, system S, -idirafter Z; the file A/x.h was found in directory 0, B/x.h
    in directory 1, S/x.h in directory 2 -/
example : dirPrefixIdx (includePaths ⟨["A", "B"], ["S"], ["Z"]⟩) "B/x.h" = some 1 ∧
    searchIncludeNext (fun p => p == "A/x.h" || p == "S/x.h" || p == "Z/x.h") (includePaths ⟨["A", "B"], ["S"], ["Z"]⟩)
      "x.h" "A/x.h" = some "S/x.h" := by decide

/-- **C10 (the operand of #include, token level).**  `read_include_filename`, for every macro expander:
    (1) a string token is the file name in quoted form – whatever follows it on the line, whatever the macro table;
    (2) `<` t₁ … tₙ `>` (no `>` among the tᵢ) is the file name `join_tokens(t₁…tₙ)` in angle form – whatever follows;
        without white space between the tᵢ that is the concatenation of their spellings;
    (3) an operand that starts with an identifier is macro-expanded as a whole line and the result is read by (1)/(2);
        if the result is empty or still starts with an identifier the directive is rejected;
    (4) any other operand, and `<` without `>` on the line, is rejected. -/
theorem C10_operand_forms (xp : List OTok → Except Diag (List OTok)) (t lt gt : OTok) (ts rest : List OTok)
    (hlt : isLt lt = true) (hgt : isGt gt = true) (hno : ∀ u ∈ ts, isGt u = false) :
    (t.kind = .str → readOperand xp (t :: rest) = .ok (t.text, true)) ∧
    readOperand xp (lt :: (ts ++ gt :: rest)) = .ok (joinToks ts, false) ∧
    ((∀ u ∈ ts.tail, u.hasSpace = false) → joinToks ts = String.join (ts.map OTok.spelling)) ∧
    (t.kind = .ident → readOperand xp (t :: rest) =
      match xp (t :: rest) with
      | .error e => .error e
      | .ok [] => .error .badDirective
      | .ok (t' :: r') => if t'.kind = .ident then .error .badDirective else readDirect (t' :: r')) ∧
    (t.kind = .other → isLt t = false → readOperand xp (t :: rest) = .error .badDirective) ∧
    readOperand xp (lt :: ts) = .error .badDirective :=
  ⟨readOperand_str xp t rest, readOperand_angle xp lt gt ts rest hlt hgt hno, joinToks_noSpace ts,
   readOperand_macro xp t rest, readOperand_other xp t rest, readOperand_angle_open xp lt ts hlt hno⟩

/-- **C10 (the expander used for #include operands is total).**  Object-like macro replacement with hide sets
    (`expandObj`, the transcription of `expand_macro`'s object-like arm, which the driver applies to `#include MACRO`
    operands) terminates for every macro table – self- and mutually recursive definitions included – and every
    line: a budget computed from the table and the line suffices, any larger budget gives the same result, and the
    budget-free `expandObjT` always delivers a token list.  (The general expander, function-like macros
    included, belongs to property C09.) -/
theorem C10_operand_expander_total (defs : ODefs) (ts : List OTok) :
    (∃ r, expandObjT defs ts = .ok r) ∧ ∀ fuel, total defs ts ≤ fuel → expandObj defs fuel ts = expandObjT defs ts :=
  ⟨expandObjT_ok defs ts, fun fuel h => expandObj_eq_T defs ts fuel h⟩

/-- hence the hypothesis `hxp` of `C10_include_terminates` holds for the driver's expander, whatever table of
    object-like macros `tbl` extracts from the machine's macro table -/
example {β : Type} (tbl : Defs β → String → ODefs) :
    ∀ d f ts, (fun d f ts => expandObjT (tbl d f) ts : Xp β) d f ts ≠ .error .outOfFuel :=
  fun d f ts => expandObjT_ne_outOfFuel (tbl d f) ts

/-- a self-referential and a mutually recursive definition: `#define A A B` / `#define B A` – expansion of `A` stops
    with the hidden names left in place -/
example : (expandObjT [("A", [⟨.ident, "A", true, []⟩, ⟨.ident, "B", true, []⟩]), ("B", [⟨.ident, "A", true, []⟩])]
    [⟨.ident, "A", false, []⟩]).toOption.map (·.map (·.text)) = some ["A", "A"] := by decide +kernel

/-- non-vacuity: `#define H <d0/h.h>` / `#include H junk`: the driver's expander replaces `H`, the operand reads `d0/h.h`
    in angle form; `#include "a.h" junk` reads `a.h` in quoted form; `#include H` with H undefined is rejected -/
example :
    let lt : OTok := ⟨.other, "<", false, []⟩
    let gt : OTok := ⟨.other, ">", false, []⟩
    let body : List OTok := [lt, ⟨.ident, "d0", false, []⟩, ⟨.other, "/", false, []⟩, ⟨.ident, "h", false, []⟩,
      ⟨.other, ".", false, []⟩, ⟨.ident, "h", false, []⟩, gt]
    isLt lt = true ∧ isGt gt = true ∧
    readOperand (expandObj [("H", body)] 100) [⟨.ident, "H", true, []⟩, ⟨.ident, "junk", true, []⟩] = .ok ("d0/h.h", false) ∧
    readOperand (expandObj [] 100) [⟨.str, "a.h", true, []⟩, ⟨.ident, "junk", true, []⟩] = .ok ("a.h", true) ∧
    readOperand (expandObj [] 100) [⟨.ident, "H", true, []⟩] = .error .badDirective := by decide +kernel

/-- **C10 (search, every form of the directive).**  Whenever `preprocess2`'s loop is about to open a file for a
    line – `#include "name"`, `#include <name>`, `#include_next …`, or either with an operand produced by macro
    expansion that reads as `name` (C10_operand_forms) – that file is the one the documented order names for
    `name`: the directory of the including file first (quoted form only), then -I, system, -idirafter; for
    #include_next the chain after the directory of the current file. -/
theorem C10_search_directive (ev : ε → Defs β → Except Diag Bool) (xp : Xp β) (fs : XFS ε β) (c : Config) (g : Bool)
    (file : String) (l : XLine ε β) (m m' : Mode) (s s' : IState β) (path : String)
    (hc : CacheOK fs.has (includePaths c) s.cache)
    (h : preStep ev xp fs (includePaths c) g file l m s = .ok (some path, s', m')) :
    (∃ dq name, IsIncl xp file l false name dq ∧ path = (search fs.has c (dirname file) dq name).getD name) ∨
    (∃ dq name, IsIncl xp file l true name dq ∧
      path = (searchNext fs.has c (dirPrefixIdx (includePaths c) file) name).getD name) := by
  obtain ⟨_, _, hn⟩ := preStep_some ev xp fs (includePaths c) g file l m m' s s' path h
  rcases hn with ⟨dq, name, hi, hp⟩ | ⟨dq, name, hi, hp⟩
  · exact Or.inl ⟨dq, name, hi, by rw [hp]; exact resolveInclude_eq_search fs.has c s.cache file dq name hc⟩
  · exact Or.inr ⟨dq, name, hi, by rw [hp, resolveIncludeNext, searchIncludeNext_eq]⟩

/-- … and the filename cache stays sound along the way, so the hypothesis holds throughout a run -/
theorem C10_search_cache_invariant (ev : ε → Defs β → Except Diag Bool) (xp : Xp β) (fs : XFS ε β) (paths : List String) (g : Bool)
    (file : String) (l : XLine ε β) (m m' : Mode) (s s' : IState β) (o : Option String)
    (hc : CacheOK fs.has paths s.cache)
    (h : preStep ev xp fs paths g file l m s = .ok (o, s', m')) : CacheOK fs.has paths s'.cache := by
  rcases preStep_shape ev xp fs paths file l m s with ⟨r, hr⟩ | ⟨e, he⟩ | ⟨o', ho⟩ | ⟨hm, dq, name, hi, ht⟩ | ⟨hm, dq, name, hi, ht⟩
  · rw [hr g] at h
    cases r with
    | error e => simp at h
    | ok q => simp only [Except.ok.injEq, Prod.mk.injEq] at h; rw [← h.2.1]; exact hc
  · rw [he g] at h; simp at h
  · rw [ho g] at h; simp only [Except.ok.injEq, Prod.mk.injEq] at h; rw [← h.2.1]; exact hc
  · rw [ht g] at h; simp only [mkTarget, Except.ok.injEq, Prod.mk.injEq] at h; rw [← h.2.1]
    show CacheOK fs.has paths (resolveInclude fs.has paths s.cache file dq name).2
    unfold resolveInclude
    split
    · exact hc
    · exact (searchIncludePaths_cache fs.has paths s.cache name hc).2
  · rw [ht g] at h; simp only [mkTarget, Except.ok.injEq, Prod.mk.injEq] at h; rw [← h.2.1]; exact hc

/-- non-vacuity: `#include H` with `H` ↦ `"h.h"` in file d/a.c, h.h present beside it and in the -I directory:
    the file beside the includer is opened -/
example :
    (preStep (fun (b : Bool) (_ : Defs Unit) => .ok b) (fun _ _ ts => expandObj [("H", [⟨.str, "h.h", false, []⟩])] 10 ts)
      (XFS.ofTable [("d/h.h", []), ("I/h.h", [])]) (includePaths ⟨["I"], [], []⟩) true "d/a.c"
      (.inclMacro false [⟨.ident, "H", true, []⟩]) .proc ⟨⟨⟨[], []⟩, []⟩, [], [], []⟩).toOption.map (·.1)
      = some (some "d/h.h") := by decide +kernel

-- ================================================================== re-inclusion shortcuts

/-- **C10 (include guards).**  If `detect_include_guard` accepts a file (returns the guard macro
    `g`), then processing the file's lines in any state in which `g` is defined produces no tokens,
    leaves the macro table unchanged and leaves the conditional stack unchanged – whatever follows. -/
theorem C10_shortcuts (ev : ε → Defs β → Except Diag Bool) (file : List (Line ε β)) (g : String)
    (hg : detectGuard file = some g) (s : St β) (hdef : s.obs.defs.isDef g = true) (rest : List (Line ε β)) :
    run ev (file ++ rest) .proc s = run ev rest .proc s := by
  rw [run_append, run_guarded_file ev file g hg s hdef]

/-- non-vacuity: a guarded header with a nested conditional and a null directive -/
example : detectGuard ([.opens (.ifndef "G" false), .plain (.define "G" ()), .plain .other, .opens (.ifE true),
    .plain (.text ["a"]), .part (.els false), .endif true, .plain (.text ["b"]), .endif false] : List (Line Bool Unit))
    = some "G" := by decide

/-- almost-guarded shapes are rejected: text after the closing #endif, an #else of the guard, tokens
    after `#ifndef G`, tokens after the last `#endif` -/
example :
    detectGuard ([.opens (.ifndef "G" false), .plain (.define "G" ()), .endif false, .plain (.text ["y"]),
      .opens (.ifE true), .endif false] : List (Line Bool Unit)) = none ∧
    detectGuard ([.opens (.ifndef "G" false), .plain (.define "G" ()), .part (.els false), .endif false] : List (Line Bool Unit)) = none ∧
    detectGuard ([.opens (.ifndef "G" true), .plain (.define "G" ()), .endif false] : List (Line Bool Unit)) = none ∧
    detectGuard ([.opens (.ifndef "G" false), .plain (.define "G" ()), .endif true] : List (Line Bool Unit)) = none := by decide

/-- **C10 (include guards, in the include machine).**  A file accepted by `detect_include_guard`, opened
    (at any nesting depth, whatever stands in it – further #include lines too) while its guard macro
    is defined: the machine is back behind the file with no tokens emitted, no state changed and
    nothing opened. -/
theorem C10_shortcuts_file (ev : ε → Defs β → Except Diag Bool) (xp : Xp β) (fs : XFS ε β) (paths : List String) (b : Bool)
    (r : Nat) (path : String) (ls : List (XLine ε β)) (g : String)
    (hg : detectGuard (ls.map XLine.toLine) = some g) (s : IState β) (hdef : s.st.obs.defs.isDef g = true) :
    runAt ev xp fs paths b r path ls .proc s = .ok (s, .proc) := by
  rw [runAt_eq]; exact runLines_guarded_file ev xp fs paths b _ path ls g hg 1 s hdef

example : detectGuard (([.base (.c (.opens (.ifndef "G" false))), .base (.c (.plain (.define "G" ()))), .base (.incl true "x.h"),
    .inclMacro false [⟨.ident, "H", true, []⟩], .base .pragmaOnce, .base (.c (.endif false))] : List (XLine Bool Unit)).map XLine.toLine)
    = some "G" := by decide

/-- **C10 (`#pragma once`).**  `#pragma once` records the file it stands in; an #include that names a
    recorded file contributes nothing (no tokens, no state change beyond the filename cache, the
    file is not opened – at any nesting depth); records are never removed. -/
theorem C10_pragma_once (ev : ε → Defs β → Except Diag Bool) (xp : Xp β) (fs : XFS ε β) (paths : List String) (b : Bool)
    (file : String) (s : IState β) :
    preStep ev xp fs paths b file (.base .pragmaOnce) .proc s = .ok (none, { s with once := file :: s.once }, .proc) ∧
    (∀ (sub : Sub ε β) (dq : Bool) (name : String) (rest : List (XLine ε β)) (i : Nat),
      s.once.contains (resolveInclude fs.has paths s.cache file dq name).1 = true →
      runLines ev xp fs paths b sub file i (.base (.incl dq name) :: rest) .proc s =
        runLines ev xp fs paths b sub file (i + 1) rest .proc
          { s with cache := (resolveInclude fs.has paths s.cache file dq name).2 }) ∧
    (∀ path ls s', openFile fs path s = .ok (ls, s') → s'.once = s.once) := by
  refine ⟨rfl, ?_, fun path ls s' h => openFile_once fs path s s' ls h⟩
  intro sub dq name rest i h
  have hs : shortcutFires b (resolveInclude fs.has paths s.cache file dq name).1
      ({ s with cache := (resolveInclude fs.has paths s.cache file dq name).2 } : IState β) = true :=
    shortcutFires_once b _ _ h
  simp only [runLines, preStep, inclTarget, mkTarget, hs, if_true]

/-- non-vacuity: after `#pragma once` in g.h the name g.h is recorded -/
example : (preStep (fun (b : Bool) (_ : Defs Unit) => .ok b) (fun _ _ ts => .ok ts) (fun _ => none) [] true "g.h" (.base .pragmaOnce) .proc
    ⟨⟨⟨[], []⟩, []⟩, [], [], []⟩).toOption.map (·.2.1.once.contains "g.h") = some true := by decide

/-- **C10 (shortcuts = plain textual inclusion, every include graph).**  For every file system,
    search path, list of input files (-include files, main file), nesting limit and state whose
    `include_guards` table was filled by `detect_include_guard` (in particular the empty table a run
    starts with): whenever the machine *without* the include-guard shortcut (every #include opens
    and processes the file) finishes, the machine *with* the shortcut finishes in the same state:
    same emitted text, same macro table, same conditional stack.  (The converse fails only at the
    nesting limit: a guarded file named at depth 200 is skipped by the shortcut and refused by plain
    inclusion – Findings/C10.lean.) -/
theorem C10_shortcuts_graph (ev : ε → Defs β → Except Diag Bool) (xp : Xp β) (fs : XFS ε β) (paths : List String)
    (limit : Nat) (files : List (String × List (XLine ε β))) (m : Mode) (s : IState β) (r : IState β × Mode)
    (hok : GuardsOKX fs s.guards)
    (h : runTop ev xp fs paths false limit files m s = .ok r) :
    runTop ev xp fs paths true limit files m s = .ok r :=
  (runTop_guards_transparent ev xp fs paths limit files m s r hok h).1

example (fs : XFS ε β) : GuardsOKX fs [] := GuardsOKX_nil fs

-- ================================================================== include nesting

/-- **C10 (include processing terminates).**  For every file system – cyclic include graphs
    included –, every search path, every list of input files and every state:
    (1) the machine transcribed from the C code (one token stream, an #include splices the opened
        file in front of the rest; it runs on a step budget) needs only a finite budget, and with any
        budget above that bound it computes exactly the total, budget-free function `runTop`;
    (2) the outcome is a result or a diagnostic, never "out of budget";
    (3) the diagnostic "#include nested too deeply" at line `j` of file `f` is reported only if the
        include graph has a chain of `limit` nested includes: files p₀ (an input file), p₁, …,
        p_limit = f, each existing and named by an include directive of its predecessor, and `f` has
        a further include directive at line `j`. -/
theorem C10_include_terminates (ev : ε → Defs β → Except Diag Bool) (hev : ∀ c d, ev c d ≠ .error .outOfFuel)
    (xp : Xp β) (hxp : ∀ d f ts, xp d f ts ≠ .error .outOfFuel) (fs : XFS ε β) (paths : List String) (g : Bool) (limit : Nat) (files : List (String × List (XLine ε β)))
    (m : Mode) (s : IState β) :
    (∃ N, ∀ fuel, N ≤ fuel →
      runIncD ev xp fs paths g limit fuel (tagFiles files) m s = runTop ev xp fs paths g limit files m s) ∧
    runTop ev xp fs paths g limit files m s ≠ .error (.diag .outOfFuel) ∧
    (∀ f j, runTop ev xp fs paths g limit files m s = .error (.nestedTooDeeply f j) →
      ∃ x ∈ files, NestChain xp fs paths limit x.1 x.2 f j) :=
  ⟨runIncD_files ev xp fs paths g limit files m s, runTop_no_outOfFuel ev hev xp hxp fs paths g limit files m s,
   fun f j h => runTop_nested_chain ev xp fs paths g limit files m s f j h⟩

/-- the hypothesis on the evaluator holds for chibicc's and for the C11 evaluator of #if expressions -/
example : (∀ c d, evC c d ≠ .error .outOfFuel) ∧ (∀ c d, ev c d ≠ .error .outOfFuel) := by
  constructor <;> intro c d h <;> simp only [evC, ev, toDiag] at h <;> split at h <;> cases h

/-- **C10 (whole runs).**  `chibicc -E <options> main`, with the nesting limit of the code
    (`includeDepthLimit`, regenerated from include_file on every run; C11 5.2.4.1 asks for at least
    15 levels): the run on the spliced stream with a large enough budget is the total function
    `includeRun`; it ends with output or a diagnostic; "#include nested too deeply" only at the end
    of a chain of `includeDepthLimit` nested includes that starts in the main file or a -include file. -/
theorem C10_include_terminates_main (xp : Xp Body) (hxp : ∀ d f ts, xp d f ts ≠ .error .outOfFuel) (fs : XFS Expr Body) (sysDirs : List String) (builtin : Defs Body)
    (os : List (Opt Body)) (main : String) (g : Bool) :
    15 ≤ includeDepthLimit ∧
    (∃ N, ∀ fuel, N ≤ fuel →
      includeRunFuel evC xp fs sysDirs builtin os main g includeDepthLimit fuel
        = includeRun evC xp fs sysDirs builtin os main g includeDepthLimit) ∧
    includeRun evC xp fs sysDirs builtin os main g includeDepthLimit ≠ .error (.diag .outOfFuel) ∧
    (∀ f j, includeRun evC xp fs sysDirs builtin os main g includeDepthLimit = .error (.nestedTooDeeply f j) →
      ∃ p ls, fs.get p = some ls ∧
        NestChain xp fs (includePaths (optConfig sysDirs os)) includeDepthLimit p ls f j) := by
  refine ⟨by decide, includeRunFuel_eq evC xp fs sysDirs builtin os main g _, ?_, ?_⟩
  · refine includeRun_no_outOfFuel evC ?_ xp hxp fs sysDirs builtin os main g _
    intro c d h; simp only [evC, toDiag] at h; split at h <;> cases h
  · exact fun f j h => includeRun_nested_chain evC xp fs sysDirs builtin os main g _ f j h

/-- non-vacuity (limit 3 for the kernel's sake; the statement above is for every limit): a file that
    includes itself ends with the located diagnostic, a guarded cycle ends with output -/
example :
    includeRun (fun (b : Bool) (_ : Defs Unit) => .ok b) (fun _ _ ts => .ok ts)
      (XFS.ofTable [("m.c", [.base (.c (.plain (.text ["a"]))), .base (.incl true "m.c")]),
        ("./m.c", [.base (.c (.plain (.text ["a"]))), .base (.incl true "m.c")])])
      [] [] [] "m.c" true 3 = .error (.nestedTooDeeply "./m.c" 2) ∧
    includeRun (fun (b : Bool) (_ : Defs Unit) => .ok b) (fun _ _ ts => .ok ts)
      (XFS.ofTable [("m.c", [.base (.incl true "g.h"), .base (.c (.plain (.text ["m"])))]),
        ("./g.h", [.base (.c (.opens (.ifndef "G" false))), .base (.c (.plain (.define "G" ()))), .base (.c (.plain (.text ["g"]))),
          .base (.incl true "g.h"), .base (.c (.endif false))])])
      [] [] [] "m.c" true 3 = .ok ⟨[("G", ())], [["g"], ["m"]]⟩ := by decide +kernel

-- ================================================================== command line

/-- **C10 (command line).**  `-D` and `-U` are applied to the macro table in command-line order
    while the command line is scanned – exactly as if the corresponding `#define` / `#undef` lines
    stood, in that order, in front of everything else – and the translation unit handed to
    `preprocess` is the `-include` files in command-line order followed by the main file. -/
theorem C10_cmdline (ev : ε → Defs β → Except Diag Bool) (os : List (Opt β)) (d : Defs β) (out : List (List String))
    (st : List Frame) :
    run ev (duLines (ε := ε) os) .proc ⟨⟨d, out⟩, st⟩ = .ok (⟨⟨applyDU d os, out⟩, st⟩, .proc) :=
  run_duLines ev os d out st

/-- the `-include` part: with two `-include` options the stream is file 1, file 2, main file -/
example : cmdStream (FS.ofTable [("a.h", [.c (.plain (.text ["a"]))]), ("b.h", [.c (.plain (.text ["b"]))]),
      ("m.c", [.c (.plain (.text ["m"]))])] : FS Bool Unit) [] ["a.h", "b.h"] [] "m.c"
    = .ok ([("a.h", .c (.plain (.text ["a"]))), ("b.h", .c (.plain (.text ["b"]))), ("m.c", .c (.plain (.text ["m"])))], []) := by
  decide

/-- last write wins in command-line order: `-DX -UX` leaves X undefined, `-UX -DX` defined -/
example : (applyDU ([] : Defs Unit) [.D "X" (), .U "X"]).isDef "X" = false ∧
    (applyDU ([] : Defs Unit) [.U "X", .D "X" ()]).isDef "X" = true := by decide

end ChibiVerif.Props.C10
