/-
C17 — name tables behave as dictionaries under any history.

Property theorems only (helper lemmas live in Lemmas/HashMapLemmas.lean).
All theorems are for every hash function `h`, every key/value type with decidable
equality on keys, and every finite history.
-/
import ChibiVerif.Model.HashMap
import ChibiVerif.Lemmas.HashMapLemmas
import ChibiVerif.Lemmas.C17RehashLemmas

namespace ChibiVerif.Props.C17
open ChibiVerif.HashMap
open ChibiVerif.Gen.HashMap (INIT_SIZE HIGH_WATERMARK LOW_WATERMARK)
open ChibiVerif.Gen.HashMapShape (functionsDefined macrosDefined callGraph rehashSteps rehashGrowCond
  rehashGrowNext needRehash)

variable {α β : Type} [DecidableEq α]

/-- The value the most recent operation on `k` left: `some v` after `put k v`,
    `none` after `del k` or if `k` was never put.  This is the property's own
    wording ("defined exactly when its most recent operation was a definition, and it
    then has that definition's replacement list"). -/
def lastWrite (ops : List (Op α β)) (k : α) : Option β :=
  ops.foldl (fun acc op => match op with
    | .put k' v => if k' = k then some v else acc
    | .del k' => if k' = k then none else acc
    | .get _ => acc) none

/-- **C17 (refinement).**  From the zero-initialised map, no history of puts, deletes and
    lookups ever reaches an abort site (`unreachable()`, a failed `assert`, a rehash
    nested in a rehash); every lookup answers exactly like the abstract last-write-wins
    dictionary; and the final table denotes the final abstract dictionary. -/
theorem C17_refines (h : α → Nat) (ops : List (Op α β)) :
    ∃ s, run h HM.empty ops = .ok (s, (arun AMap.empty ops).2) ∧
      ∀ k, absGet s k = (arun AMap.empty ops).1.get k := by
  obtain ⟨s, hs, _, habs⟩ := run_refines h ops HM.empty AMap.empty (Inv_empty h)
    (fun k => by rw [absGet_of_length_zero rfl, AMap.get_empty])
  exact ⟨s, hs, habs⟩

/-- **C17 (no abort).**  Corollary of `C17_refines`. -/
theorem C17_never_aborts (h : α → Nat) (ops : List (Op α β)) :
    ∃ r, run h HM.empty ops = .ok r := by
  obtain ⟨s, hs, _⟩ := C17_refines h ops
  exact ⟨_, hs⟩

/-- **C17 (user-level wording).**  After any history, looking `k` up yields what the most
    recent operation on `k` left: the value of the last `put k`, or nothing if the last
    operation on `k` was a delete or `k` was never put. -/
theorem C17_last_write_wins (h : α → Nat) (ops : List (Op α β)) (k : α) :
    ∃ s outs, run h HM.empty (ops ++ [Op.get k]) = .ok (s, outs) ∧
      outs.getLast? = some (lastWrite ops k) := by
  obtain ⟨s, hs, _⟩ := C17_refines h (ops ++ [Op.get k])
  refine ⟨s, _, hs, ?_⟩
  rw [arun_append]
  simp only [arun, List.getLast?_concat]
  rw [arun_get_eq_foldl]
  rfl

/-- **C17 (lookup is right in every invariant-satisfying table).** -/
theorem C17_get_agrees_with_state (h : α → Nat) (m : HM α β) (k : α) :
    Inv h m → HM.get h m k = .ok (absGet m k) :=
  fun hinv => hinv.get_eq k

/-- The hypothesis `Inv` of `C17_get_agrees_with_state` is satisfiable on a non-trivial
    state: every key hashes to 5; key 9 was stored at slot 5 and later deleted (a
    tombstone), key 12 is displaced to slot 6 behind the tombstone, key 20 to slot 7;
    `used = 3` counts the tombstone. -/
example : Inv (fun _ : Nat => 5)
    (⟨[.empty, .empty, .empty, .empty, .empty, .tomb, .full 12 2, .full 20 7,
       .empty, .empty, .empty, .empty, .empty, .empty, .empty, .empty], 3⟩ : HM Nat Nat) := by
  decide

/-- … and the lookups in that state are the expected ones (through the theorem). -/
example : HM.get (fun _ : Nat => 5)
    (⟨[.empty, .empty, .empty, .empty, .empty, .tomb, .full 12 2, .full 20 7,
       .empty, .empty, .empty, .empty, .empty, .empty, .empty, .empty], 3⟩ : HM Nat Nat) 12
    = .ok (some 2) :=
  C17_get_agrees_with_state _ _ 12 (by decide)

/-! ### `rehash` as an obligation of its own

The refinement proof uses `rehash` through a lemma; the contract is stated here so that it is
visible as an obligation: whatever replaces `rehash` has to meet it for EVERY well-formed table —
in particular for tables whose probe clusters wrap around the end of the bucket array
(Findings/C17Rehash.lean: an in-place purge walking from bucket 0 does not). -/

/-- **C17 (rehash).**  For every hash function and every table satisfying the representation
    invariant `WF` (allocated; unique keys; no empty slot on the probe path of a stored key;
    `used` = occupied slots < capacity) `rehash` does not abort, and the table it leaves
    * satisfies the invariant again,
    * contains no tombstone,
    * denotes the same dictionary (`absGet` of every key unchanged),
    * has the specified capacity: the old one doubled `e` times, where `e` is the least number of
      doublings that brings `live * 100 / capacity` below `LOW_WATERMARK` (`IsRehashCap`; `e = 0`
      when the rehash only drops tombstones),
    * has `used` = number of live names, and room for the insertion that follows. -/
theorem C17_rehash_spec (h : α → Nat) (m : HM α β) (w : WF h m) :
    ∃ m2, HM.rehash h m = .ok m2 ∧ WF h m2 ∧ NoTomb m2 ∧ (∀ k, absGet m2 k = absGet m k) ∧
      IsRehashCap (HM.liveEntries m.buckets).length m.capacity m2.capacity ∧
      m2.used = (HM.liveEntries m.buckets).length ∧ m2.used + 1 < m2.capacity :=
  w.rehash_full

/-- non-vacuity of `C17_rehash_spec`, on the shape that matters: a 16-bucket table (name `n`
    hashes to bucket `n mod 16`) whose only cluster wraps around the end of the array — bucket 14 a
    tombstone, bucket 15 name 30 (home 14), bucket 0 name 15 (home 15) — plus nine more tombstones,
    i.e. `used = 12` (75 % ≥ HIGH_WATERMARK) with 2 live names: the state in which
    `hashmap_put2` calls `rehash` and the capacity stays 16. -/
example : WF (fun k : Nat => k)
    (⟨[.full 15 3, .tomb, .tomb, .tomb, .tomb, .tomb, .tomb, .tomb, .tomb, .tomb,
       .empty, .empty, .empty, .empty, .tomb, .full 30 2], 12⟩ : HM Nat Nat) := by
  decide

/-- … and `rehash` of that state, evaluated: capacity 16 again, no tombstone, both names at home
    (30 in bucket 14, 15 in bucket 15), `used = 2`. -/
example : (HM.rehash (fun k : Nat => k)
    (⟨[.full 15 3, .tomb, .tomb, .tomb, .tomb, .tomb, .tomb, .tomb, .tomb, .tomb,
       .empty, .empty, .empty, .empty, .tomb, .full 30 2], 12⟩ : HM Nat Nat)).toOption =
    some ⟨[.empty, .empty, .empty, .empty, .empty, .empty, .empty, .empty, .empty, .empty,
           .empty, .empty, .empty, .empty, .full 30 2, .full 15 3], 2⟩ := by
  decide

/-- **C17 (the new capacity is determined by the specification).**  `IsRehashCap` is not a
    restatement of the loop: it has no fuel and no recursion, and it admits exactly one value. -/
theorem C17_rehash_cap_determined (nkeys cap a b : Nat)
    (ha : IsRehashCap nkeys cap a) (hb : IsRehashCap nkeys cap b) : a = b :=
  ha.unique hb

/-- non-vacuity of `C17_rehash_cap_determined`: 23 live names in 32 buckets (71 %) need one
    doubling: 64 buckets (35 %) -/
example : IsRehashCap 23 32 64 := ⟨1, by decide, by decide, fun e' he' => by
  have : e' = 0 := by omega
  subst this; decide⟩

/-- **C17 (when `rehash` keeps the capacity).**  The table `rehash` returns has the old capacity
    exactly when the live names load the old table below `LOW_WATERMARK` — the case in which the
    rehash is there only to drop tombstones (define/undefine churn without net growth). -/
theorem C17_rehash_keeps_capacity_iff (h : α → Nat) (m m2 : HM α β) (w : WF h m)
    (e : HM.rehash h m = .ok m2) :
    m2.capacity = m.capacity ↔
      (HM.liveEntries m.buckets).length * 100 / m.capacity < LOW_WATERMARK := by
  obtain ⟨m2', e', _, _, _, hcap, _⟩ := C17_rehash_spec h m w
  rw [e] at e'
  injection e' with e'
  subst e'
  exact hcap.same_iff

/-- non-vacuity of `C17_rehash_keeps_capacity_iff` (hypothesis `e`): the state above -/
example : ∃ m2, HM.rehash (fun k : Nat => k)
    (⟨[.full 15 3, .tomb, .tomb, .tomb, .tomb, .tomb, .tomb, .tomb, .tomb, .tomb,
       .empty, .empty, .empty, .empty, .tomb, .full 30 2], 12⟩ : HM Nat Nat) = .ok m2 :=
  ⟨⟨[.empty, .empty, .empty, .empty, .empty, .empty, .empty, .empty, .empty, .empty,
     .empty, .empty, .empty, .empty, .full 30 2, .full 15 3], 2⟩, eq_ok_of_toOption (by decide)⟩

/-- **C17 (the model's load arithmetic is the code's).**  The translator reads the `while` of
    `rehash()` and the load test of `get_or_insert_entry()` from the source on every run
    (`Gen/HashMapShapeGen.lean`); one round of the model's capacity loop is that test and that
    step, and the model's test before an insertion is that test.  A changed operator, factor,
    scale or watermark in the C text changes the generated definitions and breaks this theorem. -/
theorem C17_load_arithmetic_translated :
    (∀ nkeys f cap, HM.growCap nkeys (f + 1) cap =
        if rehashGrowCond nkeys cap = true then HM.growCap nkeys f (rehashGrowNext cap) else cap) ∧
    (∀ used cap, needRehash used cap = decide (used * 100 / cap ≥ HIGH_WATERMARK)) ∧
    (∀ (h : α → Nat) (m : HM α β) (k : α) (v : β), m.buckets.isEmpty = false →
        HM.put h m k v = (do
          let m ← if needRehash m.used m.capacity = true then HM.rehash h m else pure m
          let p ← HM.insLoop m.buckets (h k) k m.buckets.length 0 none
          pure (HM.applyIns m k v p))) := by
  refine ⟨growCap_succ_eq_translated, needRehash_eq_model, ?_⟩
  intro h m k v hne
  simp only [HM.put, hne, needRehash_eq_model, HM.capacity, decide_eq_true_eq]
  rfl

/-- **C17 (inventory of hashmap.c).**  The functions and macros hashmap.c defines, the calls among
    them and the statement sequence of `rehash()` — regenerated from the source on every run — are
    exactly the ones the model covers: `rehash` counts the live names, computes the capacity,
    allocates a FRESH table, re-inserts every live entry through `hashmap_put2` in bucket order,
    asserts and overwrites the map; `rehash` calls nothing but `hashmap_put2` and is called only
    from `get_or_insert_entry`.  (The translator itself refuses any other file-scope text, any
    other signature and any other body of `rehash`, `get_entry`, `get_or_insert_entry`, `match`
    and the six wrappers.) -/
theorem C17_hashmap_inventory :
    functionsDefined = ["fnv_hash", "rehash", "match", "get_entry", "get_or_insert_entry",
      "hashmap_get", "hashmap_get2", "hashmap_put", "hashmap_put2", "hashmap_delete",
      "hashmap_delete2", "hashmap_test"] ∧
    macrosDefined = ["INIT_SIZE", "HIGH_WATERMARK", "LOW_WATERMARK", "TOMBSTONE"] ∧
    callGraph = [("fnv_hash", []), ("rehash", ["hashmap_put2"]), ("match", []),
      ("get_entry", ["fnv_hash", "match"]), ("get_or_insert_entry", ["fnv_hash", "rehash", "match"]),
      ("hashmap_get", ["hashmap_get2"]), ("hashmap_get2", ["get_entry"]),
      ("hashmap_put", ["hashmap_put2"]), ("hashmap_put2", ["get_or_insert_entry"]),
      ("hashmap_delete", ["hashmap_delete2"]), ("hashmap_delete2", ["get_entry"])] ∧
    rehashSteps = [.countLive, .growWhile, .assertCapPositive, .freshTable, .reinsertInBucketOrder,
      .assertUsedEqLive, .overwriteMap] := by
  decide

end ChibiVerif.Props.C17
