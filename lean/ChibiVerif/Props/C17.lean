/-
C17 — name tables behave as dictionaries under any history.

Property theorems only (helper lemmas live in Lemmas/HashMapLemmas.lean).
All theorems are for every hash function `h`, every key/value type with decidable
equality on keys, and every finite history.
-/
import ChibiVerif.Model.HashMap
import ChibiVerif.Lemmas.HashMapLemmas

namespace ChibiVerif.Props.C17
open ChibiVerif.HashMap

variable {α β : Type} [DecidableEq α]

/-- The value the most recent operation on `k` left: `some v` after `put k v`,
    `none` after `del k` or if `k` was never put.  This is the property's own
    wording ("defined exactly when its most recent operation was a definition, and it
    then has that definition's replacement list"). -/
def lastWrite (ops : List (Op α β)) (k : α) : Option β :=
  ops.foldl (fun acc op => match op with
    | .put k' v => if k' = k then some v else acc
    | .del k' => if k' = k then none else acc
    | .get _ => acc) none

/-- **C17 (refinement).**  From the zero-initialised map, no history of puts, deletes and
    lookups ever reaches an abort site (`unreachable()`, a failed `assert`, a rehash
    nested in a rehash); every lookup answers exactly like the abstract last-write-wins
    dictionary; and the final table denotes the final abstract dictionary. -/
theorem C17_refines (h : α → Nat) (ops : List (Op α β)) :
    ∃ s, run h HM.empty ops = .ok (s, (arun AMap.empty ops).2) ∧
      ∀ k, absGet s k = (arun AMap.empty ops).1.get k := by
  obtain ⟨s, hs, _, habs⟩ := run_refines h ops HM.empty AMap.empty (Inv_empty h)
    (fun k => by rw [absGet_of_length_zero rfl, AMap.get_empty])
  exact ⟨s, hs, habs⟩

/-- **C17 (no abort).**  Corollary of `C17_refines`. -/
theorem C17_never_aborts (h : α → Nat) (ops : List (Op α β)) :
    ∃ r, run h HM.empty ops = .ok r := by
  obtain ⟨s, hs, _⟩ := C17_refines h ops
  exact ⟨_, hs⟩

/-- **C17 (user-level wording).**  After any history, looking `k` up yields what the most
    recent operation on `k` left: the value of the last `put k`, or nothing if the last
    operation on `k` was a delete or `k` was never put. -/
theorem C17_last_write_wins (h : α → Nat) (ops : List (Op α β)) (k : α) :
    ∃ s outs, run h HM.empty (ops ++ [Op.get k]) = .ok (s, outs) ∧
      outs.getLast? = some (lastWrite ops k) := by
  obtain ⟨s, hs, _⟩ := C17_refines h (ops ++ [Op.get k])
  refine ⟨s, _, hs, ?_⟩
  rw [arun_append]
  simp only [arun, List.getLast?_concat]
  rw [arun_get_eq_foldl]
  rfl

/-- **C17 (lookup is right in every invariant-satisfying table).** -/
theorem C17_get_agrees_with_state (h : α → Nat) (m : HM α β) (k : α) :
    Inv h m → HM.get h m k = .ok (absGet m k) :=
  fun hinv => hinv.get_eq k

/-- The hypothesis `Inv` of `C17_get_agrees_with_state` is satisfiable on a non-trivial
    state: every key hashes to 5; key 9 was stored at slot 5 and later deleted (a
    tombstone), key 12 is displaced to slot 6 behind the tombstone, key 20 to slot 7;
    `used = 3` counts the tombstone. -/
example : Inv (fun _ : Nat => 5)
    (⟨[.empty, .empty, .empty, .empty, .empty, .tomb, .full 12 2, .full 20 7,
       .empty, .empty, .empty, .empty, .empty, .empty, .empty, .empty], 3⟩ : HM Nat Nat) := by
  decide

/-- … and the lookups in that state are the expected ones (through the theorem). -/
example : HM.get (fun _ : Nat => 5)
    (⟨[.empty, .empty, .empty, .empty, .empty, .tomb, .full 12 2, .full 20 7,
       .empty, .empty, .empty, .empty, .empty, .empty, .empty, .empty], 3⟩ : HM Nat Nat) 12
    = .ok (some 2) :=
  C17_get_agrees_with_state _ _ 12 (by decide)

end ChibiVerif.Props.C17
