/-
C17 — name tables behave as dictionaries under any history.

Property theorems only (helper lemmas live in Lemmas/HashMapLemmas.lean).
All theorems are for every hash function `h`, every key/value type with decidable
equality on keys, and every finite history.
-/
import ChibiVerif.Model.HashMap
import ChibiVerif.Lemmas.HashMapLemmas

namespace ChibiVerif.Props.C17
open ChibiVerif.HashMap

variable {α β : Type} [DecidableEq α]

/-- The value the most recent operation on `k` left: `some v` after `put k v`,
    `none` after `del k` or if `k` was never put.  This is the property's own
    wording ("defined exactly when its most recent operation was a definition, and it
    then has that definition's replacement list"). -/
def lastWrite (ops : List (Op α β)) (k : α) : Option β :=
  ops.foldl (fun acc op => match op with
    | .put k' v => if k' = k then some v else acc
    | .del k' => if k' = k then none else acc
    | .get _ => acc) none

end ChibiVerif.Props.C17
