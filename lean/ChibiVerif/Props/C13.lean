/-
C13 — every input is answered with output or a located diagnostic.

Property theorems only.  This file is about the component C13 owns, the byte-level scanner model
`Model/LexTotal.lean` (read_file … tokenize, arbitrary bytes, positions as offsets, line numbers,
explicit `overread` outcomes); lemmas are in Lemmas/LexTotalLemmas.lean.  The corollaries for the
component models of the sibling properties are in Props/C13Components.lean.

`lexFile bytes` is total by construction (structural recursion or fuel); the theorems say that the
fuel is never exhausted, that no outcome leaves the text of a NUL-free file, and that every
diagnostic carries a line of that file.  The model follows the tokenizer as repaired in /repo (fixes
ee6fc96, 5bc1be4); Findings/C13.lean records what the same theorems showed before the repair.
-/
import ChibiVerif.Lemmas.LexTotalLemmas

namespace ChibiVerif.Props.C13
open ChibiVerif.LexTotal

/-- **Scanner totality (C13_lex_total).**  For EVERY byte sequence the scanner answers: tokens, or a diagnostic whose line
    number lies in `1 … lastLine bytes` (the line of the EOF position of the text), or — only when the file contains a NUL
    byte — an explicit step over the terminating NUL.  It never exhausts its loop bound (no hang). -/
theorem C13_lex_total (bytes : List Nat) :
    match lexFile bytes with
    | .ok _ => True
    | .diag l _ => 1 ≤ l ∧ l ≤ lastLine bytes
    | .overread _ => 0 ∈ bytes
    | .fuel => False := by
  unfold lexFile lastLine
  cases hp : phases bytes with
  | error w =>
    simp only
    apply Classical.byContradiction
    intro h0
    obtain ⟨t, ht, _⟩ := phases_ends bytes h0
    rw [hp] at ht; cases ht
  | ok t =>
    simp only
    cases hs : scan t with
    | ok n => trivial
    | diag l m =>
      have := loop_diag_bound _ _ _ _ _ _ hs
      simp only; omega
    | overread w => exact absurd hs (loop_no_overread _ _ _ _ w)
    | fuel => exact loop_no_fuel _ _ _ _ (Nat.lt_succ_self _) hs

/-- non-vacuity: one instance of each outcome (kernel-evaluated) -/
example : lexFile [105, 110, 116, 32, 120, 59] = .ok 3 := by decide                       -- `int x;`
example : lexFile [105, 59, 10, 34, 97] = .diag 2 .unclosedString := by decide             -- `i;` newline `"a`
example : lexFile [97, 92, 0, 120] = .overread .universalBackslash := by decide             -- `a\` NUL `x`

/-- **No hang (C13_no_hang, scanner part).**  `length + 1` iterations always suffice: every iteration of `while (*p)`
    consumes at least one byte.  (The passes before it are structurally recursive except convert_universal_chars, whose
    fuel `length + 1` is sufficient by the same argument and whose exhaustion would return the text unchanged, not `fuel`.) -/
theorem C13_lex_no_hang (bytes : List Nat) : lexFile bytes ≠ .fuel := by
  have := C13_lex_total bytes
  intro h; rw [h] at this; exact this

/-- **No read beyond the terminating NUL for files without NUL bytes.** -/
theorem C13_lex_no_overread (bytes : List Nat) (h : 0 ∉ bytes) (w : Why) : lexFile bytes ≠ .overread w := by
  have := C13_lex_total bytes
  intro e; rw [e] at this; exact h this

example : (0 : Nat) ∉ [34, 92] := by decide                                                -- `"\` then EOF: no over-read,
example : lexFile [34, 92] = .diag 1 .unclosedString := by decide                          -- a located diagnostic

/-- **Located diagnostics.**  A diagnostic of the scanner names a line between 1 and the last line of the text. -/
theorem C13_lex_located (bytes : List Nat) (l : Nat) (m : Msg) (h : lexFile bytes = .diag l m) :
    1 ≤ l ∧ l ≤ lastLine bytes := by
  have := C13_lex_total bytes
  rw [h] at this; exact this

example : lexFile [10, 10, 39] = .diag 4 .unclosedChar ∧ lastLine [10, 10, 39] = 4 := by decide

/-- **The line exists in the input.**  For a file without NUL bytes every diagnostic line lies between 1 and the number of
    line terminators of the file (CR LF, lone CR, LF; read_file's completing newline counted) plus one — the line of the
    EOF position, where "unclosed char literal" can be reported. -/
theorem C13_lex_line_in_file (bytes : List Nat) (h0 : 0 ∉ bytes) (l : Nat) (m : Msg) (h : lexFile bytes = .diag l m) :
    1 ≤ l ∧ l ≤ terminators (readFile bytes) + 1 := by
  have := C13_lex_located bytes l m h
  rw [lastLine_eq bytes h0] at this; exact this

example : lexFile [97, 13, 10, 98, 92, 10, 99, 13, 39] = .diag 5 .unclosedChar ∧
    terminators (readFile [97, 13, 10, 98, 92, 10, 99, 13, 39]) = 4 := by decide

/-- **Temporary buffers.**  `tokenize()` is also run on buffers the preprocessor builds (`paste`, `stringize`,
    `new_num_token`, `define_macro`), which need not end in a newline.  On ANY text the scanner never exhausts its bound,
    never leaves the text, and a diagnostic line lies between 1 and the number of newlines + 1. -/
theorem C13_scan_total (text : List Nat) :
    match scan text with
    | .ok _ => True
    | .diag l _ => 1 ≤ l ∧ l ≤ countLF text + 1
    | .overread _ => False
    | .fuel => False := by
  cases hs : scan text with
  | ok n => trivial
  | diag l m =>
    have := loop_diag_bound _ _ _ _ _ _ hs
    simp only; omega
  | overread w => exact absurd hs (loop_no_overread _ _ _ _ w)
  | fuel => exact loop_no_fuel _ _ _ _ (Nat.lt_succ_self _) hs

example : scan [47, 47] = .ok 0 ∧ scan [34, 92] = .diag 1 .unclosedString := by decide     -- paste of `/` `/`; `"\` at the end

/-- **The passes keep the file's shape.**  For a file without NUL bytes the text handed to `tokenize()` exists (no step over
    the terminator in convert_universal_chars) and ends in a newline. -/
theorem C13_phases_total (bytes : List Nat) (h : 0 ∉ bytes) : ∃ t, phases bytes = .ok t ∧ EndsLF t :=
  phases_ends bytes h

example : phases [92, 10, 97, 13] = .ok [97, 10, 10] := rfl                          -- `\`newline `a` CR

/-- **Line numbers are those of the raw file** up to the last pass: for a file without NUL bytes the text after BOM removal,
    canonicalize_newline and remove_backslash_newline has exactly as many newlines as the file (as read_file completes it)
    has line terminators (CR LF, lone CR, LF) — splices are re-inserted, so `error_at`'s count is the physical line —
    and convert_universal_chars adds none (UTF-8 never encodes a code point other than 10 with a byte 10, and `\u000a` is
    left alone since fix 5bc1be4). -/
theorem C13_text_lines (bytes : List Nat) (h : 0 ∉ bytes) :
    lastLine bytes = terminators (readFile bytes) + 1 :=
  lastLine_eq bytes h

example : terminators (readFile [97, 13, 10, 98, 92, 10, 99, 13, 100]) = 4 := by decide   -- a CRLF b \LF c CR d (+LF)

end ChibiVerif.Props.C13
