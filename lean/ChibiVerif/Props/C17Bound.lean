/-
C17 — resource bound of the name tables ("table maintenance never aborts the compiler",
quantitative half).

hashmap.c grows a table only inside `rehash`, and `rehash` counts the *live* keys: the
tombstones `#undef` leaves behind are dropped, so a history that defines and undefines
names over and over does not grow the table.  The bound is in terms of the abstract
dictionary: `peak ops` = the largest number of names it holds at the beginning of any
operation.  The dual failure (tombstones not counted towards the load: the table fills
with them and the probe loops run into `unreachable()`) is in Findings/C17.lean
(`C17_live_only_accounting_aborts`, the seeded change C17c / C13b).

Property theorems only; lemmas in Lemmas/C17BoundLemmas.lean.
-/
import ChibiVerif.Lemmas.C17BoundLemmas

namespace ChibiVerif.Props.C17
open ChibiVerif.HashMap
open ChibiVerif.Gen.HashMap (INIT_SIZE)

variable {α β : Type} [DecidableEq α]

/-- **C17 (capacity bound).**  For every hash function and every history from the
    zero-initialised table: the run does not abort, and the final capacity is at most
    `max INIT_SIZE (4 * peak)`, where `peak` is the largest number of names the dictionary
    held at the beginning of any operation (or at the end).  Deleted names do not count. -/
theorem C17_capacity_bound (h : α → Nat) (ops : List (Op α β)) :
    ∃ s outs, run h HM.empty ops = .ok (s, outs) ∧
      s.capacity ≤ max INIT_SIZE (4 * peak (AMap.empty : AMap α β) ops) := by
  obtain ⟨s, outs, hrun, _, _, hcap⟩ := run_cap_bound h ops HM.empty AMap.empty (Inv_empty h)
    (fun k => by rw [absGet_of_length_zero rfl, AMap.get_empty]) List.Pairwise.nil (Or.inl rfl)
  refine ⟨s, outs, hrun, ?_⟩
  have h0 : (HM.empty : HM α β).buckets.length = 0 := rfl
  rw [h0] at hcap
  unfold HM.capacity
  omega

/-- **C17 (no growth from churn).**  If the dictionary never holds more than `n` names, the
    table never has more than `max INIT_SIZE (4 n)` buckets — however many define/undefine
    cycles the history contains. -/
theorem C17_churn_bounded (h : α → Nat) (ops : List (Op α β)) (n : Nat)
    (hn : peak (AMap.empty : AMap α β) ops ≤ n) :
    ∃ s outs, run h HM.empty ops = .ok (s, outs) ∧ s.capacity ≤ max INIT_SIZE (4 * n) := by
  obtain ⟨s, outs, hrun, hcap⟩ := C17_capacity_bound h ops
  exact ⟨s, outs, hrun, by omega⟩

/-- non-vacuity of `C17_churn_bounded`: define/undefine cycles over five distinct names, never
    more than one name defined at a time -/
example : peak (AMap.empty : AMap Nat Nat)
    [.put 1 1, .del 1, .put 2 2, .del 2, .put 3 3, .del 3, .put 4 4, .del 4, .put 5 5, .del 5,
     .put 1 6, .get 1, .del 1] ≤ 1 := by decide

/-- **C17 (capacity bound, counted in insertions).**  After a history with `n` put operations
    the capacity is at most `max INIT_SIZE (4 n)`. -/
theorem C17_capacity_bound_puts (h : α → Nat) (ops : List (Op α β)) :
    ∃ s outs, run h HM.empty ops = .ok (s, outs) ∧ s.capacity ≤ max INIT_SIZE (4 * nputs ops) := by
  apply C17_churn_bounded
  have := peak_le_nputs ops (AMap.empty : AMap α β)
  simpa [AMap.empty] using this

/-- **C17 (capacity shape).**  Every reachable capacity is 0 (never used) or
    `INIT_SIZE * 2^e`: with `INIT_SIZE = 16` a power of two, which is what makes the C index
    expression `(hash + i) % capacity` (computed modulo 2^64) equal to the model's (see
    `C17_index_agrees` in Props/C17Hash.lean). -/
theorem C17_capacity_shape (h : α → Nat) (ops : List (Op α β)) :
    ∃ s outs, run h HM.empty ops = .ok (s, outs) ∧
      (s.capacity = 0 ∨ ∃ e, s.capacity = INIT_SIZE * 2 ^ e) := by
  obtain ⟨s, outs, hrun, _, hshape, _⟩ := run_cap_bound h ops HM.empty AMap.empty (Inv_empty h)
    (fun k => by rw [absGet_of_length_zero rfl, AMap.get_empty]) List.Pairwise.nil (Or.inl rfl)
  exact ⟨s, outs, hrun, hshape⟩

/-- **C17 (the C `int` arithmetic does not overflow).**  `used * 100` and `nkeys * 100` are
    computed in `int`; with fewer than 2^31 / 400 ≈ 5.3 million names alive at any time
    `capacity * 100 < 2^31` in every reachable state, hence `used * 100 < 2^31` as well
    (`used < capacity`).  This discharges the side condition (I4) of the model (Nat for int). -/
theorem C17_no_int_overflow (h : α → Nat) (ops : List (Op α β))
    (hn : peak (AMap.empty : AMap α β) ops < 5368709) :
    ∃ s outs, run h HM.empty ops = .ok (s, outs) ∧ s.capacity * 100 < 2 ^ 31 ∧
      s.used * 100 < 2 ^ 31 := by
  obtain ⟨s, outs, hrun, hinv, _, hcap⟩ := run_cap_bound h ops HM.empty AMap.empty (Inv_empty h)
    (fun k => by rw [absGet_of_length_zero rfl, AMap.get_empty]) List.Pairwise.nil (Or.inl rfl)
  refine ⟨s, outs, hrun, ?_⟩
  have h0 : (HM.empty : HM α β).buckets.length = 0 := rfl
  rw [h0] at hcap
  have hI : INIT_SIZE = 16 := rfl
  have hc : s.capacity * 100 < 2 ^ 31 := by unfold HM.capacity; omega
  refine ⟨hc, ?_⟩
  rcases hinv with ⟨_, hu⟩ | w
  · rw [hu]; omega
  · have := w.used_lt
    unfold HM.capacity at hc
    omega

/-- non-vacuity of `C17_no_int_overflow` -/
example : peak (AMap.empty : AMap Nat Nat) [Op.put 1 1, Op.put 2 2, Op.del 1, Op.get 2] < 5368709 := by
  decide

/-! ### Cost of one probe loop -/

/-- number of buckets `get_entry` inspects (same recursion as `HM.getLoop`) -/
def getProbes (b : List (Slot α β)) (hk : Nat) (k : α) : Nat → Nat → Nat
  | 0, _ => 0
  | n + 1, i =>
    match HM.slotAt b ((hk + i) % b.length) with
    | .full k' _ => if k' = k then 1 else 1 + getProbes b hk k n (i + 1)
    | .tomb => 1 + getProbes b hk k n (i + 1)
    | .empty => 1

/-- number of buckets `get_or_insert_entry` inspects (same recursion as `HM.insLoop`) -/
def insProbes (b : List (Slot α β)) (hk : Nat) (k : α) : Nat → Nat → Nat
  | 0, _ => 0
  | n + 1, i =>
    match HM.slotAt b ((hk + i) % b.length) with
    | .full k' _ => if k' = k then 1 else 1 + insProbes b hk k n (i + 1)
    | .tomb => 1 + insProbes b hk k n (i + 1)
    | .empty => 1

/-- **C17 (cost).**  A lookup, a deletion and the probe loop of an insertion inspect at most
    `capacity` buckets (the loops are `for (i = 0; i < map->capacity; i++)`), and by
    `C17_capacity_bound` the capacity is at most `max INIT_SIZE (4 * peak)`: the cost of a table
    operation is linear in the number of names alive, never in the length of the history. -/
theorem C17_probe_bound (b : List (Slot α β)) (hk : Nat) (k : α) (n i : Nat) :
    getProbes b hk k n i ≤ n ∧ insProbes b hk k n i ≤ n := by
  induction n generalizing i with
  | zero => simp [getProbes, insProbes]
  | succ n ih =>
    have := ih (i + 1)
    constructor
    · rw [getProbes]; split
      · split <;> omega
      · omega
      · omega
    · rw [insProbes]; split
      · split <;> omega
      · omega
      · omega

end ChibiVerif.Props.C17
