/-
C02 — floating-point arithmetic and conversions are bit-exact.

Property theorems only (definitions and helper lemmas live in Spec/FpuSpec, Spec/FpC11Spec, Model/FpMachine,
Model/FpCodegen and Lemmas/Fp*.lean).

What is proved, and relative to what.  The *results* of SSE/x87 instructions are not formalised; they are the fields of an
abstract `F : FpuSpec` whose `Prop` fields are the Intel-SDM contracts (Spec/FpuSpec.lean).  Every theorem below is for
every such `F`, every machine state and every operand value.  What is logic — which instruction is selected, in which
operand order, through which register / stack slot of which width and signedness, which `setcc`/`jcc` combination reads
the flags, which bit the sign mask flips, which immediates a constant is built from — is proved completely, over the
cast table and `get_common_type` as *regenerated from /repo* (Gen/CastTableGen, Gen/CommonTypeGen) and the hand model
Model/FpCodegen (tied to `chibicc -S` by text on every run).  `FpuSpec` is satisfiable (Lemmas/FpToy.lean); the host
CPU is validated against the same contracts on every run (checklib/C02.py).

Open (kept as `_Statement`, with kernel-checked witnesses in Findings/C02.lean):
  * `C02_select_Statement`: fails for unsigned long → float at ≥ 2^63 (signed `cvtsi2ssq`) and for floating → unsigned
    long with integral part ≥ 2^63 (signed truncation); proved outside these regions (`C02_select_partial`), the two
    branchy cells unsigned long → double / long double at ≥ 2^63 separately (`C02_u64f64`, `C02_u64f80_machine`).
  * floating constants: `C02_const_*` show the immediates are the datum of `(T)fval` where `fval` is the long double
    `strtold` returned; that this is the *correctly rounded* value of the spelling fails (double rounding).
-/
import ChibiVerif.Lemmas.FpOpLemmas
import ChibiVerif.Lemmas.FpToy
import ChibiVerif.Lemmas.FpRoundLemmas

namespace ChibiVerif.Props.C02
open ChibiVerif.Fp ChibiVerif.Asm ChibiVerif.X86 ChibiVerif.Spec.Fpu ChibiVerif.FpCodegen ChibiVerif.Spec.FpC11
open ChibiVerif.Spec.IntSpec ChibiVerif.Gen.CommonType ChibiVerif.Gen.CastTable

/-! ## usual arithmetic conversions -/

set_option maxRecDepth 4096 in
/-- **C02 (rank).**  For all 12×12 pairs of arithmetic types, `get_common_type` (as regenerated from type.c) yields the
    common real type of C11 6.3.1.8: long double if either operand is, else double, else float, else the integer rules. -/
theorem C02_rank : ∀ a ∈ ATy.all, ∀ b ∈ ATy.all,
    FpCodegen.commonType (descr a) (descr b) = some (descr (usualArith a b)) := by decide

/-- the operand of unary minus is promoted (`get_common_type(ty_int, ty)`): floating types are unchanged -/
theorem C02_rank_unary : ∀ a ∈ ATy.all, FpCodegen.commonType ty_int (descr a) = some (descr (promote a)) := by decide

/-! ## comparison flags -/

/-- **C02 (flags: SSE and x87 comparison paths).**  Let `r` be the relation of the source operands `a ? b`.  After
    parse.c's exchange of the operands of `>`/`>=` and the compare instruction (`ucomis* %xmm0, %xmm1` with the node's lhs in
    %xmm0; `fcomip` with the node's rhs in %st(0)) the flags are those of the node's rhs ? lhs.  Then the `setcc` lines
    the operator selects, followed by `and $1, %al; movzb %al, %rax` (SSE) or `movzb %al, %rax` (x87), leave in %rax the
    value C11 / IEC 60559 give `a OP b`: 1 or 0, every comparison with a NaN (`r = un`) false except `!=`. -/
theorem C02_flags (F : FpuSpec) (op : SrcOp) (c : CmpOp) (hc : SrcOp.cmpOp op = some c) (r : Rel) (s : FState) :
    (∃ s', Fp.run F (instrsOf (setccLines op.node.1 ++
                [ins2 "and" (.i 1) (.r "%al"), ins2 "movzb" (.r "%al") (.r "%rax")]))
            (s.setRel (if op.node.2 then r else r.swap)) = some s' ∧ s'.x.get .rax = b2bv (c.holds r)) ∧
    (∃ s', Fp.run F (instrsOf (setccLines op.node.1 ++ [ins2 "movzb" (.r "%al") (.r "%rax")]))
            (s.setRel (if op.node.2 then r else r.swap)) = some s' ∧ s'.x.get .rax = b2bv (c.holds r)) := by
  have hcmp : op.node.1.isCmp = true := by cases op <;> simp [SrcOp.cmpOp] at hc <;> rfl
  have hval : op.node.1.cmpOp.holds (if op.node.2 then r else r.swap).swap = c.holds r := by
    cases op <;> simp [SrcOp.cmpOp] at hc <;> subst hc <;> cases r <;> rfl
  constructor
  · obtain ⟨s', h1, h2⟩ := sse_tail F op.node.1 hcmp (if op.node.2 then r else r.swap) s
    exact ⟨s', h1, by rw [h2, hval]⟩
  · obtain ⟨s', h1, h2⟩ := x87_tail F op.node.1 hcmp (if op.node.2 then r else r.swap) s
    exact ⟨s', h1, by rw [h2, hval]⟩

/-- non-vacuity: all six source operators are covered -/
example : SrcOp.all.filterMap SrcOp.cmpOp = [.eq, .ne, .lt, .le, .gt, .ge] := rfl

/-- **C02 (flags: truth tests).**  `cmp_zero` leaves the flags of the relation `r` of `e` to zero; its tail
    `sete %al; setnp %dl; and %dl, %al; xor $1, %al` followed by
    (1) `sete %al; movzx %al, %rax` yields `!e`, (2) `setne %al; movzx %al, %eax` yields `(_Bool)e`,
    (3) `je` is taken exactly when `e` is false and `jne` exactly when it is true — where `e` is true unless it compares
    equal to zero: a NaN (`r = un`) is true, −0.0 (`r = eq`) is false. -/
theorem C02_flags_truth (F : FpuSpec) (r : Rel) (s : FState) (l : String) :
    (∃ s', Fp.run F (instrsOf (cmpZeroTail ++ [ins1 "sete" (.r "%al"), ins2 "movzx" (.r "%al") (.r "%rax")]))
        (s.setRel r) = some s' ∧ s'.x.get .rax = b2bv (!truth r)) ∧
    (∃ s', Fp.run F (instrsOf (cmpZeroTail ++ [ins1 "setne" (.r "%al"), ins2 "movzx" (.r "%al") (.r "%eax")]))
        (s.setRel r) = some s' ∧ s'.x.get .rax = b2bv (truth r)) ∧
    (∃ s', Fp.run F (instrsOf cmpZeroTail) (s.setRel r) = some s' ∧ s'.x.flagsValid = true ∧
        jumpOf ⟨"je", [.s l]⟩ s' = some (true, !truth r, l) ∧ jumpOf ⟨"jne", [.s l]⟩ s' = some (true, truth r, l)) := by
  refine ⟨?_, ?_, ?_⟩
  · obtain ⟨s', h1, h2, _⟩ := truth_not F r s; exact ⟨s', h1, h2⟩
  · obtain ⟨s', h1, h2, _⟩ := truth_bool F r s; exact ⟨s', h1, h2⟩
  · obtain ⟨s', h1, h2, h3, h4, _⟩ := truth_jcc F r s l; exact ⟨s', h1, h4, h2, h3⟩

/-! ## comparisons, arithmetic, negation and truth on values -/

/-- **C02 (comparison of doubles).**  With the operands of `a OP b` where `gen_expr` puts them (node lhs in %xmm0, node rhs
    in %xmm1, after the exchange for `>`/`>=`), the TY_DOUBLE arm leaves the IEC 60559 answer for the denoted values. -/
theorem C02_compare_f64 (F : FpuSpec) (op : SrcOp) (c : CmpOp) (hc : SrcOp.cmpOp op = some c) (a b : BitVec 64) (s : FState)
    (h0 : s.xmm0 = if op.node.2 then b else a) (h1 : s.xmm1 = if op.node.2 then a else b) :
    ∃ s', Fp.run F (instrsOf (sseOp false op.node.1)) s = some s' ∧
      s'.x.get .rax = b2bv (c.holds (Val.cmp (F.val64 a) (F.val64 b))) := by
  have hcmp : op.node.1.isCmp = true := by cases op <;> simp [SrcOp.cmpOp] at hc <;> rfl
  obtain ⟨s', hr, hx⟩ := cmp_f64 F op.node.1 hcmp s
  refine ⟨s', hr, ?_⟩
  rw [hx, h0, h1, ← srcop_node op c hc (F.val64 a) (F.val64 b)]
  cases op.node.2 <;> rfl

theorem C02_compare_f32 (F : FpuSpec) (op : SrcOp) (c : CmpOp) (hc : SrcOp.cmpOp op = some c) (a b : BitVec 32) (s : FState)
    (h0 : s.xmm0.setWidth 32 = if op.node.2 then b else a) (h1 : s.xmm1.setWidth 32 = if op.node.2 then a else b) :
    ∃ s', Fp.run F (instrsOf (sseOp true op.node.1)) s = some s' ∧
      s'.x.get .rax = b2bv (c.holds (Val.cmp (F.val32 a) (F.val32 b))) := by
  have hcmp : op.node.1.isCmp = true := by cases op <;> simp [SrcOp.cmpOp] at hc <;> rfl
  obtain ⟨s', hr, hx⟩ := cmp_f32 F op.node.1 hcmp s
  refine ⟨s', hr, ?_⟩
  rw [hx, h0, h1, ← srcop_node op c hc (F.val32 a) (F.val32 b)]
  cases op.node.2 <;> rfl

/-- long double: node lhs in %st(1), node rhs in %st(0); both are popped -/
theorem C02_compare_f80 (F : FpuSpec) (op : SrcOp) (c : CmpOp) (hc : SrcOp.cmpOp op = some c) (a b : BitVec 80) (s : FState)
    (rest : List (BitVec 80))
    (h : s.st = (if op.node.2 then a else b) :: (if op.node.2 then b else a) :: rest) :
    ∃ s', Fp.run F (instrsOf (x87Op op.node.1)) s = some s' ∧
      s'.x.get .rax = b2bv (c.holds (Val.cmp (F.val80 a) (F.val80 b))) := by
  have hcmp : op.node.1.isCmp = true := by cases op <;> simp [SrcOp.cmpOp] at hc <;> rfl
  obtain ⟨s', hr, hx⟩ := cmp_f80 F op.node.1 hcmp s _ _ rest h
  refine ⟨s', hr, ?_⟩
  rw [hx, ← srcop_node op c hc (F.val80 a) (F.val80 b)]
  cases op.node.2 <;> rfl

/-- non-vacuity: `a >= b` on long doubles: the node is `b <= a`, so `a` is evaluated last and sits in %st(0) -/
example : ∃ (s : FState) (rest : List (BitVec 80)),
    s.st = (if SrcOp.ge.node.2 then 7#80 else 9#80) :: (if SrcOp.ge.node.2 then 9#80 else 7#80) :: rest ∧
    SrcOp.cmpOp .ge = some .ge :=
  ⟨⟨{ regs := fun _ => 0, mem := fun _ => 0 }, 0, 0, [7#80, 9#80], 0x37f#16⟩, [], rfl, rfl⟩

/-- **C02 (arithmetic: instruction and operand order).**  `a OP b` on float/double computes `F.OPs* a b` with `a` as the
    destination operand (first source), on long double `F.fOP cw a b` with `a` in %st(1): `a − b`, `a ÷ b`, not the reverse. -/
theorem C02_arith (F : FpuSpec) (op : FOp) (hop : op.isCmp = false) (s : FState) :
    (∃ s', Fp.run F (instrsOf (sseOp true op)) s = some s' ∧
      s'.xmm0.setWidth 32 = sseArith32 F op (s.xmm0.setWidth 32) (s.xmm1.setWidth 32) ∧ s'.st = s.st ∧ s'.cw = s.cw) ∧
    (∃ s', Fp.run F (instrsOf (sseOp false op)) s = some s' ∧
      s'.xmm0 = sseArith64 F op s.xmm0 s.xmm1 ∧ s'.st = s.st ∧ s'.cw = s.cw) ∧
    (∀ l r rest, s.st = r :: l :: rest →
      ∃ s', Fp.run F (instrsOf (x87Op op)) s = some s' ∧ s'.st = x87Arith F s.cw op l r :: rest ∧ s'.cw = s.cw) := by
  refine ⟨?_, ?_, ?_⟩
  · obtain ⟨s', h1, h2, h3, h4, _⟩ := arith_f32 F op hop s; exact ⟨s', h1, h2, h3, h4⟩
  · obtain ⟨s', h1, h2, h3, h4, _⟩ := arith_f64 F op hop s; exact ⟨s', h1, h2, h3, h4⟩
  · intro l r rest h
    obtain ⟨s', h1, h2, h3, _⟩ := arith_f80 F op hop s l r rest h; exact ⟨s', h1, h2, h3⟩

/-- non-vacuity: the four arithmetic operators are the non-comparisons -/
example : FOp.all.filter (fun o => !o.isCmp) = [.add, .sub, .mul, .div] := rfl

/-- `xor` with `1 << (n−1)` complements the top bit and leaves every other bit alone -/
theorem C02_neg_bits (n : Nat) (b : BitVec (n + 1)) (i : Nat) :
    (b ^^^ (1#(n + 1) <<< n)).getLsbD i = (if i = n then !b.getLsbD i else b.getLsbD i) := by
  by_cases h : i = n
  · subst h; simp
  · by_cases h2 : i < n
    · simp [h, h2, BitVec.getLsbD_shiftLeft]
    · have h3 : ¬ i < n + 1 := by omega
      simp [h, h2, h3, BitVec.getLsbD_shiftLeft]

/-- **C02 (negation).**  `-e`: `mov $1, %rax; shl $31|$63, %rax; movq %rax, %xmm1; xorps|xorpd %xmm1, %xmm0` complements
    exactly the sign bit of the float / double (so −0.0, infinities and NaN payloads are negated as IEC 60559 `negate`);
    `fchs` does the same to the long double by contract. -/
theorem C02_neg (F : FpuSpec) (s : FState) :
    (∃ s', Fp.run F (instrsOf (negLines ty_float)) s = some s' ∧
      s'.xmm0.setWidth 32 = s.xmm0.setWidth 32 ^^^ (1#32 <<< 31) ∧ s'.st = s.st ∧ s'.cw = s.cw) ∧
    (∃ s', Fp.run F (instrsOf (negLines ty_double)) s = some s' ∧
      s'.xmm0 = s.xmm0 ^^^ (1#64 <<< 63) ∧ s'.st = s.st ∧ s'.cw = s.cw) ∧
    (∀ v rest, s.st = v :: rest →
      ∃ s', Fp.run F (instrsOf (negLines ty_ldouble)) s = some s' ∧ s'.st = (v ^^^ (1#80 <<< 79)) :: rest ∧ s'.cw = s.cw) := by
  refine ⟨?_, ?_, ?_⟩
  · obtain ⟨s', h1, h2, h3, h4, _⟩ := neg_f32 F s; exact ⟨s', h1, h2, h3, h4⟩
  · obtain ⟨s', h1, h2, h3, h4, _⟩ := neg_f64 F s; exact ⟨s', h1, h2, h3, h4⟩
  · intro v rest h
    obtain ⟨s', h1, h2, h3, _⟩ := neg_f80 F s v rest h; exact ⟨s', h1, h2, h3⟩

/-- **C02 (truth of a value).**  `!e` is 1 exactly for the two zeros (0 for a NaN), and after `cmp_zero(ty)` the branch
    `je` (used by `if`, `?:`, `&&`, `for`/`while`) is taken exactly when `e` is a zero, `jne` (`||`, `do`) exactly when it is not. -/
theorem C02_truth (F : FpuSpec) (s : FState) (l : String) :
    (∃ s', Fp.run F (instrsOf (cmpZero ty_float ++ [ins1 "sete" (.r "%al"), ins2 "movzx" (.r "%al") (.r "%rax")])) s = some s' ∧
      s'.x.get .rax = b2bv (F.val32 (s.xmm0.setWidth 32)).isZero) ∧
    (∃ s', Fp.run F (instrsOf (cmpZero ty_double ++ [ins1 "sete" (.r "%al"), ins2 "movzx" (.r "%al") (.r "%rax")])) s = some s' ∧
      s'.x.get .rax = b2bv (F.val64 s.xmm0).isZero) ∧
    (∀ b rest, s.st = b :: rest →
      ∃ s', Fp.run F (instrsOf (cmpZero ty_ldouble ++ [ins1 "sete" (.r "%al"), ins2 "movzx" (.r "%al") (.r "%rax")])) s = some s' ∧
        s'.x.get .rax = b2bv (F.val80 b).isZero ∧ s'.st = rest) ∧
    (∃ s', Fp.run F (instrsOf (cmpZero ty_float)) s = some s' ∧ s'.x.flagsValid = true ∧
      jumpOf ⟨"je", [.s l]⟩ s' = some (true, (F.val32 (s.xmm0.setWidth 32)).isZero, l) ∧
      jumpOf ⟨"jne", [.s l]⟩ s' = some (true, !(F.val32 (s.xmm0.setWidth 32)).isZero, l)) ∧
    (∃ s', Fp.run F (instrsOf (cmpZero ty_double)) s = some s' ∧ s'.x.flagsValid = true ∧
      jumpOf ⟨"je", [.s l]⟩ s' = some (true, (F.val64 s.xmm0).isZero, l) ∧
      jumpOf ⟨"jne", [.s l]⟩ s' = some (true, !(F.val64 s.xmm0).isZero, l)) ∧
    (∀ b rest, s.st = b :: rest →
      ∃ s', Fp.run F (instrsOf (cmpZero ty_ldouble)) s = some s' ∧ s'.x.flagsValid = true ∧ s'.st = rest ∧
        jumpOf ⟨"je", [.s l]⟩ s' = some (true, (F.val80 b).isZero, l) ∧
        jumpOf ⟨"jne", [.s l]⟩ s' = some (true, !(F.val80 b).isZero, l)) := by
  refine ⟨?_, ?_, ?_, ?_, ?_, ?_⟩
  · obtain ⟨s', h1, h2, _⟩ := not_f32 F s; exact ⟨s', h1, h2⟩
  · obtain ⟨s', h1, h2, _⟩ := not_f64 F s; exact ⟨s', h1, h2⟩
  · intro b rest h
    obtain ⟨s', h1, h2, h3, _⟩ := not_f80 F s b rest h; exact ⟨s', h1, h2, h3⟩
  · obtain ⟨s', h1, h2, h3, h4, _⟩ := branch_f32 F s l; exact ⟨s', h1, h4, h2, h3⟩
  · obtain ⟨s', h1, h2, h3, h4, _⟩ := branch_f64 F s l; exact ⟨s', h1, h4, h2, h3⟩
  · intro b rest h
    obtain ⟨s', h1, h2, h3, h4, h5, _⟩ := branch_f80 F s l b rest h; exact ⟨s', h1, h4, h5, h2, h3⟩

/-! ## conversions -/

/-- the full statement: for **every** pair of arithmetic types with a floating side, every operand value and every machine
    state, the instructions `cast(from, to)` prints (cell of the generated cast table, or the `_Bool` sequence) turn a
    representation of `x` into a representation of the C11 conversion of `x` (when that is defined), restore the x87
    control word, leave the x87 stack below the operand and %rsp unchanged.  **It is false** (Findings/C02.lean). -/
def C02_select_Statement : Prop :=
  ∀ (F : FpuSpec) (frm to : ATy) (s : FState) (x y : AVal),
    (frm.isFp = true ∨ to.isFp = true) → Holds frm s x → convert F s.cw to x = some y →
    ∃ s', Fp.run F (castSeq frm to) s = some s' ∧ Holds to s' y ∧ s'.cw = s.cw ∧ stBelow to s' = stBelow frm s ∧
      s'.x.get .rsp = s.x.get .rsp

/-- **C02 (selection).**  `C02_select_Statement` outside the regions `inKnownRegion` (unsigned long → floating at ≥ 2^63;
    floating → unsigned long with integral part ≥ 2^63): 63 cells × all values.  E.g. double → unsigned int goes through
    `cvttsd2siq` and the low 32 bits and is right for every x with 0 ≤ trunc x < 2^32; signed char / short targets are
    re-extended from the right width; int → long double goes through a 4-byte slot read by `fildl`, unsigned int is
    zero-extended first and read by `fildll`; long double → integer stores with `fistps/l/q` of the right width under a
    control word with RC = 11b and reloads with the right extension; `_Bool` targets test against zero with NaN true. -/
theorem C02_select_partial (F : FpuSpec) (frm to : ATy) (s : FState) (x y : AVal)
    (hfp : frm.isFp = true ∨ to.isFp = true) (hh : Holds frm s x) (hc : convert F s.cw to x = some y)
    (hreg : inKnownRegion F frm to x = false) :
    ∃ s', Fp.run F (castSeq frm to) s = some s' ∧ Holds to s' y ∧ s'.cw = s.cw ∧ stBelow to s' = stBelow frm s ∧
      s'.x.get .rsp = s.x.get .rsp :=
  select_partial F frm to s x y hfp hh hc hreg

/-- non-vacuity: the contract is satisfiable, and on the toy FPU the hypotheses hold for (double) of the unsigned int
    4000000000 (above 2^31: the zero extension matters) sitting in %eax with garbage above -/
example : ∃ (F : FpuSpec) (s : FState) (y : AVal),
    Holds (.int .u32) s (.int 4000000000) ∧ convert F s.cw .f64 (.int 4000000000) = some y ∧
    inKnownRegion F (.int .u32) .f64 (.int 4000000000) = false :=
  ⟨Toy.toy, ⟨{ regs := fun _ => 0xdeadbeefee6b2800#64, mem := fun _ => 0 }, 0, 0, [], 0x37f#16⟩, _,
    by simp [Holds, RInt, ITy.inRange, ITy.min, ITy.max, ITy.signed, ITy.bits, State.get], rfl, rfl⟩

/-! ## the two branchy cells at ≥ 2^63 -/

/-- **C02 (unsigned long → long double, top bit set), machine level.**  `fildq` reads the pattern as the negative number
    v − 2^64; the float constant 0x5F800000 (2^64) is then added in extended precision. -/
theorem C02_u64f80_machine (F : FpuSpec) (s : FState) (h : (s.x.get .rax).msb = true) :
    ∃ s', Fp.run F (castSeq (.int .u64) .f80) s = some s' ∧
      s'.st = F.fadd s.cw (F.ofInt80 ((s.x.get .rax).toNat - 18446744073709551616)) (F.fld32 1602224128#32) :: s.st ∧
      s'.cw = s.cw ∧ s'.x.get .rsp = s.x.get .rsp := by
  obtain ⟨s', h1, h2, h3, h4⟩ := eff_u64f80_neg F s h
  refine ⟨s', h1, ?_, h3, h4⟩
  rw [h2, F.fild64_spec]
  congr 3
  rw [BitVec.toInt_eq_toNat_cond]
  have := (BitVec.msb_eq_decide (s.x.get .rax)).symm.trans h
  simp at this
  split <;> omega

/-- non-vacuity: 2^64 − 1 in %rax has the top bit set -/
example : ∃ s : FState, (s.x.get .rax).msb = true :=
  ⟨⟨{ regs := fun _ => 0xffffffffffffffff#64, mem := fun _ => 0 }, 0, 0, [], 0x37f#16⟩, by decide⟩

/-- **C02 (unsigned long → double, all 2^64 values).**  On every FPU that meets the contract and on which adding a double to
    itself is exact (`hdbl`: the sum of the double nearest to an integer |k| < 2^63 with itself denotes 2·round₅₃(k); true of
    IEC 60559 addition, there is no overflow), the branchy cell `u64f64` — `test; js`, and for values ≥ 2^63: halve with the
    lost bit or-ed back in, `cvtsi2sd`, `addsd %xmm0, %xmm0` — leaves a double that denotes round-to-nearest-even of the
    *unsigned* value to 53 significant bits, which is what the C11 result `F.ofInt64 v` denotes. -/
theorem C02_u64f64 (F : FpuSpec)
    (hdbl : ∀ k : Int, k.natAbs < 2 ^ 63 → (F.val64 (F.addsd (F.ofInt64 k) (F.ofInt64 k))).toInt? = some (2 * roundInt 53 k))
    (s : FState) (v : Int) (hh : Holds (.int .u64) s (.int v)) :
    ∃ s', Fp.run F (castSeq (.int .u64) .f64) s = some s' ∧
      (F.val64 s'.xmm0).toInt? = some (roundInt 53 v) ∧ (F.val64 s'.xmm0).toInt? = (F.val64 (F.ofInt64 v)).toInt? ∧
      s'.st = s.st ∧ s'.cw = s.cw ∧ s'.x.get .rsp = s.x.get .rsp := by
  have hr : ITy.u64.inRange v := hh.1
  have hv0 : 0 ≤ v ∧ v < 18446744073709551616 := by
    simp [ITy.inRange, ITy.min, ITy.max, ITy.signed, ITy.bits] at hr; omega
  have hspec : (F.val64 (F.ofInt64 v)).toInt? = some (roundInt 53 v) := F.ofInt64_val v (by omega)
  by_cases hlt : v < 9223372036854775808
  · obtain ⟨s', hrun, hx, hst, hcw, hrsp⟩ := sel_u64_f64 F s v hh hlt
    exact ⟨s', hrun, by rw [hx, hspec], by rw [hx], hst, hcw, hrsp⟩
  · have hnat : ((s.x.get .rax).toNat : Int) = v := by
      have := hh.2; simp only at this; omega
    have hmsb : (s.x.get .rax).msb = true := by
      rw [BitVec.msb_eq_decide]; simp; omega
    obtain ⟨s', hrun, hx, hst, hcw, hrsp⟩ := eff_u64f64_neg F s hmsb
    have hn1 : 2 ^ 63 ≤ (s.x.get .rax).toNat := by omega
    have hn2 : (s.x.get .rax).toNat < 2 ^ 64 := (s.x.get .rax).isLt
    have hh' := halveSticky_lt _ hn1 hn2
    have hk : ((s.x.get .rax) >>> 1 ||| (s.x.get .rax) &&& 1#64).toInt = (halveSticky (s.x.get .rax).toNat : Int) := by
      rw [BitVec.toInt_eq_toNat_cond, halve_bv]
      split <;> omega
    have hval : (F.val64 s'.xmm0).toInt? = some (roundInt 53 v) := by
      rw [hx, F.cvtsi2sd64_spec, hk, hdbl _ (by omega)]
      have e1 : roundInt 53 (halveSticky (s.x.get .rax).toNat : Int) = (roundNat 53 (halveSticky (s.x.get .rax).toNat) : Int) := by
        simp [roundInt]; intro h; omega
      have e2 : roundInt 53 v = (roundNat 53 (s.x.get .rax).toNat : Int) := by
        rw [← hnat]; simp [roundInt]; intro h; omega
      rw [e1, e2, round_halve _ hn1 hn2]
      simp
    exact ⟨s', hrun, hval, by rw [hval, hspec], hst, hcw, hrsp⟩

/-- non-vacuity: ULONG_MAX in %rax represents the unsigned long 2^64 − 1 -/
example : ∃ s : FState, Holds (.int .u64) s (.int 18446744073709551615) :=
  ⟨⟨{ regs := fun _ => 0xffffffffffffffff#64, mem := fun _ => 0 }, 0, 0, [], 0x37f#16⟩,
    by simp [Holds, RInt, ITy.inRange, ITy.min, ITy.max, ITy.signed, ITy.bits, State.get]⟩

/-- non-vacuity: the toy FPU satisfies the doubling hypothesis -/
example : ∀ k : Int, k.natAbs < 2 ^ 63 →
    (Toy.toy.val64 (Toy.toy.addsd (Toy.toy.ofInt64 k) (Toy.toy.ofInt64 k))).toInt? = some (2 * roundInt 53 k) := by
  intro k hk
  show (Toy.val64 (if Toy.ofInt64 k = Toy.ofInt64 k then Toy.dbl64 (Toy.ofInt64 k) else Toy.ofInt64 k)).toInt? = _
  rw [if_pos rfl]
  exact Toy.dbl64_ofInt k (by omega)

/-! ## floating constants -/

/-- **C02 (constants).**  `ND_NUM` of type float / double / long double whose value is the long double `fval` (what `strtold`
    returned, as held by the compiler): the immediates printed are the bit pattern of `(float)fval` / `(double)fval` /
    `fval` (the union punning, with `hostCw` the compiler's own x87 control word), and executing them leaves exactly that
    datum where a value of the node's type lives — for every `fval`, i.e. the C11 conversion of `fval` to the node's type. -/
theorem C02_const (F : FpuSpec) (hostCw : BitVec 16) (fval : BitVec 80) (s : FState) :
    (∃ s' y, convert F hostCw .f32 (.f80 fval) = some y ∧
      Fp.run F (instrsOf (numF32 (F.fst32 hostCw fval))) s = some s' ∧ Holds .f32 s' y ∧ s'.st = s.st ∧ s'.cw = s.cw) ∧
    (∃ s' y, convert F hostCw .f64 (.f80 fval) = some y ∧
      Fp.run F (instrsOf (numF64 (F.fst64 hostCw fval))) s = some s' ∧ Holds .f64 s' y ∧ s'.st = s.st ∧ s'.cw = s.cw) ∧
    (∃ s', Fp.run F (instrsOf (numF80 fval)) s = some s' ∧ Holds .f80 s' (.f80 fval) ∧ s'.st = fval :: s.st ∧ s'.cw = s.cw) := by
  refine ⟨?_, ?_, ?_⟩
  · obtain ⟨s', h1, h2, h3, h4, _⟩ := num_f32 F (F.fst32 hostCw fval) s
    exact ⟨s', _, rfl, h1, h2, h3, h4⟩
  · obtain ⟨s', h1, h2, h3, h4, _⟩ := num_f64 F (F.fst64 hostCw fval) s
    exact ⟨s', _, rfl, h1, h2, h3, h4⟩
  · obtain ⟨s', h1, h2, h3, _⟩ := num_f80 F fval s
    exact ⟨s', h1, ⟨s.st, h2⟩, h2, h3⟩

/-- the full statement about constants, for integer-valued spellings n: narrowing what `strtold` returns (n rounded to the
    64 significant bits of a long double) yields the correctly rounded double / float.  **It is false** (double rounding,
    Findings/C02.lean); `C02_const` above is the part that holds: the code materialises exactly the narrowed `fval`. -/
def C02_const_Statement : Prop :=
  ∀ n : Nat, roundNat 53 (roundNat 64 n) = roundNat 53 n ∧ roundNat 24 (roundNat 64 n) = roundNat 24 n

/-- … and it does hold for every spelling whose value has at most 64 significant bits (every integer below 2^64,
    every literal that is exactly a long double): the first rounding is the identity -/
theorem C02_const_partial (n : Nat) (h : n < 2 ^ 64) :
    roundNat 53 (roundNat 64 n) = roundNat 53 n ∧ roundNat 24 (roundNat 64 n) = roundNat 24 n := by
  have hb : bitLen n ≤ 64 := by
    unfold bitLen
    split
    · omega
    · rename_i h0
      have := (Nat.log2_lt h0).2 h
      omega
  have e : roundNat 64 n = n := by simp [roundNat, roundQS, hb]
  rw [e]; exact ⟨rfl, rfl⟩

/-- non-vacuity -/
example : (16777217 : Nat) < 2 ^ 64 := by decide

end ChibiVerif.Props.C02
