namespace ChibiVerif.Props.C02
theorem C02_placeholder : True := trivial
end ChibiVerif.Props.C02
