/-
C02 — floating-point arithmetic and conversions are bit-exact.

Property theorems only (definitions and helper lemmas live in Spec/FpuSpec, Spec/FpC11Spec, Model/FpMachine,
Model/FpCodegen, Model/FpChain, Spec/FpChainSpec and Lemmas/Fp*.lean).

What is proved, and relative to what.  The *results* of SSE/x87 instructions are not formalised; they are the fields of an
abstract `F : FpuSpec` whose `Prop` fields are the Intel-SDM contracts (Spec/FpuSpec.lean).  Every theorem below is for
every such `F`, every machine state and every operand value.  What is logic — which instruction is selected, in which
operand order, through which register / stack slot of which width and signedness, which `setcc`/`jcc` combination reads
the flags, which bit the sign mask flips, which immediates a constant is built from — is proved completely, over the
cast table and `get_common_type` as *regenerated from /repo* (Gen/CastTableGen, Gen/CommonTypeGen) and the hand model
Model/FpCodegen (tied to `chibicc -S` by text on every run).  `FpuSpec` is satisfiable (Lemmas/FpToy.lean); the host
CPU is validated against the same contracts on every run (checklib/C02.py).

Three theorems at the end (`C02_ieee_*`) mention no `FpuSpec` at all: they are about the IEEE-754 / x87 bit layouts themselves.

Nothing is kept as a `_Statement` any more.  The three defects that made `C02_select_Statement` and `C02_const_Statement`
false (unsigned long → float at ≥ 2^63 through the signed `cvtsi2ssq`; floating → unsigned long at ≥ 2^63 through the
signed truncations; constants rounded twice through `strtold`) were repaired in /repo; the repaired sequences are in the
regenerated table and `C02_select` holds for all 144 − 81 = 63 cells with a floating side and **all** operand values,
`C02_const_literal` / `C02_const_rounded` for every spelling.  Witnesses that the *old* formulas were wrong are kept in
Findings/C02.lean, marked repaired.

Chains (`C02_cast_link`, `C02_cast_chain`, `C02_roundtrip_rounds`, `C02_roundtrip_not_identity`): `gen_expr`'s ND_CAST arm prints
one `cast()` per node, nothing elided (Model/FpChain.lean, tied to `chibicc -S` by text on generated chains in `return`,
assignment and `?:` contexts); the code of `(Tn)…(T1)e` computes the composition of the C11 conversions in order for every
chain over the twelve arithmetic types — integer-only links by C01's `C01_cast` transported to the floating machine — and
`(int)(float)e`, `(long)(double)e` are provably not the identity.  Mixed operands (`C02_binary_code`, `C02_binary_value_sse`,
`C02_binary_value_x87`): the code of `a OP b` converts each operand by the cell of (its type, the C11 common type) and applies
the operator of the common type, left operand first, in both of `gen_expr`'s evaluation orders.

One hypothesis is not a region but the ABI: the two cells that do x87 *arithmetic* (unsigned long ↔ long double at ≥ 2^63:
`fadds` of 2^64, `fsub` of 2^63) are exact only when the x87 precision-control field selects double extended precision,
which the psABI prescribes (control word 0x37f at process start, preserved across calls); `C02_select` asks for it in
exactly those two cells.
-/
import ChibiVerif.Lemmas.FpOpLemmas
import ChibiVerif.Lemmas.FpToy
import ChibiVerif.Lemmas.FpRoundLemmas
import ChibiVerif.Lemmas.FpLiteralLemmas
import ChibiVerif.Lemmas.FpIeeeLemmas
import ChibiVerif.Lemmas.FpChainLemmas
import ChibiVerif.Lemmas.FpBinaryLemmas

namespace ChibiVerif.Props.C02
open ChibiVerif.Fp ChibiVerif.Asm ChibiVerif.X86 ChibiVerif.Spec.Fpu ChibiVerif.FpCodegen ChibiVerif.Spec.FpC11
open ChibiVerif.Spec.IntSpec ChibiVerif.Gen.CommonType ChibiVerif.Gen.CastTable ChibiVerif.FpChain

/-! ## usual arithmetic conversions -/

set_option maxRecDepth 4096 in
/-- **C02 (rank).**  For all 12×12 pairs of arithmetic types, `get_common_type` (as regenerated from type.c) yields the
    common real type of C11 6.3.1.8: long double if either operand is, else double, else float, else the integer rules. -/
theorem C02_rank : ∀ a ∈ ATy.all, ∀ b ∈ ATy.all,
    FpCodegen.commonType (descr a) (descr b) = some (descr (usualArith a b)) := by decide

/-- the operand of unary minus is promoted (`get_common_type(ty_int, ty)`): floating types are unchanged -/
theorem C02_rank_unary : ∀ a ∈ ATy.all, FpCodegen.commonType ty_int (descr a) = some (descr (promote a)) := by decide

/-! ## comparison flags -/

/-- **C02 (flags: SSE and x87 comparison paths).**  Let `r` be the relation of the source operands `a ? b`.  After
    parse.c's exchange of the operands of `>`/`>=` and the compare instruction (`ucomis* %xmm0, %xmm1` with the node's lhs in
    %xmm0; `fcomip` with the node's rhs in %st(0)) the flags are those of the node's rhs ? lhs.  Then the `setcc` lines
    the operator selects, followed by `and $1, %al; movzb %al, %rax` (SSE) or `movzb %al, %rax` (x87), leave in %rax the
    value C11 / IEC 60559 give `a OP b`: 1 or 0, every comparison with a NaN (`r = un`) false except `!=`. -/
theorem C02_flags (F : FpuSpec) (op : SrcOp) (c : CmpOp) (hc : SrcOp.cmpOp op = some c) (r : Rel) (s : FState) :
    (∃ s', Fp.run F (instrsOf (setccLines op.node.1 ++
                [ins2 "and" (.i 1) (.r "%al"), ins2 "movzb" (.r "%al") (.r "%rax")]))
            (s.setRel (if op.node.2 then r else r.swap)) = some s' ∧ s'.x.get .rax = b2bv (c.holds r)) ∧
    (∃ s', Fp.run F (instrsOf (setccLines op.node.1 ++ [ins2 "movzb" (.r "%al") (.r "%rax")]))
            (s.setRel (if op.node.2 then r else r.swap)) = some s' ∧ s'.x.get .rax = b2bv (c.holds r)) := by
  have hcmp : op.node.1.isCmp = true := by cases op <;> simp [SrcOp.cmpOp] at hc <;> rfl
  have hval : op.node.1.cmpOp.holds (if op.node.2 then r else r.swap).swap = c.holds r := by
    cases op <;> simp [SrcOp.cmpOp] at hc <;> subst hc <;> cases r <;> rfl
  constructor
  · obtain ⟨s', h1, h2⟩ := sse_tail F op.node.1 hcmp (if op.node.2 then r else r.swap) s
    exact ⟨s', h1, by rw [h2, hval]⟩
  · obtain ⟨s', h1, h2⟩ := x87_tail F op.node.1 hcmp (if op.node.2 then r else r.swap) s
    exact ⟨s', h1, by rw [h2, hval]⟩

/-- non-vacuity: all six source operators are covered -/
example : SrcOp.all.filterMap SrcOp.cmpOp = [.eq, .ne, .lt, .le, .gt, .ge] := rfl

/-- **C02 (flags: truth tests).**  `cmp_zero` leaves the flags of the relation `r` of `e` to zero; its tail
    `sete %al; setnp %dl; and %dl, %al; xor $1, %al` followed by
    (1) `sete %al; movzx %al, %rax` yields `!e`, (2) `setne %al; movzx %al, %eax` yields `(_Bool)e`,
    (3) `je` is taken exactly when `e` is false and `jne` exactly when it is true — where `e` is true unless it compares
    equal to zero: a NaN (`r = un`) is true, −0.0 (`r = eq`) is false. -/
theorem C02_flags_truth (F : FpuSpec) (r : Rel) (s : FState) (l : String) :
    (∃ s', Fp.run F (instrsOf (cmpZeroTail ++ [ins1 "sete" (.r "%al"), ins2 "movzx" (.r "%al") (.r "%rax")]))
        (s.setRel r) = some s' ∧ s'.x.get .rax = b2bv (!truth r)) ∧
    (∃ s', Fp.run F (instrsOf (cmpZeroTail ++ [ins1 "setne" (.r "%al"), ins2 "movzx" (.r "%al") (.r "%eax")]))
        (s.setRel r) = some s' ∧ s'.x.get .rax = b2bv (truth r)) ∧
    (∃ s', Fp.run F (instrsOf cmpZeroTail) (s.setRel r) = some s' ∧ s'.x.flagsValid = true ∧
        jumpOf ⟨"je", [.s l]⟩ s' = some (true, !truth r, l) ∧ jumpOf ⟨"jne", [.s l]⟩ s' = some (true, truth r, l)) := by
  refine ⟨?_, ?_, ?_⟩
  · obtain ⟨s', h1, h2, _⟩ := truth_not F r s; exact ⟨s', h1, h2⟩
  · obtain ⟨s', h1, h2, _⟩ := truth_bool F r s; exact ⟨s', h1, h2⟩
  · obtain ⟨s', h1, h2, h3, h4, _⟩ := truth_jcc F r s l; exact ⟨s', h1, h4, h2, h3⟩

/-! ## comparisons, arithmetic, negation and truth on values -/

/-- **C02 (comparison of doubles).**  With the operands of `a OP b` where `gen_expr` puts them (node lhs in %xmm0, node rhs
    in %xmm1, after the exchange for `>`/`>=`), the TY_DOUBLE arm leaves the IEC 60559 answer for the denoted values. -/
theorem C02_compare_f64 (F : FpuSpec) (op : SrcOp) (c : CmpOp) (hc : SrcOp.cmpOp op = some c) (a b : BitVec 64) (s : FState)
    (h0 : s.xmm0 = if op.node.2 then b else a) (h1 : s.xmm1 = if op.node.2 then a else b) :
    ∃ s', Fp.run F (instrsOf (sseOp false op.node.1)) s = some s' ∧
      s'.x.get .rax = b2bv (c.holds (Val.cmp (F.val64 a) (F.val64 b))) := by
  have hcmp : op.node.1.isCmp = true := by cases op <;> simp [SrcOp.cmpOp] at hc <;> rfl
  obtain ⟨s', hr, hx⟩ := cmp_f64 F op.node.1 hcmp s
  refine ⟨s', hr, ?_⟩
  rw [hx, h0, h1, ← srcop_node op c hc (F.val64 a) (F.val64 b)]
  cases op.node.2 <;> rfl

theorem C02_compare_f32 (F : FpuSpec) (op : SrcOp) (c : CmpOp) (hc : SrcOp.cmpOp op = some c) (a b : BitVec 32) (s : FState)
    (h0 : s.xmm0.setWidth 32 = if op.node.2 then b else a) (h1 : s.xmm1.setWidth 32 = if op.node.2 then a else b) :
    ∃ s', Fp.run F (instrsOf (sseOp true op.node.1)) s = some s' ∧
      s'.x.get .rax = b2bv (c.holds (Val.cmp (F.val32 a) (F.val32 b))) := by
  have hcmp : op.node.1.isCmp = true := by cases op <;> simp [SrcOp.cmpOp] at hc <;> rfl
  obtain ⟨s', hr, hx⟩ := cmp_f32 F op.node.1 hcmp s
  refine ⟨s', hr, ?_⟩
  rw [hx, h0, h1, ← srcop_node op c hc (F.val32 a) (F.val32 b)]
  cases op.node.2 <;> rfl

/-- long double: node lhs in %st(1), node rhs in %st(0); both are popped -/
theorem C02_compare_f80 (F : FpuSpec) (op : SrcOp) (c : CmpOp) (hc : SrcOp.cmpOp op = some c) (a b : BitVec 80) (s : FState)
    (rest : List (BitVec 80))
    (h : s.st = (if op.node.2 then a else b) :: (if op.node.2 then b else a) :: rest) :
    ∃ s', Fp.run F (instrsOf (x87Op op.node.1)) s = some s' ∧
      s'.x.get .rax = b2bv (c.holds (Val.cmp (F.val80 a) (F.val80 b))) := by
  have hcmp : op.node.1.isCmp = true := by cases op <;> simp [SrcOp.cmpOp] at hc <;> rfl
  obtain ⟨s', hr, hx⟩ := cmp_f80 F op.node.1 hcmp s _ _ rest h
  refine ⟨s', hr, ?_⟩
  rw [hx, ← srcop_node op c hc (F.val80 a) (F.val80 b)]
  cases op.node.2 <;> rfl

/-- non-vacuity: `a >= b` on long doubles: the node is `b <= a`, so `a` is evaluated last and sits in %st(0) -/
example : ∃ (s : FState) (rest : List (BitVec 80)),
    s.st = (if SrcOp.ge.node.2 then 7#80 else 9#80) :: (if SrcOp.ge.node.2 then 9#80 else 7#80) :: rest ∧
    SrcOp.cmpOp .ge = some .ge :=
  ⟨⟨{ regs := fun _ => 0, mem := fun _ => 0 }, 0, 0, [7#80, 9#80], 0x37f#16⟩, [], rfl, rfl⟩

/-- **C02 (arithmetic: instruction and operand order).**  `a OP b` on float/double computes `F.OPs* a b` with `a` as the
    destination operand (first source), on long double `F.fOP cw a b` with `a` in %st(1): `a − b`, `a ÷ b`, not the reverse. -/
theorem C02_arith (F : FpuSpec) (op : FOp) (hop : op.isCmp = false) (s : FState) :
    (∃ s', Fp.run F (instrsOf (sseOp true op)) s = some s' ∧
      s'.xmm0.setWidth 32 = sseArith32 F op (s.xmm0.setWidth 32) (s.xmm1.setWidth 32) ∧ s'.st = s.st ∧ s'.cw = s.cw) ∧
    (∃ s', Fp.run F (instrsOf (sseOp false op)) s = some s' ∧
      s'.xmm0 = sseArith64 F op s.xmm0 s.xmm1 ∧ s'.st = s.st ∧ s'.cw = s.cw) ∧
    (∀ l r rest, s.st = r :: l :: rest →
      ∃ s', Fp.run F (instrsOf (x87Op op)) s = some s' ∧ s'.st = x87Arith F s.cw op l r :: rest ∧ s'.cw = s.cw) := by
  refine ⟨?_, ?_, ?_⟩
  · obtain ⟨s', h1, h2, h3, h4, _⟩ := arith_f32 F op hop s; exact ⟨s', h1, h2, h3, h4⟩
  · obtain ⟨s', h1, h2, h3, h4, _⟩ := arith_f64 F op hop s; exact ⟨s', h1, h2, h3, h4⟩
  · intro l r rest h
    obtain ⟨s', h1, h2, h3, _⟩ := arith_f80 F op hop s l r rest h; exact ⟨s', h1, h2, h3⟩

/-- non-vacuity: the four arithmetic operators are the non-comparisons -/
example : FOp.all.filter (fun o => !o.isCmp) = [.add, .sub, .mul, .div] := rfl

/-- `xor` with `1 << (n−1)` complements the top bit and leaves every other bit alone -/
theorem C02_neg_bits (n : Nat) (b : BitVec (n + 1)) (i : Nat) :
    (b ^^^ (1#(n + 1) <<< n)).getLsbD i = (if i = n then !b.getLsbD i else b.getLsbD i) := by
  by_cases h : i = n
  · subst h; simp
  · by_cases h2 : i < n
    · simp [h, h2, BitVec.getLsbD_shiftLeft]
    · have h3 : ¬ i < n + 1 := by omega
      simp [h, h2, h3, BitVec.getLsbD_shiftLeft]

/-- **C02 (negation).**  `-e`: `mov $1, %rax; shl $31|$63, %rax; movq %rax, %xmm1; xorps|xorpd %xmm1, %xmm0` complements
    exactly the sign bit of the float / double (so −0.0, infinities and NaN payloads are negated as IEC 60559 `negate`);
    `fchs` does the same to the long double by contract. -/
theorem C02_neg (F : FpuSpec) (s : FState) :
    (∃ s', Fp.run F (instrsOf (negLines ty_float)) s = some s' ∧
      s'.xmm0.setWidth 32 = s.xmm0.setWidth 32 ^^^ (1#32 <<< 31) ∧ s'.st = s.st ∧ s'.cw = s.cw) ∧
    (∃ s', Fp.run F (instrsOf (negLines ty_double)) s = some s' ∧
      s'.xmm0 = s.xmm0 ^^^ (1#64 <<< 63) ∧ s'.st = s.st ∧ s'.cw = s.cw) ∧
    (∀ v rest, s.st = v :: rest →
      ∃ s', Fp.run F (instrsOf (negLines ty_ldouble)) s = some s' ∧ s'.st = (v ^^^ (1#80 <<< 79)) :: rest ∧ s'.cw = s.cw) := by
  refine ⟨?_, ?_, ?_⟩
  · obtain ⟨s', h1, h2, h3, h4, _⟩ := neg_f32 F s; exact ⟨s', h1, h2, h3, h4⟩
  · obtain ⟨s', h1, h2, h3, h4, _⟩ := neg_f64 F s; exact ⟨s', h1, h2, h3, h4⟩
  · intro v rest h
    obtain ⟨s', h1, h2, h3, _⟩ := neg_f80 F s v rest h; exact ⟨s', h1, h2, h3⟩

/-- **C02 (truth of a value).**  `!e` is 1 exactly for the two zeros (0 for a NaN), and after `cmp_zero(ty)` the branch
    `je` (used by `if`, `?:`, `&&`, `for`/`while`) is taken exactly when `e` is a zero, `jne` (`||`, `do`) exactly when it is not. -/
theorem C02_truth (F : FpuSpec) (s : FState) (l : String) :
    (∃ s', Fp.run F (instrsOf (cmpZero ty_float ++ [ins1 "sete" (.r "%al"), ins2 "movzx" (.r "%al") (.r "%rax")])) s = some s' ∧
      s'.x.get .rax = b2bv (F.val32 (s.xmm0.setWidth 32)).isZero) ∧
    (∃ s', Fp.run F (instrsOf (cmpZero ty_double ++ [ins1 "sete" (.r "%al"), ins2 "movzx" (.r "%al") (.r "%rax")])) s = some s' ∧
      s'.x.get .rax = b2bv (F.val64 s.xmm0).isZero) ∧
    (∀ b rest, s.st = b :: rest →
      ∃ s', Fp.run F (instrsOf (cmpZero ty_ldouble ++ [ins1 "sete" (.r "%al"), ins2 "movzx" (.r "%al") (.r "%rax")])) s = some s' ∧
        s'.x.get .rax = b2bv (F.val80 b).isZero ∧ s'.st = rest) ∧
    (∃ s', Fp.run F (instrsOf (cmpZero ty_float)) s = some s' ∧ s'.x.flagsValid = true ∧
      jumpOf ⟨"je", [.s l]⟩ s' = some (true, (F.val32 (s.xmm0.setWidth 32)).isZero, l) ∧
      jumpOf ⟨"jne", [.s l]⟩ s' = some (true, !(F.val32 (s.xmm0.setWidth 32)).isZero, l)) ∧
    (∃ s', Fp.run F (instrsOf (cmpZero ty_double)) s = some s' ∧ s'.x.flagsValid = true ∧
      jumpOf ⟨"je", [.s l]⟩ s' = some (true, (F.val64 s.xmm0).isZero, l) ∧
      jumpOf ⟨"jne", [.s l]⟩ s' = some (true, !(F.val64 s.xmm0).isZero, l)) ∧
    (∀ b rest, s.st = b :: rest →
      ∃ s', Fp.run F (instrsOf (cmpZero ty_ldouble)) s = some s' ∧ s'.x.flagsValid = true ∧ s'.st = rest ∧
        jumpOf ⟨"je", [.s l]⟩ s' = some (true, (F.val80 b).isZero, l) ∧
        jumpOf ⟨"jne", [.s l]⟩ s' = some (true, !(F.val80 b).isZero, l)) := by
  refine ⟨?_, ?_, ?_, ?_, ?_, ?_⟩
  · obtain ⟨s', h1, h2, _⟩ := not_f32 F s; exact ⟨s', h1, h2⟩
  · obtain ⟨s', h1, h2, _⟩ := not_f64 F s; exact ⟨s', h1, h2⟩
  · intro b rest h
    obtain ⟨s', h1, h2, h3, _⟩ := not_f80 F s b rest h; exact ⟨s', h1, h2, h3⟩
  · obtain ⟨s', h1, h2, h3, h4, _⟩ := branch_f32 F s l; exact ⟨s', h1, h4, h2, h3⟩
  · obtain ⟨s', h1, h2, h3, h4, _⟩ := branch_f64 F s l; exact ⟨s', h1, h4, h2, h3⟩
  · intro b rest h
    obtain ⟨s', h1, h2, h3, h4, h5, _⟩ := branch_f80 F s l b rest h; exact ⟨s', h1, h4, h5, h2, h3⟩

/-! ## conversions -/

/-- **C02 (selection), full strength.**  For **every** pair of arithmetic types with a floating side (63 cells of the cast
    table regenerated from codegen.c, or the `_Bool` sequence), every operand value and every machine state, the instructions
    `cast(from, to)` prints turn a representation of `x` into a representation of the C11 conversion of `x` (whenever that is
    defined), restore the x87 control word, leave the x87 stack below the operand and %rsp unchanged.
    E.g. double → unsigned int goes through `cvttsd2siq` and the low 32 bits and is right for every x with 0 ≤ trunc x < 2^32;
    signed char / short targets are re-extended from the right width; int → long double goes through a 4-byte slot read by
    `fildl`, unsigned int is zero-extended first and read by `fildll`; long double → integer stores with `fistps/l/q` of the
    right width under a control word with RC = 11b and reloads with the right extension; `_Bool` targets test against zero
    with NaN true; **unsigned long → float / double** is correctly rounded for all 2^64 values (from 2^63 on: halve with the
    lost bit or-ed back in, convert, double); **float / double / long double → unsigned long** is the exact truncation for
    every x with 0 ≤ trunc x < 2^64 (from 2^63 on: compare with 2^63, subtract it exactly, truncate signed, complement bit 63).
    `hpc`: the two cells that do x87 arithmetic (unsigned long ↔ long double) need the ABI's x87 precision (PC = 11b). -/
theorem C02_select (F : FpuSpec) (frm to : ATy) (s : FState) (x y : AVal)
    (hfp : frm.isFp = true ∨ to.isFp = true) (hh : Holds frm s x) (hc : convert F s.cw to x = some y)
    (hpc : usesX87Arith frm to = true → pc s.cw = 3#2) :
    ∃ s', Fp.run F (castSeq frm to) s = some s' ∧ Holds to s' y ∧ s'.cw = s.cw ∧ stBelow to s' = stBelow frm s ∧
      s'.x.get .rsp = s.x.get .rsp :=
  select F frm to s x y hfp hh hc hpc

/-- non-vacuity: the contract is satisfiable, and on the toy FPU the hypotheses hold for (double) of the unsigned int
    4000000000 (above 2^31: the zero extension matters) sitting in %eax with garbage above -/
example : ∃ (F : FpuSpec) (s : FState) (y : AVal),
    Holds (.int .u32) s (.int 4000000000) ∧ convert F s.cw .f64 (.int 4000000000) = some y ∧
    (usesX87Arith (.int .u32) .f64 = true → pc s.cw = 3#2) :=
  ⟨Toy.toy, ⟨{ regs := fun _ => 0xdeadbeefee6b2800#64, mem := fun _ => 0 }, 0, 0, [], 0x37f#16⟩, _,
    by simp [Holds, RInt, ITy.inRange, ITy.min, ITy.max, ITy.signed, ITy.bits, State.get], rfl, by decide⟩

/-- non-vacuity in the formerly excluded regions: (float) of ULONG_MAX; (unsigned long) of the double 3·2^62 ≥ 2^63;
    (unsigned long) of the long double 2^63 under the ABI control word 0x37f -/
example : ∃ (F : FpuSpec) (s : FState) (y : AVal),
    Holds (.int .u64) s (.int 18446744073709551615) ∧ convert F s.cw .f32 (.int 18446744073709551615) = some y ∧
    (usesX87Arith (.int .u64) .f32 = true → pc s.cw = 3#2) :=
  ⟨Toy.toy, ⟨{ regs := fun _ => 0xffffffffffffffff#64, mem := fun _ => 0 }, 0, 0, [], 0x37f#16⟩, _,
    by simp [Holds, RInt, ITy.inRange, ITy.min, ITy.max, ITy.signed, ITy.bits, State.get], rfl, by decide⟩

example : ∃ (F : FpuSpec) (s : FState) (b : BitVec 64),
    Holds .f64 s (.f64 b) ∧ convert F s.cw (.int .u64) (.f64 b) = some (.int 13835058055282163712) ∧
    (usesX87Arith .f64 (.int .u64) = true → pc s.cw = 3#2) :=
  ⟨Toy.toy, ⟨{ regs := fun _ => 0, mem := fun _ => 0 }, BitVec.ofNat 64 (Toy.enc 57 false 3 62), 0, [], 0x37f#16⟩, _, rfl,
    by decide, by decide⟩

example : ∃ (F : FpuSpec) (s : FState) (b : BitVec 80),
    Holds .f80 s (.f80 b) ∧ convert F s.cw (.int .u64) (.f80 b) = some (.int 9223372036854775808) ∧
    (usesX87Arith .f80 (.int .u64) = true → pc s.cw = 3#2) :=
  ⟨Toy.toy, ⟨{ regs := fun _ => 0, mem := fun _ => 0 }, 0, 0, [Toy.T80], 0x37f#16⟩, _, ⟨[], rfl⟩, by decide, by decide⟩

/-! ## chains of conversions: what `gen_expr` does with nested `ND_CAST` nodes -/

/-- **C02 (one conversion, all 144 pairs).**  `C02_select` covers the 63 pairs with a floating side; the 81 integer-only pairs
    are C01's `C01_cast` (same generated table, same `_Bool` sequence, same representation invariant), transported to the
    floating machine: the integer sequences run on the integer part of the state and touch neither %xmm0, the x87 stack, the
    control word nor %rsp.  So `cast(from, to)` implements the C11 conversion for **every** pair of arithmetic types. -/
theorem C02_cast_link (F : FpuSpec) (frm to : ATy) (s : FState) (x y : AVal)
    (hh : Holds frm s x) (hc : convert F s.cw to x = some y) (hpc : usesX87Arith frm to = true → pc s.cw = 3#2) :
    ∃ s', Fp.run F (castSeq frm to) s = some s' ∧ Holds to s' y ∧ s'.cw = s.cw ∧ stBelow to s' = stBelow frm s ∧
      s'.x.get .rsp = s.x.get .rsp :=
  link F frm to s x y hh hc hpc

/-- non-vacuity: (unsigned char) of the int −1 in %eax with garbage above: an integer-only link -/
example : ∃ (F : FpuSpec) (s : FState) (y : AVal),
    Holds (.int .i32) s (.int (-1)) ∧ convert F s.cw (.int .u8) (.int (-1)) = some y ∧ y = .int 255 ∧
    (usesX87Arith (.int .i32) (.int .u8) = true → pc s.cw = 3#2) :=
  ⟨Toy.toy, ⟨{ regs := fun _ => 0xdeadbeefffffffff#64, mem := fun _ => 0 }, 0, 0, [], 0x37f#16⟩, _,
    by simp [Holds, RInt, ITy.inRange, ITy.min, ITy.max, ITy.signed, ITy.bits, State.get], rfl, by decide, by decide⟩

/-- **C02 (chains of conversions).**  `gen_expr` on `(Tn)…(T2)(T1)e` — `nest t0 code [T1, …, Tn]`, where `e : t0` is any operand
    whose code `code` leaves its value `x` where values of type `t0` live (`hleaf`, `hh`) — prints the code of `e` followed by
    one `cast()` per `ND_CAST` node, innermost first (Model/FpChain.lean, `CastE.gen`; tied to `chibicc -S` by text on
    generated chains).  For **every** chain over the twelve arithmetic types, of any length, every machine state and every
    operand value: if C11 defines the composition of the conversions in order (`convertChain`: each conversion is applied to
    the *result* of the one before, Spec/FpChainSpec.lean), that code leaves exactly this value where values of the final type
    live, with the x87 control word, the x87 stack below the operand and %rsp as the operand's code left them.
    Explicit casts and the conversions parse.c inserts (initialisation, assignment, `return`, arguments, operands of `?:` and
    of binary operators) are the same `ND_CAST` node, so `int a = (float)i;`, `return (float)x;`, `f((float)i)` are chains too.
    `hpc`, stated once for the chain: a link unsigned long ↔ long double (x87 arithmetic) needs the ABI's x87 precision.
    Proof: induction over the chain; each link is `C02_cast_link` (= `C02_select` / C01's `C01_cast`). -/
theorem C02_cast_chain (F : FpuSpec) (t0 : ATy) (code : List Line) (ts : List ATy) (s0 s : FState) (x y : AVal)
    (hleaf : Fp.run F (instrsOf code) s0 = some s) (hh : Holds t0 s x)
    (hc : convertChain F s.cw ts x = some y)
    (hpc : chainUsesX87Arith t0 ts = true → pc s.cw = 3#2) :
    ∃ s', Fp.run F (instrsOf (nest t0 code ts).gen) s0 = some s' ∧
      (nest t0 code ts).ty = descr (chainType t0 ts) ∧ Holds (chainType t0 ts) s' y ∧
      s'.cw = s.cw ∧ stBelow (chainType t0 ts) s' = stBelow t0 s ∧ s'.x.get .rsp = s.x.get .rsp := by
  obtain ⟨s', hrun, hy, hcw, hst, hrsp⟩ := chain F ts t0 s x y hh hc hpc
  refine ⟨s', ?_, nest_ty t0 code ts, hy, hcw, hst, hrsp⟩
  rw [nest_gen, run_append F _ _ s0 s hleaf, hrun]

/-- non-vacuity: `(long)(double)(float)(unsigned)x` with x = 4026531841 (0xF0000001, above 2^31 and not a float) already in
    %eax (empty operand code): on the toy FPU the chain is defined and yields 4026531840 -/
example : ∃ (F : FpuSpec) (s : FState) (y : AVal),
    Fp.run F (instrsOf []) s = some s ∧ Holds (.int .u32) s (.int 4026531841) ∧
    convertChain F s.cw [.f32, .f64, .int .i64] (.int 4026531841) = some y ∧ y = .int 4026531840 ∧
    (chainUsesX87Arith (.int .u32) [.f32, .f64, .int .i64] = true → pc s.cw = 3#2) :=
  ⟨Toy.toy, ⟨{ regs := fun _ => 0xdeadbeeff0000001#64, mem := fun _ => 0 }, 0, 0, [], 0x37f#16⟩, _, rfl,
    by simp [Holds, RInt, ITy.inRange, ITy.min, ITy.max, ITy.signed, ITy.bits, State.get], rfl, by decide, by decide⟩

/-- **C02 (the functions the text tie compiles are these chains).**  The bodies `chibicc -S` is compared with on every run
    (`R f(void) { return (Tn)…(T1)a; }`, `g = (Tn)…(T1)a;`) are the operand's load followed by exactly the instruction sequence
    `chainSeq` that `C02_cast_chain` is about — for `return` with the return type, for an assignment with the type of the
    left-hand side, as one more link at the end. -/
theorem C02_cast_chain_code (t0 : ATy) (ts : List ATy) (r : ATy) :
    instrsOf (fnChainRet (descr t0) (ts.map descr) (descr r)) =
      instrsOf (varA ++ load (descr t0)) ++ chainSeq t0 (ts ++ [r]) ∧
    instrsOf (fnChainAssign (descr t0) (ts.map descr) (descr r)) =
      instrsOf [ins2 "lea" (.s "g(%rip)") (.r "%rax"), ins1 "push" (.r "%rax")] ++
        (instrsOf (varA ++ load (descr t0)) ++ chainSeq t0 (ts ++ [r])) ++
        instrsOf (FpChain.store (descr r) ++ FpChain.discard (descr r) ++ [ins2 "mov" (.i 0) (.r "%rax")]) := by
  have h : (leafA (descr t0)).wrap (ts.map descr ++ [descr r]) = nest t0 (varA ++ load (descr t0)) (ts ++ [r]) := by
    simp [nest, leafA]
  constructor
  · rw [fnChainRet, h, nest_gen]
  · simp only [fnChainAssign, instrsOf_append, h, nest_gen, List.append_assoc]

/-- **C02 (through float and back).**  For every integer type `T` other than `_Bool`, every FPU meeting the contract and every
    value `v` of type `T`: the code of `(T)(float)e` leaves `v` rounded to 24 significant bits (nearest, ties to even), and the
    code of `(T)(double)e` leaves `v` rounded to 53 significant bits — whenever that is a value of `T` (otherwise C11 leaves
    the conversion back undefined).  Neither is the identity: see `C02_roundtrip_not_identity`. -/
theorem C02_roundtrip_rounds (F : FpuSpec) (t : ITy) (ht : t ≠ .bool) (code : List Line) (s0 s : FState) (v : Int)
    (hleaf : Fp.run F (instrsOf code) s0 = some s) (hh : Holds (.int t) s (.int v)) :
    (t.inRange (roundInt 24 v) →
      ∃ s', Fp.run F (instrsOf (nest (.int t) code [.f32, .int t]).gen) s0 = some s' ∧
        Holds (.int t) s' (.int (roundInt 24 v)) ∧ s'.cw = s.cw ∧ s'.st = s.st ∧ s'.x.get .rsp = s.x.get .rsp) ∧
    (t.inRange (roundInt 53 v) →
      ∃ s', Fp.run F (instrsOf (nest (.int t) code [.f64, .int t]).gen) s0 = some s' ∧
        Holds (.int t) s' (.int (roundInt 53 v)) ∧ s'.cw = s.cw ∧ s'.st = s.st ∧ s'.x.get .rsp = s.x.get .rsp) := by
  have hr : t.inRange v := hh.1
  have hv : v.natAbs ≤ 2 ^ 64 := by
    cases t <;> simp [ITy.inRange, ITy.min, ITy.max, ITy.signed, ITy.bits] at hr <;> omega
  constructor
  · intro hin
    have hx : chainUsesX87Arith (.int t) [.f32, .int t] = false := by cases t <;> rfl
    obtain ⟨s', h1, _, h3, h4, h5, h6⟩ := C02_cast_chain F (.int t) code [.f32, .int t] s0 s _ _ hleaf hh
      (via_f32 F s.cw t ht v hv hin) (by simp [hx])
    exact ⟨s', h1, h3, h4, by simpa [stBelow, chainType] using h5, h6⟩
  · intro hin
    have hx : chainUsesX87Arith (.int t) [.f64, .int t] = false := by cases t <;> rfl
    obtain ⟨s', h1, _, h3, h4, h5, h6⟩ := C02_cast_chain F (.int t) code [.f64, .int t] s0 s _ _ hleaf hh
      (via_f64 F s.cw t ht v hv hin) (by simp [hx])
    exact ⟨s', h1, h3, h4, by simpa [stBelow, chainType] using h5, h6⟩

/-- non-vacuity: INT_MIN = −2^31 is a float, 2^24 + 3 rounds to 2^24 + 4 (both values of `int`) -/
example : (ITy.i32 ≠ .bool) ∧ ITy.i32.inRange (roundInt 24 (-2147483648)) ∧ roundInt 24 16777219 = 16777220 ∧
    ITy.i32.inRange (roundInt 53 16777219) := by decide

/-- **C02 (a conversion to a floating type of the same size and back is NOT the identity).**  Kernel-checked witnesses, for every
    FPU meeting the contract and every operand code: `(int)(float)e` with `e` = 16777217 = 2^24 + 1 must leave 16777216, and
    `(long)(double)e` with `e` = 9007199254740993 = 2^53 + 1 must leave 9007199254740992; the state the operand's code alone
    leaves (what a compiler prints that drops both conversions as a "round trip") does **not** represent that value.
    (`hc1`/`hc2` say the same on the specification side: the C11 value of the chain differs from the operand.) -/
theorem C02_roundtrip_not_identity (F : FpuSpec) (code : List Line) (s0 s : FState)
    (hleaf : Fp.run F (instrsOf code) s0 = some s) :
    (Holds (.int .i32) s (.int 16777217) →
      (∃ s', Fp.run F (instrsOf (nest (.int .i32) code [.f32, .int .i32]).gen) s0 = some s' ∧
        Holds (.int .i32) s' (.int 16777216)) ∧
      ¬ Holds (.int .i32) s (.int 16777216) ∧
      convertChain F s.cw [.f32, .int .i32] (.int 16777217) = some (.int 16777216)) ∧
    (Holds (.int .i64) s (.int 9007199254740993) →
      (∃ s', Fp.run F (instrsOf (nest (.int .i64) code [.f64, .int .i64]).gen) s0 = some s' ∧
        Holds (.int .i64) s' (.int 9007199254740992)) ∧
      ¬ Holds (.int .i64) s (.int 9007199254740992) ∧
      convertChain F s.cw [.f64, .int .i64] (.int 9007199254740993) = some (.int 9007199254740992)) := by
  have r24 : roundInt 24 16777217 = 16777216 := by decide
  have r53 : roundInt 53 9007199254740993 = 9007199254740992 := by decide
  constructor
  · intro hh
    obtain ⟨s', h1, h2, _⟩ := (C02_roundtrip_rounds F .i32 (by decide) code s0 s 16777217 hleaf hh).1 (by rw [r24]; decide)
    refine ⟨⟨s', h1, r24 ▸ h2⟩, ?_, ?_⟩
    · intro h
      have a := hh.2; have b := h.2
      simp only at a b
      omega
    · have := via_f32 F s.cw .i32 (by decide) 16777217 (by decide) (by rw [r24]; decide)
      rw [r24] at this; exact this
  · intro hh
    obtain ⟨s', h1, h2, _⟩ := (C02_roundtrip_rounds F .i64 (by decide) code s0 s 9007199254740993 hleaf hh).2 (by rw [r53]; decide)
    refine ⟨⟨s', h1, r53 ▸ h2⟩, ?_, ?_⟩
    · intro h
      have a := hh.2; have b := h.2
      simp only at a b
      omega
    · have := via_f64 F s.cw .i64 (by decide) 9007199254740993 (by decide) (by rw [r53]; decide)
      rw [r53] at this; exact this

/-- non-vacuity: a state whose %eax holds 2^24 + 1 (garbage above), reached by the empty operand code; one whose %rax holds 2^53 + 1 -/
example : ∃ (F : FpuSpec) (s : FState), Fp.run F (instrsOf []) s = some s ∧ Holds (.int .i32) s (.int 16777217) :=
  ⟨Toy.toy, ⟨{ regs := fun _ => 0xdeadbeef01000001#64, mem := fun _ => 0 }, 0, 0, [], 0x37f#16⟩, rfl,
    by simp [Holds, RInt, ITy.inRange, ITy.min, ITy.max, ITy.signed, ITy.bits, State.get]⟩

example : ∃ (F : FpuSpec) (s : FState), Fp.run F (instrsOf []) s = some s ∧ Holds (.int .i64) s (.int 9007199254740993) :=
  ⟨Toy.toy, ⟨{ regs := fun _ => 0x0020000000000001#64, mem := fun _ => 0 }, 0, 0, [], 0x37f#16⟩, rfl,
    by simp [Holds, RInt, ITy.inRange, ITy.min, ITy.max, ITy.signed, ITy.bits, State.get]⟩

/-! ## binary operators on operands of two different types (usual arithmetic conversions at work) -/

/-- **C02 (mixed operands: each operand is converted by the cell the rank rule selects).**  For every one of the ten binary
    operators and every pair of arithmetic types whose C11 common type `c = usualArith a b` (6.3.1.8, the *specification's*
    function) is floating, the code of `a OP b` (`fnBinary`, over `get_common_type` regenerated from type.c and the regenerated
    cast table; tied to `chibicc -S` by text for all 63 × 10 cases) is: each operand loaded and converted by exactly
    `cast(its type, c)`, the operands of `>` / `>=` exchanged, evaluated left then right on the x87 stack when `c` is long double
    and right, `pushf`, left, `popf(1)` otherwise, followed by the operator lines of `c` — not of `a`, `b` or any other type.
    For the arithmetic operators (no exchange) its instructions are `binarySeq c op a b` over the two loads, the sequence whose
    value `C02_binary_value_sse` / `C02_binary_value_x87` establish. -/
theorem C02_binary_code (op : SrcOp) (a b : ATy) (ha : a ∈ ATy.all) (hb : b ∈ ATy.all)
    (hfp : (usualArith a b).isFp = true) :
    ∃ opl code, fpOp (descr (usualArith a b)) op.node.1 = some opl ∧ fnBinary op (descr a) (descr b) = some code ∧
      code = (let ea := operandCode varA a (usualArith a b)
              let eb := operandCode varB b (usualArith a b)
              let l := if op.node.2 then eb else ea
              let r := if op.node.2 then ea else eb
              if usualArith a b = .f80 then l ++ r ++ opl else r ++ pushf ++ l ++ popf1 ++ opl) ∧
      (op.node.2 = false →
        instrsOf code = binarySeq (usualArith a b) op.node.1 a b (instrsOf (varA ++ load (descr a)))
          (instrsOf (varB ++ load (descr b)))) := by
  have hr := C02_rank a ha b hb
  generalize hc : usualArith a b = c at hr hfp
  cases c with
  | int t => simp [ATy.isFp] at hfp
  | f32 =>
    refine ⟨_, _, rfl, by simp only [fnBinary, hr]; rfl, by cases op <;> rfl, ?_⟩
    intro h
    cases op <;> simp [SrcOp.node] at h <;>
      simp [binarySeq, instrsOf_append, castSeq, SrcOp.node, descr, ty_float, List.append_assoc]
  | f64 =>
    refine ⟨_, _, rfl, by simp only [fnBinary, hr]; rfl, by cases op <;> rfl, ?_⟩
    intro h
    cases op <;> simp [SrcOp.node] at h <;>
      simp [binarySeq, instrsOf_append, castSeq, SrcOp.node, descr, ty_double, List.append_assoc] <;> rfl
  | f80 =>
    refine ⟨_, _, rfl, by simp only [fnBinary, hr]; rfl, by cases op <;> rfl, ?_⟩
    intro h
    cases op <;> simp [SrcOp.node] at h <;>
      simp [binarySeq, instrsOf_append, castSeq, SrcOp.node, descr, ty_ldouble, List.append_assoc]

/-- non-vacuity: 63 of the 144 pairs have a floating common type; e.g. unsigned long with float is float, int with long double
    is long double -/
example : ((ATy.all.flatMap fun a => ATy.all.map fun b => (a, b)).filter fun p => (usualArith p.1 p.2).isFp).length = 63 ∧
    usualArith (.int .u64) .f32 = .f32 ∧ usualArith (.int .i32) .f80 = .f80 := by decide

/-- **C02 (mixed operands, float / double common type: the value).**  `a OP b` for `OP` ∈ {+, −, ×, ÷} when the common type
    `c = usualArith a b` is float or double.  `gen_expr` evaluates the RIGHT operand first (`hrunB`, `hy`: its code has left its
    value `y`), converts it with `cast(b, c)`, saves it with `pushf()`, evaluates the left operand (`hx`: any code that yields `x`
    without writing memory, %rsp, the control word or the x87 stack), converts it with `cast(a, c)`, restores the right operand
    into %xmm1 with `popf(1)` and applies the operator of type `c`.  For every FPU meeting the contract the result is
    `(c)x OP (c)y` — the C11 conversions of both operands to the common type, one application of the FPU's operation with the
    LEFT operand first — with %rsp, the control word and the x87 stack as they were.
    Composes `C02_cast_link` (twice), `C02_arith`, and the frame fact that the conversions to float / double from any type but
    long double use registers only, so that the saved operand survives the evaluation of the other one. -/
theorem C02_binary_value_sse (F : FpuSpec) (op : FOp) (hop : op.isCmp = false) (a b : ATy)
    (hc : usualArith a b = .f32 ∨ usualArith a b = .f64)
    (codeA codeB : List Ins) (x y x' y' z : AVal) (s0 s : FState)
    (hrunB : Fp.run F codeB s0 = some s) (hy : Holds b s y) (hx : Yields F codeA a x)
    (cx : convert F s.cw (usualArith a b) x = some x') (cy : convert F s.cw (usualArith a b) y = some y')
    (hz : arithVal F s.cw op x' y' = some z) :
    ∃ s', Fp.run F (binarySeq (usualArith a b) op a b codeA codeB) s0 = some s' ∧ Holds (usualArith a b) s' z ∧
      s'.x.get .rsp = s.x.get .rsp ∧ s'.cw = s.cw ∧ s'.st = s.st := by
  have ha : a ≠ .f80 := by rintro rfl; rcases hc with h | h <;> simp [Spec.FpC11.usualArith] at h
  have hb : b ≠ .f80 := by rintro rfl; rcases hc with h | h <;> cases a <;> simp [Spec.FpC11.usualArith] at h
  exact binary_sse F op hop a b _ hc ha hb codeA codeB x y x' y' z s0 s hrunB hy hx cy cx hz

/-- non-vacuity: `5L + d` on the toy FPU: the left operand is the constant 5 (`mov $5, %rax` yields it from every state), the
    right operand a double already in %xmm0; common type double -/
example : ∃ (F : FpuSpec) (codeA : List Ins) (s : FState) (y x' y' z : AVal),
    (usualArith (.int .i64) .f64 = .f32 ∨ usualArith (.int .i64) .f64 = .f64) ∧
    Fp.run F [] s = some s ∧ Holds .f64 s y ∧ Yields F codeA (.int .i64) (.int 5) ∧
    convert F s.cw (usualArith (.int .i64) .f64) (.int 5) = some x' ∧ convert F s.cw (usualArith (.int .i64) .f64) y = some y' ∧
    arithVal F s.cw .add x' y' = some z :=
  ⟨Toy.toy, [⟨"mov", [.i 5, .r "%rax"]⟩], ⟨{ regs := fun _ => 0, mem := fun _ => 0 }, 0x4008000000000000#64, 0, [], 0x37f#16⟩,
    .f64 0x4008000000000000#64, _, _, _, Or.inr rfl, rfl, rfl, yields_mov _ 5 (by decide), rfl, rfl, rfl⟩

/-- **C02 (mixed operands, long double common type: the value).**  `a OP b` for `OP` ∈ {+, −, ×, ÷} when the common type is long
    double: `gen_expr` evaluates the LEFT operand first (`hrunA`, `hx`), converts it with `cast(a, long double)` onto the x87
    stack, evaluates the right operand (`hy`) and converts it with `cast(b, long double)`, then `faddp` / `fsubrp` / `fmulp` /
    `fdivrp`.  The result on top of the x87 stack is `(long double)x OP (long double)y`, left operand first, computed under the
    control word in force; the stack below, %rsp and the control word are unchanged.  `hpc`: an unsigned long operand is
    converted by the cell that does x87 arithmetic and needs the ABI's precision control. -/
theorem C02_binary_value_x87 (F : FpuSpec) (op : FOp) (hop : op.isCmp = false) (a b : ATy) (hc : usualArith a b = .f80)
    (codeA codeB : List Ins) (x y x' y' z : AVal) (s0 s : FState)
    (hrunA : Fp.run F codeA s0 = some s) (hx : Holds a s x) (hy : Yields F codeB b y)
    (cx : convert F s.cw (usualArith a b) x = some x') (cy : convert F s.cw (usualArith a b) y = some y')
    (hz : arithVal F s.cw op x' y' = some z)
    (hpc : (usesX87Arith a .f80 || usesX87Arith b .f80) = true → pc s.cw = 3#2) :
    ∃ s', Fp.run F (binarySeq (usualArith a b) op a b codeA codeB) s0 = some s' ∧ Holds (usualArith a b) s' z ∧
      s'.x.get .rsp = s.x.get .rsp ∧ s'.cw = s.cw ∧ stBelow .f80 s' = stBelow a s := by
  rw [hc] at cx cy ⊢
  exact binary_x87 F op hop a b codeA codeB x y x' y' z s0 s hrunA hx hy cx cy hz hpc

/-- non-vacuity: `l / 5L` with the long double `l` on the x87 stack and the constant 5 as right operand -/
example : ∃ (F : FpuSpec) (codeB : List Ins) (s : FState) (x x' y' z : AVal),
    usualArith .f80 (.int .i64) = .f80 ∧ Fp.run F [] s = some s ∧ Holds .f80 s x ∧ Yields F codeB (.int .i64) (.int 5) ∧
    convert F s.cw (usualArith .f80 (.int .i64)) x = some x' ∧ convert F s.cw (usualArith .f80 (.int .i64)) (.int 5) = some y' ∧
    arithVal F s.cw .div x' y' = some z ∧ ((usesX87Arith .f80 .f80 || usesX87Arith (.int .i64) .f80) = true → pc s.cw = 3#2) :=
  ⟨Toy.toy, [⟨"mov", [.i 5, .r "%rax"]⟩], ⟨{ regs := fun _ => 0, mem := fun _ => 0 }, 0, 0, [Toy.T80], 0x37f#16⟩,
    .f80 Toy.T80, _, _, _, rfl, rfl, ⟨[], rfl⟩, yields_mov _ 5 (by decide), rfl, rfl, rfl, by decide⟩

/-! ## unsigned long at ≥ 2^63, spelled out -/

/-- **C02 (unsigned long → long double, top bit set), machine level.**  `fildq` reads the pattern as the negative number
    v − 2^64; the float constant 0x5F800000 (2^64) is then added in extended precision. -/
theorem C02_u64f80_machine (F : FpuSpec) (s : FState) (h : (s.x.get .rax).msb = true) :
    ∃ s', Fp.run F (castSeq (.int .u64) .f80) s = some s' ∧
      s'.st = F.fadd s.cw (F.ofInt80 ((s.x.get .rax).toNat - 18446744073709551616)) (F.fld32 1602224128#32) :: s.st ∧
      s'.cw = s.cw ∧ s'.x.get .rsp = s.x.get .rsp := by
  obtain ⟨s', h1, h2, h3, h4⟩ := eff_u64f80_neg F s h
  refine ⟨s', h1, ?_, h3, h4⟩
  rw [h2, F.fild64_spec]
  congr 3
  rw [BitVec.toInt_eq_toNat_cond]
  have := (BitVec.msb_eq_decide (s.x.get .rax)).symm.trans h
  simp at this
  split <;> omega

/-- non-vacuity: 2^64 − 1 in %rax has the top bit set -/
example : ∃ s : FState, (s.x.get .rax).msb = true :=
  ⟨⟨{ regs := fun _ => 0xffffffffffffffff#64, mem := fun _ => 0 }, 0, 0, [], 0x37f#16⟩, by decide⟩

/-- **C02 (unsigned long → long double, all 2^64 values).**  Under the ABI's x87 precision the cell `u64f80` pushes exactly the
    datum of the unsigned value (every 64-bit integer is a long double). -/
theorem C02_u64f80 (F : FpuSpec) (s : FState) (v : Int) (hh : Holds (.int .u64) s (.int v)) (hpc : pc s.cw = 3#2) :
    ∃ s', Fp.run F (castSeq (.int .u64) .f80) s = some s' ∧ s'.st = F.ofInt80 v :: s.st ∧
      (F.val80 (F.ofInt80 v)).toInt? = some v ∧ s'.cw = s.cw ∧ s'.x.get .rsp = s.x.get .rsp := by
  have hr : ITy.u64.inRange v := hh.1
  have hv0 : 0 ≤ v ∧ v < 18446744073709551616 := by
    simp [ITy.inRange, ITy.min, ITy.max, ITy.signed, ITy.bits] at hr; omega
  obtain ⟨s', hrun, hst, hcw, hrsp⟩ := sel_u64_f80 F s v hh (fun _ => hpc)
  refine ⟨s', hrun, hst, ?_, hcw, hrsp⟩
  rw [F.ofInt80_val v (by omega), Toy.roundInt_small 64 v (by omega)]

/-- non-vacuity: ULONG_MAX under the control word 0x37f -/
example : ∃ s : FState, Holds (.int .u64) s (.int 18446744073709551615) ∧ pc s.cw = 3#2 :=
  ⟨⟨{ regs := fun _ => 0xffffffffffffffff#64, mem := fun _ => 0 }, 0, 0, [], 0x37f#16⟩,
    by simp [Holds, RInt, ITy.inRange, ITy.min, ITy.max, ITy.signed, ITy.bits, State.get], by decide⟩

/-- **C02 (unsigned long → double, all 2^64 values).**  On every FPU that meets the contract the branchy cell `u64f64` —
    `test; js`, and for values ≥ 2^63: halve with the lost bit or-ed back in, `cvtsi2sd`, `addsd %xmm0, %xmm0` — leaves exactly
    the datum of the C11 result `F.ofInt64 v`, which denotes round-to-nearest-even of the *unsigned* value to 53 significant
    bits.  (Earlier versions needed "x + x is exact" as a hypothesis; it is now the contract `addsd_double`.) -/
theorem C02_u64f64 (F : FpuSpec) (s : FState) (v : Int) (hh : Holds (.int .u64) s (.int v)) :
    ∃ s', Fp.run F (castSeq (.int .u64) .f64) s = some s' ∧ s'.xmm0 = F.ofInt64 v ∧
      (F.val64 s'.xmm0).toInt? = some (roundInt 53 v) ∧ (F.val64 s'.xmm0).toInt? = (F.val64 (F.ofInt64 v)).toInt? ∧
      s'.st = s.st ∧ s'.cw = s.cw ∧ s'.x.get .rsp = s.x.get .rsp := by
  have hr : ITy.u64.inRange v := hh.1
  have hv0 : 0 ≤ v ∧ v < 18446744073709551616 := by
    simp [ITy.inRange, ITy.min, ITy.max, ITy.signed, ITy.bits] at hr; omega
  obtain ⟨s', hrun, hx, hst, hcw, hrsp⟩ := sel_u64_f64 F s v hh
  exact ⟨s', hrun, hx, by rw [hx]; exact F.ofInt64_val v (by omega), by rw [hx], hst, hcw, hrsp⟩

/-- **C02 (unsigned long → float, all 2^64 values).**  The repaired cell `u64f32` (the same halving sequence with `cvtsi2ss` /
    `addss`) leaves exactly the datum of the C11 result, which denotes the unsigned value rounded to 24 significant bits. -/
theorem C02_u64f32 (F : FpuSpec) (s : FState) (v : Int) (hh : Holds (.int .u64) s (.int v)) :
    ∃ s', Fp.run F (castSeq (.int .u64) .f32) s = some s' ∧ s'.xmm0.setWidth 32 = F.ofInt32 v ∧
      (F.val32 (s'.xmm0.setWidth 32)).toInt? = some (roundInt 24 v) ∧
      s'.st = s.st ∧ s'.cw = s.cw ∧ s'.x.get .rsp = s.x.get .rsp := by
  have hr : ITy.u64.inRange v := hh.1
  have hv0 : 0 ≤ v ∧ v < 18446744073709551616 := by
    simp [ITy.inRange, ITy.min, ITy.max, ITy.signed, ITy.bits] at hr; omega
  obtain ⟨s', hrun, hx, hst, hcw, hrsp⟩ := sel_u64_f32 F s v hh
  exact ⟨s', hrun, hx, by rw [hx]; exact F.ofInt32_val v (by omega), hst, hcw, hrsp⟩

/-- non-vacuity: ULONG_MAX in %rax represents the unsigned long 2^64 − 1 -/
example : ∃ s : FState, Holds (.int .u64) s (.int 18446744073709551615) :=
  ⟨⟨{ regs := fun _ => 0xffffffffffffffff#64, mem := fun _ => 0 }, 0, 0, [], 0x37f#16⟩,
    by simp [Holds, RInt, ITy.inRange, ITy.min, ITy.max, ITy.signed, ITy.bits, State.get]⟩

/-- **C02 (floating → unsigned long, every value with 0 ≤ trunc x < 2^64).**  The repaired cells `f32u64`, `f64u64`, `f80u64`
    leave in %rax the integral part `i` of the operand, also when 2^63 ≤ i. -/
theorem C02_fp_to_u64 (F : FpuSpec) (s : FState) (i : Int) (hin : ITy.u64.inRange i) :
    (∀ b, s.xmm0.setWidth 32 = b → (F.val32 b).trunc? = some i →
      ∃ s', Fp.run F (castSeq .f32 (.int .u64)) s = some s' ∧ ((s'.x.get .rax).toNat : Int) = i ∧ s'.st = s.st ∧ s'.cw = s.cw) ∧
    (∀ b, s.xmm0 = b → (F.val64 b).trunc? = some i →
      ∃ s', Fp.run F (castSeq .f64 (.int .u64)) s = some s' ∧ ((s'.x.get .rax).toNat : Int) = i ∧ s'.st = s.st ∧ s'.cw = s.cw) ∧
    (∀ b rest, s.st = b :: rest → (F.val80 b).trunc? = some i → pc s.cw = 3#2 →
      ∃ s', Fp.run F (castSeq .f80 (.int .u64)) s = some s' ∧ ((s'.x.get .rax).toNat : Int) = i ∧ s'.st = rest ∧ s'.cw = s.cw) := by
  have hr : 0 ≤ i ∧ i < 18446744073709551616 := by
    simp [ITy.inRange, ITy.min, ITy.max, ITy.signed, ITy.bits] at hin; omega
  refine ⟨?_, ?_, ?_⟩
  · intro b hb htr
    obtain ⟨s', h1, h2, h3, h4, _⟩ := sel_f32_u64 F s b hb i htr hin
    exact ⟨s', h1, by have := h2.2; simp only at this; omega, h3, h4⟩
  · intro b hb htr
    obtain ⟨s', h1, h2, h3, h4, _⟩ := sel_f64_u64 F s b hb i htr hin
    exact ⟨s', h1, by have := h2.2; simp only at this; omega, h3, h4⟩
  · intro b rest hb htr hpc
    obtain ⟨s', h1, h2, h3, h4, _⟩ := sel_f80_u64 F s b rest hb i htr hin (fun _ => hpc)
    exact ⟨s', h1, by have := h2.2; simp only at this; omega, h3, h4⟩

/-- non-vacuity: 3·2^62 ≥ 2^63 is an unsigned long -/
example : ITy.u64.inRange 13835058055282163712 := by decide

/-! ## floating constants -/

/-- **C02 (constants: code generation).**  `ND_NUM` of type float / double / long double whose value is the long double `fval`
    (as held by the compiler): the immediates printed are the bit pattern of `(float)fval` / `(double)fval` / `fval` (the union
    punning, with `hostCw` the compiler's own x87 control word), and executing them leaves exactly that datum where a value of
    the node's type lives — for every `fval`, i.e. the C11 conversion of `fval` to the node's type. -/
theorem C02_const (F : FpuSpec) (hostCw : BitVec 16) (fval : BitVec 80) (s : FState) :
    (∃ s' y, convert F hostCw .f32 (.f80 fval) = some y ∧
      Fp.run F (instrsOf (numF32 (F.fst32 hostCw fval))) s = some s' ∧ Holds .f32 s' y ∧ s'.st = s.st ∧ s'.cw = s.cw) ∧
    (∃ s' y, convert F hostCw .f64 (.f80 fval) = some y ∧
      Fp.run F (instrsOf (numF64 (F.fst64 hostCw fval))) s = some s' ∧ Holds .f64 s' y ∧ s'.st = s.st ∧ s'.cw = s.cw) ∧
    (∃ s', Fp.run F (instrsOf (numF80 fval)) s = some s' ∧ Holds .f80 s' (.f80 fval) ∧ s'.st = fval :: s.st ∧ s'.cw = s.cw) := by
  refine ⟨?_, ?_, ?_⟩
  · obtain ⟨s', h1, h2, h3, h4, _⟩ := num_f32 F (F.fst32 hostCw fval) s
    exact ⟨s', _, rfl, h1, h2, h3, h4⟩
  · obtain ⟨s', h1, h2, h3, h4, _⟩ := num_f64 F (F.fst64 hostCw fval) s
    exact ⟨s', _, rfl, h1, h2, h3, h4⟩
  · obtain ⟨s', h1, h2, h3, _⟩ := num_f80 F fval s
    exact ⟨s', h1, ⟨s.st, h2⟩, h2, h3⟩

open ChibiVerif.FpLiteral ChibiVerif.Gen.FpLiteral in
/-- **C02 (constants: each suffix reads with the function of its own type).**  Over the suffix ladder of `convert_pp_number`
    as regenerated from tokenize.c: the `f`/`F` arm keeps `strtof`'s result, the `l`/`L` arm `strtold`'s, the unsuffixed arm
    `strtod`'s — C11 6.4.4.2p3: the constant is rounded once, to its own type. -/
theorem C02_const_parser :
    (∀ a ∈ suffixArms, a.2.2 = ownParser a.2.1) ∧ defaultArm.2 = ownParser defaultArm.1 ∧
    (suffixArms.map (·.2.1) ++ [defaultArm.1]).Perm [.ty_float, .ty_ldouble, .ty_double] := by decide

open ChibiVerif.FpLiteral ChibiVerif.Gen.FpLiteral in
/-- **C02 (constants: from the spelling to the machine).**  For every pp-number `convert_pp_number` accepts as a floating
    constant of type `ty` with value `fval`, the instructions `ND_NUM` prints leave — for every compiler-side control word —
    exactly the datum that libc's function *of that type* returned on the spelling (`strtof` for float, `strtod` for double,
    `strtold` for long double): the round trip through the compiler's `long double` and the union punning changes no bit.
    (`hnn`: libc returns no NaN for a pp-number; a pp-number cannot spell one.) -/
theorem C02_const_literal (F : FpuSpec) (hostCw : BitVec 16) (p : Parsed) (ty : FTy) (fval : BitVec 80) (s : FState)
    (hconv : convertPpNumberFp F p = .num ty fval)
    (hnn : (F.val32 p.f32).isNaN = false ∧ (F.val64 p.f64).isNaN = false) :
    ∃ s', Fp.run F (instrsOf (numLines F hostCw ty fval)) s = some s' ∧ Holds (atyOf ty) s' (datumOf p ty) ∧
      s'.cw = s.cw ∧ stBelow (atyOf ty) s' = s.st ∧ s'.x.get .rsp = s.x.get .rsp :=
  literal_datum F hostCw p ty fval s hconv hnn

open ChibiVerif.FpLiteral ChibiVerif.Gen.FpLiteral in
/-- non-vacuity: on the toy FPU, an unsuffixed spelling of 2^53 + 1 (all three libc results as the contract prescribes)
    is accepted as a double, an `f`-suffixed one as a float -/
example : ∃ (p : Parsed) (fval : BitVec 80), convertPpNumberFp Toy.toy p = .num .ty_double fval ∧
    (Toy.toy.val32 p.f32).isNaN = false ∧ (Toy.toy.val64 p.f64).isNaN = false :=
  ⟨⟨Toy.ofInt32 9007199254740993, Toy.ofInt64 9007199254740993, Toy.ofInt80 9007199254740993, 0, 0⟩, _, rfl,
    by decide, by decide⟩

open ChibiVerif.FpLiteral ChibiVerif.Gen.FpLiteral in
example : ∃ (p : Parsed) (fval : BitVec 80), convertPpNumberFp Toy.toy p = .num .ty_float fval ∧
    (Toy.toy.val32 p.f32).isNaN = false ∧ (Toy.toy.val64 p.f64).isNaN = false :=
  ⟨⟨Toy.ofInt32 9007199254740993, Toy.ofInt64 9007199254740993, Toy.ofInt80 9007199254740993, 102, 1⟩, _, rfl,
    by decide, by decide⟩

open ChibiVerif.FpLiteral ChibiVerif.Gen.FpLiteral in
/-- **C02 (constants: rounded once).**  Relative to the libc contract `LibcRounds` (each of `strtof`/`strtod`/`strtold` is
    correctly rounding; trusted, validated by the check): for a spelling with the integer value `n`, the datum the emitted code
    materialises denotes `n` rounded to nearest-even **once**, to the 24 / 53 / 64 significant bits of the constant's own type.
    (The old code computed `roundNat 53 (roundNat 64 n)`, which differs: Findings/C02.lean.) -/
theorem C02_const_rounded (F : FpuSpec) (hostCw : BitVec 16) (n : Nat) (p : Parsed) (hl : LibcRounds F n p)
    (ty : FTy) (fval : BitVec 80) (s : FState) (hconv : convertPpNumberFp F p = .num ty fval) :
    ∃ s' d v, Fp.run F (instrsOf (numLines F hostCw ty fval)) s = some s' ∧ Holds (atyOf ty) s' d ∧ valOf F d = some v ∧
      v.toInt? = some (roundNat (precOf ty) n : Int) := by
  have hnn : (F.val32 p.f32).isNaN = false ∧ (F.val64 p.f64).isNaN = false := by
    constructor
    · have := hl.f32; cases h : F.val32 p.f32 <;> simp_all [Val.toInt?, Val.isNaN]
    · have := hl.f64; cases h : F.val64 p.f64 <;> simp_all [Val.toInt?, Val.isNaN]
  obtain ⟨s', hrun, hh, _⟩ := literal_datum F hostCw p ty fval s hconv hnn
  cases ty with
  | ty_float => exact ⟨s', _, _, hrun, hh, rfl, hl.f32⟩
  | ty_double => exact ⟨s', _, _, hrun, hh, rfl, hl.f64⟩
  | ty_ldouble => exact ⟨s', _, _, hrun, hh, rfl, hl.f80⟩

open ChibiVerif.FpLiteral in
/-- non-vacuity: the toy libc that rounds correctly satisfies the contract at 2^53 + 1 (inexact in float and in double) -/
example : LibcRounds Toy.toy 9007199254740993
    ⟨Toy.ofInt32 ((9007199254740993 : Nat) : Int), Toy.ofInt64 ((9007199254740993 : Nat) : Int),
     Toy.ofInt80 ((9007199254740993 : Nat) : Int), 0, 0⟩ :=
  ⟨by rw [← roundInt_nat]; exact Toy.ofInt32_val ((9007199254740993 : Nat) : Int) (by decide),
   by rw [← roundInt_nat]; exact Toy.ofInt64_val ((9007199254740993 : Nat) : Int) (by decide),
   by rw [← roundInt_nat]; exact Toy.ofInt80_val ((9007199254740993 : Nat) : Int) (by decide)⟩

/-! ## without an FPU contract: the bit layouts themselves -/

open ChibiVerif.Spec.Fpu.Ieee in
/-- **C02 (integer ↔ floating, absolute).**  No `FpuSpec` here: `Ieee.decode32/64/80` are the IEEE-754 binary32 / binary64 and x87
    double-extended layouts, `Ieee.ofInt32/64/80` the encoders whose output the check compares bit for bit with `cvtsi2ss/sd` and
    `fild` on the host CPU.  For every integer of magnitude ≤ 2^64 the encoded datum decodes to the integer rounded to nearest,
    ties to even, to 24 / 53 / 64 significant bits — the contracts `ofInt*_val` hold of the real layouts. -/
theorem C02_ieee_int_roundtrip (n : Int) (h : n.natAbs ≤ 2 ^ 64) :
    (decode32 (ofInt32 n)).toInt? = some (roundInt 24 n) ∧ (decode64 (ofInt64 n)).toInt? = some (roundInt 53 n) ∧
    (decode80 (ofInt80 n)).toInt? = some (roundInt 64 n) :=
  ⟨decode_ofInt32 n h, decode_ofInt64 n h, decode_ofInt80 n h⟩

/-- non-vacuity -/
example : (18446744073709551615 : Int).natAbs ≤ 2 ^ 64 := by decide

open ChibiVerif.Spec.Fpu.Ieee in
/-- **C02 (int → floating is exact when it can be).**  |n| ≤ 2^24: `(float)n` denotes n; |n| ≤ 2^53: `(double)n` denotes n;
    every 64-bit integer (|n| ≤ 2^64): `(long double)n` denotes n — on the bit layouts, with no assumption about the FPU. -/
theorem C02_ieee_int_exact (n : Int) :
    (n.natAbs ≤ 2 ^ 24 → (decode32 (ofInt32 n)).toInt? = some n) ∧
    (n.natAbs ≤ 2 ^ 53 → (decode64 (ofInt64 n)).toInt? = some n) ∧
    (n.natAbs ≤ 2 ^ 64 → (decode80 (ofInt80 n)).toInt? = some n) := by
  have p24 : (2:Nat) ^ 24 ≤ 2 ^ 64 := by decide
  have p53 : (2:Nat) ^ 53 ≤ 2 ^ 64 := by decide
  refine ⟨fun h => ?_, fun h => ?_, fun h => ?_⟩
  · rw [decode_ofInt32 n (by omega), roundInt_exact 24 n (by decide) h]
  · rw [decode_ofInt64 n (by omega), roundInt_exact 53 n (by decide) h]
  · rw [decode_ofInt80 n h, roundInt_exact 64 n (by decide) h]

/-- non-vacuity: 2^53 itself, and the first integer that is not a double -/
example : ((9007199254740992 : Int).natAbs ≤ 2 ^ 53) ∧ ¬ ((9007199254740993 : Int).natAbs ≤ 2 ^ 53) := by decide

open ChibiVerif.Spec.Fpu.Ieee in
/-- **C02 (floating → int truncation gives the integer back, absolute).**  With `truncTo` the SDM result of `cvtt*2si` / `fistp`
    (integer part if representable): `(int)(float)n = n` for |n| ≤ 2^24, `(long)(double)n = n` for |n| ≤ 2^53, and
    `(long)(long double)n = n` for **every** long — from the bit layouts alone. -/
theorem C02_ieee_trunc_back (n : Int) :
    (n.natAbs ≤ 2 ^ 24 → truncTo 32 (decode32 (ofInt32 n)) = BitVec.ofInt 32 n) ∧
    (n.natAbs ≤ 2 ^ 53 → truncTo 64 (decode64 (ofInt64 n)) = BitVec.ofInt 64 n) ∧
    (-(2 ^ 63 : Int) ≤ n ∧ n < 2 ^ 63 → truncTo 64 (decode80 (ofInt80 n)) = BitVec.ofInt 64 n) := by
  obtain ⟨h32, h64, h80⟩ := C02_ieee_int_exact n
  refine ⟨fun h => ?_, fun h => ?_, fun h => ?_⟩
  · exact truncTo_of_toInt 32 _ n (h32 h) (by simp; omega) (by simp; omega)
  · exact truncTo_of_toInt 64 _ n (h64 h) (by simp; omega) (by simp; omega)
  · exact truncTo_of_toInt 64 _ n (h80 (by omega)) (by simp; omega) (by simp; omega)

/-- non-vacuity: LONG_MIN is a long -/
example : -(2 ^ 63 : Int) ≤ -9223372036854775808 ∧ (-9223372036854775808 : Int) < 2 ^ 63 := by decide

end ChibiVerif.Props.C02
