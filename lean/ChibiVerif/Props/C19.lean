/-
C19 — preprocessed output is a faithful program.

Property theorems only (helper lemmas: Lemmas/LexLemmas.lean — one scanning step —, Lemmas/LexSeq.lean — the loop —,
Lemmas/C19Bridge.lean — the second pass).

Objects:
  `lex`          Model/Lex.lean          tokenize.c `tokenize()` (scanning loop; code points; no NUL; well-formed UTF-8)
  `printTokens`  Model/PrintTokens.lean  main.c `print_tokens`
  `needSpace`    Gen/LexGen.lean         main.c `need_space`, regenerated from the source on every run (with `ops[]`,
                                         `is_word_char`, the punctuator table `kw[]`, the pp-number sets, the is_ident ranges)
  `secondPassX`  Model/C19Bridge.lean    the second `-E` pass on a freshly tokenized list: `preprocess2` of Model/PP.lean (the
                                         model C09/C10 tie to preprocess.c) from the table of `init_macros` (Gen/PPGen.lean)
  `passText`     Model/C19Bridge.lean    a whole `chibicc -E` run over the models: text → `lex` → `toPPs` → `preprocess2` → `printTokens`
  `selfLexing a` the spelling `a`, scanned alone, is exactly one token spelled `a` (decidable, Model/Lex.lean).
                 Every token `tokenize` produces has such a spelling (C19_lexed_tokens_self_lexing), and every token of a -E
                 output was produced by some call of `tokenize` (source text, `##` paste, `#` stringize, builtin macros).

Domain restriction (stated in checklib/C19.py ASSUMPTIONS): `tokenize_file` runs three text passes BEFORE `tokenize`
(CR/LF, backslash-newline, \u escapes).  They are the identity on printed text unless a token is the lone `\` punctuator
followed by a newline or by `uXXXX`; such a token never survives into a valid program.  The theorems are about `tokenize`.
-/
import ChibiVerif.Lemmas.LexSeq
import ChibiVerif.Lemmas.LexClosure
import ChibiVerif.Lemmas.C19Bridge

namespace ChibiVerif.Props.C19
open ChibiVerif.Lex ChibiVerif.Gen.Lex

/-- **C19 (need_space is sound).**  For all self-lexing spellings `a`, `b`: if `need_space` says that no separator is
    needed between them, the glued text `a ++ b` lexes to exactly the two tokens `a`, `b` — maximal munch cannot cross
    the boundary (identifier/pp-number continuation, `.`+digit, `e+`/`p-`, string and character prefixes `L u U u8`,
    every entry of the punctuator table, `//` and `/*`). -/
theorem C19_need_space_sound (a b : List Nat) (ha : selfLexing a = true) (hb : selfLexing b = true)
    (h : needSpace a b = false) :
    spellings (lex (a ++ b)) = .ok [a, b] := by
  have hok : okItems [([], a), ([], b)] := ⟨rfl, ha, fun _ => h, rfl, hb, trivial, trivial⟩
  have := lex_items [([], a), ([], b)] [] hok rfl
  simp only [render, List.nil_append, List.append_nil] at this
  rw [this]
  simp [spellings, tokensOf]

/-- non-vacuity: `-` `>` must be separated, `1.` `_` need not (for chibicc's pp-number rule), and the glued text is two tokens -/
example : selfLexing [49, 46] = true ∧ selfLexing [95] = true ∧ needSpace [49, 46] [95] = false ∧
    needSpace [45] [62] = true ∧ needSpace [49, 46] [120] = true ∧ needSpace [49, 101, 43] [53] = true := by decide

/-- **C19 (separators are harmless).**  A text made of self-lexing spellings, each preceded by a NON-EMPTY run of blanks
    and newlines (the first one may have none), followed by any run of blanks/newlines, lexes to exactly those spellings:
    inserting a space or a newline between two tokens never changes the token sequence. -/
theorem C19_space_harmless (items : List Item) (w : List Nat)
    (h : ∀ it ∈ items, isBlank it.1 = true ∧ selfLexing it.2 = true)
    (hne : ∀ it ∈ items.tail, it.1 ≠ []) (hw : isBlank w = true) :
    spellings (lex (render items ++ w)) = .ok (items.map (·.2)) := by
  have hok : okItems items := by
    induction items with
    | nil => trivial
    | cons it r ih =>
      refine ⟨(h it (List.mem_cons_self ..)).1, (h it (List.mem_cons_self ..)).2, ?_,
        ih (fun x hx => h x (List.mem_cons_of_mem _ hx))
          (fun x hx => hne x (by
            cases r with
            | nil => cases hx
            | cons y r' => exact List.mem_cons_of_mem _ hx))⟩
      cases r with
      | nil => trivial
      | cons it2 r' => exact fun h0 => absurd h0 (hne it2 (List.mem_cons_self ..))
  rw [lex_items items w hok hw]
  simp [spellings, tokensOf_text]

/-- non-vacuity: `-` newline `-1`… : the spellings `-`, `-`, `1` separated by one blank, one newline -/
example : spellings (lex (render [([], [45]), ([32], [45]), ([10], [49])] ++ [10])) = .ok [[45], [45], [49]] :=
  C19_space_harmless _ _ (by decide) (by decide) (by decide)

/-- **C19 (round trip).**  For every token list whose spellings are self-lexing — with ARBITRARY `at_bol` / `has_space`
    flags on every token — the text `print_tokens` writes lexes back to exactly the same spellings, in order. -/
theorem C19_roundtrip (ts : List Tok) (h : ∀ t ∈ ts, selfLexing t.text = true) :
    spellings (lex (printTokens ts)) = .ok (ts.map (·.text)) := by
  rw [lex_printTokens ts h]
  simp [spellings, relexed_text]

/-- non-vacuity: `#define N -1` / `-N` (tokens `-` `-` `1`, nothing has `has_space`), `f(1.)f(x)`, `f(L)"s"`:
    the printed text is `- -1`, `1. x`, `L "s"` and lexes back to the tokens -/
example :
    printTokens [⟨.punct, [45], true, false⟩, ⟨.punct, [45], false, false⟩, ⟨.ppnum, [49], false, false⟩]
      = [45, 32, 45, 49, 10] ∧
    printTokens [⟨.ppnum, [49, 46], true, false⟩, ⟨.ident, [120], false, false⟩] = [49, 46, 32, 120, 10] ∧
    printTokens [⟨.ident, [76], true, false⟩, ⟨.str, [34, 115, 34], false, false⟩] = [76, 32, 34, 115, 34, 10] ∧
    spellings (lex [45, 32, 45, 49, 10]) = .ok [[45], [45], [49]] := by decide

/-- **C19 (the tokens of `tokenize` satisfy the hypothesis).**  Whatever text is scanned, every token that comes out has a
    self-lexing spelling — so `C19_roundtrip` applies to every token list the preprocessor can hold (all its tokens come
    from calls of `tokenize`). -/
theorem C19_lexed_tokens_self_lexing (s : List Nat) (ts : List Tok) (h : lex s = .ok ts) :
    ∀ t ∈ ts, selfLexing t.text = true :=
  lexLoop_tokens_selfLexing _ s true false ts h

/-- non-vacuity: a text with every token class -/
example : spellings (lex [120, 43, 43, 49, 46, 101, 43, 32, 76, 34, 115, 34, 39, 99, 39, 10]) =
    .ok [[120], [43, 43], [49, 46, 101, 43], [76, 34, 115, 34], [39, 99, 39]] := by decide

/-- **C19 (the model's loop bound is sufficient).**  `lex` never reports exhausted fuel: every iteration of the scanning
    loop consumes input, so `length + 1` iterations suffice for every text. -/
theorem C19_lex_fuel_suffices (s : List Nat) : lex s ≠ .error .fuel :=
  lexLoop_no_fuel _ s true false (Nat.lt_succ_self _)

/-- Full statement of the second half of the property for a preprocessor `pp` (a function on token lists):
    preprocessing the -E output again and printing it reproduces the text.
    For the actual second pass (`C19Bridge.secondPass fuel file`) it is FALSE (Findings/C19.lean:
    `C19_finding_second_pass_surviving_name`, for every fuel and display name); it holds on the inert region:
    `C19_idempotent`, `C19_idempotent_exact`, `C19_idempotent_text` below. -/
def C19_idempotent_Statement (pp : List Tok → List Tok) : Prop :=
  ∀ ts : List Tok, (∀ t ∈ ts, selfLexing t.text = true) → (∀ t ∈ ts.head?, t.atBol = true) →
    ∃ ts', lex (printTokens ts) = .ok ts' ∧ printTokens (pp ts') = printTokens ts

/-- no `#` at the beginning of a line and no spelling that `isMacro` holds for: nothing for the preprocessor to do -/
def Inert (isMacro : List Nat → Bool) (ts : List Tok) : Bool :=
  ts.all (fun t => !(t.atBol && t.text == [35]) && !isMacro t.text)

/-- **C19 (second pass, partial).**  Let `pp` be any function on token lists that leaves inert lists alone (no `#` at
    the beginning of a line, no identifier that is a macro at that point).  Then for every inert token list with
    self-lexing spellings whose first token is at the beginning of a line (as the first token of a file always is),
    printing, re-reading, preprocessing and printing again gives the same text, byte for byte.

    (1) That chibicc's `preprocess2` IS such a `pp` is `C19_preprocess2_identity` / `C19_idempotent` below (with
    `isMacro := isInitMacro`; `C19Bridge.secondPass_inert` is `hpp` for lists of Unicode scalar values).  (2) That the token
    list -E prints is inert is NOT true of every input: an expansion result that starts a line with `#` (`#define H #` /
    `H define X 1`) or an identifier that is still a macro name when re-read (blue paint is lost in the text:
    `#undef linux` … `linux`) is outside, and there `C19_idempotent_Statement` is false (Findings/C19.lean). -/
theorem C19_idempotent_partial (pp : List Tok → List Tok) (isMacro : List Nat → Bool)
    (hpp : ∀ us, Inert isMacro us = true → pp us = us)
    (ts : List Tok) (h : ∀ t ∈ ts, selfLexing t.text = true) (hfirst : ∀ t ∈ ts.head?, t.atBol = true)
    (hin : Inert isMacro ts = true) :
    ∃ ts', lex (printTokens ts) = .ok ts' ∧ printTokens (pp ts') = printTokens ts := by
  refine ⟨relexed ts, lex_printTokens ts h, ?_⟩
  have hr := printFrom_relex ts none none rfl (fun _ => hfirst)
  have hinert : Inert isMacro (relexed ts) = true := by
    have ht := relexed_text ts
    have hb : (relexed ts).map (·.atBol) = ts.map (·.atBol) := hr.2
    unfold Inert at hin ⊢
    rw [all_congr_of_maps (fun x b => !(b && x == [35]) && !isMacro x) (fun _ => rfl) _ _ ht hb]
    exact hin
  rw [hpp _ hinert]
  exact hr.1

/-- non-vacuity of the hypotheses (identity as `pp`, no macros): `a` newline `- -1` -/
example : ∃ ts', lex (printTokens [⟨.ident, [97], true, false⟩, ⟨.punct, [45], true, true⟩,
      ⟨.punct, [45], false, false⟩, ⟨.ppnum, [49], false, false⟩]) = .ok ts' ∧
    printTokens (id ts') = [97, 10, 45, 32, 45, 49, 10] :=
  C19_idempotent_partial id (fun _ => false) (fun _ _ => rfl) _ (by decide) (by decide) (by decide)

open ChibiVerif.C19Bridge in
/-- **C19 (second pass, the actual preprocessor).**  Let `ts` be what the first `-E` pass holds when it prints — ANY flags,
    self-lexing spellings — and let it be INERT with respect to the table the second pass starts from: no `#` at the beginning
    of a line and no spelling that is the name of a macro `init_macros` defines (predefined object-like macros and the
    built-ins `__FILE__ __LINE__ __COUNTER__ __TIMESTAMP__ __BASE_FILE__`; the list is regenerated from preprocess.c).  The
    first token counts as at the beginning of a line (`normFirst`: it is, for the `tokenize` of the second pass).  Then
    * `tokenize` reads a list `ts'` back from the printed text, with the same spellings;
    * chibicc's `preprocess2` — the model of Model/PP.lean (the one C09/C10 tie to preprocess.c), started from the table of
      `init_macros`, for every display name and every fuel ≥ the number of tokens — returns EXACTLY that list (every field of
      every token: kind, spelling, `at_bol`, `has_space`, empty hide set, no origin, line);
    * printing it gives the first pass's text byte for byte, except that a blank before the very first token is not
      printed again (the first pass's first token has `has_space` without `at_bol` exactly when the file starts with a macro
      that expands to nothing: `#define E` / `E x` prints ` x`, then `x`; confirmed on the binary).

    The hypothesis is the weakest of its shape: Findings/C19.lean shows, on the models and confirmed on the binary, that a
    `#` at line start (`#define H #` / `H define X 1`) and a surviving initial-table name (`#undef linux` / `linux`,
    `#define linux linux`, `#define unix() 0` / `unix`) each make the second pass change the token sequence. -/
theorem C19_idempotent (ts : List Tok) (h : ∀ t ∈ ts, selfLexing t.text = true)
    (hin : Inert isInitMacro (normFirst ts) = true)
    (fuel : Nat) (hfuel : ts.length ≤ fuel) (file : String) :
    ∃ ts', lex (printTokens ts) = .ok ts' ∧ ts'.map (·.text) = ts.map (·.text) ∧
      secondPassX fuel file ts' = .ok (toPPs ts') ∧
      printTokens ts' = printTokens (normFirst ts) ∧
      (printTokens ts = printTokens (normFirst ts) ∨ printTokens ts = 32 :: printTokens (normFirst ts)) := by
  have ht := relexed_text ts
  refine ⟨relexed ts, lex_printTokens ts h, ht, ?_, printTokens_relexed ts, printTokens_normFirst ts⟩
  refine secondPassX_inert fuel file (relexed ts) ?_ ?_
  · rw [length_eq_of_map_text _ _ ht]; exact hfuel
  · unfold Inert at hin
    unfold inertInit
    rw [all_congr_of_maps (fun x b => !(b && x == [35]) && !isInitMacro x) (fun _ => rfl) _ _
      (ht.trans (normFirst_text ts).symm) (relexed_atBol ts)]
    exact hin

open ChibiVerif.C19Bridge in
/-- non-vacuity: `#define E` / `E a` / `- -1 "linux" __LINE # b`: the first token `a` has `has_space` and no `at_bol`; a string
    that spells a macro name, an identifier that is a prefix of one and a `#` inside a line are inert.  The first pass prints
    ` a` newline …, the second pass the same without the first blank. -/
example : ∃ ts', lex (printTokens [⟨.ident, [97], false, true⟩, ⟨.punct, [45], true, true⟩, ⟨.punct, [45], false, false⟩,
      ⟨.ppnum, [49], false, false⟩, ⟨.str, [34, 108, 105, 110, 117, 120, 34], false, true⟩,
      ⟨.ident, [95, 95, 76, 73, 78, 69], false, true⟩, ⟨.punct, [35], false, true⟩, ⟨.ident, [98], false, true⟩]) = .ok ts' ∧
    ts'.map (·.text) = [[97], [45], [45], [49], [34, 108, 105, 110, 117, 120, 34], [95, 95, 76, 73, 78, 69], [35], [98]] ∧
    secondPassX 8 "b.c" ts' = .ok (toPPs ts') ∧ printTokens ts' = [97, 10, 45, 32, 45, 49, 32, 34, 108, 105, 110, 117, 120, 34, 32, 95, 95, 76, 73, 78, 69, 32, 35, 32, 98, 10] := by
  obtain ⟨ts', h1, h2, h3, h4, _⟩ := C19_idempotent [⟨.ident, [97], false, true⟩, ⟨.punct, [45], true, true⟩,
      ⟨.punct, [45], false, false⟩, ⟨.ppnum, [49], false, false⟩, ⟨.str, [34, 108, 105, 110, 117, 120, 34], false, true⟩,
      ⟨.ident, [95, 95, 76, 73, 78, 69], false, true⟩, ⟨.punct, [35], false, true⟩, ⟨.ident, [98], false, true⟩]
    (by decide) (by decide) 8 (by decide) "b.c"
  exact ⟨ts', h1, h2, h3, h4⟩

open ChibiVerif.C19Bridge in
/-- **C19 (second pass, byte for byte).**  When moreover the first token is at the beginning of a line (as it is unless the
    file starts with a macro that expands to nothing), printing the list the second pass returns gives the same text. -/
theorem C19_idempotent_exact (ts : List Tok) (h : ∀ t ∈ ts, selfLexing t.text = true)
    (hfirst : ∀ t ∈ ts.head?, t.atBol = true) (hin : Inert isInitMacro ts = true)
    (fuel : Nat) (hfuel : ts.length ≤ fuel) (file : String) :
    ∃ ts', lex (printTokens ts) = .ok ts' ∧ secondPassX fuel file ts' = .ok (toPPs ts') ∧
      printTokens ts' = printTokens ts := by
  have hn : normFirst ts = ts := by
    cases ts with
    | nil => rfl
    | cons t r =>
      have := hfirst t rfl
      cases t with
      | mk k a b s => simp only at this; subst this; rfl
  obtain ⟨ts', hl, _, hp, hpr, _⟩ := C19_idempotent ts h (by rw [hn]; exact hin) fuel hfuel file
  exact ⟨ts', hl, hp, by rw [hpr, hn]⟩

open ChibiVerif.C19Bridge in
/-- non-vacuity: `a` newline `- -1 "linux" __LINE` -/
example : ∃ ts', lex (printTokens [⟨.ident, [97], true, false⟩, ⟨.punct, [45], true, true⟩, ⟨.punct, [45], false, false⟩,
      ⟨.ppnum, [49], false, false⟩, ⟨.str, [34, 108, 105, 110, 117, 120, 34], false, true⟩,
      ⟨.ident, [95, 95, 76, 73, 78, 69], false, true⟩]) = .ok ts' ∧
    secondPassX 6 "b.c" ts' = .ok (toPPs ts') ∧ printTokens ts' = [97, 10, 45, 32, 45, 49, 32, 34, 108, 105, 110, 117, 120, 34, 32, 95, 95, 76, 73, 78, 69, 10] :=
  C19_idempotent_exact _ (by decide) (by decide) (by decide) 6 (by decide) "b.c"

open ChibiVerif.C19Bridge in
/-- **C19 (second pass, as text).**  `C19_idempotent_Statement` for the actual second pass (`secondPass fuel file`:
    re-read, `preprocess2` from the table of `init_macros`, back to printer tokens), restricted to the region where it is
    true: inert token lists (see `C19_idempotent`) whose first token is at the beginning of a line and whose code points
    are Unicode scalar values (what `decode_utf8` yields on well-formed UTF-8; needed only to carry spellings through
    `String`).  Printing, re-reading, preprocessing again and printing again reproduces the text.  Outside the region the
    statement is false: Findings/C19.lean. -/
theorem C19_idempotent_text (fuel : Nat) (file : String) (ts : List Tok) (h : ∀ t ∈ ts, selfLexing t.text = true)
    (hfirst : ∀ t ∈ ts.head?, t.atBol = true)
    (hin : Inert isInitMacro ts = true) (hv : validText ts = true) (hfuel : ts.length ≤ fuel) :
    ∃ ts', lex (printTokens ts) = .ok ts' ∧ printTokens (secondPass fuel file ts') = printTokens ts := by
  obtain ⟨ts', hl, hp, hpr⟩ := C19_idempotent_exact ts h hfirst hin fuel hfuel file
  refine ⟨ts', hl, ?_⟩
  have hrel : ts' = relexed ts := by
    have := lex_printTokens ts h
    rw [hl] at this
    exact Except.ok.inj this
  have hv' : validText ts' = true := by
    rw [hrel, validText_congr _ _ (relexed_text ts)]; exact hv
  unfold secondPass
  rw [hp]
  simp only
  rw [show toPPs ts' = toPPsFrom 0 ts' from rfl, map_ofPP_toPPsFrom ts' 0 hv']
  exact hpr

open ChibiVerif.C19Bridge in
/-- non-vacuity: `x = é - -1;` — the hypotheses hold -/
example : ∃ ts', lex (printTokens [⟨.ident, [120], true, false⟩, ⟨.punct, [61], false, true⟩, ⟨.ident, [233], false, true⟩,
      ⟨.punct, [45], false, true⟩, ⟨.punct, [45], false, false⟩, ⟨.ppnum, [49], false, false⟩, ⟨.punct, [59], false, false⟩])
      = .ok ts' ∧ printTokens (secondPass 7 "b.c" ts') = [120, 32, 61, 32, 233, 32, 45, 32, 45, 49, 59, 10] :=
  C19_idempotent_text 7 "b.c" _ (by decide) (by decide) (by decide) (by decide) (by decide)

open ChibiVerif.C19Bridge in
/-- **C19 (second run, text to text).**  `passText` is a whole `chibicc -E` run over the models: `tokenize`, `preprocess2`
    from the table of `init_macros`, `print_tokens`.  Applied to the text the first run printed for an inert token list (any
    flags; self-lexing spellings of Unicode scalar values) it prints that text again — exactly, except that a blank before
    the very first token is gone — with any display name and any fuel ≥ the number of tokens. -/
theorem C19_second_run (ts : List Tok) (h : ∀ t ∈ ts, selfLexing t.text = true)
    (hin : Inert isInitMacro (normFirst ts) = true) (hv : validText ts = true)
    (fuel : Nat) (hfuel : ts.length ≤ fuel) (file : String) :
    passText fuel file (printTokens ts) = .ok (printTokens (normFirst ts)) := by
  obtain ⟨ts', hl, ht, hp, hpr, _⟩ := C19_idempotent ts h hin fuel hfuel file
  have hv' : validText ts' = true := by rw [validText_congr _ _ ht]; exact hv
  unfold passText passTokens
  rw [hl]
  simp only [hp]
  rw [show toPPs ts' = toPPsFrom 0 ts' from rfl, map_ofPP_toPPsFrom ts' 0 hv', hpr]

open ChibiVerif.C19Bridge in
/-- non-vacuity: ` a` newline `b = "é" - -1;` run through the model of `chibicc -E` by the kernel: the same text without the
    first blank -/
example : passText 9 "b.c" (printTokens [⟨.ident, [97], false, true⟩, ⟨.ident, [98], true, false⟩, ⟨.punct, [61], false, true⟩,
      ⟨.str, [34, 233, 34], false, true⟩, ⟨.punct, [45], false, true⟩, ⟨.punct, [45], false, false⟩, ⟨.ppnum, [49], false, false⟩,
      ⟨.punct, [59], false, false⟩]) = .ok [97, 10, 98, 32, 61, 32, 34, 233, 34, 32, 45, 32, 45, 49, 59, 10] :=
  C19_second_run _ (by decide) (by decide) (by decide) 9 (by decide) "b.c"

/-- **C19 (`preprocess2` does nothing where there is nothing to do).**  In ANY state of the macro table (so also after
    `-D`/`-U`), for any lexer handed to `paste`, with fuel ≥ the length: a token list in which no token is a directive `#`
    (`is_hash`: at_bol, no origin, spelled `#`) and `find_macro` finds no token is returned unchanged — every field of every
    token — and the state (table, `__COUNTER__`) is unchanged.  This discharges the assumption `hpp` of
    `C19_idempotent_partial` against the preprocessor model. -/
theorem C19_preprocess2_identity (lx : String → ChibiVerif.PP.LexOne) (st : ChibiVerif.PP.St) (us : List ChibiVerif.PP.Tok)
    (fuel : Nat) (hfuel : us.length ≤ fuel)
    (h : ∀ u ∈ us, ChibiVerif.PP.isHash u = false ∧ ChibiVerif.PP.findMacro st.defs u = none) :
    ChibiVerif.PP.preprocess2 lx fuel st us = .ok (us, st) :=
  ChibiVerif.C19Bridge.preprocess2_inert lx st us fuel hfuel h

/-- non-vacuity: `x # 1` in the table of `init_macros` plus a user macro `y` -/
example :
    ChibiVerif.PP.preprocess2 ChibiVerif.PP.Lex.lexOne 3
      { defs := ("y", .obj [{ kind := .num, text := "2" }]) :: ChibiVerif.PP.initDefs }
      [{ kind := .ident, text := "x", atBol := true }, { kind := .punct, text := "#", hasSpace := true },
       { kind := .num, text := "1", hasSpace := true }] =
    .ok ([{ kind := .ident, text := "x", atBol := true }, { kind := .punct, text := "#", hasSpace := true },
       { kind := .num, text := "1", hasSpace := true }],
      { defs := ("y", .obj [{ kind := .num, text := "2" }]) :: ChibiVerif.PP.initDefs }) :=
  C19_preprocess2_identity _ _ _ 3 (by decide) (by decide)

/-- … and the hypothesis matters: with `y` instead of `x` the list changes -/
example :
    (ChibiVerif.PP.preprocess2 ChibiVerif.PP.Lex.lexOne 3
      { defs := ("y", .obj [{ kind := .num, text := "2" }]) :: ChibiVerif.PP.initDefs }
      [{ kind := .ident, text := "y", atBol := true }]).map (·.1.map (·.text)) = .ok ["2"] := by decide

/-- **C19 (the first pass never emits a directive).**  No token in the output of `preprocess2` — any table, any input,
    any fuel — is a `#` with `at_bol` and without origin: a `#` that starts a line of the `-E` text was produced by a macro
    expansion (6.10.3.4p3: not a directive for the first pass; the text does not carry that, Findings/C19.lean). -/
theorem C19_output_hash_has_origin (lx : String → ChibiVerif.PP.LexOne) (n : Nat) (st st' : ChibiVerif.PP.St)
    (src out : List ChibiVerif.PP.Tok) (h : ChibiVerif.PP.preprocess2 lx n st src = .ok (out, st')) :
    ∀ u ∈ out, u.atBol = true → u.text = "#" → u.origin.isSome = true := by
  intro u hu hb ht
  have := ChibiVerif.C19Bridge.preprocess2_out_not_hash lx n st src out st' h u hu
  unfold ChibiVerif.PP.isHash at this
  cases ho : u.origin with
  | some _ => rfl
  | none => simp [hb, ht, ho] at this

/-- non-vacuity: `#define H #` / `H` at the beginning of a line: the output is one `#` with `at_bol` — and an origin -/
example :
    (ChibiVerif.PP.expand 5 [("H", .obj [{ kind := .punct, text := "#", hasSpace := true }])]
      [{ kind := .ident, text := "H", atBol := true }]).map (·.map fun u => (u.text, u.atBol, u.origin.isSome))
      = .ok [("#", true, true)] := by decide

end ChibiVerif.Props.C19
