import ChibiVerif.Model.PrintTokens
namespace ChibiVerif.Props.C19
open ChibiVerif.Lex
theorem C19_placeholder : selfLexing [49, 46] = true := by decide
end ChibiVerif.Props.C19
