/-
C08 — type sizes, alignments and layouts equal the psABI.

Property theorems only (helper lemmas: Lemmas/DeclspecLemmas.lean, Lemmas/LayoutLemmas.lean).
Left-hand sides are the model of parse.c/type.c (`Model/Layout.lean` over the regenerated `Gen/DeclspecGen.lean`),
right-hand sides are `Spec/LayoutSpec.lean` (C11 6.7.2p2, psABI figure 3.1 and 3.1.2, gcc's packed/aligned), which is
validated against gcc 12 on every run of the check.

Restricted theorems (`_partial`) and what is missing:
* `C08_specifiers_reject_partial` — rejection of every multiset outside C11 6.7.2p2 is proved for non-empty sequences
  without a repeated `signed`/`unsigned`.  chibicc accepts `signed signed int` (`counter |= SIGNED`) and the empty
  sequence (implicit int); the lead classed this as latitude (C08 quantifies over *valid* combinations).  The full
  statement `C08_specifiers_reject_Statement` is refuted in Findings/C08.lean.  `C08_specifiers_exact` (full strength, all
  non-empty sequences) states precisely what is accepted instead: the C11 table up to repeated `signed`/`unsigned`.
* `C08_layout_partial`, `C08_types_partial` — model = spec outside the three known-finding regions (all inside `packed`):
  `PackedWithBitfield` (a packed struct in which some bit-field, put at the next free bit, crosses a storage-unit boundary
  of its declared type — packed structs whose bit-fields all fit are in scope), `PackedWithMemberAlign` (a packed
  aggregate with a member `_Alignas` stricter than 1), `PackedUnionBitfield` (a packed union with a named bit-field
  narrower, in bytes, than its declared type).  The full statements `C08_layout_Statement`, `C08_types_Statement` are
  refuted in Findings/C08.lean by the listed witnesses.
The whole input space of the two constraints the parser checks on the way to a layout is covered at full strength:
`C08_aligned_exact` / `C08_aligned_zero` / `C08_aligned_rejected` (`aligned(n)` for every integer n), `C08_alignas`
(`_Alignas(n)` for every n), `C08_bitfield_type` (declared type of a bit-field), `C08_outcome_class` (layout iff the
specification accepts the declaration, else one of the two located diagnostics), `C08_no_divByZero` (no type description
at all reaches a zero divisor) and `C08_align_bound` (alignments ≤ 2^28, so the `int` divisors of struct_decl do not wrap to 0).
The well-formedness predicate `Ty.ok` asks of `aligned(n)` / `_Alignas(n)` what gcc and chibicc both accept: n = 0 or a
power of two ≤ 2^28.
The layout theorems above model C `int` by unbounded `Int`; `C08_layout_int_partial` redoes struct_decl/union_decl with every
`int` operation explicit and shows that for aggregates below 256 MiB (minus one rounding step) nothing overflows and the
same layouts result — signed overflow begins exactly in the region of known finding C08-huge-struct-overflow.
-/
import ChibiVerif.Model.Layout
import ChibiVerif.Spec.LayoutSpec
import ChibiVerif.Lemmas.DeclspecLemmas
import ChibiVerif.Lemmas.LayoutLemmas
import ChibiVerif.Lemmas.Layout32Lemmas

namespace ChibiVerif.Props.C08
open ChibiVerif.Layout ChibiVerif.Gen.Declspec ChibiVerif.Spec.Layout

/-! ## type specifiers -/

/-- **C08 (specifiers).**  For every sequence of built-in type-specifier keywords:
    (1) every permutation of it is decoded to the same outcome (type or diagnostic) — the result depends only on the multiset;
    (2) if the multiset is one that C11 6.7.2p2 lists, the outcome is the type (psABI representation class) the list gives. -/
theorem C08_specifiers (ks : List Kw) :
    (∀ ks', ks'.Perm ks → declspecDecode ks' = declspecDecode ks) ∧
    (∀ t, c11Type ks = some t → declspecDecode ks = .ok t) := by
  refine ⟨fun ks' p => decode_perm p, fun t h => ?_⟩
  obtain ⟨e, hem, hp, rfl⟩ := c11Type_some h
  rw [← decode_perm hp]
  exact table_decoded e hem

/-- full statement of the rejection half (false for chibicc: see Findings/C08.lean) -/
def C08_specifiers_reject_Statement : Prop :=
  ∀ ks : List Kw, c11Type ks = none → declspecDecode ks = .error .invalidType

/-- **C08 (specifiers, rejection; partial).**  A non-empty keyword sequence without a repeated `signed`/`unsigned` whose
    multiset C11 6.7.2p2 does not list ends in `error_tok(tok, "invalid type")`.  In particular no sequence of keywords
    makes the 2-bit counters wrap into a valid code (`void void void void` has the counter value of `_Bool`, but is
    rejected at the second `void`). -/
theorem C08_specifiers_reject_partial (ks : List Kw) (hne : ks ≠ []) (hnd : NoDupSign ks)
    (h : c11Type ks = none) : declspecDecode ks = .error .invalidType := by
  cases hd : declspecDecode ks with
  | error d => cases d; rfl
  | ok t =>
    have := accepted_is_c11 hne hnd hd
    rw [h] at this
    cases this

/-- both halves in one equation, on the restricted domain -/
theorem C08_specifiers_exact_partial (ks : List Kw) (hne : ks ≠ []) (hnd : NoDupSign ks) :
    declspecDecode ks = (match c11Type ks with
      | some t => .ok t
      | none => .error .invalidType) := by
  cases h : c11Type ks with
  | some t => exact (C08_specifiers ks).2 t h
  | none => exact C08_specifiers_reject_partial ks hne hnd h

/-- **C08 (specifiers, exact language).**  For *every* non-empty keyword sequence: chibicc decodes it as C11 6.7.2p2
    decodes the sequence with repeated `signed`/`unsigned` dropped (`collapse`), type for type and diagnostic for
    diagnostic.  So the accepted language is exactly the C11 table up to that one repetition (`counter |= SIGNED`),
    and nothing else — no wrap-around of the 2-bit counters, no order dependence. -/
theorem C08_specifiers_exact (ks : List Kw) (hne : ks ≠ []) :
    declspecDecode ks = (match c11Type (collapse ks) with
      | some t => .ok t
      | none => .error .invalidType) := by
  rw [decode_collapse ks]
  exact C08_specifiers_exact_partial (collapse ks) (collapse_ne_nil hne) (noDup_collapse ks)

example : collapse [.signed, .long, .signed, .unsigned] = [.signed, .long, .unsigned] ∧
    declspecDecode [.signed, .long, .signed, .unsigned] = .error .invalidType ∧
    declspecDecode [.signed, .long, .signed] = .ok .long := by decide

-- non-vacuity: a valid permutation, an invalid sequence in scope, the wrap-around candidate
example : c11Type [.long, .unsigned, .int, .long] = some .ulong ∧
    declspecDecode [.long, .unsigned, .int, .long] = .ok .ulong := by decide
example : [Kw.short, .long] ≠ [] ∧ NoDupSign [.short, .long] ∧ c11Type [.short, .long] = none := by decide
example : NoDupSign [.void, .void, .void, .void] ∧ declspecDecode [.void, .void, .void, .void] = .error .invalidType := by
  decide

/-! ## scalars and derived types -/

/-- **C08 (scalars).**  The `Type` literals of type.c have the sizes and alignments of psABI figure 3.1. -/
theorem C08_prims : ∀ t : TyName,
    primSize t = ((psabiScalar t).1 : Nat) ∧ primAlign t = ((psabiScalar t).2 : Nat) := by
  intro t; cases t <;> decide

/-- **C08 (derived types).**  `sizeof(T[n]) = n · sizeof(T)`, `_Alignof(T[n]) = _Alignof(T)`; a flexible array member has
    size 0 and the alignment of its element; pointers are 8/8 and enums 4/4 as in the psABI. -/
theorem C08_derived :
    (∀ (e : Ty) (n s a : Int), e.sizeAlign = .ok (s, a) → (Ty.arr e n).sizeAlign = .ok (s * n, a)) ∧
    (∀ (e : Ty) (s a : Int), e.sizeAlign = .ok (s, a) → (Ty.flex e).sizeAlign = .ok (0, a)) ∧
    Ty.ptr.sizeAlign = .ok (((psabiPointer.1 : Nat) : Int), ((psabiPointer.2 : Nat) : Int)) ∧
    Ty.enum.sizeAlign = .ok (((psabiEnum.1 : Nat) : Int), ((psabiEnum.2 : Nat) : Int)) := by
  refine ⟨?_, ?_, by decide, by decide⟩
  · intro e n s a h
    simp only [Ty.sizeAlign, h]
    rfl
  · intro e s a h
    simp only [Ty.sizeAlign, h]
    show Except.ok (s * 0, a) = Except.ok (0, a)
    rw [Int.mul_zero]

/-! ## struct and union layout -/

/-- full statement: for every member list (arbitrary sizes/alignments, so nested aggregates and arrays are covered),
    every `packed`/`aligned(n)` combination and every member `_Alignas`, `struct_decl` and `union_decl` compute the
    psABI layout (offsets, bit positions, size, alignment).  False for chibicc inside `packed` (Findings/C08.lean). -/
def C08_layout_Statement : Prop :=
  ∀ (packed : Bool) (aligned : Option Nat) (ms : List SMem),
    (∀ n, aligned = some n → 0 < n) → (∀ m ∈ ms, m.WF) →
    structLayout packed ((aligned.getD STRUCT_INIT_ALIGN : Nat) : Int) (ms.map SMem.toMem)
        = .ok (specStruct packed aligned ms).toLayout ∧
    unionLayout packed ((aligned.getD STRUCT_INIT_ALIGN : Nat) : Int) (ms.map SMem.toMem)
        = .ok (specUnion packed aligned ms).toLayout

/-- **C08 (layout; partial).**  Outside the three known-finding regions the statement holds: for every member list
    `struct_decl` never divides by zero and returns exactly the offsets, bit offsets, size and alignment of the psABI
    allocation rule; `union_decl` likewise.  The regions are narrow: a packed struct is excluded only if one of its
    bit-fields actually straddles a storage unit where gcc puts it (`PackedWithBitfield`), a packed aggregate only if a
    member asks for `_Alignas` > 1, a packed union only if a named bit-field is narrower than its type in bytes. -/
theorem C08_layout_partial (packed : Bool) (aligned : Option Nat) (ms : List SMem)
    (hal : ∀ n, aligned = some n → 0 < n) (hwf : ∀ m ∈ ms, m.WF)
    (hA : PackedWithMemberAlign packed ms = false) :
    (PackedWithBitfield packed ms = false →
      structLayout packed ((aligned.getD STRUCT_INIT_ALIGN : Nat) : Int) (ms.map SMem.toMem)
        = .ok (specStruct packed aligned ms).toLayout) ∧
    (PackedUnionBitfield packed ms = false →
      unionLayout packed ((aligned.getD STRUCT_INIT_ALIGN : Nat) : Int) (ms.map SMem.toMem)
        = .ok (specUnion packed aligned ms).toLayout) :=
  ⟨fun hB => structLayout_eq packed aligned ms hal hwf (memInScope_of_regions hB hA),
   fun hU => unionLayout_eq packed aligned ms hal hwf (uMemInScope_of_regions hU hA)⟩

-- non-vacuity of the narrowed regions: `struct __attribute__((packed)) { char a : 3; char b : 5; int c : 17; short d; _Alignas(1) long e; }`
-- is in scope (every bit-field fits where gcc puts it): 14/1 with c at bits 8..24 of the unit at 0 …
example :
    let ms : List SMem := [⟨1, 1, 0, some 3, true⟩, ⟨1, 1, 0, some 5, true⟩, ⟨4, 4, 0, some 17, true⟩, ⟨2, 2, 0, none, true⟩,
      ⟨8, 8, 1, none, true⟩]
    (∀ m ∈ ms, m.WF) ∧ PackedWithMemberAlign true ms = false ∧ PackedWithBitfield true ms = false ∧
    specStruct true none ms = ⟨14, 1, [⟨0, 0, 0⟩, ⟨3, 0, 3⟩, ⟨8, 0, 8⟩, ⟨32, 4, 0⟩, ⟨48, 6, 0⟩]⟩ := by
  decide
-- … and so is `union __attribute__((packed)) { char x : 5; int y : 25; short s; }` (both fields as wide in bytes as their types)
example :
    let ms : List SMem := [⟨1, 1, 0, some 5, true⟩, ⟨4, 4, 0, some 25, true⟩, ⟨2, 2, 0, none, true⟩]
    (∀ m ∈ ms, m.WF) ∧ PackedWithMemberAlign true ms = false ∧ PackedUnionBitfield true ms = false ∧
    specUnion true none ms = ⟨4, 1, [⟨0, 0, 0⟩, ⟨0, 0, 0⟩, ⟨0, 0, 0⟩]⟩ := by
  decide

/-- everything that is not `packed` is in scope: the full statement for plain and `aligned(n)` aggregates -/
theorem C08_layout_unpacked (aligned : Option Nat) (ms : List SMem)
    (hal : ∀ n, aligned = some n → 0 < n) (hwf : ∀ m ∈ ms, m.WF) :
    structLayout false ((aligned.getD STRUCT_INIT_ALIGN : Nat) : Int) (ms.map SMem.toMem)
        = .ok (specStruct false aligned ms).toLayout ∧
    unionLayout false ((aligned.getD STRUCT_INIT_ALIGN : Nat) : Int) (ms.map SMem.toMem)
        = .ok (specUnion false aligned ms).toLayout := by
  have := C08_layout_partial false aligned ms hal hwf rfl
  exact ⟨this.1 rfl, this.2 rfl⟩

-- non-vacuity: `struct { char a; int b : 3; long : 0; short c : 9; _Alignas(16) char d; char e[]; }` is in scope …
example :
    let ms : List SMem := [⟨1, 1, 0, none, true⟩, ⟨4, 4, 0, some 3, true⟩, ⟨8, 8, 0, some 0, false⟩,
      ⟨2, 2, 0, some 9, true⟩, ⟨1, 1, 16, none, true⟩, ⟨0, 1, 0, none, true⟩]
    (∀ m ∈ ms, m.WF) ∧ PackedWithMemberAlign false ms = false ∧
    specStruct false none ms = ⟨32, 16, [⟨0, 0, 0⟩, ⟨8, 0, 8⟩, ⟨64, 0, 0⟩, ⟨64, 8, 0⟩, ⟨128, 16, 0⟩, ⟨136, 17, 0⟩]⟩ := by
  decide
-- … and so is a packed struct without bit-fields: `struct __attribute__((packed, aligned(2))) { char a; long b; int : 0; }`
example :
    let ms : List SMem := [⟨1, 1, 0, none, true⟩, ⟨8, 8, 0, none, true⟩, ⟨4, 4, 0, some 0, false⟩]
    (∀ m ∈ ms, m.WF) ∧ PackedWithMemberAlign true ms = false ∧ PackedWithBitfield true ms = false ∧
    specStruct true (some 2) ms = ⟨12, 2, [⟨0, 0, 0⟩, ⟨8, 1, 0⟩, ⟨96, 0, 0⟩]⟩ := by
  decide

/-! ## the C `int` arithmetic of struct_decl / union_decl (the 256 MiB boundary) -/

/-- **C08 (layout in `int` arithmetic; partial).**  `struct_decl` and `union_decl` with every `int` operation of the C text
    explicit (`Model/Layout32.lean`; `md = strict`: signed overflow is an outcome, C11 6.5p5; `md = wrap`: two's complement,
    what the compiled code does): outside the three packed regions, if every divisor the loop uses is at most `S` bits
    (`SMem.step`: storage unit of a bit-field, `mem->align * 8`, 8 in a packed struct; also `ty->align * 8`) and the end of
    the struct plus `S` stays below 2^31 bits, then no operation overflows and the result is the psABI layout — in both
    modes.  So the unbounded-`Int` idealisation of the other layout theorems is exact for every struct up to `2^28 - S/8`
    bytes; the known finding C08-huge-struct-overflow begins there.  Unions: member sizes (in bits, + 7) at most `S`,
    `S` plus the alignment below 2^31. -/
theorem C08_layout_int_partial (md : IntMode) (packed : Bool) (aligned : Option Nat) (ms : List SMem) (S : Nat)
    (hal : ∀ n, aligned = some n → 0 < n) (hwf : ∀ m ∈ ms, m.WF)
    (hA : PackedWithMemberAlign packed ms = false) :
    (PackedWithBitfield packed ms = false → (∀ m ∈ ms, m.step packed ≤ S) → 8 * (specStruct packed aligned ms).align ≤ S →
      8 * (specStruct packed aligned ms).size + S < 2 ^ 31 →
      structLayout32 md packed ((aligned.getD STRUCT_INIT_ALIGN : Nat) : Int) (ms.map SMem.toMem)
        = .ok (specStruct packed aligned ms).toLayout) ∧
    (PackedUnionBitfield packed ms = false → (∀ m ∈ ms, 8 * m.size + 7 ≤ S) →
      S + (specUnion packed aligned ms).align < 2 ^ 31 →
      unionLayout32 md packed ((aligned.getD STRUCT_INIT_ALIGN : Nat) : Int) (ms.map SMem.toMem)
        = .ok (specUnion packed aligned ms).toLayout) :=
  ⟨fun hB hS hAl hb => structLayout32_eq md packed aligned ms S hal hwf (memInScope_of_regions hB hA) hS hAl hb,
   fun hU hS hb => unionLayout32_eq md packed aligned ms S hal hwf (uMemInScope_of_regions hU hA) hS hb⟩

-- non-vacuity: `struct { char a[268435000]; int b : 3; long : 0; short c : 9; _Alignas(16) char d; }` (just below 256 MiB) with S = 128
example :
    let ms : List SMem := [⟨268435000, 1, 0, none, true⟩, ⟨4, 4, 0, some 3, true⟩, ⟨8, 8, 0, some 0, false⟩,
      ⟨2, 2, 0, some 9, true⟩, ⟨1, 1, 16, none, true⟩]
    (∀ m ∈ ms, m.WF) ∧ PackedWithMemberAlign false ms = false ∧ PackedWithBitfield false ms = false ∧
    (∀ m ∈ ms, m.step false ≤ 128) ∧ 8 * (specStruct false none ms).align ≤ 128 ∧
    8 * (specStruct false none ms).size + 128 < 2 ^ 31 ∧ (specStruct false none ms).size = 268435040 := by
  decide +kernel

/-- **C08 (whole types in `int` arithmetic; partial).**  The type-level functions with every `int` operation explicit
    (`Ty.layout32`: `array_of`'s `base->size * len`, struct_decl, union_decl, and struct_members' "field has incomplete type"
    test on the — possibly wrapped — size): for every well-formed description outside the three packed regions (`Ty.ok true`)
    all of whose arrays and aggregates are in range (`Ty.inRange`: array size below 2^31; struct: sizeof + _Alignof + 8 below
    2^28 bytes; union: member sizes in bits plus the alignment below 2^31), the result is the psABI layout in strict mode (no
    signed overflow anywhere) and in wrap mode (the compiled code).  Outside `inRange` the wrap mode is what the check compares
    with the real compiler (known finding C08-huge-struct-overflow). -/
theorem C08_types_int_partial (md : IntMode) (t : Ty) (h : t.ok true = true) (hr : t.inRange = true) :
    t.layout32 md = .ok (specTy t).toLayout :=
  layout32_eq md t h hr

-- non-vacuity: struct { char a[268435000]; struct { int f : 3; long g; } s[2]; } is in range (268435032 bytes);
-- struct { char a[1 << 28]; char b; } is not
example :
    let t : Ty := .struct false none (.cons ⟨none, true⟩ .nil (.arr (.prim .char) 268435000) (.cons ⟨none, true⟩ .nil
      (.arr (.struct false none (.cons ⟨some 3, true⟩ .nil (.prim .int) (.cons ⟨none, true⟩ .nil (.prim .long) .nil))) 2) .nil))
    t.ok true = true ∧ t.inRange = true ∧ (specTy t).size = 268435032 ∧
    (Ty.struct false none (.cons ⟨none, true⟩ .nil (.arr (.prim .char) 268435456) (.cons ⟨none, true⟩ .nil (.prim .char) .nil))).inRange
      = false := by
  decide +kernel

/-! ## `_Alignas` -/

/-- **C08 (`_Alignas`, one specifier).**  What the `_Alignas` arm of `declspec` (regenerated from parse.c) does with the
    running `attr->align`: a type-name operand contributes exactly its *alignment* (`typename(..)->align`, never its size,
    whatever the operand: array, struct, union, pointer, scalar); a constant operand that is 0 or one of 2^0 … 2^28
    contributes its value (0: nothing); the strictest wins (`MAX`); every other constant (negative, not a power of two,
    larger than 2^28 — also 2^29 and 2^30, whose `* 8` wrapped to a zero divisor in struct_decl before fix 33adb94) is the
    located diagnostic "alignment must be a power of two no larger than 2^28".  This is gcc's rule. -/
theorem C08_alignas :
    (∀ (t : Ty) (rest : Aligns) (acc s a : Int), t.sizeAlign = .ok (s, a) →
      (Aligns.type t rest).eval acc = rest.eval (if acc < a then a else acc)) ∧
    (∀ (n : Int) (rest : Aligns) (acc : Int), (n = 0 ∨ ∃ k, k ≤ 28 ∧ n = (2 : Int) ^ k) →
      (Aligns.const n rest).eval acc = rest.eval (if acc < n then n else acc)) ∧
    (∀ (n : Int) (rest : Aligns) (acc : Int), n ≠ 0 → (∀ k, k ≤ 28 → n ≠ (2 : Int) ^ k) →
      (Aligns.const n rest).eval acc = .error .badAlign) := by
  refine ⟨?_, ?_, ?_⟩
  · intro t rest acc s a h
    simp only [Aligns.eval, h, bind, Except.bind, alignasCombine, alignasOfType]
    rfl
  · intro n rest acc hn
    have hgood : alignasConstBad n = false := by
      rw [alignasConstBad_eq, alignedAttrBad_iff]
      rcases hn with h0 | h
      · exact Or.inl h0
      · exact Or.inr ((pow2le28_iff n).2 h)
    simp only [Aligns.eval, hgood, Bool.false_eq_true, if_false, alignasCombine, alignasOfConst]
    rfl
  · intro n rest acc h0 hp
    have hbad : alignasConstBad n = true := by
      cases hb : alignasConstBad n with
      | true => rfl
      | false =>
        rw [alignasConstBad_eq, alignedAttrBad_iff] at hb
        rcases hb with h | h
        · exact absurd h h0
        · obtain ⟨k, hk, hn⟩ := (pow2le28_iff n).1 h
          exact absurd hn (hp k hk)
    simp only [Aligns.eval, hbad, if_true]

-- non-vacuity: `_Alignas(16)`, `_Alignas(0)` pass; `_Alignas(536870912)`, `_Alignas(3)`, `_Alignas(-8)` are diagnosed
example : (Aligns.const 16 .nil).eval 0 = .ok 16 ∧ (Aligns.const 0 (.const 4 .nil)).eval 0 = .ok 4 ∧
    (Aligns.const 536870912 .nil).eval 0 = .error .badAlign ∧ (Aligns.const 3 .nil).eval 0 = .error .badAlign ∧
    (Aligns.const (-8) .nil).eval 0 = .error .badAlign ∧
    (Ty.struct false none (.cons ⟨none, true⟩ (.const 536870912 .nil) (.prim .char) .nil)).layout = .error .badAlign := by
  decide

/-- **C08 (`_Alignas`, any number of specifiers; partial only in that type-name operands must lie outside the three
    packed regions).**  For every list of alignment specifiers, `declspec` leaves in `attr->align` the maximum of
    `_Alignof(T)` over the type-name operands and `n` over the constant operands (C11 6.7.5p6: the strictest; 0 = none), and
    an object declared with them — automatic, block-scope static or file scope — gets that alignment, or the alignment of
    its type if there is no (non-zero) specifier. -/
theorem C08_alignas_partial (as : Aligns) (ty : Ty) (h : as.ok true = true) (hty : ty.ok true = true) :
    as.eval 0 = .ok ((specAligns as : Nat) : Int) ∧ varAlign as ty = .ok ((specVarAlign as ty : Nat) : Int) := by
  have h1 := as_eq as h 0
  simp only [Nat.zero_max, Int.natCast_zero] at h1
  refine ⟨h1, ?_⟩
  have h2 := (ty_eq ty hty).1
  simp only [varAlign, h1, h2, bind, Except.bind, pure, Except.pure, specVarAlign, Except.ok.injEq]
  by_cases h0 : specAligns as = 0
  · simp [h0]
  · simp [h0]

-- non-vacuity: `struct { char tag; _Alignas(int[3]) unsigned char buf[12]; }` is 16/4 with buf at 4 (a size-for-alignment
-- mix-up would give 24/12 with buf at 12); `_Alignas(16) _Alignas(4) char c;` is aligned to 16
example :
    let t : Ty := .struct false none (.cons ⟨none, true⟩ .nil (.prim .char)
      (.cons ⟨none, true⟩ (.type (.arr (.prim .int) 3) .nil) (.arr (.prim .uchar) 12) .nil))
    t.ok true = true ∧ t.layout = .ok ⟨16, 4, [⟨0, 0⟩, ⟨4, 0⟩]⟩ ∧ specTy t = ⟨16, 4, [⟨0, 0, 0⟩, ⟨32, 4, 0⟩]⟩ := by
  decide
example :
    let as : Aligns := .const 16 (.const 4 (.type (.struct false none (.cons ⟨none, true⟩ .nil (.arr (.prim .char) 12) .nil)) .nil))
    as.ok true = true ∧ specAligns as = 16 ∧ varAlign as (.prim .char) = .ok 16 ∧ varAlign .nil (.prim .int) = .ok 4 := by
  decide

/-! ## `__attribute__((aligned(n)))` for every n; bit-field types; outcome classes -/

/-- **C08 (`aligned(n)`, exactly).**  What `attribute_list` (guard and assignment regenerated from parse.c) does with one
    `aligned(n)` when `ty->align` is `cur`: `aligned(0)` requests nothing; `aligned(2^k)`, k ≤ 28, requests 2^k; every other
    n (negative, not a power of two, larger than 2^28) is the located diagnostic "alignment must be a power of two no larger
    than 2^28".  This is gcc's rule (gcc only warns on 0). -/
theorem C08_aligned_exact (cur n : Int) :
    (n = 0 → alignAttr cur (some n) = .ok cur) ∧
    (∀ k, k ≤ 28 → n = (2 : Int) ^ k → alignAttr cur (some n) = .ok n) ∧
    (n ≠ 0 → (∀ k, k ≤ 28 → n ≠ (2 : Int) ^ k) → alignAttr cur (some n) = .error .badAlign) := by
  rw [alignAttr_eq]
  refine ⟨fun h => by simp [h], fun k hk hn => ?_, fun h0 hp => ?_⟩
  · have hp : pow2le28 n = true := (pow2le28_iff n).2 ⟨k, hk, hn⟩
    have := pow2le28_pos hp
    have h0 : n ≠ 0 := by omega
    simp [h0, hp]
  · have hp' : ¬ pow2le28 n = true := fun h => by
      obtain ⟨k, hk, hn⟩ := (pow2le28_iff n).1 h
      exact hp k hk hn
    simp [h0, hp']

/-- **C08 (`aligned(0)`).**  `aligned(0)` on a struct or union lays out exactly like no attribute (sizeof, _Alignof, every
    member offset and bit position, and the same diagnostic if the member list has one) — no division by zero. -/
theorem C08_aligned_zero (p : Bool) (ms : Members) :
    (Ty.struct p (some 0) ms).layout = (Ty.struct p none ms).layout ∧
    (Ty.union p (some 0) ms).layout = (Ty.union p none ms).layout ∧
    (Ty.struct p (some 0) ms).sizeAlign = (Ty.struct p none ms).sizeAlign ∧
    (Ty.union p (some 0) ms).sizeAlign = (Ty.union p none ms).sizeAlign := by
  have h : ∀ cur : Int, alignAttr cur (some 0) = alignAttr cur none := fun cur => (C08_aligned_exact cur 0).1 rfl
  refine ⟨?_, ?_, ?_, ?_⟩ <;> simp only [Ty.layout, Ty.sizeAlign, h]

-- non-vacuity: `struct __attribute__((aligned(0))) { char a; int b; }` is 8/4 with b at 4; the empty struct is 0/1
example :
    (Ty.struct false (some 0) (.cons ⟨none, true⟩ .nil (.prim .char) (.cons ⟨none, true⟩ .nil (.prim .int) .nil))).layout
      = .ok ⟨8, 4, [⟨0, 0⟩, ⟨4, 0⟩]⟩ ∧
    (Ty.struct false (some 0) .nil).layout = .ok ⟨0, 1, []⟩ ∧ (Ty.union true (some 0) .nil).layout = .ok ⟨0, 1, []⟩ := by
  decide

/-- **C08 (`aligned(n)` rejected).**  Every other n — non-zero and not one of 2^0 … 2^28 — on a struct or union is answered
    with the located diagnostic, whatever the member list: never a layout, never a division by zero. -/
theorem C08_aligned_rejected (p : Bool) (n : Int) (ms : Members) (h0 : n ≠ 0) (hp : ∀ k, k ≤ 28 → n ≠ (2 : Int) ^ k) :
    (Ty.struct p (some n) ms).layout = .error .badAlign ∧ (Ty.union p (some n) ms).layout = .error .badAlign ∧
    (Ty.struct p (some n) ms).sizeAlign = .error .badAlign ∧ (Ty.union p (some n) ms).sizeAlign = .error .badAlign := by
  have h : ∀ cur : Int, alignAttr cur (some n) = .error .badAlign := fun cur => (C08_aligned_exact cur n).2.2 h0 hp
  refine ⟨?_, ?_, ?_, ?_⟩ <;> simp only [Ty.layout, Ty.sizeAlign, h] <;> rfl

-- non-vacuity: 3, -8, 2^28 + 2^27, 2^29, 2^32 (an `int` truncation would make it 0) satisfy the hypotheses …
example : ∀ n ∈ [(3 : Int), -8, 402653184, 536870912, 4294967296], n ≠ 0 ∧ ∀ k, k ≤ 28 → n ≠ (2 : Int) ^ k := by decide
-- … and 2^28 is still accepted: `struct __attribute__((aligned(268435456))) { char c; }` has alignment 2^28
example : alignAttr 1 (some 268435456) = .ok 268435456 ∧ alignAttr 1 (some 1) = .ok 1 ∧ alignAttr 1 (some 536870912) = .error .badAlign := by
  decide

/-- **C08 (bit-field types).**  The declared types `struct_members` admits for a bit-field (type.c `is_integer`, kinds
    regenerated) are exactly those of C11 6.7.2.1p5 as gcc extends it — `_Bool`, the char/short/int/long family signed or
    unsigned, enumerated types — for every type description; and a member list whose first member is a bit-field of any
    other type (floating, pointer, array, struct, union, void: also the zero-sized ones that used to be divisors) is answered
    with the located diagnostic "bit-field has non-integer type". -/
theorem C08_bitfield_type :
    (∀ t : Ty, t.isInteger = isBitfieldBase t) ∧
    (∀ (d : MemDecl) (as : Aligns) (ty : Ty) (rest : Members) (a : Int) (sa : Int × Int),
      d.bitWidth.isSome = true → isBitfieldBase ty = false → as.eval 0 = .ok a → ty.sizeAlign = .ok sa →
      (Members.cons d as ty rest).toMems = .error .bitfieldType) := by
  refine ⟨fun t => (isBitfieldBase_eq_isInteger t).symm, ?_⟩
  intro d as ty rest a sa hb hty ha hs
  rw [isBitfieldBase_eq_isInteger] at hty
  simp only [Members.toMems, ha, hs, bind, Except.bind, hb, hty, Bool.not_false, Bool.and_self, if_true]

-- non-vacuity: `struct { float x : 3; }`, `struct { struct {} e : 1; }` (size 0), `struct { int a[0] : 1; }`, `union { int *p : 4; }`
example :
    (Ty.struct false none (.cons ⟨some 3, true⟩ .nil (.prim .float) .nil)).layout = .error .bitfieldType ∧
    (Ty.struct false none (.cons ⟨some 1, true⟩ .nil (.struct false none .nil) .nil)).layout = .error .bitfieldType ∧
    (Ty.struct false none (.cons ⟨some 1, true⟩ .nil (.arr (.prim .int) 0) .nil)).layout = .error .bitfieldType ∧
    (Ty.union false none (.cons ⟨some 4, true⟩ .nil .ptr .nil)).layout = .error .bitfieldType ∧
    (Ty.struct false none (.cons ⟨some 3, true⟩ .nil .enum .nil)).layout = .ok ⟨4, 4, [⟨0, 0⟩]⟩ := by
  decide

/-- **C08 (no zero divisor).**  For *every* type description — any nesting of arrays, pointers, structs and unions, any
    `packed`, any `aligned(n)` and `_Alignas(n)` (n any integer), `_Alignas` with type-name operands, bit-fields of any
    declared type and any width, named or not — the model of `struct_members`/`attribute_list`/`struct_decl`/`union_decl`
    never reaches `align_to(n, 0)` or `bits / (sz * 8)` with `sz = 0`: `sizeof`/`_Alignof`, the layout and the alignment of
    a declared object are a value or a located diagnostic.  (Arithmetic in unbounded `Int`; `C08_align_bound` shows that
    the divisors are not zero in the 32-bit `int` arithmetic of the code either.) -/
theorem C08_no_divByZero (t : Ty) (as : Aligns) :
    t.sizeAlign ≠ .error .divByZero ∧ t.layout ≠ .error .divByZero ∧ varAlign as t ≠ .error .divByZero :=
  ⟨sizeAlign_ne_divByZero t, layout_ne_divByZero t, varAlign_ne_divByZero as t⟩

/-- **C08 (alignments are bounded by 2^28; the `int` divisors cannot wrap to zero).**  Every alignment the model ever
    computes lies in (0, 2^28]: `_Alignof` of every type description that has one, the alignment of every laid-out
    aggregate, and `mem->align` of every member `struct_members` hands to `struct_decl`/`union_decl`; a bit-field's declared
    type has 1 … 8 bytes.  Hence the divisors of `struct_decl` computed as C `int` (32-bit two's complement, `int32`):
    `mem->ty->size * 8` does not overflow and is not zero, `mem->align * 8` and `ty->align * 8` are not zero (2^28 * 8 = 2^31
    wraps to -2^31; a larger alignment — 2^29 * 8 and 2^30 * 8 wrap to 0 — reaches no loop). -/
theorem C08_align_bound :
    (∀ (t : Ty) (s a : Int), t.sizeAlign = .ok (s, a) → 0 < a ∧ a ≤ 2 ^ 28) ∧
    (∀ (t : Ty) (l : Layout), t.layout = .ok l → 0 < l.align ∧ l.align ≤ 2 ^ 28) ∧
    (∀ (ms : Members) (l : List Mem), ms.toMems = .ok l → ∀ m ∈ l,
      (0 < m.align ∧ m.align ≤ 2 ^ 28 ∧ int32 (m.align * 8) ≠ 0) ∧
      (m.bitWidth.isSome = true → 0 < m.size ∧ m.size ≤ 8 ∧ int32 (m.size * 8) = m.size * 8)) ∧
    (∀ a : Int, 0 < a → a ≤ 2 ^ 28 → int32 (a * 8) ≠ 0) ∧ int32 (2 ^ 29 * 8) = 0 ∧ int32 (2 ^ 30 * 8) = 0 := by
  have e : (2 : Int) ^ 28 = MAXALIGN := by decide
  rw [e]
  refine ⟨fun t s a h => sizeAlign_align_pos h, fun t l h => ?_, fun ms l h m hm => ?_,
    fun a h1 h2 => int32_mul8_ne_zero h1 h2, by decide, by decide⟩
  · have := layout_inv t
    rw [h] at this
    exact this
  · have hg := toMems_good h
    have hd := divisors_int32 l hg 1 (by decide)
    exact ⟨⟨(hg m hm).1.1, (hg m hm).1.2, hd.2.1 m hm⟩,
      fun hb => ⟨((hg m hm).2 hb).1, ((hg m hm).2 hb).2, (hd.1 m hm hb).1⟩⟩

-- non-vacuity: `struct { _Alignas(268435456) char c; }` reaches the bound (and is laid out: 2^28/2^28)
example : (Ty.struct false none (.cons ⟨none, true⟩ (.const 268435456 .nil) (.prim .char) .nil)).sizeAlign
    = .ok (268435456, 268435456) := by decide +kernel

/-- **C08 (outcome class).**  A type description gets a layout iff the specification accepts it (`specAccepted`, gcc's
    constraints: every `aligned(n)` is 0 or a power of two ≤ 2^28 and every bit-field has an integer declared type, at every
    depth, `_Alignas(type-name)` operands included); every other description gets one of the two located diagnostics; and
    every well-formed description (`Ty.ok false`, the domain of `C08_types_Statement`, known-finding regions included) is
    accepted. -/
theorem C08_outcome_class (t : Ty) :
    ((∃ l, t.layout = .ok l) ↔ specAccepted t = true) ∧
    (specAccepted t = false → t.layout = .error .badAlign ∨ t.layout = .error .bitfieldType) ∧
    (t.ok false = true → specAccepted t = true) := by
  rw [← accepted_eq_ty]
  exact ⟨layout_ok_iff t, layout_diag_of_not_accepted t, ok_accepted_ty false t⟩

-- non-vacuity: a bad attribute deep inside an `_Alignas(type-name)` operand of a nested member
example :
    let bad : Ty := .union false (some 24) (.cons ⟨none, true⟩ .nil (.prim .long) .nil)
    let t : Ty := .struct true none (.cons ⟨none, true⟩ .nil (.prim .char)
      (.cons ⟨none, false⟩ .nil (.struct false (some 0) (.cons ⟨none, true⟩ (.type bad .nil) (.arr (.prim .char) 24) .nil)) .nil))
    specAccepted t = false ∧ t.layout = .error .badAlign := by
  decide

/-! ## whole types: nested and anonymous aggregates, arrays, pointers, flexible array members -/

/-- full statement for type descriptions (`Ty`: scalars, enum, pointers, arrays, flexible last member, struct/union with
    `packed`/`aligned(n)`, members with `_Alignas`, bit-fields, names or none, nested to any depth): every well-formed
    description (`Ty.ok false`: C11's constraints on bit-fields, positive `aligned`, non-negative numbers) gets the psABI
    layout.  False inside `packed` (the same three regions). -/
def C08_types_Statement : Prop :=
  ∀ t : Ty, t.ok false = true → t.layout = .ok (specTy t).toLayout

/-- **C08 (whole types; partial).**  For every well-formed type description all of whose aggregates — at every nesting
    depth — lie outside the three known-finding regions (`Ty.ok true`), the model of `declarator`/`struct_members`/
    `struct_decl`/`union_decl`/`array_of`/`pointer_to` computes exactly the specification's size, alignment, member
    offsets and bit-field positions, and never divides by zero. -/
theorem C08_types_partial (t : Ty) (h : t.ok true = true) : t.layout = .ok (specTy t).toLayout :=
  layout_eq t h

/-- **C08 (whole types, by region).**  The same with the scope spelled out by region: a well-formed description
    (`Ty.ok false`) no aggregate of which — at any depth, `_Alignas(type-name)` operands included — lies in one of the three
    known-finding regions (`Ty.inRegion k`, k = 0, 1, 2; this is what `drv_c08 regions` prints and what the check uses to
    attribute a mismatch to a known finding) gets the psABI layout. -/
theorem C08_types_outside_regions (t : Ty) (h : t.ok false = true) (hr : ∀ k, k < 3 → t.inRegion k = false) :
    t.layout = .ok (specTy t).toLayout :=
  layout_eq t (ok_of_noRegion_ty t h hr)

-- non-vacuity: struct { char a; struct __attribute__((packed)) { char f : 3; int g : 17; } p; } touches no region
example :
    let t : Ty := .struct false none (.cons ⟨none, true⟩ .nil (.prim .char) (.cons ⟨none, true⟩ .nil
      (.struct true none (.cons ⟨some 3, true⟩ .nil (.prim .char) (.cons ⟨some 17, true⟩ .nil (.prim .int) .nil))) .nil))
    t.ok false = true ∧ (∀ k, k < 3 → t.inRegion k = false) ∧ specTy t = ⟨4, 1, [⟨0, 0, 0⟩, ⟨8, 1, 0⟩]⟩ := by
  decide

-- non-vacuity: struct { char a; struct { long x; int y : 5; int : 0; char z[3]; }; union { short s; long double d; } u; int *p[2]; char f[]; }
example :
    let inner : Ty := .struct false none (.cons ⟨none, true⟩ .nil (.prim .long) (.cons ⟨some 5, true⟩ .nil (.prim .int)
      (.cons ⟨some 0, false⟩ .nil (.prim .int) (.cons ⟨none, true⟩ .nil (.arr (.prim .char) 3) .nil))))
    let u : Ty := .union false none (.cons ⟨none, true⟩ .nil (.prim .short) (.cons ⟨none, true⟩ .nil (.prim .ldouble) .nil))
    let t : Ty := .struct false none (.cons ⟨none, true⟩ .nil (.prim .char) (.cons ⟨none, false⟩ .nil inner
      (.cons ⟨none, true⟩ .nil u (.cons ⟨none, true⟩ .nil (.arr .ptr 2) (.cons ⟨none, true⟩ .nil (.flex (.prim .char)) .nil)))))
    t.ok true = true ∧ specTy t = ⟨64, 16, [⟨0, 0, 0⟩, ⟨64, 8, 0⟩, ⟨256, 32, 0⟩, ⟨384, 48, 0⟩, ⟨512, 64, 0⟩]⟩ := by
  decide

/-! ## what the allocation rule guarantees (the psABI wording, as consequences) -/

/-- **C08 (allocation rule).**  For one member of a struct that is not packed, placed when the first free bit is `cur`:
    it starts at or after `cur` and the cursor moves past it; a member that is not a bit-field starts at the *least*
    offset ≥ `cur` that is a multiple of its alignment; a zero-width bit-field moves the cursor to the least unit boundary;
    a bit-field of width `w > 0` lies inside *one* naturally aligned storage unit of its declared type
    (`start / unit = (start + w - 1) / unit`), at the next free bit if it fits there and otherwise at the next boundary. -/
theorem C08_allocation_rule (cur : Nat) (m : SMem) (hwf : m.WF) :
    cur ≤ (allocate false cur m).1 ∧ (allocate false cur m).2 = (allocate false cur m).1 + m.bits ∧
    (m.bitWidth = none → LeastAligned (8 * m.reqAlign false) cur (allocate false cur m).1) ∧
    (m.bitWidth = some 0 → LeastAligned (8 * m.size) cur (allocate false cur m).1) ∧
    (∀ w, m.bitWidth = some w → 0 < w →
      (allocate false cur m).1 / (8 * m.size) = ((allocate false cur m).1 + w - 1) / (8 * m.size) ∧
      ((cur % (8 * m.size) + w ≤ 8 * m.size ∧ (allocate false cur m).1 = cur) ∨
       (¬ cur % (8 * m.size) + w ≤ 8 * m.size ∧ LeastAligned (8 * m.size) cur (allocate false cur m).1))) :=
  allocate_sound cur m hwf

/-- **C08 (struct invariants).**  In the layout that `struct_decl` computes for a struct that is not packed
    (by `C08_layout_partial` it is `specStruct`): the members lie in declaration order and are pairwise disjoint
    (`InOrder`: each starts at or after the end of its predecessor); `sizeof` is a multiple of `_Alignof`, covers the last
    member and is the least such; `_Alignof` is at least the alignment of every member that contributes (everything except
    unnamed bit-fields) and at least `aligned(n)`. -/
theorem C08_struct_invariants (aligned : Option Nat) (ms : List SMem)
    (hal : ∀ n, aligned = some n → 0 < n) (hwf : ∀ m ∈ ms, m.WF) :
    InOrder 0 ms (specStruct false aligned ms).placed (allocateAll false 0 ms).1 ∧
    (specStruct false aligned ms).align ∣ (specStruct false aligned ms).size ∧
    (allocateAll false 0 ms).1 ≤ 8 * (specStruct false aligned ms).size ∧
    8 * (specStruct false aligned ms).size < (allocateAll false 0 ms).1 + 8 * (specStruct false aligned ms).align ∧
    (∀ m ∈ ms, m.contrib false ≤ (specStruct false aligned ms).align) ∧
    (∀ n, aligned = some n → n ≤ (specStruct false aligned ms).align) := by
  have h := specStruct_size aligned ms hal
  exact ⟨allocateAll_inOrder ms 0 hwf, h.1, h.2.1, h.2.2.1, h.2.2.2.1, h.2.2.2.2⟩

-- non-vacuity of the hypotheses: see the examples under `C08_layout_unpacked`

end ChibiVerif.Props.C08
