/-
C08 — type sizes, alignments and layouts equal the psABI.  Property theorems only.
-/
import ChibiVerif.Model.Layout
import ChibiVerif.Spec.LayoutSpec

namespace ChibiVerif.Props.C08
open ChibiVerif.Layout ChibiVerif.Gen.Declspec ChibiVerif.Spec.Layout

/-- **C08 (scalars).**  The `Type` literals of type.c have the sizes and alignments of psABI figure 3.1. -/
theorem C08_prims : ∀ t : TyName,
    primSize t = ((psabiScalar t).1 : Nat) ∧ primAlign t = ((psabiScalar t).2 : Nat) := by
  intro t; cases t <;> decide

end ChibiVerif.Props.C08
