/-
C20 — Evaluation leaves no residue on the machine stack or the x87 stack.

Subject: `Model/Codegen` (the Lean double of codegen.c, tied to the real compiler by byte-for-byte
equality of the assembly text on every run) under the effect semantics of `Model/Effect`
(Δrsp in bytes, Δx87 in registers; `delta` for straight-line code, `Balanced` for code with labels
and jumps: one height per label, every jump and fall-through arrives at its label's height).

Full statements (`C20_*_Statement`) quantify over every node kind.  Proved:
* `C20_depth_partial`, `C20_assert` — the `depth` half, ALL 47 node kinds (side condition `okN`: the
  sizes of aggregate arguments are not negative; since /repo b298aee an empty struct is an ordinary
  argument).
* `C20_expr_partial` … `C20_call_partial` — the rsp/x87 half for the straight-line node kinds
  (`covE/covA/covS`), as an equation for `delta` (no label, no jump in the code).
* `C20_expr_flow_partial`, `C20_expr_flow_balanced_partial`, `C20_addr_flow_partial`,
  `C20_stmt_flow_partial`, `C20_function_flow_partial` — the rsp/x87 half for ALL node kinds, code with
  labels included (?:, &&, ||, if, for, do/while, switch/case, goto/labels, break/continue, return,
  statement expressions, compare-and-swap, the builtin alloca), by structural induction over the
  tree in the label-height calculus of Lemmas/C20Flow*.lean: the generated code has one (rsp, x87)
  height per label, every jump and every fall-through arrives at its label's height, control falls
  out of an expression at (0, +1 iff long double) and out of a statement at (0, 0), every `return`
  is reached with rsp = 0.  That the labels of the code are pairwise distinct is PROVED: for the labels
  made up from `count()` from the freshness of the monotone counter (Lemmas/C20Labels.lean, C20Fresh.lean),
  for the numeric local labels by renaming, and for the labels that come from the parser
  (`C20_parser_labels_distinct`, Lemmas/C20TreeLabels.lean) from a fact about the TREE: `treeDistinct` — the
  labels parse.c gave the loops, switches, `case`s and labelled statements of the function with
  `new_unique_name()` are pairwise distinct (decidable; evaluated on every dumped function).  No
  hypothesis about the emitted lines is left.
  Scope (`flowE/flowS/flowFn`, Model/C20Flow.lean, decidable): every jump stays inside its region
  (function body / body of a statement expression; outside: known finding C20-jump-out-of-stmt-expr),
  `return` agrees with the function's return type.
* `C20_checkBody_sound`, `C20_checkBody_complete`, `C20_checkBody_iff`, `C20_checkBody_balanced` — the
  executable whole-function check (label heights inferred to a fixpoint, then verified) accepts EXACTLY
  the code for which some labelling passes `Effect.verify`; code that is `FnBalanced` is rejected only
  with the range complaint (`rangeMsg c`, `okH c = false`: a reachable height above the frame or outside
  the eight x87 registers).  `C20_function_check_partial`: for every function in scope the check accepts
  or complains about the range — no other complaint is possible.
What stays open: `C20_expr_Statement` / `C20_stmt_Statement` / `C20_function_Statement` as stated are
FALSE (Findings/C20.lean: a jump out of a statement expression; more than eight long double values
live on the x87 stack); the range half of `checkBody` (rsp never above the frame, at most eight x87
registers) is not proved and stays with the executable check on every emitted function.

Property theorems only; helper lemmas are in Lemmas/C20*.lean.
-/
import ChibiVerif.Lemmas.C20Induction
import ChibiVerif.Lemmas.C20Typing
import ChibiVerif.Lemmas.C20Depth
import ChibiVerif.Lemmas.C20FlowTop
import ChibiVerif.Lemmas.C20Complete
import ChibiVerif.Lemmas.C20TreeLabels

namespace ChibiVerif.Props.C20
open ChibiVerif ChibiVerif.Codegen ChibiVerif.Effect ChibiVerif.Asm ChibiVerif.Ast
open ChibiVerif.Lemmas.C20 ChibiVerif.C20Scope

/-- +1 on the x87 stack iff the node's type is long double -/
def x87Of (n : Node) : Int := if isLD n.ty? then 1 else 0

/-- **C20_expr, full statement.**  For every well-typed expression tree of every kind: whenever
    `gen_expr` succeeds, the code it printed is balanced — Δrsp = 0 on every path, Δx87 = +1 iff the
    node's type is long double — and the `depth` counter is back where it was. -/
def C20_expr_Statement : Prop :=
  ∀ (env : Env) (n : Node), typedE env n = true →
    ∀ s s' ls, genExpr env n s = .ok ((), s', ls) →
      Balanced ls ⟨0, x87Of n⟩ ∧ s'.depth = s.depth

/-- **C20_stmt, full statement.**  Every well-typed statement: on every way out of its code (falling
    through, if that is possible at all) nothing is left on either stack. -/
def C20_stmt_Statement : Prop :=
  ∀ (env : Env) (n : Node), typedS env n = true →
    ∀ s s' ls, genStmt env n s = .ok ((), s', ls) →
      BalancedOrLeaves ls ⟨0, 0⟩ ∧ s'.depth = s.depth

/-- **C20_function, full statement.**  The code of every function body passes the whole-function
    check: one height per label (so no loop, branch, `break`, `continue` or `goto` accumulates
    residue, for any number of repetitions), never below the frame, never more than eight x87
    registers, `rsp` back at the frame on every `return`; and `assert(depth == 0)` in `emit_text`
    holds. -/
def C20_function_Statement : Prop :=
  ∀ (p : Program) (fn : Obj) (env : Env) (k : Int), fnEnv p fn = .ok (env, k) →
    typedS env fn.body = true →
    ∀ s s' ls, genStmt env fn.body s = .ok ((), s', ls) →
      checkBody ls = .ok () ∧ s'.depth = s.depth

/-- **C20_expr (proved part).**  Every expression in scope (`covE`: all straight-line expression
    kinds, any nesting, any operand types): its code is straight-line with Δrsp = 0 and
    Δx87 = +1 iff its type is long double, and `depth` is unchanged. -/
theorem C20_expr_partial (env : Env) (n : Node) (h : covE env n = true)
    (s s' : St) (ls : List Line) (hg : genExpr env n s = .ok ((), s', ls)) :
    delta ls = some ⟨0, x87Of n⟩ ∧ s'.depth = s.depth := by
  have := (expr_ok env n h).elim hg
  simpa [x87Of, xOf, Straight] using this

example : covE { fpic := false, types := [] }
    (.binop ⟨none, 1, 1⟩ .add (.num ⟨none, 1, 1⟩ 1 0 0 0 0) (.num ⟨none, 1, 1⟩ 2 0 0 0 0)) = true := by
  decide

/-- **C20_expr, in the vocabulary of the full statement.** -/
theorem C20_expr_balanced_partial (env : Env) (n : Node) (h : covE env n = true)
    (s s' : St) (ls : List Line) (hg : genExpr env n s = .ok ((), s', ls)) :
    Balanced ls ⟨0, x87Of n⟩ ∧ s'.depth = s.depth := by
  obtain ⟨h1, h2⟩ := C20_expr_partial env n h s s' ls hg
  exact ⟨balanced_of_delta h1, h2⟩

example : covE { fpic := false, types := [] } (.neg ⟨none, 1, 1⟩ (.num ⟨none, 1, 1⟩ 1 0 0 0 0)) = true := by
  decide

/-- **C20_addr (proved part).**  Computing the address of an lvalue in scope leaves both stacks and
    `depth` as they were. -/
theorem C20_addr_partial (env : Env) (n : Node) (h : covA env n = true)
    (s s' : St) (ls : List Line) (hg : genAddr env n s = .ok ((), s', ls)) :
    delta ls = some ⟨0, 0⟩ ∧ s'.depth = s.depth := by
  simpa [Straight] using (addr_ok env n h).elim hg

example : covA { fpic := false, types := [] } (.deref ⟨none, 1, 1⟩ (.var ⟨none, 1, 1⟩ none)) = true := by
  decide

/-- **C20_stmt (proved part).**  Expression statements (the discard of a long double value
    included), blocks of them and `asm` statements leave nothing behind: (0, 0). -/
theorem C20_stmt_partial (env : Env) (n : Node) (h : covS env n = true)
    (s s' : St) (ls : List Line) (hg : genStmt env n s = .ok ((), s', ls)) :
    delta ls = some ⟨0, 0⟩ ∧ s'.depth = s.depth := by
  simpa [Straight] using (stmt_ok env n h).elim hg

example : covS { fpic := false, types := [] }
    (.block ⟨none, 1, 1⟩ (.cons (.exprStmt ⟨none, 1, 1⟩ (.num ⟨none, 1, 1⟩ 1 0 0 0 0)) .nil)) = true := by
  decide

/-- **C20_repeat.**  Any number of repetitions of an in-scope statement leaves `rsp` and the x87 top
    where they were (the straight-line effect of the repeated code is still (0, 0)). -/
theorem C20_repeat_partial (env : Env) (n : Node) (h : covS env n = true)
    (s s' : St) (ls : List Line) (hg : genStmt env n s = .ok ((), s', ls)) (k : Nat) :
    delta (List.flatten (List.replicate k ls)) = some ⟨0, 0⟩ := by
  have h0 := (C20_stmt_partial env n h s s' ls hg).1
  induction k with
  | zero => rfl
  | succ k ih =>
    rw [List.replicate_succ, List.flatten_cons, delta_append, h0, ih]
    rfl

/-- **C20_one_value (proved part).**  An assignment is an expression: after `a = b` of long double
    type exactly one value is on the x87 stack (so `a = b = c` stores the value and not an empty
    register), for every in-scope right-hand side. -/
theorem C20_one_value_partial (env : Env) (i : NInfo) (lhs rhs : Node)
    (h : covE env (.assign i lhs rhs) = true) (hld : isLD i.ty = true)
    (s s' : St) (ls : List Line) (hg : genExpr env (.assign i lhs rhs) s = .ok ((), s', ls)) :
    delta ls = some ⟨0, 1⟩ := by
  have := (C20_expr_partial env _ h s s' ls hg).1
  simpa [x87Of, hld] using this

/-- **C20_call (proved part).**  A call whose callee expression and arguments are in scope: whatever
    the classification of the arguments (the two classification loops of `push_args` and of the
    ND_FUNCALL arm always agree), what is popped into registers and dropped after the call is exactly
    what was pushed — Δrsp = 0, `depth` unchanged — and the x87 stack holds the result iff the call
    returns long double. -/
theorem C20_call_partial (env : Env) (i : NInfo) (lhs : Node) (fty : Int) (rb : Option Var) (args : NodeList)
    (h : covE env (.funcall i lhs fty rb args) = true)
    (s s' : St) (ls : List Line) (hg : genExpr env (.funcall i lhs fty rb args) s = .ok ((), s', ls)) :
    delta ls = some ⟨0, x87Of (.funcall i lhs fty rb args)⟩ ∧ s'.depth = s.depth :=
  C20_expr_partial env _ h s s' ls hg

example : covE { fpic := false, types := [] }
    (.funcall ⟨none, 1, 1⟩ (.var ⟨none, 1, 1⟩ none) 0 none
      (.cons (.num ⟨none, 1, 1⟩ 1 0 0 0 0) (.cons (.num ⟨none, 1, 1⟩ 2 0 0 0 0) .nil))) = true := by
  decide

/-- **C20_assert (proved part).**  `assert(depth == 0)` in `emit_text` holds after every function
    body in scope: `gen_stmt` returns with the `depth` it started with. -/
theorem C20_assert_partial (env : Env) (body : Node) (h : covS env body = true)
    (s s' : St) (ls : List Line) (hg : genStmt env body s = .ok ((), s', ls)) (h0 : s.depth = 0) :
    s'.depth = 0 := by
  rw [(C20_stmt_partial env body h s s' ls hg).2, h0]

example : covS { fpic := false, types := [] } (.block ⟨none, 1, 1⟩ .nil) = true := by decide

/-- **C20_depth, full statement.**  `depth` is unchanged by the code of every node. -/
def C20_depth_Statement : Prop :=
  ∀ (env : Env) (n : Node) (s s' : St) (ls : List Line),
    (genExpr env n s = .ok ((), s', ls) ∨ genAddr env n s = .ok ((), s', ls) ∨ genStmt env n s = .ok ((), s', ls)) →
    s'.depth = s.depth

/-- **C20_depth (all 47 node kinds).**  For every tree of every kind — control flow, statement
    expressions, calls with any argument list (GNU empty structs included), atomics, alloca, ill-typed
    trees included — in which the sizes of struct/union arguments are not negative (`okN`: true of
    every type `type.c` builds): `gen_expr`, `gen_addr` and `gen_stmt` return with the `depth` they
    were entered with. -/
theorem C20_depth_partial (env : Env) (n : Node) (h : okN n = true) (s s' : St) (ls : List Line)
    (hg : genExpr env n s = .ok ((), s', ls) ∨ genAddr env n s = .ok ((), s', ls) ∨
      genStmt env n s = .ok ((), s', ls)) :
    s'.depth = s.depth := by
  rcases hg with hg | hg | hg
  · simpa using (dexpr env n h).elim hg
  · simpa using (daddr env n h).elim hg
  · simpa using (dstmt env n h).elim hg

example : okN (.if_ ⟨none, 1, 1⟩ (.num ⟨none, 1, 1⟩ 1 0 0 0 0) (.block ⟨none, 1, 1⟩ .nil) .null) = true := by decide

/-- **C20_assert (every function).**  `assert(depth == 0)` in `emit_text` never fires: whenever
    `gen_stmt(fn->body)` succeeds on a body of any shape (aggregate argument sizes not negative), the
    assertion that follows it passes, so `fnBody` succeeds with the same code. -/
theorem C20_assert (env : Env) (fn : Obj) (h : okN fn.body = true) (s s' : St) (ls : List Line)
    (hg : genStmt env fn.body s = .ok ((), s', ls)) (h0 : s.depth = 0) :
    fnBody env fn s = .ok ((), s', ls) := by
  have hd : s'.depth = 0 := by rw [C20_depth_partial env fn.body h s s' ls (Or.inr (Or.inr hg)), h0]
  simp [fnBody, bind, M.bind, hg, getDepth, hd, pure, M.pure]

example : okN (.block ⟨none, 1, 1⟩ (.cons (.ret ⟨none, 1, 1⟩ .null) .nil)) = true := by decide

/-- **C20_cast_table.**  Every cell of the regenerated `cast_table` is straight-line, leaves %rsp
    alone and changes the x87 depth by (to is long double) − (from is long double); in particular
    the `(void)`-free conversions never leak or underflow. -/
theorem C20_cast_table : ∀ t1, t1 < 11 → ∀ t2, t2 < 11 →
    (match Gen.CastTable.castCell t1 t2 with
     | some l => lineDelta l
     | none => some H.zero) = some ⟨0, f80 t2 - f80 t1⟩ :=
  castTable_delta

/-! ## the parser's labels -/

/-- **The parser's labels occur once each in the generated code.**  For every tree (every node kind;
    side condition `okN`: aggregate argument sizes are not negative) whose parser labels — the
    `break`/`continue` labels of its loops and switches, its `case`/`default` labels and labelled
    statements, in all regions (`labsN`) — are pairwise distinct, the code `gen_expr`, `gen_addr` or
    `gen_stmt` prints defines each of them at most once (`userDistinct`): every operand's code is
    printed at most once and a label line only where the tree has the label; the labels made up from
    `count()` and the numeric local labels are never spelled like a parser label.  This replaces the
    hypothesis about the emitted lines of the label-height theorems by a fact about the tree. -/
theorem C20_parser_labels_distinct (env : Env) (n : Node) (hok : okN n = true) (hd : treeDistinct n = true)
    (s s' : St) (ls : List Line)
    (hg : genExpr env n s = .ok ((), s', ls) ∨ genAddr env n s = .ok ((), s', ls) ∨
      genStmt env n s = .ok ((), s', ls)) :
    userDistinct ls = true := by
  rcases hg with hg | hg | hg
  · exact userDistinct_of_tree_expr hok hd hg
  · exact userDistinct_of_tree_addr hok hd hg
  · exact userDistinct_of_tree_stmt hok hd hg

example : okN (.for_ ⟨none, 1, 1⟩ .null (.num ⟨none, 1, 1⟩ 1 0 0 0 0) .null
      (.do_ ⟨none, 1, 1⟩ (.block ⟨none, 1, 1⟩ .nil) (.num ⟨none, 1, 1⟩ 0 0 0 0 0) (some ".L..3") (some ".L..4"))
      (some ".L..1") (some ".L..2")) = true
  ∧ treeDistinct (.for_ ⟨none, 1, 1⟩ .null (.num ⟨none, 1, 1⟩ 1 0 0 0 0) .null
      (.do_ ⟨none, 1, 1⟩ (.block ⟨none, 1, 1⟩ .nil) (.num ⟨none, 1, 1⟩ 0 0 0 0 0) (some ".L..3") (some ".L..4"))
      (some ".L..1") (some ".L..2")) = true
  -- the hypothesis is not vacuous: a tree that uses one label for two loops fails it
  ∧ treeDistinct (.for_ ⟨none, 1, 1⟩ .null (.num ⟨none, 1, 1⟩ 1 0 0 0 0) .null
      (.do_ ⟨none, 1, 1⟩ (.block ⟨none, 1, 1⟩ .nil) (.num ⟨none, 1, 1⟩ 0 0 0 0 0) (some ".L..1") (some ".L..4"))
      (some ".L..1") (some ".L..2")) = false := by
  decide

/-! ## code with labels: every node kind -/

/-- **C20_expr (every expression kind, code with labels included).**  For every well-typed expression
    in scope (`flowE`: conditional, `&&`, `||`, statement expressions, compare-and-swap, alloca and
    calls with any argument list included; every jump inside a statement expression stays inside
    it): the code `gen_expr` prints has one (rsp, x87) height per label such
    that every jump and every fall-through arrives at its label's height, and control falls out of
    its end — if it can — with Δrsp = 0 and Δx87 = +1 iff the node's type is long double; `depth` is
    back where it was.  The labels the code generator makes up from `count()` are proved pairwise
    distinct (freshness of the monotone counter, Lemmas/C20Labels.lean, Lemmas/C20Fresh.lean); `hd`: the
    labels the TREE got from the parser (`break`/`continue`/`case` labels and labelled statements inside
    statement expressions) are pairwise distinct (decidable; a fact about `parse.c`'s `new_unique_name()`,
    evaluated on every function the real front end dumps) — from which it is proved that they occur once
    each in the code (`C20_parser_labels_distinct`). -/
theorem C20_expr_flow_partial (env : Env) (n : Node) (ht : typedE env n = true) (hf : flowE n = true)
    (hd : treeDistinct n = true)
    (s s' : St) (ls : List Line) (hg : genExpr env n s = .ok ((), s', ls)) :
    BalancedOrLeaves ls ⟨0, x87Of n⟩ ∧ s'.depth = s.depth := by
  have hu := userDistinct_of_tree_expr (okN_of_flowE n hf) hd hg
  obtain ⟨h1, h2⟩ := (fexpr env n ht hf).elim hg
  exact ⟨by simpa [x87Of, xOf] using balancedOrLeaves_of_FlowP h1 hu, by simpa using h2⟩

example : typedE { fpic := false, types := [] }
    (.cond ⟨none, 1, 1⟩ (.num ⟨none, 1, 1⟩ 1 0 0 0 0) (.num ⟨none, 1, 1⟩ 2 0 0 0 0) (.num ⟨none, 1, 1⟩ 3 0 0 0 0)) = true
  ∧ flowE (.cond ⟨none, 1, 1⟩ (.num ⟨none, 1, 1⟩ 1 0 0 0 0) (.num ⟨none, 1, 1⟩ 2 0 0 0 0) (.num ⟨none, 1, 1⟩ 3 0 0 0 0)) = true := by
  decide

/-- **C20_expr, in the vocabulary of the full statement.**  When control falls out of the end of the
    code (`fallsThrough`: it does not end in a jump away — decidable; the code of an expression ends
    in a jump only if a statement expression in it does), the code is `Balanced`: control leaves it
    with Δrsp = 0 and Δx87 = +1 iff the node's type is long double. -/
theorem C20_expr_flow_balanced_partial (env : Env) (n : Node) (ht : typedE env n = true) (hf : flowE n = true)
    (hd : treeDistinct n = true)
    (s s' : St) (ls : List Line) (hg : genExpr env n s = .ok ((), s', ls))
    (hft : fallsThrough ls = true) :
    Balanced ls ⟨0, x87Of n⟩ ∧ s'.depth = s.depth := by
  obtain ⟨h1, h2⟩ := C20_expr_flow_partial env n ht hf hd s s' ls hg
  exact ⟨balanced_of_fallsThrough h1 hft, h2⟩

example : typedE { fpic := false, types := [] }
    (.logand ⟨none, 1, 1⟩ (.num ⟨none, 1, 1⟩ 1 0 0 0 0) (.num ⟨none, 1, 1⟩ 2 0 0 0 0)) = true
  ∧ flowE (.logand ⟨none, 1, 1⟩ (.num ⟨none, 1, 1⟩ 1 0 0 0 0) (.num ⟨none, 1, 1⟩ 2 0 0 0 0)) = true := by
  decide

/-- **C20_addr (every lvalue kind).**  The same for `gen_addr`: Δrsp = 0, Δx87 = 0. -/
theorem C20_addr_flow_partial (env : Env) (n : Node) (ht : typedA env n = true) (hf : flowA n = true)
    (hd : treeDistinct n = true)
    (s s' : St) (ls : List Line) (hg : genAddr env n s = .ok ((), s', ls)) :
    BalancedOrLeaves ls ⟨0, 0⟩ ∧ s'.depth = s.depth := by
  have hu := userDistinct_of_tree_addr (okN_of_flowA n hf) hd hg
  obtain ⟨h1, h2⟩ := (faddr env n ht hf).elim hg
  exact ⟨balancedOrLeaves_of_FlowP h1 hu, by simpa using h2⟩

example : typedA { fpic := false, types := [] }
    (.cond ⟨none, 1, 1⟩ (.num ⟨none, 1, 1⟩ 1 0 0 0 0) (.var ⟨none, 1, 1⟩ none) (.var ⟨none, 1, 1⟩ none)) = true
  ∧ flowA (.cond ⟨none, 1, 1⟩ (.num ⟨none, 1, 1⟩ 1 0 0 0 0) (.var ⟨none, 1, 1⟩ none) (.var ⟨none, 1, 1⟩ none)) = true := by
  decide

/-- **C20_stmt (every statement kind).**  A well-typed statement that is a region of its own (`flowS`
    with the labels it defines: every `break`, `continue`, `goto` and `case` dispatch in it targets a
    label defined in it; no `return`): one height per label, every jump and fall-through arrives at
    its label's height — so no number of iterations of a loop in it accumulates residue — and control
    falls out of its end, if it can, at (0, 0). -/
theorem C20_stmt_flow_partial (env : Env) (n : Node) (ht : typedS env n = true)
    (hf : flowS (defsS n) none n = true) (hd : treeDistinct n = true)
    (s s' : St) (ls : List Line) (hg : genStmt env n s = .ok ((), s', ls)) :
    BalancedOrLeaves ls ⟨0, 0⟩ ∧ s'.depth = s.depth := by
  have hu := userDistinct_of_tree_stmt (okN_of_flowS _ _ n hf) hd hg
  have h := fstmt env (defsS n) none (at0 (defsS n)) (fun l hl => mem_at0.mpr ⟨hl, rfl⟩)
    (fun _ h => by cases h) n ht hf
  obtain ⟨h1, h2⟩ := (SemP_of_region h (fun l hl => mem_at0.mpr ⟨hl, rfl⟩)).elim hg
  exact ⟨balancedOrLeaves_of_FlowP h1 hu, by simpa using h2⟩

example : typedS { fpic := false, types := [] }
    (.for_ ⟨none, 1, 1⟩ .null (.num ⟨none, 1, 1⟩ 1 0 0 0 0) .null
      (.goto_ ⟨none, 1, 1⟩ none (some ".L..1")) (some ".L..1") (some ".L..2")) = true
  ∧ flowS [".L..2", ".L..1"] none
    (.for_ ⟨none, 1, 1⟩ .null (.num ⟨none, 1, 1⟩ 1 0 0 0 0) .null
      (.goto_ ⟨none, 1, 1⟩ none (some ".L..1")) (some ".L..1") (some ".L..2")) = true := by
  decide

/-- **C20_function (every function body in scope).**  For every function whose body is well typed and
    in scope (`flowFn`: every jump targets a label of its own region, `return` only in the region of
    the body and of the function's long-double-ness): the code of the body
    passes the whole-function label-height check `verifyL` (`Effect.verify`, the check `checkBody`
    runs on every emitted function, without its range test) with some labelling — one (rsp, x87)
    height per label, every jump and fall-through arrives at its label's height, every `return`
    leaves with rsp = 0 — and `assert(depth == 0)` holds.  That the labels of the code are pairwise
    distinct is proved: for the labels made up from the monotone counter `count()`, for the numeric
    local labels, and for the parser's labels from `hd`: the labels of the loops, switches, `case`s and
    labelled statements of the TREE are pairwise distinct (decidable; no hypothesis about the emitted
    lines). -/
theorem C20_function_flow_partial (p : Program) (fn : Obj) (env : Env) (k : Int)
    (_he : fnEnv p fn = .ok (env, k)) (ht : typedS env fn.body = true) (hf : flowFn env fn.body = true)
    (hd : treeDistinct fn.body = true)
    (s s' : St) (ls : List Line) (hg : genStmt env fn.body s = .ok ((), s', ls)) :
    FnBalanced ls ∧ BalancedOrLeaves ls ⟨0, 0⟩ ∧ s'.depth = s.depth := by
  have hu := userDistinct_of_tree_stmt (okN_of_flowS _ _ fn.body hf) hd hg
  have h := fstmt env (defsS fn.body) (some (isLD env.retTy))
    ((retLabel env, ⟨0, if isLD env.retTy then 1 else 0⟩) :: at0 (defsS fn.body))
    (fun l hl => List.mem_cons_of_mem _ (mem_at0.mpr ⟨hl, rfl⟩))
    (fun ld h => by simp only [Option.some.injEq] at h; subst h; exact List.mem_cons_self) fn.body ht hf
  obtain ⟨h1, h2, h3⟩ := h s () s' ls hg
  obtain ⟨b1, b2⟩ := fnBalanced_of_SemF h1 (fun l hl => mem_at0.mpr ⟨hl, rfl⟩) h3 hu
  exact ⟨b1, b2, by simpa using h2⟩

example : flowFn { fpic := false, types := [] }
    (.block ⟨none, 1, 1⟩ (.cons (.ret ⟨none, 1, 1⟩ (.num ⟨none, 1, 1⟩ 1 0 0 0 0)) .nil)) = true := by decide

/-- **`checkBody` is a sound test of `FnBalanced`.**  Whenever the executable whole-function check
    accepts a piece of code, the code has a labelling that passes `verifyL`: the theorems above prove,
    for every function in scope, what the check tests on every emitted function (except the range). -/
theorem C20_checkBody_sound (ls : List Line) (h : checkBody ls = .ok ()) : FnBalanced ls :=
  ⟨_, verifyL_of_verify _ _ _ (by simpa [checkBody] using h)⟩

/-- **`checkBody` is complete.**  The labelling it infers (forward scans repeated until a scan adds
    nothing; `length + 1` scans of fuel are proved to suffice) is as good as any: whenever SOME
    labelling passes `Effect.verify` on the code — one height per label, every jump and fall-through
    arrives at its label's height, every reachable height within the frame and the eight x87 registers,
    rsp = 0 at every `return` — the check accepts.  No condition on the label graph (backward-only
    chains of any length, irreducible loops, labels reached only from dead code). -/
theorem C20_checkBody_complete (ls : List Line)
    (h : ∃ lab : Labelling, verify lab (steps ls) (some H.zero) = .ok ()) : checkBody ls = .ok () := by
  obtain ⟨lab, hv⟩ := h
  exact verify_inferred (steps ls) lab hv

/-- five labels reached only by backward jumps (the skeleton the three-pass inference rejected) -/
example : ∃ lab : Labelling, verify lab
    (steps [ins1 "jmp" (.s ".A"), .label ".D", ins1 "jmp" (.s ".E"), .label ".C", ins1 "jmp" (.s ".D"),
      .label ".B", ins1 "jmp" (.s ".C"), .label ".A", ins1 "jmp" (.s ".B"), .label ".E"]) (some H.zero) = .ok () :=
  ⟨[(".A", H.zero), (".B", H.zero), (".C", H.zero), (".D", H.zero), (".E", H.zero)], by rfl⟩

/-- **`checkBody` decides the existence of a labelling.** -/
theorem C20_checkBody_iff (ls : List Line) :
    checkBody ls = .ok () ↔ ∃ lab : Labelling, verify lab (steps ls) (some H.zero) = .ok () :=
  ⟨fun h => ⟨_, h⟩, C20_checkBody_complete ls⟩

/-- **`checkBody` on balanced code.**  Code that is `FnBalanced` (some labelling passes the
    label-height discipline `verifyL`) is accepted, or rejected with the range complaint and nothing
    else: the inferred labelling passes `verifyL`, and `verify` differs from `verifyL` only by the test
    `okH` of every reachable height. -/
theorem C20_checkBody_balanced (ls : List Line) (h : FnBalanced ls) :
    checkBody ls = .ok () ∨ ∃ c : H, checkBody ls = .error (rangeMsg c) ∧ okH c = false := by
  obtain ⟨lab, hv⟩ := h
  exact verify_of_verifyL _ _ _ (verifyL_inferred (steps ls) lab hv)

example : FnBalanced [ins1 "jmp" (.s ".A"), .label ".B", ins1 "jmp" (.s ".C"), .label ".A", ins1 "jmp" (.s ".B"),
    .label ".C"] :=
  ⟨[(".A", H.zero), (".B", H.zero), (".C", H.zero)], by rfl⟩

/-- **C20_function with the executable check (every function body in scope).**  What
    `C20_function_Statement` asks of `checkBody`, up to the range: for every function whose body is well
    typed and in scope, the whole-function check accepts the code of the body, or its one complaint is
    a reachable height out of range (`rangeMsg c` with `okH c = false`: the region of known finding
    C20-x87-depth-overflow, or rsp above the frame); `assert(depth == 0)` holds. -/
theorem C20_function_check_partial (p : Program) (fn : Obj) (env : Env) (k : Int)
    (he : fnEnv p fn = .ok (env, k)) (ht : typedS env fn.body = true) (hf : flowFn env fn.body = true)
    (hd : treeDistinct fn.body = true)
    (s s' : St) (ls : List Line) (hg : genStmt env fn.body s = .ok ((), s', ls)) :
    (checkBody ls = .ok () ∨ ∃ c : H, checkBody ls = .error (rangeMsg c) ∧ okH c = false) ∧
      s'.depth = s.depth := by
  obtain ⟨h1, _, h3⟩ := C20_function_flow_partial p fn env k he ht hf hd s s' ls hg
  exact ⟨C20_checkBody_balanced ls h1, h3⟩

example : flowFn { fpic := false, types := [] }
    (.block ⟨none, 1, 1⟩ (.cons (.do_ ⟨none, 1, 1⟩ (.block ⟨none, 1, 1⟩ .nil) (.num ⟨none, 1, 1⟩ 0 0 0 0 0)
      (some ".L..1") (some ".L..2")) .nil)) = true := by decide

end ChibiVerif.Props.C20
