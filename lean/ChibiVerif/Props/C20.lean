/-
C20 — Evaluation leaves no residue on the machine stack or the x87 stack.

Subject: `Model/Codegen` (the Lean double of codegen.c, tied to the real compiler by byte-for-byte
equality of the assembly text on every run) under the effect semantics of `Model/Effect`
(Δrsp in bytes, Δx87 in registers; `delta` for straight-line code, `Balanced` for code with labels
and jumps: one height per label, every jump and fall-through arrives at its label's height).

Full statements (`C20_*_Statement`) quantify over every node kind.  What is proved so far is named
`_partial` and carries the decidable scope predicate `covE/covA/covS` (Lemmas/C20Induction.lean):
all expression kinds whose code is straight-line — function calls with every argument list
included (register, stack, struct in one or two registers of either class, struct in memory,
long double, return buffer, both parities of `depth`) — for every operand type, arbitrary nesting.
The `depth` half of the property (`C20_depth_partial`, `C20_assert`) is proved for ALL 47 node kinds.
Open for the rsp/x87 half: COND, LOGAND, LOGOR, STMT_EXPR, CAS, the builtin alloca and the
control-flow statements — their code has labels and needs the label-height semantics `Balanced`;
it is validated by `Effect.checkBody` on every function of the corpus on every run, not yet proved.
Calls with an empty struct argument and jumps out of a statement expression are the known findings
C20-empty-struct-arg and C20-jump-out-of-stmt-expr (kernel-checked counterexamples of the full
statements in Findings/C20.lean).

Property theorems only; helper lemmas are in Lemmas/C20Lemmas.lean and Lemmas/C20Induction.lean.
-/
import ChibiVerif.Lemmas.C20Induction
import ChibiVerif.Lemmas.C20Typing
import ChibiVerif.Lemmas.C20Depth

namespace ChibiVerif.Props.C20
open ChibiVerif ChibiVerif.Codegen ChibiVerif.Effect ChibiVerif.Asm ChibiVerif.Ast
open ChibiVerif.Lemmas.C20 ChibiVerif.C20Scope

/-- +1 on the x87 stack iff the node's type is long double -/
def x87Of (n : Node) : Int := if isLD n.ty? then 1 else 0

/-- **C20_expr, full statement.**  For every well-typed expression tree of every kind: whenever
    `gen_expr` succeeds, the code it printed is balanced — Δrsp = 0 on every path, Δx87 = +1 iff the
    node's type is long double — and the `depth` counter is back where it was. -/
def C20_expr_Statement : Prop :=
  ∀ (env : Env) (n : Node), typedE env n = true →
    ∀ s s' ls, genExpr env n s = .ok ((), s', ls) →
      Balanced ls ⟨0, x87Of n⟩ ∧ s'.depth = s.depth

/-- **C20_stmt, full statement.**  Every well-typed statement: on every way out of its code (falling
    through, if that is possible at all) nothing is left on either stack. -/
def C20_stmt_Statement : Prop :=
  ∀ (env : Env) (n : Node), typedS env n = true →
    ∀ s s' ls, genStmt env n s = .ok ((), s', ls) →
      BalancedOrLeaves ls ⟨0, 0⟩ ∧ s'.depth = s.depth

/-- **C20_function, full statement.**  The code of every function body passes the whole-function
    check: one height per label (so no loop, branch, `break`, `continue` or `goto` accumulates
    residue, for any number of repetitions), never below the frame, never more than eight x87
    registers, `rsp` back at the frame on every `return`; and `assert(depth == 0)` in `emit_text`
    holds. -/
def C20_function_Statement : Prop :=
  ∀ (p : Program) (fn : Obj) (env : Env) (k : Int), fnEnv p fn = .ok (env, k) →
    typedS env fn.body = true →
    ∀ s s' ls, genStmt env fn.body s = .ok ((), s', ls) →
      checkBody ls = .ok () ∧ s'.depth = s.depth

/-- **C20_expr (proved part).**  Every expression in scope (`covE`: all straight-line expression
    kinds, any nesting, any operand types): its code is straight-line with Δrsp = 0 and
    Δx87 = +1 iff its type is long double, and `depth` is unchanged. -/
theorem C20_expr_partial (env : Env) (n : Node) (h : covE env n = true)
    (s s' : St) (ls : List Line) (hg : genExpr env n s = .ok ((), s', ls)) :
    delta ls = some ⟨0, x87Of n⟩ ∧ s'.depth = s.depth := by
  have := (expr_ok env n h).elim hg
  simpa [x87Of, xOf, Straight] using this

example : covE { fpic := false, types := [] }
    (.binop ⟨none, 1, 1⟩ .add (.num ⟨none, 1, 1⟩ 1 0 0 0 0) (.num ⟨none, 1, 1⟩ 2 0 0 0 0)) = true := by
  decide

/-- **C20_expr, in the vocabulary of the full statement.** -/
theorem C20_expr_balanced_partial (env : Env) (n : Node) (h : covE env n = true)
    (s s' : St) (ls : List Line) (hg : genExpr env n s = .ok ((), s', ls)) :
    Balanced ls ⟨0, x87Of n⟩ ∧ s'.depth = s.depth := by
  obtain ⟨h1, h2⟩ := C20_expr_partial env n h s s' ls hg
  exact ⟨balanced_of_delta h1, h2⟩

example : covE { fpic := false, types := [] } (.neg ⟨none, 1, 1⟩ (.num ⟨none, 1, 1⟩ 1 0 0 0 0)) = true := by
  decide

/-- **C20_addr (proved part).**  Computing the address of an lvalue in scope leaves both stacks and
    `depth` as they were. -/
theorem C20_addr_partial (env : Env) (n : Node) (h : covA env n = true)
    (s s' : St) (ls : List Line) (hg : genAddr env n s = .ok ((), s', ls)) :
    delta ls = some ⟨0, 0⟩ ∧ s'.depth = s.depth := by
  simpa [Straight] using (addr_ok env n h).elim hg

example : covA { fpic := false, types := [] } (.deref ⟨none, 1, 1⟩ (.var ⟨none, 1, 1⟩ none)) = true := by
  decide

/-- **C20_stmt (proved part).**  Expression statements (the discard of a long double value
    included), blocks of them and `asm` statements leave nothing behind: (0, 0). -/
theorem C20_stmt_partial (env : Env) (n : Node) (h : covS env n = true)
    (s s' : St) (ls : List Line) (hg : genStmt env n s = .ok ((), s', ls)) :
    delta ls = some ⟨0, 0⟩ ∧ s'.depth = s.depth := by
  simpa [Straight] using (stmt_ok env n h).elim hg

example : covS { fpic := false, types := [] }
    (.block ⟨none, 1, 1⟩ (.cons (.exprStmt ⟨none, 1, 1⟩ (.num ⟨none, 1, 1⟩ 1 0 0 0 0)) .nil)) = true := by
  decide

/-- **C20_repeat.**  Any number of repetitions of an in-scope statement leaves `rsp` and the x87 top
    where they were (the straight-line effect of the repeated code is still (0, 0)). -/
theorem C20_repeat_partial (env : Env) (n : Node) (h : covS env n = true)
    (s s' : St) (ls : List Line) (hg : genStmt env n s = .ok ((), s', ls)) (k : Nat) :
    delta (List.flatten (List.replicate k ls)) = some ⟨0, 0⟩ := by
  have h0 := (C20_stmt_partial env n h s s' ls hg).1
  induction k with
  | zero => rfl
  | succ k ih =>
    rw [List.replicate_succ, List.flatten_cons, delta_append, h0, ih]
    rfl

/-- **C20_one_value (proved part).**  An assignment is an expression: after `a = b` of long double
    type exactly one value is on the x87 stack (so `a = b = c` stores the value and not an empty
    register), for every in-scope right-hand side. -/
theorem C20_one_value_partial (env : Env) (i : NInfo) (lhs rhs : Node)
    (h : covE env (.assign i lhs rhs) = true) (hld : isLD i.ty = true)
    (s s' : St) (ls : List Line) (hg : genExpr env (.assign i lhs rhs) s = .ok ((), s', ls)) :
    delta ls = some ⟨0, 1⟩ := by
  have := (C20_expr_partial env _ h s s' ls hg).1
  simpa [x87Of, hld] using this

/-- **C20_call (proved part).**  A call whose callee expression and arguments are in scope: whatever
    the classification of the arguments (the two classification loops of `push_args` and of the
    ND_FUNCALL arm always agree), what is popped into registers and dropped after the call is exactly
    what was pushed — Δrsp = 0, `depth` unchanged — and the x87 stack holds the result iff the call
    returns long double. -/
theorem C20_call_partial (env : Env) (i : NInfo) (lhs : Node) (fty : Int) (rb : Option Var) (args : NodeList)
    (h : covE env (.funcall i lhs fty rb args) = true)
    (s s' : St) (ls : List Line) (hg : genExpr env (.funcall i lhs fty rb args) s = .ok ((), s', ls)) :
    delta ls = some ⟨0, x87Of (.funcall i lhs fty rb args)⟩ ∧ s'.depth = s.depth :=
  C20_expr_partial env _ h s s' ls hg

example : covE { fpic := false, types := [] }
    (.funcall ⟨none, 1, 1⟩ (.var ⟨none, 1, 1⟩ none) 0 none
      (.cons (.num ⟨none, 1, 1⟩ 1 0 0 0 0) (.cons (.num ⟨none, 1, 1⟩ 2 0 0 0 0) .nil))) = true := by
  decide

/-- **C20_assert (proved part).**  `assert(depth == 0)` in `emit_text` holds after every function
    body in scope: `gen_stmt` returns with the `depth` it started with. -/
theorem C20_assert_partial (env : Env) (body : Node) (h : covS env body = true)
    (s s' : St) (ls : List Line) (hg : genStmt env body s = .ok ((), s', ls)) (h0 : s.depth = 0) :
    s'.depth = 0 := by
  rw [(C20_stmt_partial env body h s s' ls hg).2, h0]

example : covS { fpic := false, types := [] } (.block ⟨none, 1, 1⟩ .nil) = true := by decide

/-- **C20_depth, full statement.**  `depth` is unchanged by the code of every node. -/
def C20_depth_Statement : Prop :=
  ∀ (env : Env) (n : Node) (s s' : St) (ls : List Line),
    (genExpr env n s = .ok ((), s', ls) ∨ genAddr env n s = .ok ((), s', ls) ∨ genStmt env n s = .ok ((), s', ls)) →
    s'.depth = s.depth

/-- **C20_depth (all 47 node kinds).**  For every tree of every kind — control flow, statement
    expressions, calls with any argument list, atomics, alloca, ill-typed trees included — whose calls
    pass only struct/union arguments of at least one byte (`okN`; outside: known finding
    C20-empty-struct-arg): `gen_expr`, `gen_addr` and `gen_stmt` return with the `depth` they were
    entered with. -/
theorem C20_depth_partial (env : Env) (n : Node) (h : okN n = true) (s s' : St) (ls : List Line)
    (hg : genExpr env n s = .ok ((), s', ls) ∨ genAddr env n s = .ok ((), s', ls) ∨
      genStmt env n s = .ok ((), s', ls)) :
    s'.depth = s.depth := by
  rcases hg with hg | hg | hg
  · simpa using (dexpr env n h).elim hg
  · simpa using (daddr env n h).elim hg
  · simpa using (dstmt env n h).elim hg

example : okN (.if_ ⟨none, 1, 1⟩ (.num ⟨none, 1, 1⟩ 1 0 0 0 0) (.block ⟨none, 1, 1⟩ .nil) .null) = true := by decide

/-- **C20_assert (every function).**  `assert(depth == 0)` in `emit_text` never fires: whenever
    `gen_stmt(fn->body)` succeeds on a body of any shape (struct arguments of at least one byte), the
    assertion that follows it passes, so `fnBody` succeeds with the same code. -/
theorem C20_assert (env : Env) (fn : Obj) (h : okN fn.body = true) (s s' : St) (ls : List Line)
    (hg : genStmt env fn.body s = .ok ((), s', ls)) (h0 : s.depth = 0) :
    fnBody env fn s = .ok ((), s', ls) := by
  have hd : s'.depth = 0 := by rw [C20_depth_partial env fn.body h s s' ls (Or.inr (Or.inr hg)), h0]
  simp [fnBody, bind, M.bind, hg, getDepth, hd, pure, M.pure]

example : okN (.block ⟨none, 1, 1⟩ (.cons (.ret ⟨none, 1, 1⟩ .null) .nil)) = true := by decide

/-- **C20_cast_table.**  Every cell of the regenerated `cast_table` is straight-line, leaves %rsp
    alone and changes the x87 depth by (to is long double) − (from is long double); in particular
    the `(void)`-free conversions never leak or underflow. -/
theorem C20_cast_table : ∀ t1, t1 < 11 → ∀ t2, t2 < 11 →
    (match Gen.CastTable.castCell t1 t2 with
     | some l => lineDelta l
     | none => some H.zero) = some ⟨0, f80 t2 - f80 t1⟩ :=
  castTable_delta

end ChibiVerif.Props.C20
