/-
C11 — adjacent string literals (6.4.5p5) and the text the tokenizer sees, about the code AS TRANSLATED from preprocess.c /
tokenize.c / type.c on every check run (Gen/StrJoinGen.lean by tools/extract/strjoin.py: `StringKind`, `getStringKind`,
`tokenize_string_literal`, `array_of`'s size, both passes of `join_adjacent_string_literals` on one run of adjacent string
literals with `int` locals as `Int`, `calloc` / `memcpy` with bounds, and the tail of `read_file`).
Property theorems only (helper lemmas: Lemmas/C11Join, Lemmas/C11JoinTokens, Lemmas/C11Concat, Lemmas/C11ReadFile).  Hand-written and tied by the differential run
only: the iteration of the two outer loops over the maximal runs (Model/StrJoin.lean `overRuns`, C shape pinned by the
translator) and the libc stream calls of `read_file` before its tail.
-/
import ChibiVerif.Lemmas.C11Join
import ChibiVerif.Lemmas.C11JoinTokens
import ChibiVerif.Lemmas.C11Concat
import ChibiVerif.Lemmas.C11ReadFile

set_option linter.unusedSimpArgs false

namespace ChibiVerif.Props.C11
open ChibiVerif.Gen.Literals
open ChibiVerif.Gen.StrJoin
open ChibiVerif.StrJoin
open ChibiVerif.Literals
open ChibiVerif.Text
open ChibiVerif.Spec.Literals (StrPrefix joinPrefix)
open ChibiVerif.Lemmas.Join
open ChibiVerif.Lemmas.ReadFile
open ChibiVerif.Lemmas.Readers (join_diagnosed join_result)

-- ------------------------------------------------------------------ hand model = translation

/-- **C11 (the hand model of `join_adjacent_string_literals` is the translated code).**  `getStringKind` and
    `tokenize_string_literal` of Model/Literals.lean agree with the functions translated from the C source on every token
    (`RelE`: both return related results or both end in the same diagnostic; `Rep`: same element type, `array_len` = units + 1,
    `str` = the units in memory order and one zero unit), and for every run of at least two adjacent string-literal tokens as the
    tokenizer makes them (`TokHasPrefix`) the translated first pass followed by the translated second pass — kind resolution, the
    diagnostic, re-reading of narrow tokens, `len` arithmetic, `calloc`, the `memcpy` loop — agrees with `joinStrings`, the function
    `C11_strings_join`, `C11_strings_join_diagnosed` (Props/C11.lean) are about: same diagnostic, or a token with the element type
    of `joinStrings`' result, `array_len` = its units + 1 and `str` = its units followed by exactly one zero unit. -/
theorem C11_translated_join :
    (∀ t : StrTok, RelE (fun k k' => k = kindToGen k') (ChibiVerif.Gen.StrJoin.getStringKind (toTok t)) (ChibiVerif.Literals.getStringKind t)) ∧
    (∀ (t : StrTok) (basety : Ty), RelE Rep (tokenizeStringLiteral (toTok t) basety) (retokenize t basety)) ∧
    (∀ (t1 t2 : StrTok) (rest : List StrTok) (ps : List StrPrefix), AllPairs TokHasPrefix (t1 :: t2 :: rest) ps →
      RelE (fun r hd => r.base = hd.elem ∧ r.arrayLen = (hd.units.length : Int) + 1 ∧ r.str = strBytes hd.elem.size hd.units)
        (joinRun (toTok t1) ((t2 :: rest).map toTok)) (joinStrings (t1 :: t2 :: rest))) :=
  ⟨getStringKind_eq, retokenize_eq, joinRun_eq⟩

/-- non-vacuity: `"a" u"b"` as the tokenizer reads them, through the translated passes: one `char16_t` array `a b \0` -/
example : AllPairs TokHasPrefix
      [⟨.ty_char, [97], 3, [0x22#8, 0x61#8, 0x22#8]⟩, ⟨.ty_ushort, [98], 4, [0x75#8, 0x22#8, 0x62#8, 0x22#8]⟩] [.none, .u] ∧
    (joinRun (toTok ⟨.ty_char, [97], 3, [0x22#8, 0x61#8, 0x22#8]⟩) [toTok ⟨.ty_ushort, [98], 4, [0x75#8, 0x22#8, 0x62#8, 0x22#8]⟩]).map
        (fun r => (r.base, r.arrayLen, r.str)) = .ok (.ty_ushort, 3, [97#8, 0#8, 98#8, 0#8, 0#8, 0#8]) := by
  refine ⟨.cons (by unfold TokHasPrefix; decide) (.cons (by unfold TokHasPrefix; decide) .nil), by decide⟩

-- ------------------------------------------------------------------ second pass: one terminator, no store outside the allocation

/-- **C11 (concatenation in memory: one terminator).**  About the second pass AS TRANSLATED (`len = tok1->ty->array_len; len = len +
    t->ty->array_len - 1 …; buf = calloc(base->size, len); memcpy(buf + i, t->str, t->ty->size); i = i + t->ty->size - base->size`),
    for every run `a :: as` of string-literal tokens of one element size `sz` whose `str` holds their units and a terminator (`Rep`):
    no `memcpy` leaves the allocation or reads past its source, the resulting token keeps the element type, its
    `array_len` is `Σ (array_lenᵢ − 1) + 1`, and its `str` is the units of all tokens in order followed by exactly ONE zero unit —
    `sizeof` = `array_len × sz` bytes. -/
theorem C11_join_bytes (sz : Nat) (a : Tok) (as : List Tok) (h : StrTok) (hs : List StrTok)
    (hr : AllPairs Rep (a :: as) (h :: hs)) (hsz : ∀ x ∈ h :: hs, x.elem.size = sz) :
    ∃ r, joinPass2 a as = .ok r ∧ r.base = a.base ∧
      r.arrayLen = (((a :: as).map (fun t => t.arrayLen - 1)).sum) + 1 ∧
      r.arrayLen = ((((h :: hs).map (·.units)).flatten.length : Nat) : Int) + 1 ∧
      r.str = ((h :: hs).map (·.units)).flatten.flatMap (unitBytes sz) ++ List.replicate sz 0#8 ∧
      (r.str.length : Int) = r.tySize := by
  refine ⟨_, pass2_run sz a as h hs hr hsz, rfl, ?_, rfl, rfl, ?_⟩
  · show ((totalUnits (h :: hs) : Nat) : Int) + 1 = _
    congr 1
    have key : ∀ (ts : List Tok) (ks : List StrTok), AllPairs Rep ts ks →
        (ts.map (fun t => t.arrayLen - 1)).sum = ((totalUnits ks : Nat) : Int) := by
      intro ts ks hk
      induction hk with
      | nil => simp [totalUnits]
      | @cons t k ts ks htk _ ih =>
        rw [List.map_cons, List.sum_cons, ih, htk.2.2.1, totalUnits_cons]; push_cast; omega
    exact (key _ _ hr).symm
  · have hb : a.base.size = sz := by cases hr with | cons hra _ => rw [hra.2.1]; exact hsz h (by simp)
    show ((strBytes sz _).length : Int) = arrayOfSize a.base _
    rw [strBytes_length, arrayOfSize, hb]
    simp only [totalUnits]
    push_cast
    rfl

/-- non-vacuity: `u"a€"` and `u"b"` (two UTF-16 tokens): `array_len` 4, bytes `61 00 AC 20 62 00 00 00` -/
example : AllPairs Rep [readerTok [] .ty_ushort [0x61, 0x20AC], readerTok [] .ty_ushort [0x62]]
      [⟨.ty_ushort, [0x61, 0x20AC], 0, []⟩, ⟨.ty_ushort, [0x62], 0, []⟩] ∧
    (joinPass2 (readerTok [] .ty_ushort [0x61, 0x20AC]) [readerTok [] .ty_ushort [0x62]]).map (fun r => (r.arrayLen, r.str)) =
      .ok (4, [0x61#8, 0#8, 0xAC#8, 0x20#8, 0x62#8, 0#8, 0#8, 0#8]) :=
  ⟨.cons ⟨rfl, rfl, rfl, rfl⟩ (.cons ⟨rfl, rfl, rfl, rfl⟩ .nil), by decide⟩

-- ------------------------------------------------------------------ 6.4.5p5 on the translated code

/-- **C11 (adjacent literals, on the translated code).**  The statements of `C11_strings_join_diagnosed` and `C11_strings_join` for
    `join_adjacent_string_literals` as translated (first pass then second pass on a run of at least two tokens with prefixes `ps`):
    two different prefixes are diagnosed with "unsupported non-standard concatenation of string literals"; otherwise, if the function
    returns, the token has the element size of the sequence's prefix `P`, its `str` holds — in `array_len × size` bytes — the code
    units of the tokens in order, where a narrow token next to a wide one was re-read from its source text by the wide reader, followed
    by one zero unit, and `array_len = Σ (array_lenᵢ − 1) + 1`. -/
theorem C11_strings_join_translated (t1 t2 : StrTok) (rest : List StrTok) (ps : List StrPrefix)
    (h : AllPairs TokHasPrefix (t1 :: t2 :: rest) ps) :
    (joinPrefix ps = none →
      joinRun (toTok t1) ((t2 :: rest).map toTok) = .error .unsupported_non_standard_concatenation_of_string_literals) ∧
    (∀ P r, joinPrefix ps = some P → joinRun (toTok t1) ((t2 :: rest).map toTok) = .ok r →
      r.base.size = P.elemSize ∧
      ∃ toks, AllPairs (fun t t' => t' = t ∨ (t.elem.size = 1 ∧ ∃ ty, ty.size = P.elemSize ∧ 1 < ty.size ∧ retokenize t ty = .ok t'))
          (t1 :: t2 :: rest) toks ∧
        r.str = strBytes P.elemSize (toks.map (·.units)).flatten ∧
        r.arrayLen = ((toks.map (fun t => ((t.units.length : Int) + 1) - 1)).sum) + 1) := by
  have key := joinRun_eq t1 t2 rest ps h
  constructor
  · intro hj
    rw [join_diagnosed t1 t2 rest ps h hj] at key
    obtain ⟨e', he', hoe⟩ := relE_error key
    rw [he']
    cases e' with
    | unsupported_non_standard_concatenation_of_string_literals => rfl
    | unreachable => cases hoe
    | store_outside => cases hoe
    | read e => cases e <;> cases hoe
  · intro P r hj hr
    rw [hr] at key
    cases hjs : joinStrings (t1 :: t2 :: rest) with
    | error e => rw [hjs] at key; exact key.elim
    | ok hd =>
      rw [hjs] at key
      obtain ⟨hb, hal, hstr⟩ := key
      obtain ⟨hsz, toks, hprov, hunits, _⟩ := join_result t1 t2 rest ps P hd h hj hjs
      refine ⟨by rw [hb]; exact hsz, toks, hprov, by rw [hstr, hsz, hunits], ?_⟩
      rw [hal, hunits]
      congr 1
      have : ∀ l : List StrTok, (((l.map (·.units)).flatten.length : Nat) : Int) =
          (l.map (fun t => ((t.units.length : Int) + 1) - 1)).sum := by
        intro l
        induction l with
        | nil => simp
        | cons x l ih => simp only [List.map_cons, List.flatten_cons, List.length_append, List.sum_cons]; push_cast; rw [ih]; omega
      exact this toks

/-- non-vacuity: `"a" u"b"` has the prefix `u`, `u8"a" L"b"` none -/
example : joinPrefix [.none, .u] = some .u ∧ joinPrefix [.u8, .L] = none := by decide

/-- **C11 (prefix dispatch of `tokenize()` against `getStringKind`).**  For every string-literal arm of `tokenize()` (translated table
    `stringPrefixes`, in source order) a token whose text starts with that prefix and the opening quote is classified by the translated
    `getStringKind` as the kind of that prefix — unprefixed, `u8`, `u` (`char16_t`), `L` (`wchar_t`), `U` (`char32_t`) —, whatever follows,
    so that the element type `tokenize()` gave the token (`C11_prefix_types`) and the kind `join_adjacent_string_literals` sees agree. -/
theorem C11_prefix_kinds (rest : List Byte) (base : Ty) (n : Int) (s : List Byte) :
    stringPrefixes.map (fun e => (e.1, ChibiVerif.Gen.StrJoin.getStringKind ⟨true, e.1.map (BitVec.ofNat 8) ++ 34#8 :: rest, base, n, s⟩)) =
      [([], .ok (kindToGen (kindOf .none))), ([117, 56], .ok (kindToGen (kindOf .u8))), ([117], .ok (kindToGen (kindOf .u))),
       ([76], .ok (kindToGen (kindOf .L))), ([85], .ok (kindToGen (kindOf .U)))] := by
  simp [stringPrefixes, ChibiVerif.Gen.StrJoin.getStringKind, byteAt, kindToGen, kindOf]

-- ------------------------------------------------------------------ 6.4.5p5-6 as a whole: from the spellings to the bytes of the array

/-- **C11 (adjacent string literals, from spelling to bytes).**  Take any sequence of at least two string literals, each given by its
    encoding prefix and its body — source characters (any code point up to U+10FFFF other than NUL, new-line, `"` and `\`, written in
    UTF-8) and escape sequences (`SrcItem`, as in `C11_strings`).
    * The prefix bytes, reader and element type `tokenize()` uses for each prefix are those of the translated dispatch table
      (first conjunct), and the token it makes of `prefix " body "`, whatever follows, is `pieceTok` (second conjunct; by `C11_strings`).
    * If the prefixes are compatible (6.4.5p5: `joinPrefix` = `P`) and the escape sequences of the unprefixed pieces of a wide sequence
      read back in their literal (`ItemsOK []`: they are read a second time, by the wide reader, from the token text), then
      `join_adjacent_string_literals` AS TRANSLATED (first pass, second pass) returns one token whose element size is that of `P`, whose
      `array_len` is the number of code units + 1, and whose `str` holds exactly: for every piece in order, for every body item in
      order, the code units of that item AT THE PREFIX `P` — and then one zero unit.
    * Those code units are the C11 ones (last conjunct): a source character gives `encodeChar P` (UTF-8 bytes / UTF-16 units / the code
      point; Spec, RFC 3629 / 2781), an escape sequence its value modulo 2^(8 × element size). -/
theorem C11_concat_spec :
    stringPrefixes = [StrPrefix.none, .u8, .u, .L, .U].map (fun p => ((prefixBytes p).map BitVec.toNat, readerOf p, tyOf p)) ∧
    (∀ (p : StrPrefix) (its : List SrcItem) (post : List Byte), ItemsOK post its →
      readString (readerOf p) (tyOf p) (prefixBytes p ++ 34#8 :: (renderItems its ++ 34#8 :: post)) (prefixBytes p).length =
        .ok (pieceTok p its)) ∧
    (∀ (pc1 pc2 : StrPrefix × List SrcItem) (pcs : List (StrPrefix × List SrcItem)) (P : StrPrefix),
      joinPrefix ((pc1 :: pc2 :: pcs).map (·.1)) = some P →
      (∀ pc ∈ pc1 :: pc2 :: pcs, pc.1 = .none → 1 < P.elemSize → ItemsOK [] pc.2) →
      ∃ r, joinRun (toTok (pieceTok pc1.1 pc1.2)) ((pc2 :: pcs).map (fun pc => toTok (pieceTok pc.1 pc.2))) = .ok r ∧
        r.base.size = P.elemSize ∧
        r.str = ((pc1 :: pc2 :: pcs).flatMap (fun pc => pc.2.flatMap (itemUnits (readerOf P)))).flatMap (unitBytes P.elemSize) ++
          List.replicate P.elemSize 0#8 ∧
        r.arrayLen = ((((pc1 :: pc2 :: pcs).flatMap (fun pc => pc.2.flatMap (itemUnits (readerOf P)))).length : Nat) : Int) + 1) ∧
    (∀ P : StrPrefix,
      (∀ c : BitVec 32, CharOK c → itemUnits (readerOf P) (.char c) = ChibiVerif.Spec.Literals.encodeChar P c.toNat) ∧
      (∀ (body : List Byte) (v : BitVec 32), itemUnits (readerOf P) (.esc body v) = [v.toNat % 2 ^ (8 * P.elemSize)])) :=
  ⟨by decide, ChibiVerif.Lemmas.Concat.piece_read, ChibiVerif.Lemmas.Concat.concat_spec, ChibiVerif.Lemmas.Concat.item_spec⟩

/-- non-vacuity: `"a\n" L"€"` (an unprefixed piece with an escape, then a wide one): prefix `L`, the escape reads back, and the array is
    `a \n € \0` in 32-bit units -/
example : joinPrefix (([(.none, [.char 0x61#32, .esc [0x6E#8] 10#32]), (.L, [.char 0x20AC#32])] : List (StrPrefix × List SrcItem)).map (·.1)) = some .L ∧
    ItemsOK [] [.char 0x61#32, .esc [0x6E#8] 10#32] ∧
    (joinRun (toTok (pieceTok .none [.char 0x61#32, .esc [0x6E#8] 10#32])) [toTok (pieceTok .L [.char 0x20AC#32])]).map
        (fun r => (r.base, r.arrayLen, r.str)) =
      .ok (.ty_int, 4, [0x61#8, 0#8, 0#8, 0#8, 10#8, 0#8, 0#8, 0#8, 0xAC#8, 0x20#8, 0#8, 0#8, 0#8, 0#8, 0#8, 0#8]) := by
  refine ⟨by decide, ⟨by unfold CharOK; decide, ⟨0x6E#8, [], rfl, by decide, by decide, by simp⟩, by decide, trivial⟩, by decide⟩

-- ------------------------------------------------------------------ whole token lists

/-- **C11 (every run of a token list is joined as one run is).**  `join_adjacent_string_literals` on a whole token list has the
    structure of the C function — the translated first pass over every maximal run of at least two adjacent string literals, and only
    then the translated second pass over every run (`joinTokens`; the iteration `overRuns` is hand-written after the shape of the two
    outer loops and run against the real code on whole token lists).  Whenever it returns it returns what the run-by-run composition
    returns and vice versa (the first pass keeps the number of tokens of a run and keeps them string literals, so the second outer loop
    finds the same runs); and run by run means: a token that does not begin a run of two string literals is kept, and a maximal run
    `a :: b :: r` (followed by the end or a token that is not a string literal) is replaced by the one token `joinRun` makes of it —
    the token `C11_translated_join`, `C11_strings_join_translated` and `C11_join_bytes` are about. -/
theorem C11_join_tokens :
    (∀ toks out : List Tok, joinTokens toks = .ok out ↔ joinTokensPerRun toks = .ok out) ∧
    joinTokensPerRun [] = .ok [] ∧
    (∀ (t : Tok) (ts : List Tok), ¬ (t.isStr = true ∧ (ts.head?.map (·.isStr)) = some true) →
      joinTokensPerRun (t :: ts) = match joinTokensPerRun ts with
        | .error e => .error e
        | .ok r' => .ok (t :: r')) ∧
    (∀ (a b : Tok) (r rest : List Tok), a.isStr = true → b.isStr = true → (∀ x ∈ r, x.isStr = true) → NoStrHead rest →
      joinTokensPerRun (a :: b :: r ++ rest) = match joinRun a (b :: r) with
        | .error e => .error e
        | .ok x => match joinTokensPerRun rest with
          | .error e => .error e
          | .ok y => .ok (x :: y)) :=
  ⟨ChibiVerif.Lemmas.JoinTokens.join_tokens_iff, rfl, ChibiVerif.Lemmas.JoinTokens.perRun_keep, ChibiVerif.Lemmas.JoinTokens.perRun_run⟩

/-- non-vacuity: `x "a" u"b" , "c"` — the run becomes one `char16_t` array, the single literal and the other tokens are kept -/
example :
    (joinTokens [⟨false, [0x78#8], .ty_char, 0, []⟩, readerTok [0x22#8, 0x61#8, 0x22#8] .ty_char [97],
        readerTok [0x75#8, 0x22#8, 0x62#8, 0x22#8] .ty_ushort [98], ⟨false, [0x2C#8], .ty_char, 0, []⟩,
        readerTok [0x22#8, 0x63#8, 0x22#8] .ty_char [99]]).map (fun l => l.map (fun t => (t.isStr, t.base, t.arrayLen, t.str))) =
      .ok [(false, .ty_char, 0, []), (true, .ty_ushort, 3, [97#8, 0#8, 98#8, 0#8, 0#8, 0#8]), (false, .ty_char, 0, []),
           (true, .ty_char, 2, [99#8, 0#8])] ∧
    NoStrHead [(⟨false, [0x2C#8], .ty_char, 0, []⟩ : Tok)] := by
  refine ⟨by decide, ?_⟩
  intro t ht
  simp at ht
  subst ht
  rfl

-- ------------------------------------------------------------------ read_file, and file bytes ↦ tokenizer text

/-- **C11 (`read_file`: final newline and terminator).**  About the tail of `read_file` AS TRANSLATED (`fflush(out); if (buflen == 0 ||
    buf[buflen - 1] != '\n') fputc('\n', out); fputc('\0', out);`), for every file content: the returned array is the file's bytes, then
    a newline iff the file is empty or does not end in one (`withFinalNewline`; this is `ensureFinalNewline` of Model/Text.lean, the
    function every `C11_text_*` theorem starts from), then the terminator; and if the file contains no NUL, the C string `tokenize_file`
    works on is exactly that text — which ends in a newline. -/
theorem C11_read_file_spec (s : List Byte) :
    readFileBuf s = withFinalNewline s ++ [0#8] ∧ ensureFinalNewline s = withFinalNewline s ∧
    ((0#8 : Byte) ∉ s → cString (readFileBuf s) = withFinalNewline s ∧ (withFinalNewline s).getLast? = some LF) := by
  refine ⟨by rw [readFileBuf_eq, ensureFinalNewline_eq], ensureFinalNewline_eq s, fun h0 => ⟨by rw [read_file_text s h0, ensureFinalNewline_eq], ?_⟩⟩
  unfold withFinalNewline
  by_cases hc : s = [] ∨ s.getLast? ≠ some LF
  · rw [if_pos hc]; simp
  · rw [if_neg hc]
    have : ¬ s.getLast? ≠ some LF := fun h => hc (Or.inr h)
    exact Classical.not_not.mp this

/-- non-vacuity: `x` gets a newline, `x\n` and does not, the empty file becomes one newline -/
example : readFileBuf [0x78#8] = [0x78#8, 10#8, 0#8] ∧ readFileBuf [0x78#8, 10#8] = [0x78#8, 10#8, 0#8] ∧ readFileBuf [] = [10#8, 0#8] ∧
    (0#8 : Byte) ∉ ([0x78#8] : List Byte) := by decide

/-- **C11 (file bytes ↦ tokenizer text).**  The complete function from the bytes of a source file to the text handed to `tokenize()`,
    every step translated from tokenize.c — `read_file`'s tail (final newline, terminator), the C string in its array, then
    `tokenize_file` (BOM `memcmp`, `canonicalize_newline`, `remove_backslash_newline`, `convert_universal_chars` as in-place loops, in the
    order of the calls: `C11_phase_order`) — is, for every file content without NUL, `phase12` with the final-newline rule written out:
    the composition every `C11_text_*` theorem is about; no store of the loops leaves the text. -/
theorem C11_source_text (s : List Byte) (h0 : (0#8 : Byte) ∉ s) :
    sourceText s = some (phase12 s) ∧
    phase12 s = convertUniversalChars (removeBackslashNewline (canonicalizeNewline (skipBOM (withFinalNewline s)))) :=
  ⟨source_text s h0, by unfold phase12; rw [ensureFinalNewline_eq]⟩

/-- non-vacuity: BOM, `"é"` written as a UCN, CR LF, a splice, no final newline -/
example : (0#8 : Byte) ∉ ([0xEF#8, 0xBB#8, 0xBF#8, 0x22#8, 92#8, 0x75#8, 0x30#8, 0x30#8, 0x65#8, 0x39#8, 0x22#8, 13#8, 10#8, 0x78#8, 92#8, 10#8, 0x79#8] : List Byte) ∧
    sourceText [0xEF#8, 0xBB#8, 0xBF#8, 0x22#8, 92#8, 0x75#8, 0x30#8, 0x30#8, 0x65#8, 0x39#8, 0x22#8, 13#8, 10#8, 0x78#8, 92#8, 10#8, 0x79#8] =
      some [0x22#8, 0xC3#8, 0xA9#8, 0x22#8, 10#8, 0x78#8, 0x79#8, 10#8, 10#8] := by decide

end ChibiVerif.Props.C11
