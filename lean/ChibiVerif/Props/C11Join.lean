/-
C11 — adjacent string literals (6.4.5p5) and the text the tokenizer sees, about the code AS TRANSLATED from preprocess.c /
tokenize.c / type.c on every check run (Gen/StrJoinGen.lean by tools/extract/strjoin.py: `StringKind`, `getStringKind`,
`tokenize_string_literal`, `array_of`'s size, both passes of `join_adjacent_string_literals` on one run of adjacent string
literals with `int` locals as `Int`, `calloc` / `memcpy` with bounds, and the tail of `read_file`).
Property theorems only (helper lemmas: Lemmas/C11Join, Lemmas/C11ReadFile).  Hand-written and tied by the differential run
only: the iteration of the two outer loops over the maximal runs (Model/StrJoin.lean `overRuns`, C shape pinned by the
translator) and the libc stream calls of `read_file` before its tail.
-/
import ChibiVerif.Lemmas.C11Join
import ChibiVerif.Lemmas.C11ReadFile

set_option linter.unusedSimpArgs false

namespace ChibiVerif.Props.C11
open ChibiVerif.Gen.Literals
open ChibiVerif.Gen.StrJoin
open ChibiVerif.StrJoin
open ChibiVerif.Literals
open ChibiVerif.Text
open ChibiVerif.Spec.Literals (StrPrefix joinPrefix)
open ChibiVerif.Lemmas.Join
open ChibiVerif.Lemmas.ReadFile
open ChibiVerif.Lemmas.Readers (join_diagnosed join_result)

-- ------------------------------------------------------------------ hand model = translation

/-- **C11 (the hand model of `join_adjacent_string_literals` is the translated code).**  `getStringKind` and
    `tokenize_string_literal` of Model/Literals.lean agree with the functions translated from the C source on every token
    (`RelE`: both return related results or both end in the same diagnostic; `Rep`: same element type, `array_len` = units + 1,
    `str` = the units in memory order and one zero unit), and for every run of at least two adjacent string-literal tokens as the
    tokenizer makes them (`TokHasPrefix`) the translated first pass followed by the translated second pass — kind resolution, the
    diagnostic, re-reading of narrow tokens, `len` arithmetic, `calloc`, the `memcpy` loop — agrees with `joinStrings`, the function
    `C11_strings_join`, `C11_strings_join_diagnosed` (Props/C11.lean) are about: same diagnostic, or a token with the element type
    of `joinStrings`' result, `array_len` = its units + 1 and `str` = its units followed by exactly one zero unit. -/
theorem C11_translated_join :
    (∀ t : StrTok, RelE (fun k k' => k = kindToGen k') (ChibiVerif.Gen.StrJoin.getStringKind (toTok t)) (ChibiVerif.Literals.getStringKind t)) ∧
    (∀ (t : StrTok) (basety : Ty), RelE Rep (tokenizeStringLiteral (toTok t) basety) (retokenize t basety)) ∧
    (∀ (t1 t2 : StrTok) (rest : List StrTok) (ps : List StrPrefix), AllPairs TokHasPrefix (t1 :: t2 :: rest) ps →
      RelE (fun r hd => r.base = hd.elem ∧ r.arrayLen = (hd.units.length : Int) + 1 ∧ r.str = strBytes hd.elem.size hd.units)
        (joinRun (toTok t1) ((t2 :: rest).map toTok)) (joinStrings (t1 :: t2 :: rest))) :=
  ⟨getStringKind_eq, retokenize_eq, joinRun_eq⟩

/-- non-vacuity: `"a" u"b"` as the tokenizer reads them, through the translated passes: one `char16_t` array `a b \0` -/
example : AllPairs TokHasPrefix
      [⟨.ty_char, [97], 3, [0x22#8, 0x61#8, 0x22#8]⟩, ⟨.ty_ushort, [98], 4, [0x75#8, 0x22#8, 0x62#8, 0x22#8]⟩] [.none, .u] ∧
    (joinRun (toTok ⟨.ty_char, [97], 3, [0x22#8, 0x61#8, 0x22#8]⟩) [toTok ⟨.ty_ushort, [98], 4, [0x75#8, 0x22#8, 0x62#8, 0x22#8]⟩]).map
        (fun r => (r.base, r.arrayLen, r.str)) = .ok (.ty_ushort, 3, [97#8, 0#8, 98#8, 0#8, 0#8, 0#8]) := by
  refine ⟨.cons (by unfold TokHasPrefix; decide) (.cons (by unfold TokHasPrefix; decide) .nil), by decide⟩

-- ------------------------------------------------------------------ second pass: one terminator, no store outside the allocation

/-- **C11 (concatenation in memory: one terminator).**  About the second pass AS TRANSLATED (`len = tok1->ty->array_len; len = len +
    t->ty->array_len - 1 …; buf = calloc(base->size, len); memcpy(buf + i, t->str, t->ty->size); i = i + t->ty->size - base->size`),
    for every run `a :: as` of string-literal tokens of one element size `sz` whose `str` holds their units and a terminator (`Rep`):
    no `memcpy` leaves the allocation or reads past its source, the resulting token keeps the element type, its
    `array_len` is `Σ (array_lenᵢ − 1) + 1`, and its `str` is the units of all tokens in order followed by exactly ONE zero unit —
    `sizeof` = `array_len × sz` bytes. -/
theorem C11_join_bytes (sz : Nat) (a : Tok) (as : List Tok) (h : StrTok) (hs : List StrTok)
    (hr : AllPairs Rep (a :: as) (h :: hs)) (hsz : ∀ x ∈ h :: hs, x.elem.size = sz) :
    ∃ r, joinPass2 a as = .ok r ∧ r.base = a.base ∧
      r.arrayLen = (((a :: as).map (fun t => t.arrayLen - 1)).sum) + 1 ∧
      r.arrayLen = ((((h :: hs).map (·.units)).flatten.length : Nat) : Int) + 1 ∧
      r.str = ((h :: hs).map (·.units)).flatten.flatMap (unitBytes sz) ++ List.replicate sz 0#8 ∧
      (r.str.length : Int) = r.tySize := by
  refine ⟨_, pass2_run sz a as h hs hr hsz, rfl, ?_, rfl, rfl, ?_⟩
  · show ((totalUnits (h :: hs) : Nat) : Int) + 1 = _
    congr 1
    have key : ∀ (ts : List Tok) (ks : List StrTok), AllPairs Rep ts ks →
        (ts.map (fun t => t.arrayLen - 1)).sum = ((totalUnits ks : Nat) : Int) := by
      intro ts ks hk
      induction hk with
      | nil => simp [totalUnits]
      | @cons t k ts ks htk _ ih =>
        rw [List.map_cons, List.sum_cons, ih, htk.2.2.1, totalUnits_cons]; push_cast; omega
    exact (key _ _ hr).symm
  · have hb : a.base.size = sz := by cases hr with | cons hra _ => rw [hra.2.1]; exact hsz h (by simp)
    show ((strBytes sz _).length : Int) = arrayOfSize a.base _
    rw [strBytes_length, arrayOfSize, hb]
    simp only [totalUnits]
    push_cast
    rfl

/-- non-vacuity: `u"a€"` and `u"b"` (two UTF-16 tokens): `array_len` 4, bytes `61 00 AC 20 62 00 00 00` -/
example : AllPairs Rep [readerTok [] .ty_ushort [0x61, 0x20AC], readerTok [] .ty_ushort [0x62]]
      [⟨.ty_ushort, [0x61, 0x20AC], 0, []⟩, ⟨.ty_ushort, [0x62], 0, []⟩] ∧
    (joinPass2 (readerTok [] .ty_ushort [0x61, 0x20AC]) [readerTok [] .ty_ushort [0x62]]).map (fun r => (r.arrayLen, r.str)) =
      .ok (4, [0x61#8, 0#8, 0xAC#8, 0x20#8, 0x62#8, 0#8, 0#8, 0#8]) :=
  ⟨.cons ⟨rfl, rfl, rfl, rfl⟩ (.cons ⟨rfl, rfl, rfl, rfl⟩ .nil), by decide⟩

-- ------------------------------------------------------------------ 6.4.5p5 on the translated code

/-- **C11 (adjacent literals, on the translated code).**  The statements of `C11_strings_join_diagnosed` and `C11_strings_join` for
    `join_adjacent_string_literals` as translated (first pass then second pass on a run of at least two tokens with prefixes `ps`):
    two different prefixes are diagnosed with "unsupported non-standard concatenation of string literals"; otherwise, if the function
    returns, the token has the element size of the sequence's prefix `P`, its `str` holds — in `array_len × size` bytes — the code
    units of the tokens in order, where a narrow token next to a wide one was re-read from its source text by the wide reader, followed
    by one zero unit, and `array_len = Σ (array_lenᵢ − 1) + 1`. -/
theorem C11_strings_join_translated (t1 t2 : StrTok) (rest : List StrTok) (ps : List StrPrefix)
    (h : AllPairs TokHasPrefix (t1 :: t2 :: rest) ps) :
    (joinPrefix ps = none →
      joinRun (toTok t1) ((t2 :: rest).map toTok) = .error .unsupported_non_standard_concatenation_of_string_literals) ∧
    (∀ P r, joinPrefix ps = some P → joinRun (toTok t1) ((t2 :: rest).map toTok) = .ok r →
      r.base.size = P.elemSize ∧
      ∃ toks, AllPairs (fun t t' => t' = t ∨ (t.elem.size = 1 ∧ ∃ ty, ty.size = P.elemSize ∧ 1 < ty.size ∧ retokenize t ty = .ok t'))
          (t1 :: t2 :: rest) toks ∧
        r.str = strBytes P.elemSize (toks.map (·.units)).flatten ∧
        r.arrayLen = ((toks.map (fun t => ((t.units.length : Int) + 1) - 1)).sum) + 1) := by
  have key := joinRun_eq t1 t2 rest ps h
  constructor
  · intro hj
    rw [join_diagnosed t1 t2 rest ps h hj] at key
    obtain ⟨e', he', hoe⟩ := relE_error key
    rw [he']
    cases e' with
    | unsupported_non_standard_concatenation_of_string_literals => rfl
    | unreachable => cases hoe
    | store_outside => cases hoe
    | read e => cases e <;> cases hoe
  · intro P r hj hr
    rw [hr] at key
    cases hjs : joinStrings (t1 :: t2 :: rest) with
    | error e => rw [hjs] at key; exact key.elim
    | ok hd =>
      rw [hjs] at key
      obtain ⟨hb, hal, hstr⟩ := key
      obtain ⟨hsz, toks, hprov, hunits, _⟩ := join_result t1 t2 rest ps P hd h hj hjs
      refine ⟨by rw [hb]; exact hsz, toks, hprov, by rw [hstr, hsz, hunits], ?_⟩
      rw [hal, hunits]
      congr 1
      have : ∀ l : List StrTok, (((l.map (·.units)).flatten.length : Nat) : Int) =
          (l.map (fun t => ((t.units.length : Int) + 1) - 1)).sum := by
        intro l
        induction l with
        | nil => simp
        | cons x l ih => simp only [List.map_cons, List.flatten_cons, List.length_append, List.sum_cons]; push_cast; rw [ih]; omega
      exact this toks

/-- non-vacuity: `"a" u"b"` has the prefix `u`, `u8"a" L"b"` none -/
example : joinPrefix [.none, .u] = some .u ∧ joinPrefix [.u8, .L] = none := by decide

/-- **C11 (prefix dispatch of `tokenize()` against `getStringKind`).**  For every string-literal arm of `tokenize()` (translated table
    `stringPrefixes`, in source order) a token whose text starts with that prefix and the opening quote is classified by the translated
    `getStringKind` as the kind of that prefix — unprefixed, `u8`, `u` (`char16_t`), `L` (`wchar_t`), `U` (`char32_t`) —, whatever follows,
    so that the element type `tokenize()` gave the token (`C11_prefix_types`) and the kind `join_adjacent_string_literals` sees agree. -/
theorem C11_prefix_kinds (rest : List Byte) (base : Ty) (n : Int) (s : List Byte) :
    stringPrefixes.map (fun e => (e.1, ChibiVerif.Gen.StrJoin.getStringKind ⟨true, e.1.map (BitVec.ofNat 8) ++ 34#8 :: rest, base, n, s⟩)) =
      [([], .ok (kindToGen (kindOf .none))), ([117, 56], .ok (kindToGen (kindOf .u8))), ([117], .ok (kindToGen (kindOf .u))),
       ([76], .ok (kindToGen (kindOf .L))), ([85], .ok (kindToGen (kindOf .U)))] := by
  simp [stringPrefixes, ChibiVerif.Gen.StrJoin.getStringKind, byteAt, kindToGen, kindOf]

-- ------------------------------------------------------------------ read_file, and file bytes ↦ tokenizer text

/-- **C11 (`read_file`: final newline and terminator).**  About the tail of `read_file` AS TRANSLATED (`fflush(out); if (buflen == 0 ||
    buf[buflen - 1] != '\n') fputc('\n', out); fputc('\0', out);`), for every file content: the returned array is the file's bytes, then
    a newline iff the file is empty or does not end in one (`withFinalNewline`; this is `ensureFinalNewline` of Model/Text.lean, the
    function every `C11_text_*` theorem starts from), then the terminator; and if the file contains no NUL, the C string `tokenize_file`
    works on is exactly that text — which ends in a newline. -/
theorem C11_read_file_spec (s : List Byte) :
    readFileBuf s = withFinalNewline s ++ [0#8] ∧ ensureFinalNewline s = withFinalNewline s ∧
    ((0#8 : Byte) ∉ s → cString (readFileBuf s) = withFinalNewline s ∧ (withFinalNewline s).getLast? = some LF) := by
  refine ⟨by rw [readFileBuf_eq, ensureFinalNewline_eq], ensureFinalNewline_eq s, fun h0 => ⟨by rw [read_file_text s h0, ensureFinalNewline_eq], ?_⟩⟩
  unfold withFinalNewline
  by_cases hc : s = [] ∨ s.getLast? ≠ some LF
  · rw [if_pos hc]; simp
  · rw [if_neg hc]
    have : ¬ s.getLast? ≠ some LF := fun h => hc (Or.inr h)
    exact Classical.not_not.mp this

/-- non-vacuity: `x` gets a newline, `x\n` and does not, the empty file becomes one newline -/
example : readFileBuf [0x78#8] = [0x78#8, 10#8, 0#8] ∧ readFileBuf [0x78#8, 10#8] = [0x78#8, 10#8, 0#8] ∧ readFileBuf [] = [10#8, 0#8] ∧
    (0#8 : Byte) ∉ ([0x78#8] : List Byte) := by decide

/-- **C11 (file bytes ↦ tokenizer text).**  The complete function from the bytes of a source file to the text handed to `tokenize()`,
    every step translated from tokenize.c — `read_file`'s tail (final newline, terminator), the C string in its array, then
    `tokenize_file` (BOM `memcmp`, `canonicalize_newline`, `remove_backslash_newline`, `convert_universal_chars` as in-place loops, in the
    order of the calls: `C11_phase_order`) — is, for every file content without NUL, `phase12` with the final-newline rule written out:
    the composition every `C11_text_*` theorem is about; no store of the loops leaves the text. -/
theorem C11_source_text (s : List Byte) (h0 : (0#8 : Byte) ∉ s) :
    sourceText s = some (phase12 s) ∧
    phase12 s = convertUniversalChars (removeBackslashNewline (canonicalizeNewline (skipBOM (withFinalNewline s)))) :=
  ⟨source_text s h0, by unfold phase12; rw [ensureFinalNewline_eq]⟩

/-- non-vacuity: BOM, `"é"` written as a UCN, CR LF, a splice, no final newline -/
example : (0#8 : Byte) ∉ ([0xEF#8, 0xBB#8, 0xBF#8, 0x22#8, 92#8, 0x75#8, 0x30#8, 0x30#8, 0x65#8, 0x39#8, 0x22#8, 13#8, 10#8, 0x78#8, 92#8, 10#8, 0x79#8] : List Byte) ∧
    sourceText [0xEF#8, 0xBB#8, 0xBF#8, 0x22#8, 92#8, 0x75#8, 0x30#8, 0x30#8, 0x65#8, 0x39#8, 0x22#8, 13#8, 10#8, 0x78#8, 92#8, 10#8, 0x79#8] =
      some [0x22#8, 0xC3#8, 0xA9#8, 0x22#8, 10#8, 0x78#8, 0x79#8, 10#8, 10#8] := by decide

end ChibiVerif.Props.C11
