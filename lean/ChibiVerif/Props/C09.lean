/-
C09 — macro expansion follows C11 6.10.3 and terminates.

Property theorems only; helper lemmas live in Lemmas/PPArgs.lean, Lemmas/PPLemmas.lean, Lemmas/PPTerm.lean,
Lemmas/PPSubst.lean (with Lemmas/C09Skip.lean: the placemarker loop of `subst`), and (termination for every table)
Lemmas/C09Measure.lean, Lemmas/C09Subst.lean, Lemmas/C09Fuel.lean.  The model is Model/PP.lean (preprocess.c as it is now),
the specification Spec/PPSpec.lean (C11 6.10.3.1–6.10.3.3 in the standard's phases, with placemarkers).
`#`: Lemmas/C09Stringize.lean.  The `subst` before `fix:` 5a15c0f: Lemmas/C09Placemarker.lean (witnesses in Findings/C09.lean).
-/
import ChibiVerif.Model.PP
import ChibiVerif.Spec.PPSpec
import ChibiVerif.Lemmas.PPArgs
import ChibiVerif.Lemmas.PPLemmas
import ChibiVerif.Lemmas.PPTerm
import ChibiVerif.Lemmas.PPSubst
import ChibiVerif.Lemmas.C09Fuel
import ChibiVerif.Lemmas.C09Stringize
import ChibiVerif.Lemmas.C09FuelMono
import ChibiVerif.Lemmas.C09Placemarker

namespace ChibiVerif.Props.C09
open ChibiVerif.PP

/-! ## hide sets -/

/-- **C09 (hide-set algebra).**  `hideset_union`, `hideset_intersection` and `hideset_contains` are union,
    intersection and membership of sets of names; `add_hideset` adds the set to every token and changes nothing else. -/
theorem C09_hideset_algebra (a b : Hideset) (x : String) :
    (hidesetContains a x = true ↔ x ∈ a) ∧
    hidesetContains (hidesetUnion a b) x = (hidesetContains a x || hidesetContains b x) ∧
    hidesetContains (hidesetIntersection a b) x = (hidesetContains a x && hidesetContains b x) ∧
    (∀ ts : List Tok, (addHideset ts a).map (fun t => hidesetContains t.hide x)
        = ts.map (fun t => hidesetContains t.hide x || hidesetContains a x)) ∧
    (∀ ts : List Tok, (addHideset ts a).map (fun t => (t.kind, t.text, t.hasSpace, t.atBol, t.line, t.origin))
        = ts.map (fun t => (t.kind, t.text, t.hasSpace, t.atBol, t.line, t.origin))) :=
  ⟨hidesetContains_iff a x, hidesetContains_union a b x, hidesetContains_intersection a b x,
   fun ts => by simp [addHideset, hidesetContains_union, Function.comp_def],
   fun ts => by simp [addHideset, Function.comp_def]⟩

/-! ## argument identification -/

/-- **C09 (one argument).**  `read_macro_arg_one` returns `(a, r)` exactly when the input is `a ++ r`, the parentheses
    of `a` match, `a` has no comma outside parentheses (unless it reads the variable argument), and `r` starts with
    the `)` — or top-level `,` — that ends the argument.  In every other case it reports "premature end of input". -/
theorem C09_args_one (readRest : Bool) (ts a r : List Tok) :
    (readMacroArgOne readRest 0 ts = .ok (a, r) ↔
      ts = a ++ r ∧ Balanced a ∧ (readRest = true ∨ noTopComma 0 a = true) ∧
        ∃ t r', r = t :: r' ∧ isTerm readRest t = true) ∧
    (∀ e, readMacroArgOne readRest 0 ts = .error e → e = .prematureEnd) := by
  refine ⟨⟨argOne_sound readRest ts 0 a r, ?_⟩, argOne_error readRest ts 0⟩
  rintro ⟨rfl, hb, hc, t, r', rfl, ht⟩
  exact argOne_complete readRest a 0 t r' hb hc ht

/-- **C09 (argument lists).**  Whatever `read_macro_args` accepts is the text `a₁ , a₂ , … , aₙ )` : the arguments in
    order, separated by tokens spelled `,`, every argument with matching parentheses, the named ones without a
    top-level comma, the variable argument taking all the rest (commas included) or being empty when it is omitted;
    the returned token is the closing `)`. -/
theorem C09_args (ps : List String) (va : Option String) (ts : List Tok)
    (args : List MacroArg) (rp : Tok) (rest : List Tok)
    (h : readMacroArgs ps va ts = .ok (args, rp, rest)) :
    rp.text = ")" ∧ args.map (·.name) = ps ++ va.toList ∧
    (∀ a ∈ args, Balanced a.toks) ∧ (∀ a ∈ args, a.isVa = false → noTopComma 0 a.toks = true) ∧
    ∃ l, ts = l ++ rp :: rest ∧
      match va with
      | none => Sep true (args.map (·.toks)) l
      | some _ => ∃ named vaArg, args = named ++ [vaArg] ∧ vaArg.isVa = true ∧ (∀ a ∈ named, a.isVa = false) ∧
          (Sep true (args.map (·.toks)) l ∨ (vaArg.toks = [] ∧ Sep true (named.map (·.toks)) l)) :=
  readMacroArgs_sound ps va ts args rp rest h

/-- **C09 (unbalanced invocation).**  If no prefix of the text after `(` has matching parentheses and is followed by
    `)` (or a top-level `,`), `read_macro_arg_one` answers with the diagnostic, never with an argument. -/
theorem C09_args_unbalanced (readRest : Bool) (ts : List Tok)
    (h : ¬ ∃ a t r, ts = a ++ t :: r ∧ Balanced a ∧ (readRest = true ∨ noTopComma 0 a = true) ∧ isTerm readRest t = true) :
    readMacroArgOne readRest 0 ts = .error .prematureEnd := by
  cases hr : readMacroArgOne readRest 0 ts with
  | error e => rw [argOne_error readRest ts 0 e hr]
  | ok v =>
    obtain ⟨a, r⟩ := v
    obtain ⟨h1, h2, h3, t, r', rfl, ht⟩ := argOne_sound readRest ts 0 a r hr
    exact absurd ⟨a, t, r', h1, h2, h3, ht⟩ h

private def tk (s : String) (k : Kind := .ident) : Tok := { kind := k, text := s }

/-- non-vacuity: `f((a,b),c)` — the first argument keeps its inner comma -/
example : readMacroArgs ["x", "y"] none
    [tk "(" .punct, tk "a", tk "," .punct, tk "b", tk ")" .punct, tk "," .punct, tk "c", tk ")" .punct, tk "z"]
    = .ok ([{ name := "x", toks := [tk "(" .punct, tk "a", tk "," .punct, tk "b", tk ")" .punct] },
            { name := "y", toks := [tk "c"] }], tk ")" .punct, [tk "z"]) := by decide

/-- non-vacuity: the hypothesis of `C09_args_unbalanced` holds for `( a` (never closed) -/
example : readMacroArgOne false 0 [tk "(" .punct, tk "a"] = .error .prematureEnd := by decide

/-! ## painting -/

/-- **C09 (blue paint, one step).**  `expand_macro` declines a token only if the token does not name a macro, or
    carries its own name in its hide set, or names a function-like macro and the next token of the input is not `(`. -/
theorem C09_blue_step (lx : String → LexOne) (pp : PreExpand) (st : St) (tok : Tok) (rest : List Tok)
    (h : expandMacro lx pp st tok rest = .ok none) :
    hidesetContains tok.hide tok.text = true ∨ findMacro st.defs tok = none ∨
      (∃ ps va b, findMacro st.defs tok = some (.fn ps va b) ∧ textIs rest.head? "(" = false) :=
  expandMacro_none h

/-- **C09 (blue paint, expansion).**  Every token that the expansion of an object-like or function-like macro puts
    in front of the remaining input has the macro's name in its hide set, and the remaining input is a suffix of the
    old one (so self-reference stops after one step: `#define T U` / `#define U T` gives `T`). -/
theorem C09_blue_paint (lx : String → LexOne) (pp : PreExpand) (st : St) (tok : Tok) (rest ts' : List Tok) (st' : St)
    (h : expandMacro lx pp st tok rest = .ok (some (ts', st'))) :
    (∃ b, findMacro st.defs tok = some (.builtin b) ∧ ts' = (runBuiltin st b tok).1 :: rest) ∨
    (∃ new k, ts' = new ++ rest.drop k ∧ ∀ t ∈ new, hidesetContains t.hide tok.text = true) := by
  rcases expandMacro_paints h with hb | ⟨new, suffix, hts, hp, hs⟩
  · exact Or.inl hb
  · right
    rcases hs with rfl | ⟨k, rfl⟩
    · exact ⟨new, 0, by simpa using hts, fun t ht => (hp t ht).1⟩
    · exact ⟨new, k, hts, fun t ht => (hp t ht).1⟩

/-- **C09 (blue paint, output).**  In the output of `preprocess2` on text without directives, every identifier
    that names a macro has that name in its hide set or names a function-like macro (which was then not followed by
    `(` when it was scanned, by `C09_blue_step`). -/
theorem C09_blue (lx : String → LexOne) (fuel : Nat) (st : St) (ts out : List Tok) (st' : St)
    (hnh : NoHash ts) (h : preprocess2 lx fuel st ts = .ok (out, st')) :
    ∀ t ∈ out, ∀ m, findMacro st.defs t = some m → hidesetContains t.hide t.text = true ∨ m.isFn = true :=
  preprocess2_blue lx fuel st ts out st' hnh h

/-- non-vacuity and the classic: `#define T U` / `#define U T`, input `T U` → `T U`, both painted with {T,U} -/
example : (expand 10 [("T", .obj [tk "U"]), ("U", .obj [tk "T"])] [tk "T", tk "U"]).map (·.map fun t => (t.text, t.hide))
    = .ok [("T", ["T", "U"]), ("U", ["U", "T"])] := by decide

/-- `#define f(x) x f` / `f(1)(2)` → `1 f(2)`: the `f` of the expansion is painted and stays -/
example : (expand 20 [("f", .fn ["x"] none [tk "x", tk "f"])]
      [tk "f", tk "(" .punct, tk "1" .num, tk ")" .punct, tk "(" .punct, tk "2" .num, tk ")" .punct]).map (·.map (·.text))
    = .ok ["1", "f", "(", "2", ")"] := by decide

/-! ## termination -/

-- `fuelBound defs ts` (Lemmas/C09Fuel.lean) `= fuelE (maxBody defs) defs.length ts.length 0`: the bound for every table.
-- `fuelE L j m x` (Lemmas/C09Measure.lean): work of `m` tokens that still have `j` macro names outside their hide sets,
-- on top of inner work `x`, when no replacement list is longer than `L`:
--   fuelE L 0 m x = m + x,   fuelE L (j+1) 0 x = x,
--   fuelE L (j+1) (m+1) x = 1 + fuelE L (j+1) m (fuelE L j (L * (1 + fuelE L (j+1) m x)) 0).

/-- **C09 (termination), every macro table.**  For every lexer used by `##`, every state — object-like, function-like,
    variadic and built-in macros in any combination, replacement lists and input tokens with arbitrary hide sets —
    and every input without directive lines, `preprocess2` (the rescanning loop, `expand_macro`, `subst` with `#`, `##`,
    `__VA_OPT__`, and the recursive pre-expansion of arguments) finishes with output or a diagnostic as soon as it is
    given `fuelBound defs input` units of fuel: a number computed from the table (number of entries, longest
    replacement list) and the length of the input alone.
    The measure (Lemmas/C09Measure.lean): the pending list is cut into ghost levels with growing sets of names that
    every identifier and every `)` of the level hides; an expansion whose `)` comes from an outer level opens its new
    level on top of *that* level, and the hide set `(hide(name) ∩ hide(')')) ∪ {name}` of `expand_macro` contains that
    level's names plus the macro's own — the intersection never loses more.  Level lengths decrease
    lexicographically; arguments handed to the nested `preprocess2` inherit a smaller vector. -/
theorem C09_terminates (lx : String → LexOne) (st : St) (ts : List Tok) (fuel : Nat)
    (hnh : NoHash ts) (hfuel : fuelBound st.defs ts ≤ fuel) :
    preprocess2 lx fuel st ts ≠ .error .fuel :=
  (preprocess2_fuelBound lx st ts fuel hnh hfuel).1

/-- non-vacuity: `#define f(x) x f` with `f(1)(2)` — a function-like macro whose expansion ends in its own name, followed
    by more input: the hypothesis holds, the bound is a concrete number, and with that much fuel the model answers
    `1 f(2)` -/
example :
    let defs : List (String × Macro) := [("f", .fn ["x"] none [tk "x", tk "f"])]
    let ts : List Tok := [tk "f", tk "(" .punct, tk "1" .num, tk ")" .punct, tk "(" .punct, tk "2" .num, tk ")" .punct]
    NoHash ts ∧ fuelBound defs ts = 477734946799221833229035410333259818857 ∧
    (expand (fuelBound defs ts) defs ts).map (·.map (·.text)) = .ok ["1", "f", "(", "2", ")"] := by decide +kernel

/-- **C09 (termination), size of the output.**  Under the same hypotheses the output has at most `fuelBound defs input`
    tokens (the bound also limits what an expansion can produce, not only how long it takes). -/
theorem C09_terminates_output (lx : String → LexOne) (st : St) (ts : List Tok) (fuel : Nat)
    (hnh : NoHash ts) (hfuel : fuelBound st.defs ts ≤ fuel) (out : List Tok) (st' : St)
    (h : preprocess2 lx fuel st ts = .ok (out, st')) :
    out.length ≤ fuelBound st.defs ts :=
  (preprocess2_fuelBound lx st ts fuel hnh hfuel).2 out st' h

/-- non-vacuity: `#define d(x) x x` duplicates its argument — `d(d(a))` gives four tokens -/
example : (expand 50 [("d", .fn ["x"] none [tk "x", tk "x"])]
      [tk "d", tk "(" .punct, tk "d", tk "(" .punct, tk "a", tk ")" .punct, tk ")" .punct]).map (·.map (·.text))
    = .ok ["a", "a", "a", "a"] := by decide

/-- **C09 (fuel does not matter once it suffices).**  For every lexer, state and input (directive lines included): a run
    of `preprocess2` that ends with output or with a diagnostic — anything but `.error .fuel` — ends the same way with any
    larger amount of fuel.  So the fixed large constant the correspondence runs use computes the same answer as
    `fuelBound` would. -/
theorem C09_fuel_irrelevant (lx : String → LexOne) (n m : Nat) (hnm : n ≤ m) (st : St) (ts : List Tok)
    (r : Except Err (List Tok × St)) (h : preprocess2 lx n st ts = r) (hr : r ≠ .error .fuel) :
    preprocess2 lx m st ts = r :=
  preprocess2_mono lx n m hnm st ts r h hr

/-- non-vacuity: `f(1)(2)` with 20 units of fuel answers `1 f(2)` (evaluated), hence so does every larger amount -/
example : ∀ m, 20 ≤ m → (expand m [("f", .fn ["x"] none [tk "x", tk "f"])]
      [tk "f", tk "(" .punct, tk "1" .num, tk ")" .punct, tk "(" .punct, tk "2" .num, tk ")" .punct]).map (·.map (·.text))
    = .ok ["1", "f", "(", "2", ")"] := by
  intro m hm
  have h20 : (expand 20 [("f", .fn ["x"] none [tk "x", tk "f"])]
      [tk "f", tk "(" .punct, tk "1" .num, tk ")" .punct, tk "(" .punct, tk "2" .num, tk ")" .punct]).map (·.map (·.text))
      = .ok ["1", "f", "(", "2", ")"] := by decide
  cases hr : expand 20 [("f", .fn ["x"] none [tk "x", tk "f"])]
      [tk "f", tk "(" .punct, tk "1" .num, tk ")" .punct, tk "(" .punct, tk "2" .num, tk ")" .punct] with
  | error e => rw [hr] at h20; simp [Except.map] at h20
  | ok v =>
    rw [expand_mono 20 m hm _ _ _ hr (by simp)]
    rw [hr] at h20
    exact h20

/-- **C09 (macro expansion is a total function).**  For every lexer, table and directive-free input there is one
    answer — output or diagnostic, never `fuel` — that `preprocess2` gives for every amount of fuel from `fuelBound` on. -/
theorem C09_expansion_total (lx : String → LexOne) (st : St) (ts : List Tok) (hnh : NoHash ts) :
    ∃ r, r ≠ .error .fuel ∧ ∀ fuel, fuelBound st.defs ts ≤ fuel → preprocess2 lx fuel st ts = r :=
  ⟨preprocess2 lx (fuelBound st.defs ts) st ts, C09_terminates lx st ts _ hnh (Nat.le_refl _),
   fun fuel hf => C09_fuel_irrelevant lx _ fuel hf st ts _ rfl (C09_terminates lx st ts _ hnh (Nat.le_refl _))⟩

/-- the former `C09_terminates_Statement`, now a theorem: there is a bound, computed from the table and the input alone,
    within which `preprocess2` finishes for *every* table -/
theorem C09_terminates_bound_exists :
    ∃ bound : List (String × Macro) → List Tok → Nat,
      ∀ (lx : String → LexOne) (st : St) (ts : List Tok) (fuel : Nat), NoHash ts → bound st.defs ts ≤ fuel →
        preprocess2 lx fuel st ts ≠ .error .fuel :=
  ⟨fuelBound, C09_terminates⟩

/-- `bound(defs, input)`: the sharper fuel bound for an object-like table (`L` = longest replacement list,
    a token that still has `r` macros outside its hide set costs at most `1 + L + L² + … + Lʳ`) -/
def bound (defs : List (String × Macro)) (ts : List Tok) : Nat := need (defs.map (·.1)) (bodyBound defs) ts

/-- **C09 (termination), sharper bound for object-like definition sets** (built-in macros included): the multiset measure
    — every application replaces a token by at most `L` tokens that each have one more macro in their hide set —
    gives the bound `bound defs ts`, singly exponential in the number of macros (against the tower of `fuelBound`,
    which `C09_terminates` needs because a function-like expansion can be as long as its pre-expanded arguments). -/
theorem C09_terminates_partial (lx : String → LexOne) (st : St) (ts : List Tok) (fuel : Nat)
    (hobj : ObjOnly st.defs) (hnh : NoHash ts) (hfuel : bound st.defs ts ≤ fuel) :
    preprocess2 lx fuel st ts ≠ .error .fuel :=
  preprocess2_obj_fuel lx st.defs (bodyBound st.defs) hobj (fun _ _ h => bodyBound_ge h) (bodyBound_pos _)
    fuel st ts rfl hnh hfuel

/-- non-vacuity: a mutually recursive object-like table, and the bound is small enough to evaluate -/
example : ObjOnly [("T", Macro.obj [tk "U", tk "T"]), ("U", .obj [tk "T", tk "U"])] ∧
    NoHash [tk "T", tk "U"] ∧
    bound [("T", Macro.obj [tk "U", tk "T"]), ("U", .obj [tk "T", tk "U"])] [tk "T", tk "U"] = 14 := by decide

/-! ## `subst` against C11 6.10.3.1–6.10.3.3 -/

-- `spell ts` (Lemmas/PPSubst.lean): what the property compares — kind and spelling of every token, stringized text included

/-- `subst` of the model for a function-like macro, run with a pure pre-expander `full` (the complete macro
    replacement of an argument as if it were the rest of the file) -/
def modelSubst (lx : String → LexOne) (full : List Tok → List Tok) (body : List Tok) (args : List MacroArg) :
    Except Err (List Tok) :=
  (subst lx (fun st ts => .ok (full ts, st)) {} body args false).map (·.1)

/-- **C09 (substitution), full statement over every construct the property names** (C11 6.10.3.1–6.10.3.3 plus the C2x
    `__VA_OPT__` and the GNU `, ## __VA_ARGS__` as Spec/PPSpec.lean reads them): whenever the specification defines the
    replacement of an invocation, `subst` produces exactly those spellings — for every lexer, every pre-expander, every
    replacement list and every argument list.
    Status after `fix:` 5a15c0f (placemarkers) and 6fecbd6 (`#`): **proved for every replacement list that is C11**
    (`C09_subst_spec` below).  NOT a theorem as it stands, and not because of C11: the two extensions have no C11 text and
    chibicc reads them differently from the specification (= gcc 12) — `Findings.C09.statement_fails_outside_C11`:
    `, ## __VA_ARGS__` pre-expands the variable argument (gcc does not), and `__VA_OPT__` tests the variable argument
    before its macro replacement (gcc / C2x after it).  The check counts these runs as latitude and does not compare
    them.  The former refutations inside C11 (`t(,,)`: C09-placemarker; `str(: @\n)`: C09-stringize-backslash-outside-
    literal) are repaired in /repo and kept as witnesses of the OLD code in Findings/C09.lean. -/
def C09_subst_spec_Statement : Prop :=
  ∀ (lx : String → LexOne) (full : List Tok → List Tok) (body : List Tok) (args : List MacroArg) (s : List Tok),
    ChibiVerif.Spec.PPSpec.subst lx full true body args = .ok s →
      ∃ m, modelSubst lx full body args = .ok m ∧ spell m = spell s

/-- **C09 (substitution), proved part**: for every lexer, every pre-expander, every replacement list and every
    argument list — empty arguments and chains of `##` over empty arguments included (placemarkers, 6.10.3.3p2-3; the
    hypothesis `NoPlacemarkerChain` of the former known finding C09-placemarker is gone) — whenever the specification
    defines the replacement, `subst` produces exactly its spellings; stringized arguments are arbitrary.
    The two hypotheses that are left exclude nothing of C11 6.10.3 that is defined:
    * `NoExtension body args` (decidable): no `, ##` in front of the *variable* parameter (GNU comma elision), no
      `__VA_OPT__ (` (C2x), and no `## #` (C11 6.10.3.2p2: "the order of evaluation of # and ## operators is
      unspecified").  `## ##` is no longer excluded: the specification rejects it and the theorem holds vacuously there.
    * `FreshArgs args`: the cache `arg->expanded` of every argument is empty — true of whatever `read_macro_args` returns
      (`C09_subst_spec` removes it).
    Induction over the replacement list with "newest emitted token vs newest element of the paste stack" as invariant;
    a run of empty `##` operands is consumed in one simulation step (Lemmas/PPSubst.lean, `subst_sim`, `skip_sim`).
    MISSING for the full statement: `__VA_OPT__` and the GNU comma (specified in Spec/PPSpec.lean, tied by the check, not
    proved; on them the statement fails for reasons outside C11, see `C09_subst_spec_Statement`); the converse direction
    (the specification rejects whatever `subst` rejects) is not claimed. -/
theorem C09_subst_spec_partial (lx : String → LexOne) (full : List Tok → List Tok) (body : List Tok)
    (args : List MacroArg) (s : List Tok)
    (hext : NoExtension body args) (hfresh : FreshArgs args)
    (hspec : ChibiVerif.Spec.PPSpec.subst lx full true body args = .ok s) :
    ∃ m, modelSubst lx full body args = .ok m ∧ spell m = spell s := by
  obtain ⟨m, st', hm, hs⟩ := subst_spec_of_region lx full body args s hext hfresh hspec
  refine ⟨m, ?_, hs⟩
  unfold modelSubst
  have : (fun (st : St) (ts : List Tok) => (Except.ok (full ts, st) : Except Err (List Tok × St))) = purePP full := rfl
  rw [this, hm]
  rfl

/-- non-vacuity: `#define g(x,y,z) a x ## y ## z # x y` with `g(1, ,3 4)` satisfies both hypotheses (an empty
    operand in the middle of a `##` chain, a stringized and a pre-expanded parameter), the specification defines
    the result, and it is `a 13 4 "1"` followed by the (empty) expansion of `y` -/
example :
    let body : List Tok := [tk "a", tk "x", tk "##" .punct, tk "y", tk "##" .punct, tk "z", tk "#" .punct, tk "x", tk "y"]
    let args : List MacroArg := [{ name := "x", toks := [tk "1" .num] }, { name := "y", toks := [] },
                                 { name := "z", toks := [tk "3" .num, tk "4" .num] }]
    NoExtension body args ∧ FreshArgs args ∧
    (ChibiVerif.Spec.PPSpec.subst Lex.lexOne id true body args).map spell
      = .ok [(.ident, "a"), (.num, "13"), (.num, "4"), (.str, "\"1\"")] ∧
    (modelSubst Lex.lexOne id body args).map spell
      = .ok [(.ident, "a"), (.num, "13"), (.num, "4"), (.str, "\"1\"")] := by decide

/-- non-vacuity inside the former region of C09-placemarker: C11 6.10.3.5 EXAMPLE 5, `#define t(x,y,z) x ## y ## z` with
    `t(,,)` and `t(,,12)`, and a chain behind another token, `a x ## y ## z` with `(,,3)` (the old code gave `a3`) -/
example :
    let t : List Tok := [tk "x", tk "##" .punct, tk "y", tk "##" .punct, tk "z"]
    let arg (x y z : List Tok) : List MacroArg := [{ name := "x", toks := x }, { name := "y", toks := y }, { name := "z", toks := z }]
    hasPlacemarkerChain (arg [] [] []) t = true ∧ NoExtension t (arg [] [] []) ∧ FreshArgs (arg [] [] []) ∧
    (ChibiVerif.Spec.PPSpec.subst Lex.lexOne id true t (arg [] [] [])).map spell = .ok [] ∧
    (modelSubst Lex.lexOne id t (arg [] [] [])).map spell = .ok [] ∧
    (ChibiVerif.Spec.PPSpec.subst Lex.lexOne id true t (arg [] [] [tk "12" .num])).map spell = .ok [(.num, "12")] ∧
    (modelSubst Lex.lexOne id t (arg [] [] [tk "12" .num])).map spell = .ok [(.num, "12")] ∧
    (ChibiVerif.Spec.PPSpec.subst Lex.lexOne id true (tk "a" :: t) (arg [] [] [tk "3" .num])).map spell = .ok [(.ident, "a"), (.num, "3")] ∧
    (modelSubst Lex.lexOne id (tk "a" :: t) (arg [] [] [tk "3" .num])).map spell = .ok [(.ident, "a"), (.num, "3")] := by decide

/-- the replacement list is C11 as far as `subst` is concerned (a Boolean function of the replacement list and of which
    parameter is the variable one): no `, ##` in front of the variable parameter, no `__VA_OPT__ (`, no `## #` -/
def isC11 (body : List Tok) (args : List MacroArg) : Bool := !anyBad true args body

/-- **C09 (substitution), C11.**  For every function-like macro (parameters `ps`, optional variable parameter `va`), every
    invocation text that `read_macro_args` accepts, every lexer behind `##` and every pre-expander: if the replacement list
    is C11 (`isC11`, decidable: it only excludes the GNU comma in front of the variable parameter, C2x `__VA_OPT__ (`, and
    `## #`, whose order of evaluation C11 6.10.3.2p2 leaves unspecified), then whenever C11 6.10.3.1–6.10.3.3
    (Spec/PPSpec.lean: argument substitution, `#`, `##` left to right WITH placemarkers, placemarker removal) defines the
    replacement, `subst` produces exactly its token spellings.  This is `C09_subst_spec_Statement` restricted to C11
    replacement lists, with the arguments taken from the model's own `read_macro_args` instead of assumed fresh. -/
theorem C09_subst_spec (lx : String → LexOne) (full : List Tok → List Tok) (ps : List String) (va : Option String)
    (ts : List Tok) (args : List MacroArg) (rp : Tok) (rest : List Tok) (body s : List Tok)
    (hargs : readMacroArgs ps va ts = .ok (args, rp, rest))
    (hc11 : isC11 body args = true)
    (hspec : ChibiVerif.Spec.PPSpec.subst lx full true body args = .ok s) :
    ∃ m, modelSubst lx full body args = .ok m ∧ spell m = spell s :=
  C09_subst_spec_partial lx full body args s (by simpa [isC11, NoExtension] using hc11)
    (readMacroArgs_fresh hargs) hspec

/-- non-vacuity: `#define t(x,y,z) x ## y ## z` (C11 6.10.3.5 EXAMPLE 5) invoked as `t(10,,)`: `read_macro_args` accepts
    `10,,)`, the replacement list is C11, the specification defines the result `10`, and so does the model -/
example :
    let t : List Tok := [tk "x", tk "##" .punct, tk "y", tk "##" .punct, tk "z"]
    let ts : List Tok := [tk "10" .num, tk "," .punct, tk "," .punct, tk ")" .punct]
    let args : List MacroArg := [{ name := "x", toks := [tk "10" .num] }, { name := "y", toks := [] }, { name := "z", toks := [] }]
    readMacroArgs ["x", "y", "z"] none ts = .ok (args, tk ")" .punct, []) ∧ isC11 t args = true ∧
    (ChibiVerif.Spec.PPSpec.subst Lex.lexOne id true t args).map spell = .ok [(.num, "10")] ∧
    (modelSubst Lex.lexOne id t args).map spell = .ok [(.num, "10")] := by decide

/-- non-vacuity inside the former second region: C11 6.10.3.5 EXAMPLE 4, `#define str(s) # s` with `str(: @\n)` — a `\`
    outside any literal — satisfies the hypotheses, and model and specification both give `": @\n"` -/
example :
    let body : List Tok := [tk "#" .punct, tk "s"]
    let args : List MacroArg := [{ name := "s", toks := [tk ":" .punct, { kind := .punct, text := "@", hasSpace := true },
                                                         tk "\\" .punct, tk "n"] }]
    NoExtension body args ∧ FreshArgs args ∧ ¬ StringizeLiteralSafe body args ∧
    (ChibiVerif.Spec.PPSpec.subst Lex.lexOne id true body args).map spell = .ok [(.str, "\": @\\n\"")] ∧
    (modelSubst Lex.lexOne id body args).map spell = .ok [(.str, "\": @\\n\"")] := by decide

/-- **C09 (`#`).**  For **every** `#` token and **every** argument — any tokens, `\` and `"` inside and outside string
    literals and character constants of any prefix, any spacing — `stringize` (the two copy loops of preprocess.c after
    `fix:` 6fecbd6) produces the token C11 6.10.3.2p2 prescribes (Spec/PPSpec.lean `stringizeSpec`: the spellings of
    the argument's tokens, one space where there was white space between them, `\` inserted before each `"` and `\` of a
    string literal or character constant and nowhere else, the whole between `"`): same spelling, a string literal, the
    spacing of the `#`.  Replaces `C09_stringize_exact`, which said that the formula before the repair was right exactly on
    the literal-safe arguments (now `stringizeOld_ne_spec`, Lemmas/C09Stringize.lean, and Findings/C09.lean). -/
theorem C09_stringize_spec (hash : Tok) (arg : List Tok) :
    (stringize hash arg).text = (ChibiVerif.Spec.PPSpec.stringizeSpec hash arg).text ∧
    (stringize hash arg).kind = (ChibiVerif.Spec.PPSpec.stringizeSpec hash arg).kind ∧
    (stringize hash arg).hasSpace = (ChibiVerif.Spec.PPSpec.stringizeSpec hash arg).hasSpace ∧
    (stringize hash arg).atBol = (ChibiVerif.Spec.PPSpec.stringizeSpec hash arg).atBol :=
  ⟨(stringize_eq_spec hash arg).1, (stringize_eq_spec hash arg).2, rfl, rfl⟩

/-- evaluated on the standard's arguments: `: @\n` (a `\` outside a literal stays single) and
    `strncmp("abc\0d", "abc", '\4') == 0` (those inside literals are doubled, the `"` escaped) -/
example :
    (stringize (tk "#" .punct) [tk ":" .punct, { kind := .punct, text := "@", hasSpace := true }, tk "\\" .punct, tk "n"]).text
      = "\": @\\n\"" ∧
    (stringize (tk "#" .punct) [tk "strncmp", tk "(" .punct, tk "\"abc\\0d\"" .str, tk "," .punct,
        { kind := .str, text := "\"abc\"", hasSpace := true }, tk "," .punct, { kind := .other, text := "'\\4'", hasSpace := true },
        tk ")" .punct, { kind := .punct, text := "==", hasSpace := true }, { kind := .num, text := "0", hasSpace := true }]).text
      = "\"strncmp(\\\"abc\\\\0d\\\", \\\"abc\\\", '\\\\4') == 0\"" := by decide

/-- **C09 (`#`), what the model leaves out.**  The C function passes its buffer to `tokenize()` and returns the first
    token of the result; the model returns the buffer as one string token.  If every token of the argument is
    literal-safe (`strSafeTok`: a string literal, a character constant, or a spelling without `\` and `"`) and no
    spelling contains a new-line character (`strzOkTok`; true of every token `tokenize` makes), the buffer is exactly one
    string literal for the lexer — so nothing is left out there.  Otherwise (a `\` outside a literal in front of the
    closing quote, as in `str(\)`) the result need not be a valid string literal and C11 6.10.3.2p2 makes the behaviour
    undefined; the check does not compare such runs (`skipped_ub`). -/
theorem C09_stringize_wellformed (hash : Tok) (arg : List Tok) (h : ∀ t ∈ arg, strzOkTok t = true) :
    Lex.lexOne (stringize hash arg).text = .one .str :=
  stringize_wellformed hash arg h

/-- non-vacuity: `"a\n" + c` satisfies the hypothesis; and the hypothesis is needed: for the argument `\` the buffer is
    `"\"`, an unterminated literal (chibicc: "unclosed string literal") -/
example : (∀ t ∈ [tk "\"a\\n\"" .str, tk "+" .punct, tk "c"], strzOkTok t = true) ∧
    Lex.lexOne (stringize (tk "#" .punct) [tk "\\" .punct]).text = .error := by decide

/-! ## `__COUNTER__` -/

/-- **C09 (`__COUNTER__`).**  `n` occurrences of `__COUNTER__` expand, in order, to `c, c+1, …, c+n-1` where `c` is
    the value of the counter before, and leave the counter at `c + n` (the C code starts at 0). -/
theorem C09_counter (lx : String → LexOne) (st : St) (ts : List Tok) (fuel : Nat)
    (hdef : st.defs.lookup "__COUNTER__" = some (.builtin .counter))
    (hts : ∀ t ∈ ts, t.kind = .ident ∧ t.text = "__COUNTER__" ∧ t.hide = []) (hfuel : 2 * ts.length ≤ fuel) :
    ∃ out st', preprocess2 lx fuel st ts = .ok (out, st') ∧ st'.counter = st.counter + ts.length ∧
      out.map (·.text) = (List.range ts.length).map (fun i => toString (st.counter + i)) :=
  preprocess2_counter lx st.defs hdef ts fuel st rfl hts hfuel

/-- non-vacuity: the table of `init_macros` binds `__COUNTER__` to the handler, and the counter starts at 0 -/
example : initDefs.lookup "__COUNTER__" = some (.builtin .counter) ∧ (initSt).counter = 0 := by decide

example : (preprocess 10 [tk "__COUNTER__", tk "__COUNTER__", tk "__COUNTER__"]).map (·.map (·.text))
    = .ok ["0", "1", "2"] := by decide

end ChibiVerif.Props.C09
