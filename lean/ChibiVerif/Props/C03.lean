/-
C03 — control flow and lexical scoping follow the abstract machine.

Property theorems only; helper lemmas are in Lemmas/ScopeLemmas.lean, Lemmas/Stmt{Machine,Parse,Labels,Switch,Sim,Preserve,Structured}.lean,
Lemmas/StmtGoto{Defs,Entry,Sim,Parse}.lean (simulation for goto / computed goto / nested case labels) and Lemmas/C03Agree.lean
(the two abstract machines agree on the structured fragment).
-/
import ChibiVerif.Model.Scope
import ChibiVerif.Lemmas.ScopeLemmas
import ChibiVerif.Lemmas.StmtPreserve
import ChibiVerif.Lemmas.StmtStructured
import ChibiVerif.Lemmas.StmtGotoParse
import ChibiVerif.Lemmas.C03Agree

namespace ChibiVerif.Props.C03
open ChibiVerif.Scope

variable {V T : Type}

/-! ## Scoping -/

/-- **C03 (scoping).**  After any history of `enter_scope` / `leave_scope` / `push_scope` /
    `push_tag_scope` that the parser can perform (it never leaves the file scope), `find_var`
    returns the most recent declaration of the name in the innermost still-open scope that
    declares it in the ordinary name space, and `find_tag` the same for the tag name space:
    exactly what reading the history backwards from the point of use, skipping closed blocks,
    finds (`visibleVar` / `visibleTag`).  Scopes are any of: file scope, parameter scope, the
    function body, a block, the scope a `for` statement opens around its init-declaration. -/
theorem C03_scope (ops : List (Op V T)) (s : Stack V T) (name : String)
    (h : run Stack.init ops = .ok s) :
    findVar s name = visibleVar ops name ∧ findTag s name = visibleTag ops name := by
  have hv := findVar_eq_specVar_rev name ops.reverse s (by rw [List.reverse_reverse]; exact h) 0
  have ht := findTag_eq_specTag_rev name ops.reverse s (by rw [List.reverse_reverse]; exact h) 0
  exact ⟨by simpa [visibleVar] using hv, by simpa [visibleTag] using ht⟩

/-- non-vacuity: file-scope `x`, parameter `x`, block `x`, a closed inner block redeclaring
    `x` and a tag `x`; the use binds to the block's `x` (id 3), the tag is independent. -/
def exampleHistory : List (Op Ent Nat) :=
  [.declVar "x" (.obj 1), .enter, .declVar "x" (.obj 2), .enter, .declVar "x" (.tdef 3),
   .declTag "x" 9, .enter, .declVar "x" (.enumc 4), .leave]

example : (run Stack.init exampleHistory).toBool = true ∧
    visibleVar exampleHistory "x" = some (.tdef 3) ∧ visibleTag exampleHistory "x" = some 9 := by
  decide

/-- **C03 (the two name spaces are independent).**  Declaring a tag never changes what an
    ordinary identifier binds to, and vice versa. -/
theorem C03_scope_namespaces (s s' : Stack V T) (n name : String) (v : V) (t : T) :
    (declareTag s n t = .ok s' → findVar s' name = findVar s name) ∧
    (declareVar s n v = .ok s' → findTag s' name = findTag s name) := by
  constructor
  · intro h
    cases s with
    | nil => simp [declareTag] at h
    | cons f rest => simp only [declareTag] at h; cases h; rfl
  · intro h
    cases s with
    | nil => simp [declareVar] at h
    | cons f rest => simp only [declareVar] at h; cases h; rfl

/-- **C03 (scope exit).**  A complete block — `{ … }`, a function body with its parameter
    scope, a `for` statement with its init scope — whatever it declares and however its
    inner blocks nest, leaves every binding as it was before the block. -/
theorem C03_scope_block_exit (body : List (Op V T)) (hb : balanced body = true) (s s' : Stack V T)
    (h : run s ([Op.enter] ++ body ++ [Op.leave]) = .ok s') : s' = s :=
  run_block body hb s s' h

example : balanced ([.declVar "x" 1, .enter, .declTag "x" 2, .leave, .declVar "y" 3] : List (Op Nat Nat)) = true := by
  decide

/-- **C03 (scopes over hashmap.c).**  The parser's real scope chain — every `vars`/`tags`
    table an open-addressing table of hashmap.c (model of C17) — never reaches an abort site
    of hashmap.c and answers every lookup exactly like the chain of dictionaries, for every
    hash function.  Corollary of C17's `Inv.put_spec` / `Inv.get_eq`. -/
theorem C03_scope_hashed (h : String → Nat) (ops : List (Op V T)) (s : Stack V T)
    (hs : run Stack.init ops = .ok s) :
    ∃ cs, crun h CStack.init ops = .ok cs ∧
      ∀ name, cfindVar h cs name = .ok (findVar s name) ∧ cfindTag h cs name = .ok (findTag s name) := by
  obtain ⟨cs, hc, hr⟩ := crun_refines h ops CStack.init Stack.init s (StackRel_init h) hs
  exact ⟨cs, hc, fun name => ⟨cfindVar_refines h name cs s hr, cfindTag_refines h name cs s hr⟩⟩


/-! ## Control flow -/

open ChibiVerif.Ctl ChibiVerif.Spec.Ctl

/-- **C03 (break / continue / case / default bind to the innermost construct).**  Whatever the
    parser context `σ` (the values of `brk_label`, `cont_label`, `current_switch`) in which a
    statement is parsed: in the resulting tree every `break` jumps to the break label of the
    innermost enclosing loop **or** switch, every `continue` to the continue label of the
    innermost enclosing loop (switches are transparent), every switch node's `case_next` list
    and `default_case` are exactly the `case`/`default` nodes of its own body that are not
    inside a nested switch (`Bound`); afterwards `brk_label` and `cont_label` have their old
    values and `current_switch` is the old switch, extended by exactly the `case`/`default`
    nodes of this statement (`SwFrame`); and the tree is the source statement with labels
    added (`erase`). -/
theorem C03_break_binds (s : SStmt) (σ : PState) (st : Stmt) (σ' : PState)
    (h : parseStmt s σ = .ok (st, σ')) :
    Bound σ.brk σ.cont st ∧ σ'.brk = σ.brk ∧ σ'.cont = σ.cont ∧ SwFrame σ.sw σ'.sw st ∧ erase st = s := by
  have A := parse_inv s σ st σ' h
  exact ⟨A.bound, A.brk, A.cont, A.sw, A.erase⟩

/-- … and for a whole function body (after `resolve_goto_labels`): no enclosing construct. -/
theorem C03_break_binds_fn (u0 : Nat) (s : SStmt) (st : Stmt) (u1 : Nat) (h : parseFn u0 s = .ok (st, u1)) :
    Bound none none st ∧ erase st = s := by
  unfold parseFn at h
  split at h
  · cases h
  · rename_i st0 σ1 hp
    split at h
    · cases h
    · rename_i st' hr
      simp only [Except.ok.injEq, Prod.mk.injEq] at h
      obtain ⟨rfl, rfl⟩ := h
      have A := parse_inv s _ st0 σ1 hp
      have R := resolve_inv (defs st0) σ1.labels (fun p hp' => by
        rcases (parse_inv2 s _ st0 σ1 hp).labels p hp' with h | h
        · simp [PState.init] at h
        · exact h) st0 st' hr
      exact ⟨R.bound _ _ A.bound, by rw [R.erase, A.erase]⟩

/-- the hypothesis is satisfiable on a nest with a switch inside a loop inside a switch: the
    `continue` in the inner switch binds to the loop, the `break`s to their own constructs. -/
example : (parseFn 0 (.switch_ false false 1 (.block (.seq (.case_ 1 1 (.for_ none (some 2) none
      (.switch_ true true 3 (.block (.seq (.case_ 5 9 .continue_) (.seq (.default_ .break_) .skip)))))) (.seq .break_ .skip))))).toBool
    = true := by decide

/-- **C03 (labels).**  In the code of a function (`genStmt (parseStmt f)` followed by
    `.L.return.f:`), for every value of the two counters (`new_unique_name`'s and `count()`'s)
    at which the function is reached: all defined labels are pairwise distinct and every jump
    target (`jmp/je/jne/jbe` operand, `lea` of a label address) is defined — hence defined
    exactly once — in the same function. -/
theorem C03_labels (u0 c0 : Nat) (s : SStmt) (st : Stmt) (u1 : Nat) (h : parseFn u0 s = .ok (st, u1)) :
    (labelsOf (genFn st c0)).Nodup ∧ ∀ t ∈ targetsOf (genFn st c0), t ∈ labelsOf (genFn st c0) := by
  unfold parseFn at h
  split at h
  · cases h
  · rename_i st0 σ1 hp
    split at h
    · cases h
    · rename_i st' hr
      simp only [Except.ok.injEq, Prod.mk.injEq] at h
      obtain ⟨rfl, rfl⟩ := h
      have A := parse_inv s _ st0 σ1 hp
      have A2 := parse_inv2 s _ st0 σ1 hp
      have R := resolve_inv (defs st0) σ1.labels (fun p hp' => by
        rcases A2.labels p hp' with h | h
        · simp [PState.init] at h
        · exact h) st0 st' hr
      have hn : (defs st').Nodup := by rw [R.defs]; exact A2.nodup
      have G := gen_labels st' c0 hn
      have hret : Lbl.ret ∉ labelsOf (genStmt st' c0).1 := by
        intro hm
        rcases G.char _ hm with ⟨n, _, e⟩ | ⟨k, _, _, h3⟩
        · cases e
        · rcases h3 with h | h | h <;> cases h
      unfold genFn
      constructor
      · rw [labelsOf_append]
        exact nodup_app G.nodup (by simp) (fun x hx hx' => by
          simp only [labelsOf_cons, labelsOf_nil, List.append_nil, List.mem_singleton] at hx'
          subst hx'; exact hret hx)
      · intro t ht
        rw [targetsOf_append, List.mem_append] at ht
        rw [labelsOf_append, List.mem_append]
        rcases ht with ht | ht
        · rcases gen_targets (defs st0) st' c0 none none (R.bound _ _ A.bound) R.goto hn t ht with h | ⟨n, rfl, h | h | h⟩ | h
          · exact Or.inl h
          · cases h
          · cases h
          · exact Or.inl (G.defd n (by rw [R.defs]; exact h))
          · subst h; exact Or.inr (by simp)
        · simp at ht

/-- where C says a `switch` on `v` goes: the label of the first `case` in the list whose range
    contains `v` in the controlling type, else `default`, else past the body -/
def specSelect (w64 uns : Bool) (v : Val) (cases : List CaseEnt) (dflt : Option Nat) (brk : Nat) : Nat :=
  match cases.find? (fun e => caseMatches w64 uns e.lo e.hi v) with
  | some e => e.lbl
  | none => dflt.getD brk

/-- **C03 (switch selection).**  Let the code contain `call in(k)` followed by the compare
    ladder `gen_stmt` emits for a case list `cases` (in `case_next` order), an optional
    `default` and the break label, the controlling expression being 32 or 64 bits wide,
    signed or unsigned.  If every range is non-empty **in the controlling type**
    (`toT lo ≤ toT hi`; for a plain `case` `lo = hi`), then for **every** value `v` the oracle
    supplies the machine arrives — trace and oracle position as after the call, nothing else
    executed — at the label of the first arm in list order whose range contains `v` in the
    controlling type (`caseMatches`: negative values, values above 32 bits, the imm32 /
    register split and the unsigned `sub; cmp; jbe` range test included), else at `default`,
    else at the break label. -/
theorem C03_switch_select (ω : Nat → Val) (P : Prog) (p q k : Nat) (σ : SState) (w64 uns : Bool)
    (cases : List CaseEnt) (dflt : Option Nat) (brk : Nat)
    (hcode : CodeAt P p ([.call (.inp k)] ++ ladder w64 cases dflt brk))
    (hord : ∀ e ∈ cases, toT w64 uns e.lo ≤ toT w64 uns e.hi)
    (htarget : findLabel P (.u (specSelect w64 uns (ω σ.oi) cases dflt brk)) = some q) :
    Runs ω P (p, σ) (q, (σ.call ω (.inp k)).2) := by
  apply Runs.switchHead w64 cases dflt brk hcode
  have : ∀ cs : List CaseEnt, (∀ e ∈ cs, toT w64 uns e.lo ≤ toT w64 uns e.hi) →
      selectLbl w64 (ω σ.oi) cs dflt brk = specSelect w64 uns (ω σ.oi) cs dflt brk := by
    intro cs
    unfold specSelect
    induction cs with
    | nil => intro _; cases dflt <;> rfl
    | cons e r ih =>
      intro ho
      simp only [selectLbl, List.find?_cons, entMatches_spec w64 uns e _ (ho e (by simp))]
      cases hm : caseMatches w64 uns e.lo e.hi (ω σ.oi) with
      | true => simp
      | false => simp only [Bool.false_eq_true, if_false]; exact ih (fun e' he' => ho e' (List.mem_cons_of_mem _ he'))
  show findLabel P (.u (selectLbl w64 (ω σ.oi) cases dflt brk)) = some q
  rw [this cases hord]; exact htarget

/-- the range hypothesis of `C03_switch_select` on a case list with a negative value, a value
    above 32 bits and a range up to the top of the type (64-bit signed) -/
example : ∀ e ∈ ([⟨1, -3#64, -3#64⟩, ⟨2, 0x100000001#64, 0x100000005#64⟩, ⟨3, 7#64, 0x7fffffffffffffff#64⟩] : List CaseEnt),
    toT true false e.lo ≤ toT true false e.hi := by decide

/-- **C03 (trace preservation, structured fragment).**  For every function body `s` that the
    parser accepts and that is `structured` (arbitrary nesting of compound statements,
    if/else, for/while/do with break/continue, `return`, ordinary labels, and switches whose
    `case`/`default` labels prefix top-level items of the switch body — any order, fall-through,
    `default` anywhere, ranges non-empty and pairwise disjoint in the controlling type; no
    goto): for every oracle stream, every fuel and every initial trace, if the abstract machine
    `Spec.exec` finishes with trace and oracle position `σ'`, then the emitted code, started at
    its first instruction in any register state, runs to the end of the function with exactly
    that trace and oracle position — the same calls of `m`, `c`, `in` in the same order the same
    number of times; if the fuel runs out after `σ'`, the emitted code reaches `σ'` too
    (prefix). -/
theorem C03_preserve_partial (ω : Nat → Val) (u0 c0 fuel : Nat) (s : SStmt) (st : Stmt) (u1 : Nat)
    (σ : SState) (hparse : parseFn u0 s = .ok (st, u1)) (hs : structured s = true) :
    match exec ω fuel s σ with
    | .done _ σ' => Runs ω (genFn st c0) (0, σ) ((genFn st c0).length, σ')
    | .timeout σ' => ∃ q, Runs ω (genFn st c0) (0, σ) (q, σ')
    | .unsupported => False := by
  have hB := C03_break_binds_fn u0 s st u1 hparse
  have hL := C03_labels u0 c0 s st u1 hparse
  have hu : UniqueLabels (genFn st c0) := unique_of_nodup _ hL.1
  have hcode : CodeAt (genFn st c0) 0 (genStmt st c0).1 := ⟨[], [.label .ret], by simp [genFn], rfl⟩
  have hret : (genFn st c0)[(genStmt st c0).1.length]? = some (CIns.label .ret) := by
    simp [genFn]
  have hsim := sim_all ω fuel fuel (Nat.le_refl _) st σ (genFn st c0) 0 c0 none none hcode hu hB.1
    (fun bl h => by cases h) (fun cl h => by cases h) ⟨_, hret⟩
  rw [hB.2] at hsim
  have hlen : (genFn st c0).length = (genStmt st c0).1.length + 1 := by simp [genFn]
  have hfin : ∀ σ', Runs ω (genFn st c0) ((genStmt st c0).1.length, σ') ((genFn st c0).length, σ') := by
    intro σ'; rw [hlen]; exact Runs.label hret
  cases hr : exec ω fuel s σ with
  | unsupported => exact absurd hr (structured_supported ω fuel s σ hs)
  | timeout σ' => rw [hr] at hsim; exact hsim
  | done o σ' =>
    rw [hr] at hsim
    cases o with
    | normal => simp only [Nat.zero_add] at hsim; exact hsim.trans (hfin σ')
    | brk => obtain ⟨bl, _, h, _⟩ := hsim; cases h
    | cont => obtain ⟨bl, _, h, _⟩ := hsim; cases h
    | ret =>
      obtain ⟨q, hq, hrun⟩ := hsim
      have : q = (genStmt st c0).1.length := hu _ _ _ hq hret
      subst this
      exact hrun.trans (hfin σ')

/-- non-vacuity: a structured nest (switch with a range, fall-through and `default` in the
    middle inside a loop with `continue`) that the parser accepts and the abstract machine
    runs to completion -/
def exampleNest : SStmt :=
  .block (.seq (.for_ (some 1) (some 2) (some 3) (.switch_ false false 4 (.block
    (.seq (.case_ (-1) 5 (.marker 6)) (.seq (.default_ (.marker 7)) (.seq .continue_ (.seq (.case_ 9 9 .break_) .skip)))))))
    (.seq (.marker 8) .skip))

example : structured exampleNest = true ∧ (parseFn 0 exampleNest).toBool = true ∧
    exec (fun i => [1, 3, 1, 9, 1, 77, 0].getD i 0) 50 exampleNest ⟨0, []⟩ =
      .done .normal ⟨7, [.m 1, .c 2, .inp 4, .m 6, .m 7, .m 3, .c 2, .inp 4, .m 3, .c 2, .inp 4, .m 7, .m 3, .c 2, .m 8]⟩ := by
  decide

/-! ## Control flow, every statement form: goto, computed goto, `case` labels anywhere in the switch body

`Spec.Ctl.execG` (Spec/ControlSpecG.lean) is a small-step C abstract machine with continuations for
**all** of `SStmt`: `goto L` continues at the statement labelled `L` of the function with the
continuation that statement has there; `goto *&&L` likewise (the value `&&L` designates that
statement); a `switch` continues at the statement after the matching `case` label wherever it is
nested in the body outside nested switches (Duff's device), else after `default`, else past the
switch.  It is independent of parse.c / codegen.c (no unique labels, no counters) and is run against
gcc and against the compiled program on generated goto / Duff / computed-goto programs by the check. -/

/-- **C03 (trace preservation, all statement forms).**  For every function body `s` the parser
    accepts — any nesting of compound statements, if/else, for/while/do, `switch` with `case` /
    `default` labels anywhere in its body (inside loops, ifs, blocks: Duff's device), ranges,
    fall-through, break/continue, `return`, named labels, `goto`, `goto *&&L` (forwards, backwards,
    into and out of loops, switches and blocks) — that satisfies the constraints of the language
    (`validG`: within each switch every range non-empty in the controlling type, no value selected
    by two `case`s, at most one `default` (6.8.4.2p3); a label named by a jump is defined exactly once
    in the function (6.8.1p3, 6.8.6.1p1)), for every oracle stream, every number of steps and every
    initial trace: if the abstract machine `execG` has left the function after `fuel` steps with trace
    and oracle position `σ'`, the emitted code, started at its first instruction in any register
    state, runs to the end of the function with exactly that trace and oracle position — the same
    calls of `m`, `c`, `in`, in the same order, the same number of times; if the abstract machine is
    still running after `fuel` steps at `σ'`, the emitted code reaches `σ'` too (prefix; covers
    non-terminating programs); and the abstract machine never gets stuck.
    `hsz` concerns `jmp *%rax` only: the machine model holds a code address in a 64-bit register, so
    a function with a computed goto must have fewer than 2^64 instructions. -/
theorem C03_preserve_goto_partial (ω : Nat → Val) (u0 c0 fuel : Nat) (s : SStmt) (st : Stmt) (u1 : Nat)
    (σ : SState) (hparse : parseFn u0 s = .ok (st, u1)) (hv : validG s = true)
    (hsz : hasGotoVal s = true → (genFn st c0).length < 2 ^ 64) :
    match execG ω fuel s σ with
    | .done _ σ' => Runs ω (genFn st c0) (0, σ) ((genFn st c0).length, σ')
    | .timeout σ' => ∃ q, Runs ω (genFn st c0) (0, σ) (q, σ')
    | .unsupported => False := by
  have hB := C03_break_binds_fn u0 s st u1 hparse
  have hL := C03_labels u0 c0 s st u1 hparse
  exact goto_sim ω c0 (unique_of_nodup _ hL.1) hB.1 hB.2 (parseFn_gotoR hparse) hv hsz fuel σ

/-- non-vacuity: a loop entered by `goto` in its middle, Duff's device (a `case` label inside a `do`
    inside the switch body, a second one inside an `if` inside that loop), a backward `goto`, and a
    computed goto out of the loop nest; the parser accepts it, it satisfies the constraints, and the
    abstract machine runs it to completion -/
def exampleJumps : SStmt :=
  .block (.seq (.goto_ 1) (.seq (.for_ none (some 1) (some 2) (.block (.seq (.marker 3) (.seq (.label 1 (.marker 4))
    (.seq (.switch_ false true 5 (.block (.seq (.case_ 0 0 (.doWhile (.block (.seq (.marker 6) (.seq (.ifte 7 (.case_ 2 9 (.marker 8)) .break_)
      (.seq (.default_ (.marker 9)) .skip)))) 10)) .skip))) (.seq (.ifte 11 (.gotoVal 2) .skip) .skip))))))
    (.seq (.marker 12) (.seq (.label 2 (.marker 13)) (.seq (.ifte 14 (.goto_ 1) .skip) .skip)))))

example : (parseFn 0 exampleJumps).toBool = true ∧ validG exampleJumps = true ∧ hasGotoVal exampleJumps = true ∧
    (match parseFn 0 exampleJumps with | .ok (st, _) => decide ((genFn st 1).length < 2 ^ 64) | .error _ => false) = true ∧
    structured exampleJumps = false ∧
    execG (fun i => [3, 1, 1, 0, 0, 1, 7, 0, 1, 1, 0].getD i 0) 200 exampleJumps ⟨0, []⟩ =
      .done .normal ⟨15, [.m 4, .inp 5, .m 8, .m 9, .c 10, .m 6, .c 7, .m 8, .m 9, .c 10, .c 11, .m 2, .c 1, .m 3, .m 4,
        .inp 5, .m 8, .m 9, .c 10, .c 11, .m 13, .c 14, .m 4, .inp 5, .m 6, .c 7, .c 11, .m 2, .c 1, .m 12, .m 13, .c 14]⟩ := by
  decide

/-- **C03 (the two abstract machines agree on the structured fragment).**  On `structured`
    statements — the fragment `Spec.exec` gives a meaning to — whenever the big-step machine `exec`
    finishes, the small-step machine `execG` finishes with the same outcome, oracle position and
    trace; whenever `exec` runs out of fuel at `σ'`, `execG` passes through `σ'`; and every
    `structured` statement satisfies the constraints `validG` (so `C03_preserve_goto_partial`
    covers the fragment of `C03_preserve_partial`). -/
theorem C03_execG_structured (ω : Nat → Val) (s : SStmt) (hs : structured s = true) :
    validG s = true ∧
    ∀ (n : Nat) (σ σ' : SState),
      (∀ o, exec ω n s σ = .done o σ' → ∃ m, execG ω m s σ = .done o σ') ∧
      (exec ω n s σ = .timeout σ' → ∃ m, execG ω m s σ = .timeout σ') :=
  ⟨structured_validG s hs, fun n σ σ' =>
    ⟨fun o h => exec_execG_done ω s hs n σ σ' o h, fun h => exec_execG_timeout ω s hs n σ σ' h⟩⟩

example : structured exampleNest = true := by decide

/-- **C03 (named labels: a jump binds to the labelled statement of exactly its own name).**  Label
    names are their own name space with function scope (6.2.1p3, 6.2.3); the model compares names
    for equality, as `resolve_goto_labels` does with `strcmp` (the text of that function and of the
    three places that record a label / `goto` / `&&label` name is pinned by the check, and generated
    programs use names that are proper prefixes of one another and names of functions, objects,
    typedefs and tags).  For every function the parser accepts: every `goto l` and `goto *&&l`
    node received the unique label `t` of a labelled statement of the same function whose name is
    exactly `l` (`(l, t) ∈ labelPairs st`); the labelled statements of the parsed tree are those of the
    source, name by name; distinct labelled statements have distinct unique labels (so with
    `C03_labels` the jump has exactly one target, the statement so named); and consequently every
    name a jump uses is defined in the function — a function that jumps to an undefined label is not
    accepted (`error_tok(…, "use of undeclared label")`).  If a name is defined twice (a constraint
    violation chibicc does not diagnose) the jump binds to one of the statements so named. -/
theorem C03_label_binds (u0 : Nat) (s : SStmt) (st : Stmt) (u1 : Nat) (h : parseFn u0 s = .ok (st, u1)) :
    GotoR (fun l t => (l, t) ∈ labelPairs st) True st ∧
    (labelPairs st).map (·.1) = labelNames s ∧
    ((labelPairs st).map (·.2)).Nodup ∧
    ∀ l ∈ jumpNames s, l ∈ labelNames s := by
  have hB := C03_break_binds_fn u0 s st u1 h
  have hR := parseFn_gotoR h
  have hN : (labelPairs st).map (·.1) = labelNames s := by rw [← hB.2, labelNames_erase]
  refine ⟨hR, hN, (labelPairs_sublist st).nodup (parseFn_defs_nodup h), ?_⟩
  intro l hl
  rw [← hB.2] at hl
  obtain ⟨t, ht⟩ := gotoR_names st hR l hl
  rw [← hN]
  exact List.mem_map_of_mem (f := fun p : Nat × Nat => p.1) ht

/-- non-vacuity: names 1, 10, 11 (think `L1`, `L10`, `L11`), jumps to each, `L1` defined before the
    longer names; and a function that jumps to an undefined name is rejected -/
def exampleLabels : SStmt :=
  .block (.seq (.goto_ 1) (.seq (.label 1 (.marker 1)) (.seq (.gotoVal 10) (.seq (.label 11 (.marker 2))
    (.seq (.label 10 (.marker 3)) (.seq (.goto_ 11) .skip))))))

example : (parseFn 0 exampleLabels).toBool = true ∧
    (match parseFn 0 (.block (.seq (.label 10 (.marker 1)) (.seq (.goto_ 1) .skip))) with
     | .error .undeclaredLabel => true | _ => false) = true := by decide

/-- The statement in the form it was first written: ONE function `execG` that is *equal* to `exec`, fuel
    included, on structured statements and is simulated by the code of *every* function the parser
    accepts.  Not proved, and in this literal form not the right target — the three places where it
    differs from what is proved are not about chibicc, and each could only be met by a degenerate
    witness (an `execG` defined by cases that makes no claim, `timeout σ`, where it has nothing to say):
    (1) a small-step machine and the big-step `exec` count fuel differently: they agree on results
        and on every prefix (`C03_execG_structured`), not on the fuel at which a result appears;
    (2) the parser also accepts programs that violate a constraint of the language (two `case`s
        selecting one value, a range that is empty in the controlling type, a label defined twice);
        the abstract machine gives them no meaning (`unsupported`); `validG` is the hypothesis of
        `C03_preserve_goto_partial`;
    (3) a function of 2^64 or more instructions containing `goto *&&L`: the machine model keeps the
        target address in a 64-bit register (hypothesis `hsz` of `C03_preserve_goto_partial`).
    What it asks for in substance — a meaning for goto, computed goto and `case` labels nested
    anywhere, agreement with `exec`, and the forward simulation for every parsed function that
    satisfies the constraints — is `C03_preserve_goto_partial` + `C03_execG_structured`. -/
def C03_preserve_Statement : Prop :=
  ∃ execG : (Nat → Val) → Nat → SStmt → SState → Res,
    (∀ ω n s σ, structured s = true → execG ω n s σ = exec ω n s σ) ∧
    ∀ (ω : Nat → Val) (u0 c0 fuel : Nat) (s : SStmt) (st : Stmt) (u1 : Nat) (σ : SState),
      parseFn u0 s = .ok (st, u1) →
      match execG ω fuel s σ with
      | .done _ σ' => Runs ω (genFn st c0) (0, σ) ((genFn st c0).length, σ')
      | .timeout σ' => ∃ q, Runs ω (genFn st c0) (0, σ) (q, σ')
      | .unsupported => False

end ChibiVerif.Props.C03
