/-
C03 — control flow and lexical scoping follow the abstract machine.

Property theorems only; helper lemmas are in Lemmas/ScopeLemmas.lean and Lemmas/StmtLemmas*.lean.
-/
import ChibiVerif.Model.Scope
import ChibiVerif.Lemmas.ScopeLemmas

namespace ChibiVerif.Props.C03
open ChibiVerif.Scope

variable {V T : Type}

/-! ## Scoping -/

/-- **C03 (scoping).**  After any history of `enter_scope` / `leave_scope` / `push_scope` /
    `push_tag_scope` that the parser can perform (it never leaves the file scope), `find_var`
    returns the most recent declaration of the name in the innermost still-open scope that
    declares it in the ordinary name space, and `find_tag` the same for the tag name space:
    exactly what reading the history backwards from the point of use, skipping closed blocks,
    finds (`visibleVar` / `visibleTag`).  Scopes are any of: file scope, parameter scope, the
    function body, a block, the scope a `for` statement opens around its init-declaration. -/
theorem C03_scope (ops : List (Op V T)) (s : Stack V T) (name : String)
    (h : run Stack.init ops = .ok s) :
    findVar s name = visibleVar ops name ∧ findTag s name = visibleTag ops name := by
  have hv := findVar_eq_specVar_rev name ops.reverse s (by rw [List.reverse_reverse]; exact h) 0
  have ht := findTag_eq_specTag_rev name ops.reverse s (by rw [List.reverse_reverse]; exact h) 0
  exact ⟨by simpa [visibleVar] using hv, by simpa [visibleTag] using ht⟩

/-- non-vacuity: file-scope `x`, parameter `x`, block `x`, a closed inner block redeclaring
    `x` and a tag `x`; the use binds to the block's `x` (id 3), the tag is independent. -/
def exampleHistory : List (Op Ent Nat) :=
  [.declVar "x" (.obj 1), .enter, .declVar "x" (.obj 2), .enter, .declVar "x" (.tdef 3),
   .declTag "x" 9, .enter, .declVar "x" (.enumc 4), .leave]

example : (run Stack.init exampleHistory).toBool = true ∧
    visibleVar exampleHistory "x" = some (.tdef 3) ∧ visibleTag exampleHistory "x" = some 9 := by
  decide

/-- **C03 (the two name spaces are independent).**  Declaring a tag never changes what an
    ordinary identifier binds to, and vice versa. -/
theorem C03_scope_namespaces (s s' : Stack V T) (n name : String) (v : V) (t : T) :
    (declareTag s n t = .ok s' → findVar s' name = findVar s name) ∧
    (declareVar s n v = .ok s' → findTag s' name = findTag s name) := by
  constructor
  · intro h
    cases s with
    | nil => simp [declareTag] at h
    | cons f rest => simp only [declareTag] at h; cases h; rfl
  · intro h
    cases s with
    | nil => simp [declareVar] at h
    | cons f rest => simp only [declareVar] at h; cases h; rfl

/-- **C03 (scope exit).**  A complete block — `{ … }`, a function body with its parameter
    scope, a `for` statement with its init scope — whatever it declares and however its
    inner blocks nest, leaves every binding as it was before the block. -/
theorem C03_scope_block_exit (body : List (Op V T)) (hb : balanced body = true) (s s' : Stack V T)
    (h : run s ([Op.enter] ++ body ++ [Op.leave]) = .ok s') : s' = s :=
  run_block body hb s s' h

example : balanced ([.declVar "x" 1, .enter, .declTag "x" 2, .leave, .declVar "y" 3] : List (Op Nat Nat)) = true := by
  decide

/-- **C03 (scopes over hashmap.c).**  The parser's real scope chain — every `vars`/`tags`
    table an open-addressing table of hashmap.c (model of C17) — never reaches an abort site
    of hashmap.c and answers every lookup exactly like the chain of dictionaries, for every
    hash function.  Corollary of C17's `Inv.put_spec` / `Inv.get_eq`. -/
theorem C03_scope_hashed (h : String → Nat) (ops : List (Op V T)) (s : Stack V T)
    (hs : run Stack.init ops = .ok s) :
    ∃ cs, crun h CStack.init ops = .ok cs ∧
      ∀ name, cfindVar h cs name = .ok (findVar s name) ∧ cfindTag h cs name = .ok (findTag s name) := by
  obtain ⟨cs, hc, hr⟩ := crun_refines h ops CStack.init Stack.init s (StackRel_init h) hs
  exact ⟨cs, hc, fun name => ⟨cfindVar_refines h name cs s hr, cfindTag_refines h name cs s hr⟩⟩

end ChibiVerif.Props.C03
