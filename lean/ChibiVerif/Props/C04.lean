/-
C04 — every lvalue designates exactly its object's bytes and bits.

Property theorems only (helper lemmas: Lemmas/BitFieldLemmas.lean, Lemmas/FrameLemmas.lean, Lemmas/AllocaLemmas.lean,
Lemmas/LvalLemmas.lean).

Family 1 — bit-fields.  `bfAssignT` / `bfLoadT` (Model/BitField.lean) are the meaning of the instruction sequences
chibicc prints for `s.f = v` and for reading `s.f` (the sequences themselves and the arithmetic they print are
regenerated from codegen.c into Gen/C04Gen.lean on every run and compared with `chibicc -S` line by line).
All theorems are parametric in the declared type, the width `w` and the bit offset `o`: every unit size 1/2/4/8,
every 1 ≤ w ≤ 8·size, every o with o + w ≤ 8·size, every old content of the unit and every right-hand side.
-/
import ChibiVerif.Model.BitField
import ChibiVerif.Spec.C04Spec
import ChibiVerif.Lemmas.BitFieldLemmas

namespace ChibiVerif.Props.C04
open ChibiVerif.Gen.C04 ChibiVerif.BitField ChibiVerif.Spec.C04

/-! ## Family 1: bit-fields -/

/-- **C04 (bit-field round trip).**  After the emitted store sequence, the emitted load sequence returns the low `w`
    bits of the assigned value, zero-extended for unsigned and `_Bool` fields and sign-extended for signed ones
    (C11 6.7.2.1p10, 6.3.1.3). -/
theorem C04_bf_roundtrip (t : BfType) (w o : Nat) (hw : 1 ≤ w) (hwo : o + w ≤ t.usize.bits)
    (old : BitVec t.usize.bits) (v : BitVec 64) :
    bfLoadT t w o (bfAssignT t w o old v).unit = fieldValue t w v := by
  have hb := t.usize.bits_le
  apply BitVec.eq_of_getLsbD_eq
  intro j hj
  rw [fieldValue_getLsbD t w hw (by omega) v j hj]
  unfold bfLoadT bfLoad bfAssignT bfAssign
  simp only
  rw [extract_getLsbD w o hw (by omega) _ _ _ j hj, logical_eq_spec]
  by_cases h : j < w
  · simp only [h, if_true]
    rw [loadUnit_getLsbD _ _ _ _ (by omega)]
    unfold storeUnit
    rw [BitVec.getLsbD_setWidth, merged_getLsbD w o hw (by omega) _ _ _ (by omega)]
    have h1 : j + o < t.usize.bits := by omega
    have h2 : o ≤ j + o ∧ j + o < o + w := by omega
    simp [h1, h2]
  · simp only [h, if_false]
    rw [loadUnit_getLsbD _ _ _ _ (by omega)]
    unfold storeUnit
    rw [BitVec.getLsbD_setWidth, merged_getLsbD w o hw (by omega) _ _ _ (by omega)]
    have h1 : w - 1 + o < t.usize.bits := by omega
    have h2 : o ≤ w - 1 + o ∧ w - 1 + o < o + w := by omega
    simp [h1, h2]

/-- non-vacuity: `long x : 64` (the width whose mask `(1UL << 64) - 1` the compiler must not compute), an
    `unsigned : 32` field (mask wider than an immediate), a `_Bool : 1` field in the top bit of its byte -/
example : bfLoadT .long 64 0 (bfAssignT .long 64 0 0x1111111111111111#64 0x8000000000000001#64).unit = 0x8000000000000001#64 := by
  decide
example : bfLoadT .uint 32 0 (bfAssignT .uint 32 0 0#32 0xdeadbeef#64).unit = 0xdeadbeef#64 := by decide
example : bfLoadT .bool 1 7 (bfAssignT .bool 1 7 0#8 1#64).unit = 1#64 := by decide
example : bfLoadT .int 3 5 (bfAssignT .int 3 5 0xffffffff#32 9#64).unit = 1#64 := by decide
example : bfLoadT .short 5 11 (bfAssignT .short 5 11 0#16 0x1f#64).unit = (-1 : BitVec 64) := by decide

/-- **C04 (value of a bit-field assignment).**  The value left in %rax — the value of the expression `s.f = v` — is
    what a subsequent read of the field yields (C11 6.5.16p3), hence `fieldValue`. -/
theorem C04_bf_assign_value (t : BfType) (w o : Nat) (hw : 1 ≤ w) (hwo : o + w ≤ t.usize.bits)
    (old : BitVec t.usize.bits) (v : BitVec 64) :
    (bfAssignT t w o old v).rax = bfLoadT t w o (bfAssignT t w o old v).unit := by
  have hb := t.usize.bits_le
  apply BitVec.eq_of_getLsbD_eq
  intro j hj
  unfold bfLoadT bfLoad bfAssignT bfAssign
  simp only
  rw [extract_getLsbD w o hw (by omega) _ _ _ j hj, extract_getLsbD w o hw (by omega) _ _ _ j hj]
  have key : ∀ k, k < t.usize.bits →
      (loadUnit t.usize t.implUnsigned (storeUnit t.usize
        (loadUnit t.usize t.implUnsigned old &&& ~~~(bfMask w <<< o) ||| (v &&& bfMask w) <<< shiftCount ↑o))).getLsbD k
      = (loadUnit t.usize t.implUnsigned old &&& ~~~(bfMask w <<< o) ||| (v &&& bfMask w) <<< shiftCount ↑o).getLsbD k := by
    intro k hk
    rw [loadUnit_getLsbD _ _ _ _ hk]
    unfold storeUnit
    rw [BitVec.getLsbD_setWidth]
    simp [hk]
  rw [key (w - 1 + o) (by omega)]
  by_cases h : j < w
  · rw [key (j + o) (by omega)]
  · simp [h]

theorem C04_bf_assign_value_spec (t : BfType) (w o : Nat) (hw : 1 ≤ w) (hwo : o + w ≤ t.usize.bits)
    (old : BitVec t.usize.bits) (v : BitVec 64) :
    (bfAssignT t w o old v).rax = fieldValue t w v := by
  rw [C04_bf_assign_value t w o hw hwo, C04_bf_roundtrip t w o hw hwo]

example : (bfAssignT .int 3 0 0#32 9#64).rax = 1#64 := by decide
example : (bfAssignT .uint 5 3 0#32 0x3f#64).rax = 31#64 := by decide

/-- **C04 (bit-field neighbours).**  Every bit of the storage unit outside `[o, o+w)` keeps its value; the unit is
    the only memory the sequence writes (one `mov` of the unit's width to the unit's address). -/
theorem C04_bf_neighbours (t : BfType) (w o : Nat) (hw : 1 ≤ w) (hwo : o + w ≤ t.usize.bits)
    (old : BitVec t.usize.bits) (v : BitVec 64) (i : Nat) (hi : i < t.usize.bits) (hout : i < o ∨ o + w ≤ i) :
    (bfAssignT t w o old v).unit.getLsbD i = old.getLsbD i := by
  have hb := t.usize.bits_le
  unfold bfAssignT bfAssign storeUnit
  simp only
  rw [BitVec.getLsbD_setWidth, merged_getLsbD w o hw (by omega) _ _ _ (by omega)]
  have h2 : ¬ (o ≤ i ∧ i < o + w) := by omega
  simp only [h2, if_false]
  rw [loadUnit_getLsbD _ _ _ _ hi]
  simp [hi]

example : (bfAssignT .int 3 5 0xffffffff#32 0#64).unit.toNat = 0xffffff1f := by decide
example : (bfAssignT .ulong 40 24 0#64 (-1 : BitVec 64)).unit.toNat = 0xffffffffff000000 := by decide

/-- every declared type is covered: its storage unit has the size type.c gives the type, and the sequences use the
    signedness type.c gives it -/
theorem C04_bf_types_covered (t : BfType) :
    t.usize.bytes = t.implSize ∧ bfLogical t.implUnsigned t.implBool = bfUnsigned t := by
  cases t <;> decide

end ChibiVerif.Props.C04
