/-
C04 — every lvalue designates exactly its object's bytes and bits.

Property theorems only (helper lemmas: Lemmas/BitFieldLemmas.lean, Lemmas/FrameLemmas.lean, Lemmas/AllocaLemmas.lean,
Lemmas/LvalLemmas.lean, Lemmas/LvalBoundsLemmas.lean, Lemmas/CopyLemmas.lean).  The machine-level half — the same
instruction lists executed by `X86.run` (Model/X86.lean) — is in Props/C04Machine.lean.

Family 1 — bit-fields.  `bfAssignT` / `bfLoadT` (Model/BitField.lean) are the meaning of the instruction sequences
chibicc prints for `s.f = v` and for reading `s.f` (the sequences themselves and the arithmetic they print are
regenerated from codegen.c into Gen/C04Gen.lean on every run and compared with `chibicc -S` line by line).
All theorems are parametric in the declared type, the width `w` and the bit offset `o`: every unit size 1/2/4/8,
every 1 ≤ w ≤ 8·size, every o with o + w ≤ 8·size, every old content of the unit and every right-hand side.
-/
import ChibiVerif.Model.BitField
import ChibiVerif.Spec.C04Spec
import ChibiVerif.Lemmas.BitFieldLemmas
import ChibiVerif.Lemmas.FrameLemmas
import ChibiVerif.Lemmas.AllocaLemmas
import ChibiVerif.Lemmas.LvalLemmas
import ChibiVerif.Lemmas.LvalBoundsLemmas
import ChibiVerif.Lemmas.CopyLemmas

namespace ChibiVerif.Props.C04
open ChibiVerif.Gen.C04 ChibiVerif.BitField ChibiVerif.Spec.C04

/-! ## Family 1: bit-fields -/

/-- **C04 (bit-field round trip).**  After the emitted store sequence, the emitted load sequence returns the low `w`
    bits of the assigned value, zero-extended for unsigned and `_Bool` fields and sign-extended for signed ones
    (C11 6.7.2.1p10, 6.3.1.3). -/
theorem C04_bf_roundtrip (t : BfType) (w o : Nat) (hw : 1 ≤ w) (hwo : o + w ≤ t.usize.bits)
    (old : BitVec t.usize.bits) (v : BitVec 64) :
    bfLoadT t w o (bfAssignT t w o old v).unit = fieldValue t w v := by
  have hb := t.usize.bits_le
  apply BitVec.eq_of_getLsbD_eq
  intro j hj
  rw [fieldValue_getLsbD t w hw (by omega) v j hj]
  unfold bfLoadT bfLoad bfAssignT bfAssign
  simp only
  rw [extract_getLsbD w o hw (by omega) _ _ _ j hj, logical_eq_spec]
  by_cases h : j < w
  · simp only [h, if_true]
    rw [loadUnit_getLsbD _ _ _ _ (by omega)]
    unfold storeUnit
    rw [BitVec.getLsbD_setWidth, merged_getLsbD w o hw (by omega) _ _ _ (by omega)]
    have h1 : j + o < t.usize.bits := by omega
    have h2 : o ≤ j + o ∧ j + o < o + w := by omega
    simp [h1, h2]
  · simp only [h, if_false]
    rw [loadUnit_getLsbD _ _ _ _ (by omega)]
    unfold storeUnit
    rw [BitVec.getLsbD_setWidth, merged_getLsbD w o hw (by omega) _ _ _ (by omega)]
    have h1 : w - 1 + o < t.usize.bits := by omega
    have h2 : o ≤ w - 1 + o ∧ w - 1 + o < o + w := by omega
    simp [h1, h2]

/-- non-vacuity: `long x : 64` (the width whose mask `(1UL << 64) - 1` the compiler must not compute), an
    `unsigned : 32` field (mask wider than an immediate), a `_Bool : 1` field in the top bit of its byte -/
example : bfLoadT .long 64 0 (bfAssignT .long 64 0 0x1111111111111111#64 0x8000000000000001#64).unit = 0x8000000000000001#64 := by
  decide
example : bfLoadT .uint 32 0 (bfAssignT .uint 32 0 0#32 0xdeadbeef#64).unit = 0xdeadbeef#64 := by decide
example : bfLoadT .bool 1 7 (bfAssignT .bool 1 7 0#8 1#64).unit = 1#64 := by decide
example : bfLoadT .int 3 5 (bfAssignT .int 3 5 0xffffffff#32 9#64).unit = 1#64 := by decide
example : bfLoadT .short 5 11 (bfAssignT .short 5 11 0#16 0x1f#64).unit = (-1 : BitVec 64) := by decide

/-- **C04 (value of a bit-field assignment).**  The value left in %rax — the value of the expression `s.f = v` — is
    what a subsequent read of the field yields (C11 6.5.16p3), hence `fieldValue`. -/
theorem C04_bf_assign_value (t : BfType) (w o : Nat) (hw : 1 ≤ w) (hwo : o + w ≤ t.usize.bits)
    (old : BitVec t.usize.bits) (v : BitVec 64) :
    (bfAssignT t w o old v).rax = bfLoadT t w o (bfAssignT t w o old v).unit := by
  have hb := t.usize.bits_le
  apply BitVec.eq_of_getLsbD_eq
  intro j hj
  unfold bfLoadT bfLoad bfAssignT bfAssign
  simp only
  rw [extract_getLsbD w o hw (by omega) _ _ _ j hj, extract_getLsbD w o hw (by omega) _ _ _ j hj]
  have key : ∀ k, k < t.usize.bits →
      (loadUnit t.usize t.implUnsigned (storeUnit t.usize
        (loadUnit t.usize t.implUnsigned old &&& ~~~(bfMask w <<< o) ||| (v &&& bfMask w) <<< shiftCount ↑o))).getLsbD k
      = (loadUnit t.usize t.implUnsigned old &&& ~~~(bfMask w <<< o) ||| (v &&& bfMask w) <<< shiftCount ↑o).getLsbD k := by
    intro k hk
    rw [loadUnit_getLsbD _ _ _ _ hk]
    unfold storeUnit
    rw [BitVec.getLsbD_setWidth]
    simp [hk]
  rw [key (w - 1 + o) (by omega)]
  by_cases h : j < w
  · rw [key (j + o) (by omega)]
  · simp [h]

theorem C04_bf_assign_value_spec (t : BfType) (w o : Nat) (hw : 1 ≤ w) (hwo : o + w ≤ t.usize.bits)
    (old : BitVec t.usize.bits) (v : BitVec 64) :
    (bfAssignT t w o old v).rax = fieldValue t w v := by
  rw [C04_bf_assign_value t w o hw hwo, C04_bf_roundtrip t w o hw hwo]

example : (bfAssignT .int 3 0 0#32 9#64).rax = 1#64 := by decide
example : (bfAssignT .uint 5 3 0#32 0x3f#64).rax = 31#64 := by decide

/-- **C04 (bit-field neighbours).**  Every bit of the storage unit outside `[o, o+w)` keeps its value; the unit is
    the only memory the sequence writes (one `mov` of the unit's width to the unit's address). -/
theorem C04_bf_neighbours (t : BfType) (w o : Nat) (hw : 1 ≤ w) (hwo : o + w ≤ t.usize.bits)
    (old : BitVec t.usize.bits) (v : BitVec 64) (i : Nat) (hi : i < t.usize.bits) (hout : i < o ∨ o + w ≤ i) :
    (bfAssignT t w o old v).unit.getLsbD i = old.getLsbD i := by
  have hb := t.usize.bits_le
  unfold bfAssignT bfAssign storeUnit
  simp only
  rw [BitVec.getLsbD_setWidth, merged_getLsbD w o hw (by omega) _ _ _ (by omega)]
  have h2 : ¬ (o ≤ i ∧ i < o + w) := by omega
  simp only [h2, if_false]
  rw [loadUnit_getLsbD _ _ _ _ hi]
  simp [hi]

example : (bfAssignT .int 3 5 0xffffffff#32 0#64).unit.toNat = 0xffffff1f := by decide
example : (bfAssignT .ulong 40 24 0#64 (-1 : BitVec 64)).unit.toNat = 0xffffffffff000000 := by decide

/-- **C04 (bit-field round trip, in memory).**  The same on a byte-addressed memory: the assignment reads and writes the
    `size` bytes of the unit at `addr`, and a subsequent read of the field yields `fieldValue`. -/
theorem C04_bf_memory_roundtrip (t : BfType) (w o : Nat) (hw : 1 ≤ w) (hwo : o + w ≤ t.usize.bits) (m : BitField.Mem) (addr : Int)
    (v : BitVec 64) : bfLoadMem t w o (bfAssignMem t w o m addr v).1 addr = fieldValue t w v :=
  bf_mem_roundtrip t w o hw hwo m addr v

/-- **C04 (bit-field neighbours, in memory).**  Every bit of memory (bit `b` of the byte at `x`) outside the field's
    absolute bit range `[8·addr + o, 8·addr + o + w)` keeps its value: the other bits of the unit, and every byte outside
    the unit. -/
theorem C04_bf_memory_neighbours (t : BfType) (w o : Nat) (hw : 1 ≤ w) (hwo : o + w ≤ t.usize.bits) (m : BitField.Mem) (addr : Int)
    (v : BitVec 64) (x : Int) (b : Nat) (hb : b < 8) (hout : 8 * x + b < 8 * addr + o ∨ 8 * addr + o + w ≤ 8 * x + b) :
    ((bfAssignMem t w o m addr v).1 x).getLsbD b = (m x).getLsbD b :=
  bf_mem_bits t w o hw hwo m addr v x b hb hout

/-- **C04 (neighbouring bit-fields).**  Any other bit-field — of any declared type, in the same, an overlapping or a
    different storage unit — whose bits are disjoint from the assigned field's reads the same value before and after
    (struct_decl gives distinct bit-fields disjoint bit ranges: C08). -/
theorem C04_bf_memory_other_field (t : BfType) (w o : Nat) (hw : 1 ≤ w) (hwo : o + w ≤ t.usize.bits) (m : BitField.Mem) (addr : Int)
    (v : BitVec 64) (t' : BfType) (w' o' : Nat) (hw' : 1 ≤ w') (hwo' : o' + w' ≤ t'.usize.bits) (addr' : Int)
    (hdis : 8 * addr' + o' + w' ≤ 8 * addr + o ∨ 8 * addr + o + w ≤ 8 * addr' + o') :
    bfLoadMem t' w' o' (bfAssignMem t w o m addr v).1 addr' = bfLoadMem t' w' o' m addr' :=
  bf_mem_other_field t w o hw hwo m addr v t' w' o' hw' hwo' addr' hdis

/-- non-vacuity: `struct { int a:3; char b:3; long c:40; }` at 1000 — `a` lives in the 4-byte unit at 1000 (bits 0..2),
    `b` in the 1-byte unit at 1000 (bits 3..5), `c` in the 8-byte unit at 1000 (bits 8..47): assigning `b` changes
    neither `a` nor `c` although all three units overlap -/
example (m : BitField.Mem) (v : BitVec 64) :
    bfLoadMem .int 3 0 (bfAssignMem .char 3 3 m 1000 v).1 1000 = bfLoadMem .int 3 0 m 1000 ∧
    bfLoadMem .long 40 8 (bfAssignMem .char 3 3 m 1000 v).1 1000 = bfLoadMem .long 40 8 m 1000 :=
  ⟨C04_bf_memory_other_field .char 3 3 (by decide) (by decide) m 1000 v .int 3 0 (by decide) (by decide) 1000 (by decide),
   C04_bf_memory_other_field .char 3 3 (by decide) (by decide) m 1000 v .long 40 8 (by decide) (by decide) 1000 (by decide)⟩

/-- every declared type is covered: its storage unit has the size type.c gives the type, and the sequences use the
    signedness type.c gives it -/
theorem C04_bf_types_covered (t : BfType) :
    t.usize.bytes = t.implSize ∧ bfLogical t.implUnsigned t.implBool = bfUnsigned t := by
  cases t <;> decide

/-! ## Family 2: the frame (assign_lvar_offsets) -/
section Frame
open ChibiVerif.Frame
open ChibiVerif.Gen.Declspec (alignTo)

/-- **C04 (frame).**  For every list of locals and parameters (any sizes ≥ 0, any alignments > 0, any choice of
    stack-passed parameters): the objects are pairwise disjoint; those of the frame lie inside
    `[rbp - stack_size, rbp)` and their offset from %rbp is a multiple of their alignment (`max(16, align)` for an
    array of at least 16 bytes); stack-passed parameters start at `rbp + 16` or above on 8-byte boundaries (so they
    overlap neither the saved %rbp, nor the return address, nor the frame); `stack_size` is a multiple of 16.
    (%rbp itself is a multiple of 16 at run time by the psABI, so offsets that are multiples of an alignment ≤ 16 are
    aligned addresses; alignments above 16 are *not* honoured for automatic objects — chibicc does not realign the
    stack — see the evidence notes.) -/
theorem C04_frame_disjoint (body params : List Var) (hwf : ∀ v ∈ body ++ params, 0 ≤ v.size ∧ 0 < v.align) :
    (frameSlots body params).Pairwise Slot.Disjoint ∧
    (assignLvarOffsets body params).stackSize % 16 = 0 ∧
    (frameSlots body params).map (·.size) = (body ++ params).map (·.size) ∧
    ∀ s ∈ frameSlots body params,
      (s.stack = true → 16 ≤ s.off ∧ s.off % 8 = 0) ∧
      (s.stack = false → -(assignLvarOffsets body params).stackSize ≤ s.off ∧ s.off + s.size ≤ 0 ∧ s.off % s.align = 0) := by
  have hok := loopInput_ok body params hwf
  obtain ⟨h1, h2, h3⟩ := assignLocals_spec (loopInput body params) FRAME_BOTTOM0 (by decide) hok
  have hb : 0 ≤ (assignLocals FRAME_BOTTOM0 (loopInput body params)).2 := by
    have : FRAME_BOTTOM0 = 0 := rfl
    omega
  obtain ⟨a1, a2, a3⟩ := alignTo_spec _ 16 hb (by decide)
  refine ⟨h2, a3, ?_, ?_⟩
  · unfold frameSlots assignLvarOffsets
    simp only
    rw [slotsOf_sizes, loopInput_sizes]
  · intro s hs
    obtain ⟨s1, s2⟩ := h3 s hs
    refine ⟨fun h => ⟨(s1 h).1, (s1 h).2.1⟩, fun h => ?_⟩
    obtain ⟨c1, c2, c3, _⟩ := s2 h
    have : FRAME_BOTTOM0 = 0 := rfl
    refine ⟨?_, by omega, c3⟩
    show -(stackSize _) ≤ _
    unfold stackSize
    omega

/-- non-vacuity: `void f(long a, …6 more…, long g, struct{char c[24]} s) { char x; int y[5]; _Alignas(8) char z; }`-like
    frame: two stack parameters, an over-aligned array, mixed sizes -/
example :
    frameSlots [⟨1, 8, false, false⟩, ⟨20, 4, true, false⟩, ⟨1, 1, false, false⟩]
               [⟨8, 8, false, false⟩, ⟨8, 8, false, true⟩, ⟨24, 1, false, true⟩]
      = [⟨-8, 1, 8, false⟩, ⟨-32, 20, 16, false⟩, ⟨-33, 1, 1, false⟩, ⟨-48, 8, 8, false⟩, ⟨16, 8, 8, true⟩, ⟨24, 24, 8, true⟩] ∧
    (assignLvarOffsets [⟨1, 8, false, false⟩, ⟨20, 4, true, false⟩, ⟨1, 1, false, false⟩]
               [⟨8, 8, false, false⟩, ⟨8, 8, false, true⟩, ⟨24, 1, false, true⟩]).stackSize = 48 := by
  decide

/-- **C04 (absolute alignment of automatic objects — what *is* guaranteed).**  At run time %rbp is a multiple of 16
    (psABI 3.2.2: %rsp + 8 is a multiple of 16 at function entry, the prologue pushes %rbp and copies %rsp) — this is the
    hypothesis `hrbp`; alignments are powers of two (`hpow`; C11 6.2.8p4).  Then for every function, every list of locals
    and parameters, every variable `v` with its slot `s` (same position of `fn->locals`):
    * an object of the frame (a local, or a parameter that arrived in registers — `long double`, over-aligned or not) has
      an address that is a multiple of `min(v.align, 16)`, and of 16 if it is an array of at least 16 bytes (psABI 3.1.2);
    * a parameter passed on the stack (`s.stack`, then `v.byStack`) lies at `rbp + 16` or above on an 8-byte boundary;
    * the lowest address of the frame, `rbp - stack_size` — the initial `alloca_bottom`, the `frameLow` of `C04_alloca` —
      is a multiple of 16, so every alloca block and every VLA, in every history, is 16-aligned in absolute terms
      (`C04_alloca` with `frameLow := rbp - stack_size`).
    For `v.align > 16` the guarantee stops at 16: `Findings.C04_finding_overaligned_sharp` shows that for *every* frame
    with such an object there is a psABI-conforming %rbp that misaligns it (known finding C04-overaligned-auto). -/
theorem C04_frame_aligned (body params : List Var) (hwf : ∀ v ∈ body ++ params, 0 ≤ v.size ∧ 0 < v.align)
    (hpow : ∀ v ∈ body ++ params, ∃ k : Nat, v.align = 2 ^ k) (rbp : Int) (hrbp : rbp % 16 = 0) :
    (∀ p ∈ (body ++ params).zip (frameSlots body params),
      p.2.size = p.1.size ∧
      (p.2.stack = false → (rbp + p.2.off) % min p.1.align 16 = 0 ∧
         (p.1.isArray = true → 16 ≤ p.1.size → (rbp + p.2.off) % 16 = 0)) ∧
      (p.2.stack = true → p.1.byStack = true ∧ 16 ≤ p.2.off ∧ (rbp + p.2.off) % 8 = 0)) ∧
    (rbp - (assignLvarOffsets body params).stackSize) % 16 = 0 := by
  obtain ⟨_, hss, _, hsl⟩ := C04_frame_disjoint body params hwf
  refine ⟨?_, by omega⟩
  intro p hp
  obtain ⟨hmem, hsz, hal, hst⟩ := frame_zip body params p hp
  obtain ⟨s1, s2⟩ := hsl p.2 hmem
  have hv : p.1 ∈ body ++ params := (List.of_mem_zip hp).1
  obtain ⟨k, hk⟩ := hpow p.1 hv
  refine ⟨hsz, fun h => ?_, fun h => ?_⟩
  · obtain ⟨_, _, c3⟩ := s2 h
    rw [hal h] at c3
    have hF : p.1.frameAlign = p.1.align ∨ p.1.frameAlign = max 16 p.1.align := by
      unfold Var.frameAlign localAlign; split <;> simp
    obtain ⟨a1, a2⟩ := addr_aligned rbp p.2.off p.1.align p.1.frameAlign k hk hF hrbp c3
    refine ⟨a1, fun harr hsz16 => a2 ?_⟩
    unfold Var.frameAlign localAlign
    simp [harr, hsz16]
  · obtain ⟨c1, c2⟩ := s1 h
    exact ⟨hst h, c1, by omega⟩

/-- non-vacuity: `void f(long double ld_in_frame?, …)`-like frame — `_Alignas(32) char a; long double b; char c[20]; int d;`
    with %rbp = 4096·k + 16: `a` is only 16-aligned (alignment 32 is not honoured), everything else is aligned -/
example :
    frameSlots [⟨4, 4, false, false⟩, ⟨20, 1, true, false⟩, ⟨16, 16, false, false⟩, ⟨1, 32, false, false⟩] []
      = [⟨-4, 4, 4, false⟩, ⟨-32, 20, 16, false⟩, ⟨-48, 16, 16, false⟩, ⟨-64, 1, 32, false⟩] ∧
    ((4112 : Int) + -64) % 32 = 16 ∧ ((4112 : Int) + -64) % 16 = 0 := by
  decide

end Frame

/-! ## Family 3: alloca blocks and VLAs (builtin_alloca) -/
section Alloca
open ChibiVerif.Alloca

/-- **C04 (alloca, whole histories).**  From the state the prologue leaves (`rsp = bottom = rbp - stack_size`, a
    multiple of 16), after every sequence of pushes, pops, program stores and `alloca(n)` calls that does not pop an
    empty stack: the temporaries `[rsp, bottom)` lie below every block; every block returned is 16-aligned and lies
    inside `[bottom, rbp - stack_size)`, i.e. below the locals; each block lies entirely below all earlier ones
    (pairwise disjoint). -/
theorem C04_alloca (frameLow : Int) (m : Alloca.Mem) (hfl : frameLow % 16 = 0) (ops : List Op) (s : State) (bs : List Block)
    (h : run (init frameLow m) ops = .ok (s, bs)) :
    s.rsp ≤ s.bottom ∧ s.bottom ≤ frameLow ∧ s.bottom % 16 = 0 ∧
    (∀ b ∈ bs, b.addr % 16 = 0 ∧ s.bottom ≤ b.addr ∧ b.addr + (b.size : Int) ≤ frameLow) ∧
    bs.Pairwise (fun a b => b.addr + (b.size : Int) ≤ a.addr) := by
  obtain ⟨i1, i2, _, i4, i5⟩ := run_inv ops (init frameLow m) ⟨Int.le_refl _, Int.le_refl _, hfl⟩ s bs h
  exact ⟨i1.tmp, i2, i1.al, i4, i5⟩

/-- non-vacuity: `f(x, alloca(10))`-like history: a push, an alloca with a temporary live, another push, a second
    alloca, two pops -/
example : (match run (init 4096 (fun _ => 0)) [.push 7, .alloca 10, .push 9, .alloca 40, .pop, .pop] with
           | .ok (s, bs) => some (s.rsp, s.bottom, bs)
           | .error _ => none) = some (4032, 4032, [⟨4080, 16⟩, ⟨4032, 48⟩]) := by
  decide

/-- **C04 (one alloca).**  In a state whose temporaries lie below `bottom`, `alloca(n)` returns the block
    `[bottom', bottom)` with `bottom' = bottom - size`; the temporaries — exactly `bottom - rsp` bytes — are moved down
    by `size` with their contents intact (the ascending byte copy is correct because the destination is below the
    source), and no byte at or above `bottom'` is written: neither the new block, nor an earlier block, nor a local. -/
theorem C04_alloca_step (s : State) (hinv : s.rsp ≤ s.bottom) (n : BitVec 64) :
    ∃ s' blk, step s (.alloca n) = .ok (s', some blk) ∧
      blk.addr = s'.bottom ∧ blk.addr + (blk.size : Int) = s.bottom ∧ blk.size = allocaSize n ∧
      s'.rsp ≤ s.rsp ∧ s'.bottom - s'.rsp = s.bottom - s.rsp ∧ s'.frameLow = s.frameLow ∧
      (∀ i : Nat, (i : Int) < s.bottom - s.rsp → s'.mem (s'.rsp + i) = s.mem (s.rsp + i)) ∧
      (∀ a : Int, s'.bottom ≤ a → s'.mem a = s.mem a) :=
  alloca_step s hinv n

/-- **C04 (alloca size).**  The reserved size is a multiple of 16 and, for requests below 2^32 - 15 (the emitted
    `and $0xfffffff0, %edi` works on 32 bits), at least the requested size and less than 16 bytes more. -/
theorem C04_alloca_size (n : BitVec 64) :
    allocaSize n % 16 = 0 ∧ (n.toNat + 15 < 2 ^ 32 → n.toNat ≤ allocaSize n ∧ allocaSize n < n.toNat + 16) :=
  ⟨allocaSize_mod n, allocaSize_ge n⟩

example : allocaSize 1 = 16 ∧ allocaSize 16 = 16 ∧ allocaSize 17 = 32 ∧ allocaSize 0 = 0 := by decide
/-- the bound is sharp: a request of 2^32 - 15 bytes reserves nothing (documented limit, see evidence) -/
example : allocaSize (BitVec.ofNat 64 (2 ^ 32 - 15)) = 0 := by decide

/-- **C04 (blocks keep their contents).**  Between any two points of a function's execution, what the generated code
    does on its own account — pushes, pops, further allocas with their relocation of temporaries — never writes at or
    above `bottom`: every live alloca block / VLA and every local keeps its bytes unless the program stores to it. -/
theorem C04_alloca_contents (ops : List Op) (s : State) (hinv : Inv s) (hnw : ∀ op ∈ ops, op.isWrite = false)
    (s' : State) (bs : List Block) (h : run s ops = .ok (s', bs)) (a : Int) (ha : s.bottom ≤ a) :
    s'.mem a = s.mem a :=
  run_preserves ops s hinv hnw s' bs h a ha

example : Inv (init 4096 (fun _ => 0)) := ⟨Int.le_refl _, Int.le_refl _, by decide⟩

end Alloca

/-! ## Family 4: lvalue paths (struct_ref, get_struct_member, new_add, gen_addr) -/
section Lval
open ChibiVerif.Lval

/-- **C04 (member / element address).**  For every object (node with address `a`) of a type the parser can build and
    every path of `.name`, `->name` and `[i]` steps: if C designates a sub-object (address `a'`, type `t'`) then the
    parser's elaboration succeeds, has that type, and `gen_addr` of the resulting node computes exactly `a'` — the base
    plus the sum of the member offsets (anonymous structs/unions contribute the offsets along the path that naming
    them would give), indices scaled by `sizeof` of the element (by the run-time `vla_size` for VLA elements), pointer
    steps reading the pointer where it is stored.  If C designates nothing the elaboration reports an error. -/
theorem C04_member_addr (env : Env) (path : List Step) (node : Node) (a : Int)
    (ha : genAddr env node = .ok a) (hwf : node.ty.allWf = true) :
    match designate env a node.ty path with
    | some (a', t') => ∃ n', elabPath node path = .ok n' ∧ n'.ty = t' ∧ genAddr env n' = .ok a'
    | none => ∃ e, elabPath node path = .error e :=
  elabPath_spec env path node a ha hwf

/-- `struct { int a; struct { char b; union { short c; long d; }; }; int e[3]; } s[2]` at 1000 -/
def exTy : Ty :=
  .arr (.agg 40 (.cons (some "a") 0 (.scalar 4)
    (.cons none 8 (.agg 16 (.cons (some "b") 0 (.scalar 1)
        (.cons none 8 (.agg 8 (.cons (some "c") 0 (.scalar 2) (.cons (some "d") 0 (.scalar 8) .nil))) .nil)))
    (.cons (some "e") 24 (.arr (.scalar 4) 3) .nil)))) 2

example : exTy.allWf = true := by decide
/-- `s[1].d` (through two anonymous levels) and `s[1].e[2]` -/
example : (designate ⟨fun _ => 0⟩ 1000 exTy [.index 1, .dot "d"]).map (·.1) = some 1056 := by decide
def exAddr (path : List Step) : Option Int :=
  match elabPath (.var 1000 exTy) path with
  | .ok n => (match genAddr ⟨fun _ => 0⟩ n with | .ok a => some a | .error _ => none)
  | .error _ => none
example : exAddr [.index 1, .dot "d"] = some 1056 := by decide
example : exAddr [.index 1, .dot "e", .index 2] = some 1072 := by decide

/-- **C04 (anonymous members).**  `struct_ref` through anonymous structs/unions yields the offset sum of the explicit
    path, within a number of loop trips bounded by the nesting depth. -/
theorem C04_anonymous_member (env : Env) (node : Node) (nm : String) (s : Nat) (ms : Members) (a : Int)
    (hty : node.ty = .agg s ms) (ha : genAddr env node = .ok a) :
    match ms.locate nm with
    | none => structRef (ms.depth + 1) node nm = .error .noSuchMember
    | some (o, t) => ∃ n', structRef (ms.depth + 1) node nm = .ok n' ∧ n'.ty = t ∧ genAddr env n' = .ok (a + o) :=
  structRef_spec env (ms.depth + 1) node nm s ms a hty (Nat.le_refl _) ha

/-- **C04 (VLA element size).**  The hidden local `vla_size` that scales indices into a VLA holds `sizeof` of the
    VLA type, at every nesting (`int a[n][m][k]`). -/
theorem C04_vla_size (b : Ty) (n : Nat) (h : (Ty.vla b n).wf = true) : (Ty.vla b n).vlaSizeVal = (Ty.vla b n).sizeof :=
  vlaSizeVal_eq_sizeof b n h

example : (Ty.vla (.vla (.arr (.scalar 4) 3) 5) 7).wf = true ∧ (Ty.vla (.vla (.arr (.scalar 4) 3) 5) 7).vlaSizeVal = 420 := by decide

/-- **C04 (the designated object never leaves its object).**  Take an object at `a` whose type satisfies the layout
    invariant `fits` (every member, with its size, inside its aggregate: struct_decl / union_decl, C08; unions with all
    members at 0 and a trailing flexible array member are instances) and any path `a.b[i].c->d …` whose array indices are
    in range (`pathOk`; indices applied to pointers are not restricted).  Then the address `gen_addr` computes for the
    elaborated node is the designated one, and the `sizeof` bytes starting there lie inside the *enclosing object*: the
    root object `[a, a + sizeof)` as long as the path goes through no pointer, afterwards the object the last pointer
    step led to (`*p` for `p->m`, the element for `p[i]`).  No access through an lvalue path reaches a byte of a
    neighbouring object. -/
theorem C04_path_in_bounds (env : Env) (path : List Step) (node : Node) (a : Int)
    (ha : genAddr env node = .ok a) (hwf : node.ty.allWf = true) (hfit : node.ty.fits = true)
    (hok : pathOk env a node.ty path = true) (a' : Int) (t' : Ty) (hd : designate env a node.ty path = some (a', t')) :
    ∃ n', elabPath node path = .ok n' ∧ n'.ty = t' ∧ genAddr env n' = .ok a' ∧
      (enclosing env a node.ty.sizeof a node.ty path).1 ≤ a' ∧
      a' + (t'.sizeof : Int) ≤ (enclosing env a node.ty.sizeof a node.ty path).1 + ((enclosing env a node.ty.sizeof a node.ty path).2 : Int) := by
  have h := C04_member_addr env path node a ha hwf
  rw [hd] at h
  obtain ⟨n', h1, h2, h3⟩ := h
  obtain ⟨b1, b2, _⟩ := designate_bounds env path a node.ty.sizeof a node.ty a' t' (Int.le_refl _) (Int.le_refl _) hfit hok hd
  exact ⟨n', h1, h2, h3, b1, b2⟩

/-- `s[1].e[2]` of `exTy` (80 bytes at 1000): 4 bytes at 1072, inside `[1000, 1080)`; `s[2]` is out of range -/
example : exTy.fits = true ∧ pathOk ⟨fun _ => 0⟩ 1000 exTy [.index 1, .dot "e", .index 2] = true ∧
    (designate ⟨fun _ => 0⟩ 1000 exTy [.index 1, .dot "e", .index 2]).map (fun p => (p.1, p.2.sizeof)) = some (1072, 4) ∧
    enclosing ⟨fun _ => 0⟩ 1000 exTy.sizeof 1000 exTy [.index 1, .dot "e", .index 2] = (1000, 80) ∧
    pathOk ⟨fun _ => 0⟩ 1000 exTy [.index 2, .dot "a"] = false := by decide

/-- `struct N { int k; struct N *next; long v[2]; } n` at 500, `n.next` pointing to 9000: `n.next->v[1]` is 8 bytes at
    9024 inside the pointee `[9000, 9032)` — a pointer step moves the enclosing object -/
def exList : Ty := .agg 32 (.cons (some "k") 0 (.scalar 4) (.cons (some "next") 8 (.ptr (.agg 32 (.cons (some "k") 0 (.scalar 4)
  (.cons (some "next") 8 (.ptr (.scalar 1)) (.cons (some "v") 16 (.arr (.scalar 8) 2) .nil))))) (.cons (some "v") 16 (.arr (.scalar 8) 2) .nil)))
example : (designate ⟨fun _ => 9000⟩ 500 exList [.dot "next", .arrow "v", .index 1]).map (fun p => (p.1, p.2.sizeof)) = some (9024, 8) ∧
    enclosing ⟨fun _ => 9000⟩ 500 exList.sizeof 500 exList [.dot "next", .arrow "v", .index 1] = (9000, 32) ∧
    pathOk ⟨fun _ => 9000⟩ 500 exList [.dot "next", .arrow "v", .index 1] = true := by decide

/-- **C04 (address = base + Σ member offsets + Σ index · element size).**  For a path that goes through no pointer
    (`offsetTerms` is defined: `.name` steps, `[i]` on arrays and VLAs, `->` on a decayed array), with summands `ks` — one
    member offset per `.name` (already the sum along the anonymous levels), `i * sizeof(element)` per `[i]` — `gen_addr`
    of the elaborated node computes `a + Σ ks`, whatever the base address `a` and whatever the memory contains, and the
    root object stays the enclosing object of `C04_path_in_bounds`. -/
theorem C04_path_offset_sum (env : Env) (path : List Step) (node : Node) (a : Int)
    (ha : genAddr env node = .ok a) (hwf : node.ty.allWf = true) (ks : List Int) (t' : Ty)
    (hk : offsetTerms node.ty path = some (ks, t')) :
    ∃ n', elabPath node path = .ok n' ∧ n'.ty = t' ∧ genAddr env n' = .ok (a + ks.sum) ∧
      enclosing env a node.ty.sizeof a node.ty path = (a, node.ty.sizeof) := by
  obtain ⟨d1, d2⟩ := designate_of_offsetTerms env path a node.ty.sizeof a node.ty ks t' hk
  have h := C04_member_addr env path node a ha hwf
  rw [d1] at h
  obtain ⟨n', h1, h2, h3⟩ := h
  exact ⟨n', h1, h2, h3, d2⟩

/-- `s[1].d`: 40·1 (index) + 16 (offset of `d` through two anonymous levels: 8 + 8 + 0); `s[1].e[2]`: 40 + 24 + 8 -/
example : (offsetTerms exTy [.index 1, .dot "d"]).map (·.1) = some [40, 16] ∧
    (offsetTerms exTy [.index 1, .dot "e", .index 2]).map (·.1) = some [40, 24, 8] := by decide

end Lval

/-! ## Family 5: aggregate copies and zero fill -/
section Copy
open ChibiVerif.Copy

/-- **C04 (aggregate copy).**  The byte loop of `store` (struct assignment), `push_struct` (pass by value) and
    `copy_struct_mem` (return by value) copies exactly `size` bytes, byte i to byte i, and writes nothing outside
    `[dst, dst + size)` — for disjoint objects, for `x = x`, and whenever the destination starts below the source. -/
theorem C04_copy (size : Nat) (m : Copy.Mem) (src dst : Int) (h : dst ≤ src ∨ src + size ≤ dst) :
    (∀ i : Nat, i < size → copyBytes m src dst size (dst + i) = m (src + i)) ∧
    (∀ a : Int, a < dst ∨ dst + size ≤ a → copyBytes m src dst size a = m a) :=
  copyBytes_spec size m src dst h

example : (copyBytes (fun a => BitVec.ofInt 8 a) 100 200 3) 202 = 102#8 ∧ (copyBytes (fun a => BitVec.ofInt 8 a) 100 200 3) 203 = 203#8 := by
  decide

/-- **C04 (zero fill).**  ND_MEMZERO zeroes exactly `[rbp + offset, rbp + offset + size)`. -/
theorem C04_memzero (m : Copy.Mem) (rbp offset : Int) (size : Nat) (a : Int) :
    memzero m rbp offset size a = if rbp + offset ≤ a ∧ a < rbp + offset + size then 0 else m a :=
  repStosb_spec size m 0 (rbp + offset) a

end Copy

end ChibiVerif.Props.C04
