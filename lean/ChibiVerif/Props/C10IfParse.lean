/-
C10 — from the tokens of a `#if` / `#elif` line to the group decision.

Property theorems only.  Model: Model/IfParse.lean (eval_const_expr → read_const_expr → expansion → identifiers 0 → conversion →
const_expr / conditional … primary of parse.c as a recursive-descent parser over tokens; the ten binary levels from the table
`Gen/C10IfParseGen.lean` regenerated from parse.c on every run, the other functions pinned by the same translator).
Specification: Spec/IfGrammar.lean (the grammar of C11 6.5 / 6.6 restricted to controlling expressions, as a derivation
relation), Model/PPExpr.lean `ev` (C11 6.10.1p4 value of a tree).  Helper lemmas: Lemmas/IfParseLemmas.lean,
Lemmas/IfParseGrammar.lean, Lemmas/IfParseFuel.lean.

This closes the gap between `C10_ifexpr_partial` / `C10_groups` (Props/C10.lean), which start from an expression tree, and
the token line the preprocessor actually has.
-/
import ChibiVerif.Props.C10
import ChibiVerif.Lemmas.IfParseGrammar
import ChibiVerif.Lemmas.IfParseFuel

namespace ChibiVerif.Props.C10
open ChibiVerif.CondIncl ChibiVerif.Spec.CondIncl ChibiVerif.PPExpr ChibiVerif.IfParse ChibiVerif.Spec.IfGrammar

/-- **C10 (#if parser, totality).**  For every token list:
    (1) every entry point of the recursive-descent parser (conditional, expr, each binary level, each loop), run with any fuel
        above the number of tokens, ends with a tree or a located diagnostic – never "out of fuel" – and the tokens left
        over are no more than the input (so the location is a position inside the line, or its end);
    (2) hence `ifParse` (const_expr + the "extra token" test, fuel = length + 1) is a total function whose outcome is a tree
        or one of the diagnostics of the C code – "expected an expression", "expected ')'", "expected ':'", "extra token", or
        the division by zero that const_expr's evaluation finds before the extra-token test is reached –
        at a token index ≤ length (= length: the EOF token), or `unmodelled` at the index of a token that leaves the
        fragment a controlling expression can contain. -/
theorem C10_ifparse_total (ts : List PTok) :
    (∀ f m, ts.length < f → WB (parseN f m ts) ts.length) ∧
    (match ifParse ts with
     | .ok _ => True
     | .error e => ∃ i, i ≤ ts.length ∧
        (e = .expectedExpr i ∨ e = .expected ")" i ∨ e = .expected ":" i ∨ e = .extraToken i ∨ e = .divZeroFirst i ∨
         e = .unmodelled i)) := by
  refine ⟨fun f m h => parseN_wb f m ts h, ?_⟩
  have h := parseN_wb (ts.length + 1) .cond ts (Nat.lt_succ_self _)
  unfold ifParse
  generalize parseN (ts.length + 1) .cond ts = res at h
  match res, h with
  | .ok (t, []), _ => trivial
  | .ok (t, x :: r), _ =>
    simp only
    by_cases hz : isDivZero (evalTopC [] (ptExpr t)) = true
    · rw [if_pos hz]; exact ⟨ts.length - (x :: r).length, Nat.sub_le _ _, by simp⟩
    · rw [if_neg hz]; exact ⟨ts.length - (x :: r).length, Nat.sub_le _ _, by simp⟩
  | .error (k, r), h =>
    refine ⟨ts.length - r.length, Nat.sub_le _ _, ?_⟩
    cases k with
    | expectedExpr => simp [locate]
    | unmodelled => simp [locate]
    | fuel => exact absurd h.1 (by decide)
    | expected s =>
      have := h.1
      simp only [EKok, Bool.or_eq_true, beq_iff_eq] at this
      rcases this with rfl | rfl <;> simp [locate]

/-- **C10 (#if parser, the fuel is immaterial).**  Any number of unfoldings above the number of tokens gives, for every entry
    point, exactly the result of `length + 1` unfoldings: the parser is a function of the token list alone. -/
theorem C10_ifparse_fuel (ts : List PTok) (m : IfParse.Mode) (f : Nat) (h : ts.length < f) :
    parseN f m ts = parseN (ts.length + 1) m ts :=
  parseN_stable ts m f h

example : ([.num 1 false, .punct "+", .num 2 false] : List PTok).length < 100 := by decide

/-- a line that uses every outcome: a tree; each of the four diagnostics with its position; a token outside the fragment -/
example :
    ifParse [.num 1 false, .punct "+", .num 2 true, .punct "*", .punct "(", .num 3 false, .punct ")"]
      = .ok (.bin .add (.num 1 false) (.bin .mul (.num 2 true) (.num 3 false))) ∧
    ifParse [.num 1 false, .punct "+"] = .error (.expectedExpr 2) ∧
    ifParse [.punct "(", .num 1 false] = .error (.expected ")" 2) ∧
    ifParse [.num 1 false, .punct "?", .num 2 false, .num 3 false] = .error (.expected ":" 3) ∧
    ifParse [.num 1 false, .punct ",", .num 2 false] = .error (.extraToken 1) ∧
    ifParse [.num 1 false, .punct "=", .num 2 false] = .error (.extraToken 1) ∧
    ifParse [.num 1 false, .punct "/", .num 0 false, .punct ")"] = .error (.divZeroFirst 3) ∧
    ifParse [.num 0 false, .punct "&&", .num 1 false, .punct "/", .num 0 false, .punct ")"] = .error (.extraToken 5) ∧
    ifParse [.punct "(", .num 1 false, .punct "=", .num 2 false, .punct ")"] = .error (.unmodelled 2) ∧
    ifParse [.num 1 false, .punct "(", .num 2 false, .punct ")"] = .error (.unmodelled 1) ∧
    ifParse [.other] = .error (.unmodelled 0) := by decide

/-- **C10 (#if parser, the operator table of the code is the table of C11).**  The table regenerated from the ten functions
    logor() … mul() of parse.c has exactly ten levels; every operator a level tests for is an operator of the same level of
    C11 6.5.5–6.5.14 with the node kind that denotes it (`>` / `>=` as `<` / `<=` with the operands exchanged), and every
    operator of C11 is tested for at its level; the unary operators are + - ~ !.  A changed level, spelling, node kind or
    operand order in parse.c changes the generated table and breaks this theorem. -/
theorem C10_ifparse_table :
    (top = 10 ∧ ∀ d ∈ List.range 11, ∀ e ∈ opsAt d, (e.1, c11of e.2.1 e.2.2) ∈ c11Ops d ∧ entryOK e.2.1 e.2.2 = true) ∧
    (∀ d ∈ List.range 11, ∀ e ∈ c11Ops d, ∃ x ∈ opsAt d, x.1 = e.1 ∧ c11of x.2.1 x.2.2 = e.2) ∧
    (∀ e ∈ ChibiVerif.Gen.C10IfParse.unaryOps, e ∈ c11Unary) ∧ (∀ e ∈ c11Unary, e ∈ ChibiVerif.Gen.C10IfParse.unaryOps) :=
  ⟨table_c11, table_c11_complete, unary_c11.1, unary_c11.2⟩

/-- **C10 (#if parser, precedence and associativity).**  Whenever the parser delivers a tree for a token list, the grammar of
    C11 6.5 / 6.6 (Spec/IfGrammar.lean: ten left-associative binary levels, unary operators binding tighter, `?:` with a
    full expression in the middle and a conditional-expression on the right, parentheses) derives exactly that token list
    with exactly that tree, as a constant-expression (= conditional-expression).  Also for every entry point and every
    fuel: the tokens consumed are derived by the entry point's nonterminal. -/
theorem C10_ifparse_precedence (ts : List PTok) (t : PT) (h : ifParse ts = .ok t) : Derives .cond ts t := by
  unfold ifParse at h
  have hs := parseN_snd (ts.length + 1) .cond ts
  generalize parseN (ts.length + 1) .cond ts = res at h hs
  match res, hs with
  | .ok (t', []), hs =>
    simp only [Except.ok.injEq] at h
    subst h
    obtain ⟨pre, hpre, hd⟩ := hs t' [] rfl
    rw [hpre, List.append_nil]; exact hd
  | .ok (t', x :: r), _ => simp only at h; split at h <;> cases h
  | .error (k, r), _ => cases h

theorem C10_ifparse_precedence_entry (f : Nat) (m : IfParse.Mode) (ts : List PTok) : Snd m (parseN f m ts) ts :=
  parseN_snd f m ts

/-- non-vacuity, and what the derivations look like: `*` binds tighter than `+` which binds tighter than `<<`, `<` tighter
    than `==` tighter than `&` `^` `|` `&&` `||`; `-` and `/` associate to the left, `?:` to the right; unary operators bind
    tighter than any binary operator; `a > b` is the tree of `b < a`; `+ a` is the tree of `a` -/
example :
    ifParse [.num 1 false, .punct "<<", .num 2 false, .punct "+", .num 3 false, .punct "*", .num 4 false]
      = .ok (.bin .shl (.num 1 false) (.bin .add (.num 2 false) (.bin .mul (.num 3 false) (.num 4 false)))) ∧
    ifParse [.num 1 false, .punct "||", .num 2 false, .punct "&&", .num 3 false, .punct "|", .num 4 false, .punct "^", .num 5 false,
        .punct "&", .num 6 false, .punct "==", .num 7 false, .punct "<", .num 8 false]
      = .ok (.bin .lor (.num 1 false) (.bin .land (.num 2 false) (.bin .bor (.num 3 false) (.bin .bxor (.num 4 false)
          (.bin .band (.num 5 false) (.bin .eq (.num 6 false) (.bin .lt (.num 7 false) (.num 8 false)))))))) ∧
    ifParse [.num 8 false, .punct "-", .num 4 false, .punct "-", .num 2 false, .punct "/", .num 2 false, .punct "/", .num 1 false]
      = .ok (.bin .sub (.bin .sub (.num 8 false) (.num 4 false)) (.bin .div (.bin .div (.num 2 false) (.num 2 false)) (.num 1 false))) ∧
    ifParse [.num 1 false, .punct "?", .num 2 false, .punct ":", .num 3 false, .punct "?", .num 4 false, .punct ":", .num 5 false]
      = .ok (.cond (.num 1 false) (.num 2 false) (.cond (.num 3 false) (.num 4 false) (.num 5 false))) ∧
    ifParse [.punct "-", .num 1 false, .punct "*", .punct "!", .punct "~", .num 2 false]
      = .ok (.bin .mul (.un .neg (.num 1 false)) (.un .lnot (.un .bnot (.num 2 false)))) ∧
    ifParse [.num 1 false, .punct ">", .punct "+", .num 2 false] = .ok (.bin .lt (.num 2 false) (.num 1 false)) := by decide

/-- **C10 (`defined` before expansion, identifiers 0 after it).**  For every macro-definedness oracle, every macro expander
    and every constant converter:
    (1) a line with `defined X` or `defined ( X )` has the tree of the same line with `1` / `0` – according to the macro
        table as it is *before* expansion – written in its place: `X` is never handed to the expander (C11 6.10.1p1, p4);
    (2) behind the expansion, an identifier that is left – keywords such as `true` or `int` are identifiers here – has the
        tree of the same line with `0` in its place (C11 6.10.1p4). -/
theorem C10_ifparse_defined (isDef : String → Bool) (xp : List Tok → Except Diag (List Tok)) (cv : Tok → Option PTok)
    (x : String) (pre post : List Tok)
    (hpre : ∀ t ∈ pre, t ≠ .ident "defined") (hpost : ∀ t ∈ post, t ≠ .ident "defined") :
    ifTree isDef xp cv (pre ++ .ident "defined" :: .ident x :: post)
      = ifTree isDef xp cv (pre ++ .num (if isDef x then "1" else "0") :: post) ∧
    ifTree isDef xp cv (pre ++ .ident "defined" :: .punct "(" :: .ident x :: .punct ")" :: post)
      = ifTree isDef xp cv (pre ++ .num (if isDef x then "1" else "0") :: post) ∧
    (∀ a b n, afterExpand cv (a ++ .ident n :: b) = afterExpand cv (a ++ .num "0" :: b)) := by
  have hforms := C10_defined_forms isDef x pre post hpre hpost
  have hplain : readDefined isDef (pre ++ .num (if isDef x then "1" else "0") :: post)
      = .ok (pre ++ .num (if isDef x then "1" else "0") :: post) := by
    apply readDefined_no_defined
    intro t ht
    simp only [List.mem_append, List.mem_cons] at ht
    rcases ht with h | rfl | h
    · exact hpre t h
    · intro h; cases h
    · exact hpost t h
  refine ⟨?_, ?_, ?_⟩
  · unfold ifTree; rw [hforms.1, hplain]
  · unfold ifTree; rw [hforms.2, hplain]
  · intro a b n
    have : identToZero (a ++ .ident n :: b) = identToZero (a ++ .num "0" :: b) := by simp [identToZero]
    unfold afterExpand
    rw [this]
    cases a <;> rfl

/-- non-vacuity: with `X` defined as a macro whose expansion would be `0`, `defined X` is still 1 (the expander below
    replaces every `X` by `0`); an undefined `true` is 0; `defined` without a name is rejected -/
example :
    let isDef := fun n => n == "X"
    let xp : List Tok → Except Diag (List Tok) := fun ts => .ok (ts.map (fun t => if t = .ident "X" then .num "0" else t))
    let cv : Tok → Option PTok := fun t => match t with
      | .num "0" => some (.num 0 false) | .num "1" => some (.num 1 false) | .punct s => some (.punct s) | _ => none
    ifTree isDef xp cv [.ident "defined", .ident "X", .punct "&&", .punct "!", .ident "X"]
      = .ok (.bin .land (.num 1 false) (.un .lnot (.num 0 false))) ∧
    ifTree isDef xp cv [.ident "true", .punct "||", .ident "defined", .punct "(", .ident "Y", .punct ")"]
      = .ok (.bin .lor (.num 0 false) (.num 0 false)) ∧
    ifTree isDef xp cv [.ident "defined", .punct "+"] = .error .badDefined ∧
    ifTree isDef xp cv [] = .error .noExpr := by decide

/-- **C10 (#if line ⇒ decision).**  For every macro expander and constant converter, every token line and every macro table:
    outside `ifRegion` – the tree of the line has no comma operator, no `int`-typed intermediate result leaves 32 bits (known
    finding C10-ppif-int-result-shift), and C11 does not leave the behaviour undefined – the decision chibicc takes for the
    line (`defined` → expansion → identifiers 0 → conversion → parse → its own evaluation) is the C11 6.10.1p4 value of the
    tree the C11 grammar assigns to the line (`C10_ifparse_precedence`), including the diagnostics: a line without a tree
    and a division by zero in an evaluated operand are rejected by both. -/
theorem C10_ifline {β : Type} (xp : Defs β → List Tok → Except Diag (List Tok)) (cv : Tok → Option PTok)
    (line : List Tok) (d : Defs β) (h : ifRegion xp cv line d = false) :
    ifEval true xp cv line d = ifEval false xp cv line d := by
  unfold ifEval
  unfold ifRegion at h
  generalize ifTree d.isDef (xp d) cv line = r at h
  match r with
  | .error _ => rfl
  | .ok t =>
    simp only [Bool.or_eq_false_iff] at h
    simp only [if_true, Bool.false_eq_true, if_false]
    exact C10_ifexpr_partial [] t.toExpr h.1.2 h.2

/-- **C10 (#if lines ⇒ groups).**  A translation unit whose controlling expressions are token lines: if no condition that is
    actually *evaluated* (under the macro table of that moment) lies in `ifRegion`, the machine transcribed from preprocess2
    with chibicc's evaluation of the lines selects exactly the text the C11 6.10.1 grammar tree selects when every evaluated
    line has the C11 value of its C11 parse tree. -/
theorem C10_ifline_groups {β : Type} (xp : Defs β → List Tok → Except Diag (List Tok)) (cv : Tok → Option PTok)
    (ls : List (Line (List Tok) β)) (d : Defs β)
    (h : condMachine (guardEv (ifRegion xp cv) .outOfFuel (ifEval true xp cv)) ls d ≠ .error .outOfFuel) :
    condMachine (ifEval true xp cv) ls d = groups (ifEval false xp cv) ls d := by
  rw [condMachine_guard (ifEval true xp cv) (ifEval false xp cv) _ .outOfFuel (fun c d' hP => C10_ifline xp cv c d' hP) ls d h]
  exact C10_groups _ ls d

/-- non-vacuity: `#define A 1 + 2` / `#if A * 3 == 7` (token-level replacement: 1 + 2 * 3) / a / `#elif (1 < 2) << 40` (in
    the region, but not evaluated) / b / `#endif`: the unit satisfies the hypothesis and `a` is selected -/
example :
    let xp : Defs (List Tok) → List Tok → Except Diag (List Tok) := fun d ts =>
      .ok (ts.flatMap (fun t => match t with | .ident n => (d.lookup n).getD [t] | t => [t]))
    let cv : Tok → Option PTok := fun t => match t with
      | .num "1" => some (.num 1 false) | .num "2" => some (.num 2 false) | .num "3" => some (.num 3 false)
      | .num "7" => some (.num 7 false) | .num "40" => some (.num 40 false) | .punct s => some (.punct s) | _ => none
    condMachine (guardEv (ifRegion xp cv) .outOfFuel (ifEval true xp cv))
      [.plain (.define "A" [.num "1", .punct "+", .num "2"]),
       .opens (.ifE [.ident "A", .punct "*", .num "3", .punct "==", .num "7"]), .plain (.text ["a"]),
       .part (.elif [.punct "(", .num "1", .punct "<", .num "2", .punct ")", .punct "<<", .num "40"]), .plain (.text ["b"]),
       .endif false] []
      = .ok ⟨[("A", [.num "1", .punct "+", .num "2"])], [["a"]]⟩ := by decide +kernel

end ChibiVerif.Props.C10
