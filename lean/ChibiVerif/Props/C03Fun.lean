/-
C03 × C01 — **whole functions of an integer fragment of C are compiled correctly**: the composition of C03's statement-level
preservation (`C03_preserve_goto_partial`, expressions abstracted) with C01's expression-level correctness
(`C01_value_full`, one expression) into one theorem about a function body.

Property theorems only.  Model: Model/C03Fun.lean (`FStmt`, `execF`, `compileF`, `runF`); proofs: Lemmas/C03FunMachine.lean
(the machine with statement-level labels is the machine of Model/X86Jump), Lemmas/C03FunSim.lean, Lemmas/C03FunSwitch.lean (the
simulation; the compare ladder of `switch`),
Lemmas/C03FunLabels.lean (freshness of all labels of a function), Lemmas/C03FunFuel.lean (the fuel is irrelevant), Lemmas/C03FunExample.lean (the function of the non-vacuity
examples).
-/
import ChibiVerif.Lemmas.C03FunWhole
import ChibiVerif.Lemmas.C03FunExample
import ChibiVerif.Lemmas.C03FunFuel

namespace ChibiVerif.Props.C03Fun
open ChibiVerif.C03Fun ChibiVerif.C01 ChibiVerif.X86 ChibiVerif.X86J ChibiVerif.Asm ChibiVerif.Spec.IntSpec

/-- **the machine the theorems below speak about is the label machine of C01** (Model/X86Jump, validated against the host
    CPU): for every program over the enlarged label type — `.L.begin.N`, `.L..N`, `.L.return.f` besides C01's four families —
    `runF` computes what `runJ` computes on the program with the statement-level labels renamed to unused `.L.end.M`
    (label resolution by position commutes with a renaming that is injective on the labels of the program). -/
theorem C03_function_machine (p : List FI) (fuel pc : Nat) (s : State) :
    runF fuel p pc s = runJ fuel (p.map (enc (bound p))) pc s :=
  runF_eq_runJ p fuel pc s

/-- **freshness of the labels of a whole function.**  In the code `compileFn` assembles for a function body — one `count()`
    shared by `gen_stmt` (`.L.begin.c`, `.L.else.c`, `.L.end.c`) and `gen_expr` (`.L.false.c`, `.L.true.c`, `.L.else.c`,
    `.L.end.c`), `new_unique_name()` for the break / continue labels, `.L.return.f` — every label is defined exactly once,
    the statement draws exactly `nlblF body` numbers from `count()`, and the counters only grow.  From `C01_labels_fresh`
    (`compileJ_facts`) at every expression hole and the monotonicity of the two counters across statements. -/
theorem C03_function_labels_fresh (tys : List ITy) (off toff : Nat → Int) (R : ITy) (c0 u0 : Nat) (body : FStmt)
    (prog : List FI) (K c1 u1 : Nat) (hc : compileFn tys off toff R c0 u0 body = some (prog, K, c1, u1)) :
    (defsF prog).Nodup ∧ c1 = c0 + nlblF body ∧ u0 ≤ u1 :=
  compileFn_fresh tys off toff R c0 u0 body prog K c1 u1 hc

/-- **the fuel of the abstract machine is only a bound on the recursion depth**: an answer `done o σ'` obtained with fuel `n`
    is the answer with every larger fuel, and two terminating runs of the same function from the same store have the same
    outcome and the same store — so "the C11 abstract machine terminates with outcome `o` and store `σ'`" in the theorem below
    is a statement about the function and the store, not about the fuel. -/
theorem C03_function_fuel_irrelevant (R : ITy) (s : FStmt) (σ σ1 σ2 : Env) (n1 n2 : Nat) (o1 o2 : Out)
    (h1 : execF R n1 s σ = .done o1 σ1) (h2 : execF R n2 s σ = .done o2 σ2) :
    (∀ n, n1 ≤ n → execF R n s σ = .done o1 σ1) ∧ o1 = o2 ∧ σ1.vals = σ2.vals ∧ σ1.tys = σ2.tys :=
  ⟨fun _ hn => execF_le R hn h1, execF_unique R h1 h2⟩

example : execF .i64 40 exBody exEnv = .done (.ret 7) ⟨[.i8, .u32], [0, 15]⟩ ∧
    execF .i64 25 exBody exEnv = .done (.ret 7) ⟨[.i8, .u32], [0, 15]⟩ := ⟨rfl, rfl⟩

/-- the statement without the restriction to conflict-free expressions: every function `compileFn` assembles, every
    terminating execution of the abstract machine.  NOT expected to hold: an expression with unsequenced conflicting accesses
    (`(v0 = 1) + v0`) has undefined behaviour in C11 (6.5p2); `evalE` fixes left-to-right evaluation for it while `gen_expr`
    generates the right-hand operand first (C01, `noConflict`).  The theorem below is this statement under `noConflictF body`. -/
def C03_function_correct_Statement : Prop :=
  ∀ (tys : List ITy) (off toff : Nat → Int) (R : ITy) (c0 u0 : Nat) (body : FStmt) (prog : List FI) (K c1 u1 : Nat),
    compileFn tys off toff R c0 u0 body = some (prog, K, c1, u1) →
    ∀ (σ σ' : Env), σ.tys = tys → ∀ (fuel : Nat) (o : Out), execF R fuel body σ = .done o σ' →
    ∀ (m : State), FrameX σ off toff K (depthF body) m →
      ∃ fuel' m', runF fuel' prog 0 m = some m' ∧ (∀ v, o = .ret v → Represents R (m'.get .rax) v) ∧
        m'.get .rsp = m.get .rsp ∧ m'.get .rbp = m.get .rbp ∧ FrameX σ' off toff K (depthF body) m'

/-- **whole-function correctness for the integer fragment** (`_partial`: the fragment is the decidable predicate
    "`compileFn` assembles the body and every full expression is conflict-free").

    A function body built from expression statements, compound statements, `if`/`else`, `while`, `for (init; c; inc)`,
    `do … while`, `switch` with `case` / `default` labels and GNU case ranges (fall-through, `default` anywhere, `break`,
    constants negative or above 32 bits, controlling expression of any of the nine integer types), `break`, `continue` and `return e` over the expressions `E` of C01 (literals, local integer variables of
    the nine integer types, casts, unary and binary operators, `&&` `||` `?:` `,`, `=`, the ten `op=`, `++` `--`), compiled as
    chibicc compiles it (`compileFn`: `gen_stmt`'s skeleton with every expression hole filled by `gen_expr`'s code `compileJ`,
    truth tests `cmp_zero; je/jne`, the compare ladder of a `switch` in `case_next` order (`cmp $c, %eax|%rax; je`, for a range the unsigned
    distance test `sub $lo; cmp $(hi-lo); jbe`), one `count()`
    for statements and expressions, `new_unique_name()` for break / continue / case labels, the hidden temporaries numbered through the function), runs on the label machine from the first line of the body
    (`%rsp`, `%rbp` and the frame as the prologue leaves them: `FrameX`, `depthF body` free stack slots) to the line after
    `.L.return.f:` — for EVERY such function, EVERY initial store `σ` and EVERY outcome of the C11 abstract machine `execF`
    (Model/C03Fun.lean: the big-step machine of Spec/ControlSpec with `evalE` for the oracle): whenever `execF` terminates
    within some fuel with outcome `o` and store `σ'`, the machine terminates (`runF` with some fuel returns a state), without
    a CPU fault, without a jump on undefined flags or to a missing label, `%rsp` / `%rbp` unchanged, **the frame holding
    `σ'`**, and if the outcome is `return` of the value `v` (the C11 value of the operand converted to the return type `R`),
    **`%rax` represents `v` in `R`**.  (Outcome `normal`: control fell off the end of the body and reaches `.L.return` with an
    unspecified `%rax`, as C11 6.9.1p12 allows.)

    By induction on the fuel of `execF` (Lemmas/C03FunSim.lean `sim`); every expression hole is C01's `value_j` (the induction
    behind `C01_value_full`), wherever the code sits (`JRun`); labels resolve by position under `C03_function_labels_fresh`;
    a loop's jump back re-enters the same code with less fuel (for `for`: inner induction on the fuel, the first clause
    having been executed once).

    NOT covered: `goto` / labels, a `switch` whose body is not a list of statements each labelled at most once
    at its head (`switchOK`: the abstract machine answers `unsupported`, e.g. Duff's device — the CODE model `compileF` covers
    those too and is tied by text), a declaration as first clause of a `for`, declarations with initializers, calls, parameters and the prologue / epilogue (`push %rbp … ret`), non-integer types, pointers /
    arrays / structs (C01's `compileA` fragment), globals; expressions with unsequenced conflicting accesses (C11 6.5p2: UB);
    divergence and undefined behaviour of the source (nothing is claimed when `execF` does not terminate with `done`). -/
theorem C03_function_correct_partial (tys : List ITy) (off toff : Nat → Int) (R : ITy) (c0 u0 : Nat) (body : FStmt)
    (prog : List FI) (K c1 u1 : Nat)
    (hc : compileFn tys off toff R c0 u0 body = some (prog, K, c1, u1)) (hnc : noConflictF body = true)
    (σ σ' : Env) (hσ : σ.tys = tys) (fuel : Nat) (o : Out) (hx : execF R fuel body σ = .done o σ')
    (m : State) (hf : FrameX σ off toff K (depthF body) m) :
    ∃ fuel' m', runF fuel' prog 0 m = some m' ∧ (∀ v, o = .ret v → Represents R (m'.get .rax) v) ∧
      m'.get .rsp = m.get .rsp ∧ m'.get .rbp = m.get .rbp ∧ FrameX σ' off toff K (depthF body) m' := by
  obtain ⟨fuel', m', h1, h2, h3, h4, h5, _⟩ := fun_core tys off toff R c0 u0 body prog K c1 u1 hc hnc σ σ' hσ fuel o hx m hf
    (fun _ => False) (fun _ h => h.elim)
  exact ⟨fuel', m', h1, h2, h3, h4, h5⟩

/-- **the function does not touch the caller's part of the stack**: with the frame chibicc lays out (`layoutOK`: variables and
    hidden temporaries inside `[%rbp - N, %rbp)`, what the check validates on chibicc's real offsets; `%rbp = %rsp + N` as the
    prologue `push %rbp; mov %rsp, %rbp; sub $N, %rsp` leaves them) every byte at or above `%rbp` — the saved `%rbp`, the
    return address, the caller's frame — holds after the run what it held before (so the epilogue `mov %rbp, %rsp; pop %rbp;
    ret` restores the caller's `%rsp`, `%rbp` and returns to the caller), besides the conclusions of
    `C03_function_correct_partial`. -/
theorem C03_function_frame_preserved (tys : List ITy) (off toff : Nat → Int) (R : ITy) (c0 u0 : Nat) (body : FStmt)
    (prog : List FI) (K c1 u1 : Nat)
    (hc : compileFn tys off toff R c0 u0 body = some (prog, K, c1, u1)) (hnc : noConflictF body = true)
    (σ σ' : Env) (hσ : σ.tys = tys) (fuel : Nat) (o : Out) (hx : execF R fuel body σ = .done o σ')
    (m : State) (hf : FrameX σ off toff K (depthF body) m)
    (N : Int) (hN : 0 ≤ N) (hlay : layoutOK tys off toff K N = true)
    (hbp : ((m.get .rbp).toNat : Int) = (m.get .rsp).toNat + N) :
    ∃ fuel' m', runF fuel' prog 0 m = some m' ∧ (∀ v, o = .ret v → Represents R (m'.get .rax) v) ∧
      m'.get .rsp = m.get .rsp ∧ m'.get .rbp = m.get .rbp ∧ FrameX σ' off toff K (depthF body) m' ∧
      ∀ a : BitVec 64, (m.get .rbp).toNat ≤ a.toNat → m'.mem a = m.mem a :=
  fun_core tys off toff R c0 u0 body prog K c1 u1 hc hnc σ σ' hσ fuel o hx m hf (fun a => (m.get .rbp).toNat ≤ a.toNat)
    (fun a ha => keep_above_bp tys off toff K N hN hlay (m.get .rbp) (m.get .rsp) hbp a ha)

/-- non-vacuity of the layout hypotheses: the frame of the examples (`N` = 0x1000) -/
example : layoutOK exEnv.tys exXOff exXToff 6 0x1000 = true ∧
    ((exXState.get .rbp).toNat : Int) = (exXState.get .rsp).toNat + 0x1000 := ⟨by decide, by decide⟩

/-- non-vacuity: `exBody` with `signed char v0 = -3`, `unsigned v1 = 7` in that frame: it compiles (six hidden temporaries,
    `count()` 1 … 7, unique names 2 … 12), is conflict-free, and the abstract machine returns 7 (`long`) with `v0 = 0`, `v1 = 15`
    after three iterations of the `while` (one ended by `continue`), one of the `do`, two of the `for` (left by `break`), and the
    `switch` entered at `case 5 ... 9` (after `default`, before a `break`). -/
example : ∃ prog, compileFn exEnv.tys exXOff exXToff .i64 1 2 exBody = some (prog, 6, 8, 13) ∧ noConflictF exBody = true ∧
    execF .i64 40 exBody exEnv = .done (.ret 7) ⟨[.i8, .u32], [0, 15]⟩ ∧
    FrameX exEnv exXOff exXToff 6 (depthF exBody) exXState :=
  ⟨_, rfl, rfl, rfl, exFFrame⟩

/-- … and the machine, run by the kernel on that code from that state, stops with `%rax` = 7 and `v1` = 15 in the frame -/
example : ((compileFn exEnv.tys exXOff exXToff .i64 1 2 exBody).bind fun r =>
    (runF 1000 r.1 0 exXState).map fun s => (s.get .rax, s.read32 0x1ff8#64)) = some (7#64, 15#32) := by decide +kernel

end ChibiVerif.Props.C03Fun
