/-
C03 × C01 — **whole functions of an integer fragment of C are compiled correctly**: the composition of C03's statement-level
preservation (`C03_preserve_goto_partial`, expressions abstracted) with C01's expression-level correctness
(`C01_value_full`, one expression) into one theorem about a function body.

Property theorems only.  Model: Model/C03Fun.lean (`FStmt`, `execF`, `compileF`, `runF`); proofs: Lemmas/C03FunMachine.lean
(the machine with statement-level labels is the machine of Model/X86Jump), Lemmas/C03FunSim.lean, Lemmas/C03FunSwitch.lean (the
simulation; the compare ladder of `switch`),
Lemmas/C03FunLabels.lean (freshness of all labels of a function), Lemmas/C03FunFuel.lean (the fuel is irrelevant), Lemmas/C03FunExample.lean (the function of the non-vacuity
examples).
-/
import ChibiVerif.Lemmas.C03FunSwitch
import ChibiVerif.Lemmas.C03FunLabels
import ChibiVerif.Lemmas.C03FunExample
import ChibiVerif.Lemmas.C03FunFuel

namespace ChibiVerif.Props.C03Fun
open ChibiVerif.C03Fun ChibiVerif.C01 ChibiVerif.X86 ChibiVerif.X86J ChibiVerif.Asm ChibiVerif.Spec.IntSpec

/-- **the machine the theorems below speak about is the label machine of C01** (Model/X86Jump, validated against the host
    CPU): for every program over the enlarged label type — `.L.begin.N`, `.L..N`, `.L.return.f` besides C01's four families —
    `runF` computes what `runJ` computes on the program with the statement-level labels renamed to unused `.L.end.M`
    (label resolution by position commutes with a renaming that is injective on the labels of the program). -/
theorem C03_function_machine (p : List FI) (fuel pc : Nat) (s : State) :
    runF fuel p pc s = runJ fuel (p.map (enc (bound p))) pc s :=
  runF_eq_runJ p fuel pc s

/-- **freshness of the labels of a whole function.**  In the code `compileFn` assembles for a function body — one `count()`
    shared by `gen_stmt` (`.L.begin.c`, `.L.else.c`, `.L.end.c`) and `gen_expr` (`.L.false.c`, `.L.true.c`, `.L.else.c`,
    `.L.end.c`), `new_unique_name()` for the break / continue labels, `.L.return.f` — every label is defined exactly once,
    the statement draws exactly `nlblF body` numbers from `count()`, and the counters only grow.  From `C01_labels_fresh`
    (`compileJ_facts`) at every expression hole and the monotonicity of the two counters across statements. -/
theorem C03_function_labels_fresh (tys : List ITy) (off toff : Nat → Int) (R : ITy) (c0 u0 : Nat) (body : FStmt)
    (prog : List FI) (K c1 u1 : Nat) (hc : compileFn tys off toff R c0 u0 body = some (prog, K, c1, u1)) :
    (defsF prog).Nodup ∧ c1 = c0 + nlblF body ∧ u0 ≤ u1 :=
  compileFn_fresh tys off toff R c0 u0 body prog K c1 u1 hc

/-- **the fuel of the abstract machine is only a bound on the recursion depth**: an answer `done o σ'` obtained with fuel `n`
    is the answer with every larger fuel, and two terminating runs of the same function from the same store have the same
    outcome and the same store — so "the C11 abstract machine terminates with outcome `o` and store `σ'`" in the theorem below
    is a statement about the function and the store, not about the fuel. -/
theorem C03_function_fuel_irrelevant (R : ITy) (s : FStmt) (σ σ1 σ2 : Env) (n1 n2 : Nat) (o1 o2 : Out)
    (h1 : execF R n1 s σ = .done o1 σ1) (h2 : execF R n2 s σ = .done o2 σ2) :
    (∀ n, n1 ≤ n → execF R n s σ = .done o1 σ1) ∧ o1 = o2 ∧ σ1.vals = σ2.vals ∧ σ1.tys = σ2.tys :=
  ⟨fun _ hn => execF_le R hn h1, execF_unique R h1 h2⟩

example : execF .i64 40 exBody exEnv = .done (.ret 7) ⟨[.i8, .u32], [0, 15]⟩ ∧
    execF .i64 25 exBody exEnv = .done (.ret 7) ⟨[.i8, .u32], [0, 15]⟩ := ⟨rfl, rfl⟩

/-- **whole-function correctness for the integer fragment** (`_partial`: the fragment is the decidable predicate
    "`compileFn` assembles the body and every full expression is conflict-free").

    A function body built from expression statements, compound statements, `if`/`else`, `while`, `for (init; c; inc)`,
    `do … while`, `switch` with `case` / `default` labels (fall-through, `default` anywhere, `break`, constants negative or above
    32 bits, controlling expression of any of the nine integer types), `break`, `continue` and `return e` over the expressions `E` of C01 (literals, local integer variables of
    the nine integer types, casts, unary and binary operators, `&&` `||` `?:` `,`, `=`, the ten `op=`, `++` `--`), compiled as
    chibicc compiles it (`compileFn`: `gen_stmt`'s skeleton with every expression hole filled by `gen_expr`'s code `compileJ`,
    truth tests `cmp_zero; je/jne`, the compare ladder `cmp $c, %eax|%rax; je` of a `switch` in `case_next` order, one `count()`
    for statements and expressions, `new_unique_name()` for break / continue / case labels, the hidden temporaries numbered through the function), runs on the label machine from the first line of the body
    (`%rsp`, `%rbp` and the frame as the prologue leaves them: `FrameX`, `depthF body` free stack slots) to the line after
    `.L.return.f:` — for EVERY such function, EVERY initial store `σ` and EVERY outcome of the C11 abstract machine `execF`
    (Model/C03Fun.lean: the big-step machine of Spec/ControlSpec with `evalE` for the oracle): whenever `execF` terminates
    within some fuel with outcome `o` and store `σ'`, the machine terminates (`runF` with some fuel returns a state), without
    a CPU fault, without a jump on undefined flags or to a missing label, `%rsp` / `%rbp` unchanged, **the frame holding
    `σ'`**, and if the outcome is `return` of the value `v` (the C11 value of the operand converted to the return type `R`),
    **`%rax` represents `v` in `R`**.  (Outcome `normal`: control fell off the end of the body and reaches `.L.return` with an
    unspecified `%rax`, as C11 6.9.1p12 allows.)

    By induction on the fuel of `execF` (Lemmas/C03FunSim.lean `sim`); every expression hole is C01's `value_j` (the induction
    behind `C01_value_full`), wherever the code sits (`JRun`); labels resolve by position under `C03_function_labels_fresh`;
    a loop's jump back re-enters the same code with less fuel (for `for`: inner induction on the fuel, the first clause
    having been executed once).

    NOT covered: `goto` / labels, GNU case ranges, a `switch` whose body is not a list of statements each labelled at most once
    at its head (`switchOK`: the abstract machine answers `unsupported`, e.g. Duff's device — the CODE model `compileF` covers
    those too and is tied by text), a declaration as first clause of a `for`, declarations with initializers, calls, parameters and the prologue / epilogue (`push %rbp … ret`), non-integer types, pointers /
    arrays / structs (C01's `compileA` fragment), globals; expressions with unsequenced conflicting accesses (C11 6.5p2: UB);
    divergence and undefined behaviour of the source (nothing is claimed when `execF` does not terminate with `done`). -/
theorem C03_function_correct_partial (tys : List ITy) (off toff : Nat → Int) (R : ITy) (c0 u0 : Nat) (body : FStmt)
    (prog : List FI) (K c1 u1 : Nat)
    (hc : compileFn tys off toff R c0 u0 body = some (prog, K, c1, u1)) (hnc : noConflictF body = true)
    (σ σ' : Env) (hσ : σ.tys = tys) (fuel : Nat) (o : Out) (hx : execF R fuel body σ = .done o σ')
    (m : State) (hf : FrameX σ off toff K (depthF body) m) :
    ∃ fuel' m', runF fuel' prog 0 m = some m' ∧ (∀ v, o = .ret v → Represents R (m'.get .rax) v) ∧
      m'.get .rsp = m.get .rsp ∧ m'.get .rbp = m.get .rbp ∧ FrameX σ' off toff K (depthF body) m' := by
  have hfresh := (compileFn_fresh tys off toff R c0 u0 body prog K c1 u1 hc).1
  simp only [compileFn, Option.map_eq_some_iff, Prod.mk.injEq] at hc
  obtain ⟨⟨code, K', c1', u1'⟩, hcF, rfl, hK', _, _⟩ := hc
  have hK' : K' = K := hK'
  subst hK'
  let g : Cfg := { tys := tys, off := off, toff := toff, K := K', R := R, C := bound (code ++ [FI.lbl (.s .ret)]),
                   q := (code ++ [FI.lbl (.s .ret)]).map (enc (bound (code ++ [FI.lbl (.s .ret)]))), retPos := code.length,
                   sp := m.get .rsp, bp := m.get .rbp, B := (m.get .rsp).toNat, D := depthF body }
  have ok : g.OK := by
    refine ⟨nodup_enc _ hfresh, ?_, ?_, hf.1, Nat.le_refl _⟩
    · show ((code ++ [FI.lbl (.s .ret)]).map (enc _))[code.length]? = _
      simp [enc, g]
    · have := hf.2.1; rw [hσ] at this; exact this
  have hm : MInv g σ m := ⟨hσ, rfl, rfl, hf.2.2⟩
  have hat : At g.q 0 (code.map (enc g.C)) := by
    have := At_mid [] (code.map (enc g.C)) ([FI.lbl (.s .ret)].map (enc g.C))
    simpa [g] using this
  have hret : g.q[code.length]? = some (.lbl (encL g.C (.s .ret))) := ok.ret
  obtain ⟨m', r, hm', hr⟩ := sim g ok fuel body σ o σ' hx ⟨none, none, false⟩ 0 c0 u0 code K' c1' u1' hcF (Nat.le_refl _) hnc (Nat.le_refl _) 0
    code.length code.length hat ⟨fun b h => by simp at h, fun ct h => by simp at h⟩ m hm
  have htgt : tgt g o (0 + code.length) code.length code.length = code.length := by cases o <;> simp [tgt, g]
  rw [htgt] at r
  obtain ⟨fuel', hrun⟩ := (r.trans (lbl_step hret m')).runJ (by simp [g])
  refine ⟨fuel', m', ?_, hr, hm'.2.1, hm'.2.2.1, ?_⟩
  · rw [runF_eq_runJ]; exact hrun
  · refine ⟨by rw [hm'.2.1]; exact hf.1, ?_, hm'.2.2.2⟩
    rw [hm'.1, hm'.2.1, hm'.2.2.1]
    have := hf.2.1; rw [hσ] at this; exact this

/-- non-vacuity: `exBody` with `signed char v0 = -3`, `unsigned v1 = 7` in that frame: it compiles (six hidden temporaries,
    `count()` 1 … 7, unique names 2 … 12), is conflict-free, and the abstract machine returns 7 (`long`) with `v0 = 0`, `v1 = 15`
    after three iterations of the `while` (one ended by `continue`), one of the `do`, two of the `for` (left by `break`), and the
    `switch` entered at `case 5` (after `default`, before a `break`). -/
example : ∃ prog, compileFn exEnv.tys exXOff exXToff .i64 1 2 exBody = some (prog, 6, 8, 13) ∧ noConflictF exBody = true ∧
    execF .i64 40 exBody exEnv = .done (.ret 7) ⟨[.i8, .u32], [0, 15]⟩ ∧
    FrameX exEnv exXOff exXToff 6 (depthF exBody) exXState :=
  ⟨_, rfl, rfl, rfl, exFFrame⟩

/-- … and the machine, run by the kernel on that code from that state, stops with `%rax` = 7 and `v1` = 15 in the frame -/
example : ((compileFn exEnv.tys exXOff exXToff .i64 1 2 exBody).bind fun r =>
    (runF 1000 r.1 0 exXState).map fun s => (s.get .rax, s.read32 0x1ff8#64)) = some (7#64, 15#32) := by decide +kernel

end ChibiVerif.Props.C03Fun
