/-
C10 — the `#if` token-to-tree parser is COMPLETE with respect to the C11 grammar (the converse of `C10_ifparse_precedence`,
Props/C10IfParse.lean), hence the parser and the grammar are the same relation, the grammar is unambiguous, and a line the
parser rejects has no C11 parse.

Property theorems only.  Model: Model/IfParse.lean; specification: Spec/IfGrammar.lean (written from C11 6.5 / 6.6, not from
parse.c); lemmas: Lemmas/IfParseComplete.lean; printer: Model/IfUnparse.lean (minimal parentheses), Lemmas/IfUnparseLemmas.lean.  Soundness alone is satisfied by a parser that rejects every line, or that
rejects `1 - 2 - 3`; completeness is what rules that out.
-/
import ChibiVerif.Props.C10IfParse
import ChibiVerif.Lemmas.IfParseComplete
import ChibiVerif.Lemmas.IfUnparseLemmas

namespace ChibiVerif.Props.C10
open ChibiVerif.CondIncl ChibiVerif.Spec.CondIncl ChibiVerif.PPExpr ChibiVerif.IfParse ChibiVerif.Spec.IfGrammar

/-- **C10 (#if parser, completeness).**  Every token list the grammar of C11 6.5 / 6.6 (Spec/IfGrammar.lean) derives as a
    constant-expression with tree `t` is accepted by the parser transcribed from parse.c, with exactly the tree `t` – no
    diagnostic, no token left over, nothing outside the modelled fragment, and with the fuel `length + 1` that `ifParse`
    uses: the parser rejects no valid controlling expression and associates every one as C11 does. -/
theorem C10_ifparse_complete (ts : List PTok) (t : PT) (h : Derives .cond ts t) : ifParse ts = .ok t := by
  unfold ifParse
  rw [derives_parseN h]

/-- non-vacuity: a derivation of `1 - 2 - 3` by the left-recursive rule of 6.5.6 (tree `(1 - 2) - 3`) -/
example : Derives .cond [.num 1 false, .punct "-", .num 2 false, .punct "-", .num 3 false]
    (.bin .sub (.bin .sub (.num 1 false) (.num 2 false)) (.num 3 false)) := by
  have n (v : Nat) : ∀ d, Derives (.lvl d) [.num v false] (.num v false) := by
    intro d; induction d with
    | zero => exact .num v false
    | succ d ih => exact .up ih
  have h12 : Derives (.lvl 2) ([.num 1 false] ++ .punct "-" :: [.num 2 false]) (binTree .sub (.num 1 false) (.num 2 false)) :=
    .binop (d := 1) (by decide) (n 1 2) (n 2 1)
  have h123 := Derives.binop (d := 1) (s := "-") (op := .sub) (by decide) h12 (n 3 1)
  have up8 : ∀ k, Derives (.lvl (2 + k)) _ _ := fun k => by
    induction k with
    | zero => exact h123
    | succ k ih => exact .up ih
  exact .condUp (up8 8)

/-- **C10 (#if parser = C11 grammar).**  The parser delivers the tree `t` for a token list exactly when the C11 grammar derives
    the list as a constant-expression with tree `t`. -/
theorem C10_ifparse_iff (ts : List PTok) (t : PT) : ifParse ts = .ok t ↔ Derives .cond ts t :=
  ⟨C10_ifparse_precedence ts t, C10_ifparse_complete ts t⟩

/-- **C10 (the grammar of controlling expressions is unambiguous).**  A token list has at most one tree as a
    constant-expression of C11 6.5 / 6.6: precedence and associativity are determined by the grammar alone. -/
theorem C10_ifparse_unique (ts : List PTok) (t t' : PT) (h : Derives .cond ts t) (h' : Derives .cond ts t') : t = t' := by
  have e := C10_ifparse_complete ts t h
  rw [C10_ifparse_complete ts t' h'] at e
  exact (Except.ok.inj e).symm

/-- **C10 (a rejected line has no C11 parse).**  Whatever diagnostic the parser ends with – "expected an expression",
    "expected ')'", "expected ':'", "extra token", the division by zero found before the extra-token test, or a token outside
    the modelled fragment – the C11 grammar derives no tree for the line: no valid controlling expression is rejected, and
    the fragment left out of the model (`unmodelled`) contains no valid controlling expression. -/
theorem C10_ifparse_reject (ts : List PTok) (e : PErr) (h : ifParse ts = .error e) : ¬ ∃ t, Derives .cond ts t := by
  rintro ⟨t, hd⟩
  rw [C10_ifparse_complete ts t hd] at h
  cases h

/-- **C10 (completeness at the inner entry points).**  An `expression` of C11 6.5.17 followed by a token that cannot continue
    it (`)` and `:` are such tokens) is consumed exactly, with its tree, by expr() for every sufficiently large fuel – the
    form in which completeness is used inside parentheses and in the middle operand of `?:`. -/
theorem C10_ifparse_complete_expr (ts rest : List PTok) (t : PT) (h : Derives .expr ts t) (hs : Stop exprS rest) :
    ∃ f0, ∀ f, f0 ≤ f → parseN f .expr (ts ++ rest) = .ok (t, rest) :=
  derives_parseN_expr h hs

example : Stop exprS [.punct ")"] ∧ Stop exprS [.punct ":", .num 1 false] ∧ Stop exprS [] ∧ ¬ Stop exprS [.punct "+"] := by
  refine ⟨Stop.cons sep_facts.1 _, Stop.cons sep_facts.2.1 _, fun _ _ he => (by cases he), fun h => ?_⟩
  exact absurd (h "+" [] rfl) (by decide)

/-- non-vacuity of `C10_ifparse_iff` / `_unique` / `_reject` on the lines of the brief: `1 - 2 - 3` is `(1 - 2) - 3` and NOT
    `1 - (2 - 3)`; `a ? b : c ? d : e` is `a ? b : (c ? d : e)` and not `(a ? b : c) ? d : e`; `! defined X && (1 << 2) > 3`
    (after `defined X` → 0) is `(!0) && (3 < (1 << 2))`; a rejected line has no derivation -/
example :
    Derives .cond [.num 1 false, .punct "-", .num 2 false, .punct "-", .num 3 false]
      (.bin .sub (.bin .sub (.num 1 false) (.num 2 false)) (.num 3 false)) ∧
    ¬ Derives .cond [.num 1 false, .punct "-", .num 2 false, .punct "-", .num 3 false]
      (.bin .sub (.num 1 false) (.bin .sub (.num 2 false) (.num 3 false))) ∧
    Derives .cond [.num 1 false, .punct "?", .num 2 false, .punct ":", .num 3 false, .punct "?", .num 4 false, .punct ":", .num 5 false]
      (.cond (.num 1 false) (.num 2 false) (.cond (.num 3 false) (.num 4 false) (.num 5 false))) ∧
    ¬ Derives .cond [.num 1 false, .punct "?", .num 2 false, .punct ":", .num 3 false, .punct "?", .num 4 false, .punct ":", .num 5 false]
      (.cond (.cond (.num 1 false) (.num 2 false) (.num 3 false)) (.num 4 false) (.num 5 false)) ∧
    Derives .cond [.punct "!", .num 0 false, .punct "&&", .punct "(", .num 1 false, .punct "<<", .num 2 false, .punct ")",
        .punct ">", .num 3 false]
      (.bin .land (.un .lnot (.num 0 false)) (.bin .lt (.num 3 false) (.bin .shl (.num 1 false) (.num 2 false)))) ∧
    (¬ ∃ t, Derives .cond [.num 1 false, .punct "-", .punct "-"] t) ∧
    (¬ ∃ t, Derives .cond [.num 1 false, .punct "?", .punct ":", .num 2 false] t) ∧
    (¬ ∃ t, Derives .cond [.num 1 false, .punct ",", .num 2 false] t) := by
  refine ⟨(C10_ifparse_iff _ _).1 (by decide), fun h => ?_, (C10_ifparse_iff _ _).1 (by decide), fun h => ?_,
    (C10_ifparse_iff _ _).1 (by decide), ?_, ?_, ?_⟩
  · exact absurd (C10_ifparse_complete _ _ h) (by decide)
  · exact absurd (C10_ifparse_complete _ _ h) (by decide)
  · exact C10_ifparse_reject _ (.expectedExpr 3) (by decide)
  · exact C10_ifparse_reject _ (.unmodelled 1) (by decide)
  · exact C10_ifparse_reject _ (.extraToken 1) (by decide)

/-- **C10 (#if parser, print-and-parse round trip).**  For every tree `t` of the shape parse.c builds (`WF`: no node for unary
    `+`, no node kinds for `>` `>=`), the line `unparseTop t` – `t` printed with the minimal parentheses of C11 6.5
    (Model/IfUnparse.lean: an operand is parenthesised exactly when its outermost construct binds weaker than its position
    allows) – is derived by the C11 grammar with tree `t`, is parsed back to exactly `t` by `ifParse`, and by conditional()
    with every fuel above the number of tokens (the bound of `C10_ifparse_fuel`), leaving no token. -/
theorem C10_ifparse_unparse (t : PT) (h : t.WF = true) :
    Derives .cond (unparseTop t) t ∧ ifParse (unparseTop t) = .ok t ∧
    ∀ f, (unparseTop t).length < f → parseN f .cond (unparseTop t) = .ok (t, []) := by
  have hd := derives_unparseTop t h
  refine ⟨hd, C10_ifparse_complete _ _ hd, fun f hf => ?_⟩
  rw [C10_ifparse_fuel _ _ f hf]
  exact derives_parseN hd

/-- **C10 (the image of the #if parser).**  The trees `ifParse` delivers are exactly the well-formed ones: it builds no
    other shape (soundness + the grammar's tree conventions), and every well-formed tree is delivered for its printing. -/
theorem C10_ifparse_image (t : PT) : (∃ ts, ifParse ts = .ok t) ↔ t.WF = true :=
  ⟨fun ⟨ts, h⟩ => derives_wf (C10_ifparse_precedence ts t h), fun h => ⟨unparseTop t, (C10_ifparse_unparse t h).2.1⟩⟩

/-- non-vacuity, and what minimal parentheses look like: `(1 - 2) - 3` prints as `1 - 2 - 3`, `1 - (2 - 3)` keeps its
    parentheses; `a ? b : (c ? d : e)` needs none, `(a ? b : c) ? d : e` does; `!0 && 3 < 1 << 2`; a comma at the top, a
    conditional under a unary operator and a `||` under `&&` are parenthesised; the middle operand of `?:` is not -/
example :
    unparseTop (.bin .sub (.bin .sub (.num 1 false) (.num 2 false)) (.num 3 false))
      = [.num 1 false, .punct "-", .num 2 false, .punct "-", .num 3 false] ∧
    unparseTop (.bin .sub (.num 1 false) (.bin .sub (.num 2 false) (.num 3 false)))
      = [.num 1 false, .punct "-", .punct "(", .num 2 false, .punct "-", .num 3 false, .punct ")"] ∧
    unparseTop (.cond (.num 1 false) (.num 2 false) (.cond (.num 3 false) (.num 4 false) (.num 5 false)))
      = [.num 1 false, .punct "?", .num 2 false, .punct ":", .num 3 false, .punct "?", .num 4 false, .punct ":", .num 5 false] ∧
    unparseTop (.cond (.cond (.num 1 false) (.num 2 false) (.num 3 false)) (.num 4 false) (.num 5 false))
      = [.punct "(", .num 1 false, .punct "?", .num 2 false, .punct ":", .num 3 false, .punct ")", .punct "?", .num 4 false,
         .punct ":", .num 5 false] ∧
    unparseTop (.bin .land (.un .lnot (.num 0 false)) (.bin .lt (.num 3 false) (.bin .shl (.num 1 false) (.num 2 false))))
      = [.punct "!", .num 0 false, .punct "&&", .num 3 false, .punct "<", .num 1 false, .punct "<<", .num 2 false] ∧
    unparseTop (.comma (.num 1 false) (.num 2 false)) = [.punct "(", .num 1 false, .punct ",", .num 2 false, .punct ")"] ∧
    unparseTop (.cond (.num 1 false) (.comma (.num 2 false) (.num 3 false)) (.num 4 false))
      = [.num 1 false, .punct "?", .num 2 false, .punct ",", .num 3 false, .punct ":", .num 4 false] ∧
    unparseTop (.un .neg (.bin .land (.num 1 false) (.bin .lor (.num 2 false) (.num 3 false))))
      = [.punct "-", .punct "(", .num 1 false, .punct "&&", .punct "(", .num 2 false, .punct "||", .num 3 false, .punct ")", .punct ")"] ∧
    PT.WF (.bin .sub (.num 1 false) (.bin .sub (.num 2 false) (.num 3 false))) = true ∧
    PT.WF (.un .plus (.num 1 false)) = false ∧ PT.WF (.bin .gt (.num 1 false) (.num 2 false)) = false := by decide

end ChibiVerif.Props.C10
