/-
C05 — initializers produce exactly the object value of C11 6.7.9.

Property theorems only (helper lemmas live in Lemmas/Init*.lean).  The model is Model/Init.lean (a one-for-one transcription
of the initializer machinery of parse.c and of emit_data), the specification is Spec/InitSpec.lean.

Vocabulary of the statements
* `wf ty`          — the (resolved) type carries a consistent layout: scalar sizes are those of the ABI, members lie inside their
                     aggregate, the bits of distinct struct members are disjoint, a bit-field has an integer type and lies inside
                     its storage unit, a member of 8 bytes or more shares no byte with a bit-field's storage unit, union members are
                     not bit-fields and sit at offset 0.  Every non-packed type struct_decl/union_decl lay out satisfies it.
* `fits init ty`   — the initializer tree has the shape of the type; a leaf initialised by an address constant is an 8-byte
                     integer or pointer; bit-fields are initialised by integer constants; no struct- or union-valued
                     expression (those exist for automatic objects only); a union without chosen member carries no expression.
* `leaves init ty 0` — the initialised scalar leaves with their storage locations.
* `InitSpec.tyOk ty` — the declared types the general parser = 6.7.9 theorem covers: an array of unknown bound only as the
                     declared type itself, a flexible array member only as the last member of the declared struct itself (both
                     as in C), every union has a named member (C11 6.7.2.1p8).
* `r.fl.clean`     — the run of the specification on the token list lies in none of the four regions `BraceOverride`
                     (known finding C05-brace-override-keeps-old), `AggExprOverride` (an initializer for a subobject inside a
                     struct/union that an expression of struct/union type initialised - a genuine defect, see Findings/C05.lean),
                     `WideRange` (a GNU range designator `[a ... b]`, a < b, that is followed by a further designator or whose
                     initializer has elided braces - no C11 semantics, chibicc and gcc differ by design; ranges whose
                     initializer is brace-enclosed, a string literal or one scalar expression are covered),
                     `FlexReinit` (the flexible array member of the declared object - GNU: static initialization of a flexible
                     array member, no C11 semantics - is initialised again after an earlier initializer of the list initialised
                     it: a designator names it, or the cursor comes back to it from the member before it.  gcc lets the array
                     grow with every initializer, chibicc fixes its length at the first one; Findings/C05.lean).  The region is
                     empty for every type without flexible array member (`C05_parse_spec_three_regions`).
                     A union's brace-enclosed list may hold several initializers (`union_rest` of /repo e1837fd, model
                     `unionRest`): they are covered as long as they stay with the member initialised so far (designators into it,
                     excess elements); an initializer that makes ANOTHER member the initialised one is noted by the specification
                     as `over` - there parser and specification agree when the switch happens in the union's own list (tested
                     tie, exhaustive scope `Findings.C05.C05_union_scope`) and differ when it happens through a designator of
                     an enclosing list (known finding C05-brace-override-keeps-old).
-/
import ChibiVerif.Model.Init
import ChibiVerif.Spec.InitSpec
import ChibiVerif.Lemmas.InitTreeLemmas
import ChibiVerif.Lemmas.InitFuelLemmas
import ChibiVerif.Lemmas.InitFlexLemmas
import ChibiVerif.Lemmas.InitFlexSize
import ChibiVerif.Lemmas.InitCursorLemmas

namespace ChibiVerif.Props.C05
open ChibiVerif.Init

/-- **C05 (static = automatic).**  For every laid-out type and every initializer tree of its shape, the object `write_gvar_data`
    builds in `.data` (bytes plus relocations, as the loader resolves them) and the object `create_lvar_init`'s assignment chain
    builds on the zeroed stack slot (with the stores and the bit-field read-modify-write codegen emits) are the same cells; both
    back ends succeed. -/
theorem C05_backends_agree (ty : Ty) (init : Init) (hw : wf ty = true) (hf : fits init ty = true) :
    ∃ cells, staticObject init ty = .ok cells ∧ autoObject init ty = .ok cells := by
  obtain ⟨im', hs, ha, _⟩ := both_from_leaves ty init hw hf
  exact ⟨im'.cells, by simp only [staticObject, hs]; rfl, ha⟩

/-- non-vacuity: `struct { char c; int b:3; char *p; long a[2]; } = { 'x', 5, &g+8, {[1] = -1} }` (nested, with a bit-field
    sharing its unit with `c`, a relocation, a partly initialised array) -/
def exTy : Ty := .struct
  [(⟨some "c", 0, none⟩, .scalar 1 .int), (⟨some "b", 0, some (8, 3)⟩, .scalar 4 .int),
   (⟨some "p", 8, none⟩, .scalar 8 .ptr), (⟨some "a", 16, none⟩, .array (.scalar 8 .int) 2)] 32 false
def exInit : Init := .struct none
  [.leaf (some (Expr.num 120)), .leaf (some (Expr.num 5)),
   .leaf (some { ival := 8, nz := true, f32 := 0, f64 := 0, f80 := 0, label := some "g" }),
   .arr [.leaf none, .leaf (some (Expr.num (-1)))]]
example : wf exTy = true ∧ fits exInit exTy = true := by decide
example : (autoObject exInit exTy).toOption = (staticObject exInit exTy).toOption ∧ (staticObject exInit exTy).toOption ≠ none := by decide

/-- **C05 (everything unmentioned is zero).**  A bit of the object that no initialised leaf covers is 0 in both storage classes
    (so every unmentioned member, and all padding, is zero). -/
theorem C05_zero (ty : Ty) (init : Init) (hw : wf ty = true) (hf : fits init ty = true) (p : Nat) (hp : p < 8 * ty.sz)
    (hn : ∀ l ∈ leaves init ty 0, p < l.bitLo ∨ l.bitHi ≤ p) :
    ∃ cells b, staticObject init ty = .ok cells ∧ autoObject init ty = .ok cells ∧
      cells[p / 8]? = some (Cell.byte b) ∧ (b % 256).testBit (p % 8) = false := by
  obtain ⟨im', hs, ha, hlen, hrel, hbits, hnew⟩ := both_from_leaves ty init hw hf
  refine ⟨im'.cells, im'.bytes.getD (p / 8) 0, by simp only [staticObject, hs]; rfl, ha, ?_, hbits p hn⟩
  apply cells_getD_clean im' ty.sz (p / 8) hlen hrel (by omega)
  intro r hr
  obtain ⟨l, hl, hrl, h1, h2⟩ := hnew r hr
  have := hn l hl
  cases l with
  | val off sz kind e =>
    simp only [Leaf.bitLo, Leaf.bitHi, Leaf.bLo, Leaf.bHi, Leaf.off] at this h1 h2
    omega
  | bf => simp [Leaf.isReloc] at hrl

example : ∀ l ∈ leaves exInit exTy 0, 130 < l.bitLo ∨ l.bitHi ≤ 130 := by decide   -- a[0] (bits 128..191) is not mentioned

/-- **C05 (emission).**  For an image whose relocations are ascending, disjoint and inside the object (what write_gvar_data
    produces), the directive list `emit_data` prints assembles to exactly the cells of the image: one `.quad label±addend` per
    relocation, one `.byte` for every other byte; the total length is `sizeof`. -/
theorem C05_emit (im : Image) (size : Nat) (hb : im.bytes.length = size) (hr : RelocsFrom size 0 im.relocs) :
    assemble (emitData im size) = im.cells ∧ (assemble (emitData im size)).length = size := by
  have h := emitLoop_spec im.bytes size hb size 0 im.relocs (im.bytes.map Cell.byte) (by simpa using hb) (Nat.zero_le _)
    (by omega) (fun _ _ => rfl) hr
  simp only [List.take_zero, List.nil_append] at h
  refine ⟨h, ?_⟩
  rw [show assemble (emitData im size) = overlay (im.bytes.map Cell.byte) im.relocs from h]
  exact overlay_length _ _ size 0 (by simpa using hb) hr

example : RelocsFrom 32 0 ((gvarInit exInit exTy).toOption.get!).relocs := by decide

/-- **C05 (fuel).**  The recursion fuel of the parser transcription never changes an answer: whatever `initializer2` returns with
    some fuel (other than "out of fuel") it returns with any larger fuel. -/
theorem C05_fuel_mono (ty : Ty) (toks : List ITok) (init : Init) (f g : Nat) (h : f ≤ g) (r : Except Fail (Init × List ITok))
    (hr : initializer2 f ty toks init = r) (hne : r ≠ .error .fuel) : initializer2 g ty toks init = r := by
  rcases initializer2_fuel_mono ty toks init f g h with h1 | h1
  · rw [hr] at h1; exact absurd h1 hne
  · rw [← h1, hr]

example : (parseInit exTy [.lbrace, .expr (Expr.num 1), .comma, .dot "a", .idx 1, .eq, .expr (Expr.num 7), .rbrace]).toOption.isSome = true := by
  decide

/-! ### parser = specification -/

/-- **C05 (parser = 6.7.9), full statement.**  Wherever both the parser and the specification accept an initializer they build the
    same object value and stop at the same token.  Refuted inside the region `InitSpec.BraceOverride` by
    `Findings.C05.C05_finding_brace_override` (known finding C05-brace-override-keeps-old) and inside `InitSpec.AggExprOverride` by
    `Findings.C05.C05_finding_agg_expr_override`; inside `InitSpec.WideRange` (range designator followed by a further
    designator, or with elided braces) parser and specification follow different (GNU) conventions
    (`Findings.C05.C05_note_wide_range`); inside `InitSpec.FlexReinit` (a second initializer for the flexible array member)
    chibicc keeps the length of the first initializer, the specification (gcc) lets the array grow
    (`Findings.C05.C05_note_flex_reinit`).  Outside the four regions it is PROVED below for every declared type
    (`C05_parse_spec_partial`: scalars, arrays, arrays of unknown bound, structs - the declared struct may end in a flexible array
    member -, unions, whose brace-enclosed list may hold several initializers: `union_rest` of /repo e1837fd); what is missing
    for the full statement outside the regions is exactly type terms that no C declaration produces - an array of unknown bound or
    a struct with flexible array member as a member or element, a union with a flexible array member (gcc 12: "flexible array
    member in union"), a union without named member.  (Inside `BraceOverride` parser and specification DO agree when the region is
    entered by a member switch in the union's own list - `union U u = {.a = 1, .b = 2}` - as the exhaustive scope
    `Findings.C05.C05_union_scope` and the tested tie show; that part of the region is not proved.) -/
def C05_parse_spec_Statement : Prop :=
  ∀ (ty : Ty) (toks : List ITok) (p : Init × List ITok) (r : InitSpec.Result),
    parseInit ty toks = .ok p → InitSpec.initFull ty toks = .ok r → Init.beq p.1 r.obj = true ∧ p.2 = r.rest

/-- **C05 (parser = 6.7.9), proved by induction for ALL covered types and ALL token lists.**  For every declared type `ty`
    (`tyOk`: scalars, arrays, arrays of unknown bound, structs - the declared struct itself may end in a FLEXIBLE ARRAY MEMBER -,
    unions, bit-fields, unnamed bit-fields, anonymous members, to any depth) and every token list: if the transcription of
    parse.c's twelve mutually recursive functions (`parseInit`, with its standard fuel) accepts it and the cursor-machine
    specification of 6.7.9 (`initFull`) accepts it outside the four regions, then the two build the same `Initializer` tree - the
    same object value, the same array bound, the same length of the flexible member - and stop at the same token.  Proof:
    simulation of every parser function by steps of the specification's list (`Lemmas/InitSim*.lean`, induction on the recursion
    fuel), the counting dry run and the real run consume the same tokens (`Lemmas/InitEraseLemmas.lean`), lockstep of count,
    parser loop and specification for arrays of unknown bound (`Lemmas/InitIncLemmas.lean`) and for the flexible member, whose
    length `new_initializer(is_flexible)` leaves open until the first initializer reaches it: a brace-enclosed list
    (`array_initializer1`: the lockstep of arrays of unknown bound again), a string literal, or elided braces
    (`array_initializer2` counts over the rest of the struct's list: `flexLoop`), with `struct_initializer1/2` around it
    (`Lemmas/InitFlexLemmas.lean`). -/
theorem C05_parse_spec_partial (ty : Ty) (toks : List ITok) (p : Init × List ITok) (r : InitSpec.Result)
    (hty : InitSpec.tyOk ty = true) (hp : parseInit ty toks = .ok p) (hs : InitSpec.initFull ty toks = .ok r)
    (hr : r.fl.clean = true) : p.1 = r.obj ∧ p.2 = r.rest :=
  InitSpec.parse_spec_tyOk hty hp hs hr

/-- the fourth region does not weaken the theorem for the types it covered before: for a declared type WITHOUT flexible array
    member the region `FlexReinit` is empty, so the three regions `BraceOverride`, `AggExprOverride`, `WideRange` suffice -/
theorem C05_parse_spec_three_regions (ty : Ty) (toks : List ITok) (p : Init × List ITok) (r : InitSpec.Result)
    (hty : InitSpec.tyOk ty = true) (hnf : InitSpec.isFlexRoot ty = false) (hp : parseInit ty toks = .ok p)
    (hs : InitSpec.initFull ty toks = .ok r) (hr : r.fl.over = false ∧ r.fl.xover = false ∧ r.fl.wide = false) :
    p.1 = r.obj ∧ p.2 = r.rest := by
  refine C05_parse_spec_partial ty toks p r hty hp hs ?_
  have h4 := InitSpec.initFull_reinit_noflex hnf hs
  simp [InitSpec.Flags.clean, hr.1, hr.2.1, hr.2.2, h4]

/-- … in the form of the full statement (tree equality as the driver prints it: `Init.beq`) -/
theorem C05_parse_spec_partial_beq (ty : Ty) (toks : List ITok) (p : Init × List ITok) (r : InitSpec.Result)
    (hty : InitSpec.tyOk ty = true) (hp : parseInit ty toks = .ok p) (hs : InitSpec.initFull ty toks = .ok r)
    (hr : r.fl.clean = true) : Init.beq p.1 r.obj = true ∧ p.2 = r.rest := by
  obtain ⟨h1, h2⟩ := C05_parse_spec_partial ty toks p r hty hp hs hr
  rw [h1]
  exact ⟨InitSpec.beq_refl' _, h2⟩

/-- the fuel plays no role: any fuel with which the parser answers gives the specification's tree -/
theorem C05_parse_spec_partial_fuel (f : Nat) (ty : Ty) (toks : List ITok) (p : Init × List ITok) (r : InitSpec.Result)
    (hty : InitSpec.tyOk ty = true) (hp : initializer2 f ty toks (newInit ty true) = .ok p)
    (hs : InitSpec.initFull ty toks = .ok r) (hr : r.fl.clean = true) : p.1 = r.obj ∧ p.2 = r.rest :=
  InitSpec.parse_spec_tyOk hty hp hs hr

/-- parser and specification agree on `toks` unless one of them rejects it or it lies in the known region -/
def agreeOn (ty : Ty) (toks : List ITok) : Bool :=
  match parseInit ty toks, InitSpec.initFull ty toks with
  | .ok (p, pr), .ok r => r.over || (Init.beq p r.obj && pr == r.rest)
  | _, _ => true

/-- all token lists of length `n` over `alphabet` -/
def allLists (alphabet : List ITok) : Nat → List (List ITok)
  | 0 => [[]]
  | n+1 => (allLists alphabet n).flatMap (fun l => alphabet.map (fun t => t :: l))

def one : ITok := .expr (Expr.num 1)
def tInt : Ty := .scalar 4 .int
/-- `struct { int a; struct { int b; int c[2]; } s; int d; }` -/
def scopeS : Ty := .struct [(⟨some "a", 0, none⟩, tInt),
  (⟨some "s", 4, none⟩, .struct [(⟨some "b", 0, none⟩, tInt), (⟨some "c", 4, none⟩, .array tInt 2)] 12 false),
  (⟨some "d", 16, none⟩, tInt)] 20 false
def alphaS : List ITok := [.lbrace, .rbrace, .comma, one, .dot "s", .dot "c", .idx 1, .eq]
/-- `struct { int a:3; int :2; union { int x; struct { int p, q; } y; } u; int f[]; }` (bit-field, unnamed bit-field, union, flexible member) -/
def scopeF : Ty := .struct [(⟨some "a", 0, some (0, 3)⟩, tInt), (⟨none, 0, some (3, 2)⟩, tInt),
  (⟨some "u", 4, none⟩, .union [(⟨some "x", 0, none⟩, tInt),
      (⟨some "y", 0, none⟩, .struct [(⟨some "p", 0, none⟩, tInt), (⟨some "q", 4, none⟩, tInt)] 8 false)] 8 false),
  (⟨some "f", 12, none⟩, .array tInt 0)] 12 true
def alphaF : List ITok := [.lbrace, .rbrace, .comma, one, .dot "u", .dot "y", .dot "f", .idx 1, .eq]
/-- `int x[]` with index and range designators -/
def scopeI : Ty := .inc tInt
def alphaI : List ITok := [.rbrace, .comma, one, .idx 1, .idx 3, .range 1 2, .eq, .lbrace]
/-- `struct { int p; int q[2]; } x[]` -/
def scopeQ : Ty := .inc (.struct [(⟨some "p", 0, none⟩, tInt), (⟨some "q", 4, none⟩, .array tInt 2)] 12 false)
def alphaQ : List ITok := [.rbrace, .comma, one, .idx 0, .idx 2, .eq, .lbrace, .dot "q"]

/-- the scope `{ t₁ … tₙ` with first token `t₁ = first` -/
def scope (alphabet : List ITok) (n : Nat) (first : ITok) : List (List ITok) :=
  (allLists alphabet n).map (fun l => ITok.lbrace :: first :: l)

/-- non-vacuity of `C05_parse_spec_partial`: the nested struct `scopeS` is covered, and
    `{ 1, .s.c[1] = 1, 1, .s = { .c = { 1 } } }`-like spellings satisfy every hypothesis; here
    `{ 1, .s.c[1] = 1, 1 }` (designator, continuation after the designator into the enclosing struct) and an array of unknown
    bound of structs `{ [2].q[1] = 1, 1, { 1 } }` whose bound 4 is found by both sides -/
example : InitSpec.tyOk scopeS = true ∧
    (parseInit scopeS [.lbrace, one, .comma, .dot "s", .dot "c", .idx 1, .eq, one, .comma, one, .rbrace]).toOption.isSome = true ∧
    ((InitSpec.initFull scopeS [.lbrace, one, .comma, .dot "s", .dot "c", .idx 1, .eq, one, .comma, one, .rbrace]).toOption.map
      (fun r => r.fl.clean)) = some true := by decide
example : InitSpec.tyOk scopeQ = true ∧
    ((parseInit scopeQ [.lbrace, .idx 2, .dot "q", .idx 1, .eq, one, .comma, one, .comma, .lbrace, one, .rbrace, .rbrace]).toOption.map
      (fun p => p.1.children.length)) = some 4 ∧
    ((InitSpec.initFull scopeQ [.lbrace, .idx 2, .dot "q", .idx 1, .eq, one, .comma, one, .comma, .lbrace, one, .rbrace, .rbrace]).toOption.map
      (fun r => (r.fl.clean, r.obj.children.length))) = some (true, 4) := by decide

/-- **C05 (parser = 6.7.9), exhaustive small scope 1**: every token list `{ t₁ … t₅` over `{ } , 1 .s .c [1] =` for the nested
    struct `scopeS` (32768 lists: braces, elision, nested and out-of-order designators, continuation after a designator).
    (Kept beside the general theorem: it needs no `tyOk`/`clean` reasoning and re-checks the definitions by evaluation.) -/
theorem C05_parse_spec_scope_struct : ∀ first ∈ alphaS, (scope alphaS 4 first).all (agreeOn scopeS) = true := by
  decide +kernel

/-- scope 2: bit-field, unnamed bit-field, union and FLEXIBLE array member; `{ t₁ … t₄` over 9 tokens (6561 lists).
    (Since the flexible member is covered by `C05_parse_spec_partial` this scope re-checks the definitions by evaluation; it
    also covers lists inside `FlexReinit` on which parser and specification happen to agree.) -/
theorem C05_parse_spec_scope_flex : ∀ first ∈ alphaF, (scope alphaF 3 first).all (agreeOn scopeF) = true := by
  decide +kernel

/-- non-vacuity: of the 512 lists `{ 1 t₂ t₃ t₄` of scope 1, 73 are accepted by both sides -/
example : ((scope alphaS 3 one).filter (fun l => (parseInit scopeS l).toOption.isSome && (InitSpec.init scopeS l).toOption.isSome)).length = 73 := by
  decide +kernel

/-- non-vacuity for scope 2: `{ 1, 1, .f = { 1, 1 } }`-like lists are accepted by both sides; here one with the flexible member -/
example : agreeOn scopeF [.lbrace, one, .comma, .dot "f", .eq, .lbrace, one, .comma, one, .rbrace, .rbrace] = true ∧
    ((parseInit scopeF [.lbrace, one, .comma, .dot "f", .eq, .lbrace, one, .comma, one, .rbrace, .rbrace]).toOption.map
      (fun p => (resolveTy scopeF p.1).size)) = some 20 := by decide +kernel

/-- `struct { int a; struct { int x, y; } f[]; }`: a flexible array member of structs -/
def scopeGms : Members := [(⟨some "a", 0, none⟩, tInt),
  (⟨some "f", 4, none⟩, .array (.struct [(⟨some "x", 0, none⟩, tInt), (⟨some "y", 4, none⟩, tInt)] 8 false) 0)]
def scopeG : Ty := .struct scopeGms 4 true

/-- non-vacuity of `C05_parse_spec_partial` for a flexible array member: the type is covered, and
    `{ 1, 1, 1, { 1 }, 1 }` (elided braces: `count_array_init_elements` runs over the rest of the struct's list and finds 3
    elements) and `{ .f = { [2].y = 1, { 1, 1 } }, .a = 1 }` (designated, brace-enclosed: 4 elements; then another member)
    satisfy every hypothesis -/
example : InitSpec.tyOk scopeG = true ∧
    ((parseInit scopeG [.lbrace, one, .comma, one, .comma, one, .comma, .lbrace, one, .rbrace, .comma, one, .rbrace]).toOption.map
      (fun p => (resolveTy scopeG p.1).size)) = some 28 ∧
    ((InitSpec.initFull scopeG [.lbrace, one, .comma, one, .comma, one, .comma, .lbrace, one, .rbrace, .comma, one, .rbrace]).toOption.map
      (fun r => (r.fl.clean, (resolveTy scopeG r.obj).size))) = some (true, 28) := by decide +kernel
example :
    ((parseInit scopeG [.lbrace, .dot "f", .eq, .lbrace, .idx 2, .dot "y", .eq, one, .comma, .lbrace, one, .comma, one, .rbrace, .rbrace,
        .comma, .dot "a", .eq, one, .rbrace]).toOption.map (fun p => (resolveTy scopeG p.1).size)) = some 36 ∧
    ((InitSpec.initFull scopeG [.lbrace, .dot "f", .eq, .lbrace, .idx 2, .dot "y", .eq, one, .comma, .lbrace, one, .comma, one, .rbrace, .rbrace,
        .comma, .dot "a", .eq, one, .rbrace]).toOption.map (fun r => (r.fl.clean, (resolveTy scopeG r.obj).size))) = some (true, 36) := by
  decide +kernel

/-- `union { int a; struct { int p, q; } s; long b; }` inside a struct: a union's list with several initializers -/
def scopeU : Ty := .struct [(⟨some "k", 0, none⟩, tInt),
  (⟨some "u", 8, none⟩, .union [(⟨some "a", 0, none⟩, tInt),
      (⟨some "s", 0, none⟩, .struct [(⟨some "p", 0, none⟩, tInt), (⟨some "q", 4, none⟩, tInt)] 8 false),
      (⟨some "b", 0, none⟩, .scalar 8 .int)] 8 false)] 16 false

/-- non-vacuity of `C05_parse_spec_partial` for a union's list with several initializers (`union_rest`):
    `{ 1, { .s.q = 1, .s.p = 1, 1 } }` - two designators into the member initialised first and an excess element -/
example : InitSpec.tyOk scopeU = true ∧
    ((parseInit scopeU [.lbrace, one, .comma, .lbrace, .dot "s", .dot "q", .eq, one, .comma, .dot "s", .dot "p", .eq, one, .comma, one,
        .rbrace, .rbrace]).toOption.map (fun p => p.2.length)) = some 0 ∧
    ((InitSpec.initFull scopeU [.lbrace, one, .comma, .lbrace, .dot "s", .dot "q", .eq, one, .comma, .dot "s", .dot "p", .eq, one, .comma, one,
        .rbrace, .rbrace]).toOption.map (fun r => r.fl.clean)) = some true := by decide +kernel

/-- **C05 (flexible array member: length).**  Outside the four regions the flexible member of the object the parser builds has
    exactly the elements the specification's growing array has - the largest index that receives an initializer, plus one - and
    the type `initializer()` makes for the object (`resolveTy`: the struct type copied, its last member re-typed `elem[n]`) is the
    same for both, so `sizeof` the object agrees. -/
theorem C05_flex_count (ms : Members) (sz : Nat) (toks : List ITok) (p : Init × List ITok) (r : InitSpec.Result)
    (hty : InitSpec.flexOkMs ms = true) (hp : parseInit (.struct ms sz true) toks = .ok p)
    (hs : InitSpec.initFull (.struct ms sz true) toks = .ok r) (hr : r.fl.clean = true) :
    flexResolved ms p.1.children = flexResolved ms r.obj.children ∧
      resolveTy (.struct ms sz true) p.1 = resolveTy (.struct ms sz true) r.obj := by
  rw [(C05_parse_spec_partial (.struct ms sz true) toks p r hty hp hs hr).1]
  exact ⟨rfl, rfl⟩

/-- **C05 (flexible array member: size of the object).**  Whatever tree `init` the parser has built for a struct type with flexible
    array member `elem[]`: when the member's node has `n` elements (`flexResolved`: `n` = 0 if no initializer reached it), the type
    `initializer()` gives the object has `sizeof(struct) + n · sizeof(elem)` bytes, and the static object (`write_gvar_data` into
    `calloc(1, var->ty->size)`) and the automatic object (ND_MEMZERO over `var->ty->size` bytes, then the assignments) are the
    same `sizeof(struct) + n · sizeof(elem)` cells; and what `emit_data` prints for the image assembles to exactly these cells
    (when the relocations are ascending and disjoint, as in `C05_emit`). -/
theorem C05_flex_size (ms : Members) (sz : Nat) (init : Init) (el : Ty) (n : Nat)
    (hfl : flexResolved ms init.children = some (el, n))
    (hw : wf (resolveTy (.struct ms sz true) init) = true) (hf : fits init (resolveTy (.struct ms sz true) init) = true)
    (hel : wf el = true) :
    (resolveTy (.struct ms sz true) init).sz = sz + el.sz * n ∧
    ∃ im, gvarInit init (resolveTy (.struct ms sz true) init) = .ok im ∧
      staticObject init (resolveTy (.struct ms sz true) init) = .ok im.cells ∧
      autoObject init (resolveTy (.struct ms sz true) init) = .ok im.cells ∧ im.cells.length = sz + el.sz * n ∧
      (RelocsFrom (sz + el.sz * n) 0 im.relocs →
        assemble (emitData im (sz + el.sz * n)) = im.cells ∧ (assemble (emitData im (sz + el.sz * n))).length = sz + el.sz * n) := by
  have hsize := resolveTy_flex_size ms sz init el n hfl (wf_size_nonneg el hel)
  obtain ⟨im', hs, ha, hlen, hrel, _, _⟩ := both_from_leaves _ init hw hf
  rw [hsize] at hlen hrel
  exact ⟨hsize, im', hs, by simp only [staticObject, hs]; rfl, ha, cells_length im' _ hlen hrel,
    fun hr => C05_emit im' _ hlen hr⟩

/-- non-vacuity: `struct { int a; struct { int x, y; } f[]; } = { 1, 1, 1, { 1 }, 1 }`: three elements, 4 + 3·8 = 28 bytes in both
    storage classes -/
example : ((parseInit scopeG [.lbrace, one, .comma, one, .comma, one, .comma, .lbrace, one, .rbrace, .comma, one, .rbrace]).toOption.map
      (fun p => ((flexResolved scopeGms p.1.children).map (·.2),
        wf (resolveTy scopeG p.1), fits p.1 (resolveTy scopeG p.1),
        ((staticObject p.1 (resolveTy scopeG p.1)).toOption.map (·.length)),
        ((autoObject p.1 (resolveTy scopeG p.1)).toOption.map (·.length))))) = some (some 3, true, true, some 28, some 28) := by
  decide +kernel
example : (match parseInit scopeG [.lbrace, one, .comma, one, .comma, one, .comma, .lbrace, one, .rbrace, .comma, one, .rbrace] with
    | .ok p => (match gvarInit p.1 (resolveTy scopeG p.1) with
      | .ok im => decide (RelocsFrom 28 0 im.relocs)
      | .error _ => false)
    | .error _ => false) = true := by decide +kernel

/-- **C05 (the relocation cursor of `write_gvar_data`).**  `Model/InitCursor.lean` keeps the relocation list as the C code does - a
    linked list behind `head` and the cursor `cur`; `cur->next = rel` drops whatever hung behind `cur`.  When every arm hands on
    the cursor of its recursive calls, as the code does - `cur = write_gvar_data(…)` in the array loop and in the struct's member
    loop (`continue` for a bit-field), `return write_gvar_data(…)` for the union's initialised member - the list is the one
    `writeGvar` appends to (which `C05_backends_agree` and `C05_emit` are about) and the returned cursor is its last node, for
    every tree, type, image and offset.  (An arm that returns the cursor it was given loses relocations:
    `Findings.C05.C05_cursor_arms`; the seeded change C05b did this to the union arm.) -/
theorem C05_reloc_cursor (init : Init) (ty : Ty) (im : Image) (off : Nat) :
    writeGvarC Arms.code init ty im im.relocs.length off = withEnd (writeGvar init ty im off) ∧
      gvarInitC Arms.code init ty = gvarInit init ty :=
  ⟨writeGvarC_end init ty im off, gvarInitC_code init ty⟩

/-- **C05 (count), full statement.**  For an array of unknown bound the length `count_array_init_elements` gives the object is the
    specification's: the largest indexed element with an explicit initializer, plus one (6.7.9p22).  Proved below
    (`C05_count_partial`) for every element type without flexible array member outside the regions `AggExprOverride` and
    `WideRange` as well (the flexible array member of a declared struct: `C05_flex_count`); missing for the full statement: those
    two regions and element types that are not C types. -/
def C05_count_Statement : Prop :=
  ∀ (elem : Ty) (toks : List ITok) (p : Init × List ITok) (r : InitSpec.Result),
    parseInit (.inc elem) toks = .ok p → InitSpec.initFull (.inc elem) toks = .ok r → r.over = false →
      p.1.children.length = r.obj.children.length

/-- **C05 (count), proved for ALL element types and ALL token lists** outside the three regions: the array the parser allocates
    after its counting dry run (`count_array_init_elements` on a dummy tree) has exactly the length the specification's growing
    array reaches - the largest index that receives an initializer, plus one - whatever mixture of designators, elision,
    nested braces and excess elements the list contains.  (The heart is `InitSpec.incLoop`: count, parser loop and
    specification in lockstep.) -/
theorem C05_count_partial (elem : Ty) (toks : List ITok) (p : Init × List ITok) (r : InitSpec.Result)
    (hty : InitSpec.subOk elem = true) (hp : parseInit (.inc elem) toks = .ok p)
    (hs : InitSpec.initFull (.inc elem) toks = .ok r) (hr : r.fl.clean = true) :
    p.1.children.length = r.obj.children.length := by
  rw [(C05_parse_spec_partial (.inc elem) toks p r hty hp hs hr).1]

/-- what `agreeOn` gives for the bound -/
def sameBound (ty : Ty) (toks : List ITok) : Bool :=
  match parseInit ty toks, InitSpec.initFull ty toks with
  | .ok (p, _), .ok r => r.over || p.children.length == r.obj.children.length
  | _, _ => true

/-- **C05 (count), exhaustive small scope**: `int x[] = { t₁ … t₅` over `} , 1 [1] [3] [1 ... 2] = {` (32768 lists, including the
    GNU range `[1 ... 2]` in every position) and `struct { int p; int q[2]; } x[] = { t₁ … t₄` over
    `} , 1 [0] [2] = { .q` (4096 lists): same tree, hence same bound.  (Also inside `WideRange`, e.g. `[1 ... 2] [3] = 1`.) -/
theorem C05_count_scope :
    (∀ first ∈ alphaI, (scope alphaI 4 first).all (fun l => agreeOn scopeI l && sameBound scopeI l) = true) ∧
    (∀ first ∈ alphaQ, (scope alphaQ 3 first).all (fun l => agreeOn scopeQ l && sameBound scopeQ l) = true) := by
  decide +kernel

/-- non-vacuity: `int x[] = { 1, [3] = 1, 1 }` has 5 elements on both sides (and satisfies the hypotheses of `C05_count_partial`);
    `int x[] = { [1 ... 2] = 1 }` has 3 -/
example : ((parseInit scopeI [.lbrace, one, .comma, .idx 3, .eq, one, .comma, one, .rbrace]).toOption.map (·.1.children.length)) = some 5 ∧
    ((InitSpec.initFull scopeI [.lbrace, one, .comma, .idx 3, .eq, one, .comma, one, .rbrace]).toOption.map
      (fun r => (r.fl.clean, r.obj.children.length))) = some (true, 5) ∧
    InitSpec.subOk tInt = true ∧
    ((parseInit scopeI [.lbrace, .range 1 2, .eq, one, .rbrace]).toOption.map (·.1.children.length)) = some 3 ∧
    ((InitSpec.initFull scopeI [.lbrace, .range 1 2, .eq, one, .rbrace]).toOption.map
      (fun r => (r.fl.clean, r.obj.children.length))) = some (true, 3) := by decide +kernel

end ChibiVerif.Props.C05
