/-
C05 — initializers produce exactly the object value of C11 6.7.9.

Property theorems only (helper lemmas live in Lemmas/Init*.lean).  The model is Model/Init.lean (a one-for-one transcription
of the initializer machinery of parse.c and of emit_data), the specification is Spec/InitSpec.lean.

Vocabulary of the statements
* `wf ty`          — the (resolved) type carries a consistent layout: scalar sizes are those of the ABI, members lie inside their
                     aggregate, the bits of distinct struct members are disjoint, a bit-field has an integer type and lies inside
                     its storage unit, a member of 8 bytes or more shares no byte with a bit-field's storage unit, union members are
                     not bit-fields and sit at offset 0.  Every non-packed type struct_decl/union_decl lay out satisfies it.
* `fits init ty`   — the initializer tree has the shape of the type; a leaf initialised by an address constant is an 8-byte
                     integer or pointer; bit-fields are initialised by integer constants; no struct- or union-valued
                     expression (those exist for automatic objects only); a union without chosen member carries no expression.
* `leaves init ty 0` — the initialised scalar leaves with their storage locations.
-/
import ChibiVerif.Model.Init
import ChibiVerif.Spec.InitSpec
import ChibiVerif.Lemmas.InitTreeLemmas
import ChibiVerif.Lemmas.InitFuelLemmas

namespace ChibiVerif.Props.C05
open ChibiVerif.Init

/-- **C05 (static = automatic).**  For every laid-out type and every initializer tree of its shape, the object `write_gvar_data`
    builds in `.data` (bytes plus relocations, as the loader resolves them) and the object `create_lvar_init`'s assignment chain
    builds on the zeroed stack slot (with the stores and the bit-field read-modify-write codegen emits) are the same cells; both
    back ends succeed. -/
theorem C05_backends_agree (ty : Ty) (init : Init) (hw : wf ty = true) (hf : fits init ty = true) :
    ∃ cells, staticObject init ty = .ok cells ∧ autoObject init ty = .ok cells := by
  obtain ⟨im', hs, ha, _⟩ := both_from_leaves ty init hw hf
  exact ⟨im'.cells, by simp only [staticObject, hs]; rfl, ha⟩

/-- non-vacuity: `struct { char c; int b:3; char *p; long a[2]; } = { 'x', 5, &g+8, {[1] = -1} }` (nested, with a bit-field
    sharing its unit with `c`, a relocation, a partly initialised array) -/
def exTy : Ty := .struct
  [(⟨some "c", 0, none⟩, .scalar 1 .int), (⟨some "b", 0, some (8, 3)⟩, .scalar 4 .int),
   (⟨some "p", 8, none⟩, .scalar 8 .ptr), (⟨some "a", 16, none⟩, .array (.scalar 8 .int) 2)] 32 false
def exInit : Init := .struct none
  [.leaf (some (Expr.num 120)), .leaf (some (Expr.num 5)),
   .leaf (some { ival := 8, nz := true, f32 := 0, f64 := 0, f80 := 0, label := some "g" }),
   .arr [.leaf none, .leaf (some (Expr.num (-1)))]]
example : wf exTy = true ∧ fits exInit exTy = true := by decide
example : (autoObject exInit exTy).toOption = (staticObject exInit exTy).toOption ∧ (staticObject exInit exTy).toOption ≠ none := by decide

/-- **C05 (everything unmentioned is zero).**  A bit of the object that no initialised leaf covers is 0 in both storage classes
    (so every unmentioned member, and all padding, is zero). -/
theorem C05_zero (ty : Ty) (init : Init) (hw : wf ty = true) (hf : fits init ty = true) (p : Nat) (hp : p < 8 * ty.sz)
    (hn : ∀ l ∈ leaves init ty 0, p < l.bitLo ∨ l.bitHi ≤ p) :
    ∃ cells b, staticObject init ty = .ok cells ∧ autoObject init ty = .ok cells ∧
      cells[p / 8]? = some (Cell.byte b) ∧ (b % 256).testBit (p % 8) = false := by
  obtain ⟨im', hs, ha, hlen, hrel, hbits, hnew⟩ := both_from_leaves ty init hw hf
  refine ⟨im'.cells, im'.bytes.getD (p / 8) 0, by simp only [staticObject, hs]; rfl, ha, ?_, hbits p hn⟩
  apply cells_getD_clean im' ty.sz (p / 8) hlen hrel (by omega)
  intro r hr
  obtain ⟨l, hl, hrl, h1, h2⟩ := hnew r hr
  have := hn l hl
  cases l with
  | val off sz kind e =>
    simp only [Leaf.bitLo, Leaf.bitHi, Leaf.bLo, Leaf.bHi, Leaf.off] at this h1 h2
    omega
  | bf => simp [Leaf.isReloc] at hrl

example : ∀ l ∈ leaves exInit exTy 0, 130 < l.bitLo ∨ l.bitHi ≤ 130 := by decide   -- a[0] (bits 128..191) is not mentioned

/-- **C05 (emission).**  For an image whose relocations are ascending, disjoint and inside the object (what write_gvar_data
    produces), the directive list `emit_data` prints assembles to exactly the cells of the image: one `.quad label±addend` per
    relocation, one `.byte` for every other byte; the total length is `sizeof`. -/
theorem C05_emit (im : Image) (size : Nat) (hb : im.bytes.length = size) (hr : RelocsFrom size 0 im.relocs) :
    assemble (emitData im size) = im.cells ∧ (assemble (emitData im size)).length = size := by
  have h := emitLoop_spec im.bytes size hb size 0 im.relocs (im.bytes.map Cell.byte) (by simpa using hb) (Nat.zero_le _)
    (by omega) (fun _ _ => rfl) hr
  simp only [List.take_zero, List.nil_append] at h
  refine ⟨h, ?_⟩
  rw [show assemble (emitData im size) = overlay (im.bytes.map Cell.byte) im.relocs from h]
  exact overlay_length _ _ size 0 (by simpa using hb) hr

example : RelocsFrom 32 0 ((gvarInit exInit exTy).toOption.get!).relocs := by decide

/-- **C05 (fuel).**  The recursion fuel of the parser transcription never changes an answer: whatever `initializer2` returns with
    some fuel (other than "out of fuel") it returns with any larger fuel. -/
theorem C05_fuel_mono (ty : Ty) (toks : List ITok) (init : Init) (f g : Nat) (h : f ≤ g) (r : Except Fail (Init × List ITok))
    (hr : initializer2 f ty toks init = r) (hne : r ≠ .error .fuel) : initializer2 g ty toks init = r := by
  rcases initializer2_fuel_mono ty toks init f g h with h1 | h1
  · rw [hr] at h1; exact absurd h1 hne
  · rw [← h1, hr]

example : (parseInit exTy [.lbrace, .expr (Expr.num 1), .comma, .dot "a", .idx 1, .eq, .expr (Expr.num 7), .rbrace]).toOption.isSome = true := by
  decide

/-! ### parser = specification -/

/-- **C05 (parser = 6.7.9), full statement.**  Wherever both the parser and the specification accept an initializer they build the
    same object value and stop at the same token.  Refuted inside the region `InitSpec.BraceOverride` by
    `Findings.C05.C05_finding_brace_override` (known finding C05-brace-override-keeps-old); outside that region and outside GNU range
    designators applied to aggregate elements with elided braces it is proved below on exhaustive small scopes and tested on every
    generated case of every run (`drv_c05 init` prints `same=`). -/
def C05_parse_spec_Statement : Prop :=
  ∀ (ty : Ty) (toks : List ITok) (p : Init × List ITok) (r : InitSpec.Result),
    parseInit ty toks = .ok p → InitSpec.initFull ty toks = .ok r → Init.beq p.1 r.obj = true ∧ p.2 = r.rest

/-- parser and specification agree on `toks` unless one of them rejects it or it lies in the known region -/
def agreeOn (ty : Ty) (toks : List ITok) : Bool :=
  match parseInit ty toks, InitSpec.initFull ty toks with
  | .ok (p, pr), .ok r => r.over || (Init.beq p r.obj && pr == r.rest)
  | _, _ => true

/-- all token lists of length `n` over `alphabet` -/
def allLists (alphabet : List ITok) : Nat → List (List ITok)
  | 0 => [[]]
  | n+1 => (allLists alphabet n).flatMap (fun l => alphabet.map (fun t => t :: l))

def one : ITok := .expr (Expr.num 1)
def tInt : Ty := .scalar 4 .int
/-- `struct { int a; struct { int b; int c[2]; } s; int d; }` -/
def scopeS : Ty := .struct [(⟨some "a", 0, none⟩, tInt),
  (⟨some "s", 4, none⟩, .struct [(⟨some "b", 0, none⟩, tInt), (⟨some "c", 4, none⟩, .array tInt 2)] 12 false),
  (⟨some "d", 16, none⟩, tInt)] 20 false
def alphaS : List ITok := [.lbrace, .rbrace, .comma, one, .dot "s", .dot "c", .idx 1, .eq]
/-- `struct { int a:3; int :2; union { int x; struct { int p, q; } y; } u; int f[]; }` (bit-field, unnamed bit-field, union, flexible member) -/
def scopeF : Ty := .struct [(⟨some "a", 0, some (0, 3)⟩, tInt), (⟨none, 0, some (3, 2)⟩, tInt),
  (⟨some "u", 4, none⟩, .union [(⟨some "x", 0, none⟩, tInt),
      (⟨some "y", 0, none⟩, .struct [(⟨some "p", 0, none⟩, tInt), (⟨some "q", 4, none⟩, tInt)] 8 false)] 8 false),
  (⟨some "f", 12, none⟩, .array tInt 0)] 12 true
def alphaF : List ITok := [.lbrace, .rbrace, .comma, one, .dot "u", .dot "y", .dot "f", .idx 1, .eq]
/-- `int x[]` with index and range designators -/
def scopeI : Ty := .inc tInt
def alphaI : List ITok := [.rbrace, .comma, one, .idx 1, .idx 3, .range 1 2, .eq, .lbrace]
/-- `struct { int p; int q[2]; } x[]` -/
def scopeQ : Ty := .inc (.struct [(⟨some "p", 0, none⟩, tInt), (⟨some "q", 4, none⟩, .array tInt 2)] 12 false)
def alphaQ : List ITok := [.rbrace, .comma, one, .idx 0, .idx 2, .eq, .lbrace, .dot "q"]

/-- the scope `{ t₁ … tₙ` with first token `t₁ = first` -/
def scope (alphabet : List ITok) (n : Nat) (first : ITok) : List (List ITok) :=
  (allLists alphabet n).map (fun l => ITok.lbrace :: first :: l)

/-- **C05 (parser = 6.7.9), exhaustive small scope 1**: every token list `{ t₁ … t₅` over `{ } , 1 .s .c [1] =` for the nested
    struct `scopeS` (32768 lists: braces, elision, nested and out-of-order designators, continuation after a designator). -/
theorem C05_parse_spec_partial : ∀ first ∈ alphaS, (scope alphaS 4 first).all (agreeOn scopeS) = true := by
  decide +kernel

/-- scope 2: bit-field, unnamed bit-field, union and flexible array member; `{ t₁ … t₄` over 9 tokens (6561 lists) -/
theorem C05_parse_spec_partial_flex : ∀ first ∈ alphaF, (scope alphaF 3 first).all (agreeOn scopeF) = true := by
  decide +kernel

/-- non-vacuity: of the 512 lists `{ 1 t₂ t₃ t₄` of scope 1, 73 are accepted by both sides -/
example : ((scope alphaS 3 one).filter (fun l => (parseInit scopeS l).toOption.isSome && (InitSpec.init scopeS l).toOption.isSome)).length = 73 := by
  decide +kernel

/-- non-vacuity for scope 2: `{ 1, 1, .f = { 1, 1 } }`-like lists are accepted by both sides; here one with the flexible member -/
example : agreeOn scopeF [.lbrace, one, .comma, .dot "f", .eq, .lbrace, one, .comma, one, .rbrace, .rbrace] = true ∧
    ((parseInit scopeF [.lbrace, one, .comma, .dot "f", .eq, .lbrace, one, .comma, one, .rbrace, .rbrace]).toOption.map
      (fun p => (resolveTy scopeF p.1).size)) = some 20 := by decide +kernel

/-- **C05 (count), full statement.**  For an array of unknown bound the length `count_array_init_elements` gives the object is the
    specification's: the largest indexed element with an explicit initializer, plus one (6.7.9p22). -/
def C05_count_Statement : Prop :=
  ∀ (elem : Ty) (toks : List ITok) (p : Init × List ITok) (r : InitSpec.Result),
    parseInit (.inc elem) toks = .ok p → InitSpec.initFull (.inc elem) toks = .ok r → r.over = false →
      p.1.children.length = r.obj.children.length

/-- what `agreeOn` gives for the bound -/
def sameBound (ty : Ty) (toks : List ITok) : Bool :=
  match parseInit ty toks, InitSpec.initFull ty toks with
  | .ok (p, _), .ok r => r.over || p.children.length == r.obj.children.length
  | _, _ => true

/-- **C05 (count), exhaustive small scope**: `int x[] = { t₁ … t₅` over `} , 1 [1] [3] [1 ... 2] = {` (32768 lists) and
    `struct { int p; int q[2]; } x[] = { t₁ … t₄` over `} , 1 [0] [2] = { .q` (4096 lists): same tree, hence same bound. -/
theorem C05_count_partial :
    (∀ first ∈ alphaI, (scope alphaI 4 first).all (fun l => agreeOn scopeI l && sameBound scopeI l) = true) ∧
    (∀ first ∈ alphaQ, (scope alphaQ 3 first).all (fun l => agreeOn scopeQ l && sameBound scopeQ l) = true) := by
  decide +kernel

/-- non-vacuity: `int x[] = { 1, [3] = 1, 1 }` has 5 elements on both sides; `int x[] = { [1 ... 2] = 1 }` has 3 -/
example : ((parseInit scopeI [.lbrace, one, .comma, .idx 3, .eq, one, .comma, one, .rbrace]).toOption.map (·.1.children.length)) = some 5 ∧
    ((InitSpec.init scopeI [.lbrace, one, .comma, .idx 3, .eq, one, .comma, one, .rbrace]).toOption.map (·.1.children.length)) = some 5 ∧
    ((parseInit scopeI [.lbrace, .range 1 2, .eq, one, .rbrace]).toOption.map (·.1.children.length)) = some 3 := by decide +kernel

end ChibiVerif.Props.C05
