/-
C13 — per-component "no abort site is reached / every failure is a located diagnostic" theorems (DESIGN.md section 6, C13:
`C13_<component>_nocrash`), on the component models owned by C05, C08, C09, C10, C11.  Property theorems only; lemmas are in
Lemmas/C13Layout, C13InitBase, C13Init, C13Literals, C13Member, C13PP; instrumented doubles in Model/C13Sites.lean.

  component                          model                     abort sites of the C code, as outcomes of the model
  struct_decl / union_decl           Model/Layout              `align_to(n, 0)`, `bits / (sz * 8)` with sz = 0  (SIGFPE)        → Fail.divByZero
  get_struct_member                  Model/C13Sites (double)   `mem->name->len` with NULL `mem->name`                           → Fail.crash
  initializer parser (12 functions)  Model/Init                children[i] out of the block, member index, tok->str over-read,
                                                               unreachable(), union_initializer on a union without members      → Fail.crash
  literal readers                    Model/C13Sites (double)   a read behind the terminating NUL                                → Fault.overread
  read_macro_args                    Model/PP                  `tok->next` behind TK_EOF                                        → (list exhausted) Err.prematureEnd
  #if / #elif / … machine            Model/CondIncl, PPExpr    division by zero (SIGFPE), cond_incl == NULL                     → Diag / PPErr.divZero
  include machine                    Model/IncludeSearch       unbounded recursion of include_file                              → Diag.outOfFuel

Three of these sites WERE reached by cc1 when this file was written (SIGFPE for `aligned(0)` and for a bit-field of a
zero-sized type, SIGSEGV for the initializer of a union without members, `internal error` for a `long double` bit-field in a
static initializer); they were repaired in /repo (fixes 04ba5b8, fb20c9b, 8f0968b), the models follow the repaired code,
Findings/C13Sites.lean keeps the witnesses and corpus/C13/seeds the inputs.
-/
import ChibiVerif.Lemmas.C13Layout
import ChibiVerif.Lemmas.C13Init
import ChibiVerif.Lemmas.C13Literals
import ChibiVerif.Lemmas.C13Member
import ChibiVerif.Lemmas.C13PP
import ChibiVerif.Lemmas.LayoutTotal
import ChibiVerif.Props.C09

namespace ChibiVerif.Props.C13

/-! ## struct_decl / union_decl (owner: C08) -/
section Layout
open ChibiVerif.Layout ChibiVerif.C13Layout

/-- **The SIGFPE sites of `struct_decl`, exactly.**  For every member list, `packed` flag and initial alignment (`aligned(n)`
    or 1) the layout loop divides by zero iff some member is a bit-field whose type has size 0 or a plain member (struct not
    packed) with alignment 0 — `bits / (sz * 8)`, `align_to(bits, sz * 8)`, `align_to(bits, mem->align * 8)` — or `ty->align`
    is 0 after the loop — `align_to(bits, ty->align * 8)`. -/
theorem C13_layout_struct_sites (packed : Bool) (a0 : Int) (ms : List Mem) :
    structLayout packed a0 ms = .error .divByZero ↔
      (ms.any (memDivSite packed) = true ∨ structAlign packed a0 ms * 8 = 0) :=
  structLayout_error_iff packed a0 ms

/-- **The SIGFPE site of `union_decl`, exactly**: `align_to(ty->size, ty->align)` with `ty->align == 0`. -/
theorem C13_layout_union_sites (packed : Bool) (a0 : Int) (ms : List Mem) :
    unionLayout packed a0 ms = .error .divByZero ↔ unionAlign packed a0 ms = 0 :=
  unionLayout_error_iff packed a0 ms

/-- **No SIGFPE for member lists as the (repaired) parser builds them.**  If the initial alignment is positive (`aligned(n)`
    is now checked: fix 04ba5b8), every plain member has a non-zero alignment (or the struct is packed) and every bit-field
    has a type of non-zero size (now: an integer type, fix fb20c9b), `struct_decl` and `union_decl` lay the aggregate out
    and its alignment is positive — so an aggregate used as a member again satisfies the hypothesis. -/
theorem C13_layout_nocrash (packed : Bool) (a0 : Int) (ms : List Mem) (ha : 0 < a0)
    (hm : ms.any (memDivSite packed) = false) :
    (∃ l, structLayout packed a0 ms = .ok l ∧ 0 < l.align) ∧ (∃ l, unionLayout packed a0 ms = .ok l ∧ 0 < l.align) :=
  ⟨structLayout_ok packed a0 ms ha hm, unionLayout_ok packed a0 ms ha⟩

-- non-vacuity: `struct __attribute__((aligned(2))) { char a; int b : 40; long : 0; int c[0]; }`
example : (0 : Int) < 2 ∧ ([⟨1, 1, none, true⟩, ⟨4, 4, some 40, true⟩, ⟨8, 8, some 0, false⟩, ⟨0, 4, none, true⟩] : List Mem).any
    (memDivSite false) = false := by decide

/-- **Every type description is answered with a layout or one of the two located diagnostics** (corollary of C08's
    `Lemmas/LayoutTotal`, on the model that follows the parser's checks of fixes 04ba5b8 / fb20c9b / 33adb94): for every
    description — any nesting, `packed`, `aligned(n)`, `_Alignas` with constant or type operands, bit-fields of any declared
    type and width, arrays of any (also negative) length — `declarator`/`struct_members`/`struct_decl`/`union_decl` never
    divide by zero (32-bit wrap-around of `align * 8` included); they succeed exactly on the descriptions the two checks
    accept, and otherwise answer "alignment must be a power of two no larger than 2^28" or "bit-field has non-integer type". -/
theorem C13_layout_total (t : Ty) :
    t.layout ≠ .error .divByZero ∧ ((∃ l, t.layout = .ok l) ↔ t.accepted = true) ∧
    (t.accepted = false → t.layout = .error .badAlign ∨ t.layout = .error .bitfieldType) :=
  ⟨layout_ne_divByZero t, layout_ok_iff t, layout_diag_of_not_accepted t⟩

example : (Ty.struct false (some 3) .nil).accepted = false ∧ (Ty.struct false (some 3) .nil).layout = .error .badAlign ∧
    (Ty.struct false none (.cons ⟨some 1, true⟩ .nil (.struct false none .nil) .nil)).layout = .error .bitfieldType := by decide

end Layout

/-! ## get_struct_member (owner: C04/C05) -/
section Member
open ChibiVerif.Init ChibiVerif.C13Sites

/-- **`get_struct_member` never dereferences a NULL `mem->name`** (anonymous struct/union members, unnamed bit-fields), for
    every type and every name, and it finds a member exactly when the model the other properties use (`hasMember`) does. -/
theorem C13_member_lookup_nocrash (ty : Ty) (n : String) :
    ∃ r, getStructMemberI ty n = .ok r ∧ r.isSome = hasMember ty n :=
  getStructMemberI_ok ty n

example : getStructMemberI (.struct [(⟨none, 0, some (0, 3)⟩, .scalar 4 .int),
    (⟨none, 4, none⟩, .union [(⟨some "a", 0, none⟩, .scalar 4 .int), (⟨some "b", 0, none⟩, .scalar 4 .flt)] 4 false),
    (⟨some "c", 8, none⟩, .scalar 4 .int)] 12 false) "b" = .ok (some 1) := by decide

end Member

/-! ## the initializer parser (owner: C05) -/
section Init
open ChibiVerif.Init ChibiVerif.C13Init

/-- full statement over ALL model inputs: on every type description, every token list and every recursion budget the
    initializer parser answers with a tree or a diagnostic (or runs out of the budget), never at an abort site.  False only on
    descriptions no declaration produces (`is_flexible` set on an aggregate whose last member is not an array:
    Findings/C13Sites.lean); until fix 8f0968b it was also false for cc1 itself (union without members). -/
def C13_init_nocrash_Statement : Prop :=
  ∀ (ty : Ty) (toks : List ITok) (fuel : Nat) (w : String),
    toksOK toks = true → initializer2 fuel ty toks (newInit ty true) ≠ .error (.crash w)

/-- **C13 (initializer parser never aborts; partial only in the two data invariants).**  For every type as
    `struct_members` builds it — `is_flexible` only on an aggregate whose last member is an array (`tyOK`; empty structs and
    unions, anonymous members, unnamed bit-fields, any nesting included) —, every token list whose string literals have
    element size 1, 2 or 4 as `tokenize` makes them (`toksOK`), and EVERY recursion budget: `initializer2` started on
    `new_initializer(ty, true)` ends in a tree of the shape of the type, in a diagnostic, or in the exhausted budget — never
    in `children[i]` outside the allocated block (negative, too large or range designators, excess elements, flexible
    array members whose bound is still unknown), a member index outside the list (designators naming members of anonymous
    structs and unions, unnamed bit-fields skipped), a read past a string literal, or `unreachable()`. -/
theorem C13_init_nocrash_partial (ty : Ty) (toks : List ITok) (hty : tyOK ty = true) (htoks : toksOK toks = true) (fuel : Nat) :
    (∀ w, initializer2 fuel ty toks (newInit ty true) ≠ .error (.crash w)) ∧
    (∀ init rest, initializer2 fuel ty toks (newInit ty true) = .ok (init, rest) → shape ty init = true) := by
  have h := (nc_all fuel).initializer2 ty toks (newInit ty true) hty (newInit_shape ty true hty) htoks
  refine ⟨fun w => h.not_crash w, ?_⟩
  intro init rest he
  rw [he] at h
  exact h.1

/-- the same for `parseInit` (the entry point the C05 tie runs), with its standard budget -/
theorem C13_parseInit_nocrash_partial (ty : Ty) (toks : List ITok) (hty : tyOK ty = true) (htoks : toksOK toks = true) (w : String) :
    parseInit ty toks ≠ .error (.crash w) :=
  (C13_init_nocrash_partial ty toks hty htoks (stdFuel ty toks)).1 w

-- non-vacuity: struct { int a; int :3; union { int b; float c; }; char d[]; } with `{ .c = 1, [5] = 2, {3}, 4, 5 }`
example : tyOK (.struct [(⟨some "a", 0, none⟩, .scalar 4 .int), (⟨none, 4, some (0, 3)⟩, .scalar 4 .int),
      (⟨none, 8, none⟩, .union [(⟨some "b", 0, none⟩, .scalar 4 .int), (⟨some "c", 0, none⟩, .scalar 4 .flt)] 4 false),
      (⟨some "d", 12, none⟩, .array (.scalar 1 .int) 0)] 12 true) = true ∧
    toksOK [.lbrace, .dot "c", .eq, .expr (Expr.num 1), .comma, .idx 5, .eq, .expr (Expr.num 2), .comma, .lbrace,
      .expr (Expr.num 3), .rbrace, .comma, .str 0 [97, 0] 1, .rbrace] = true := by decide

/-- **Designator indices are checked before they are used.**  `array_designator` answers a negative index, an index at or
    beyond the bound, and a range reaching beyond it with the diagnostic; what it lets through lies inside `children`. -/
theorem C13_init_designator_bounds (len : Nat) (toks : List ITok) (b e : Nat) (rest : List ITok)
    (h : arrayDesignator len toks = .ok (b, e, rest)) : b ≤ e ∧ e < len := by
  cases toks with
  | nil => simp [arrayDesignator] at h
  | cons x r =>
    cases x with
    | idx a =>
      simp only [arrayDesignator] at h
      split at h
      · cases h
      · simp only [Except.ok.injEq, Prod.mk.injEq] at h
        omega
    | range a c =>
      simp only [arrayDesignator] at h
      split at h
      · cases h
      · split at h
        · cases h
        · split at h
          · cases h
          · simp only [Except.ok.injEq, Prod.mk.injEq] at h
            omega
    | _ => simp [arrayDesignator] at h

example : arrayDesignator 3 [.idx (-1)] = .error (.diag "array designator index exceeds array bounds") ∧
    arrayDesignator 3 [.range 1 3] = .error (.diag "array designator index exceeds array bounds") ∧
    arrayDesignator 3 [.range 1 2, .eq] = .ok (1, 2, [.eq]) := by decide

/- The standard budget of `parseInit` is never exhausted (the C parser terminates on every token list):
   `∀ ty toks, parseInit ty toks ≠ .error .fuel` — formerly the open statement `C13_init_no_hang_Statement` of this file — is proved
   as `C13_init_no_hang` in Props/C13InitHang.lean (induction: Lemmas/C13InitFuel.lean), together with the explicit bound
   `needFuel ty toks = 2·|toks| + wt ty ≤ 2·|toks| + 4·nodes ty ≤ stdFuel ty toks` (`C13_init_fuel_bound`), independence of the
   answer from the budget beyond it (`C13_init_answer_stable`, with C05's monotonicity) and totality of `parseInit` on
   `tyOK`/`toksOK` inputs (`C13_parseInit_total`). -/

end Init

/-! ## literal readers (owner: C11) -/
section Literals
open ChibiVerif.Literals ChibiVerif.Gen.Literals ChibiVerif.C13Sites

/-- **The literal arms of `tokenize()` never read behind the terminating NUL.**  For EVERY byte list (NUL bytes, bytes
    ≥ 0x80, truncated UTF-8, `"\` or `'\` or `\x` directly before the end, unclosed literals, …) the instrumented double — in
    which every `p[i]` with `i` beyond the terminator, and every pointer beyond it handed to `read_escaped_char`,
    `decode_utf8` or `strchr`, is the outcome `overread` — computes exactly what the model of C11's theorems computes. -/
theorem C13_literals_no_overread (p : List Byte) : lexLiteralI p = lift (lexLiteral p) :=
  lexLiteralI_eq p

/-- in particular the over-read outcome is never produced -/
theorem C13_literals_never_overread (p : List Byte) (i : Nat) : lexLiteralI p ≠ .error (.overread i) := by
  rw [lexLiteralI_eq p]
  cases lexLiteral p <;> simp [lift]

/-- the readers one by one, entered with the opening quote at `p[q]` inside the text -/
theorem C13_string_reader_no_overread (r : StrReader) (ty : Ty) (p : List Byte) (q : Nat) (hq : q < p.length) :
    readStringI r ty p q = lift (readString r ty p q) :=
  readStringI_eq r ty p q hq

theorem C13_char_reader_no_overread (p : List Byte) (q : Nat) (hq : q < p.length) :
    readCharLiteralI p q = lift (readCharLiteral p q) :=
  readCharLiteralI_eq p q hq

/-- `read_escaped_char` on any text (octal: at most three digits, each read only after the one before it was a digit;
    hexadecimal: stops at the first byte that is not a digit, the terminator at the latest) -/
theorem C13_escape_no_overread (p : List Byte) : readEscapedCharI p = lift (readEscapedChar p) :=
  readEscapedCharI_eq p

-- non-vacuity: `"\` at the end of the text, `'\x` at the end, and a well-formed `u"a\377"`
example : (1 : Nat) < ([34#8, 92#8] : List Byte).length ∧
    readStringI .narrow .ty_char [34#8, 92#8] 0 = .error (.lit .unclosedString) ∧
    readCharLiteralI [39#8, 92#8, 120#8] 0 = .error (.lit .invalidHexEscape) ∧
    (lexLiteralI [117#8, 34#8, 97#8, 92#8, 51#8, 55#8, 55#8, 34#8]).toBool = true := by decide

end Literals

/-! ## read_macro_args (owner: C09) -/
section Args
open ChibiVerif.PP ChibiVerif.C13PP

/-- **Argument collection answers with arguments or one of three located diagnostics**, for every parameter list and every
    token list: "premature end of input" (`tok->kind == TK_EOF` is tested before `tok->next` is followed, so the reader
    never steps behind the end of the list), `expected ','`, `expected ')'`.  Corollary of `C09_args_one`. -/
theorem C13_macro_args_located (ps : List String) (va : Option String) (ts : List Tok) (e : Err)
    (h : readMacroArgs ps va ts = .error e) : e = .prematureEnd ∨ e = .expected "," ∨ e = .expected ")" :=
  readMacroArgs_error ps va ts e h

/-- an unbalanced invocation is answered by the diagnostic (restated from `C09_args_one`, second half) -/
theorem C13_macro_arg_unbalanced (readRest : Bool) (ts : List Tok) (e : Err)
    (h : readMacroArgOne readRest 0 ts = .error e) : e = .prematureEnd :=
  (ChibiVerif.Props.C09.C09_args_one readRest ts [] []).2 e h

example : readMacroArgs ["x"] none [{ kind := .punct, text := "(" }, { kind := .ident, text := "a" }] = .error .prematureEnd ∧
    readMacroArgs ["x"] none [{ kind := .ident, text := "a" }, { kind := .punct, text := "," }] = .error (.expected ")") := by
  decide

end Args

/-! ## conditional inclusion and `#if` arithmetic (owner: C10) -/
section Cond
open ChibiVerif.CondIncl ChibiVerif.PPExpr ChibiVerif.C13PP

/-- **Every failure of the conditional-inclusion machine is a located diagnostic of a directive**: stray `#elif`/`#else`/
    `#endif` (the `cond_incl == NULL` tests), "unterminated conditional directive", `#error`, a malformed directive — or the
    one class the evaluator of controlling expressions reports.  Never the include machine's `outOfFuel`/`cannotOpen`.
    For every line list and every macro table. -/
theorem C13_condincl_located (ls : List (Line Expr Body)) (defs : Defs Body) (d : Diag)
    (h : condMachine evC ls defs = .error d) :
    d = .strayElif ∨ d = .strayElse ∨ d = .strayEndif ∨ d = .unterminated ∨ d = .errorDirective ∨ d = .badDirective ∨
      d = .badExpr := by
  rcases condMachine_error evC ls defs d h with hc | ⟨c, df, he⟩
  · rcases hc with h | h | h | h | h | h <;> simp [h]
  · simp [evC_error c df d he]

example : condMachine evC [.opens (.ifE (.bin .div (.num 1 false) (.num 0 false)))] ([] : Defs Body) = .error .badExpr ∧
    condMachine evC [.opens (.ifE (.num 1 false))] ([] : Defs Body) = .error .unterminated := by decide

/-- **Division by zero in `#if` is the diagnostic, never a trap** (both arithmetics), and apart from it and a shift count
    outside [0, 64) chibicc's host arithmetic answers every operator — `INTMAX_MIN / -1` and `% -1` included. -/
theorem C13_ppif_arith_total (op : BinOp) (a b : Val) (hop : op ≠ .land ∧ op ≠ .lor) :
    (∃ v, arith false op a b = .ok v) ∨
    (arith false op a b = .error .divZero ∧ (op = .div ∨ op = .mod) ∧ b.bits = 0#64) ∨
    (arith false op a b = .error .undefinedBeh ∧ badShift op b = true) :=
  arith_total op a b hop

theorem C13_ppif_div_zero (strict : Bool) (a b : Val) (h : b.bits = 0#64) :
    arith strict .div a b = .error .divZero ∧ arith strict .mod a b = .error .divZero :=
  arith_div_zero strict a b h

example : BinOp.div ≠ .land ∧ BinOp.div ≠ .lor := by decide
example : (arith false .div ⟨0x8000000000000000#64, false⟩ ⟨0xFFFFFFFFFFFFFFFF#64, false⟩).toBool = true := by decide

end Cond

/-! ## the include machine (owner: C10) -/
section Incl
open ChibiVerif.CondIncl ChibiVerif.IncludeSearch ChibiVerif.C13PP

/-- **Without `#include` lines the step budget `length` suffices** (the include machine is then the conditional machine,
    which consumes one line per step); with them it need not: Findings/C13Sites.lean (include cycle). -/
theorem C13_include_plain_no_hang (fs : FS PPExpr.Expr PPExpr.Body) (paths : List String) (g : Bool) (fuel : Nat)
    (ls : List (String × ILine PPExpr.Expr PPExpr.Body)) (m : Mode) (s : IState PPExpr.Body)
    (hp : ∀ x ∈ ls, C13PP.ILine.isPlain x.2 = true) (hl : ls.length ≤ fuel) :
    runInc PPExpr.evC fs paths g fuel ls m s ≠ .error .outOfFuel := by
  rcases runInc_plain_no_fuel PPExpr.evC fs paths g fuel ls m s hp hl with h | ⟨c, d, h⟩
  · exact h
  · have := evC_error c d _ h
    cases this

example : ∀ x ∈ [("f.c", (ILine.c (.plain .other) : ILine PPExpr.Expr PPExpr.Body))], C13PP.ILine.isPlain x.2 = true := by
  intro x hx
  simp only [List.mem_singleton] at hx
  subst hx
  rfl

end Incl

end ChibiVerif.Props.C13
