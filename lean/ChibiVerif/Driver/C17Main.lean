/- line-protocol driver for C17: `drv_c17 hashmap` -/
import ChibiVerif.Driver.HashMapCmd

def main (args : List String) : IO UInt32 := do
  match args with
  | "hashmap" :: _ => ChibiVerif.Driver.hashmapMain
  | _ =>
    IO.eprintln "usage: drv_c17 hashmap"
    return 2
