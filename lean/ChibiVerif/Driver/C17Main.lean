/- line-protocol driver for C17: `drv_c17 hashmap` (string keys, hashmap.c alone),
   `drv_c17 hashmapx` (byte-string keys through the clients' key conventions) -/
import ChibiVerif.Driver.HashMapCmd
import ChibiVerif.Driver.C17ClientsCmd

def main (args : List String) : IO UInt32 := do
  match args with
  | "hashmap" :: _ => ChibiVerif.Driver.hashmapMain
  | "hashmapx" :: _ => ChibiVerif.Driver.hashmapxMain
  | _ =>
    IO.eprintln "usage: drv_c17 hashmap|hashmapx"
    return 2
