/- `drv_c09 subst`: ONE invocation of a function-like macro through `subst` alone — no rescanning — so that the function the
   theorems `C09_subst_spec` / `C09_subst_spec_partial` are about is run against the real `subst()` of preprocess.c
   (tools/harness/pp_harness.c `-subst`, which calls the static function directly) and not only through `preprocess2`.

   input   `<fuel> <tok> ... | <tok> ...`    the tokens of the definitions file (only `#define`/`#undef` lines), a word `|`,
                                             the tokens of the invocation file: `name ( arguments ) anything`
   output  `na`                              the first token of the invocation does not name a function-like macro followed by `(`
           `args <err>`                      `read_macro_args` rejects the invocation
           `ok <c><p> ; <M> ; <O> ; <S>`     c = 1: the replacement list is C11 (`Props.C09.isC11`), p = 1: it has `p ## q ##` with
                                             both arguments empty (`hasPlacemarkerChain`);
                                             M = `subst` of Model/PP.lean, O = `substOld` (before `fix:` 5a15c0f,
                                             Lemmas/C09Placemarker.lean), S = `Spec.PPSpec.subst` (`err noFullReplacement` when the
                                             pre-expansion of some argument fails); each `ok <tok> ...` | `err <name>`
   The pre-expander is the model's `preprocess2` from the table the definitions leave; for the specification it is made
   pure (state dropped: do not put `__COUNTER__` into arguments). -/
import ChibiVerif.Driver.PPCmd
import ChibiVerif.Lemmas.C09Placemarker

namespace ChibiVerif.Driver
open ChibiVerif.PP

def splitBar (ws : List String) : List String × List String :=
  (ws.takeWhile (· ≠ "|"), (ws.dropWhile (· ≠ "|")).drop 1)

def runLineSubst (line : String) : String :=
  let ws := (line.trimAscii.toString.splitOn " ").filter (· ≠ "")
  match ws with
  | [] => "bad-op"
  | f :: rest =>
    let (dw, iw) := splitBar rest
    match f.toNat?, dw.mapM parseTok, iw.mapM parseTok with
    | some fuel, some defs, some inv =>
      match preprocess2 Lex.lexOne fuel (initSt) defs with
      | .error e => "defs " ++ errName e
      | .ok (_, st) =>
        match inv with
        | [] => "na"
        | tok :: rest =>
          match findMacro st.defs tok with
          | some (.fn params va body) =>
            if !textIs rest.head? "(" then "na"
            else match readMacroArgs params va (rest.drop 1) with
            | .error e => "args " ++ errName e
            | .ok (args, _, _) =>
              let pp : PreExpand := fun st ts => preprocess2 Lex.lexOne fuel st ts
              let full : List Tok → List Tok := fun ts =>
                match preprocess2 Lex.lexOne fuel st (addHideset ts []) with
                | .ok (e, _) => e
                | .error _ => []
              let m := (subst Lex.lexOne pp st body args false).map (·.1)
              let o := (substOld Lex.lexOne pp st body args false).map (·.1)
              -- the specification takes the complete macro replacement of every argument as given: when `preprocess2`
              -- rejects an argument (e.g. a nested invocation with the wrong number of arguments) there is none
              let fullOk := args.all fun a =>
                match preprocess2 Lex.lexOne fuel st (addHideset a.toks []) with
                | .ok _ => true
                | .error _ => false
              let s := ChibiVerif.Spec.PPSpec.subst Lex.lexOne full true body args
              let c11 := !anyBad true args body
              " ; ".intercalate [
                "ok " ++ (if c11 then "1" else "0") ++ (if hasPlacemarkerChain args body then "1" else "0"),
                showRes m, showRes o, if fullOk then showRes s else "err noFullReplacement"]
          | _ => "na"
    | _, _, _ => "bad-op"

partial def ppLoopSubst (h : IO.FS.Stream) : IO UInt32 := do
  let line ← h.getLine
  if line.isEmpty then return 0
  IO.println (runLineSubst line)
  ppLoopSubst h

def ppMainSubst : IO UInt32 := do ppLoopSubst (← IO.getStdin)

end ChibiVerif.Driver
